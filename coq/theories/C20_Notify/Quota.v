(* C20 - quotas: the broker's counters are exact (they equal the number of live channels and of
   subscriptions, globally and per subject), never exceed the quotas, and are all back to zero
   once every channel has been cleaned up. *)
From Coq Require Import List NArith Bool Lia.
From V Require Import Lib.Check Gen.Params C20_Notify.Model C20_Notify.Base C20_Notify.Views.
Import ListNotations.
Local Open Scope N_scope.

Ltac inv H := inversion H; subst; clear H.
Ltac simp_st := cbn [quo chans nextc projs queue notif calls nsubs metrics set_metrics set_nextc set_nsubs set_calls set_chans set_projs set_queue set_notif putc putp].
Ltac simp_st_in H := cbn [quo chans nextc projs queue notif calls nsubs metrics set_metrics set_nextc set_nsubs set_calls set_chans set_projs set_queue set_notif putc putp] in H.

(* ---- sorted keys and weighted sums over association lists ---- *)
Inductive sk {V} : list (N * V) -> Prop :=
| sk_nil : sk []
| sk_cons k v m : sk m -> (forall k', In k' (map fst m) -> k < k') -> sk ((k, v) :: m).

Lemma get_none_keys {V} k (m : list (N * V)) : get k m = None <-> ~ In k (map fst m).
Proof.
  induction m as [|[k' v'] r IH]; cbn; [tauto|].
  destruct (k =? k') eqn:E.
  - apply N.eqb_eq in E; subst. split; [discriminate | intros H; exfalso; apply H; left; reflexivity].
  - apply N.eqb_neq in E. rewrite IH. split; [intros H [K|K]; [congruence | tauto] | tauto].
Qed.

Lemma keys_set {V} k (v : V) m k' : In k' (map fst (set k v m)) <-> k' = k \/ In k' (map fst m).
Proof.
  induction m as [|[k2 v2] r IH]; cbn; [intuition congruence|].
  destruct (k =? k2) eqn:E; cbn.
  - apply N.eqb_eq in E; subst. intuition congruence.
  - destruct (k <? k2); cbn; [intuition congruence|]. rewrite IH. intuition congruence.
Qed.

Lemma sk_set {V} k (v : V) m : sk m -> sk (set k v m).
Proof.
  induction 1 as [|k2 v2 r S IH Hlt]; cbn; [constructor; [constructor | intros ? []]|].
  destruct (k =? k2) eqn:E; [apply N.eqb_eq in E; subst; constructor; auto|].
  destruct (k <? k2) eqn:E2.
  - apply N.ltb_lt in E2. constructor; [constructor; auto|]. cbn. intros k' [<-|K]; [exact E2 | specialize (Hlt _ K); lia].
  - constructor; [exact IH|]. intros k' K. apply keys_set in K. destruct K as [->|K]; [|auto].
    apply N.eqb_neq in E. apply N.ltb_ge in E2. lia.
Qed.

Lemma keys_del {V} k (m : list (N * V)) k' : In k' (map fst (del k m)) -> In k' (map fst m).
Proof.
  induction m as [|[k2 v2] r IH]; cbn; [tauto|]. destruct (k =? k2); cbn; [auto | intros [H|H]; auto].
Qed.

Lemma sk_del {V} k (m : list (N * V)) : sk m -> sk (del k m).
Proof.
  induction 1 as [|k2 v2 r S IH Hlt]; cbn; [constructor|].
  destruct (k =? k2); [exact IH|]. constructor; [exact IH|]. intros k' K. apply Hlt. eapply keys_del; eauto.
Qed.

Lemma del_notin {V} k (m : list (N * V)) : ~ In k (map fst m) -> del k m = m.
Proof.
  induction m as [|[k2 v2] r IH]; cbn; [reflexivity|]. intros H.
  destruct (k =? k2) eqn:E; [apply N.eqb_eq in E; subst; exfalso; apply H; left; reflexivity|].
  rewrite IH; [reflexivity | tauto].
Qed.

Definition wsum {V} (w : V -> N) (m : list (N * V)) : N := fold_right (fun x a => w (snd x) + a) 0 m.

Lemma wsum_cons {V} (w : V -> N) k v r : wsum w ((k, v) :: r) = w v + wsum w r.
Proof. reflexivity. Qed.

Lemma wsum_set_none {V} (w : V -> N) k v m : get k m = None -> wsum w (set k v m) = wsum w m + w v.
Proof.
  induction m as [|[k2 v2] r IH]; cbn [get set]; [intros _; rewrite !wsum_cons; cbn; lia|].
  destruct (k =? k2) eqn:E; [discriminate|]. intros H. destruct (k <? k2); rewrite !wsum_cons; [lia|]. rewrite IH; [lia | exact H].
Qed.

Lemma wsum_set_some {V} (w : V -> N) k v old m : sk m -> get k m = Some old -> wsum w (set k v m) + w old = wsum w m + w v.
Proof.
  induction 1 as [|k2 v2 r S IH Hlt]; cbn [get set]; [discriminate|].
  destruct (k =? k2) eqn:E; [intros H; inv H; rewrite !wsum_cons; lia|].
  intros H. destruct (k <? k2) eqn:E2.
  - exfalso. apply get_some_key in H. specialize (Hlt _ H). apply N.ltb_lt in E2. lia.
  - rewrite !wsum_cons. specialize (IH H). lia.
Qed.

Lemma wsum_del {V} (w : V -> N) k v m : sk m -> get k m = Some v -> wsum w (del k m) + w v = wsum w m.
Proof.
  induction 1 as [|k2 v2 r S IH Hlt]; cbn [get del]; [discriminate|].
  destruct (k =? k2) eqn:E.
  - intros H; inv H. apply N.eqb_eq in E; subst. rewrite wsum_cons, del_notin; [lia|]. intros K. specialize (Hlt _ K). lia.
  - intros H. rewrite !wsum_cons. specialize (IH H). lia.
Qed.

Lemma wsum_ge {V} (w : V -> N) k v m : get k m = Some v -> w v <= wsum w m.
Proof.
  induction m as [|[k2 v2] r IH]; cbn [get]; [discriminate|]. rewrite wsum_cons.
  destruct (k =? k2); [intros H; inv H; lia|]. intros H. specialize (IH H). lia.
Qed.

Lemma wsum_zero {V} (w : V -> N) m : wsum w m = 0 -> forall k v, get k m = Some v -> w v = 0.
Proof. intros H k v G. pose proof (wsum_ge w _ _ _ G). lia. Qed.

Lemma wsum_all_zero {V} (w : V -> N) m : (forall k v, In (k, v) m -> w v = 0) -> wsum w m = 0.
Proof.
  induction m as [|[k v] r IH]; [reflexivity|]. intros H. rewrite wsum_cons, (H k v), IH; [reflexivity | | left; reflexivity].
  intros k' v' K. apply (H k' v'). right. exact K.
Qed.

Lemma lenN_wsum {V} (m : list (N * V)) : lenN m = wsum (fun _ => 1) m.
Proof. unfold lenN. induction m as [|[k v] r IH]; [reflexivity|]. rewrite wsum_cons, <- IH. cbn [length]. lia. Qed.

Lemma all_none_nil {V} (m : list (N * V)) : (forall k, get k m = None) -> m = [].
Proof. destruct m as [|[k v] r]; [reflexivity|]. intros H. specialize (H k). cbn in H. rewrite N.eqb_refl in H. discriminate. Qed.

Lemma count_live_wsum m : count_live m = wsum (fun ch => if c_live ch then 1 else 0) m.
Proof.
  unfold count_live, lenN. induction m as [|[k ch] r IH]; [reflexivity|].
  rewrite wsum_cons, <- IH. cbn [filter snd]. destruct (c_live ch); cbn [length]; lia.
Qed.

(* ---- number of cleanup calls of a channel in flight ---- *)
Definition is_cln_of (c : N) (k : call) : bool := match k with KCln c' _ _ => c' =? c | _ => false end.
Definition ncln (c : N) (l : list call) : nat := length (filter (is_cln_of c) l).

Lemma ncln_In c r b l : In (KCln c r b) l -> (1 <= ncln c l)%nat.
Proof.
  unfold ncln. induction l as [|x t IH]; cbn; [tauto|]. intros [->|H].
  - cbn. rewrite N.eqb_refl. cbn. lia.
  - specialize (IH H). destruct (is_cln_of c x); cbn; lia.
Qed.

Lemma ncln_rm1_other c k l : is_cln_of c k = false -> ncln c (rm1 k l) = ncln c l.
Proof.
  intros Hk. unfold ncln. induction l as [|x t IH]; cbn; [reflexivity|].
  destruct (call_eqb k x) eqn:E.
  - apply call_eqb_eq in E; subst. rewrite Hk. reflexivity.
  - cbn. destruct (is_cln_of c x); cbn; rewrite IH; reflexivity.
Qed.

Lemma ncln_rm1_self c k l : is_cln_of c k = true -> In k l -> S (ncln c (rm1 k l)) = ncln c l.
Proof.
  intros Hk. unfold ncln. induction l as [|x t IH]; cbn; [tauto|].
  destruct (call_eqb k x) eqn:E.
  - apply call_eqb_eq in E; subst. rewrite Hk. reflexivity.
  - intros [->|H]; [assert (call_eqb k k = true) by (apply call_eqb_eq; reflexivity); congruence|].
    cbn. destruct (is_cln_of c x); cbn; rewrite <- (IH H); reflexivity.
Qed.

Lemma ncln_unbusy c c0 l : ncln c (unbusy c0 l) = ncln c l.
Proof.
  unfold ncln, unbusy. induction l as [|x t IH]; cbn; [reflexivity|].
  assert (E : is_cln_of c (match x with KCln c' r true => if c0 =? c' then KCln c' r false else x | _ => x end) = is_cln_of c x).
  { destruct x as [| | |c' r [|]]; try reflexivity. destruct (c0 =? c'); reflexivity. }
  rewrite E. destruct (is_cln_of c x); cbn; rewrite IH; reflexivity.
Qed.

Lemma In_unbusy_cln c r b c0 l : In (KCln c r b) (unbusy c0 l) -> exists b', In (KCln c r b') l.
Proof.
  unfold unbusy. rewrite in_map_iff. intros [x [E H]].
  destruct x as [| | |c' r' [|]]; try discriminate E.
  - destruct (c0 =? c'); inv E; eauto.
  - inv E. eauto.
Qed.

(* ---- the accounting invariant ---- *)
Definition nsub_of (ch : chan) : N := lenN (c_subs ch).
Definition tot_subs (s : state) : N := wsum nsub_of (chans s).
Definition w_subj_subs (j : N) (ch : chan) : N := if c_subj ch =? j then nsub_of ch else 0.
Definition w_subj_chans (j : N) (ch : chan) : N := if (c_subj ch =? j) && c_live ch then 1 else 0.
Definition subj_subs (s : state) (j : N) : N := wsum (w_subj_subs j) (chans s).
Definition subj_chans (s : state) (j : N) : N := wsum (w_subj_chans j) (chans s).

Record QInv (q : quotas) (s : state) : Prop := mkQInv {
  Q_quo : quo s = q;
  Q_sk : sk (chans s);
  Q_sks : forall c ch, get c (chans s) = Some ch -> sk (c_subs ch);
  Q_fresh : forall c, nextc s <= c -> get c (chans s) = None;
  Q_tot : nsubs s = tot_subs s;
  Q_met : forall j, metric s j = (subj_chans s j, subj_subs s j);
  Q_dead : forall c ch, get c (chans s) = Some ch -> c_live ch = false -> c_subs ch = [];
  Q_cln : forall c rem b, In (KCln c rem b) (calls s) ->
          exists ch, get c (chans s) = Some ch /\ c_term ch = true /\ c_live ch = true /\ (forall p, get p (c_subs ch) <> None -> In p rem);
  Q_one : forall c, (ncln c (calls s) <= 1)%nat;
  Q_b1 : count_live (chans s) <= q_ch q;
  Q_b2 : nsubs s <= q_sub q;
  Q_b3 : forall j, fst (metric s j) <= q_chs q /\ snd (metric s j) <= q_subs q }.

Lemma metric_set s0 s j x j' : metric (set_metrics s0 (set j x (metrics s))) j' = if j' =? j then x else metric s j'.
Proof. unfold metric. cbn. rewrite get_set. destruct (j' =? j); reflexivity. Qed.

Lemma metric_calls s l j : metric (set_calls s l) j = metric s j.
Proof. reflexivity. Qed.

Lemma sk_keys {V W} (m : list (N * V)) (m' : list (N * W)) : map fst m' = map fst m -> sk m -> sk m'.
Proof.
  intros E S. revert m' E. induction S as [|k v r S IH Hlt]; intros m' E.
  - destruct m'; [constructor | discriminate].
  - destruct m' as [|[k' v'] r']; [discriminate|]. cbn in E. inv E. constructor; [apply IH; auto|]. rewrite H1. exact Hlt.
Qed.

Lemma keys_lenN {V W} (m : list (N * V)) (m' : list (N * W)) : map fst m' = map fst m -> lenN m' = lenN m.
Proof. intros E. unfold lenN. rewrite <- (map_length fst m'), E, map_length. reflexivity. Qed.

Lemma keys_get {V W} (m : list (N * V)) (m' : list (N * W)) k : map fst m' = map fst m -> get k m' <> None -> get k m <> None.
Proof. intros E H K. apply H. apply get_none_keys. rewrite E. apply get_none_keys. exact K. Qed.

(* steps that keep every channel's subject, subscriptions, liveness and terminated flag *)
Definition chan_same (x ch : chan) : Prop :=
  c_subj x = c_subj ch /\ map fst (c_subs x) = map fst (c_subs ch) /\ c_live x = c_live ch /\ (c_term ch = true -> c_term x = true).

Lemma wsum_same (w : chan -> N) c x ch m : sk m -> get c m = Some ch -> w x = w ch -> wsum w (set c x m) = wsum w m.
Proof. intros S G E. pose proof (wsum_set_some w c x ch m S G). lia. Qed.

Definition cln_le (s : state) (l' : list call) : Prop :=
  forall c r b, In (KCln c r b) l' ->
  exists b' r', In (KCln c r' b') (calls s) /\ forall ch p, get c (chans s) = Some ch -> get p (c_subs ch) <> None -> In p r' -> In p r.

Lemma cln_le_same s l' : (forall c r b, In (KCln c r b) l' -> exists b', In (KCln c r b') (calls s)) -> cln_le s l'.
Proof. intros H c r b K. destruct (H _ _ _ K) as [b' K']. exists b', r. split; auto. Qed.

Lemma QInv_same q s s' :
  QInv q s ->
  (chans s' = chans s \/ exists c ch x, get c (chans s) = Some ch /\ chans s' = set c x (chans s) /\ chan_same x ch) ->
  quo s' = quo s -> nextc s' = nextc s -> nsubs s' = nsubs s -> (forall j, metric s' j = metric s j) ->
  cln_le s (calls s') ->
  (forall c, ncln c (calls s') = ncln c (calls s)) ->
  QInv q s'.
Proof.
  intros I Hc Hq Hn Hs Hmet Hk Ho.
  destruct Hc as [Hc|(c & ch & x & G & Hc & Sj & Ss & Sl & St)].
  - split; unfold tot_subs, subj_subs, subj_chans in *; rewrite ?Hc, ?Hq, ?Hn, ?Hs; try apply I.
    + intros j. rewrite Hmet. apply (Q_met _ _ I).
    + intros c r b H. destruct (Hk _ _ _ H) as (b' & r' & H' & Hr). destruct (Q_cln _ _ I _ _ _ H') as (ch & G & T & L & R).
      exists ch. repeat split; auto. intros p Hp. eapply Hr; eauto.
    + intros c. rewrite Ho. apply (Q_one _ _ I).
    + intros j. rewrite Hmet. apply (Q_b3 _ _ I).
  - pose proof (Q_sk _ _ I) as S.
    assert (W : forall w : chan -> N, w x = w ch -> wsum w (chans s') = wsum w (chans s)).
    { intros w E. rewrite Hc. eapply wsum_same; eauto. }
    split; rewrite ?Hq, ?Hn, ?Hs.
    + apply I.
    + rewrite Hc. apply sk_set. exact S.
    + intros c' ch'. rewrite Hc, get_set. destruct (c' =? c); [intros H; inv H; eapply sk_keys; [exact Ss | eapply (Q_sks _ _ I); eauto] | apply (Q_sks _ _ I)].
    + intros c' H. rewrite Hc, get_set. destruct (c' =? c) eqn:E; [|apply (Q_fresh _ _ I); auto].
      apply N.eqb_eq in E; subst. rewrite (Q_fresh _ _ I c H) in G. discriminate.
    + unfold tot_subs. rewrite W; [apply I | unfold nsub_of; apply keys_lenN; exact Ss].
    + intros j. rewrite Hmet, (Q_met _ _ I). unfold subj_chans, subj_subs. rewrite !W; [reflexivity | |].
      * unfold w_subj_subs, nsub_of. rewrite Sj, (keys_lenN _ _ Ss). reflexivity.
      * unfold w_subj_chans. rewrite Sj, Sl. reflexivity.
    + intros c' ch'. rewrite Hc, get_set. destruct (c' =? c) eqn:E; [|apply (Q_dead _ _ I)].
      intros H; inv H. rewrite Sl. apply N.eqb_eq in E; subst. intros Hl. pose proof (Q_dead _ _ I _ _ G Hl) as Hd.
      rewrite Hd in Ss. destruct (c_subs ch'); [reflexivity | discriminate].
    + intros c' r b H. destruct (Hk _ _ _ H) as (b' & r' & H' & Hr). destruct (Q_cln _ _ I _ _ _ H') as (ch' & G' & T' & L' & R').
      rewrite Hc, get_set. destruct (c' =? c) eqn:E; [|exists ch'; repeat split; eauto].
      apply N.eqb_eq in E; subst. rewrite G in G'. inv G'. exists x. rewrite Sl. repeat split; eauto.
      intros p Hp. eapply Hr; eauto; [|apply R']; eapply keys_get; eauto.
    + intros c'. rewrite Ho. apply (Q_one _ _ I).
    + rewrite count_live_wsum, W; [rewrite <- count_live_wsum; apply I | rewrite Sl; reflexivity].
    + apply I.
    + intros j. rewrite Hmet. apply (Q_b3 _ _ I).
Qed.

(* calls change without touching cleanup entries *)
Lemma cln_cons_other x l : is_cln x = false ->
  (forall c r b, In (KCln c r b) (x :: l) -> exists b', In (KCln c r b') l) /\ (forall c, ncln c (x :: l) = ncln c l).
Proof.
  intros Hx. split.
  - intros c r b [H|H]; [subst; discriminate | eauto].
  - intros c. unfold ncln. cbn. destruct x; try discriminate Hx; reflexivity.
Qed.

Lemma cln_rm1_other k l : is_cln k = false ->
  (forall c r b, In (KCln c r b) (rm1 k l) -> exists b', In (KCln c r b') l) /\ (forall c, ncln c (rm1 k l) = ncln c l).
Proof.
  intros Hk. split.
  - intros c r b H. apply In_rm1 in H. eauto.
  - intros c. apply ncln_rm1_other. destruct k; try discriminate Hk; reflexivity.
Qed.

Lemma cln_repl_other k k' l : is_cln k = false -> is_cln k' = false ->
  (forall c r b, In (KCln c r b) (repl k k' l) -> exists b', In (KCln c r b') l) /\ (forall c, ncln c (repl k k' l) = ncln c l).
Proof.
  intros Hk Hk'. unfold repl. split.
  - intros c r b [H|H]; [subst; discriminate | apply In_rm1 in H; eauto].
  - intros c. destruct (cln_cons_other k' (rm1 k l) Hk') as [_ E]. rewrite E. apply ncln_rm1_other.
    destruct k; try discriminate Hk; reflexivity.
Qed.

Lemma cln_refl l :
  (forall c r b, In (KCln c r b) l -> exists b', In (KCln c r b') l) /\ (forall c, ncln c l = ncln c l).
Proof. split; eauto. Qed.

Section QStep.
Variable q : quotas.
Variables (s : state).
Hypothesis I : QInv q s.

Lemma q_same_state : QInv q s. Proof. exact I. Qed.

(* rewriting one channel's token / watcher state / flags *)
Lemma q_putc c ch x l :
  get c (chans s) = Some ch -> chan_same x ch ->
  (forall c r b, In (KCln c r b) l -> exists b', In (KCln c r b') (calls s)) -> (forall c, ncln c l = ncln c (calls s)) ->
  QInv q (set_calls (putc c x s) l).
Proof.
  intros G Sm K1 K2. eapply QInv_same; [exact I | right; exists c, ch, x; repeat split; try apply Sm; exact G | | | | | apply cln_le_same; exact K1 | exact K2]; reflexivity.
Qed.

Lemma q_calls s1 l :
  chans s1 = chans s -> quo s1 = quo s -> nextc s1 = nextc s -> nsubs s1 = nsubs s -> metrics s1 = metrics s ->
  (forall c r b, In (KCln c r b) l -> exists b', In (KCln c r b') (calls s)) -> (forall c, ncln c l = ncln c (calls s)) ->
  QInv q (set_calls s1 l).
Proof. intros Hc Hq Hn Hs Hm K1 K2. eapply QInv_same; [exact I | left; exact Hc | exact Hq | exact Hn | exact Hs | | apply cln_le_same; exact K1 | exact K2]. intros j. unfold metric. cbn. rewrite Hm. reflexivity. Qed.

Lemma q_new_chan subj s' o : new_chan subj s = (s', o) -> QInv q s'.
Proof.
  unfold new_chan. rewrite (Q_quo _ _ I). destruct (q_ch q <=? count_live (chans s)) eqn:Eb; [intros H; inv H; exact I|].
  apply N.leb_gt in Eb.
  set (c := nextc s). set (nw := mkChan subj [] false true false WNone).
  assert (Gc : get c (chans s) = None) by (apply (Q_fresh _ _ I); unfold c; lia).
  assert (K : forall nc ns, metric s subj = (nc, ns) -> nc + 1 <= q_chs q ->
              QInv q (set_metrics (set_nextc (putc c nw s) (c + 1)) (set subj (nc + 1, ns) (metrics s)))).
  { intros nc ns Hm Hb.
    assert (W : forall w : chan -> N, wsum w (set c nw (chans s)) = wsum w (chans s) + w nw) by (intros w; apply wsum_set_none; exact Gc).
    assert (Hmet : forall j, metric (set_metrics (set_nextc (putc c nw s) (c + 1)) (set subj (nc + 1, ns) (metrics s))) j =
                             if j =? subj then (nc + 1, ns) else metric s j).
    { intros j. unfold metric. cbn. rewrite get_set. destruct (j =? subj); reflexivity. }
    split; cbn [quo chans nextc nsubs calls set_metrics set_nextc putc set_chans].
    - apply I.
    - apply sk_set. apply I.
    - intros c' ch'. rewrite get_set. destruct (c' =? c); [intros H; inv H; constructor | apply (Q_sks _ _ I)].
    - intros c' H. rewrite get_set. destruct (c' =? c) eqn:E; [apply N.eqb_eq in E; lia | apply (Q_fresh _ _ I); unfold c in *; lia].
    - unfold tot_subs. simp_st. rewrite W. rewrite (Q_tot _ _ I). unfold tot_subs, nsub_of, nw, lenN. cbn [c_subs length]. lia.
    - intros j. rewrite Hmet. unfold subj_chans, subj_subs. cbn [chans set_metrics set_nextc putc set_chans]. rewrite !W.
      pose proof (Q_met _ _ I j) as Mj. unfold subj_chans, subj_subs in Mj.
      unfold w_subj_subs at 2, w_subj_chans at 2, nsub_of, nw, lenN. cbn [c_subj c_subs c_live length andb]. destruct (N.eqb_spec j subj) as [->|Hne].
      + rewrite !N.eqb_refl. rewrite Hm in Mj. inv Mj. cbn. f_equal; lia.
      + assert (Es : (subj =? j) = false) by (apply N.eqb_neq; congruence). rewrite Es, Mj. cbn. f_equal; lia.
    - intros c' ch'. rewrite get_set. destruct (c' =? c); [intros H; inv H; discriminate | apply (Q_dead _ _ I)].
    - intros c' r b H. destruct (Q_cln _ _ I _ _ _ H) as (ch' & G' & R'). rewrite get_set. destruct (c' =? c) eqn:E; [|eauto].
      apply N.eqb_eq in E; subst. congruence.
    - apply (Q_one _ _ I).
    - rewrite count_live_wsum, W. unfold nw. cbn [c_live]. rewrite <- count_live_wsum. lia.
    - apply I.
    - intros j. rewrite Hmet. destruct (j =? subj) eqn:E; [|apply (Q_b3 _ _ I)].
      cbn. split; [exact Hb|]. pose proof (Q_b3 _ _ I subj) as B. rewrite Hm in B. apply B. }
  destruct (get subj (metrics s)) as [[nc ns]|] eqn:Gm.
  - destruct (q_chs q <=? nc) eqn:Eq; [intros H; inv H; exact I|]. apply N.leb_gt in Eq.
    intros H; inv H. apply K; [unfold metric; rewrite Gm; reflexivity | lia].
  - rewrite first_checked_true. destruct (q_chs q <=? 0) eqn:Eq.
    + intros H; inv H.
      eapply QInv_same; [exact I | left; reflexivity | reflexivity | reflexivity | reflexivity | | apply cln_le_same; eauto | reflexivity].
      intros j. unfold metric. cbn. rewrite get_set. destruct (j =? subj) eqn:E; [|reflexivity].
      apply N.eqb_eq in E; subst. rewrite Gm. reflexivity.
    + apply N.leb_gt in Eq. intros H; inv H. apply (K 0 0); [unfold metric; rewrite Gm; reflexivity | lia].
Qed.

Lemma QInv_projs x : QInv q (set_projs s x).
Proof. eapply QInv_same; [exact I | left; reflexivity | reflexivity | reflexivity | reflexivity | reflexivity | apply cln_le_same; eauto | reflexivity]. Qed.

Lemma q_sub_reg0 c p s' o : sub_reg0 c p s = (s', o) -> QInv q s'.
Proof.
  unfold sub_reg0. rewrite (Q_quo _ _ I). destruct (live_chan s c) as [ch|] eqn:L; [|intros H; inv H; exact I].
  pose proof (live_chan_get _ _ _ L) as G.
  assert (Lv : c_live ch = true) by (unfold live_chan in L; rewrite G in L; destruct (c_live ch); [reflexivity | discriminate]).
  destruct (c_term ch) eqn:Et; [intros H; inv H; exact I|].
  destruct (get (c_subj ch) (metrics s)) as [[nc ns]|] eqn:Gm; [|intros H; inv H; exact I].
  destruct (q_sub q <=? nsubs s) eqn:E1; [intros H; inv H; exact I|]. apply N.leb_gt in E1.
  destruct (q_subs q <=? ns) eqn:E2; [intros H; inv H; exact I|]. apply N.leb_gt in E2.
  assert (Ens : forall x, QInv q x -> QInv q x) by auto.
  destruct (get p (c_subs ch)) as [d0|] eqn:Gp; intros H; inv H.
  - destruct (cln_cons_other (KSub c p false) (calls s) eq_refl) as [K1 K2].
    eapply QInv_same; [exact I | left; apply ensure_chans | | | | | apply cln_le_same |]; cbn; rewrite ?ensure_calls; auto;
      unfold ensure_proj; destruct (get p (projs s)); reflexivity.
  - set (ch' := ch_subs ch (set p 0 (c_subs ch))).
    pose proof (Q_sk _ _ I) as S.
    assert (Hm : metric s (c_subj ch) = (nc, ns)) by (unfold metric; rewrite Gm; reflexivity).
    assert (Ln : nsub_of ch' = nsub_of ch + 1).
    { unfold nsub_of, ch'. cbn [c_subs ch_subs]. rewrite !lenN_wsum. exact (wsum_set_none (fun _ : N => 1) p 0 (c_subs ch) Gp). }
    assert (W : forall w : chan -> N, wsum w (set c ch' (chans s)) + w ch = wsum w (chans s) + w ch').
    { intros w. apply wsum_set_some; auto. }
    assert (Ch : chans (ensure_proj p s) = chans s) by apply ensure_chans.
    split; cbn [quo chans nextc nsubs calls set_metrics set_nsubs set_calls putc set_chans]; rewrite ?Ch.
    + unfold ensure_proj. destruct (get p (projs s)); apply I.
    + apply sk_set. exact S.
    + intros c' x. rewrite get_set. destruct (c' =? c); [|apply (Q_sks _ _ I)].
      intros H; inv H. cbn. apply sk_set. eapply (Q_sks _ _ I); eauto.
    + intros c' H. assert (Hn : nextc (ensure_proj p s) = nextc s) by (unfold ensure_proj; destruct (get p (projs s)); reflexivity).
      rewrite Hn in H. rewrite get_set. destruct (c' =? c) eqn:E; [|apply (Q_fresh _ _ I); auto].
      apply N.eqb_eq in E; subst. rewrite (Q_fresh _ _ I c H) in G. discriminate.
    + unfold tot_subs. simp_st. rewrite Ch. specialize (W nsub_of). rewrite (Q_tot _ _ I). unfold tot_subs. lia.
    + intros j. rewrite metric_calls, metric_set. unfold subj_chans, subj_subs. simp_st. rewrite Ch.
      pose proof (Q_met _ _ I j) as Mj. unfold subj_chans, subj_subs in Mj.
      pose proof (W (w_subj_subs j)) as W1. pose proof (W (w_subj_chans j)) as W2.
      assert (A1 : w_subj_subs j ch' = if c_subj ch =? j then nsub_of ch' else 0) by reflexivity.
      assert (A2 : w_subj_subs j ch = if c_subj ch =? j then nsub_of ch else 0) by reflexivity.
      assert (A3 : w_subj_chans j ch' = w_subj_chans j ch) by reflexivity.
      rewrite A1, A2 in W1. rewrite A3 in W2.
      destruct (N.eqb_spec j (c_subj ch)) as [->|Hne].
      * rewrite N.eqb_refl in W1. rewrite Hm in Mj. inv Mj. f_equal; lia.
      * assert (Es : (c_subj ch =? j) = false) by (apply N.eqb_neq; congruence). rewrite Es in W1. rewrite Mj. f_equal; lia.
    + intros c' x. rewrite get_set. destruct (c' =? c); [intros H; inv H; cbn; congruence | apply (Q_dead _ _ I)].
    + rewrite ensure_calls. intros c' r b [H|H]; [discriminate|].
      destruct (Q_cln _ _ I _ _ _ H) as (x & G' & T' & R'). rewrite get_set. destruct (c' =? c) eqn:E; [|eauto].
      apply N.eqb_eq in E; subst. rewrite G in G'. inv G'. congruence.
    + rewrite ensure_calls. intros c'. destruct (cln_cons_other (KSub c p false) (calls s) eq_refl) as [_ K2]. rewrite K2. apply (Q_one _ _ I).
    + rewrite count_live_wsum. pose proof (W (fun ch => if c_live ch then 1 else 0)) as W1. cbn beta in W1. change (c_live ch') with (c_live ch) in W1.
      pose proof (Q_b1 _ _ I) as B. rewrite count_live_wsum in B. lia.
    + lia.
    + intros j. rewrite metric_calls, metric_set. destruct (j =? c_subj ch) eqn:E; [|apply (Q_b3 _ _ I)].
      cbn. pose proof (Q_b3 _ _ I (c_subj ch)) as B. rewrite Hm in B. cbn in B. split; [apply B | lia].
Qed.

(* the broker part of Unsubscribe *)
Lemma q_uns_core0 c p s1 b l :
  uns_core0 c p s = Some (s1, b) ->
  (forall c' r b', In (KCln c' r b') l -> exists b2 r2, In (KCln c' r2 b2) (calls s) /\ forall x, In x r2 -> (c' = c -> x <> p) -> In x r) ->
  (forall c', ncln c' l = ncln c' (calls s)) ->
  QInv q (set_calls s1 l).
Proof.
  unfold uns_core0. destruct (live_chan s c) as [ch|] eqn:L; [|discriminate].
  pose proof (live_chan_get _ _ _ L) as G.
  assert (Lv : c_live ch = true) by (unfold live_chan in L; rewrite G in L; destruct (c_live ch); [reflexivity | discriminate]).
  destruct (get p (c_subs ch)) as [d0|] eqn:Gp.
  - destruct (get (c_subj ch) (metrics s)) as [[nc ns]|] eqn:Gm; [|discriminate].
    intros H K1 K2. inv H.
    set (ch' := ch_subs ch (del p (c_subs ch))).
    pose proof (Q_sk _ _ I) as S.
    assert (Sc : sk (c_subs ch)) by (eapply (Q_sks _ _ I); eauto).
    assert (Hm : metric s (c_subj ch) = (nc, ns)) by (unfold metric; rewrite Gm; reflexivity).
    assert (Ln : nsub_of ch' + 1 = nsub_of ch).
    { unfold nsub_of, ch'. cbn [c_subs ch_subs]. rewrite !lenN_wsum. exact (wsum_del (fun _ : N => 1) p d0 (c_subs ch) Sc Gp). }
    assert (W : forall w : chan -> N, wsum w (set c ch' (chans s)) + w ch = wsum w (chans s) + w ch').
    { intros w. apply wsum_set_some; auto. }
    assert (T1 : nsub_of ch <= tot_subs s) by (eapply wsum_ge; eauto).
    assert (T2 : nsub_of ch <= subj_subs s (c_subj ch)).
    { pose proof (wsum_ge (w_subj_subs (c_subj ch)) _ _ _ G) as X. unfold w_subj_subs in X at 1. rewrite N.eqb_refl in X. exact X. }
    pose proof (Q_met _ _ I (c_subj ch)) as Ms. rewrite Hm in Ms. inv Ms.
    split; cbn [quo chans nextc nsubs calls set_metrics set_nsubs set_calls putc set_chans].
    + apply I.
    + apply sk_set. exact S.
    + intros c' x. rewrite get_set. destruct (c' =? c); [|apply (Q_sks _ _ I)].
      intros H; inv H. cbn. apply sk_del. exact Sc.
    + intros c' H. rewrite get_set. destruct (c' =? c) eqn:E; [|apply (Q_fresh _ _ I); auto].
      apply N.eqb_eq in E; subst. rewrite (Q_fresh _ _ I c H) in G. discriminate.
    + unfold tot_subs in *. simp_st. specialize (W nsub_of). rewrite (Q_tot _ _ I). unfold tot_subs. lia.
    + intros j. rewrite metric_calls, metric_set. unfold subj_chans, subj_subs in *. simp_st.
      pose proof (Q_met _ _ I j) as Mj. unfold subj_chans, subj_subs in Mj.
      pose proof (W (w_subj_subs j)) as W1. pose proof (W (w_subj_chans j)) as W2.
      assert (A1 : w_subj_subs j ch' = if c_subj ch =? j then nsub_of ch' else 0) by reflexivity.
      assert (A2 : w_subj_subs j ch = if c_subj ch =? j then nsub_of ch else 0) by reflexivity.
      assert (A3 : w_subj_chans j ch' = w_subj_chans j ch) by reflexivity.
      rewrite A1, A2 in W1. rewrite A3 in W2.
      destruct (N.eqb_spec j (c_subj ch)) as [->|Hne].
      * rewrite N.eqb_refl in W1. f_equal; lia.
      * assert (Es : (c_subj ch =? j) = false) by (apply N.eqb_neq; congruence). rewrite Es in W1. rewrite Mj. f_equal; lia.
    + intros c' x. rewrite get_set. destruct (c' =? c); [intros H; inv H; cbn; congruence | apply (Q_dead _ _ I)].
    + intros c' r b' H. destruct (K1 _ _ _ H) as (b2 & r2 & H2 & Hr).
      destruct (Q_cln _ _ I _ _ _ H2) as (x & G' & T' & L' & R'). rewrite get_set. destruct (c' =? c) eqn:E.
      * apply N.eqb_eq in E; subst c'. rewrite G in G'. inv G'. exists ch'. repeat split; auto.
        intros p' Hp'. cbn in Hp'. rewrite get_del in Hp'. destruct (p' =? p) eqn:Ep; [congruence|].
        apply Hr; [apply R'; exact Hp' | intros _; apply N.eqb_neq; exact Ep].
      * apply N.eqb_neq in E. exists x. repeat split; auto; try (intros p' Hp'; apply Hr; [auto | congruence]).
    + intros c'. rewrite K2. apply (Q_one _ _ I).
    + rewrite count_live_wsum. pose proof (W (fun ch => if c_live ch then 1 else 0)) as W1. cbn beta in W1. change (c_live ch') with (c_live ch) in W1.
      pose proof (Q_b1 _ _ I) as B. rewrite count_live_wsum in B. lia.
    + pose proof (Q_b2 _ _ I). lia.
    + intros j. rewrite metric_calls, metric_set. destruct (j =? c_subj ch) eqn:E; [|apply (Q_b3 _ _ I)].
      cbn. pose proof (Q_b3 _ _ I (c_subj ch)) as B. rewrite Hm in B. cbn in B. split; [apply B | lia].
  - intros H K1 K2. inv H.
    eapply QInv_same; [exact I | left; reflexivity | | | | | | exact K2]; try reflexivity.
    cbn. intros c' r b' H. destruct (K1 _ _ _ H) as (b2 & r2 & H2 & Hr). exists b2, r2. split; [exact H2|].
    intros x p' Gx Hp' Hin. apply Hr; [exact Hin|]. intros ->. rewrite G in Gx. inv Gx. congruence.
Qed.

Lemma ncln_zero c l : (forall r b, ~ In (KCln c r b) l) -> ncln c l = 0%nat.
Proof.
  unfold ncln. induction l as [|x t IH]; intros H; [reflexivity|]. cbn.
  destruct (is_cln_of c x) eqn:E.
  - destruct x; try discriminate E. cbn in E. apply N.eqb_eq in E; subst. exfalso. eapply H. left. reflexivity.
  - apply IH. intros r b K. eapply H. right. exact K.
Qed.

Lemma q_cln_term c s' o : cln_term c s = Some (s', o) -> QInv q s'.
Proof.
  unfold cln_term. destruct (nextc s <=? c); [discriminate|].
  destruct (live_chan s c) as [ch|] eqn:L; [|intros H; inv H; exact I].
  pose proof (live_chan_get _ _ _ L) as G.
  assert (Lv : c_live ch = true) by (unfold live_chan in L; rewrite G in L; destruct (c_live ch); [reflexivity | discriminate]).
  destruct (c_term ch) eqn:Et; intros H; inv H; [exact I|].
  assert (Z : ncln c (calls s) = 0%nat).
  { apply ncln_zero. intros r b K. destruct (Q_cln _ _ I _ _ _ K) as (x & G' & T' & _). rewrite G in G'. inv G'. congruence. }
  assert (I1 : QInv q (set_calls (putc c (ch_term ch true) s) (calls s))).
  { apply (q_putc c ch); auto; [repeat split; auto | eauto]. }
  split; simp_st; try apply I1.
  - intros c' r b [K|K].
    + inv K. exists (ch_term ch true). rewrite get_set, N.eqb_refl. repeat split; auto.
      intros p Hp. cbn in Hp. destruct (get p (c_subs ch)) eqn:Gp; [|congruence]. eapply get_some_key; eauto.
    + apply (Q_cln _ _ I1 c' r b). exact K.
  - intros c'. unfold ncln. cbn [filter is_cln_of]. destruct (c =? c') eqn:E.
    + apply N.eqb_eq in E; subst c'. cbn [length]. fold (ncln c (calls s)). rewrite Z. lia.
    + apply (Q_one _ _ I).
Qed.

Lemma q_cln_fin c s' : cln_fin c s = Some s' -> QInv q s'.
Proof.
  unfold cln_fin. destruct (has (KCln c [] false) (calls s)) eqn:Hh; [|discriminate]. apply has_In in Hh.
  destruct (Q_cln _ _ I _ _ _ Hh) as (ch & G & T & Lv & R). rewrite G.
  assert (Se : c_subs ch = []).
  { apply all_none_nil. intros k. destruct (get k (c_subs ch)) eqn:Gk; [|reflexivity]. exfalso. apply (R k). congruence. }
  destruct (metric s (c_subj ch)) as [nc ns] eqn:Hm. intros H; inv H.
  set (ch' := ch_live ch false).
  pose proof (Q_sk _ _ I) as S.
  assert (W : forall w : chan -> N, wsum w (set c ch' (chans s)) + w ch = wsum w (chans s) + w ch') by (intros w; apply wsum_set_some; auto).
  pose proof (Q_met _ _ I (c_subj ch)) as Ms. rewrite Hm in Ms. inv Ms.
  assert (Nz : ncln c (rm1 (KCln c [] false) (calls s)) = 0%nat).
  { pose proof (ncln_rm1_self c (KCln c [] false) (calls s)) as X. cbn in X. rewrite N.eqb_refl in X. specialize (X eq_refl Hh).
    pose proof (Q_one _ _ I c). lia. }
  split; simp_st.
  - apply I.
  - apply sk_set. exact S.
  - intros c' x. rewrite get_set. destruct (c' =? c); [intros H; inv H; cbn; eapply (Q_sks _ _ I); eauto | apply (Q_sks _ _ I)].
  - intros c' H. rewrite get_set. destruct (c' =? c) eqn:E; [|apply (Q_fresh _ _ I); auto].
    apply N.eqb_eq in E; subst. rewrite (Q_fresh _ _ I c H) in G. discriminate.
  - unfold tot_subs. simp_st. specialize (W nsub_of). change (nsub_of ch') with (nsub_of ch) in W. rewrite (Q_tot _ _ I). unfold tot_subs. lia.
  - intros j. rewrite metric_calls, metric_set. unfold subj_chans, subj_subs. simp_st.
    pose proof (Q_met _ _ I j) as Mj. unfold subj_chans, subj_subs in Mj.
    pose proof (W (w_subj_subs j)) as W1. pose proof (W (w_subj_chans j)) as W2.
    change (w_subj_subs j ch') with (w_subj_subs j ch) in W1.
    assert (A1 : w_subj_chans j ch' = 0) by (unfold w_subj_chans, ch'; cbn; rewrite andb_false_r; reflexivity).
    assert (A2 : w_subj_chans j ch = if c_subj ch =? j then 1 else 0) by (unfold w_subj_chans; rewrite Lv, andb_true_r; reflexivity).
    rewrite A1, A2 in W2.
    destruct (N.eqb_spec j (c_subj ch)) as [->|Hne].
    + rewrite N.eqb_refl in W2. f_equal; unfold subj_chans, subj_subs; lia.
    + assert (Es : (c_subj ch =? j) = false) by (apply N.eqb_neq; congruence). rewrite Es in W2. rewrite Mj. f_equal; lia.
  - intros c' x. rewrite get_set. destruct (c' =? c); [intros H; inv H; intros _; exact Se | apply (Q_dead _ _ I)].
  - intros c' r b K. pose proof (In_rm1 _ _ _ K) as K'. destruct (Q_cln _ _ I _ _ _ K') as (x & G' & R').
    rewrite get_set. destruct (c' =? c) eqn:E; [|eauto].
    apply N.eqb_eq in E; subst c'. pose proof (ncln_In _ _ _ _ K). lia.
  - intros c'. destruct (is_cln_of c' (KCln c [] false)) eqn:E.
    + pose proof (ncln_rm1_self c' _ _ E Hh). pose proof (Q_one _ _ I c'). lia.
    + rewrite (ncln_rm1_other c' _ _ E). apply (Q_one _ _ I).
  - rewrite count_live_wsum. pose proof (W (fun ch => if c_live ch then 1 else 0)) as W1. cbn beta in W1.
    change (c_live ch') with false in W1. rewrite Lv in W1. cbn iota in W1. pose proof (Q_b1 _ _ I) as B. rewrite count_live_wsum in B. lia.
  - apply I.
  - intros j. rewrite metric_calls, metric_set. destruct (j =? c_subj ch) eqn:E; [|apply (Q_b3 _ _ I)].
    cbn. pose proof (Q_b3 _ _ I (c_subj ch)) as B. rewrite Hm in B. cbn in B. split; [lia | apply B].
Qed.

End QStep.

Lemma q_sub_reg q s c p s' o : QInv q s -> sub_reg c p s = (s', o) -> QInv q s'.
Proof.
  intros I H. destruct (sub_reg_cases _ _ _ _ _ H) as [->|(_ & s0 & H0 & ->)]; [exact I|].
  unfold mark, putp. apply QInv_projs. eapply q_sub_reg0; eauto.
Qed.

Lemma q_uns_core q s c p s1 b l :
  QInv q s -> uns_core c p s = Some (s1, b) ->
  (forall c' r b', In (KCln c' r b') l -> exists b2 r2, In (KCln c' r2 b2) (calls s) /\ forall x, In x r2 -> (c' = c -> x <> p) -> In x r) ->
  (forall c', ncln c' l = ncln c' (calls s)) ->
  QInv q (set_calls s1 l).
Proof.
  intros I U K1 K2. unfold uns_core in U. destruct (uns_core0 c p s) as [[s0 b0]|] eqn:U0; [|discriminate].
  pose proof (q_uns_core0 q s I c p s0 b0 l U0 K1 K2) as I0.
  destruct b0; inv U; [|exact I0].
  rewrite mark_if_eq. unfold mark, putp.
  match goal with |- QInv q (set_calls (set_projs s0 ?x) l) => change (QInv q (set_projs (set_calls s0 l) x)) end.
  apply QInv_projs. exact I0.
Qed.

Lemma ensure_rest p s : quo (ensure_proj p s) = quo s /\ nextc (ensure_proj p s) = nextc s
                        /\ nsubs (ensure_proj p s) = nsubs s /\ metrics (ensure_proj p s) = metrics s.
Proof. unfold ensure_proj. destruct (get p (projs s)); repeat split. Qed.

Lemma cln_rem_In c l r : cln_rem c l = Some r -> In (KCln c r false) l.
Proof.
  induction l as [|x t IH]; cbn; [discriminate|].
  destruct x as [| | |c' r' [|]]; try solve [intros K; right; auto].
  destruct (c =? c') eqn:E; [intros K; inv K; apply N.eqb_eq in E; subst; left; reflexivity | intros K; right; auto].
Qed.

Lemma keys_scan_mark s subs : map fst (scan_mark s subs) = map fst subs.
Proof. unfold scan_mark. rewrite map_map. apply map_ext. intros [p d]. cbn. destruct (d <? offset s p); reflexivity. Qed.

Lemma uns_core_calls c p s s1 b : uns_core c p s = Some (s1, b) -> calls s1 = calls s.
Proof. intros H. destruct (uns_core_spec _ _ _ _ _ H) as (_ & _ & _ & _ & C & _). exact C. Qed.

Theorem QInv_step q s a s' o : QInv q s -> step s a = Some (s', o) -> QInv q s'.
Proof.
  intros I H.
  assert (Left : forall s1 l, chans s1 = chans s -> quo s1 = quo s -> nextc s1 = nextc s -> nsubs s1 = nsubs s -> metrics s1 = metrics s ->
                 (forall c r b, In (KCln c r b) l -> exists b', In (KCln c r b') (calls s)) -> (forall c, ncln c l = ncln c (calls s)) ->
                 QInv q (set_calls s1 l)) by (intros; eapply q_calls; eauto).
  assert (Same : forall s1, s1 = set_calls s1 (calls s1)) by (intros []; reflexivity).
  destruct a; cbn [step] in H.
  - inv H. eapply q_new_chan; eauto.
  - inv H. unfold upd_store. destruct (ensure_rest p s) as (E1 & E2 & E3 & E4).
    destruct (cln_cons_other (KUpd p) (calls s) eq_refl) as [K1 K2].
    apply Left; cbn; rewrite ?ensure_chans, ?ensure_calls; auto.
  - destruct (upd_enq p s) as [s1|] eqn:E; inv H. apply upd_enq_spec in E; subst.
    destruct (cln_rm1_other (KUpd p) (calls s) eq_refl) as [K1 K2].
    apply (Left (set_queue s (queue s ++ [p]))); auto.
  - destruct (has (KUpd p) (calls s) && negb (can_enq s) && upd_blocking); inv H. exact I.
  - inv H. eapply q_sub_reg; eauto.
  - destruct (has (KSub c p false) (calls s)); inv H.
    destruct (cln_repl_other (KSub c p false) (KSub c p true) (calls s) eq_refl eq_refl) as [K1 K2].
    rewrite mark_late_eq. apply (Left s); auto.
  - destruct (has (KSub c p true) (calls s) && can_enq s); inv H.
    destruct (cln_rm1_other (KSub c p true) (calls s) eq_refl) as [K1 K2].
    apply (Left (set_queue s (queue s ++ [p]))); auto.
  - inv H. unfold uns_reg in H1. destruct (live_chan s c); [|inv H1; exact I].
    destruct (uns_core c p s) as [[s1 [|]]|] eqn:U; inv H1; try exact I.
    + pose proof (uns_core_calls _ _ _ _ _ U) as C.
      eapply (q_uns_core q s c p s1 true _ I); [exact U | |].
      * intros c' r b' [K|K]; [discriminate|]. rewrite C in K. exists b', r. split; auto.
      * intros c'. rewrite C. destruct (cln_cons_other (KUns c p false) (calls s) eq_refl) as [_ K2]. apply K2.
    + pose proof (uns_core_calls _ _ _ _ _ U) as C. rewrite (Same s').
      eapply (q_uns_core q s c p s' false _ I); [exact U | |]; rewrite C.
      * intros c' r b' K. exists b', r. split; auto.
      * reflexivity.
  - destruct (has (KUns c p false) (calls s)); inv H.
    destruct (cln_repl_other (KUns c p false) (KUns c p true) (calls s) eq_refl eq_refl) as [K1 K2].
    rewrite mark_late_eq. apply (Left s); auto.
  - destruct (has (KUns c p true) (calls s) && can_enq s); inv H.
    destruct (cln_rm1_other (KUns c p true) (calls s) eq_refl) as [K1 K2].
    apply (Left (set_queue s (queue s ++ [p])) (unbusy c (rm1 (KUns c p true) (calls s)))); auto.
    + intros c' r b K. apply In_unbusy_cln in K. destruct K as [b' K]. eapply K1; eauto.
    + intros c'. rewrite ncln_unbusy. apply K2.
  - eapply q_cln_term; eauto.
  - destruct (cln_reg c p s) as [s1|] eqn:E; inv H. unfold cln_reg in E.
    destruct (cln_rem c (calls s)) as [r|] eqn:Er; [|discriminate]. apply cln_rem_In in Er.
    destruct (memN p r); [|discriminate].
    assert (Nc : forall c' r' b', ncln c' (repl (KCln c r false) (KCln c r' b') (calls s)) = ncln c' (calls s)).
    { intros c' r' b'. unfold repl, ncln. cbn [filter is_cln_of]. fold (ncln c' (rm1 (KCln c r false) (calls s))).
      destruct (c =? c') eqn:Ec.
      - apply N.eqb_eq in Ec; subst c'. cbn [length]. apply (ncln_rm1_self c (KCln c r false)); [cbn; apply N.eqb_refl | exact Er].
      - apply ncln_rm1_other. cbn. exact Ec. }
    assert (Kc : forall b0 c' r0 b', In (KCln c' r0 b') (repl (KCln c r false) (KCln c (filter (fun x => negb (x =? p)) r) b0) (calls s)) ->
                 exists b2 r2, In (KCln c' r2 b2) (calls s) /\ forall x, In x r2 -> (c' = c -> x <> p) -> In x r0).
    { intros b0 c' r0 b' K. apply In_repl in K. destruct K as [K|K].
      - inv K. exists false, r. split; [exact Er|]. intros x Hx Hne. apply In_filter_neq. split; auto.
      - exists b', r0. split; auto. }
    destruct (uns_core c p s) as [[s1 [|]]|] eqn:U; inv E; pose proof (uns_core_calls _ _ _ _ _ U) as C; rewrite C.
    + eapply (q_uns_core q s c p s1 true _ I); [exact U | |].
      * intros c' r0 b' [K|K]; [discriminate | eapply Kc; eauto].
      * intros c'. destruct (cln_cons_other (KUns c p false) (repl (KCln c r false) (KCln c (filter (fun x => negb (x =? p)) r) true) (calls s)) eq_refl) as [_ K2].
        rewrite K2. apply Nc.
    + eapply (q_uns_core q s c p s1 false _ I); [exact U | |].
      * intros c' r0 b' K. eapply Kc; eauto.
      * intros c'. apply Nc.
  - destruct (cln_fin c s) as [s1|] eqn:E; inv H. eapply q_cln_fin; eauto.
  - destruct (notif s); try discriminate. destruct (queue s); inv H.
    rewrite (Same (set_notif (set_queue s l) (NGot n))). destruct (cln_refl (calls s)) as [K1 K2]. apply Left; auto.
  - destruct (notif s); inv H.
    match goal with |- QInv q ?x => rewrite (Same x) end. destruct (cln_refl (calls s)) as [K1 K2]. apply Left; auto.
  - destruct (notif s); try discriminate. destruct (memN c rem); inv H.
    destruct (get c (chans s)) as [ch|] eqn:G.
    + match goal with |- QInv q (set_notif (putc c ?x s) ?n) => change (QInv q (set_calls (set_notif (putc c x s) n) (calls s))) end.
      eapply QInv_same; [exact I | right; exists c, ch, (ch_tok ch true); repeat split; auto | | | | | apply cln_le_same |]; cbn; eauto.
    + match goal with |- QInv q ?x => rewrite (Same x) end. destruct (cln_refl (calls s)) as [K1 K2]. apply Left; auto.
  - destruct (live_chan s c) as [ch|] eqn:L; [|inv H; exact I]. pose proof (live_chan_get _ _ _ L) as G.
    destruct (c_w ch); inv H; try exact I.
    eapply QInv_same; [exact I | right; exists c, ch, (ch_w ch WIdle); repeat split; auto | | | | | apply cln_le_same |]; cbn; eauto.
  - destruct (get c (chans s)) as [ch|] eqn:G; [|discriminate]. destruct (c_w ch); try discriminate. destruct (c_tok ch); inv H.
    eapply QInv_same; [exact I | right; exists c, ch, (ch_w (ch_tok ch false) WGot); repeat split; auto | | | | | apply cln_le_same |]; cbn; eauto.
  - destruct (get c (chans s)) as [ch|] eqn:G; [|discriminate]. destruct (c_w ch); inv H.
    eapply QInv_same; [exact I | right; exists c, ch, (ch_w (ch_subs ch (scan_mark s (c_subs ch))) (WPend (scan_units s (c_subs ch)))); repeat split; auto | | | | | apply cln_le_same |]; cbn; eauto.
    apply keys_scan_mark.
  - destruct (get c (chans s)) as [ch|] eqn:G; [|discriminate]. destruct (c_w ch); inv H.
    eapply QInv_same; [exact I | right; exists c, ch, (ch_w ch WIdle); repeat split; auto | | | | | apply cln_le_same |]; cbn; eauto.
  - destruct (get c (chans s)) as [ch|] eqn:G; [|discriminate].
    assert (K : s' = putc c (ch_w ch WDone) s) by (destruct (c_w ch); inv H; reflexivity). subst s'.
    eapply QInv_same; [exact I | right; exists c, ch, (ch_w ch WDone); repeat split; auto | | | | | apply cln_le_same |]; cbn; eauto.
  - inv H. exact I.
  - destruct (m =? 1); [destruct (calls s); inv H; exact I|]. destruct (m =? 2); [destruct (quiet s); inv H; exact I|].
    destruct (m =? 3); [destruct (quiet s && (count_live (chans s) =? 0)); inv H; exact I|]. inv H. exact I.
  - discriminate.
Qed.

Lemma QInv_init q : QInv q (init q).
Proof.
  split; cbn; try reflexivity; try lia; try (intros; discriminate); try tauto; try (intros; apply N.le_0_l).
  - constructor.
Qed.

Theorem reach_QInv P q s evs : reach P q s evs -> QInv q s.
Proof. apply reach_inv; [apply QInv_init | intros; eapply QInv_step; eauto]. Qed.

(* the counters are the true numbers, and the true numbers respect the quotas *)
Theorem quota_invariant_proved :
  forall P q s evs, reach P q s evs ->
  count_live (chans s) <= q_ch q /\ tot_subs s <= q_sub q
  /\ (forall j, subj_chans s j <= q_chs q /\ subj_subs s j <= q_subs q)
  /\ nsubs s = tot_subs s /\ (forall j, metric s j = (subj_chans s j, subj_subs s j)).
Proof.
  intros P q s evs R. pose proof (reach_QInv _ _ _ _ R) as I.
  split; [apply I|]. split; [rewrite <- (Q_tot _ _ I); apply I|]. split; [|split; apply I].
  intros j. pose proof (Q_b3 _ _ I j) as B. rewrite (Q_met _ _ I j) in B. exact B.
Qed.

(* once every channel is cleaned up nothing is left of the quotas *)
Theorem cleanup_returns_all_proved :
  forall P q s evs, reach P q s evs -> count_live (chans s) = 0 ->
  nsubs s = 0 /\ forall j, metric s j = (0, 0).
Proof.
  intros P q s evs R Hz. pose proof (reach_QInv _ _ _ _ R) as I.
  rewrite count_live_wsum in Hz.
  assert (Dead : forall c ch, In (c, ch) (chans s) -> c_live ch = false /\ c_subs ch = []).
  { intros c ch Hin.
    assert (G : get c (chans s) = Some ch).
    { pose proof (Q_sk _ _ I) as S. clear - S Hin. induction S as [|k v r S IH Hlt]; [destruct Hin|].
      cbn. destruct Hin as [Hin|Hin].
      - inv Hin. rewrite N.eqb_refl. reflexivity.
      - destruct (c =? k) eqn:E; [|auto]. apply N.eqb_eq in E; subst. apply (in_map fst) in Hin. cbn [fst] in Hin. specialize (Hlt _ Hin). lia. }
    pose proof (wsum_zero _ _ Hz _ _ G) as Z. cbn in Z. destruct (c_live ch) eqn:L; [discriminate|].
    split; [reflexivity | eapply (Q_dead _ _ I); eauto]. }
  split.
  - rewrite (Q_tot _ _ I). apply wsum_all_zero. intros k v Hin. destruct (Dead _ _ Hin) as [_ E]. unfold nsub_of. rewrite E. reflexivity.
  - intros j. rewrite (Q_met _ _ I). unfold subj_chans, subj_subs. f_equal; apply wsum_all_zero; intros k v Hin; destruct (Dead _ _ Hin) as [L E].
    + unfold w_subj_chans. rewrite L, andb_false_r. reflexivity.
    + unfold w_subj_subs, nsub_of. rewrite E. destruct (c_subj v =? j); reflexivity.
Qed.
