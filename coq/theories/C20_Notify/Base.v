(* C20 - basic facts about the model's data structures and the generic induction principle. *)
From Coq Require Import List NArith Bool Lia.
From V Require Import Lib.Check Gen.Params C20_Notify.Model.
Import ListNotations.
Local Open Scope N_scope.

(* ---- association lists ---- *)
Lemma get_set_eq {V} k (v : V) m : get k (set k v m) = Some v.
Proof.
  induction m as [|[k' v'] r IH]; cbn; [rewrite N.eqb_refl; reflexivity|].
  destruct (k =? k') eqn:E; cbn; [rewrite N.eqb_refl; reflexivity|].
  destruct (k <? k'); cbn; [rewrite N.eqb_refl; reflexivity|]. rewrite E. exact IH.
Qed.

Lemma get_set_neq {V} k k' (v : V) m : k' <> k -> get k' (set k v m) = get k' m.
Proof.
  intros Hne. induction m as [|[k2 v2] r IH]; cbn.
  - destruct (k' =? k) eqn:E; [apply N.eqb_eq in E; congruence | reflexivity].
  - destruct (k =? k2) eqn:E; cbn.
    + apply N.eqb_eq in E; subst k2. destruct (k' =? k) eqn:E2; [apply N.eqb_eq in E2; congruence | reflexivity].
    + destruct (k <? k2); cbn.
      * destruct (k' =? k) eqn:E2; [apply N.eqb_eq in E2; congruence | reflexivity].
      * destruct (k' =? k2); [reflexivity | exact IH].
Qed.

Lemma get_set {V} k k' (v : V) m : get k' (set k v m) = if k' =? k then Some v else get k' m.
Proof.
  destruct (k' =? k) eqn:E; [apply N.eqb_eq in E; subst; apply get_set_eq | apply get_set_neq; apply N.eqb_neq; exact E].
Qed.

Lemma get_del {V} k k' (m : list (N * V)) : get k' (del k m) = if k' =? k then None else get k' m.
Proof.
  induction m as [|[k2 v2] r IH]; cbn; [destruct (k' =? k); reflexivity|].
  destruct (k =? k2) eqn:E; cbn.
  - apply N.eqb_eq in E; subst k2. rewrite IH. destruct (k' =? k); reflexivity.
  - rewrite IH. destruct (k' =? k2) eqn:E2; [|reflexivity].
    apply N.eqb_eq in E2; subst k2. rewrite N.eqb_sym, E. reflexivity.
Qed.

Lemma get_In {V} k (v : V) m : get k m = Some v -> In (k, v) m.
Proof.
  induction m as [|[k' v'] r IH]; cbn; [discriminate|].
  destruct (k =? k') eqn:E; intros H; [apply N.eqb_eq in E; inversion H; subst; left; reflexivity | right; auto].
Qed.

Lemma get_some_key {V} k (v : V) m : get k m = Some v -> In k (map fst m).
Proof. intros H. apply get_In in H. apply (in_map fst) in H. exact H. Qed.

(* ---- lists of numbers as sets ---- *)
Lemma memN_In c l : memN c l = true <-> In c l.
Proof.
  unfold memN. rewrite existsb_exists. split.
  - intros [x [H E]]. apply N.eqb_eq in E; subst; exact H.
  - intros H. exists c. split; [exact H | apply N.eqb_refl].
Qed.

Lemma memN_false c l : memN c l = false <-> ~ In c l.
Proof. rewrite <- memN_In. destruct (memN c l); split; congruence. Qed.

Lemma In_sadd c x l : In c (sadd x l) <-> c = x \/ In c l.
Proof.
  unfold sadd. destruct (memN x l) eqn:E.
  - apply memN_In in E. split; [auto | intros [->|H]; auto].
  - cbn. split; intros [H|H]; auto.
Qed.

Lemma In_fold_sadd c a b : In c (fold_right sadd b a) <-> In c a \/ In c b.
Proof.
  induction a as [|x a IH]; cbn; [tauto|]. rewrite In_sadd, IH. intuition congruence.
Qed.

Lemma In_merged c ts sd :
  In c (merged ts sd) <-> match get c ts with Some b => b = true | None => In c sd end.
Proof.
  unfold merged. rewrite In_fold_sadd, !filter_In.
  destruct (get c ts) as [[|]|] eqn:E.
  - split; [reflexivity|]. intros _. left. split; [eapply get_some_key; eauto | reflexivity].
  - split; [intros [[_ H]|[_ H]]; discriminate | discriminate].
  - split; [intros [[_ H]|[H _]]; [discriminate | exact H] | intros H; right; split; [exact H | reflexivity]].
Qed.

Lemma In_filter_neq c x l : In c (filter (fun y => negb (y =? x)) l) <-> In c l /\ c <> x.
Proof.
  rewrite filter_In. split; intros [H1 H2]; split; auto.
  - intros ->. rewrite N.eqb_refl in H2. discriminate.
  - apply negb_true_iff. apply N.eqb_neq. exact H2.
Qed.

(* ---- calls ---- *)
Lemma call_eqb_eq a b : call_eqb a b = true <-> a = b.
Proof.
  destruct a, b; cbn; try (split; [discriminate | congruence]).
  - rewrite N.eqb_eq. split; congruence.
  - rewrite !andb_true_iff, !N.eqb_eq, eqb_true_iff. split; [intros [[-> ->] ->]; reflexivity | intros H; inversion H; auto].
  - rewrite !andb_true_iff, !N.eqb_eq, eqb_true_iff. split; [intros [[-> ->] ->]; reflexivity | intros H; inversion H; auto].
  - rewrite !andb_true_iff, N.eqb_eq, eqb_true_iff, (list_eqb_eq N.eqb N.eqb_eq).
    split; [intros [[-> ->] ->]; reflexivity | intros H; inversion H; auto].
Qed.

Lemma has_In k l : has k l = true <-> In k l.
Proof.
  unfold has. rewrite existsb_exists. split.
  - intros [x [H E]]. apply call_eqb_eq in E; subst; exact H.
  - intros H. exists k. split; [exact H | apply call_eqb_eq; reflexivity].
Qed.

Lemma has_false k l : has k l = false <-> ~ In k l.
Proof. rewrite <- has_In. destruct (has k l); split; congruence. Qed.

Lemma In_rm1 x k l : In x (rm1 k l) -> In x l.
Proof.
  induction l as [|y r IH]; cbn; [tauto|]. destruct (call_eqb k y); cbn; [auto | intros [H|H]; auto].
Qed.

Lemma In_rm1_neq x k l : In x l -> x <> k -> In x (rm1 k l).
Proof.
  induction l as [|y r IH]; cbn; [tauto|]. intros [H|H] Hne.
  - subst y. destruct (call_eqb k x) eqn:E; [apply call_eqb_eq in E; congruence | left; reflexivity].
  - destruct (call_eqb k y); [exact H | right; auto].
Qed.

Lemma In_repl x k k' l : In x (repl k k' l) -> x = k' \/ In x l.
Proof. unfold repl. cbn. intros [H|H]; [left; auto | right; eapply In_rm1; eauto]. Qed.

Lemma In_repl_neq x k k' l : In x l -> x <> k -> In x (repl k k' l).
Proof. intros. unfold repl. right. apply In_rm1_neq; auto. Qed.

Lemma In_repl_new k k' l : In k' (repl k k' l).
Proof. left. reflexivity. Qed.

Definition is_cln (k : call) : bool := match k with KCln _ _ _ => true | _ => false end.

Lemma In_unbusy x c l : is_cln x = false -> (In x (unbusy c l) <-> In x l).
Proof.
  intros Hx. unfold unbusy. rewrite in_map_iff. split.
  - intros [y [E H]]. destruct y as [| | |c' r [|]]; try (subst; exact H).
    destruct (c =? c'); subst; [discriminate Hx | exact H].
  - intros H. exists x. split; [|exact H]. destruct x; try reflexivity. discriminate Hx.
Qed.

Lemma unbusy_nil c l : unbusy c l = [] -> l = [].
Proof. destruct l; [reflexivity | discriminate]. Qed.

(* ---- invariants by induction over reach ---- *)
Lemma reach_inv P q (I : state -> Prop) :
  I (init q) ->
  (forall s a s' o, I s -> P s a = true -> step s a = Some (s', o) -> I s') ->
  forall s evs, reach P q s evs -> I s.
Proof. intros H0 HS s evs R. induction R; eauto. Qed.

Lemma reach_weaken (P Q : state -> action -> bool) q s evs :
  (forall s a, P s a = true -> Q s a = true) -> reach P q s evs -> reach Q q s evs.
Proof. intros H R. induction R; econstructor; eauto. Qed.

Lemma run_reach P q s evs l s' evs' :
  reach P q s evs -> run P s l = Some (s', evs') -> reach P q s' (evs ++ evs').
Proof.
  revert s evs evs'. induction l as [|a r IH]; intros s evs evs' R H; cbn in H.
  - inversion H; subst. rewrite app_nil_r. exact R.
  - destruct (P s a) eqn:EP; [|discriminate]. destruct (step s a) as [[s1 o]|] eqn:ES; [|discriminate].
    destruct (run P s1 r) as [[s2 e2]|] eqn:ER; [|discriminate]. inversion H; subst.
    replace (evs ++ (a, o) :: e2) with ((evs ++ [(a, o)]) ++ e2) by (rewrite <- app_assoc; reflexivity).
    eapply IH; [|exact ER]. econstructor; eauto.
Qed.
