(* C20 - views of the state used by the invariants, and how the model's updates change them. *)
From Coq Require Import List NArith Bool Lia.
From V Require Import Lib.Check Gen.Params C20_Notify.Model C20_Notify.Base.
Import ListNotations.
Local Open Scope N_scope.

Definition subv (m : list (N * chan)) (c p : N) : option N :=
  match get c m with Some ch => get p (c_subs ch) | None => None end.
Definition tokv (m : list (N * chan)) (c : N) : bool := match get c m with Some ch => c_tok ch | None => false end.
Definition wv (m : list (N * chan)) (c : N) : wpc := match get c m with Some ch => c_w ch | None => WNone end.
Definition gp (m : list (N * proj)) (p : N) : proj := match get p m with Some x => x | None => proj0 end.
Definition offs (m : list (N * proj)) (p : N) : N := p_off (gp m p).
Definition eff (m : list (N * proj)) (p c : N) : Prop :=
  match get c (p_tosub (gp m p)) with Some b => b = true | None => In c (p_subd (gp m p)) end.

Lemma getp_gp p s : getp p s = gp (projs s) p. Proof. reflexivity. Qed.
Lemma offset_offs s p : offset s p = offs (projs s) p. Proof. reflexivity. Qed.

Lemma gp_set m p x p' : gp (set p x m) p' = if p' =? p then x else gp m p'.
Proof. unfold gp. rewrite get_set. destruct (p' =? p); reflexivity. Qed.

Lemma subv_set m c x c' p : subv (set c x m) c' p = if c' =? c then get p (c_subs x) else subv m c' p.
Proof. unfold subv. rewrite get_set. destruct (c' =? c); reflexivity. Qed.
Lemma tokv_set m c x c' : tokv (set c x m) c' = if c' =? c then c_tok x else tokv m c'.
Proof. unfold tokv. rewrite get_set. destruct (c' =? c); reflexivity. Qed.
Lemma wv_set m c x c' : wv (set c x m) c' = if c' =? c then c_w x else wv m c'.
Proof. unfold wv. rewrite get_set. destruct (c' =? c); reflexivity. Qed.

(* replacing a channel by one with the same subscriptions / token / watcher state *)
Lemma subv_set_same m c ch x c' p : get c m = Some ch -> c_subs x = c_subs ch -> subv (set c x m) c' p = subv m c' p.
Proof.
  intros G E. rewrite subv_set. destruct (c' =? c) eqn:Ec; [|reflexivity].
  apply N.eqb_eq in Ec; subst. unfold subv. rewrite G, E. reflexivity.
Qed.
Lemma tokv_set_same m c ch x c' : get c m = Some ch -> c_tok x = c_tok ch -> tokv (set c x m) c' = tokv m c'.
Proof.
  intros G E. rewrite tokv_set. destruct (c' =? c) eqn:Ec; [|reflexivity].
  apply N.eqb_eq in Ec; subst. unfold tokv. rewrite G, E. reflexivity.
Qed.
Lemma wv_set_same m c ch x c' : get c m = Some ch -> c_w x = c_w ch -> wv (set c x m) c' = wv m c'.
Proof.
  intros G E. rewrite wv_set. destruct (c' =? c) eqn:Ec; [|reflexivity].
  apply N.eqb_eq in Ec; subst. unfold wv. rewrite G, E. reflexivity.
Qed.

(* guaranteeProjection does not change any view *)
Lemma gp_ensure p s p' : gp (projs (ensure_proj p s)) p' = gp (projs s) p'.
Proof.
  unfold ensure_proj. destruct (get p (projs s)) eqn:E; [reflexivity|].
  cbn. rewrite gp_set. destruct (p' =? p) eqn:Ep; [|reflexivity].
  apply N.eqb_eq in Ep; subst. unfold gp. rewrite E. reflexivity.
Qed.
Lemma ensure_chans p s : chans (ensure_proj p s) = chans s.
Proof. unfold ensure_proj. destruct (get p (projs s)); reflexivity. Qed.
Lemma ensure_calls p s : calls (ensure_proj p s) = calls s.
Proof. unfold ensure_proj. destruct (get p (projs s)); reflexivity. Qed.
Lemma ensure_queue p s : queue (ensure_proj p s) = queue s.
Proof. unfold ensure_proj. destruct (get p (projs s)); reflexivity. Qed.
Lemma ensure_notif p s : notif (ensure_proj p s) = notif s.
Proof. unfold ensure_proj. destruct (get p (projs s)); reflexivity. Qed.

Lemma offs_eq m m' p : gp m' p = gp m p -> offs m' p = offs m p.
Proof. unfold offs. intros ->. reflexivity. Qed.
Lemma eff_eq m m' p c : gp m' p = gp m p -> (eff m' p c <-> eff m p c).
Proof. unfold eff. intros ->. tauto. Qed.

Lemma live_chan_get s c ch : live_chan s c = Some ch -> get c (chans s) = Some ch.
Proof. unfold live_chan. destruct (get c (chans s)) as [x|]; [|discriminate]. destruct (c_live x); congruence. Qed.

(* the scan of WatchChannel *)
Lemma get_scan_mark s p subs :
  get p (scan_mark s subs) = match get p subs with Some d => Some (if d <? offset s p then offset s p else d) | None => None end.
Proof.
  induction subs as [|[p' d'] r IH]; cbn; [reflexivity|].
  destruct (d' <? offset s p') eqn:E; cbn; destruct (p =? p') eqn:Ep; try exact IH.
  - apply N.eqb_eq in Ep; subst. rewrite E. reflexivity.
  - apply N.eqb_eq in Ep; subst. rewrite E. reflexivity.
Qed.

Lemma In_scan_units s p o subs : In (p, o) (scan_units s subs) -> o = offset s p.
Proof.
  unfold scan_units. rewrite in_flat_map. intros [[p' d'] [_ H]]. cbn in H.
  destruct (d' <? offset s p'); cbn in H; [|tauto]. destruct H as [H|[]]. inversion H; subst. reflexivity.
Qed.

(* uns_core0: the broker part of Unsubscribe without the toSubscribe write *)
Lemma uns_core0_spec c p s s1 b :
  uns_core0 c p s = Some (s1, b) ->
  (forall c' p', subv (chans s1) c' p' = if (c' =? c) && (p' =? p) then None else subv (chans s) c' p')
  /\ (forall c', tokv (chans s1) c' = tokv (chans s) c') /\ (forall c', wv (chans s1) c' = wv (chans s) c')
  /\ projs s1 = projs s /\ calls s1 = calls s /\ queue s1 = queue s /\ notif s1 = notif s
  /\ (exists ch, live_chan s c = Some ch).
Proof.
  unfold uns_core0. destruct (live_chan s c) as [ch|] eqn:L; [|discriminate].
  pose proof (live_chan_get _ _ _ L) as G.
  destruct (get p (c_subs ch)) as [d|] eqn:Gp.
  - destruct (get (c_subj ch) (metrics s)) as [[nc ns]|]; [|discriminate].
    intros H. inversion H; subst; clear H. cbn.
    repeat split; eauto.
    + intros c' p'. rewrite subv_set. destruct (c' =? c) eqn:Ec; cbn; [|reflexivity].
      apply N.eqb_eq in Ec; subst. rewrite get_del. unfold subv. rewrite G. destruct (p' =? p); reflexivity.
    + intros c'. eapply tokv_set_same; eauto.
    + intros c'. eapply wv_set_same; eauto.
  - intros H. inversion H; subst; clear H. repeat split; eauto.
    intros c' p'. destruct (c' =? c) eqn:Ec; cbn; [|reflexivity].
    destruct (p' =? p) eqn:Ep; [|reflexivity].
    apply N.eqb_eq in Ec, Ep; subst. unfold subv. rewrite G. exact Gp.
Qed.

(* mark: writing toSubscribe *)
Lemma mark_gp c p b s p' :
  gp (projs (mark c p b s)) p' =
  if p' =? p then mkProj (p_off (gp (projs s) p)) (set c b (p_tosub (gp (projs s) p))) (p_subd (gp (projs s) p)) else gp (projs s) p'.
Proof. unfold mark. cbn. rewrite gp_set. rewrite getp_gp. reflexivity. Qed.

Lemma mark_offs c p b s p' : offs (projs (mark c p b s)) p' = offs (projs s) p'.
Proof. unfold offs. rewrite mark_gp. destruct (p' =? p) eqn:E; [apply N.eqb_eq in E; subst|]; reflexivity. Qed.

Lemma mark_eff c p b s p' c' :
  eff (projs (mark c p b s)) p' c' <-> if (p' =? p) && (c' =? c) then b = true else eff (projs s) p' c'.
Proof.
  unfold eff. rewrite mark_gp. destruct (p' =? p) eqn:Ep; cbn; [|tauto].
  apply N.eqb_eq in Ep; subst. rewrite get_set. destruct (c' =? c); tauto.
Qed.

Lemma mark_chans c p b s : chans (mark c p b s) = chans s. Proof. reflexivity. Qed.
Lemma mark_calls c p b s : calls (mark c p b s) = calls s. Proof. reflexivity. Qed.
Lemma mark_queue c p b s : queue (mark c p b s) = queue s. Proof. reflexivity. Qed.
Lemma mark_notif c p b s : notif (mark c p b s) = notif s. Proof. reflexivity. Qed.
Global Arguments mark : simpl never.
Global Arguments repl : simpl never.

Lemma mark_early_true : mark_early = true. Proof. reflexivity. Qed.
Lemma first_checked_true : first_checked = true. Proof. reflexivity. Qed.
Lemma mark_if_eq c p b s : mark_if c p b s = mark c p b s. Proof. reflexivity. Qed.
Lemma mark_late_eq c p b s : mark_late c p b s = s. Proof. reflexivity. Qed.
Global Arguments mark_if : simpl never.
Global Arguments mark_late : simpl never.

Lemma mark_projs_eq c p b s s0 : projs s0 = projs s -> projs (mark c p b s0) = projs (mark c p b s).
Proof. intros E. unfold mark, putp, getp. cbn. rewrite E. reflexivity. Qed.

(* the broker part of Unsubscribe including the toSubscribe write *)
Lemma uns_core_spec c p s s1 b :
  uns_core c p s = Some (s1, b) ->
  (forall c' p', subv (chans s1) c' p' = if (c' =? c) && (p' =? p) then None else subv (chans s) c' p')
  /\ (forall c', tokv (chans s1) c' = tokv (chans s) c') /\ (forall c', wv (chans s1) c' = wv (chans s) c')
  /\ projs s1 = projs (if b then mark c p false s else s) /\ calls s1 = calls s /\ queue s1 = queue s /\ notif s1 = notif s
  /\ (exists ch, live_chan s c = Some ch) /\ (b = false -> get p (projs s) = None).
Proof.
  unfold uns_core. destruct (uns_core0 c p s) as [[s0 b0]|] eqn:U; [|discriminate].
  destruct (uns_core0_spec _ _ _ _ _ U) as (S & T & W & P & C & Q & Nf & L).
  assert (Nb : b0 = false -> get p (projs s) = None).
  { intros ->. rewrite <- P. clear - U. unfold uns_core0 in U. destruct (live_chan s c) as [ch|]; [|discriminate].
    match type of U with match ?x with _ => _ end = _ => destruct x as [s2|]; [|discriminate] end.
    inversion U; subst. destruct (get p (projs s0)); [discriminate | reflexivity]. }
  destruct b0; intros H; inversion H; subst; clear H.
  - rewrite mark_if_eq, mark_chans, mark_calls, mark_queue, mark_notif. repeat split; auto. apply mark_projs_eq; exact P.
  - repeat split; auto.
Qed.

(* the broker part of Subscribe without the toSubscribe write *)
Lemma sub_reg0_err c p s s' o : sub_reg0 c p s = (s', o) -> o <> ORes ROk -> s' = s.
Proof.
  unfold sub_reg0. destruct (live_chan s c) as [ch|]; [|intros H; inversion H; reflexivity].
  destruct (c_term ch); [intros H; inversion H; reflexivity|].
  destruct (get (c_subj ch) (metrics s)) as [[nc ns]|]; [|intros H; inversion H; reflexivity].
  destruct (q_sub (quo s) <=? nsubs s); [intros H; inversion H; reflexivity|].
  destruct (q_subs (quo s) <=? ns); [intros H; inversion H; reflexivity|].
  intros H; inversion H; subst. congruence.
Qed.

Lemma sub_reg0_spec c p s s' :
  sub_reg0 c p s = (s', ORes ROk) ->
  exists ch, live_chan s c = Some ch /\ c_term ch = false
  /\ (forall c' p', subv (chans s') c' p' =
        if (c' =? c) && (p' =? p) then Some (match get p (c_subs ch) with Some d => d | None => 0 end) else subv (chans s) c' p')
  /\ (forall c', tokv (chans s') c' = tokv (chans s) c') /\ (forall c', wv (chans s') c' = wv (chans s) c')
  /\ (forall p', gp (projs s') p' = gp (projs s) p')
  /\ calls s' = KSub c p false :: calls s /\ queue s' = queue s /\ notif s' = notif s.
Proof.
  unfold sub_reg0. destruct (live_chan s c) as [ch|] eqn:L; [|discriminate].
  pose proof (live_chan_get _ _ _ L) as G.
  destruct (c_term ch) eqn:Et; [discriminate|].
  destruct (get (c_subj ch) (metrics s)) as [[nc ns]|]; [|discriminate].
  destruct (q_sub (quo s) <=? nsubs s); [discriminate|].
  destruct (q_subs (quo s) <=? ns); [discriminate|].
  destruct (get p (c_subs ch)) as [d0|] eqn:Gp; intros H; inversion H; subst; clear H; exists ch; cbn;
    rewrite ?ensure_chans, ?ensure_calls, ?ensure_queue, ?ensure_notif; repeat split; auto; try (intros; apply gp_ensure).
  - intros c' p'. destruct (c' =? c) eqn:Ec; cbn; [|reflexivity]. destruct (p' =? p) eqn:Ep; [|reflexivity].
    apply N.eqb_eq in Ec, Ep; subst. unfold subv. rewrite G, Gp. reflexivity.
  - intros c' p'. rewrite subv_set. destruct (c' =? c) eqn:Ec; cbn; [|reflexivity].
    apply N.eqb_eq in Ec; subst. rewrite get_set. unfold subv. rewrite G, Gp. destruct (p' =? p); reflexivity.
  - intros c'. eapply tokv_set_same; eauto.
  - intros c'. eapply wv_set_same; eauto.
Qed.

Lemma sub_reg_cases c p s s' o :
  sub_reg c p s = (s', o) ->
  s' = s \/ (o = ORes ROk /\ exists s0, sub_reg0 c p s = (s0, ORes ROk) /\ s' = mark c p true s0).
Proof.
  unfold sub_reg. destruct (sub_reg0 c p s) as [s0 o0] eqn:E.
  destruct o0 as [|r| |]; try (intros H; inversion H; subst; left; eapply sub_reg0_err; eauto; discriminate).
  destruct r; try (intros H; inversion H; subst; left; eapply sub_reg0_err; eauto; discriminate).
  intros H; inversion H; subst. right. split; [reflexivity|]. exists s0. split; reflexivity.
Qed.

(* Update's enqueue is a blocking send (repaired / original code); with a select/default the
   model drops the event when the queue is full and the lemmas below fail *)
Lemma upd_blocking_true : upd_blocking = true. Proof. reflexivity. Qed.
Lemma upd_enq_spec p s s' : upd_enq p s = Some s' -> s' = enq p (set_calls s (rm1 (KUpd p) (calls s))).
Proof.
  unfold upd_enq, upd_enq_gen. rewrite upd_blocking_true. destruct (has (KUpd p) (calls s)); [|discriminate].
  destruct (can_enq s); [|discriminate]. intros H; inversion H; reflexivity.
Qed.
Lemma upd_enq_enabled p s : has (KUpd p) (calls s) = true -> can_enq s = true ->
  upd_enq p s = Some (enq p (set_calls s (rm1 (KUpd p) (calls s)))).
Proof. intros H1 H2. unfold upd_enq, upd_enq_gen. rewrite H1, H2. reflexivity. Qed.
Lemma upd_enq_blocked p s : can_enq s = false -> upd_enq p s = None.
Proof. intros H. unfold upd_enq, upd_enq_gen. rewrite upd_blocking_true, H. destruct (has (KUpd p) (calls s)); reflexivity. Qed.
