(* C20 - offsets reported to one channel for one projection never decrease (for non-decreasing
   updates), across re-subscriptions too. *)
From Coq Require Import List NArith Bool Lia Sorted.
From V Require Import Lib.Check Gen.Params C20_Notify.Model C20_Notify.Base C20_Notify.Views.
Import ListNotations.
Local Open Scope N_scope.

Ltac inv H := inversion H; subst; clear H.

Definition rep1 (c p : N) (e : ev) : list N :=
  match e with
  | (AWDeliver c', OUnits u) => if c' =? c then map snd (filter (fun x => fst x =? p) u) else []
  | _ => []
  end.
Definition reports (c p : N) (evs : list ev) : list N := flat_map (rep1 c p) evs.

Lemma reports_snoc c p evs e : reports c p (evs ++ [e]) = reports c p evs ++ rep1 c p e.
Proof. unfold reports. rewrite flat_map_app. cbn. rewrite app_nil_r. reflexivity. Qed.

Lemma SS_app (l l' : list N) :
  StronglySorted N.le l -> StronglySorted N.le l' -> (forall x y, In x l -> In y l' -> x <= y) ->
  StronglySorted N.le (l ++ l').
Proof.
  induction l as [|a l IH]; cbn; intros H1 H2 H3; [exact H2|].
  inv H1. constructor.
  - apply IH; auto.
  - apply Forall_forall. intros y Hy. apply in_app_or in Hy. destruct Hy as [Hy|Hy]; [|apply H3; auto].
    rewrite Forall_forall in H5. auto.
Qed.

Lemma SS_const (x : N) l : (forall y, In y l -> y = x) -> StronglySorted N.le l.
Proof.
  induction l as [|a l IH]; intros H; constructor.
  - apply IH. intros y Hy. apply H. right. exact Hy.
  - apply Forall_forall. intros y Hy. rewrite (H a), (H y); [lia | right; exact Hy | left; reflexivity].
Qed.

(* no step lowers an offset (given non-decreasing updates) *)
Lemma uns_core_offs c p s s1 b q : uns_core c p s = Some (s1, b) -> offs (projs s1) q = offs (projs s) q.
Proof. intros H. destruct (uns_core_spec _ _ _ _ _ H) as (_ & _ & _ & P & _). rewrite P. destruct b; [apply mark_offs | reflexivity]. Qed.

Lemma sub_reg_offs c p s s' o q : sub_reg c p s = (s', o) -> offs (projs s') q = offs (projs s) q.
Proof.
  intros H. destruct (sub_reg_cases _ _ _ _ _ H) as [->|(_ & s0 & H0 & ->)]; [reflexivity|].
  destruct (sub_reg0_spec _ _ _ _ H0) as (ch & _ & _ & _ & _ & _ & P & _). rewrite mark_offs. unfold offs. rewrite P. reflexivity.
Qed.

Lemma sub_reg_wv c p s s' o c' : sub_reg c p s = (s', o) -> wv (chans s') c' = wv (chans s) c'.
Proof.
  intros H. destruct (sub_reg_cases _ _ _ _ _ H) as [->|(_ & s0 & H0 & ->)]; [reflexivity|].
  destruct (sub_reg0_spec _ _ _ _ H0) as (ch & _ & _ & _ & _ & W & _). rewrite mark_chans. apply W.
Qed.

Lemma step_offs_mono s a s' o :
  adm_mono s a = true -> step s a = Some (s', o) -> forall p, offs (projs s) p <= offs (projs s') p.
Proof.
  intros Am H q.
  assert (Same : projs s' = projs s -> offs (projs s) q <= offs (projs s') q) by (intros ->; lia).
  destruct a; cbn [step] in H; cbn [adm_mono] in Am.
  - inv H. unfold new_chan in H1. destruct (q_ch (quo s) <=? count_live (chans s)); [inv H1; lia|].
    destruct (get subj (metrics s)) as [[nc ns]|]; [destruct (q_chs (quo s) <=? nc)|rewrite first_checked_true in H1; destruct (q_chs (quo s) <=? 0)]; inv H1; cbn; lia.
  - inv H. unfold upd_store. cbn. unfold offs. rewrite gp_set, getp_gp, !gp_ensure.
    destruct (q =? p) eqn:E; [|lia]. apply N.eqb_eq in E; subst. cbn. apply N.leb_le in Am. exact Am.
  - destruct (upd_enq p s) as [s1|] eqn:E; inv H. apply upd_enq_spec in E; subst. apply Same. reflexivity.
  - destruct (has (KUpd p) (calls s) && negb (can_enq s) && upd_blocking); inv H. lia.
  - inv H. rewrite (sub_reg_offs _ _ _ _ _ q H1). lia.
  - destruct (has (KSub c p false) (calls s)); inv H. rewrite mark_late_eq. apply Same. reflexivity.
  - destruct (has (KSub c p true) (calls s) && can_enq s); inv H. apply Same. reflexivity.
  - inv H. unfold uns_reg in H1. destruct (live_chan s c); [|inv H1; lia].
    destruct (uns_core c p s) as [[s1 [|]]|] eqn:U; inv H1; try lia; cbn; rewrite (uns_core_offs _ _ _ _ _ q U); lia.
  - destruct (has (KUns c p false) (calls s)); inv H. rewrite mark_late_eq. apply Same. reflexivity.
  - destruct (has (KUns c p true) (calls s) && can_enq s); inv H. apply Same. reflexivity.
  - unfold cln_term in H. destruct (nextc s <=? c); [discriminate|]. destruct (live_chan s c) as [ch|]; [|inv H; lia].
    destruct (c_term ch); inv H; [lia | apply Same; reflexivity].
  - destruct (cln_reg c p s) as [s1|] eqn:E; inv H. unfold cln_reg in E.
    destruct (cln_rem c (calls s)); [|discriminate]. destruct (memN p l); [|discriminate].
    destruct (uns_core c p s) as [[s1 [|]]|] eqn:U; inv E; cbn; rewrite (uns_core_offs _ _ _ _ _ q U); lia.
  - destruct (cln_fin c s) as [s1|] eqn:E; inv H. unfold cln_fin in E.
    destruct (has (KCln c [] false) (calls s)); [|discriminate]. destruct (get c (chans s)); [|discriminate].
    destruct (metric s (c_subj c0)). inv E. apply Same. reflexivity.
  - destruct (notif s); try discriminate. destruct (queue s); inv H. apply Same. reflexivity.
  - destruct (notif s); inv H. cbn. unfold offs. rewrite gp_set, getp_gp.
    destruct (q =? p) eqn:E; [|lia]. apply N.eqb_eq in E; subst. cbn. lia.
  - destruct (notif s); try discriminate. destruct (memN c rem); inv H. apply Same.
    destruct (get c (chans s)); reflexivity.
  - destruct (live_chan s c) as [ch|]; [|inv H; lia]. destruct (c_w ch); inv H; try lia; apply Same; reflexivity.
  - destruct (get c (chans s)) as [ch|]; [|discriminate]. destruct (c_w ch); try discriminate. destruct (c_tok ch); inv H. apply Same. reflexivity.
  - destruct (get c (chans s)) as [ch|]; [|discriminate]. destruct (c_w ch); inv H. apply Same. reflexivity.
  - destruct (get c (chans s)) as [ch|]; [|discriminate]. destruct (c_w ch); inv H. apply Same. reflexivity.
  - destruct (get c (chans s)) as [ch|]; [|discriminate]. destruct (c_w ch); inv H; apply Same; reflexivity.
  - inv H. lia.
  - destruct (m =? 1); [destruct (calls s); inv H; lia|]. destruct (m =? 2); [destruct (quiet s); inv H; lia|].
    destruct (m =? 3); [destruct (quiet s && (count_live (chans s) =? 0)); inv H; lia|]. inv H. lia.
  - discriminate.
Qed.

(* how a step changes the watcher state of channel c *)
Lemma wv_putc_keep s c0 x ch c u :
  get c0 (chans s) = Some ch -> c_w x = c_w ch -> wv (chans (putc c0 x s)) c = WPend u -> wv (chans s) c = WPend u.
Proof. intros G E. cbn. erewrite wv_set_same; eauto. Qed.

Lemma uns_core_wv c p s s1 b c' : uns_core c p s = Some (s1, b) -> wv (chans s1) c' = wv (chans s) c'.
Proof. intros H. destruct (uns_core_spec _ _ _ _ _ H) as (_ & _ & W & _). apply W. Qed.

Lemma step_watch s a s' o c :
  step s a = Some (s', o) ->
  match a with
  | AWScan c' => if c' =? c then exists ch, get c (chans s) = Some ch /\ wv (chans s') c = WPend (scan_units s (c_subs ch))
                 else wv (chans s') c = wv (chans s) c
  | AWDeliver c' => if c' =? c then exists u, wv (chans s) c = WPend u /\ o = OUnits u /\ wv (chans s') c = WIdle
                    else wv (chans s') c = wv (chans s) c
  | _ => forall u, wv (chans s') c = WPend u -> wv (chans s) c = WPend u
  end.
Proof.
  intros H. destruct a; cbn [step] in H.
  - inv H. unfold new_chan in H1. destruct (q_ch (quo s) <=? count_live (chans s)); [inv H1; auto|].
    assert (K : forall u, wv (set (nextc s) (mkChan subj [] false true false WNone) (chans s)) c = WPend u -> wv (chans s) c = WPend u).
    { intros u. rewrite wv_set. destruct (c =? nextc s); [discriminate | auto]. }
    destruct (get subj (metrics s)) as [[nc ns]|]; [destruct (q_chs (quo s) <=? nc)|rewrite first_checked_true in H1; destruct (q_chs (quo s) <=? 0)]; inv H1; auto.
  - inv H. unfold upd_store. cbn. rewrite ensure_chans. auto.
  - destruct (upd_enq p s) as [s1|] eqn:E; inv H. apply upd_enq_spec in E; subst. auto.
  - destruct (has (KUpd p) (calls s) && negb (can_enq s) && upd_blocking); inv H. auto.
  - inv H. intros u. rewrite (sub_reg_wv _ _ _ _ _ c H1). auto.
  - destruct (has (KSub c0 p false) (calls s)); inv H. auto.
  - destruct (has (KSub c0 p true) (calls s) && can_enq s); inv H. auto.
  - inv H. unfold uns_reg in H1. destruct (live_chan s c0); [|inv H1; auto].
    destruct (uns_core c0 p s) as [[s1 [|]]|] eqn:U; inv H1; auto; cbn; intros u; erewrite uns_core_wv; eauto.
  - destruct (has (KUns c0 p false) (calls s)); inv H. auto.
  - destruct (has (KUns c0 p true) (calls s) && can_enq s); inv H. auto.
  - unfold cln_term in H. destruct (nextc s <=? c0); [discriminate|]. destruct (live_chan s c0) as [ch|] eqn:L; [|inv H; auto].
    pose proof (live_chan_get _ _ _ L) as G. destruct (c_term ch); inv H; auto.
    intros u. cbn. erewrite wv_set_same; eauto.
  - destruct (cln_reg c0 p s) as [s1|] eqn:E; inv H. unfold cln_reg in E.
    destruct (cln_rem c0 (calls s)); [|discriminate]. destruct (memN p l); [|discriminate].
    destruct (uns_core c0 p s) as [[s1 [|]]|] eqn:U; inv E; cbn; intros u; erewrite uns_core_wv; eauto.
  - destruct (cln_fin c0 s) as [s1|] eqn:E; inv H. unfold cln_fin in E.
    destruct (has (KCln c0 [] false) (calls s)); [|discriminate]. destruct (get c0 (chans s)) as [ch|] eqn:G; [|discriminate].
    destruct (metric s (c_subj ch)). inv E. intros u. cbn. erewrite wv_set_same; eauto.
  - destruct (notif s); try discriminate. destruct (queue s); inv H. auto.
  - destruct (notif s); inv H. auto.
  - destruct (notif s); try discriminate. destruct (memN c0 rem); inv H.
    destruct (get c0 (chans s)) as [ch|] eqn:G; cbn; auto. intros u. erewrite wv_set_same; eauto.
  - destruct (live_chan s c0) as [ch|]; [|inv H; auto]. destruct (c_w ch); inv H; auto.
    intros u. cbn. rewrite wv_set. destruct (c =? c0); [discriminate | auto].
  - destruct (get c0 (chans s)) as [ch|]; [|discriminate]. destruct (c_w ch); try discriminate. destruct (c_tok ch); inv H.
    intros u. cbn. rewrite wv_set. destruct (c =? c0); [discriminate | auto].
  - destruct (get c0 (chans s)) as [ch|] eqn:G; [|discriminate]. destruct (c_w ch); inv H.
    cbn. rewrite wv_set, N.eqb_sym. destruct (c =? c0) eqn:E; [|reflexivity].
    apply N.eqb_eq in E; subst. exists ch. split; [exact G | reflexivity].
  - destruct (get c0 (chans s)) as [ch|] eqn:G; [|discriminate]. destruct (c_w ch) eqn:Ew; inv H.
    cbn. rewrite wv_set, N.eqb_sym. destruct (c =? c0) eqn:E; [|reflexivity].
    apply N.eqb_eq in E; subst. exists u. unfold wv. rewrite G. auto.
  - destruct (get c0 (chans s)) as [ch|]; [|discriminate].
    assert (K : s' = putc c0 (ch_w ch WDone) s) by (destruct (c_w ch); inv H; reflexivity). subst.
    intros u. cbn. rewrite wv_set. destruct (c =? c0); [discriminate | auto].
  - inv H. auto.
  - destruct (m =? 1); [destruct (calls s); inv H; auto|]. destruct (m =? 2); [destruct (quiet s); inv H; auto|].
    destruct (m =? 3); [destruct (quiet s && (count_live (chans s) =? 0)); inv H; auto|]. inv H. auto.
  - discriminate.
Qed.

Record RInv (c p : N) (s : state) (evs : list ev) : Prop := mkRInv {
  R_sorted : StronglySorted N.le (reports c p evs);
  R_le : forall r, In r (reports c p evs) -> r <= offs (projs s) p;
  R_pend : forall u, wv (chans s) c = WPend u ->
           exists x, x <= offs (projs s) p /\ (forall r, In r (reports c p evs) -> r <= x) /\ (forall o, In (p, o) u -> o = x) }.

Lemma In_rep_units p (u : list (N * N)) y : In y (map snd (filter (fun x => fst x =? p) u)) -> In (p, y) u.
Proof.
  rewrite in_map_iff. intros [[p' o'] [E H]]. cbn in E; subst. apply filter_In in H. destruct H as [H E]. cbn in E.
  apply N.eqb_eq in E; subst. exact H.
Qed.

Theorem reach_RInv c p q s evs : reach adm_mono q s evs -> RInv c p s evs.
Proof.
  intros R. induction R as [|s evs a s' o R IH A H].
  - split; cbn; [constructor | tauto | discriminate].
  - pose proof (step_offs_mono _ _ _ _ A H p) as Hm.
    pose proof (step_watch _ _ _ _ c H) as Hw.
    assert (Other : rep1 c p (a, o) = [] -> (forall u, wv (chans s') c = WPend u -> wv (chans s) c = WPend u) -> RInv c p s' (evs ++ [(a, o)])).
    { intros Hr Hk. split; rewrite reports_snoc, Hr, app_nil_r.
      - apply (R_sorted _ _ _ _ IH).
      - intros r Hin. pose proof (R_le _ _ _ _ IH r Hin). lia.
      - intros u Hu. destruct (R_pend _ _ _ _ IH u (Hk u Hu)) as (x & X1 & X2 & X3). exists x. repeat split; auto. lia. }
    destruct a; try (apply Other; [reflexivity | exact Hw]).
    + (* AWScan *)
      destruct (c0 =? c) eqn:E.
      * apply N.eqb_eq in E; subst c0. destruct Hw as (ch & G & Hw).
        split; rewrite reports_snoc; cbn [rep1]; rewrite app_nil_r.
        { apply (R_sorted _ _ _ _ IH). }
        { intros r Hin. pose proof (R_le _ _ _ _ IH r Hin). lia. }
        { intros u Hu. rewrite Hw in Hu. inv Hu. exists (offs (projs s) p). repeat split; [exact Hm | apply (R_le _ _ _ _ IH) |].
          intros o0 Hin. apply In_scan_units in Hin. exact Hin. }
      * apply Other; [reflexivity|]. intros u Hu. rewrite Hw in Hu. exact Hu.
    + (* AWDeliver *)
      destruct (c0 =? c) eqn:E.
      * apply N.eqb_eq in E; subst c0. destruct Hw as (u & Hu & Ho & Hw'). subst o.
        destruct (R_pend _ _ _ _ IH u Hu) as (x & X1 & X2 & X3).
        assert (Hall : forall y, In y (rep1 c p (AWDeliver c, OUnits u)) -> y = x).
        { cbn [rep1]. rewrite N.eqb_refl. intros y Hy. apply X3. apply In_rep_units. exact Hy. }
        split; rewrite reports_snoc.
        { apply SS_app; [apply (R_sorted _ _ _ _ IH) | eapply SS_const; eauto |].
          intros a b Ha Hb. rewrite (Hall b Hb). auto. }
        { intros r Hin. apply in_app_or in Hin. destruct Hin as [Hin|Hin].
          - pose proof (R_le _ _ _ _ IH r Hin). lia.
          - rewrite (Hall r Hin). lia. }
        { intros u' Hu'. rewrite Hw' in Hu'. discriminate. }
      * apply Other; [cbn [rep1]; destruct o; try reflexivity; rewrite E; reflexivity|].
        intros u Hu. rewrite Hw in Hu. exact Hu.
Qed.

Theorem reported_monotone_proved :
  forall q s evs c p, reach adm_mono q s evs -> StronglySorted N.le (reports c p evs).
Proof. intros. eapply R_sorted. eapply reach_RInv; eauto. Qed.

(* nothing is reported that was not the projection's offset: reports never exceed the current offset *)
Theorem reported_le_offset_proved :
  forall q s evs c p r, reach adm_mono q s evs -> In r (reports c p evs) -> r <= offset s p.
Proof. intros. rewrite offset_offs. eapply R_le; eauto. eapply reach_RInv; eauto. Qed.

(* ---- within one subscription, whatever the updates do ---- *)
(* the delivered offset of an existing subscription never goes down: no hypothesis on the
   schedule or on the offsets passed to Update (the watcher ignores a stored offset that is not
   above what it delivered; Unsubscribe + Subscribe make a new subscription starting at 0) *)
Theorem delivered_never_decreases_proved :
  forall s a s' o c p d d', step s a = Some (s', o) ->
  subv (chans s) c p = Some d -> subv (chans s') c p = Some d' -> d <= d'.
Proof.
  intros s a s' o c p d d' H Hd Hd'.
  assert (Same : (forall c' p', subv (chans s') c' p' = subv (chans s) c' p') -> d <= d').
  { intros E. rewrite E, Hd in Hd'. inv Hd'. lia. }
  assert (Putc : forall c0 ch x, get c0 (chans s) = Some ch -> c_subs x = c_subs ch -> chans s' = set c0 x (chans s) -> d <= d').
  { intros c0 ch x G E Ec. apply Same. intros c' p'. rewrite Ec. eapply subv_set_same; eauto. }
  assert (Uns : forall c0 p0 s1 b, uns_core c0 p0 s = Some (s1, b) -> chans s' = chans s1 -> d <= d').
  { intros c0 p0 s1 b U Ec. destruct (uns_core_spec _ _ _ _ _ U) as (S & _). rewrite Ec, S in Hd'.
    destruct ((c =? c0) && (p =? p0)); [discriminate|]. rewrite Hd in Hd'. inv Hd'. lia. }
  destruct a; cbn [step] in H.
  - inv H. unfold new_chan in H1. destruct (q_ch (quo s) <=? count_live (chans s)); [inv H1; apply Same; auto|].
    assert (K : forall m, s' = set_metrics (set_nextc (putc (nextc s) (mkChan subj [] false true false WNone) s) (nextc s + 1)) m -> d <= d').
    { intros m ->. cbn in Hd'. rewrite subv_set in Hd'. destruct (c =? nextc s); [discriminate|]. rewrite Hd in Hd'. inv Hd'. lia. }
    destruct (get subj (metrics s)) as [[nc ns]|]; [destruct (q_chs (quo s) <=? nc)|rewrite first_checked_true in H1; destruct (q_chs (quo s) <=? 0)]; inv H1;
      try (apply Same; reflexivity); eapply K; reflexivity.
  - inv H. apply Same. intros. unfold upd_store. cbn. rewrite ensure_chans. reflexivity.
  - destruct (upd_enq p0 s) as [s1|] eqn:E; inv H. apply upd_enq_spec in E; subst. apply Same. reflexivity.
  - destruct (has (KUpd p0) (calls s) && negb (can_enq s) && upd_blocking); inv H. apply Same. reflexivity.
  - inv H. destruct (sub_reg_cases _ _ _ _ _ H1) as [->|(_ & s0 & H0 & ->)]; [apply Same; reflexivity|].
    destruct (sub_reg0_spec _ _ _ _ H0) as (ch & L & _ & S & _). pose proof (live_chan_get _ _ _ L) as G.
    rewrite mark_chans, S in Hd'. destruct ((c =? c0) && (p =? p0)) eqn:E; [|rewrite Hd in Hd'; inv Hd'; lia].
    apply andb_true_iff in E. destruct E as [E1 E2]. apply N.eqb_eq in E1, E2; subst.
    unfold subv in Hd. rewrite G in Hd. rewrite Hd in Hd'. inv Hd'. lia.
  - destruct (has (KSub c0 p0 false) (calls s)); inv H. apply Same. reflexivity.
  - destruct (has (KSub c0 p0 true) (calls s) && can_enq s); inv H. apply Same. reflexivity.
  - inv H. unfold uns_reg in H1. destruct (live_chan s c0); [|inv H1; apply Same; reflexivity].
    destruct (uns_core c0 p0 s) as [[s1 [|]]|] eqn:U; inv H1; try (apply Same; reflexivity); eapply Uns; eauto.
  - destruct (has (KUns c0 p0 false) (calls s)); inv H. apply Same. reflexivity.
  - destruct (has (KUns c0 p0 true) (calls s) && can_enq s); inv H. apply Same. reflexivity.
  - unfold cln_term in H. destruct (nextc s <=? c0); [discriminate|]. destruct (live_chan s c0) as [ch|] eqn:L; [|inv H; apply Same; reflexivity].
    pose proof (live_chan_get _ _ _ L) as G. destruct (c_term ch); inv H; [apply Same; reflexivity|].
    eapply (Putc c0 ch (ch_term ch true)); eauto.
  - destruct (cln_reg c0 p0 s) as [s1|] eqn:E; inv H. unfold cln_reg in E.
    destruct (cln_rem c0 (calls s)); [|discriminate]. destruct (memN p0 l); [|discriminate].
    destruct (uns_core c0 p0 s) as [[s1 [|]]|] eqn:U; inv E; eapply Uns; eauto.
  - destruct (cln_fin c0 s) as [s1|] eqn:E; inv H. unfold cln_fin in E.
    destruct (has (KCln c0 [] false) (calls s)); [|discriminate]. destruct (get c0 (chans s)) as [ch|] eqn:G; [|discriminate].
    destruct (metric s (c_subj ch)). inv E. eapply (Putc c0 ch (ch_live ch false)); eauto.
  - destruct (notif s); try discriminate. destruct (queue s); inv H. apply Same. reflexivity.
  - destruct (notif s); inv H. apply Same. reflexivity.
  - destruct (notif s); try discriminate. destruct (memN c0 rem); inv H.
    destruct (get c0 (chans s)) as [ch|] eqn:G; [eapply (Putc c0 ch (ch_tok ch true)); eauto | apply Same; reflexivity].
  - destruct (live_chan s c0) as [ch|] eqn:L; [|inv H; apply Same; reflexivity]. pose proof (live_chan_get _ _ _ L) as G.
    destruct (c_w ch); inv H; try (apply Same; reflexivity). eapply (Putc c0 ch (ch_w ch WIdle)); eauto.
  - destruct (get c0 (chans s)) as [ch|] eqn:G; [|discriminate]. destruct (c_w ch); try discriminate. destruct (c_tok ch); inv H.
    eapply (Putc c0 ch (ch_w (ch_tok ch false) WGot)); eauto.
  - destruct (get c0 (chans s)) as [ch|] eqn:G; [|discriminate]. destruct (c_w ch); inv H.
    cbn in Hd'. rewrite subv_set in Hd'. destruct (c =? c0) eqn:E; [|rewrite Hd in Hd'; inv Hd'; lia].
    apply N.eqb_eq in E; subst. cbn in Hd'. rewrite get_scan_mark in Hd'. unfold subv in Hd. rewrite G in Hd. rewrite Hd in Hd'. inv Hd'.
    destruct (d <? offset s p) eqn:El; [apply N.ltb_lt in El; lia | lia].
  - destruct (get c0 (chans s)) as [ch|] eqn:G; [|discriminate]. destruct (c_w ch); inv H. eapply (Putc c0 ch (ch_w ch WIdle)); eauto.
  - destruct (get c0 (chans s)) as [ch|] eqn:G; [|discriminate].
    assert (K : s' = putc c0 (ch_w ch WDone) s) by (destruct (c_w ch); inv H; reflexivity). subst. eapply (Putc c0 ch (ch_w ch WDone)); eauto.
  - inv H. apply Same. reflexivity.
  - destruct (m =? 1); [destruct (calls s); inv H; apply Same; reflexivity|]. destruct (m =? 2); [destruct (quiet s); inv H; apply Same; reflexivity|].
    destruct (m =? 3); [destruct (quiet s && (count_live (chans s) =? 0)); inv H; apply Same; reflexivity|]. inv H. apply Same. reflexivity.
  - discriminate.
Qed.

(* and a scan reports, for each subscription, only an offset strictly above the delivered one,
   which becomes the new delivered offset *)
Theorem scan_reports_above_delivered_proved :
  forall s c s' o ch u p x, step s (AWScan c) = Some (s', o) -> get c (chans s) = Some ch ->
  wv (chans s') c = WPend u -> In (p, x) u ->
  exists d, In (p, d) (c_subs ch) /\ d < x /\ x = offset s p.
Proof.
  intros s c s' o ch u p x H G Hw Hin. cbn [step] in H. rewrite G in H. destruct (c_w ch); inv H.
  cbn in Hw. rewrite wv_set, N.eqb_refl in Hw. cbn in Hw. inv Hw.
  unfold scan_units in Hin. apply in_flat_map in Hin. destruct Hin as [[p' d] [Hs Hx]]. cbn in Hx.
  destruct (d <? offset s p') eqn:El; [|destruct Hx]. destruct Hx as [Hx|[]]. inv Hx.
  exists d. apply N.ltb_lt in El. auto.
Qed.
