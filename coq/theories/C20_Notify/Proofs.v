(* C20 - proofs: the theorems live in Wake.v (quiescence), Mono.v (monotone reports), Drain.v
   (Update never waits on watchers), Quota.v (quotas) and Stale.v (no stale notifier entry); this file re-exports them and adds the
   concrete runs used as regression and non-vacuity examples. *)
From Coq Require Import List NArith Bool Lia Sorted.
From V Require Import Lib.Check Gen.Params C20_Notify.Model.
From V Require Export C20_Notify.Base C20_Notify.Views C20_Notify.Wake C20_Notify.Mono C20_Notify.Drain C20_Notify.Quota C20_Notify.Stale.
Import ListNotations.
Local Open Scope N_scope.

Definition qbig : quotas := mkQ 4 3 9 6.

(* regression schedules of the two repaired defects (they were refutation witnesses before the
   fixes 8c5de4e31 / f750ec5e8 in /repo):
   F19 - Unsubscribe's broker part, Subscribe's broker part, then the two hook windows and the
   enqueues in the order that used to lose the subscription; now the subscription is served *)
Definition f19_lost : list action :=
  [ANewChan 0; AWStart 0; AUpdStore 0 5; AUpdEnq 0; ANDeq; ANMerge;
   AUnsReg 0 0; ASubReg 0 0; ASubMark 0 0; AUnsMark 0 0; ASubEnq 0 0; AUnsEnq 0 0;
   ANDeq; ANMerge; ANSend 0; ANDeq; ANMerge; ANSend 0; AWTake 0; AWScan 0; AWDeliver 0].

(* the other order, followed by the channel's cleanup: nothing stays in subscribedChannels *)
Definition f19_stale : list action :=
  [ANewChan 0; AUpdStore 0 5; AUpdEnq 0; ANDeq; ANMerge;
   ASubReg 0 0; AUnsReg 0 0; AUnsMark 0 0; ASubMark 0 0; AUnsEnq 0 0; ASubEnq 0 0;
   ANDeq; ANMerge; ANDeq; ANMerge; AClnTerm 0; AClnFin 0].

(* a run for the non-vacuity examples: update before subscribe, a second projection, a slow
   watcher, unsubscribe and re-subscribe, a second update *)
Definition demo : list action :=
  [ANewChan 0; ANewChan 1; AUpdStore 0 5; AUpdEnq 0; ANDeq; ANMerge;
   ASubReg 0 0; AWStart 0; ASubMark 0 0; ASubEnq 0 0; ASubReg 1 0; ASubMark 1 0; ASubEnq 1 0; AWStart 1;
   ANDeq; ANMerge; ANSend 0; ANSend 1;
   AWTake 0; AWScan 0; AUpdStore 0 7; AWDeliver 0;
   ANDeq; ANMerge; ANSend 0; ANSend 1; AUpdEnq 0;
   AWTake 0; AWScan 0; AWDeliver 0;
   ANDeq; ANMerge; ANSend 1; ANSend 0; AWTake 0; AWScan 0; AWDeliver 0;
   AUnsReg 0 0; AUnsMark 0 0; AUnsEnq 0 0; ASubReg 0 0; ASubMark 0 0; ASubEnq 0 0;
   ANDeq; ANMerge; ANSend 0; ANSend 1; ANDeq; ANMerge; ANSend 1; ANSend 0;
   AWTake 0; AWScan 0; AWDeliver 0; AWTake 1; AWScan 1; AWDeliver 1].

(* ---- what the blocking send of Update is needed for ---- *)
(* the same transition system with Update's enqueue as a select/default (upd_enq_gen false: the
   event is dropped when the queue is full) - the shape the model takes when the translator finds
   in10n_update_enqueue_blocking = false *)
Definition step_drop (s : state) (a : action) : option (state * out) :=
  match a with
  | AUpdEnq p => match upd_enq_gen false p s with Some s' => Some (s', ONone) | None => None end
  | ABlocked _ => None
  | _ => step s a
  end.

Fixpoint run_with (stp : state -> action -> option (state * out)) (P : state -> action -> bool) (s : state) (l : list action)
  : option (state * list ev) :=
  match l with
  | [] => Some (s, [])
  | a :: r => if P s a then
                match stp s a with
                | Some (s', o) => match run_with stp P s' r with Some (s'', evs) => Some (s'', (a, o) :: evs) | None => None end
                | None => None
                end
              else None
  end.

Lemma run_with_step P s l : run_with step P s l = run P s l.
Proof.
  revert s. induction l as [|a r IH]; intros s; cbn; [reflexivity|].
  destruct (P s a); [|reflexivity]. destruct (step s a) as [[s' o]|]; [|reflexivity]. rewrite IH. reflexivity.
Qed.

(* channel 0 subscribes and watches projection 0; the notifier lags while ten updates of projection
   1 fill the queue; then projection 0 is updated to 5 *)
Definition burst : list action :=
  [ANewChan 0; ASubReg 0 0; ASubMark 0 0; ASubEnq 0 0; AWStart 0; ANDeq; ANMerge; ANSend 0; AWTake 0; AWScan 0; AWDeliver 0]
  ++ flat_map (fun k => [AUpdStore 1 (N.of_nat (S k)); AUpdEnq 1]) (seq 0 10)
  ++ [AUpdStore 0 5].
Definition drain10 : list action := flat_map (fun _ => [ANDeq; ANMerge]) (seq 0 10).

(* drop-when-full: the update of projection 0 returns, its event is gone, the notifier works off
   the ten events of projection 1, everything is quiescent, and the subscriber of projection 0
   has not been told offset 5 and never will *)
Lemma drop_when_full_loses_last_offset_proved :
  exists s evs ch,
    run_with step_drop adm_mono (init qbig) (burst ++ [AUpdEnq 0] ++ drain10) = Some (s, evs) /\
    quiet s = true /\ get 0 (chans s) = Some ch /\ c_w ch = WIdle /\ get 0 (c_subs ch) = Some 0 /\ offset s 0 = 5.
Proof.
  destruct (run_with step_drop adm_mono (init qbig) (burst ++ [AUpdEnq 0] ++ drain10)) as [[s evs]|] eqn:E; [|vm_compute in E; discriminate].
  exists s, evs. vm_compute in E. inversion E; subst; clear E. eexists. vm_compute. repeat split; reflexivity.
Qed.

(* the code as it is: with the queue full the same Update cannot return (AUpdEnq is not enabled,
   the harness observes ABlocked), it goes through after one dequeue, and the subscriber is told 5 *)
Lemma blocking_send_keeps_last_offset_proved :
  exists s evs s' evs',
    run adm_mono (init qbig) (burst ++ [ABlocked 0]) = Some (s, evs) /\ step s (AUpdEnq 0) = None /\
    run adm_mono s ([ANDeq; AUpdEnq 0; ANMerge] ++ drain10 ++ [ANSend 0; AWTake 0; AWScan 0; AWDeliver 0]) = Some (s', evs') /\
    quiet s' = true /\ reports 0 0 evs' = [5].
Proof.
  destruct (run adm_mono (init qbig) (burst ++ [ABlocked 0])) as [[s evs]|] eqn:E; [|vm_compute in E; discriminate].
  exists s, evs. vm_compute in E. inversion E; subst; clear E.
  eexists. eexists. split; [reflexivity|]. split; [vm_compute; reflexivity|]. split; [vm_compute; reflexivity|].
  vm_compute. split; reflexivity.
Qed.

(* with the blocking send an accepted enqueue always queues its event *)
Lemma update_event_never_dropped_proved :
  forall s p s' o, step s (AUpdEnq p) = Some (s', o) -> queue s' = queue s ++ [p].
Proof.
  intros s p s' o H. cbn [step] in H. destruct (upd_enq p s) as [s1|] eqn:E; inversion H; subst.
  apply upd_enq_spec in E. subst. reflexivity.
Qed.
