(* C20 - proofs: the theorems live in Wake.v (quiescence), Mono.v (monotone reports), Drain.v
   (Update never waits on watchers), Quota.v (quotas) and Stale.v (no stale notifier entry); this file re-exports them and adds the
   concrete runs used as regression and non-vacuity examples. *)
From Coq Require Import List NArith Bool Lia Sorted.
From V Require Import Lib.Check Gen.Params C20_Notify.Model.
From V Require Export C20_Notify.Base C20_Notify.Views C20_Notify.Wake C20_Notify.Mono C20_Notify.Drain C20_Notify.Quota C20_Notify.Stale.
Import ListNotations.
Local Open Scope N_scope.

Definition qbig : quotas := mkQ 4 3 9 6.

(* regression schedules of the two repaired defects (they were refutation witnesses before the
   fixes 8c5de4e31 / f750ec5e8 in /repo):
   F19 - Unsubscribe's broker part, Subscribe's broker part, then the two hook windows and the
   enqueues in the order that used to lose the subscription; now the subscription is served *)
Definition f19_lost : list action :=
  [ANewChan 0; AWStart 0; AUpdStore 0 5; AUpdEnq 0; ANDeq; ANMerge;
   AUnsReg 0 0; ASubReg 0 0; ASubMark 0 0; AUnsMark 0 0; ASubEnq 0 0; AUnsEnq 0 0;
   ANDeq; ANMerge; ANSend 0; ANDeq; ANMerge; ANSend 0; AWTake 0; AWScan 0; AWDeliver 0].

(* the other order, followed by the channel's cleanup: nothing stays in subscribedChannels *)
Definition f19_stale : list action :=
  [ANewChan 0; AUpdStore 0 5; AUpdEnq 0; ANDeq; ANMerge;
   ASubReg 0 0; AUnsReg 0 0; AUnsMark 0 0; ASubMark 0 0; AUnsEnq 0 0; ASubEnq 0 0;
   ANDeq; ANMerge; ANDeq; ANMerge; AClnTerm 0; AClnFin 0].

(* a run for the non-vacuity examples: update before subscribe, a second projection, a slow
   watcher, unsubscribe and re-subscribe, a second update *)
Definition demo : list action :=
  [ANewChan 0; ANewChan 1; AUpdStore 0 5; AUpdEnq 0; ANDeq; ANMerge;
   ASubReg 0 0; AWStart 0; ASubMark 0 0; ASubEnq 0 0; ASubReg 1 0; ASubMark 1 0; ASubEnq 1 0; AWStart 1;
   ANDeq; ANMerge; ANSend 0; ANSend 1;
   AWTake 0; AWScan 0; AUpdStore 0 7; AWDeliver 0;
   ANDeq; ANMerge; ANSend 0; ANSend 1; AUpdEnq 0;
   AWTake 0; AWScan 0; AWDeliver 0;
   ANDeq; ANMerge; ANSend 1; ANSend 0; AWTake 0; AWScan 0; AWDeliver 0;
   AUnsReg 0 0; AUnsMark 0 0; AUnsEnq 0 0; ASubReg 0 0; ASubMark 0 0; ASubEnq 0 0;
   ANDeq; ANMerge; ANSend 0; ANSend 1; ANDeq; ANMerge; ANSend 1; ANSend 0;
   AWTake 0; AWScan 0; AWDeliver 0; AWTake 1; AWScan 1; AWDeliver 1].
