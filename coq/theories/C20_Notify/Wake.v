(* C20 - the lost-wakeup invariant: a subscription that is behind its projection's offset always
   has a wake-up on its way (token, pending scan, notifier about to signal, queued event or a
   call in flight that will queue one), provided offsets of one projection do not decrease.
   (For the repaired code: the toSubscribe write is part of the broker critical section.) *)
From Coq Require Import List NArith Bool Lia.
From V Require Import Lib.Check Gen.Params C20_Notify.Model C20_Notify.Base C20_Notify.Views.
Import ListNotations.
Local Open Scope N_scope.

Ltac inv H := inversion H; subst; clear H.

(* the projection whose event a call in flight will still queue *)
Definition cp (k : call) : option N :=
  match k with KUpd p => Some p | KSub _ p _ => Some p | KUns _ p _ => Some p | KCln _ _ _ => None end.
Definition pendc (l : list call) (p : N) : Prop := exists k, In k l /\ cp k = Some p.

Definition pend (s : state) (p : N) : Prop := In p (queue s) \/ notif s = NGot p \/ pendc (calls s) p.

Definition wake (s : state) (c p : N) : Prop :=
  tokv (chans s) c = true \/ wv (chans s) c = WGot \/ (exists q rem, notif s = NSend q rem /\ In c rem) \/ pend s p.

Record Inv (s : state) : Prop := mkInv {
  J1 : forall c p d, subv (chans s) c p = Some d -> eff (projs s) p c;
  J6 : forall c p d, subv (chans s) c p = Some d -> d <= offs (projs s) p;
  IW : forall c p d, subv (chans s) c p = Some d -> d < offs (projs s) p -> wv (chans s) c <> WDone -> wake s c p }.

Lemma Inv_init q : Inv (init q).
Proof. split; cbn; intros; discriminate. Qed.

Lemma cp_cln k : cp k <> None -> is_cln k = false.
Proof. destruct k; cbn; congruence. Qed.

Lemma pendc_cons k l p : pendc l p -> pendc (k :: l) p.
Proof. intros (x & H & E). exists x. split; [right; exact H | exact E]. Qed.
Lemma pendc_here k l p : cp k = Some p -> pendc (k :: l) p.
Proof. intros E. exists k. split; [left; reflexivity | exact E]. Qed.

Lemma pendc_incl l l' p : (forall x, is_cln x = false -> In x l -> In x l') -> pendc l p -> pendc l' p.
Proof. intros H (x & Hx & E). exists x. split; [apply H; auto; apply cp_cln; congruence | exact E]. Qed.

Lemma pendc_rm1 k l p : pendc l p -> cp k = Some p \/ pendc (rm1 k l) p.
Proof.
  intros (x & Hx & E). destruct (call_eqb x k) eqn:Ek.
  - apply call_eqb_eq in Ek; subst. left. exact E.
  - right. exists x. split; [|exact E]. apply In_rm1_neq; [exact Hx|]. intros ->.
    assert (call_eqb k k = true) by (apply call_eqb_eq; reflexivity). congruence.
Qed.

Lemma pendc_repl k k' l p : cp k' = cp k -> pendc l p -> pendc (repl k k' l) p.
Proof.
  intros Ec H. destruct (pendc_rm1 k l p H) as [E|(x & Hx & E)].
  - exists k'. split; [apply In_repl_new | congruence].
  - exists x. split; [right; exact Hx | exact E].
Qed.

Lemma pendc_unbusy c l p : pendc l p -> pendc (unbusy c l) p.
Proof. intros (x & Hx & E). exists x. split; [|exact E]. apply In_unbusy; [apply cp_cln; congruence | exact Hx]. Qed.

Lemma In_repl_cln x c r b r' b' l : is_cln x = false -> (In x (repl (KCln c r b) (KCln c r' b') l) <-> In x l).
Proof.
  intros Hx. split.
  - intros H. apply In_repl in H. destruct H as [->|H]; [discriminate Hx | exact H].
  - intros H. apply In_repl_neq; [exact H | intros ->; discriminate Hx].
Qed.

(* steps that change neither subscriptions nor offsets nor the effective notifier subscription *)
Lemma Inv_transfer s s' :
  Inv s ->
  (forall c p, subv (chans s') c p = subv (chans s) c p) ->
  (forall p, offs (projs s') p = offs (projs s) p) ->
  (forall p c, eff (projs s) p c -> eff (projs s') p c) ->
  (forall c p d, subv (chans s) c p = Some d -> d < offs (projs s) p -> wv (chans s') c <> WDone ->
                 wv (chans s) c <> WDone /\ (wake s c p -> wake s' c p)) ->
  Inv s'.
Proof.
  intros I Hs Ho He Hw. split.
  - intros c p d H. rewrite Hs in H. apply He. eapply J1; eauto.
  - intros c p d H. rewrite Hs in H. rewrite Ho. eapply J6; eauto.
  - intros c p d H Hlt Hd. rewrite Hs in H. rewrite Ho in Hlt.
    destruct (Hw _ _ _ H Hlt Hd) as [Hd' Hwk]. apply Hwk. eapply IW; eauto.
Qed.

(* only the calls (and nothing a wake-up depends on except them) change *)
Lemma Inv_calls s s' :
  Inv s -> chans s' = chans s -> projs s' = projs s -> queue s' = queue s -> notif s' = notif s ->
  (forall p, pendc (calls s) p -> pendc (calls s') p) -> Inv s'.
Proof.
  intros I Hc Hp Hq Hn Hk. apply (Inv_transfer s); auto; rewrite ?Hc, ?Hp; auto.
  intros c p d _ _ Hd. split; [exact Hd|]. unfold wake, pend. rewrite Hc, Hq, Hn.
  intros [W|[W|[W|[W|[W|W]]]]]; auto 9.
Qed.

(* one channel record is replaced by one with the same subscriptions *)
Lemma Inv_putc s c ch x :
  Inv s -> get c (chans s) = Some ch -> c_subs x = c_subs ch ->
  (wv (chans s) c <> WDone -> c_w x <> WDone ->
     (c_tok ch = true -> c_tok x = true \/ c_w x = WGot) /\ (c_w ch = WGot -> c_w x = WGot \/ False)) ->
  (c_w x <> WDone -> c_w ch <> WDone) ->
  Inv (putc c x s).
Proof.
  intros I G Es Hk Hd. apply (Inv_transfer s); auto; cbn.
  - intros c' p. eapply subv_set_same; eauto.
  - intros c' p d _ _ Hw. rewrite wv_set in Hw. destruct (c' =? c) eqn:Ec.
    + apply N.eqb_eq in Ec; subst c'. assert (Hw0 : wv (chans s) c <> WDone) by (unfold wv; rewrite G; auto).
      split; [exact Hw0|]. destruct (Hk Hw0 Hw) as [K1 K2].
      unfold wake, pend. cbn. rewrite tokv_set, wv_set, N.eqb_refl. unfold tokv, wv. rewrite G.
      intros [W|[W|W]]; [destruct (K1 W); auto | destruct (K2 W) as [K|[]]; auto | auto].
    + split; [exact Hw|]. unfold wake, pend. cbn. rewrite tokv_set, wv_set, Ec. auto.
Qed.

Section Step.
Variables (s : state).
Hypothesis I : Inv s.

Lemma step_new_chan subj s' o : new_chan subj s = (s', o) -> Inv s'.
Proof.
  unfold new_chan. destruct (q_ch (quo s) <=? count_live (chans s)); [intros H; inv H; exact I|].
  assert (K : forall nc ns, (set_metrics (set_nextc (putc (nextc s) (mkChan subj [] false true false WNone) s) (nextc s + 1))
                (set subj (nc + 1, ns) (metrics s)), ORes ROk) = (s', o) -> Inv s').
  { intros nc ns H. inv H. split; cbn.
    - intros c p d. rewrite subv_set. destruct (c =? nextc s); [discriminate|]. apply (J1 _ I).
    - intros c p d. rewrite subv_set. destruct (c =? nextc s); [discriminate|]. apply (J6 _ I).
    - intros c p d. rewrite subv_set, wv_set. destruct (c =? nextc s) eqn:E; [discriminate|].
      intros H1 H2 H3. destruct (IW _ I _ _ _ H1 H2 H3) as [W|[W|W]]; unfold wake, pend; cbn.
      + left. rewrite tokv_set, E. exact W.
      + right; left. rewrite wv_set, E. exact W.
      + right; right. exact W. }
  destruct (get subj (metrics s)) as [[nc ns]|]; [destruct (q_chs (quo s) <=? nc); [intros H; inv H; exact I | apply K]|].
  rewrite first_checked_true. destruct (q_chs (quo s) <=? 0); [|apply K].
  intros H; inv H. apply (Inv_calls s); auto.
Qed.

Lemma step_upd_store p x : offs (projs s) p <= x -> Inv (upd_store p x s).
Proof.
  intros Hm. unfold upd_store.
  set (s1 := ensure_proj p s).
  assert (G : forall p', gp (projs (putp p (mkProj x (p_tosub (getp p s1)) (p_subd (getp p s1))) s1)) p' =
                         if p' =? p then mkProj x (p_tosub (gp (projs s) p)) (p_subd (gp (projs s) p)) else gp (projs s) p').
  { intros p'. cbn. rewrite gp_set, getp_gp. unfold s1. rewrite !gp_ensure. reflexivity. }
  assert (O : forall p', offs (projs (putp p (mkProj x (p_tosub (getp p s1)) (p_subd (getp p s1))) s1)) p' =
                         if p' =? p then x else offs (projs s) p').
  { intros p'. unfold offs. rewrite G. destruct (p' =? p); reflexivity. }
  assert (Ef : forall p' c, eff (projs (putp p (mkProj x (p_tosub (getp p s1)) (p_subd (getp p s1))) s1)) p' c <-> eff (projs s) p' c).
  { intros p' c. unfold eff. rewrite G. destruct (p' =? p) eqn:E; [apply N.eqb_eq in E; subst; cbn|]; tauto. }
  split; cbn [chans projs calls set_calls putp set_projs queue notif]; unfold s1; rewrite ?ensure_chans.
  - intros c p' d H. apply Ef. eapply J1; eauto.
  - intros c p' d H. rewrite O. pose proof (J6 _ I _ _ _ H) as K.
    destruct (p' =? p) eqn:E; [apply N.eqb_eq in E; subst; lia | exact K].
  - intros c p' d H Hlt Hd. rewrite O in Hlt.
    unfold wake, pend. cbn [chans projs calls set_calls putp set_projs queue notif]. rewrite ensure_chans, ensure_calls, ensure_queue, ensure_notif.
    destruct (p' =? p) eqn:E.
    + apply N.eqb_eq in E; subst. right; right; right. right; right. apply pendc_here. reflexivity.
    + destruct (IW _ I _ _ _ H Hlt Hd) as [W|[W|[W|[W|[W|W]]]]]; auto 9. right; right; right. right; right. apply pendc_cons. exact W.
Qed.

(* enqueue steps: a call [k] leaves, its projection enters the queue *)
Lemma step_enq k p l :
  cp k = Some p -> (forall q, pendc (rm1 k (calls s)) q -> pendc l q) ->
  Inv (enq p (set_calls s l)).
Proof.
  intros Hk Hl. apply (Inv_transfer s); auto.
  intros c q d _ _ Hd. split; [exact Hd|]. unfold wake, pend. cbn.
  intros [W|[W|[W|[W|[W|W]]]]]; auto 9.
  - right; right; right. left. apply in_or_app. left. exact W.
  - destruct (pendc_rm1 k _ _ W) as [E|E].
    + right; right; right. left. apply in_or_app. right. left. congruence.
    + right; right; right. right; right. apply Hl. exact E.
Qed.

Lemma step_sub_reg c p s' o : sub_reg c p s = (s', o) -> Inv s'.
Proof.
  intros H. destruct (sub_reg_cases _ _ _ _ _ H) as [->|(_ & s0 & H0 & ->)]; [exact I|].
  destruct (sub_reg0_spec _ _ _ _ H0) as (ch & L & Et & S & T & W & P & C & Q & Nf).
  assert (O : forall p', offs (projs (mark c p true s0)) p' = offs (projs s) p').
  { intros p'. rewrite mark_offs. unfold offs. rewrite P. reflexivity. }
  assert (Ef : forall p' c', eff (projs (mark c p true s0)) p' c' <-> if (p' =? p) && (c' =? c) then True else eff (projs s) p' c').
  { intros p' c'. rewrite mark_eff. destruct ((p' =? p) && (c' =? c)); [tauto|]. unfold eff. rewrite P. tauto. }
  pose proof (live_chan_get _ _ _ L) as G.
  split; rewrite ?mark_chans.
  - intros c' p' d. rewrite S, Ef. destruct ((c' =? c) && (p' =? p)) eqn:E.
    + apply andb_true_iff in E. destruct E as [E1 E2]. rewrite E1, E2. cbn. auto.
    + intros K. destruct ((p' =? p) && (c' =? c)); [exact Logic.I | eapply J1; eauto].
  - intros c' p' d. rewrite S, O. destruct ((c' =? c) && (p' =? p)) eqn:E; [|apply (J6 _ I)].
    apply andb_true_iff in E. destruct E as [E1 E2]. apply N.eqb_eq in E1, E2; subst.
    intros K; inv K. destruct (get p (c_subs ch)) as [d0|] eqn:Gp; [|lia].
    apply (J6 _ I c p). unfold subv. rewrite G. exact Gp.
  - intros c' p' d. rewrite S, O, W. intros K Hlt Hd.
    unfold wake, pend. rewrite mark_chans, mark_queue, mark_notif, mark_calls, T, W, C, Q, Nf.
    destruct ((c' =? c) && (p' =? p)) eqn:E.
    + apply andb_true_iff in E. destruct E as [E1 E2]. apply N.eqb_eq in E1, E2; subst.
      right; right; right. right; right. apply pendc_here. reflexivity.
    + destruct (IW _ I _ _ _ K Hlt Hd) as [X|[X|[X|[X|[X|X]]]]]; auto 9. right; right; right. right; right. apply pendc_cons. exact X.
Qed.

(* Unsubscribe's broker part (explicit or inside cleanup): the subscription and the notifier's
   effective subscription disappear together *)
Lemma step_uns_core c p s1 b l :
  uns_core c p s = Some (s1, b) -> (forall q, pendc (calls s) q -> pendc l q) -> Inv (set_calls s1 l).
Proof.
  intros U Hl. destruct (uns_core_spec _ _ _ _ _ U) as (S & T & W & P & C & Q & Nf & _ & _).
  assert (O : forall p', offs (projs s1) p' = offs (projs s) p').
  { intros p'. rewrite P. destruct b; [apply mark_offs | reflexivity]. }
  assert (Ef : forall p' c', (c' =? c) && (p' =? p) = false -> eff (projs s) p' c' -> eff (projs s1) p' c').
  { intros p' c' E K. rewrite P. destruct b; [|exact K]. apply mark_eff. rewrite andb_comm in E. rewrite E. exact K. }
  split; cbn.
  - intros c' p' d. rewrite S. destruct ((c' =? c) && (p' =? p)) eqn:E; [discriminate|]. intros K. apply Ef; auto. eapply J1; eauto.
  - intros c' p' d. rewrite S, O. destruct ((c' =? c) && (p' =? p)); [discriminate | apply (J6 _ I)].
  - intros c' p' d. rewrite S, O, W. destruct ((c' =? c) && (p' =? p)); [discriminate|].
    intros K Hlt Hd. unfold wake, pend. cbn. rewrite T, W, Q, Nf.
    destruct (IW _ I _ _ _ K Hlt Hd) as [X|[X|[X|[X|[X|X]]]]]; auto 9.
Qed.

End Step.

Theorem Inv_step s a s' o : Inv s -> adm_mono s a = true -> step s a = Some (s', o) -> Inv s'.
Proof.
  intros I Am H.
  destruct a; cbn [step] in H; cbn [adm_mono] in Am.
  - (* ANewChan *) inv H. eapply step_new_chan; eauto.
  - (* AUpdStore *) inv H. eapply step_upd_store; eauto. apply N.leb_le. exact Am.
  - (* AUpdEnq *)
    destruct (upd_enq p s) as [s1|] eqn:E; inv H. apply upd_enq_spec in E; subst. apply (step_enq s I (KUpd p)); auto.
  - (* ABlocked *) destruct (has (KUpd p) (calls s) && negb (can_enq s) && upd_blocking); inv H. exact I.
  - (* ASubReg *) inv H. eapply step_sub_reg; eauto.
  - (* ASubMark *)
    destruct (has (KSub c p false) (calls s)); inv H. rewrite mark_late_eq.
    apply (Inv_calls s); auto. intros q. apply pendc_repl. reflexivity.
  - (* ASubEnq *)
    destruct (has (KSub c p true) (calls s) && can_enq s); inv H. apply (step_enq s I (KSub c p true)); auto.
  - (* AUnsReg *)
    inv H. unfold uns_reg in H1. destruct (live_chan s c); [|inv H1; exact I].
    destruct (uns_core c p s) as [[s1 [|]]|] eqn:U; inv H1; try exact I.
    + destruct (uns_core_spec _ _ _ _ _ U) as (_ & _ & _ & _ & C & _). rewrite C.
      eapply step_uns_core; eauto. intros q. apply pendc_cons.
    + destruct (uns_core_spec _ _ _ _ _ U) as (_ & _ & _ & _ & C & _).
      replace s' with (set_calls s' (calls s)) by (rewrite <- C; destruct s'; reflexivity).
      eapply step_uns_core; eauto.
  - (* AUnsMark *)
    destruct (has (KUns c p false) (calls s)); inv H. rewrite mark_late_eq.
    apply (Inv_calls s); auto. intros q. apply pendc_repl. reflexivity.
  - (* AUnsEnq *)
    destruct (has (KUns c p true) (calls s) && can_enq s); inv H. apply (step_enq s I (KUns c p true)); auto.
    intros q. apply pendc_unbusy.
  - (* AClnTerm *)
    unfold cln_term in H. destruct (nextc s <=? c); [discriminate|].
    destruct (live_chan s c) as [ch|] eqn:L; [|inv H; exact I].
    pose proof (live_chan_get _ _ _ L) as G.
    destruct (c_term ch); inv H; [exact I|].
    apply (Inv_calls (putc c (ch_term ch true) s)); auto; [|intros q; apply pendc_cons].
    apply (Inv_putc s c ch (ch_term ch true) I G eq_refl); cbn; auto.
  - (* AClnReg *)
    destruct (cln_reg c p s) as [s1|] eqn:E; inv H.
    unfold cln_reg in E. destruct (cln_rem c (calls s)) as [r|]; [|discriminate].
    destruct (memN p r); [|discriminate].
    destruct (uns_core c p s) as [[s1 [|]]|] eqn:U; inv E;
      destruct (uns_core_spec _ _ _ _ _ U) as (_ & _ & _ & _ & C & _); rewrite C; eapply step_uns_core; eauto.
    + intros q K. apply pendc_cons. eapply pendc_incl; [|exact K]. intros x Hx Hin. apply In_repl_cln; auto.
    + intros q K. eapply pendc_incl; [|exact K]. intros x Hx Hin. apply In_repl_cln; auto.
  - (* AClnFin *)
    destruct (cln_fin c s) as [s1|] eqn:E; inv H.
    unfold cln_fin in E. destruct (has (KCln c [] false) (calls s)); [|discriminate].
    destruct (get c (chans s)) as [ch|] eqn:G; [|discriminate].
    destruct (metric s (c_subj ch)) as [nc ns]. inv E.
    apply (Inv_calls (putc c (ch_live ch false) s)); auto.
    + apply (Inv_putc s c ch (ch_live ch false) I G eq_refl); cbn; auto.
    + intros q K. eapply pendc_incl; [|exact K]. intros x Hx Hin. apply In_rm1_neq; [exact Hin | intros ->; discriminate].
  - (* ANDeq *)
    destruct (notif s) eqn:En; try discriminate. destruct (queue s) as [|p r] eqn:Eq; [discriminate|]. inv H.
    apply (Inv_transfer s); auto.
    intros c' p' d _ _ Hd. split; [exact Hd|].
    unfold wake, pend. cbn. rewrite En, Eq.
    intros [W|[W|[W|[[W|W]|[W|W]]]]]; auto 9.
    + destruct W as (q & rem & W & _). discriminate.
    + subst. auto 9.
    + discriminate.
  - (* ANMerge *)
    destruct (notif s) as [|p|] eqn:En; try discriminate. inv H.
    set (x := getp p s). set (sd := merged (p_tosub x) (p_subd x)).
    assert (G : forall p', gp (set p (mkProj (p_off x) [] sd) (projs s)) p' = if p' =? p then mkProj (p_off x) [] sd else gp (projs s) p').
    { intros p'. apply gp_set. }
    assert (Ef : forall p' c, eff (set p (mkProj (p_off x) [] sd) (projs s)) p' c <-> eff (projs s) p' c).
    { intros p' c. unfold eff. rewrite G. destruct (p' =? p) eqn:E; [|tauto].
      apply N.eqb_eq in E; subst p'. cbn. unfold sd. rewrite In_merged. unfold x. rewrite getp_gp. tauto. }
    assert (O : forall p', offs (set p (mkProj (p_off x) [] sd) (projs s)) p' = offs (projs s) p').
    { intros p'. unfold offs. rewrite G. destruct (p' =? p) eqn:E; [|reflexivity]. apply N.eqb_eq in E; subst p'. reflexivity. }
    split; cbn.
    + intros c p' d K. apply Ef. eapply J1; eauto.
    + intros c p' d K. rewrite O. apply (J6 _ I _ _ _ K).
    + intros c p' d K Hlt Hd. rewrite O in Hlt.
      assert (Send : eff (projs s) p c -> exists q rem, after_send p sd = NSend q rem /\ In c rem).
      { intros E. assert (In c sd) by (unfold sd; rewrite In_merged; unfold x; rewrite getp_gp; exact E).
        destruct sd as [|y r]; [contradiction|]. exists p, (y :: r). split; [reflexivity | assumption]. }
      destruct (IW _ I _ _ _ K Hlt Hd) as [W|[W|[W|[W|[W|W]]]]]; unfold wake, pend; cbn; auto 9.
      * destruct W as (q & rem & W & _). rewrite En in W. discriminate.
      * rewrite En in W. inv W. right; right; left. apply Send. eapply J1; eauto.
  - (* ANSend *)
    destruct (notif s) as [| |p rem] eqn:En; try discriminate.
    destruct (memN c rem) eqn:Em; [|discriminate]. inv H. apply memN_In in Em.
    set (rem' := filter (fun x => negb (x =? c)) rem).
    set (s1 := match get c (chans s) with Some ch => putc c (ch_tok ch true) s | None => s end).
    assert (V : (forall c' p', subv (chans s1) c' p' = subv (chans s) c' p')
             /\ (forall c', wv (chans s1) c' = wv (chans s) c')
             /\ (forall c', tokv (chans s) c' = true -> tokv (chans s1) c' = true)
             /\ (forall p', subv (chans s) c p' <> None -> tokv (chans s1) c = true)
             /\ projs s1 = projs s /\ calls s1 = calls s /\ queue s1 = queue s).
    { unfold s1. destruct (get c (chans s)) as [ch|] eqn:G; cbn.
      - repeat split; auto.
        + intros c' p'. eapply subv_set_same; eauto.
        + intros c'. eapply wv_set_same; eauto.
        + intros c'. rewrite tokv_set. destruct (c' =? c); auto.
        + intros _ _. rewrite tokv_set, N.eqb_refl. reflexivity.
      - repeat split; auto. intros p' K. unfold subv in K. rewrite G in K. congruence. }
    destruct V as (Vs & Vw & Vt & Vc & Vp & Vk & Vq).
    apply (Inv_transfer s); auto; cbn; rewrite ?Vp; auto.
    intros c' p' d Hsub _ Hd. rewrite Vw in Hd. split; [exact Hd|].
    unfold wake, pend. cbn. rewrite Vw, Vk, Vq, En.
    intros [W|[W|[W|[W|[W|W]]]]]; auto 9; [|discriminate].
    destruct W as (q & rm & W & Hin). inv W.
    destruct (N.eq_dec c' c) as [->|Hne].
    + left. apply (Vc p'). congruence.
    + right; right; left. assert (Hin' : In c' rem') by (apply In_filter_neq; auto).
      destruct rem' as [|y r]; [contradiction|]. exists q, (y :: r). split; [reflexivity | exact Hin'].
  - (* AWStart *)
    destruct (live_chan s c) as [ch|] eqn:L; [|inv H; exact I].
    pose proof (live_chan_get _ _ _ L) as G.
    destruct (c_w ch) eqn:Ew; inv H; try exact I.
    apply (Inv_putc s c ch (ch_w ch WIdle) I G eq_refl); cbn; rewrite ?Ew.
    + intros _ _. split; [auto | discriminate].
    + discriminate.
  - (* AWTake *)
    destruct (get c (chans s)) as [ch|] eqn:G; [|discriminate].
    destruct (c_w ch) eqn:Ew; try discriminate. destruct (c_tok ch) eqn:Et; [|discriminate]. inv H.
    apply (Inv_putc s c ch (ch_w (ch_tok ch false) WGot) I G eq_refl); cbn; rewrite ?Ew.
    + intros _ _. auto.
    + discriminate.
  - (* AWScan *)
    destruct (get c (chans s)) as [ch|] eqn:G; [|discriminate].
    destruct (c_w ch) eqn:Ew; try discriminate. inv H.
    assert (S : forall c' p', subv (set c (ch_w (ch_subs ch (scan_mark s (c_subs ch))) (WPend (scan_units s (c_subs ch)))) (chans s)) c' p' =
              if c' =? c then match subv (chans s) c p' with Some d => Some (if d <? offs (projs s) p' then offs (projs s) p' else d) | None => None end
              else subv (chans s) c' p').
    { intros c' p'. rewrite subv_set. destruct (c' =? c); [|reflexivity]. cbn. rewrite get_scan_mark. unfold subv. rewrite G. reflexivity. }
    split; cbn.
    + intros c' p' d. rewrite S. destruct (c' =? c) eqn:Ec; [|apply (J1 _ I)].
      apply N.eqb_eq in Ec; subst. destruct (subv (chans s) c p') as [d0|] eqn:K; [|discriminate]. intros _. eapply (J1 _ I); eauto.
    + intros c' p' d. rewrite S. destruct (c' =? c) eqn:Ec; [|apply (J6 _ I)].
      apply N.eqb_eq in Ec; subst. destruct (subv (chans s) c p') as [d0|] eqn:K; [|discriminate].
      pose proof (J6 _ I _ _ _ K). intros Q; inv Q. destruct (d0 <? offs (projs s) p') eqn:El; [lia | exact H].
    + intros c' p' d. rewrite S, wv_set. destruct (c' =? c) eqn:Ec.
      * apply N.eqb_eq in Ec; subst. destruct (subv (chans s) c p') as [d0|] eqn:K; [|discriminate].
        intros Q; inv Q. destruct (d0 <? offs (projs s) p') eqn:El; [lia | apply N.ltb_ge in El; lia].
      * intros H1 H2 H3. destruct (IW _ I _ _ _ H1 H2 H3) as [W|[W|W]]; unfold wake, pend in *; cbn.
        { left. rewrite tokv_set, Ec. exact W. }
        { right; left. rewrite wv_set, Ec. exact W. }
        { tauto. }
  - (* AWDeliver *)
    destruct (get c (chans s)) as [ch|] eqn:G; [|discriminate].
    destruct (c_w ch) eqn:Ew; try discriminate. inv H.
    apply (Inv_putc s c ch (ch_w ch WIdle) I G eq_refl); cbn; rewrite ?Ew.
    + intros _ _. split; [auto | discriminate].
    + discriminate.
  - (* AWStop *)
    destruct (get c (chans s)) as [ch|] eqn:G; [|discriminate].
    assert (K : s' = putc c (ch_w ch WDone) s) by (destruct (c_w ch); inv H; reflexivity). subst s'. clear H.
    apply (Inv_putc s c ch (ch_w ch WDone) I G eq_refl); cbn; congruence.
  - (* AProbe *) inv H. exact I.
  - (* AMark *)
    destruct (m =? 1); [destruct (calls s); inv H; exact I|].
    destruct (m =? 2); [destruct (quiet s); inv H; exact I|].
    destruct (m =? 3); [destruct (quiet s && (count_live (chans s) =? 0)); inv H; exact I|]. inv H. exact I.
  - (* AStuck *) discriminate.
Qed.

Theorem reach_Inv q s evs : reach adm_mono q s evs -> Inv s.
Proof. apply reach_inv; [apply Inv_init | intros; eapply Inv_step; eauto]. Qed.

(* the main theorem of C20 *)
Theorem quiescent_delivered_proved :
  forall q s evs, reach adm_mono q s evs ->
  queue s = [] -> notif s = NIdle -> calls s = [] ->
  forall c ch p d, get c (chans s) = Some ch -> c_w ch = WIdle -> c_tok ch = false ->
  get p (c_subs ch) = Some d -> d = offset s p.
Proof.
  intros q s evs R Hq Hn Hc c ch p d G Hw Ht Hs.
  pose proof (reach_Inv _ _ _ R) as I.
  assert (S : subv (chans s) c p = Some d) by (unfold subv; rewrite G; exact Hs).
  pose proof (J6 _ I _ _ _ S) as Hle. rewrite offset_offs.
  destruct (N.eq_dec d (offs (projs s) p)) as [E|Hne]; [exact E|].
  assert (Hlt : d < offs (projs s) p) by lia.
  assert (Hd : wv (chans s) c <> WDone) by (unfold wv; rewrite G, Hw; discriminate).
  destruct (IW _ I _ _ _ S Hlt Hd) as [W|[W|[W|[W|[W|W]]]]].
  - unfold tokv in W. rewrite G in W. congruence.
  - unfold wv in W. rewrite G in W. congruence.
  - destruct W as (x & r & W & _). congruence.
  - rewrite Hq in W. destruct W.
  - congruence.
  - rewrite Hc in W. destruct W as (k & [] & _).
Qed.
