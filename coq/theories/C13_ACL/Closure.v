(* C13 - completeness of the repaired RecursiveRoleAncestors (depth-first closure with a visited
   set, `rra_dfs`): the result contains the role and is closed under every inheritance edge
   declared in the visited workspaces, hence contains everything reachable. *)
From Coq Require Import List NArith Bool Lia Arith Relations.
From V Require Import Lib.Check Gen.Params C13_ACL.Model C13_ACL.Proofs C13_ACL.Roles.
Import ListNotations.
Local Open Scope N_scope.

(* ---------- folds of inflationary steps on lists ---------- *)
Definition linfl (s : list N -> list N) : Prop := forall acc, incl acc (s acc).

Lemma linfl_fold {B} (f : list N -> B -> list N) (l : list B) :
  (forall e, linfl (fun acc => f acc e)) -> linfl (fun acc => fold_left f l acc).
Proof.
  intros Hf. induction l as [|e l IH]; intros acc; cbn [fold_left]; [apply incl_refl|].
  eapply incl_tran; [apply (Hf e)|apply IH].
Qed.

Lemma lfold_at {B} (f : list N -> B -> list N) (l : list B) e :
  (forall e, linfl (fun acc => f acc e)) -> In e l ->
  forall init, exists accb, incl init accb /\ incl (f accb e) (fold_left f l init).
Proof.
  intros Hf Hin init. apply in_split in Hin. destruct Hin as (l1 & l2 & ->).
  rewrite fold_left_app. cbn [fold_left]. exists (fold_left f l1 init). split.
  - apply (linfl_fold f l1 Hf).
  - apply (linfl_fold f l2 Hf).
Qed.

Lemma filter_length_le {T} (p q : T -> bool) l : (forall x, In x l -> p x = true -> q x = true) ->
  (length (filter p l) <= length (filter q l))%nat.
Proof.
  induction l as [|x l IH]; intros H; cbn [filter]; [apply Nat.le_refl|].
  assert (IH' := IH (fun y Hy => H y (or_intror Hy))).
  destruct (p x) eqn:P.
  - rewrite (H x (or_introl eq_refl) P). cbn. lia.
  - destruct (q x); cbn; lia.
Qed.

Lemma filter_length_lt {T} (p q : T -> bool) l a : (forall x, In x l -> p x = true -> q x = true) ->
  In a l -> p a = false -> q a = true -> (length (filter p l) < length (filter q l))%nat.
Proof.
  induction l as [|x l IH]; intros H Hin Pa Qa; [destruct Hin|]. cbn [filter].
  assert (Le := filter_length_le p q l (fun y Hy => H y (or_intror Hy))).
  destruct Hin as [->|Hin].
  - rewrite Pa, Qa. cbn. lia.
  - assert (IH' := IH (fun y Hy => H y (or_intror Hy)) Hin Pa Qa).
    destruct (p x) eqn:P.
    + rewrite (H x (or_introl eq_refl) P). cbn. lia.
    + destruct (q x); cbn; lia.
Qed.

Section Dfs.
Variables (S : schema) (wss : list N).

(* an inheritance declaration of one of the workspaces `wss`: role a inherits role b *)
Definition edge (a b : N) : Prop :=
  exists w rl t, In w wss /\ In rl (acl_of S w) /\ mem acl_op_inherits (rops rl) = true /\ rprin rl = a /\
    In t (vis_types S w) /\ fmatch (rflt rl) t = true /\ trole t = true /\ tname t = b.

Definition U : list N := map tname (stypes S).
Definition cnt (acc : list N) : nat := length (filter (fun u => negb (mem u acc)) U).

Lemma cnt_mono a b : incl a b -> (cnt b <= cnt a)%nat.
Proof.
  intros I. unfold cnt. apply filter_length_le. intros x _ H. apply negb_true_iff in H. apply negb_true_iff.
  apply mem_false_In. intros Hx. apply mem_false_In in H. apply H. apply I. exact Hx.
Qed.

Lemma cnt_sins r acc : In r U -> mem r acc = false -> (cnt (sins r acc) < cnt acc)%nat.
Proof.
  intros Hr M. unfold cnt. apply (filter_length_lt _ _ U r).
  - intros x _ H. apply negb_true_iff in H. apply negb_true_iff. apply mem_false_In. intros Hx.
    apply mem_false_In in H. apply H. apply sins_In. right. exact Hx.
  - exact Hr.
  - apply negb_false_iff. apply mem_In. apply sins_In. left. reflexivity.
  - rewrite M. reflexivity.
Qed.

Lemma cnt_zero r acc : cnt acc = O -> In r U -> mem r acc = true.
Proof.
  intros Z Hr. destruct (mem r acc) eqn:M; [reflexivity|]. exfalso.
  assert (H : In r (filter (fun u => negb (mem u acc)) U)) by (apply filter_In; split; [exact Hr|rewrite M; reflexivity]).
  unfold cnt in Z. destruct (filter (fun u => negb (mem u acc)) U); [destruct H|discriminate].
Qed.

Definition stepT (f : nat) (rl : rule) : list N -> typ -> list N := fun acc t =>
  if fmatch (rflt rl) t && trole t then rra_dfs f S wss (tname t) acc else acc.
Definition stepR (f : nat) (r w : N) : list N -> rule -> list N := fun acc rl =>
  if mem acl_op_inherits (rops rl) && (rprin rl =? r) then fold_left (stepT f rl) (vis_types S w) acc else acc.
Definition stepW (f : nat) (r : N) : list N -> N -> list N := fun acc w => fold_left (stepR f r w) (acl_of S w) acc.

Lemma rra_dfs_unfold f r acc :
  rra_dfs (Datatypes.S f) S wss r acc = if mem r acc then acc else fold_left (stepW f r) wss (sins r acc).
Proof. reflexivity. Qed.

Lemma sins_incl r acc : incl acc (sins r acc).
Proof. intros x Hx. apply sins_In. right. exact Hx. Qed.

Lemma rra_dfs_infl fuel : forall r, linfl (rra_dfs fuel S wss r).
Proof.
  induction fuel as [|f IH]; intros r acc; [apply incl_refl|]. rewrite rra_dfs_unfold.
  destruct (mem r acc); [apply incl_refl|]. eapply incl_tran; [apply sins_incl|].
  apply (linfl_fold (stepW f r)). intros w. apply (linfl_fold (stepR f r w)). intros rl a. unfold stepR.
  destruct (mem acl_op_inherits (rops rl) && (rprin rl =? r)); [|apply incl_refl].
  apply (linfl_fold (stepT f rl)). intros t a'. unfold stepT.
  destruct (fmatch (rflt rl) t && trole t); [apply IH|apply incl_refl].
Qed.

Lemma infl_stepT f rl t : linfl (fun acc => stepT f rl acc t).
Proof. intros a. unfold stepT. destruct (fmatch (rflt rl) t && trole t); [apply rra_dfs_infl|apply incl_refl]. Qed.
Lemma infl_stepR f r w rl : linfl (fun acc => stepR f r w acc rl).
Proof.
  intros a. unfold stepR. destruct (mem acl_op_inherits (rops rl) && (rprin rl =? r)); [|apply incl_refl].
  apply (linfl_fold (stepT f rl)). intros t. apply infl_stepT.
Qed.
Lemma infl_stepW f r w : linfl (fun acc => stepW f r acc w).
Proof. intros a. unfold stepW. apply (linfl_fold (stepR f r w)). intros rl. apply infl_stepR. Qed.

(* what a call establishes: the role is in, and every role added by the call has all its edges in *)
Definition dfs_ok (r : N) (acc R : list N) : Prop :=
  In r R /\ forall x, In x R -> ~ In x acc -> forall y, edge x y -> In y R.

Lemma vis_in_U w t : In t (vis_types S w) -> In (tname t) U.
Proof. unfold vis_types. rewrite filter_In. intros [H _]. unfold U. apply in_map. exact H. Qed.

Lemma rra_dfs_ok fuel : forall r acc,
  (cnt acc < fuel)%nat \/ (In r U /\ (cnt acc <= fuel)%nat) -> dfs_ok r acc (rra_dfs fuel S wss r acc).
Proof.
  induction fuel as [|f IH]; intros r acc Hf.
  - destruct Hf as [Hf|[Hr Hf]]; [lia|]. cbn [rra_dfs]. split.
    + apply mem_In. apply cnt_zero; [lia|exact Hr].
    + intros x Hx Nx. contradiction.
  - rewrite rra_dfs_unfold. destruct (mem r acc) eqn:M.
    + split; [apply mem_In; exact M|]. intros x Hx Nx. contradiction.
    + set (acc1 := sins r acc).
      assert (C1 : (cnt acc1 <= f)%nat).
      { destruct Hf as [Hf|[Hr Hf]].
        - assert (Hm := cnt_mono acc acc1 (sins_incl r acc)). lia.
        - assert (Hs := cnt_sins r acc Hr M). fold acc1 in Hs. lia. }
      (* invariant of the three nested folds *)
      set (P := fun a : list N => incl acc1 a /\ forall x, In x a -> ~ In x acc1 -> forall y, edge x y -> In y a).
      assert (PT : forall rl w a t, In t (vis_types S w) -> P a -> P (stepT f rl a t)).
      { intros rl w a t Ht [Ia Qa]. unfold stepT. destruct (fmatch (rflt rl) t && trole t); [|split; assumption].
        assert (Ca : (cnt a <= f)%nat) by (assert (Hm := cnt_mono acc1 a Ia); lia).
        destruct (IH (tname t) a (or_intror (conj (vis_in_U w t Ht) Ca))) as [_ K].
        assert (Ii := rra_dfs_infl f (tname t) a). split; [eapply incl_tran; eassumption|].
        intros x Hx Nx y E. destruct (in_dec N.eq_dec x a) as [Hxa|Hxa].
        - apply Ii. apply (Qa x Hxa Nx y E).
        - apply (K x Hx Hxa y E). }
      assert (PW : P (fold_left (stepW f r) wss acc1)).
      { apply fold_left_inv.
        - split; [apply incl_refl|]. intros x Hx Nx. contradiction.
        - intros a w _ Pa. unfold stepW. apply fold_left_inv; [exact Pa|]. intros a' rl _ Pa'. unfold stepR.
          destruct (mem acl_op_inherits (rops rl) && (rprin rl =? r)); [|exact Pa'].
          apply fold_left_inv; [exact Pa'|]. intros a'' t Ht Pa''. apply (PT rl w a'' t Ht Pa''). }
      destruct PW as [I1 Q1]. split.
      * apply I1. apply sins_In. left. reflexivity.
      * intros x Hx Nx y E. destruct (N.eq_dec x r) as [->|Ne].
        -- (* the edges of r itself: the fold passed through them *)
           destruct E as (w & rl & t & Hw & Hrl & Hop & Hp & Ht & Hm & Hr & Hn).
           destruct (lfold_at (stepW f r) wss w (infl_stepW f r) Hw acc1) as (a1 & Ia1 & Ja1).
           unfold stepW at 1 in Ja1.
           destruct (lfold_at (stepR f r w) (acl_of S w) rl (infl_stepR f r w) Hrl a1) as (a2 & Ia2 & Ja2).
           unfold stepR at 1 in Ja2. rewrite Hop, Hp, N.eqb_refl in Ja2. cbn [andb] in Ja2.
           destruct (lfold_at (stepT f rl) (vis_types S w) t (infl_stepT f rl) Ht a2) as (a3 & Ia3 & Ja3).
           unfold stepT at 1 in Ja3. rewrite Hm, Hr in Ja3. cbn [andb] in Ja3.
           assert (I3 : incl acc1 a3) by (eapply incl_tran; [exact Ia1|]; eapply incl_tran; eassumption).
           assert (C3 : (cnt a3 <= f)%nat) by (assert (Hc := cnt_mono acc1 a3 I3); lia).
           destruct (IH (tname t) a3 (or_intror (conj (vis_in_U w t Ht) C3))) as [K _].
           rewrite <- Hn. apply Ja1, Ja2, Ja3. exact K.
        -- apply (Q1 x Hx); [|exact E]. intros Hx1. apply sins_In in Hx1. destruct Hx1 as [->|Hx1]; [congruence|contradiction].
Qed.

(* T: everything reachable from r over the declared edges is in the result *)
Lemma rra_dfs_complete r : forall x, clos_refl_trans N edge r x ->
  In x (rra_dfs (Datatypes.S (length (stypes S))) S wss r []).
Proof.
  assert (Hf : (cnt [] < Datatypes.S (length (stypes S)))%nat).
  { unfold cnt, U. assert (H := filter_length_le (fun u => negb (mem u [])) (fun _ => true) (map tname (stypes S)) (fun _ _ _ => eq_refl)).
    assert (E : filter (fun _ : N => true) (map tname (stypes S)) = map tname (stypes S)) by (induction (map tname (stypes S)) as [|a l IH]; cbn; [reflexivity|rewrite IH; reflexivity]).
    rewrite E, map_length in H. lia. }
  destruct (rra_dfs_ok _ r [] (or_introl Hf)) as [Hr K].
  intros x H. apply clos_rt_rt1n in H. apply clos_rt1n_rt in H. apply clos_rt_rtn1 in H.
  induction H as [|y z E _ IH]; [exact Hr|]. apply (K y IH (fun F => F) z E).
Qed.
End Dfs.

(* the edges of `edge S (ws_order S w)` are exactly the pairs of the oracle's `inh_edges S w` *)
Lemma inh_edges_edge S w a b : In (a, b) (inh_edges S w) <-> edge S (ws_order S w) a b.
Proof.
  unfold inh_edges, edge. rewrite in_flat_map. split.
  - intros (w' & Hw & H). apply in_flat_map in H. destruct H as (rl & Hrl & H).
    destruct (mem acl_op_inherits (rops rl)) eqn:Hop; [|destruct H].
    apply in_map_iff in H. destruct H as (t & E & Ht). apply filter_In in Ht. destruct Ht as [Ht C].
    apply andb_prop in C. destruct C as [C1 C2]. inversion E; subst. exists w', rl, t. repeat split; assumption.
  - intros (w' & rl & t & Hw & Hrl & Hop & Hp & Ht & Hm & Hr & Hn). exists w'. split; [exact Hw|].
    apply in_flat_map. exists rl. split; [exact Hrl|]. rewrite Hop. apply in_map_iff. exists t. split; [congruence|].
    apply filter_In. split; [exact Ht|]. rewrite Hm, Hr. reflexivity.
Qed.

(* T: the repaired RecursiveRoleAncestors returns every role reachable through the inheritance
   declarations of the workspace and its ancestors *)
Lemma rra_closure_complete S r w l : rra_any true S r w = Some l ->
  forall x, clos_refl_trans N (fun a b => In (a, b) (inh_edges S w)) r x -> In x l.
Proof.
  unfold rra_any. intros E x H. injection E as E. rewrite <- E. apply rra_dfs_complete.
  clear E. induction H as [a b H| |a b c _ IH1 _ IH2].
  - apply rt_step. apply inh_edges_edge. exact H.
  - apply rt_refl.
  - eapply rt_trans; eassumption.
Qed.

(* and only such roles (edges of the list are inheritance steps in the sense of Roles.v) *)
Lemma inh_edges_step S w a b : In (a, b) (inh_edges S w) -> inh_step S w a b.
Proof.
  intros H. apply inh_edges_edge in H. destruct H as (w' & rl & t & Hw & Hrl & Hop & Hp & Ht & Hm & Hr & Hn).
  destruct (vis_types_sound S w' t Ht) as [T1 T2]. exists w', rl, t. repeat split; try assumption.
  apply ws_order_sound. exact Hw.
Qed.

(* ---------- exactness: the result is precisely the reachable set ---------- *)
Lemma rra_dfs_sound_edge S wss : forall fuel r acc x,
  In x (rra_dfs fuel S wss r acc) -> In x acc \/ clos_refl_trans N (edge S wss) r x.
Proof.
  induction fuel as [|f IH]; intros r acc x H; [left; exact H|]. rewrite rra_dfs_unfold in H.
  destruct (mem r acc); [left; exact H|].
  set (P := fun a : list N => forall x, In x a -> In x acc \/ clos_refl_trans N (edge S wss) r x).
  revert x H. change (P (fold_left (stepW S wss f r) wss (sins r acc))). apply fold_left_inv.
  - intros x Hx. apply sins_In in Hx. destruct Hx as [->|Hx]; [right; apply rt_refl|left; exact Hx].
  - intros a w Hw Pa. unfold stepW. apply fold_left_inv; [exact Pa|]. intros a' rl Hrl Pa'. unfold stepR.
    destruct (mem acl_op_inherits (rops rl) && (rprin rl =? r)) eqn:C; [|exact Pa'].
    apply andb_prop in C. destruct C as [C1 C2]. apply N.eqb_eq in C2.
    apply fold_left_inv; [exact Pa'|]. intros a'' t Ht Pa''. unfold stepT.
    destruct (fmatch (rflt rl) t && trole t) eqn:D; [|exact Pa'']. apply andb_prop in D. destruct D as [D1 D2].
    intros x Hx. destruct (IH (tname t) a'' x Hx) as [Hx'|Hx']; [apply Pa''; exact Hx'|]. right.
    apply rt_trans with (y := tname t); [|exact Hx']. apply rt_step. exists w, rl, t. repeat split; assumption.
Qed.

Definition reach (S : schema) (w : N) : N -> N -> Prop := clos_refl_trans N (fun a b => In (a, b) (inh_edges S w)).

Lemma reach_edge S w r x : reach S w r x <-> clos_refl_trans N (edge S (ws_order S w)) r x.
Proof.
  split; intros H; induction H as [a b H| |a b c _ IH1 _ IH2];
    try (apply rt_step; apply inh_edges_edge; exact H); try apply rt_refl; eapply rt_trans; eassumption.
Qed.

(* T: RecursiveRoleAncestors (repaired) = exactly the roles reachable over the declared inheritance *)
Lemma rra_closure_exact S r w : exists l, rra_any true S r w = Some l /\ forall x, In x l <-> reach S w r x.
Proof.
  eexists. split; [reflexivity|]. intros x. split.
  - intros H. apply reach_edge. destruct (rra_dfs_sound_edge S _ _ r [] x H) as [[]|H']. exact H'.
  - intros H. apply (rra_closure_complete S r w _ eq_refl x H).
Qed.

(* T: the expanded role set of IsOperationAllowed (repaired loop, repaired ancestors) = the supplied
   names plus everything reachable from the supplied roles *)
Lemma union_step_infl S w r : infl (fun acc => union_step true S w acc r).
Proof.
  intros acc l E. unfold union_step in E. destruct acc as [cur|]; [|discriminate]. exists cur. split; [reflexivity|].
  destruct (is_role S w r); [|inversion E; apply incl_refl].
  destruct (rra_any true S r w) as [adds|]; [|discriminate]. inversion E; subst.
  intros y Hy. apply fold_add_new_In. right. exact Hy.
Qed.

Lemma union_expand_exact S w r0 : exists l, union_expand true S w r0 = Some l /\
  forall x, In x l <-> In x r0 \/ exists r, In r r0 /\ is_role S w r = true /\ reach S w r x.
Proof.
  unfold union_expand.
  assert (Ex : forall l0 init, exists l, fold_left (union_step true S w) l0 (Some init) = Some l).
  { induction l0 as [|r l0 IH]; intros init; cbn [fold_left]; [eexists; reflexivity|].
    unfold union_step at 2. destruct (is_role S w r); [|apply IH]. unfold rra_any at 1. apply IH. }
  destruct (Ex r0 r0) as (l & El). exists l. split; [exact El|]. intros x. split.
  - revert l El x.
    set (P := fun acc : option (list N) => forall l, acc = Some l -> forall x, In x l ->
                In x r0 \/ exists r, In r r0 /\ is_role S w r = true /\ reach S w r x).
    change (P (fold_left (union_step true S w) r0 (Some r0))). apply fold_left_inv.
    + intros l E x Hx. inversion E; subst. left. exact Hx.
    + intros acc r Hr Pacc l E x Hx. unfold union_step in E. destruct acc as [cur|]; [|discriminate].
      destruct (is_role S w r) eqn:Ir; [|apply (Pacc _ E x Hx)].
      destruct (rra_closure_exact S r w) as (adds & Ea & Ha). rewrite Ea in E. inversion E; subst.
      apply fold_add_new_In in Hx. destruct Hx as [Hx|Hx]; [|apply (Pacc _ eq_refl x Hx)].
      right. exists r. split; [exact Hr|]. split; [exact Ir|]. apply Ha. exact Hx.
  - intros [Hx|(r & Hr & Ir & Hx)].
    + destruct (infl_fold _ r0 (union_step_infl S w) _ _ El) as (a & Ea & Ia). inversion Ea; subst. apply Ia. exact Hx.
    + destruct (fold_at _ r0 r _ _ (union_step_infl S w) Hr El) as (acc & a & Ea & Ia). apply Ia.
      unfold union_step in Ea. destruct acc as [cur|]; [|discriminate]. rewrite Ir in Ea.
      destruct (rra_closure_exact S r w) as (adds & Eadds & Ha). rewrite Eadds in Ea. inversion Ea; subst.
      apply fold_add_new_In. left. apply Ha. exact Hx.
Qed.
