(* C13 - proofs about role expansion: the loop of IsOperationAllowed and RecursiveRoleAncestors. *)
From Coq Require Import List NArith Bool Lia Arith Relations.
From V Require Import Lib.Check Gen.Params C13_ACL.Model C13_ACL.Proofs.
Import ListNotations.
Local Open Scope N_scope.

Lemma fold_left_inv {A B} (P : A -> Prop) (f : A -> B -> A) (l : list B) :
  forall init, P init -> (forall acc x, In x l -> P acc -> P (f acc x)) -> P (fold_left f l init).
Proof.
  induction l as [|x l IH]; intros init H0 Hs; cbn [fold_left]; [exact H0|].
  apply IH; [apply Hs; [left; reflexivity|exact H0]|]. intros acc y Hy. apply Hs. right. exact Hy.
Qed.

(* ---------- the expansion loop ---------- *)

Lemma sins_length q l : mem q l = false -> length (sins q l) = Datatypes.S (length l).
Proof.
  induction l as [|y r IH]; intros H; cbn; [reflexivity|].
  rewrite mem_cons in H. apply orb_false_iff in H. destruct H as [E M].
  destruct (q <? y); [reflexivity|]. rewrite E. cbn. rewrite IH by exact M. reflexivity.
Qed.

Lemma x_add1_full aliased n0 st q : (n0 <= length (xcur st))%nat ->
  x_add1 aliased n0 n0 st q = x_add1 false n0 n0 st q /\ (n0 <= length (xcur (x_add1 false n0 n0 st q)))%nat.
Proof.
  intros L. unfold x_add1. destruct (mem q (xcur st)) eqn:M; [split; [reflexivity|exact L]|].
  assert (E : Nat.leb (length (sins q (xcur st))) n0 = false).
  { apply Nat.leb_gt. rewrite sins_length by exact M. lia. }
  rewrite E, andb_false_r. split; [reflexivity|]. cbn. rewrite sins_length by exact M. lia.
Qed.

Lemma x_fold_full aliased n0 adds : forall st, (n0 <= length (xcur st))%nat ->
  fold_left (x_add1 aliased n0 n0) adds st = fold_left (x_add1 false n0 n0) adds st /\
  (n0 <= length (xcur (fold_left (x_add1 false n0 n0) adds st)))%nat.
Proof.
  induction adds as [|q adds IH]; intros st L; cbn [fold_left]; [split; [reflexivity|exact L]|].
  destruct (x_add1_full aliased n0 st q L) as [E L']. rewrite E. apply IH. exact L'.
Qed.

Lemma x_loop_full aliased closure S w n0 idx : forall st, (n0 <= length (xcur st))%nat ->
  x_loop aliased closure S w n0 n0 idx st = x_loop false closure S w n0 n0 idx st.
Proof.
  induction idx as [|i idx IH]; intros st L; cbn [x_loop]; [reflexivity|].
  destruct (is_role S w (nth i (xview st) 0)); [|apply IH; exact L].
  destruct (rra_any closure S (nth i (xview st) 0) w) as [adds|]; [|reflexivity].
  destruct (x_fold_full aliased n0 adds st L) as [E L']. rewrite E. apply IH. exact L'.
Qed.

(* T (partial): when the sorted slice of supplied roles is full (length = capacity: 1, 2, 4, 8 ...
   distinct roles) the first Add reallocates and the loop visits exactly the supplied roles *)
Lemma expand_full_slice aliased closure S w rol :
  cap_for (length (sfrom rol)) = length (sfrom rol) -> expand_gen aliased closure S w rol = expand_gen false closure S w rol.
Proof. intros C. unfold expand_gen. rewrite C. rewrite x_loop_full; [reflexivity|]. cbn. apply Nat.le_refl. Qed.

(* the loop without aliasing is the plain union of the role ancestors of the supplied roles *)
Definition add_new (c : list N) (q : N) : list N := if mem q c then c else sins q c.
Definition union_step (closure : bool) (S : schema) (w : N) (acc : option (list N)) (r : N) : option (list N) :=
  match acc with
  | None => None
  | Some cur =>
    if is_role S w r then
      match rra_any closure S r w with None => None | Some adds => Some (fold_left add_new adds cur) end
    else Some cur
  end.
Definition union_expand (closure : bool) (S : schema) (w : N) (r0 : list N) : option (list N) :=
  fold_left (union_step closure S w) r0 (Some r0).

Lemma x_fold_false n0 cap0 adds : forall st,
  xcur (fold_left (x_add1 false n0 cap0) adds st) = fold_left add_new adds (xcur st) /\
  xview (fold_left (x_add1 false n0 cap0) adds st) = xview st.
Proof.
  induction adds as [|q adds IH]; intros st; cbn [fold_left]; [split; reflexivity|].
  destruct (IH (x_add1 false n0 cap0 st q)) as [E1 E2]. rewrite E1, E2. unfold x_add1, add_new.
  destruct (mem q (xcur st)); [split; reflexivity|].
  destruct (xshared st && Nat.leb (length (sins q (xcur st))) cap0); split; reflexivity.
Qed.

Lemma fold_union_none closure S w l : fold_left (union_step closure S w) l None = None.
Proof. induction l as [|x l IH]; [reflexivity|exact IH]. Qed.

Lemma x_loop_false closure S w n0 cap0 idx : forall st,
  option_map xcur (x_loop false closure S w n0 cap0 idx st) =
  fold_left (union_step closure S w) (map (fun i => nth i (xview st) 0) idx) (Some (xcur st)).
Proof.
  induction idx as [|i idx IH]; intros st; cbn [x_loop map fold_left]; [reflexivity|].
  unfold union_step at 2. destruct (is_role S w (nth i (xview st) 0)); [|apply IH].
  destruct (rra_any closure S (nth i (xview st) 0) w) as [adds|]; [|rewrite fold_union_none; reflexivity].
  rewrite IH. destruct (x_fold_false n0 cap0 adds st) as [E1 E2]. rewrite E1, E2. reflexivity.
Qed.

Lemma map_nth_seq (l : list N) d : map (fun i => nth i l d) (seq 0 (length l)) = l.
Proof.
  induction l as [|x l IH]; [reflexivity|]. cbn [length seq map nth]. f_equal.
  rewrite <- seq_shift, map_map. exact IH.
Qed.

(* T: with the loop iterating a snapshot (aliased = false) every supplied role is expanded exactly once *)
Lemma expand_unaliased_union closure S w rol : expand_gen false closure S w rol = union_expand closure S w (sfrom rol).
Proof.
  unfold expand_gen, union_expand. rewrite x_loop_false. cbn [xview xcur]. rewrite map_nth_seq. reflexivity.
Qed.

(* ---------- RecursiveRoleAncestors is sound for the declared inheritance ---------- *)

Inductive anc_star (S : schema) : N -> N -> Prop :=
| as_refl w : anc_star S w w
| as_step w a w' : In a (ancs S w) -> anc_star S a w' -> anc_star S w w'.

(* role a directly inherits role b by a rule declared in w or in an ancestor of w *)
Definition inh_step (S : schema) (w a b : N) : Prop :=
  exists w' rl t, anc_star S w w' /\ In rl (acl_of S w') /\ mem acl_op_inherits (rops rl) = true /\ rprin rl = a /\
    In t (stypes S) /\ anc_star S w' (tws t) /\ fmatch (rflt rl) t = true /\ trole t = true /\ tname t = b.
Definition inherits_star (S : schema) (w : N) : N -> N -> Prop := clos_refl_trans N (inh_step S w).

Lemma anc_star_trans S a b c : anc_star S a b -> anc_star S b c -> anc_star S a c.
Proof. intros H1. induction H1 as [|w a w' Ha Hs IH]; intros H2; [exact H2|]. eapply as_step; [exact Ha|]. apply IH. exact H2. Qed.

Lemma visit_sound S fuel : forall w st x, In x (snd (visit fuel S w st)) -> In x (snd st) \/ anc_star S w x.
Proof.
  induction fuel as [|f IH]; intros w st x H; cbn [visit] in H; [left; exact H|].
  destruct (mem w (fst st)); [left; exact H|]. cbn [snd] in H. apply in_app_or in H. destruct H as [H|[<-|[]]].
  - assert (G : forall l s, incl l (ancs S w) -> In x (snd (fold_left (fun s a => visit f S a s) l s)) ->
              In x (snd s) \/ exists a, In a (ancs S w) /\ anc_star S a x).
    { induction l as [|a l IHl]; intros s Hi Hx; cbn [fold_left] in Hx; [left; exact Hx|].
      destruct (IHl _ (fun y Hy => Hi y (or_intror Hy)) Hx) as [Hx'|E]; [|right; exact E].
      destruct (IH a s x Hx') as [?|?]; [left; assumption|]. right. exists a. split; [apply Hi; left; reflexivity|assumption]. }
    destruct (G _ _ (incl_refl _) H) as [Hx|(a & Ha & Hs)]; [left; exact Hx|]. right. eapply as_step; eassumption.
  - right. constructor.
Qed.

Lemma ws_order_sound S w x : In x (ws_order S w) -> anc_star S w x.
Proof. unfold ws_order. intros H. destruct (visit_sound S _ w ([], []) x H) as [[]|H']. exact H'. Qed.

Lemma vis_types_sound S w t : In t (vis_types S w) -> In t (stypes S) /\ anc_star S w (tws t).
Proof.
  unfold vis_types. rewrite filter_In. intros [H M]. split; [exact H|]. apply ws_order_sound. apply mem_In. exact M.
Qed.

Lemma inh_step_up S w a x y : In a (ancs S w) -> inh_step S a x y -> inh_step S w x y.
Proof.
  intros Ha (w' & rl & t & H & R). exists w', rl, t. split; [|exact R]. eapply as_step; eassumption.
Qed.

Lemma inherits_star_up S w a x y : In a (ancs S w) -> inherits_star S a x y -> inherits_star S w x y.
Proof.
  intros Ha H. induction H as [x y H| |x y z _ IH1 _ IH2].
  - apply rt_step. eapply inh_step_up; eassumption.
  - apply rt_refl.
  - eapply rt_trans; eassumption.
Qed.

Lemma oadd_some acc x l : oadd acc x = Some l -> exists a b, acc = Some a /\ x = Some b /\ l = sadd b a.
Proof. destruct acc as [a|], x as [b|]; cbn; try discriminate. intros E. inversion E. eauto. Qed.

(* T: every role RecursiveRoleAncestors returns is connected to the starting role by a chain of
   inheritance declarations visible from the workspace *)
Lemma rra_p_sound S fuel : forall path r w l, rra_p fuel S path r w = Some l -> forall x, In x l -> inherits_star S w r x.
Proof.
  induction fuel as [|f IH]; intros path r w l H; cbn [rra_p] in H; [discriminate|].
  destruct (on_path r w path); [discriminate|].
  set (P := fun acc : option (list N) => forall l, acc = Some l -> forall x, In x l -> inherits_star S w r x).
  revert l H. change (P (fold_left (fun acc a => oadd acc (rra_p f S ((r, w) :: path) r a)) (ancs S w)
    (fold_left (fun acc rl => if mem acl_op_inherits (rops rl) && (rprin rl =? r)
       then fold_left (fun acc t => if fmatch (rflt rl) t && trole t then oadd acc (rra_p f S ((r, w) :: path) (tname t) w) else acc) (vis_types S w) acc
       else acc) (acl_of S w) (Some [r])))).
  apply fold_left_inv.
  - apply fold_left_inv.
    + intros l E x Hx. inversion E; subst. destruct Hx as [<-|[]]. apply rt_refl.
    + intros acc rl Hrl Pacc. destruct (mem acl_op_inherits (rops rl) && (rprin rl =? r)) eqn:C; [|exact Pacc].
      apply andb_prop in C. destruct C as [C1 C2]. apply N.eqb_eq in C2.
      apply fold_left_inv; [exact Pacc|]. intros acc' t Ht Pacc'.
      destruct (fmatch (rflt rl) t && trole t) eqn:D; [|exact Pacc']. apply andb_prop in D. destruct D as [D1 D2].
      intros l E x Hx. apply oadd_some in E. destruct E as (a & b & -> & Eb & ->).
      apply sadd_In in Hx. destruct Hx as [Hx|Hx]; [|apply (Pacc' a eq_refl x Hx)].
      apply rt_trans with (y := tname t); [|apply (IH _ _ _ _ Eb x Hx)].
      apply rt_step. destruct (vis_types_sound S w t Ht) as [T1 T2].
      exists w, rl, t. repeat split; try assumption. constructor.
  - intros acc a Ha Pacc l E x Hx. apply oadd_some in E. destruct E as (c & b & -> & Eb & ->).
    apply sadd_In in Hx. destruct Hx as [Hx|Hx]; [|apply (Pacc c eq_refl x Hx)].
    apply (inherits_star_up S w a r x Ha). apply (IH _ _ _ _ Eb x Hx).
Qed.

Lemma rra_sound S fuel r w l : rra fuel S r w = Some l -> forall x, In x l -> inherits_star S w r x.
Proof. apply rra_p_sound. Qed.

(* every role the (unaliased or aliased) expansion ends with is a supplied name or inherited,
   through declared inheritance, from a name the loop visited; stated for the union form *)
Lemma add_new_In c q x : In x (add_new c q) <-> x = q \/ In x c.
Proof.
  unfold add_new. destruct (mem q c) eqn:M; [|apply sins_In].
  split; [auto|]. intros [->|H]; [apply mem_In; exact M|exact H].
Qed.

Lemma fold_add_new_In adds : forall c x, In x (fold_left add_new adds c) <-> In x adds \/ In x c.
Proof.
  induction adds as [|q adds IH]; intros c x; cbn [fold_left]; [cbn; intuition auto|].
  rewrite IH, add_new_In. cbn. intuition auto.
Qed.

(* the repaired RecursiveRoleAncestors (depth-first closure) is sound as well *)
Lemma rra_dfs_sound S w0 wss : (forall w, In w wss -> anc_star S w0 w) ->
  forall fuel r acc x, In x (rra_dfs fuel S wss r acc) -> In x acc \/ inherits_star S w0 r x.
Proof.
  intros Hw. induction fuel as [|f IH]; intros r acc x H; cbn [rra_dfs] in H; [left; exact H|].
  destruct (mem r acc); [left; exact H|].
  set (P := fun a : list N => forall x, In x a -> In x acc \/ inherits_star S w0 r x).
  revert x H. change (P (fold_left (fun acc w => fold_left (fun acc rl =>
        if mem acl_op_inherits (rops rl) && (rprin rl =? r)
        then fold_left (fun acc t => if fmatch (rflt rl) t && trole t then rra_dfs f S wss (tname t) acc else acc) (vis_types S w) acc
        else acc) (acl_of S w) acc) wss (sins r acc))).
  apply fold_left_inv.
  - intros x Hx. apply sins_In in Hx. destruct Hx as [->|Hx]; [right; apply rt_refl|left; exact Hx].
  - intros a w Hin Pa. apply fold_left_inv; [exact Pa|]. intros a' rl Hrl Pa'.
    destruct (mem acl_op_inherits (rops rl) && (rprin rl =? r)) eqn:C; [|exact Pa'].
    apply andb_prop in C. destruct C as [C1 C2]. apply N.eqb_eq in C2.
    apply fold_left_inv; [exact Pa'|]. intros a'' t Ht Pa''.
    destruct (fmatch (rflt rl) t && trole t) eqn:D; [|exact Pa'']. apply andb_prop in D. destruct D as [D1 D2].
    intros x Hx. destruct (IH (tname t) a'' x Hx) as [Hx'|Hx']; [apply Pa''; exact Hx'|]. right.
    apply rt_trans with (y := tname t); [|exact Hx']. apply rt_step.
    destruct (vis_types_sound S w t Ht) as [T1 T2]. exists w, rl, t. repeat split; try assumption. apply Hw. exact Hin.
Qed.

Lemma rra_any_sound closure S r w l : rra_any closure S r w = Some l -> forall x, In x l -> inherits_star S w r x.
Proof.
  unfold rra_any. destruct closure.
  - intros E x Hx. injection E as E. rewrite <- E in Hx.
    destruct (rra_dfs_sound S w (ws_order S w) (ws_order_sound S w) (Datatypes.S (length (stypes S))) r [] x Hx) as [[]|H]. exact H.
  - apply rra_sound.
Qed.

(* T: nothing enters the expanded role set without an inheritance chain from a supplied role *)
Lemma union_expand_sound closure S w r0 l : union_expand closure S w r0 = Some l ->
  forall x, In x l -> exists r, In r r0 /\ inherits_star S w r x.
Proof.
  unfold union_expand.
  set (P := fun acc : option (list N) => forall l, acc = Some l -> forall x, In x l -> exists r, In r r0 /\ inherits_star S w r x).
  revert l. change (P (fold_left (union_step closure S w) r0 (Some r0))). apply fold_left_inv.
  - intros l E x Hx. inversion E; subst. exists x. split; [exact Hx|apply rt_refl].
  - intros acc r Hr Pacc l E x Hx. unfold union_step in E. destruct acc as [cur|]; [|discriminate].
    destruct (is_role S w r); [|apply (Pacc _ E x Hx)].
    destruct (rra_any closure S r w) as [adds|] eqn:R; [|discriminate]. inversion E; subst.
    apply fold_add_new_In in Hx. destruct Hx as [Hx|Hx]; [|apply (Pacc _ eq_refl x Hx)].
    exists r. split; [exact Hr|]. apply (rra_any_sound closure S r w adds R x Hx).
Qed.

(* ---------- completeness of RecursiveRoleAncestors inside one workspace ---------- *)

Definition infl (s : option (list N) -> option (list N)) : Prop :=
  forall acc l, s acc = Some l -> exists a, acc = Some a /\ incl a l.

Lemma infl_id : infl (fun acc => acc).
Proof. intros acc l E. exists l. split; [exact E|apply incl_refl]. Qed.

Lemma infl_oadd x : infl (fun acc => oadd acc x).
Proof.
  intros acc l E. apply oadd_some in E. destruct E as (a & b & -> & _ & ->). exists a. split; [reflexivity|].
  intros y Hy. apply sadd_In. right. exact Hy.
Qed.

Lemma infl_fold {B} (f : option (list N) -> B -> option (list N)) (l : list B) :
  (forall e, infl (fun acc => f acc e)) -> infl (fun acc => fold_left f l acc).
Proof.
  intros Hf. induction l as [|e l IH]; [apply infl_id|]. intros acc r E. cbn [fold_left] in E.
  destruct (IH _ _ E) as (a & Ea & Ia). destruct (Hf e _ _ Ea) as (a0 & E0 & I0).
  exists a0. split; [exact E0|]. eapply incl_tran; eassumption.
Qed.

Lemma fold_at {B} (f : option (list N) -> B -> option (list N)) (l : list B) e init r :
  (forall e, infl (fun acc => f acc e)) -> In e l -> fold_left f l init = Some r ->
  exists acc a, f acc e = Some a /\ incl a r.
Proof.
  intros Hf Hin E. apply in_split in Hin. destruct Hin as (l1 & l2 & ->).
  rewrite fold_left_app in E. cbn [fold_left] in E.
  destruct (infl_fold f l2 Hf _ _ E) as (a & Ea & Ia). eauto.
Qed.

Lemma anc_star_flat S w w' : ancs S w = [] -> anc_star S w w' -> w' = w.
Proof. intros H A. destruct A as [|w a w' Ha _]; [reflexivity|]. rewrite H in Ha. destruct Ha. Qed.

Lemma ws_order_flat S w : ancs S w = [] -> ws_order S w = [w].
Proof. intros H. unfold ws_order. cbn [visit fst snd mem existsb]. rewrite H. reflexivity. Qed.

Section Flat.
Variables (S : schema) (w : N).
Hypothesis flat : ancs S w = [].

Let inner f path (rl : rule) := fun acc t =>
  if fmatch (rflt rl) t && trole t then oadd acc (rra_p f S path (tname t) w) else acc.
Let outer f path r := fun acc rl =>
  if mem acl_op_inherits (rops rl) && (rprin rl =? r) then fold_left (inner f path rl) (vis_types S w) acc else acc.

Lemma infl_inner f path rl t : infl (fun acc => inner f path rl acc t).
Proof. unfold inner. destruct (fmatch (rflt rl) t && trole t); [apply infl_oadd|apply infl_id]. Qed.

Lemma infl_outer f path r rl : infl (fun acc => outer f path r acc rl).
Proof.
  unfold outer. destruct (mem acl_op_inherits (rops rl) && (rprin rl =? r)); [|apply infl_id].
  apply infl_fold. intros t. apply infl_inner.
Qed.

Lemma rra_flat_unfold f path r :
  rra_p (Datatypes.S f) S path r w =
  if on_path r w path then None else fold_left (outer f ((r, w) :: path) r) (acl_of S w) (Some [r]).
Proof. cbn [rra_p]. rewrite flat. reflexivity. Qed.

Lemma rra_flat_self fuel : forall path r l, rra_p fuel S path r w = Some l -> In r l.
Proof.
  destruct fuel as [|f]; intros path r l E; [discriminate|]. rewrite rra_flat_unfold in E.
  destruct (on_path r w path); [discriminate|].
  destruct (infl_fold _ _ (infl_outer f _ r) _ _ E) as (a & Ea & Ia). inversion Ea; subst. apply Ia. left. reflexivity.
Qed.

Lemma rra_flat_step fuel path r y l : rra_p fuel S path r w = Some l -> inh_step S w r y ->
  exists f path' ly, rra_p f S path' y w = Some ly /\ incl ly l.
Proof.
  intros E (w' & rl & t & A & Hrl & Hop & Hp & Ht & At & Hm & Hr & Hn).
  apply (anc_star_flat S w w' flat) in A. subst w'. apply (anc_star_flat S w _ flat) in At.
  destruct fuel as [|f]; [discriminate|]. rewrite rra_flat_unfold in E. destruct (on_path r w path); [discriminate|].
  destruct (fold_at _ _ rl _ _ (infl_outer f _ r) Hrl E) as (acc & a & Ea & Ia).
  unfold outer in Ea. rewrite Hop, Hp, N.eqb_refl in Ea. cbn [andb] in Ea.
  assert (Hv : In t (vis_types S w)).
  { unfold vis_types. apply filter_In. split; [exact Ht|]. rewrite (ws_order_flat S w flat), At. cbn. rewrite N.eqb_refl. reflexivity. }
  destruct (fold_at _ _ t _ _ (infl_inner f _ rl) Hv Ea) as (acc2 & a2 & Ea2 & Ia2).
  unfold inner in Ea2. rewrite Hm, Hr in Ea2. cbn [andb] in Ea2. apply oadd_some in Ea2.
  destruct Ea2 as (c & b & _ & Eb & ->). exists f, ((r, w) :: path), b. rewrite <- Hn. split; [exact Eb|].
  intros x Hx. apply Ia, Ia2. apply sadd_In. left. exact Hx.
Qed.

(* T (partial): in a workspace without ancestors RecursiveRoleAncestors, when it returns, returns the
   whole inheritance closure *)
Lemma rra_flat_complete r x : inherits_star S w r x ->
  forall fuel path l, rra_p fuel S path r w = Some l -> In x l.
Proof.
  intros H. apply clos_rt_rt1n in H. induction H as [r|r y x Hs _ IH]; intros fuel path l E.
  - apply (rra_flat_self fuel path r l E).
  - destruct (rra_flat_step fuel path r y l E Hs) as (f & path' & ly & Ey & Iy). apply Iy. apply (IH f path' ly Ey).
Qed.
End Flat.
