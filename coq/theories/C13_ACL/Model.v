(* C13 - ACL decisions.  Executable model of pkg/appdef/acl (IsOperationAllowed, PublishedTypes,
   RecursiveRoleAncestors, checkOperationOnTypeForRoles) as the code is, an independent
   declarative evaluator of the grant/revoke semantics, and the trace checks.  Definitions only.

   Names (QNames of types, roles, tags, workspaces) are numbered by the harness by their rank in
   appdef.CompareQName order, so `N.ltb` is the order Go sorts QNames by.  Field names are
   numbered with the five system fields first (sys.QName=0, sys.ID=1, sys.ParentID=2,
   sys.Container=3, sys.IsActive=4). *)
From Coq Require Import List NArith Bool.
From V Require Import Lib.Check Gen.Params.
Import ListNotations.
Local Open Scope N_scope.

Definition mem (x : N) (l : list N) : bool := existsb (N.eqb x) l.
Definition is_nil {T} (l : list T) : bool := match l with [] => true | _ => false end.
Definition is_sys (f : N) : bool := f <? acl_sys_field_count.
Definition f_isactive : N := 4.

(* ---- appdef.QNames: sorted slice without duplicates ---- *)
Fixpoint sins (x : N) (l : list N) : list N :=
  match l with
  | [] => [x]
  | y :: r => if x <? y then x :: l else if x =? y then l else y :: sins x r
  end.
Definition sadd (xs l : list N) : list N := fold_left (fun acc x => sins x acc) xs l.
Definition sfrom (xs : list N) : list N := sadd xs [].

(* ---- schema ---- *)
Inductive filt :=
| FTrue | FQNames (l : list N) | FTags (l : list N) | FTypes (k : list N) | FWSTypes (w : N) (k : list N)
| FAnd (a b : filt) | FOr (a b : filt) | FNot (a : filt).

Record typ := mkTyp {
  tname : N; tkind : N; tws : N; ttags : list N;
  tflds : option (list N);          (* Some fields (declaration order) iff the type is IWithFields *)
  trec : bool; tfun : bool; trole : bool;   (* IRecord / IFunction / IRole *)
  tpub : bool; taclops : list N }.  (* kind is published; ACLOperationsForType(kind) in order *)

Record rule := mkRule { rops : list N; rallow : bool; rflt : filt; rfields : list N; rprin : N }.
Record wsp := mkWs { wname : N; wanc : list N; wacl : list rule }.
Record schema := mkSchema { stypes : list typ (* sorted by name *); swss : list wsp }.

Fixpoint fmatch (f : filt) (t : typ) : bool :=
  match f with
  | FTrue => true
  | FQNames l => mem (tname t) l
  | FTags l => existsb (fun g => mem g (ttags t)) l
  | FTypes k => mem (tkind t) k
  | FWSTypes w k => mem (tkind t) k && (tws t =? w)
  | FAnd a b => fmatch a t && fmatch b t
  | FOr a b => fmatch a t || fmatch b t
  | FNot a => negb (fmatch a t)
  end.

Definition find_ws (S : schema) (w : N) : option wsp := find (fun x => wname x =? w) (swss S).
Definition ancs (S : schema) (w : N) : list N := match find_ws S w with Some x => wanc x | None => [] end.
Definition acl_of (S : schema) (w : N) : list rule := match find_ws S w with Some x => wacl x | None => [] end.

(* the recursion `acl(ws)` of checkOperationOnTypeForRoles (= enumerateTypes, Type): ancestors in
   name order first, then the workspace itself, every workspace once *)
Fixpoint visit (fuel : nat) (S : schema) (w : N) (st : list N * list N) : list N * list N :=
  match fuel with
  | O => st
  | Datatypes.S f =>
    if mem w (fst st) then st else
    let st' := fold_left (fun s a => visit f S a s) (ancs S w) (w :: fst st, snd st) in
    (fst st', snd st' ++ [w])
  end.
Definition ws_order (S : schema) (w : N) : list N := snd (visit (Datatypes.S (length (swss S))) S w ([], [])).
Definition all_rules (S : schema) (w : N) : list rule := flat_map (acl_of S) (ws_order S w).
Definition vis_types (S : schema) (w : N) : list typ := filter (fun t => mem (tws t) (ws_order S w)) (stypes S).
Definition find_type (S : schema) (w res : N) : option typ := find (fun t => tname t =? res) (vis_types S w).
Definition is_role (S : schema) (w r : N) : bool := match find_type S w r with Some t => trole t | None => false end.

(* ---- RecursiveRoleAncestors (None = the Go recursion does not terminate) ---- *)
Definition oadd (acc x : option (list N)) : option (list N) :=
  match acc, x with Some a, Some b => Some (sadd b a) | _, _ => None end.

Definition on_path (r w : N) (path : list (N * N)) : bool :=
  existsb (fun p => (fst p =? r) && (snd p =? w)) path.

(* `path` = the (role, workspace) pairs of the calls in progress: the recursion is deterministic,
   so a call that meets its own arguments again never returns (Go: stack overflow) *)
Fixpoint rra_p (fuel : nat) (S : schema) (path : list (N * N)) (r w : N) : option (list N) :=
  match fuel with
  | O => None
  | Datatypes.S f =>
    if on_path r w path then None else
    let path' := (r, w) :: path in
    let own := fold_left (fun acc rl =>
        if mem acl_op_inherits (rops rl) && (rprin rl =? r)
        then fold_left (fun acc t => if fmatch (rflt rl) t && trole t then oadd acc (rra_p f S path' (tname t) w) else acc)
                       (vis_types S w) acc
        else acc) (acl_of S w) (Some [r]) in
    fold_left (fun acc a => oadd acc (rra_p f S path' r a)) (ancs S w) own
  end.
Definition rra (fuel : nat) (S : schema) (r w : N) : option (list N) := rra_p fuel S [] r w.
Definition rra_fuel (S : schema) : nat := Datatypes.S (length (stypes S) * length (swss S)).

(* RecursiveRoleAncestors as repaired (findings C13-F2/F3): one depth-first closure over the
   inheritance rules of the workspace and all its ancestors; a role already collected is not
   expanded again, so cycles terminate *)
Fixpoint rra_dfs (fuel : nat) (S : schema) (wss : list N) (r : N) (acc : list N) : list N :=
  match fuel with
  | O => acc
  | Datatypes.S f =>
    if mem r acc then acc else
    fold_left (fun acc w => fold_left (fun acc rl =>
        if mem acl_op_inherits (rops rl) && (rprin rl =? r)
        then fold_left (fun acc t => if fmatch (rflt rl) t && trole t then rra_dfs f S wss (tname t) acc else acc)
                       (vis_types S w) acc
        else acc) (acl_of S w) acc) wss (sins r acc)
  end.
(* `closure` = which of the two shapes the source has (translator: acl_rra_closure) *)
Definition rra_any (closure : bool) (S : schema) (r w : N) : option (list N) :=
  if closure then Some (rra_dfs (Datatypes.S (length (stypes S))) S (ws_order S w) r [])
  else rra (rra_fuel S) S r w.

(* ---- role expansion of IsOperationAllowed: `for _, r := range roles { roles.Add(...) }` ----
   The loop iterates the backing array of the initial slice (length n0, capacity cap0).  While
   Add still fits into that array (slices.Insert shifts in place) the loop sees the shifted
   elements; after the first reallocation it keeps reading the old array. *)
Definition next_cap (c : nat) : nat := match c with O => 1%nat | _ => (2 * c)%nat end.
Definition cap_for (n : nat) : nat :=
  fold_left (fun c k => if Nat.ltb c k then next_cap c else c) (seq 1 n) O.

(* the three places where the source may have one of two shapes (read by the translator) *)
Record cfg := mkCfg { c_aliased : bool; c_chkfield : bool; c_closure : bool }.
Definition cur_cfg : cfg := mkCfg acl_roles_loop_aliased acl_grant_checks_field acl_rra_closure.
Definition found_cfg : cfg := mkCfg true false false.   (* the code as first read *)

Record xst := mkX { xcur : list N; xshared : bool; xview : list N }.

Definition x_add1 (aliased : bool) (n0 cap0 : nat) (st : xst) (q : N) : xst :=
  if mem q (xcur st) then st else
  let cur' := sins q (xcur st) in
  if xshared st && Nat.leb (length cur') cap0
  then mkX cur' true (if aliased then firstn n0 cur' else xview st)
  else mkX cur' false (xview st).

Fixpoint x_loop (aliased closure : bool) (S : schema) (w : N) (n0 cap0 : nat) (idx : list nat) (st : xst) : option xst :=
  match idx with
  | [] => Some st
  | i :: rest =>
    let r := nth i (xview st) 0 in
    if is_role S w r then
      match rra_any closure S r w with
      | None => None
      | Some adds => x_loop aliased closure S w n0 cap0 rest (fold_left (x_add1 aliased n0 cap0) adds st)
      end
    else x_loop aliased closure S w n0 cap0 rest st
  end.

Definition expand_gen (aliased closure : bool) (S : schema) (w : N) (rol : list N) : option (list N) :=
  let r0 := sfrom rol in
  let n0 := length r0 in
  option_map xcur (x_loop aliased closure S w n0 (cap_for n0) (seq 0 n0) (mkX r0 true r0)).
Definition expand := expand_gen acl_roles_loop_aliased acl_rra_closure.

(* ---- checkOperationOnTypeForRoles ---- *)
Definition has_fields (rl : rule) : bool := negb (is_nil (rfields rl)).
Definition matched (op : N) (t : typ) (roles : list N) (rl : rule) : bool :=
  mem op (rops rl) && fmatch (rflt rl) t && mem (rprin rl) roles.

Definition uadd (xs l : list N) : list N := fold_left (fun acc x => if mem x acc then acc else x :: acc) xs l.
Definition remove_all (xs l : list N) : list N := filter (fun y => negb (mem y xs)) l.

(* chk = the Allow branch adds only fields the resource has and derives `result` from the map
   (repair of finding C13-F4); chk = false is the code as found *)
Definition step (chk : bool) (op : N) (t : typ) (st : bool * list N) (rl : rule) : bool * list N :=
  match tflds t with
  | Some fs =>
    if rallow rl then
      let a := if has_fields rl
               then (if op =? acl_op_select then uadd (filter is_sys fs) else (fun l => l))
                      (uadd (if chk then filter (fun f => mem f fs) (rfields rl) else rfields rl) (snd st))
               else uadd fs (snd st) in
      (if chk then negb (is_nil a) else true, a)
    else if has_fields rl
      then let a := remove_all (rfields rl) (snd st) in (negb (is_nil a), a)
      else (false, [])
  | None => (rallow rl, snd st)
  end.
Definition fstep (chk : bool) (op : N) (t : typ) (roles : list N) (st : bool * list N) (rl : rule) : bool * list N :=
  if matched op t roles rl then step chk op t st rl else st.
Definition run (chk : bool) (op : N) (t : typ) (roles : list N) (rules : list rule) : bool * list N :=
  fold_left (fstep chk op t roles) rules (false, []).

(* (allowed, allowedFields); None = nil map = "all fields" *)
Definition check_rules (chk : bool) (sysr op : N) (t : typ) (roles : list N) (rules : list rule) : bool * option (list N) :=
  if mem sysr roles then (true, None) else
  let st := run chk op t roles rules in
  match tflds t with
  | Some fs => if fst st && Nat.eqb (length (snd st)) (length fs) then (true, None) else (fst st, Some (snd st))
  | None => (fst st, None)
  end.
Definition decide (chk : bool) (sysr op : N) (t : typ) (fld roles : list N) (rules : list rule) : bool :=
  let '(res, af) := check_rules chk sysr op t roles rules in
  match af with
  | Some alw => if res && negb (is_nil alw) then forallb (fun f => mem f alw) fld else res
  | None => res
  end.

(* ---- IsOperationAllowed ---- *)
(* OMutated: the call changed a slice that belongs to the caller (its role list or field list); the model never
   answers that, and no check accepts it *)
Inductive outcome := OAllow | ODeny | OErr (e : N) | OCrash | OMutated.
Definition e_notfound : N := 1.  Definition e_incompatible : N := 2.
Definition e_unsupported : N := 3.  Definition e_missed : N := 4.

Definition validate (op : N) (t : typ) (fld : list N) : option N :=
  if (op =? acl_op_insert) || (op =? acl_op_update) || (op =? acl_op_select) then
    match tflds t with
    | None => Some e_incompatible
    | Some fs => if forallb (fun f => mem f fs) fld then None else Some e_notfound
    end
  else if (op =? acl_op_activate) || (op =? acl_op_deactivate) then
    if trec t then
      match tflds t with Some fs => if mem f_isactive fs then None else Some e_notfound | None => Some e_notfound end
    else Some e_incompatible
  else if op =? acl_op_execute then (if tfun t then None else Some e_incompatible)
  else Some e_unsupported.

Definition is_allowed_gen (c : cfg) (S : schema) (sysr w op res : N) (fld rol : list N) : outcome :=
  match find_type S w res with
  | None => OErr e_notfound
  | Some t =>
    match validate op t fld with
    | Some e => OErr e
    | None =>
      if is_nil (sfrom rol) then OErr e_missed else
      match expand_gen (c_aliased c) (c_closure c) S w rol with
      | None => OCrash
      | Some roles => if decide (c_chkfield c) sysr op t fld roles (all_rules S w) then OAllow else ODeny
      end
    end
  end.
Definition is_allowed := is_allowed_gen cur_cfg.

(* ---- PublishedTypes ---- *)
Definition pub_entry := (N * list (N * option (list N)))%type.
Definition published_gen (c : cfg) (S : schema) (sysr w role : N) : option (list pub_entry) :=
  match (if is_role S w role then rra_any (c_closure c) S role w else Some (sfrom [role])) with
  | None => None
  | Some roles =>
    Some (flat_map (fun t =>
      if tpub t then
        let ops := flat_map (fun o =>
          let '(ok, af) := check_rules (c_chkfield c) sysr o t roles (all_rules S w) in
          if ok then [(o, match af, tflds t with
                          | Some alw, Some fs => Some (filter (fun f => mem f alw) fs)
                          | _, _ => None end)] else []) (taclops t) in
        if is_nil ops then [] else [(tname t, ops)]
      else []) (vis_types S w))
  end.

Definition published := published_gen cur_cfg.

(* ================= declarative semantics (the oracle; independent of the code above) ========= *)

(* role inheritance declared in w or an ancestor: (principal, inherited role) *)
Definition inh_edges (S : schema) (w : N) : list (N * N) :=
  flat_map (fun w' => flat_map (fun rl =>
      if mem acl_op_inherits (rops rl)
      then map (fun t => (rprin rl, tname t)) (filter (fun t => fmatch (rflt rl) t && trole t) (vis_types S w'))
      else []) (acl_of S w')) (ws_order S w).
Fixpoint closure (fuel : nat) (edges : list (N * N)) (cur : list N) : list N :=
  match fuel with
  | O => cur
  | Datatypes.S f => closure f edges (sadd (map snd (filter (fun e => mem (fst e) cur) edges)) cur)
  end.
Definition spec_roles (S : schema) (w : N) (rol : list N) : list N :=
  closure (length (stypes S)) (inh_edges S w) (sfrom rol).

(* what a rule says about one field: Some true = grants it, Some false = revokes it *)
Definition touches (op : N) (t : typ) (roles : list N) (f : N) (rl : rule) : option bool :=
  if matched op t roles rl then
    match tflds t with
    | Some fs =>
      if rallow rl
      then if (if has_fields rl then mem f (rfields rl) || ((op =? acl_op_select) && is_sys f && mem f fs) else mem f fs)
           then Some true else None
      else if (if has_fields rl then mem f (rfields rl) else true) then Some false else None
    | None => Some (rallow rl)
    end
  else None.
(* the last rule that says anything about the field wins; nothing said = denied *)
Definition spec_field (op : N) (t : typ) (roles : list N) (rules : list rule) (f : N) : bool :=
  fold_left (fun acc rl => match touches op t roles f rl with Some b => b | None => acc end) rules false.

Definition spec_type_allowed (sysr op : N) (t : typ) (roles : list N) (rules : list rule) : bool :=
  mem sysr roles ||
  match tflds t with
  | Some fs => existsb (spec_field op t roles rules) fs
  | None => spec_field op t roles rules 0
  end.
Definition spec_decide (sysr op : N) (t : typ) (fld roles : list N) (rules : list rule) : bool :=
  mem sysr roles ||
  match tflds t with
  | Some fs => existsb (spec_field op t roles rules) fs && forallb (spec_field op t roles rules) fld
  | None => spec_field op t roles rules 0
  end.

(* is the request well-formed (else an error must be reported) *)
Definition spec_valid (S : schema) (w op res : N) (fld rol : list N) : bool :=
  match find_type S w res with
  | None => false
  | Some t =>
    negb (is_nil rol) &&
    (if mem op [acl_op_insert; acl_op_update; acl_op_select]
     then match tflds t with Some fs => forallb (fun f => mem f fs) fld | None => false end
     else if mem op [acl_op_activate; acl_op_deactivate]
     then trec t && match tflds t with Some fs => mem f_isactive fs | None => false end
     else if op =? acl_op_execute then tfun t else false)
  end.

(* `srules t` = the rule list the oracle judges resource t by (see `spec_rules`) *)
Definition spec_published (S : schema) (srules : typ -> list rule) (sysr w role : N) : list pub_entry :=
  let roles := spec_roles S w [role] in
  flat_map (fun t =>
    let rules := srules t in
    if tpub t then
      let ops := flat_map (fun o =>
        if spec_type_allowed sysr o t roles rules
        then [(o, match tflds t with
                  | Some fs => if mem sysr roles || forallb (spec_field o t roles rules) fs then None
                               else Some (filter (spec_field o t roles rules) fs)
                  | None => None end)] else []) (taclops t) in
      if is_nil ops then [] else [(tname t, ops)]
    else []) (vis_types S w).

(* ================= declared rules =================
   What the generator passed to the builder, in the order it passed it (rules the builder refused
   are not declared).  The model and the oracle work from this list, never from what the built
   application reports as its ACL; the reported ACL is an observable of its own. *)
Record drule := mkD {
  dws : N;
  dblk : N;     (* the WORKSPACE / ALTER WORKSPACE block of a VSQL source the rule is written in; rules
                   passed to the builder API one by one have a block each *)
  dall : bool;  (* GRANT ALL / REVOKE ALL: no operation list *)
  dscr : list N; (* what the caller wrote into ITS field slice after the declaration ([] = left alone) *)
  dsrc : bool;   (* written as a VSQL statement (compiled by the parser), not passed to the builder API *)
  drl : rule }.

(* the VSQL compiler (grantsAndRevokes): per block all GRANTs, then all REVOKEs - when the translator
   finds that shape in the source; the oracle always reads the textual order *)
Fixpoint span_blk (b : N) (l : list drule) : list drule * list drule :=
  match l with
  | d :: r => if dblk d =? b then (d :: fst (span_blk b r), snd (span_blk b r)) else ([], l)
  | [] => ([], [])
  end.
Fixpoint reorder (fuel : nat) (l : list drule) : list drule :=
  match fuel, l with
  | Datatypes.S f, d :: _ =>
    let run := fst (span_blk (dblk d) l) in
    filter (fun x => rallow (drl x)) run ++ filter (fun x => negb (rallow (drl x))) run ++ reorder f (snd (span_blk (dblk d) l))
  | _, _ => []
  end.
Definition compiled_order_gen (grants_first : bool) (l : list drule) : list drule :=
  if grants_first then reorder (length l) l else l.
Definition compiled_order : list drule -> list drule := compiled_order_gen parser_acl_grants_first.

(* NewRuleAll: the operations of the first type, in name order, among the types the workspace sees
   that the filter matches *)
(* `clones` = the rule keeps its own copy of the field list (translator: acl_rule_clones_fields);
   otherwise it shares the caller's slice and shows whatever the caller wrote there later *)
Definition eff_fields (clones : bool) (d : drule) : list N :=
  if clones || is_nil (dscr d) then rfields (drl d) else dscr d.
(* VSQL `ALL` / `ALL(columns)` ON TABLE: the compiler writes a fixed operation list (pkg/parser/const.go) *)
Definition vsql_all (tblops colops fields : list N) : list N := if is_nil fields then tblops else colops.
Definition eff_rule_gen (clones : bool) (S : schema) (d : drule) : rule :=
  mkRule (if dall d
          then if dsrc d then vsql_all parser_all_table_ops parser_all_columns_table_ops (rfields (drl d))
               else match find (fmatch (rflt (drl d))) (vis_types S (dws d)) with Some t => taclops t | None => [] end
          else rops (drl d))
         (rallow (drl d)) (rflt (drl d)) (eff_fields clones d) (rprin (drl d)).
Definition eff_rule : schema -> drule -> rule := eff_rule_gen acl_rule_clones_fields.
(* NewRuleAll as repaired (C13-F5) accepts an ALL rule only when every type its filter matches, among
   those the workspace sees, has the same ACL operations; `uniform_required` = the shape found in the source *)
Definition uniform (S : schema) (d : drule) : bool :=
  match filter (fmatch (rflt (drl d))) (vis_types S (dws d)) with
  | [] => true
  | t0 :: ts => forallb (fun t => list_eqb N.eqb (taclops t) (taclops t0)) ts
  end.
Definition accepted_gen (uniform_required : bool) (S : schema) (d : drule) : bool :=
  negb (dall d) || dsrc d || negb uniform_required || uniform S d.
Definition accepted : schema -> drule -> bool := accepted_gen acl_all_requires_uniform_ops.

(* the schema the code decides by: every workspace holds its declared rules in declaration order *)
Definition install (S : schema) (decl : list drule) : schema :=
  mkSchema (stypes S)
    (map (fun w => mkWs (wname w) (wanc w) (map (eff_rule S) (filter (fun d => dws d =? wname w) decl))) (swss S)).
(* VSQL documents `ALL` on tables as SELECT, INSERT, UPDATE (sql_example_app/pmain/package.vsql:
   "GRANT SELECT,INSERT,UPDATE ON ALL TABLES ... equivalent to GRANT ALL ON ALL TABLES", likewise REVOKE) *)
Definition vsql_all_documented : list N := [acl_op_select; acl_op_insert; acl_op_update].
(* the oracle reads an ALL passed to the builder API (GrantAll / RevokeAll) as "every operation applicable to
   the resource asked about", an ALL [(columns)] written in VSQL as the documented list *)
Definition spec_rules (S : schema) (decl : list drule) (w : N) (t : typ) : list rule :=
  flat_map (fun w' => map (fun d => if dall d
                                    then mkRule (if dsrc d then vsql_all_documented else taclops t)
                                                (rallow (drl d)) (rflt (drl d)) (rfields (drl d)) (rprin (drl d))
                                    else drl d)
                          (filter (fun d => dws d =? w') decl)) (ws_order S w).

(* ================= traces ================= *)
Record query := mkQ { qws : N; qop : N; qres : N; qflds : list N; qroles : list N; qout : outcome }.
Record rraobs := mkRRA { aws : N; arole : N; aout : list N }.
Record pubobs := mkPub { pws : N; prole : N; pout : list pub_entry }.
Record trace := mkTrace {
  tr_schema : schema;                 (* types and workspaces as built; the rule lists are left empty *)
  tr_decl : list drule;               (* declared rules, application-wide declaration order *)
  tr_rb : list (N * list rule);       (* observed: IWorkspace.ACL() of every workspace *)
  tr_rbapp : list rule;               (* observed: IAppDef.ACL() *)
  tr_sys : N; tr_queries : list query; tr_rra : list rraobs; tr_pub : list pubobs }.

Definition outcome_eqb (a b : outcome) : bool :=
  match a, b with
  | OAllow, OAllow | ODeny, ODeny | OCrash, OCrash => true
  | OErr x, OErr y => x =? y
  | _, _ => false
  end.
Definition lN_eqb := list_eqb N.eqb.
Definition pub_eqb : list pub_entry -> list pub_entry -> bool :=
  list_eqb (fun a b => (fst a =? fst b) &&
    list_eqb (fun x y => (fst x =? fst y) && option_eqb lN_eqb (snd x) (snd y)) (snd a) (snd b)).

Definition lset_eqb (a b : list N) : bool := forallb (fun x => mem x b) a && forallb (fun x => mem x a) b.
Fixpoint filt_eqb (a b : filt) : bool :=
  match a, b with
  | FTrue, FTrue => true
  | FQNames x, FQNames y | FTags x, FTags y | FTypes x, FTypes y => lset_eqb x y
  | FWSTypes w x, FWSTypes v y => (w =? v) && lset_eqb x y
  | FAnd a1 a2, FAnd b1 b2 | FOr a1 a2, FOr b1 b2 => filt_eqb a1 b1 && filt_eqb a2 b2
  | FNot x, FNot y => filt_eqb x y
  | _, _ => false
  end.
Definition rule_eqb (a b : rule) : bool :=
  lset_eqb (rops a) (rops b) && Bool.eqb (rallow a) (rallow b) && filt_eqb (rflt a) (rflt b)
  && lN_eqb (rfields a) (rfields b) && (rprin a =? rprin b).

Definition agrees (t : trace) : bool :=
  let S := install (tr_schema t) (compiled_order (tr_decl t)) in
  (* the built application reports exactly the declared rules, in declaration order *)
  forallb (fun w => list_eqb rule_eqb (wacl w)
                      (match find (fun p => fst p =? wname w) (tr_rb t) with Some p => snd p | None => [] end)) (swss S)
  && list_eqb rule_eqb (map (eff_rule (tr_schema t)) (compiled_order (tr_decl t))) (tr_rbapp t)
  (* every declared rule is one the builder accepts (the refused ones are not declared) *)
  && forallb (accepted (tr_schema t)) (tr_decl t)
  && forallb (fun q => outcome_eqb (is_allowed S (tr_sys t) (qws q) (qop q) (qres q) (qflds q) (qroles q)) (qout q)) (tr_queries t)
  && forallb (fun a => option_eqb lN_eqb (rra_any acl_rra_closure S (arole a) (aws a)) (Some (aout a))) (tr_rra t)
  && forallb (fun p => option_eqb pub_eqb (published S (tr_sys t) (pws p) (prole p)) (Some (pout p))) (tr_pub t).

(* the property judged on the observed outputs: a well-formed request gets exactly the decision the
   declared grants/revokes (in declaration order, ancestors first) prescribe for the inheritance
   closure of the supplied roles; a malformed one gets an error; role ancestors are the
   inheritance closure; the published list is the set of (type, op, fields) the semantics allows.
   Requests for ACTIVATE/DEACTIVATE naming a field the type does not have are outside the domain
   (the code does not validate them).  `srules w t` = the oracle's rule list. *)
Definition sat_query (S : schema) (srules : N -> typ -> list rule) (sysr : N) (q : query) : bool :=
  if spec_valid S (qws q) (qop q) (qres q) (qflds q) (qroles q) then
    match find_type S (qws q) (qres q) with
    | Some t =>
      if match tflds t with Some fs => forallb (fun f => mem f fs) (qflds q) | None => true end
      then outcome_eqb (qout q)
             (if spec_decide sysr (qop q) t (qflds q) (spec_roles S (qws q) (qroles q)) (srules (qws q) t) then OAllow else ODeny)
      else match qout q with OAllow | ODeny => true | _ => false end
    | None => false
    end
  else match qout q with OErr _ => true | _ => false end.

Definition satisfies (t : trace) : bool :=
  let S := install (tr_schema t) (tr_decl t) in
  let srules := spec_rules (tr_schema t) (tr_decl t) in
  forallb (sat_query S srules (tr_sys t)) (tr_queries t)
  && forallb (fun a => lN_eqb (aout a) (spec_roles S (aws a) [arole a])) (tr_rra t)
  && forallb (fun p => pub_eqb (pout p) (spec_published S (srules (pws p)) (tr_sys t) (pws p) (prole p))) (tr_pub t).
