(* C13 - link between the implementation model and the oracle `sat_query`: on every request for
   which the model's role expansion equals the declared inheritance closure (where findings F1-F3
   do not strike) and, without the field check, the matching grants list only fields of the
   resource (F4), the model's answer satisfies the oracle.  Hence: code agrees with model on a
   request + these side conditions  =>  the observed answer is the declared one. *)
From Coq Require Import List NArith Bool Lia Relations Arith.
From V Require Import Lib.Check Gen.Params C13_ACL.Model C13_ACL.Proofs C13_ACL.Roles C13_ACL.Closure.
Import ListNotations.
Local Open Scope N_scope.

Lemma sfrom_nil rol : is_nil (sfrom rol) = is_nil rol.
Proof.
  destruct rol as [|x l]; [reflexivity|]. cbn [is_nil].
  destruct (sfrom (x :: l)) eqn:E; [|reflexivity]. exfalso.
  assert (H : In x (sfrom (x :: l))) by (unfold sfrom; apply sadd_In; left; left; reflexivity).
  rewrite E in H. destruct H.
Qed.

Lemma valid_iff S w op res fld rol t : find_type S w res = Some t ->
  spec_valid S w op res fld rol = match validate op t fld with None => negb (is_nil rol) | Some _ => false end.
Proof.
  intros F. unfold spec_valid, validate. rewrite F. unfold mem. cbn [existsb]. rewrite !orb_false_r.
  destruct (op =? acl_op_insert), (op =? acl_op_update), (op =? acl_op_select); cbn [orb];
    try (destruct (tflds t) as [fs|]; [destruct (forallb (fun f => existsb (N.eqb f) fs) fld)|];
         rewrite ?andb_true_r, ?andb_false_r; reflexivity).
  destruct (op =? acl_op_activate), (op =? acl_op_deactivate); cbn [orb];
    try (destruct (trec t); cbn [andb]; [|rewrite ?andb_false_r; reflexivity];
         destruct (tflds t) as [fs|]; [destruct (existsb (N.eqb f_isactive) fs)|];
         rewrite ?andb_true_r, ?andb_false_r; reflexivity).
  destruct (op =? acl_op_execute); [destruct (tfun t)|]; rewrite ?andb_true_r, ?andb_false_r; reflexivity.
Qed.

Lemma sat_query_link c S srules sysr q :
  qout q = is_allowed_gen c S sysr (qws q) (qop q) (qres q) (qflds q) (qroles q) ->
  (forall t, find_type S (qws q) (qres q) = Some t -> srules (qws q) t = all_rules S (qws q)) ->
  (is_nil (qroles q) = false ->
   expand_gen (c_aliased c) (c_closure c) S (qws q) (qroles q) = Some (spec_roles S (qws q) (qroles q))) ->
  (forall t fs, find_type S (qws q) (qres q) = Some t -> tflds t = Some fs ->
     NoDup fs /\ fs <> [] /\
     (c_chkfield c = true \/ rules_wf (qop q) t (spec_roles S (qws q) (qroles q)) fs (all_rules S (qws q)))) ->
  sat_query S srules sysr q = true.
Proof.
  intros Ho Hr Hx Hw. unfold sat_query. unfold is_allowed_gen in Ho.
  destruct (find_type S (qws q) (qres q)) as [t|] eqn:F.
  - rewrite (Hr t eq_refl). rewrite (valid_iff S _ _ _ _ _ t F). destruct (validate (qop q) t (qflds q)) as [e|] eqn:V.
    + rewrite Ho. reflexivity.
    + rewrite sfrom_nil in Ho. destruct (is_nil (qroles q)) eqn:Nl; cbn [negb].
      * rewrite Ho. reflexivity.
      * rewrite (Hx eq_refl) in Ho.
        destruct (tflds t) as [fs|] eqn:Tf.
        -- destruct (forallb (fun f => mem f fs) (qflds q)) eqn:Fl.
           ++ destruct (Hw t fs eq_refl Tf) as (ND & NE & W).
              rewrite <- (decide_spec (c_chkfield c)).
              ** rewrite Ho. destruct (decide _ _ _ _ _ _ _); reflexivity.
              ** rewrite Tf. repeat split; try assumption.
                 intros f Hf. apply mem_In. rewrite forallb_forall in Fl. apply Fl. exact Hf.
           ++ rewrite Ho. destruct (decide _ _ _ _ _ _ _); reflexivity.
        -- rewrite <- (decide_spec (c_chkfield c)); [|rewrite Tf; exact I].
           rewrite Ho. destruct (decide _ _ _ _ _ _ _); reflexivity.
  - unfold spec_valid. rewrite F. rewrite Ho. reflexivity.
Qed.

(* ---------- the repaired code, end to end ---------- *)
Definition repaired_cfg : cfg := mkCfg false true true.

Lemma sfrom_In x rol : In x (sfrom rol) <-> In x rol.
Proof. unfold sfrom. rewrite sadd_In. cbn. intuition auto. Qed.

Lemma expand_repaired_exact S w rol : exists l, expand_gen false true S w rol = Some l /\
  forall x, In x l <-> In x rol \/ exists r, In r rol /\ is_role S w r = true /\ reach S w r x.
Proof.
  rewrite expand_unaliased_union. destruct (union_expand_exact S w (sfrom rol)) as (l & E & H). exists l. split; [exact E|].
  intros x. rewrite H, sfrom_In. split; (intros [Hx|(r & Hr & R)]; [left; exact Hx|right; exists r; split; [apply sfrom_In; exact Hr|exact R]]).
Qed.

(* T: a well-formed request is answered allow/deny, and allow iff the declared semantics allows it
   for the supplied roles plus everything they inherit *)
Lemma is_allowed_repaired S sysr w op res fld rol t :
  find_type S w res = Some t -> validate op t fld = None -> rol <> [] ->
  match tflds t with Some fs => NoDup fs /\ fs <> [] /\ incl fld fs | None => True end ->
  exists roles,
    (forall x, In x roles <-> In x rol \/ exists r, In r rol /\ is_role S w r = true /\ reach S w r x) /\
    (is_allowed_gen repaired_cfg S sysr w op res fld rol = OAllow \/ is_allowed_gen repaired_cfg S sysr w op res fld rol = ODeny) /\
    (is_allowed_gen repaired_cfg S sysr w op res fld rol = OAllow <-> declared_allowed sysr op t fld roles (all_rules S w)).
Proof.
  intros F V Hn Hw. destruct (expand_repaired_exact S w rol) as (roles & E & H). exists roles. split; [exact H|].
  unfold is_allowed_gen, repaired_cfg. cbn [c_aliased c_closure c_chkfield]. rewrite F, V, sfrom_nil.
  destruct rol as [|r0 rol']; [congruence|]. cbn [is_nil]. rewrite E.
  assert (D : decide true sysr op t fld roles (all_rules S w) = true <-> declared_allowed sysr op t fld roles (all_rules S w)).
  { apply decide_declared. destruct (tflds t) as [fs|]; [|exact I]. destruct Hw as (A & B & C). repeat split; try assumption. left. reflexivity. }
  destruct (decide true sysr op t fld roles (all_rules S w)); split; auto.
  - split; [intros _; apply D; reflexivity|reflexivity].
  - split; [discriminate|]. intros X. apply D in X. discriminate.
Qed.

(* the same statements for the configuration read from the source, given the three side conditions *)
Lemma cur_cfg_repaired : acl_roles_loop_aliased = false -> acl_grant_checks_field = true -> acl_rra_closure = true ->
  cur_cfg = repaired_cfg.
Proof. intros A B C. unfold cur_cfg, repaired_cfg. rewrite A, B, C. reflexivity. Qed.

Lemma is_allowed_cur (A : acl_roles_loop_aliased = false) (B : acl_grant_checks_field = true) (C : acl_rra_closure = true) :
  forall S sysr w op res fld rol t,
  find_type S w res = Some t -> validate op t fld = None -> rol <> [] ->
  match tflds t with Some fs => NoDup fs /\ fs <> [] /\ incl fld fs | None => True end ->
  exists roles,
    (forall x, In x roles <-> In x rol \/ exists r, In r rol /\ is_role S w r = true /\ reach S w r x) /\
    (is_allowed S sysr w op res fld rol = OAllow \/ is_allowed S sysr w op res fld rol = ODeny) /\
    (is_allowed S sysr w op res fld rol = OAllow <-> declared_allowed sysr op t fld roles (all_rules S w)).
Proof. unfold is_allowed. rewrite (cur_cfg_repaired A B C). exact is_allowed_repaired. Qed.

Lemma decide_cur (B : acl_grant_checks_field = true) : forall sysr op t fld roles rules,
  match tflds t with Some fs => NoDup fs /\ fs <> [] /\ incl fld fs | None => True end ->
  (decide acl_grant_checks_field sysr op t fld roles rules = true <-> declared_allowed sysr op t fld roles rules).
Proof.
  rewrite B. intros sysr op t fld roles rules H. apply decide_declared.
  destruct (tflds t) as [fs|]; [|exact I]. destruct H as (X & Y & Z). repeat split; try assumption. left. reflexivity.
Qed.

Lemma run_cur (B : acl_grant_checks_field = true) : forall op t roles fs rules, tflds t = Some fs ->
  incl (snd (run acl_grant_checks_field op t roles rules)) fs /\
  forall f, In f fs -> (In f (snd (run acl_grant_checks_field op t roles rules)) <-> field_granted op t roles rules f).
Proof.
  rewrite B. intros op t roles fs rules Hf. split; [apply run_checked_incl; exact Hf|].
  intros f Hin. apply (run_field_granted true op t roles fs rules f Hf). right. exact Hin.
Qed.

Lemma expand_cur (A : acl_roles_loop_aliased = false) (C : acl_rra_closure = true) : forall S w rol,
  exists l, expand S w rol = Some l /\
  forall x, In x l <-> In x rol \/ exists r, In r rol /\ is_role S w r = true /\ reach S w r x.
Proof. unfold expand. rewrite A, C. exact expand_repaired_exact. Qed.

Lemma rra_cur (C : acl_rra_closure = true) : forall S r w,
  exists l, rra_any acl_rra_closure S r w = Some l /\ forall x, In x l <-> reach S w r x.
Proof. rewrite C. exact rra_closure_exact. Qed.

Lemma reach_inherits S w r x : reach S w r x -> inherits_star S w r x.
Proof.
  intros H. induction H as [a b H| |a b c _ IH1 _ IH2]; [apply rt_step; apply inh_edges_step; exact H|apply rt_refl|eapply rt_trans; eassumption].
Qed.

(* GRANT ALL / REVOKE ALL: the code takes the operation set of the first matching type; when all
   types the filter matches (among those the workspace sees) have the same applicable operations
   this is "every operation applicable to the resource" - the oracle's reading *)
Lemma eff_rule_uniform S d t : dall d = true -> dsrc d = false -> In t (vis_types S (dws d)) -> fmatch (rflt (drl d)) t = true ->
  (forall t', In t' (vis_types S (dws d)) -> fmatch (rflt (drl d)) t' = true -> taclops t' = taclops t) ->
  rops (eff_rule S d) = taclops t.
Proof.
  intros Ha Hs Hin Hm Hu. unfold eff_rule, eff_rule_gen. rewrite Ha, Hs. cbn [rops].
  destruct (find (fmatch (rflt (drl d))) (vis_types S (dws d))) as [t0|] eqn:F.
  - apply find_some in F. destruct F as [F1 F2]. apply Hu; assumption.
  - exfalso. pose proof (find_none _ _ F t Hin) as X. cbn in X. congruence.
Qed.

(* ---------- declared rules: order and GRANT ALL, for the repaired code ---------- *)

Lemma compiled_order_cur : parser_acl_grants_first = false -> forall l, compiled_order l = l.
Proof. intros H l. unfold compiled_order, compiled_order_gen. rewrite H. reflexivity. Qed.

(* rules passed to the builder one by one (a block each) are never reordered, whatever the compiler does *)
Lemma span_other b l : match l with d :: _ => dblk d <> b | [] => True end -> span_blk b l = ([], l).
Proof. destruct l as [|d r]; [reflexivity|]. intros H. cbn. apply N.eqb_neq in H. rewrite H. reflexivity. Qed.

Lemma reorder_distinct_blocks : forall l fuel, NoDup (map dblk l) -> (length l <= fuel)%nat -> reorder fuel l = l.
Proof.
  induction l as [|d r IH]; intros fuel ND L; [destruct fuel; reflexivity|].
  destruct fuel as [|f]; [cbn in L; lia|]. cbn [reorder span_blk]. rewrite N.eqb_refl. cbn [fst snd].
  inversion ND as [|? ? Nin ND']; subst.
  rewrite (span_other (dblk d) r).
  - cbn [fst snd filter]. destruct (rallow (drl d)); cbn; rewrite IH; auto; cbn in L; lia.
  - destruct r as [|e r']; [exact I|]. intros E. apply Nin. left. exact E.
Qed.

Lemma compiled_order_distinct_blocks gf l : NoDup (map dblk l) -> compiled_order_gen gf l = l.
Proof. intros H. unfold compiled_order_gen. destruct gf; [|reflexivity]. apply reorder_distinct_blocks; [exact H|apply Nat.le_refl]. Qed.

Lemma find_filter {T} (f : T -> bool) l : find f l = match filter f l with [] => None | x :: _ => Some x end.
Proof. induction l as [|x l IH]; [reflexivity|]. cbn. destruct (f x); [reflexivity|exact IH]. Qed.

Lemma lN_eqb_eq (a b : list N) : list_eqb N.eqb a b = true -> a = b.
Proof. apply list_eqb_eq. intros x y. apply N.eqb_eq. Qed.

(* an accepted ALL rule gives every resource it matches exactly the operations applicable to it *)
Lemma accepted_all_ops S d t : accepted_gen true S d = true -> dall d = true -> dsrc d = false ->
  In t (vis_types S (dws d)) -> fmatch (rflt (drl d)) t = true -> rops (eff_rule S d) = taclops t.
Proof.
  intros A Ha Hs Hin Hm. unfold accepted_gen in A. rewrite Ha, Hs in A. cbn in A.
  unfold eff_rule, eff_rule_gen. rewrite Ha, Hs. cbn [rops]. rewrite find_filter. unfold uniform in A.
  assert (Hf : In t (filter (fmatch (rflt (drl d))) (vis_types S (dws d)))) by (apply filter_In; split; assumption).
  destruct (filter (fmatch (rflt (drl d))) (vis_types S (dws d))) as [|t0 ts]; [destruct Hf|].
  destruct Hf as [->|Hf]; [reflexivity|]. rewrite forallb_forall in A. symmetry. apply lN_eqb_eq. apply A. exact Hf.
Qed.

Lemma accepted_all_ops_cur (U : acl_all_requires_uniform_ops = true) : forall S d t, accepted S d = true -> dall d = true -> dsrc d = false ->
  In t (vis_types S (dws d)) -> fmatch (rflt (drl d)) t = true -> rops (eff_rule S d) = taclops t.
Proof. unfold accepted. rewrite U. exact accepted_all_ops. Qed.

(* ---------- a rule keeps the field list it was declared with ---------- *)
Lemma eff_fields_declared clones d : clones = true \/ dscr d = [] -> eff_fields clones d = rfields (drl d).
Proof. intros [->|E]; unfold eff_fields; [reflexivity|]. rewrite E. cbn. rewrite orb_true_r. reflexivity. Qed.

Lemma eff_rule_fields_cur (C : acl_rule_clones_fields = true) : forall S d, rfields (eff_rule S d) = rfields (drl d).
Proof. intros S d. unfold eff_rule, eff_rule_gen. cbn [rfields]. apply eff_fields_declared. left. exact C. Qed.

(* ---------- VSQL: ALL ON TABLE ---------- *)
(* a compiled VSQL ALL [(columns)] rule carries the documented list, given that the compiler's lists are it *)
Lemma vsql_all_ops (P : parser_all_table_ops = vsql_all_documented /\ parser_all_columns_table_ops = vsql_all_documented) :
  forall S d, dall d = true -> dsrc d = true -> rops (eff_rule S d) = vsql_all_documented.
Proof.
  intros S d Ha Hs. unfold eff_rule, eff_rule_gen. rewrite Ha, Hs. cbn [rops]. destruct P as [P1 P2].
  unfold vsql_all. rewrite P1, P2. destruct (is_nil (rfields (drl d))); reflexivity.
Qed.
