(* C13 - proofs about the ACL model: the rule fold of checkOperationOnTypeForRoles equals the
   declarative per-field semantics, decision theorems, role-set canonicity. *)
From Coq Require Import List NArith Bool Lia Sorted Arith.
From V Require Import Lib.Check Gen.Params C13_ACL.Model.
Import ListNotations.
Local Open Scope N_scope.

(* ---------- membership and the field-set operations ---------- *)

Lemma mem_In x l : mem x l = true <-> In x l.
Proof.
  unfold mem. rewrite existsb_exists. split.
  - intros (y & Hy & E). apply N.eqb_eq in E. subst. exact Hy.
  - intros H. exists x. split; [exact H | apply N.eqb_refl].
Qed.

Lemma mem_false_In x l : mem x l = false <-> ~ In x l.
Proof. rewrite <- mem_In. destruct (mem x l); split; congruence. Qed.

Lemma mem_cons f x l : mem f (x :: l) = (f =? x) || mem f l.
Proof. reflexivity. Qed.

Lemma mem_uadd f xs : forall l, mem f (uadd xs l) = mem f xs || mem f l.
Proof.
  unfold uadd. induction xs as [|x xs IH]; intros l; cbn [fold_left].
  - reflexivity.
  - rewrite IH. rewrite mem_cons. destruct (mem x l) eqn:Hx.
    + destruct (f =? x) eqn:E; cbn; [|reflexivity].
      apply N.eqb_eq in E. subst. rewrite Hx. rewrite !orb_true_r. reflexivity.
    + rewrite mem_cons. destruct (f =? x), (mem f xs), (mem f l); reflexivity.
Qed.

Lemma mem_filter f p l : mem f (filter p l) = p f && mem f l.
Proof.
  induction l as [|x l IH]; cbn [filter].
  - cbn. rewrite andb_false_r. reflexivity.
  - destruct (p x) eqn:Px; rewrite ?mem_cons, IH.
    + destruct (f =? x) eqn:E; cbn; [|reflexivity]. apply N.eqb_eq in E. subst. rewrite Px. reflexivity.
    + destruct (f =? x) eqn:E; cbn; [|reflexivity]. apply N.eqb_eq in E. subst. rewrite Px. reflexivity.
Qed.

Lemma mem_remove_all f xs l : mem f (remove_all xs l) = negb (mem f xs) && mem f l.
Proof. unfold remove_all. apply (mem_filter f (fun y => negb (mem y xs))). Qed.

Lemma uadd_NoDup xs : forall l, NoDup l -> NoDup (uadd xs l).
Proof.
  unfold uadd. induction xs as [|x xs IH]; intros l H; cbn [fold_left]; [exact H|].
  apply IH. destruct (mem x l) eqn:Hx; [exact H|]. constructor; [|exact H]. apply mem_false_In. exact Hx.
Qed.

Lemma remove_all_NoDup xs l : NoDup l -> NoDup (remove_all xs l).
Proof. apply NoDup_filter. Qed.

Lemma is_nil_mem (l : list N) : is_nil l = false -> exists a, mem a l = true.
Proof. destruct l as [|a l]; [discriminate|]. intros _. exists a. rewrite mem_cons, N.eqb_refl. reflexivity. Qed.

Lemma mem_not_nil a (l : list N) : mem a l = true -> is_nil l = false.
Proof. destruct l; [discriminate|reflexivity]. Qed.

(* ---------- the fold equals the per-field semantics ---------- *)
Section Fold.
Variables (chk : bool) (op : N) (t : typ) (roles : list N).

Definition tstep (f : N) (acc : bool) (rl : rule) : bool :=
  match touches op t roles f rl with Some b => b | None => acc end.

Lemma spec_field_fold rules f : spec_field op t roles rules f = fold_left (tstep f) rules false.
Proof. reflexivity. Qed.

(* for a field of the resource (any field name when the code does not check, chk = false) *)
Lemma fstep_field fs f st rl : tflds t = Some fs -> chk = false \/ mem f fs = true ->
  mem f (snd (fstep chk op t roles st rl)) = tstep f (mem f (snd st)) rl.
Proof.
  intros Hf Hc. unfold fstep, tstep, touches, step. destruct (matched op t roles rl); [|reflexivity].
  rewrite Hf. destruct (rallow rl), (has_fields rl); cbn [snd].
  - destruct Hc as [->|Hm].
    + destruct (op =? acl_op_select); rewrite ?mem_uadd, ?mem_filter;
        destruct (mem f (rfields rl)), (is_sys f), (mem f fs), (mem f (snd st)); reflexivity.
    + rewrite Hm. destruct chk; destruct (op =? acl_op_select); rewrite ?mem_uadd, ?mem_filter, ?Hm;
        destruct (mem f (rfields rl)), (is_sys f), (mem f (snd st)); reflexivity.
  - rewrite mem_uadd. destruct (mem f fs), (mem f (snd st)); reflexivity.
  - rewrite mem_remove_all. destruct (mem f (rfields rl)), (mem f (snd st)); reflexivity.
  - reflexivity.
Qed.

Lemma fold_field fs f rules : tflds t = Some fs -> chk = false \/ mem f fs = true -> forall st,
  mem f (snd (fold_left (fstep chk op t roles) rules st)) = fold_left (tstep f) rules (mem f (snd st)).
Proof.
  intros Hf Hc. induction rules as [|rl rules IH]; intros st; cbn [fold_left]; [reflexivity|].
  rewrite IH. rewrite (fstep_field fs f st rl Hf Hc). reflexivity.
Qed.

(* T: per field, membership in the allowed-field map built by the code = last touching rule grants *)
Lemma run_field_spec fs f rules : tflds t = Some fs -> chk = false \/ mem f fs = true ->
  mem f (snd (run chk op t roles rules)) = spec_field op t roles rules f.
Proof. intros Hf Hc. unfold run. rewrite (fold_field fs f rules Hf Hc). reflexivity. Qed.

Lemma uadd_not_nil xs l : is_nil (uadd xs l) = true -> is_nil xs = true /\ is_nil l = true.
Proof.
  intros H. destruct xs as [|x xs].
  - split; [reflexivity|exact H].
  - exfalso. assert (M : mem x (uadd (x :: xs) l) = true) by (rewrite mem_uadd, mem_cons, N.eqb_refl; reflexivity).
    apply mem_not_nil in M. congruence.
Qed.

Lemma fstep_result fs st rl : tflds t = Some fs -> fs <> [] ->
  fst st = negb (is_nil (snd st)) -> fst (fstep chk op t roles st rl) = negb (is_nil (snd (fstep chk op t roles st rl))).
Proof.
  intros Hf Hne Hst. unfold fstep, step. destruct (matched op t roles rl); [|exact Hst].
  rewrite Hf. destruct (rallow rl); [|destruct (has_fields rl); reflexivity].
  cbn [fst snd]. destruct chk; [reflexivity|]. symmetry. apply negb_true_iff.
  destruct (has_fields rl) eqn:HF.
  - assert (N1 : is_nil (uadd (rfields rl) (snd st)) = false).
    { destruct (is_nil (uadd (rfields rl) (snd st))) eqn:E; [|reflexivity].
      apply uadd_not_nil in E. destruct E as [E _]. unfold has_fields in HF. rewrite E in HF. discriminate. }
    destruct (op =? acl_op_select); [|exact N1].
    destruct (is_nil (uadd (filter is_sys fs) (uadd (rfields rl) (snd st)))) eqn:E; [|reflexivity].
    apply uadd_not_nil in E. destruct E as [_ E]. congruence.
  - destruct (is_nil (uadd fs (snd st))) eqn:E; [|reflexivity].
    apply uadd_not_nil in E. destruct E as [E _]. destruct fs; [congruence|discriminate].
Qed.

Lemma run_result fs rules : tflds t = Some fs -> fs <> [] ->
  fst (run chk op t roles rules) = negb (is_nil (snd (run chk op t roles rules))).
Proof.
  intros Hf Hne. unfold run.
  assert (G : forall st, fst st = negb (is_nil (snd st)) ->
     fst (fold_left (fstep chk op t roles) rules st) = negb (is_nil (snd (fold_left (fstep chk op t roles) rules st)))).
  { induction rules as [|rl rules IH]; intros st Hst; cbn [fold_left]; [exact Hst|].
    apply IH. apply (fstep_result fs st rl Hf Hne Hst). }
  apply G. reflexivity.
Qed.

Lemma run_result_nofields f rules : tflds t = None ->
  fst (run chk op t roles rules) = spec_field op t roles rules f.
Proof.
  intros Hf. unfold run. rewrite spec_field_fold.
  assert (G : forall st, fst (fold_left (fstep chk op t roles) rules st) = fold_left (tstep f) rules (fst st)).
  { induction rules as [|rl rules IH]; intros st; cbn [fold_left]; [reflexivity|]. rewrite IH. f_equal.
    unfold fstep, tstep, touches, step. destruct (matched op t roles rl); [|reflexivity]. rewrite Hf. reflexivity. }
  apply G.
Qed.

Lemma run_NoDup rules : NoDup (snd (run chk op t roles rules)).
Proof.
  unfold run.
  assert (G : forall st, NoDup (snd st) -> NoDup (snd (fold_left (fstep chk op t roles) rules st))).
  { induction rules as [|rl rules IH]; intros st Hst; cbn [fold_left]; [exact Hst|]. apply IH.
    unfold fstep, step. destruct (matched op t roles rl); [|exact Hst].
    destruct (tflds t) as [fs|]; [|exact Hst].
    destruct (rallow rl), (has_fields rl); cbn [snd].
    - destruct (op =? acl_op_select); repeat apply uadd_NoDup; exact Hst.
    - apply uadd_NoDup. exact Hst.
    - apply remove_all_NoDup. exact Hst.
    - constructor. }
  apply G. constructor.
Qed.

(* rules whose field lists stay inside the type they are applied to *)
Definition rules_wf (fs : list N) (rules : list rule) : Prop :=
  forall rl, In rl rules -> matched op t roles rl = true -> rallow rl = true -> incl (rfields rl) fs.

Lemma incl_mem (a b : list N) : incl a b <-> (forall f, mem f a = true -> mem f b = true).
Proof. unfold incl. split; intros H f; specialize (H f); rewrite <- !mem_In in *; exact H. Qed.

Lemma run_incl fs rules : tflds t = Some fs -> chk = true \/ rules_wf fs rules -> incl (snd (run chk op t roles rules)) fs.
Proof.
  intros Hf. unfold run.
  assert (G : forall st, chk = true \/ rules_wf fs rules -> incl (snd st) fs -> incl (snd (fold_left (fstep chk op t roles) rules st)) fs).
  { induction rules as [|rl rules IH]; intros st W Hst; cbn [fold_left]; [exact Hst|].
    apply IH; [destruct W as [W|W]; [left; exact W|right; intros r Hr; apply W; right; exact Hr]|].
    unfold fstep. destruct (matched op t roles rl) eqn:M; [|exact Hst].
    unfold step. rewrite Hf. apply incl_mem. intros f. rewrite incl_mem in Hst. specialize (Hst f).
    destruct (rallow rl) eqn:A, (has_fields rl); cbn [snd].
    - destruct W as [->|W].
      + destruct (op =? acl_op_select); rewrite ?mem_uadd, ?mem_filter;
          destruct (mem f (rfields rl)), (is_sys f), (mem f fs), (mem f (snd st)); cbn; auto.
      + pose proof (W rl (or_introl eq_refl) M A) as I. rewrite incl_mem in I. specialize (I f).
        destruct chk; destruct (op =? acl_op_select); rewrite ?mem_uadd, ?mem_filter;
          destruct (mem f (rfields rl)), (is_sys f), (mem f fs), (mem f (snd st)); cbn; auto.
    - rewrite mem_uadd. destruct (mem f fs), (mem f (snd st)); cbn; auto.
    - rewrite mem_remove_all. destruct (mem f (rfields rl)), (mem f (snd st)); cbn; auto; discriminate.
    - discriminate. }
  intros W. apply G; [exact W|]. intros x [].
Qed.

(* unmatched rules do not take part *)
Lemma run_filter rules : run chk op t roles rules = run chk op t roles (filter (matched op t roles) rules).
Proof.
  unfold run. generalize (false, @nil N) as st.
  induction rules as [|rl rules IH]; intros st; cbn [fold_left filter]; [reflexivity|].
  destruct (matched op t roles rl) eqn:M; cbn [fold_left]; [apply IH|].
  assert (E : fstep chk op t roles st rl = st) by (unfold fstep; rewrite M; reflexivity).
  rewrite E. apply IH.
Qed.

End Fold.

(* ---------- decisions ---------- *)

Lemma forallb_ext_in {T} (f g : T -> bool) l : (forall x, In x l -> f x = g x) -> forallb f l = forallb g l.
Proof.
  induction l as [|x l IH]; intros H; cbn; [reflexivity|].
  rewrite (H x (or_introl eq_refl)), IH; [reflexivity|]. intros y Hy. apply H. right. exact Hy.
Qed.

Lemma existsb_ext_in {T} (f g : T -> bool) l : (forall x, In x l -> f x = g x) -> existsb f l = existsb g l.
Proof.
  induction l as [|x l IH]; intros H; cbn; [reflexivity|].
  rewrite (H x (or_introl eq_refl)), IH; [reflexivity|]. intros y Hy. apply H. right. exact Hy.
Qed.

(* T: the decision of the code = the declarative decision; when the code does not check the rule's
   fields against the resource (chk = false) only for rule lists whose field lists belong to it *)
Lemma decide_spec chk sysr op t fld roles rules :
  match tflds t with
  | Some fs => NoDup fs /\ fs <> [] /\ incl fld fs /\ (chk = true \/ rules_wf op t roles fs rules)
  | None => True
  end ->
  decide chk sysr op t fld roles rules = spec_decide sysr op t fld roles rules.
Proof.
  intros H. unfold decide, spec_decide, check_rules. destruct (mem sysr roles); [reflexivity|]. cbn [orb].
  destruct (tflds t) as [fs|] eqn:Hf.
  - destruct H as (ND & NE & IF & W).
    pose proof (run_result chk op t roles fs rules Hf NE) as R.
    pose proof (run_incl chk op t roles fs rules Hf W) as I.
    pose proof (run_NoDup chk op t roles rules) as ND'.
    assert (FE : forall f, In f fs -> spec_field op t roles rules f = mem f (snd (run chk op t roles rules))).
    { intros f Hin. symmetry. apply (run_field_spec chk op t roles fs f rules Hf). right. apply mem_In. exact Hin. }
    rewrite (existsb_ext_in _ (fun f => mem f (snd (run chk op t roles rules))) fs) by (intros; apply FE; assumption).
    rewrite (forallb_ext_in (spec_field op t roles rules) (fun f => mem f (snd (run chk op t roles rules))) fld)
      by (intros x Hx; apply FE; apply IF; exact Hx).
    set (st := run chk op t roles rules) in *. destruct (fst st) eqn:Res; cbn [andb].
    + symmetry in R. apply negb_true_iff in R.
      assert (EX : existsb (fun f => mem f (snd st)) fs = true).
      { destruct (is_nil_mem _ R) as (a & Ha). apply existsb_exists. exists a. split; [|exact Ha].
        apply I. apply mem_In. exact Ha. }
      rewrite EX. cbn [andb]. destruct (Nat.eqb (length (snd st)) (length fs)) eqn:L.
      * apply Nat.eqb_eq in L. symmetry. apply forallb_forall. intros f Hfld. apply mem_In.
        assert (I2 : incl fs (snd st)) by (apply (NoDup_length_incl ND'); [rewrite L; apply Nat.le_refl | exact I]).
        apply I2. apply IF. exact Hfld.
      * rewrite R. reflexivity.
    + cbn [andb]. symmetry in R. apply negb_false_iff in R.
      destruct (snd st); [|discriminate]. symmetry. apply andb_false_iff. left.
      apply not_true_iff_false. intros E. apply existsb_exists in E. destruct E as (x & _ & E). discriminate.
  - apply (run_result_nofields chk op t roles 0 rules Hf).
Qed.

(* T: nothing is allowed without a grant reaching one of the caller's roles *)
Lemma default_deny chk sysr op t fld roles rules :
  mem sysr roles = false ->
  (forall rl, In rl rules -> matched op t roles rl = true -> rallow rl = false) ->
  decide chk sysr op t fld roles rules = false.
Proof.
  intros Hs H. unfold decide, check_rules. rewrite Hs.
  assert (G : forall rs, (forall rl, In rl rs -> matched op t roles rl = true -> rallow rl = false) ->
              fold_left (fstep chk op t roles) rs (false, []) = (false, [])).
  { induction rs as [|rl rs IH]; intros Hr; cbn [fold_left]; [reflexivity|].
    assert (E : fstep chk op t roles (false, []) rl = (false, [])).
    { unfold fstep. destruct (matched op t roles rl) eqn:M; [|reflexivity].
      unfold step. rewrite (Hr rl (or_introl eq_refl) M). destruct (tflds t); [|reflexivity].
      destruct (has_fields rl); reflexivity. }
    rewrite E. apply IH. intros r Hr'. apply Hr. right. exact Hr'. }
  unfold run. rewrite (G rules H). cbn [fst snd]. destruct (tflds t); reflexivity.
Qed.

(* T: the system role is always allowed *)
Lemma system_role_allows chk sysr op t fld roles rules : mem sysr roles = true -> decide chk sysr op t fld roles rules = true.
Proof. intros H. unfold decide, check_rules. rewrite H. reflexivity. Qed.

(* T: allowed for a field list => allowed for every sub-list *)
Lemma requested_fields_subset chk sysr op t fld fld' roles rules :
  incl fld' fld -> decide chk sysr op t fld roles rules = true -> decide chk sysr op t fld' roles rules = true.
Proof.
  intros I. unfold decide. destruct (check_rules chk sysr op t roles rules) as [res af].
  destruct af as [alw|]; [|auto]. destruct (res && negb (is_nil alw)); [|auto].
  rewrite !forallb_forall. intros H f Hf. apply H. apply I. exact Hf.
Qed.

(* T: rules that match no (operation, resource, role) of the request can be inserted or removed anywhere *)
Lemma unrelated_rules_irrelevant chk sysr op t fld roles r1 x r2 :
  (forall rl, In rl x -> matched op t roles rl = false) ->
  decide chk sysr op t fld roles (r1 ++ x ++ r2) = decide chk sysr op t fld roles (r1 ++ r2).
Proof.
  intros H. unfold decide, check_rules.
  rewrite (run_filter chk op t roles (r1 ++ x ++ r2)), (run_filter chk op t roles (r1 ++ r2)).
  rewrite !filter_app. assert (E : filter (matched op t roles) x = []).
  { induction x as [|a x IH]; [reflexivity|]. cbn. rewrite (H a (or_introl eq_refl)). apply IH. intros r Hr. apply H. right. exact Hr. }
  rewrite E. reflexivity.
Qed.

Lemma same_matched_same_decision chk sysr op t fld roles ra rb :
  filter (matched op t roles) ra = filter (matched op t roles) rb ->
  decide chk sysr op t fld roles ra = decide chk sysr op t fld roles rb.
Proof. intros H. unfold decide, check_rules. rewrite (run_filter chk op t roles ra), (run_filter chk op t roles rb), H. reflexivity. Qed.

(* ---------- "last touching rule wins" in index form ---------- *)
Definition field_granted (op : N) (t : typ) (roles : list N) (rules : list rule) (f : N) : Prop :=
  exists i rl, nth_error rules i = Some rl /\ touches op t roles f rl = Some true /\
    forall j rl', (i < j)%nat -> nth_error rules j = Some rl' -> touches op t roles f rl' <> Some false.

Lemma spec_field_app op t roles l rl f :
  spec_field op t roles (l ++ [rl]) f = match touches op t roles f rl with Some b => b | None => spec_field op t roles l f end.
Proof. unfold spec_field. rewrite fold_left_app. reflexivity. Qed.

Lemma spec_field_granted op t roles rules f : spec_field op t roles rules f = true <-> field_granted op t roles rules f.
Proof.
  induction rules as [|rl l IH] using rev_ind.
  - split; [discriminate|]. intros (i & r & H & _). destruct i; discriminate.
  - rewrite spec_field_app. destruct (touches op t roles f rl) as [[|]|] eqn:T.
    + split; [|reflexivity]. intros _. exists (length l), rl. split; [|split].
      * rewrite nth_error_app2 by apply Nat.le_refl. rewrite Nat.sub_diag. reflexivity.
      * exact T.
      * intros j r' Hj Hn. exfalso. assert (nth_error (l ++ [rl]) j = None); [|congruence].
        apply nth_error_None. rewrite app_length. cbn. lia.
    + split; [discriminate|]. intros (i & r & Hn & Ht & Hl). exfalso.
      destruct (Nat.lt_ge_cases i (length l)) as [Lt|Ge].
      * apply (Hl (length l) rl Lt); [|exact T]. rewrite nth_error_app2 by apply Nat.le_refl. rewrite Nat.sub_diag. reflexivity.
      * destruct (Nat.eq_dec i (length l)) as [->|Ne].
        -- rewrite nth_error_app2 in Hn by apply Nat.le_refl. rewrite Nat.sub_diag in Hn. cbn in Hn. congruence.
        -- assert (nth_error (l ++ [rl]) i = None); [|congruence]. apply nth_error_None. rewrite app_length. cbn. lia.
    + rewrite IH. split.
      * intros (i & r & Hn & Ht & Hl). exists i, r. split; [|split].
        -- rewrite nth_error_app1; [exact Hn|]. apply nth_error_Some. congruence.
        -- exact Ht.
        -- intros j r' Hj Hn'. destruct (Nat.lt_ge_cases j (length l)) as [Lt|Ge].
           ++ rewrite nth_error_app1 in Hn' by exact Lt. apply (Hl j r' Hj Hn').
           ++ destruct (Nat.eq_dec j (length l)) as [->|Ne].
              ** rewrite nth_error_app2 in Hn' by apply Nat.le_refl. rewrite Nat.sub_diag in Hn'. cbn in Hn'.
                 inversion Hn'; subst. congruence.
              ** assert (nth_error (l ++ [rl]) j = None); [|congruence]. apply nth_error_None. rewrite app_length. cbn. lia.
      * intros (i & r & Hn & Ht & Hl). destruct (Nat.lt_ge_cases i (length l)) as [Lt|Ge].
        -- exists i, r. rewrite nth_error_app1 in Hn by exact Lt. split; [exact Hn|]. split; [exact Ht|].
           intros j r' Hj Hn'. apply (Hl j r' Hj). rewrite nth_error_app1; [exact Hn'|]. apply nth_error_Some. congruence.
        -- exfalso. destruct (Nat.eq_dec i (length l)) as [->|Ne].
           ++ rewrite nth_error_app2 in Hn by apply Nat.le_refl. rewrite Nat.sub_diag in Hn. cbn in Hn. inversion Hn; subst. congruence.
           ++ assert (nth_error (l ++ [rl]) i = None); [|congruence]. apply nth_error_None. rewrite app_length. cbn. lia.
Qed.

(* ---------- QNames: sorted duplicate-free slices are canonical ---------- *)

Lemma sins_In y x l : In y (sins x l) <-> y = x \/ In y l.
Proof.
  induction l as [|z l IH]; cbn.
  - split; [intros [<-|[]]; auto | intros [->|[]]; auto].
  - destruct (x <? z) eqn:L; [cbn; intuition auto|].
    destruct (x =? z) eqn:E.
    + apply N.eqb_eq in E. subst. cbn. intuition auto.
    + cbn. rewrite IH. intuition auto.
Qed.

Lemma sins_sorted x l : StronglySorted N.lt l -> StronglySorted N.lt (sins x l).
Proof.
  induction l as [|z l IH]; intros H; cbn.
  - constructor; constructor.
  - inversion H as [|? ? Hs Hf]; subst. destruct (x <? z) eqn:L.
    + apply N.ltb_lt in L. constructor; [exact H|]. constructor; [exact L|].
      rewrite Forall_forall in *. intros y Hy. specialize (Hf y Hy). lia.
    + destruct (x =? z) eqn:E; [exact H|]. apply N.ltb_ge in L. apply N.eqb_neq in E.
      constructor; [apply IH; exact Hs|]. rewrite Forall_forall in *. intros y Hy.
      apply sins_In in Hy. destruct Hy as [->|Hy]; [lia|apply Hf; exact Hy].
Qed.

Lemma sadd_In y xs : forall l, In y (sadd xs l) <-> In y xs \/ In y l.
Proof.
  unfold sadd. induction xs as [|x xs IH]; intros l; cbn [fold_left].
  - cbn. intuition auto.
  - rewrite IH, sins_In. cbn. intuition auto.
Qed.

Lemma sadd_sorted xs : forall l, StronglySorted N.lt l -> StronglySorted N.lt (sadd xs l).
Proof.
  unfold sadd. induction xs as [|x xs IH]; intros l H; cbn [fold_left]; [exact H|]. apply IH. apply sins_sorted. exact H.
Qed.

Lemma sorted_ext (a : list N) : forall b, StronglySorted N.lt a -> StronglySorted N.lt b ->
  (forall x, In x a <-> In x b) -> a = b.
Proof.
  induction a as [|x a IH]; intros b Ha Hb E.
  - destruct b as [|y b]; [reflexivity|]. exfalso. apply (proj2 (E y)). left. reflexivity.
  - destruct b as [|y b]; [exfalso; apply (proj1 (E x)); left; reflexivity|].
    inversion Ha as [|? ? Sa Fa]; subst. inversion Hb as [|? ? Sb Fb]; subst.
    rewrite Forall_forall in Fa, Fb.
    assert (x = y).
    { destruct (proj1 (E x) (or_introl eq_refl)) as [->|Hx]; [reflexivity|].
      destruct (proj2 (E y) (or_introl eq_refl)) as [->|Hy]; [reflexivity|].
      specialize (Fa y Hy). specialize (Fb x Hx). lia. }
    subst y. f_equal. apply IH; [exact Sa|exact Sb|]. intros z. split; intros Hz.
    + destruct (proj1 (E z) (or_intror Hz)) as [<-|H]; [|exact H]. specialize (Fa x Hz). lia.
    + destruct (proj2 (E z) (or_intror Hz)) as [<-|H]; [|exact H]. specialize (Fb x Hz). lia.
Qed.

Lemma sfrom_canonical a b : (forall x, In x a <-> In x b) -> sfrom a = sfrom b.
Proof.
  intros E. unfold sfrom. apply sorted_ext; try (apply sadd_sorted; constructor).
  intros x. rewrite !sadd_In. cbn. rewrite E. reflexivity.
Qed.

(* T: the answer does not depend on the order (or repetition) of the supplied roles *)
Lemma role_order_irrelevant c S sysr w op res fld rol rol' :
  (forall x, In x rol <-> In x rol') ->
  is_allowed_gen c S sysr w op res fld rol = is_allowed_gen c S sysr w op res fld rol'.
Proof. intros E. unfold is_allowed_gen, expand_gen. rewrite (sfrom_canonical rol rol' E). reflexivity. Qed.

(* ---------- the declarative decision in Prop form ---------- *)
Definition declared_allowed (sysr op : N) (t : typ) (fld roles : list N) (rules : list rule) : Prop :=
  In sysr roles \/
  match tflds t with
  | Some fs => (exists f, In f fs /\ field_granted op t roles rules f) /\ (forall f, In f fld -> field_granted op t roles rules f)
  | None => field_granted op t roles rules 0
  end.

Lemma spec_decide_declared sysr op t fld roles rules :
  spec_decide sysr op t fld roles rules = true <-> declared_allowed sysr op t fld roles rules.
Proof.
  unfold spec_decide, declared_allowed. rewrite orb_true_iff, mem_In.
  destruct (tflds t) as [fs|].
  - rewrite andb_true_iff, existsb_exists, forallb_forall.
    split; (intros [H|[[f [H1 H2]] H3]]; [left; exact H|right]); (split; [exists f; split; [exact H1|apply spec_field_granted; exact H2]|]);
      intros g Hg; apply spec_field_granted; apply H3; exact Hg.
  - rewrite spec_field_granted. reflexivity.
Qed.

Lemma decide_declared chk sysr op t fld roles rules :
  match tflds t with
  | Some fs => NoDup fs /\ fs <> [] /\ incl fld fs /\ (chk = true \/ rules_wf op t roles fs rules)
  | None => True
  end ->
  (decide chk sysr op t fld roles rules = true <-> declared_allowed sysr op t fld roles rules).
Proof. intros H. rewrite (decide_spec chk sysr op t fld roles rules H). apply spec_decide_declared. Qed.

Lemma run_field_granted chk op t roles fs rules f : tflds t = Some fs -> chk = false \/ In f fs ->
  (In f (snd (run chk op t roles rules)) <-> field_granted op t roles rules f).
Proof.
  intros Hf Hc. rewrite <- mem_In, (run_field_spec chk op t roles fs f rules Hf).
  - apply spec_field_granted.
  - destruct Hc as [Hc|Hc]; [left; exact Hc|right; apply mem_In; exact Hc].
Qed.

(* with the check, names that are not fields of the resource never enter the map *)
Lemma run_checked_incl op t roles fs rules : tflds t = Some fs -> incl (snd (run true op t roles rules)) fs.
Proof. intros Hf. apply (run_incl true op t roles fs rules Hf). left. reflexivity. Qed.
