(* C05 - proofs about the write engine of C05_SeqTrust/Model.v, for every store, clock position,
   batch and value type, and the link "a trace the model accepts satisfies the oracle".
   The decision tables enter as named hypotheses (discharged by reflexivity in Properties/C05.v
   against the table the translator extracted from the Go source). *)
From Coq Require Import List NArith ZArith Bool Lia.
From V Require Import Lib.Lex Lib.SMap Lib.Check Storage.Spec Storage.SpecLaws Gen.Params C05_SeqTrust.Model.
Import ListNotations.
Local Open Scope N_scope.

Section Engine.
Context {V : Type}.
Notation store := (store V).
Notation item := (item V).

Hypothesis H_ttl : c05_insert_ttl = 0%Z.
(* apply2.store hands rec.isNew on unchanged, for every kind of record *)
Hypothesis H_kinds : c05_store_put_kinds = [].

Lemma batch_new_is_new (it : item) : stale_new it = false -> batch_new it = it_new it.
Proof.
  intros S. unfold batch_new, store_as_update. rewrite S, H_kinds. cbn. rewrite orb_false_r. apply andb_true_r.
Qed.

Lemma batch_new_of_new (it : item) : it_new it = true -> batch_new it = true.
Proof. intros E. unfold batch_new, store_as_update. rewrite E, H_kinds. reflexivity. Qed.

Lemma stale_new_off (it : item) : c05_update_inherits_isnew = false -> stale_new it = false.
Proof. intros E. unfold stale_new. rewrite E. reflexivity. Qed.

Definition key (it : item) : bytes * bytes := (it_pk it, it_cc it).

Lemma get_of_raw now (st1 st2 : store) pk cc :
  raw_lookup st1 pk cc = raw_lookup st2 pk cc -> get now st1 pk cc = get now st2 pk cc.
Proof. intros H. unfold get, lookup. rewrite H. reflexivity. Qed.

Lemma raw_put_other (st : store) pk cc v pk' cc' :
  (pk', cc') <> (pk, cc) -> raw_lookup (put st pk cc v) pk' cc' = raw_lookup st pk' cc'.
Proof. intros N. unfold put. apply raw_set_other. exact N. Qed.

(* InsertIfNotExists with the ttl the code passes: refused on a live row, otherwise a plain put *)
Lemma ins_found now (st : store) (it : item) :
  found now st it = true ->
  insert_if_not_exists now st (it_pk it) (it_cc it) (it_val it) c05_insert_ttl = (st, false).
Proof.
  unfold found, get, insert_if_not_exists. destruct (lookup now st (it_pk it) (it_cc it)); cbn; [reflexivity|discriminate].
Qed.

Lemma ins_not_found now (st : store) (it : item) :
  found now st it = false ->
  insert_if_not_exists now st (it_pk it) (it_cc it) (it_val it) c05_insert_ttl
  = (put st (it_pk it) (it_cc it) (it_val it), true).
Proof.
  unfold found, get, insert_if_not_exists. rewrite H_ttl.
  destruct (lookup now st (it_pk it) (it_cc it)); cbn; [discriminate|reflexivity].
Qed.

(* one row of the engine *)
Lemma write_items_cons cond now (st : store) (it : item) r :
  write_items cond now st (it :: r) =
  if cond it && found now st it then (st, RViolation)
  else write_items cond now (put st (it_pk it) (it_cc it) (it_val it)) r.
Proof.
  cbn [write_items]. destruct (cond it); cbn [andb]; [|reflexivity].
  destruct (found now st it) eqn:F.
  - rewrite (ins_found _ _ _ F). reflexivity.
  - rewrite (ins_not_found _ _ _ F). reflexivity.
Qed.

Lemma found_put now (st : store) (h it : item) :
  found now st it = true -> found now (put st (it_pk h) (it_cc h) (it_val h)) it = true.
Proof.
  unfold found. intros F.
  destruct (list_eq_dec N.eq_dec (it_pk it) (it_pk h)) as [E1|N1];
    [destruct (list_eq_dec N.eq_dec (it_cc it) (it_cc h)) as [E2|N2]|].
  - rewrite E1, E2, get_put_same. reflexivity.
  - rewrite get_put_other by congruence. exact F.
  - rewrite get_put_other by congruence. exact F.
Qed.

(* (A) a conditional row aimed at a live slot makes the whole call answer SequencesViolation *)
Lemma write_violation cond now (items : list item) : forall (st : store) it,
  In it items -> cond it = true -> found now st it = true ->
  snd (write_items cond now st items) = RViolation.
Proof.
  induction items as [|h r IH]; intros st it Hin Hc Hf; [destruct Hin|].
  rewrite write_items_cons. destruct (cond h && found now st h) eqn:E; [reflexivity|].
  destruct Hin as [->|Hin]; [rewrite Hc, Hf in E; discriminate E|].
  eapply IH; eauto. apply found_put. exact Hf.
Qed.

(* (B) a live slot at which the batch only aims conditional rows keeps its row, bit for bit *)
Lemma write_keeps_guarded cond now (items : list item) : forall (st : store) pk cc,
  get now st pk cc <> None ->
  (forall it, In it items -> key it = (pk, cc) -> cond it = true) ->
  raw_lookup (fst (write_items cond now st items)) pk cc = raw_lookup st pk cc.
Proof.
  induction items as [|h r IH]; intros st pk cc Hlive Hall; [reflexivity|].
  rewrite write_items_cons. destruct (cond h && found now st h) eqn:E; [reflexivity|].
  assert (Hne : (pk, cc) <> (it_pk h, it_cc h)).
  { intros Heq. assert (Hk : key h = (pk, cc)) by (unfold key; congruence).
    rewrite (Hall h (or_introl eq_refl) Hk) in E. cbn in E.
    unfold found in E. inversion Heq; subst pk cc.
    destruct (get now st (it_pk h) (it_cc h)); [discriminate|congruence]. }
  rewrite IH.
  - apply raw_put_other. exact Hne.
  - rewrite get_put_other by exact Hne. exact Hlive.
  - intros it Hin. apply Hall. right. exact Hin.
Qed.

(* (F) rows of other keys are never touched *)
Lemma write_frame cond now (items : list item) : forall (st : store) pk cc,
  (forall it, In it items -> key it <> (pk, cc)) ->
  raw_lookup (fst (write_items cond now st items)) pk cc = raw_lookup st pk cc.
Proof.
  induction items as [|h r IH]; intros st pk cc Hall; [reflexivity|].
  rewrite write_items_cons. destruct (cond h && found now st h); [reflexivity|].
  rewrite IH by (intros it Hin; apply Hall; right; exact Hin).
  apply raw_put_other. intros Heq. apply (Hall h (or_introl eq_refl)). unfold key. congruence.
Qed.

(* (C) pairwise different keys and no conditional row aimed at a live slot: the call succeeds
   and every slot reads back what was written *)
Lemma write_all_ok cond now (items : list item) : forall (st : store),
  NoDup (map key items) ->
  (forall it, In it items -> cond it = true -> found now st it = false) ->
  snd (write_items cond now st items) = ROk /\
  forall it, In it items -> get now (fst (write_items cond now st items)) (it_pk it) (it_cc it) = Some (it_val it).
Proof.
  induction items as [|h r IH]; intros st Hnd Hfree; [split; [reflexivity|intros it []]|].
  rewrite write_items_cons.
  assert (E : cond h && found now st h = false).
  { destruct (cond h) eqn:C; [|reflexivity]. cbn. apply Hfree; [left; reflexivity|exact C]. }
  rewrite E. inversion Hnd as [|? ? Hnotin Hnd']; subst.
  assert (Hother : forall it, In it r -> (it_pk it, it_cc it) <> (it_pk h, it_cc h)).
  { intros it Hin Heq. apply Hnotin. replace (key h) with (key it) by (unfold key; exact Heq).
    apply (in_map key). exact Hin. }
  destruct (IH (put st (it_pk h) (it_cc h) (it_val h)) Hnd') as [Hres Hget].
  { intros it Hin C. unfold found. rewrite get_put_other by (apply Hother; exact Hin).
    apply (Hfree it (or_intror Hin) C). }
  split; [exact Hres|]. intros it [->|Hin]; [|apply Hget; exact Hin].
  rewrite (get_of_raw now _ (put st (it_pk it) (it_cc it) (it_val it))).
  - apply get_put_same.
  - apply write_frame. intros it' Hin' Heq. apply (Hother it' Hin'). exact Heq.
Qed.

(* PutBatch (code 0) is the engine with no conditional row *)
Lemma write_items_put_batch now (items : list item) : forall (st : store),
  write_items (fun _ => false) now st items = (put_batch st (rows items), ROk).
Proof. induction items as [|h r IH]; intros st; [reflexivity|]. cbn [write_items]. rewrite IH. reflexivity. Qed.

(* ---- boolean key predicates of the oracle ---- *)

Lemma key_eqb_eq (a b : item) : key_eqb a b = true <-> key a = key b.
Proof.
  unfold key_eqb, key. rewrite andb_true_iff, !lex_eqb_eq. split; [intros [-> ->]; reflexivity|intros E; inversion E; auto].
Qed.

Lemma nodup_keys_NoDup (items : list item) : nodup_keys items = true -> NoDup (map key items).
Proof.
  induction items as [|h r IH]; cbn; intros H; [constructor|].
  apply andb_true_iff in H. destruct H as [H1 H2]. constructor; [|apply IH; exact H2].
  intros Hin. apply in_map_iff in Hin. destruct Hin as [x [Hk Hx]].
  apply negb_true_iff in H1. assert (T : existsb (key_eqb h) r = true).
  { apply existsb_exists. exists x. split; [exact Hx|]. apply key_eqb_eq. symmetry. exact Hk. }
  congruence.
Qed.

Lemma filter_singleton {T} (f : T -> bool) (l : list T) a b :
  length (filter f l) = 1%nat -> In a l -> f a = true -> In b l -> f b = true -> a = b.
Proof.
  intros L Ha Fa Hb Fb.
  assert (Ia : In a (filter f l)) by (apply filter_In; auto).
  assert (Ib : In b (filter f l)) by (apply filter_In; auto).
  destruct (filter f l) as [|x [|y t]]; cbn in L; try discriminate L.
  destruct Ia as [<-|[]]. destruct Ib as [<-|[]]. reflexivity.
Qed.

Lemma key_count_one (it : item) items :
  In it items -> key_count it items = 1%nat -> forall it', In it' items -> key it' = key it -> it' = it.
Proof.
  unfold key_count. intros Hin L it' Hin' Hk.
  eapply (filter_singleton (key_eqb it) items it' it L Hin'); auto.
  - apply key_eqb_eq. symmetry. exact Hk.
  - apply key_eqb_eq. reflexivity.
Qed.

(* ---- the link: what the model produces is accepted by the oracle ---- *)
Context (stamp : V -> N) (veqb : V -> V -> bool).
Hypothesis veqb_eq : forall a b, veqb a b = true <-> a = b.

Notation obs := (obs V).
Notation slot := (slot V).
Notation step := (step V).

Lemma option_eqb_eq {T} (e : T -> T -> bool) (He : forall a b, e a b = true <-> a = b) (a b : option T) :
  option_eqb e a b = true <-> a = b.
Proof.
  destruct a, b; cbn; try (split; congruence). rewrite He. split; congruence.
Qed.

Lemma obs_eqb_eq (a b : obs) : obs_eqb veqb a b = true <-> a = b.
Proof.
  unfold obs_eqb. rewrite !andb_true_iff, !(option_eqb_eq veqb veqb_eq), (option_eqb_eq N.eqb N.eqb_eq).
  destruct a, b; cbn. split; [intros [[-> ->] ->]; reflexivity|intros E; inversion E; auto].
Qed.

Lemma obs_eqb_refl (a : obs) : obs_eqb veqb a a = true.
Proof. apply obs_eqb_eq. reflexivity. Qed.

Lemma occupied_obs_of now (st : store) it : occupied (obs_of stamp now st it) = found now st it.
Proof. reflexivity. Qed.

(* comparison of observations: everything, or - for a slot another writer touched - the raw bytes only *)
Lemma obs_ok_bot stale (a b : obs) : obs_ok veqb stale a b = true -> o_bot a = o_bot b.
Proof.
  unfold obs_ok. destruct stale; intros H.
  - apply (option_eqb_eq veqb veqb_eq). exact H.
  - apply obs_eqb_eq in H. rewrite H. reflexivity.
Qed.

Lemma obs_ok_occupied stale (a b : obs) : obs_ok veqb stale a b = true -> occupied a = occupied b.
Proof. intros H. unfold occupied. rewrite (obs_ok_bot _ _ _ H). reflexivity. Qed.

Lemma obs_ok_via stale (a b x : obs) :
  obs_ok veqb stale a x = true -> obs_ok veqb stale b x = true -> obs_ok veqb stale a b = true.
Proof.
  unfold obs_ok. destruct stale; intros Ha Hb.
  - apply (option_eqb_eq veqb veqb_eq) in Ha, Hb. apply (option_eqb_eq veqb veqb_eq). congruence.
  - apply obs_eqb_eq in Ha, Hb. apply obs_eqb_eq. congruence.
Qed.

Lemma engine_judge cond trust k now (st : store) (slots : list slot) :
  (forall sl, In sl slots -> cond (sl_it sl) = protected trust k (it_new (sl_it sl))) ->
  (forall sl, In sl slots ->
     obs_ok veqb (sl_stale sl) (sl_before sl) (obs_of stamp now st (sl_it sl)) = true /\
     obs_ok veqb (sl_stale sl) (sl_after sl) (obs_of stamp now (fst (write_items cond now st (map sl_it slots))) (sl_it sl)) = true) ->
  judge stamp veqb trust k slots (snd (write_items cond now st (map sl_it slots))) = true.
Proof.
  intros Hcond Hobs. unfold judge.
  set (items := map sl_it slots).
  assert (Href : forall sl, In sl slots -> refused trust k sl = cond (sl_it sl) && found now st (sl_it sl)).
  { intros sl Hin. unfold refused. rewrite (obs_ok_occupied _ _ _ (proj1 (Hobs sl Hin))), occupied_obs_of, (Hcond sl Hin). reflexivity. }
  destruct (existsb (refused trust k) slots) eqn:Ex.
  - apply existsb_exists in Ex. destruct Ex as [sl0 [Hin0 R0]].
    rewrite (Href sl0 Hin0) in R0. apply andb_true_iff in R0. destruct R0 as [C0 F0].
    rewrite (write_violation cond now items st (sl_it sl0) (in_map sl_it _ _ Hin0) C0 F0). cbn.
    apply forallb_forall. intros sl Hin.
    destruct (refused trust k sl && Nat.eqb (key_count (sl_it sl) items) 1) eqn:G; [|reflexivity].
    cbn. apply andb_true_iff in G. destruct G as [R G]. apply Nat.eqb_eq in G.
    rewrite (Href sl Hin) in R. apply andb_true_iff in R. destruct R as [C F].
    destruct (Hobs sl Hin) as [Hb Ha]. fold items in Ha. unfold obs_of in Ha.
    rewrite (get_of_raw now (fst (write_items cond now st items)) st) in Ha.
    + exact (obs_ok_via _ _ _ _ Ha Hb).
    + apply write_keeps_guarded.
      * unfold found in F. destruct (get now st (it_pk (sl_it sl)) (it_cc (sl_it sl))); [discriminate|discriminate F].
      * intros it' Hin' Hk.
        rewrite (key_count_one (sl_it sl) items (in_map sl_it _ _ Hin) G it' Hin' Hk). exact C.
  - destruct (nodup_keys items) eqn:ND; [|reflexivity].
    destruct (write_all_ok cond now items st (nodup_keys_NoDup _ ND)) as [Hres Hget].
    { intros it Hin C. apply in_map_iff in Hin. destruct Hin as [sl [<- Hin]].
      destruct (found now st (sl_it sl)) eqn:F; [|reflexivity].
      assert (R : refused trust k sl = true) by (rewrite (Href sl Hin), C, F; reflexivity).
      assert (T : existsb (refused trust k) slots = true) by (apply existsb_exists; exists sl; auto).
      congruence. }
    fold items. rewrite Hres. cbn. apply forallb_forall. intros sl Hin.
    destruct (Hobs sl Hin) as [_ Ha]. fold items in Ha. unfold obs_of in Ha.
    rewrite (Hget (sl_it sl) (in_map sl_it _ _ Hin)) in Ha. exact Ha.
Qed.

(* the tables the code has now *)
Hypothesis H_plog : c05_plog_ops = [1; 1; 0].
Hypothesis H_wlog : c05_wlog_ops = [1; 1; 0].
Hypothesis H_rec : c05_rec_ops = [1; 0; 0].
Hypothesis H_rec_re : c05_rec_reapply_ops = [0; 0; 0].
Hypothesis H_rwlog : c05_reapply_wlog_op = 0.

Lemma trust_cases trust : (trust <=? 2) = true -> trust = 0 \/ trust = 1 \/ trust = 2.
Proof. intros H. apply N.leb_le in H. lia. Qed.

Lemma log_code_table k trust : (trust <=? 2) = true ->
  match k with KPlog | KWlog | KReapplyWlog => True | _ => False end ->
  (1 <? log_code k trust false) = false /\
  (log_code k trust false =? 1) = protected trust k true.
Proof.
  intros T K. destruct k; try contradiction; unfold log_code; rewrite ?H_plog, ?H_wlog, ?H_rwlog;
    destruct (trust_cases trust T) as [-> | [-> | ->]]; split; reflexivity.
Qed.

Lemma rec_code_table k trust : (trust <=? 2) = true ->
  match k with KApply | KReapplyRecs => True | _ => False end ->
  (1 <? rec_code k trust) = false /\
  forall new, (rec_code k trust =? 1) && new = protected trust k new.
Proof.
  intros T K. destruct k; try contradiction; unfold rec_code; rewrite ?H_rec, ?H_rec_re;
    destruct (trust_cases trust T) as [-> | [-> | ->]]; split; try reflexivity; intros []; reflexivity.
Qed.

Lemma domain_loads_ok now (st : store) (slots : list slot) :
  (forall sl, In sl slots -> obs_ok veqb (sl_stale sl) (sl_before sl) (obs_of stamp now st (sl_it sl)) = true) ->
  forallb (fun sl => it_new (sl_it sl) || occupied (sl_before sl)) slots = true ->
  loads_ok now st (map sl_it slots) = true.
Proof.
  intros Hb D. unfold loads_ok. apply forallb_forall. intros it Hin.
  apply in_map_iff in Hin. destruct Hin as [sl [<- Hin]].
  rewrite forallb_forall in D. specialize (D sl Hin). rewrite (obs_ok_occupied _ _ _ (Hb sl Hin)), occupied_obs_of in D.
  unfold needs_load. destruct (it_new (sl_it sl)), (it_load (sl_it sl)); cbn in *; auto.
Qed.

Lemma protected_log_new trust k new :
  match k with KPlog | KWlog | KReapplyWlog => True | _ => False end ->
  protected trust k new = protected trust k true.
Proof. destruct k; try contradiction; reflexivity. Qed.

Ltac split_run Run :=
  match type of Run with
  | Some (?x, _) = Some (?a, ?b, _) =>
      let Ea := fresh "Ea" in let Eb := fresh "Eb" in
      pose proof (f_equal (fun o => match o with Some (p, _) => fst p | None => a end) Run) as Ea;
      pose proof (f_equal (fun o => match o with Some (p, _) => snd p | None => b end) Run) as Eb;
      change (fst x = a) in Ea; change (snd x = b) in Eb; clear Run; subst a b
  end.

Lemma step_judge0 trust now (st st1 : store) (s : step) r cs :
  (forall sl, In sl (s_slots s) -> stale_new (sl_it sl) = false) ->
  run_step0 trust now st s = Some (st1, r, cs) ->
  s_res s = r ->
  (forall sl, In sl (s_slots s) ->
     obs_ok veqb (sl_stale sl) (sl_before sl) (obs_of stamp now st (sl_it sl)) = true /\
     obs_ok veqb (sl_stale sl) (sl_after sl) (obs_of stamp now st1 (sl_it sl)) = true) ->
  satisfies_step0 stamp veqb trust s = true.
Proof.
  intros Hcl Run Er Ho. unfold satisfies_step0.
  destruct (in_domain trust s) eqn:D; [|destruct (s_kind s); reflexivity].
  unfold in_domain in D. apply andb_true_iff in D. destruct D as [D Dupd].
  apply andb_true_iff in D. destruct D as [Dcorr T]. apply negb_true_iff in Dcorr.
  unfold run_step0, items_of in Run. rewrite Er. rewrite Dcorr in Run.
  destruct (s_kind s) eqn:K; try reflexivity.
  - (* PutPlog *)
    destruct (map sl_it (s_slots s)) as [|it [|? ?]] eqn:Its; try discriminate Run. split_run Run.
    destruct (log_code_table KPlog trust T I) as [NP Tab]. unfold run_log in *. rewrite NP in *. rewrite <- Its in *. rewrite <- Eb.
    apply engine_judge.
    + intros sl _. unfold log_cond. rewrite Tab. reflexivity.
    + exact Ho.
  - (* PutWlog *)
    destruct (map sl_it (s_slots s)) as [|it [|? ?]] eqn:Its; try discriminate Run. split_run Run.
    destruct (log_code_table KWlog trust T I) as [NP Tab]. unfold run_log in *. rewrite NP in *. rewrite <- Its in *. rewrite <- Eb.
    apply engine_judge.
    + intros sl _. unfold log_cond. rewrite Tab. reflexivity.
    + exact Ho.
  - (* Apply *)
    split_run Run.
    destruct (rec_code_table KApply trust T I) as [NP Tab]. unfold run_recs in *.
    pose proof (domain_loads_ok now st (s_slots s) (fun sl H => proj1 (Ho sl H)) Dupd) as L.
    rewrite L in *. cbn [negb] in *.
    destruct (map sl_it (s_slots s)) as [|i0 r0] eqn:Its.
    + change (@nil item) with (map sl_it (@nil slot)) in Its.
      destruct (s_slots s); [|discriminate]. rewrite <- Eb. reflexivity.
    + rewrite NP in *. rewrite <- Its in *. rewrite <- Eb. apply engine_judge.
      * intros sl Hin. unfold rec_cond. rewrite (batch_new_is_new _ (Hcl sl Hin)). apply Tab.
      * exact Ho.
  - (* ApplyRecords of the re-applier *)
    split_run Run.
    destruct (rec_code_table KReapplyRecs trust T I) as [NP Tab]. unfold run_recs in *.
    pose proof (domain_loads_ok now st (s_slots s) (fun sl H => proj1 (Ho sl H)) Dupd) as L.
    rewrite L in *. cbn [negb] in *.
    destruct (map sl_it (s_slots s)) as [|i0 r0] eqn:Its.
    + destruct (s_slots s); [|discriminate]. rewrite <- Eb. reflexivity.
    + rewrite NP in *. rewrite <- Its in *. rewrite <- Eb. apply engine_judge.
      * intros sl Hin. unfold rec_cond. rewrite (batch_new_is_new _ (Hcl sl Hin)). apply Tab.
      * exact Ho.
  - (* PutWLog of the re-applier *)
    destruct (map sl_it (s_slots s)) as [|it [|? ?]] eqn:Its; try discriminate Run. split_run Run.
    destruct (log_code_table KReapplyWlog trust T I) as [NP Tab]. unfold run_log in *. rewrite NP in *. rewrite <- Its in *. rewrite <- Eb.
    apply engine_judge.
    + intros sl _. unfold log_cond. rewrite Tab. reflexivity.
    + exact Ho.
Qed.

Theorem step_link trust now (st st' : store) (s : step) :
  clean_step s = true ->
  check_step stamp veqb trust now st s = Some st' -> satisfies_step stamp veqb trust s = true.
Proof.
  intros Hclean. unfold clean_step in Hclean. apply andb_true_iff in Hclean. destruct Hclean as [Hclean Hmode].
  assert (Hcl : forall sl, In sl (s_slots s) -> stale_new (sl_it sl) = false).
  { intros sl Hin. rewrite forallb_forall in Hclean. apply negb_true_iff. apply Hclean. exact Hin. }
  clear Hclean. unfold check_step. destruct (run_step trust now st s) as [[[st1 r] cs]|] eqn:Run; [|discriminate].
  destruct (forallb _ (s_slots s) && res_eqb (s_res s) r && list_eqb (call_eqb veqb) (s_calls s) cs) eqn:Chk; [|discriminate].
  intros _. apply andb_true_iff in Chk. destruct Chk as [Chk _].
  apply andb_true_iff in Chk. destruct Chk as [Hobs Hres].
  assert (Er : s_res s = r) by (destruct (s_res s), r; cbn in Hres; congruence). clear Hres.
  assert (Ho : forall sl, In sl (s_slots s) ->
            obs_ok veqb (sl_stale sl) (sl_before sl) (obs_of stamp now st (sl_it sl)) = true /\
            obs_ok veqb (sl_stale sl) (sl_after sl) (obs_of stamp now st1 (sl_it sl)) = true).
  { intros sl Hin. rewrite forallb_forall in Hobs. specialize (Hobs sl Hin).
    apply andb_true_iff in Hobs. exact Hobs. }
  clear Hobs. unfold satisfies_step. unfold run_step in Run.
  destruct (s_mode s =? 0) eqn:M0.
  - cbn [orb] in *. apply N.eqb_eq in M0. unfold eff_trust in Run. rewrite M0 in Run. cbn in Run.
    eapply step_judge0; eauto.
  - cbn [orb] in *. destruct (window_mode (s_mode s)) eqn:W.
    + assert (M3 : (s_mode s =? 3) = false).
      { unfold window_mode in W. destruct (N.eqb_spec (s_mode s) 3) as [E|]; [rewrite E in W; discriminate W|reflexivity]. }
      rewrite M3 in Hmode. cbn [orb] in Hmode. apply negb_true_iff in Hmode.
      unfold eff_trust in Run. rewrite W, Hmode in Run. cbn [andb] in Run.
      eapply step_judge0; eauto.
    + destruct (s_mode s =? 3) eqn:M3; [reflexivity|].
      cbn [orb] in Hmode. apply negb_true_iff in Hmode. rewrite Hmode in Run.
      destruct (is_reapply (s_kind s)); [|discriminate Run].
      assert (E1 : st1 = st) by congruence. subst st1.
      apply forallb_forall. intros sl Hin. destruct (Ho sl Hin) as [Hb Ha].
      rewrite (obs_ok_via _ _ _ _ Ha Hb). apply orb_true_r.
Qed.

Theorem link_proved (t : gtrace V) :
  gclean t = true -> gagrees stamp veqb t = true -> gsatisfies stamp veqb t = true.
Proof.
  unfold gagrees, gsatisfies, gclean. generalize (@nil (bytes * smap (row V))) as st. generalize 0%Z as now.
  induction (t_steps t) as [|s r IH]; intros now st Hc H; [reflexivity|].
  cbn in H, Hc |- *. apply andb_true_iff in Hc. destruct Hc as [Hc1 Hc2].
  destruct (check_step stamp veqb (t_trust t) now st s) as [st'|] eqn:C; [|discriminate].
  rewrite (step_link _ _ _ _ _ Hc1 C). cbn. eapply IH; [exact Hc2|exact H].
Qed.

Lemma accepts_off m : c05_refused_plog_marks_stored = false -> c05_failed_plog_marks_stored = false ->
  (m =? 0) = false -> reapplier_accepts m = false.
Proof. intros E1 E2 M. unfold reapplier_accepts. rewrite M, E1, E2. destruct (m =? 1), (m =? 2); reflexivity. Qed.

Lemma gclean_off (t : gtrace V) :
  c05_update_inherits_isnew = false -> c05_refused_plog_marks_stored = false -> c05_failed_plog_marks_stored = false ->
  c05_reapply_wlog_raises_level = false ->
  gclean t = true.
Proof.
  intros E E1 E2 E3. unfold gclean, clean_step. apply forallb_forall. intros s _. apply andb_true_iff. split.
  - apply forallb_forall. intros sl _. rewrite (stale_new_off _ E). reflexivity.
  - destruct (s_mode s =? 0) eqn:M; [reflexivity|]. rewrite (accepts_off _ E1 E2 M), E3.
    destruct (window_mode (s_mode s)); apply orb_true_r.
Qed.

(* with the first two marks off (the code as it is), the only unclean steps are re-applies of an event whose
   PutPlog failed with a storage error *)
Lemma gclean_but_failed (t : gtrace V) :
  c05_update_inherits_isnew = false -> c05_refused_plog_marks_stored = false ->
  c05_reapply_wlog_raises_level = false -> no_failed_reapply t = true ->
  gclean t = true.
Proof.
  intros E E1 E3 NF. unfold gclean, clean_step, no_failed_reapply in *. apply forallb_forall. intros s Hin.
  rewrite forallb_forall in NF. specialize (NF s Hin). apply negb_true_iff in NF. apply andb_true_iff. split.
  - apply forallb_forall. intros sl _. rewrite (stale_new_off _ E). reflexivity.
  - destruct (s_mode s =? 0) eqn:M; [reflexivity|]. unfold reapplier_accepts. rewrite M, NF, E1, E3.
    destruct (window_mode (s_mode s)), (s_mode s =? 1); cbn; apply orb_true_r.
Qed.

(* ---- the clauses of the statement, about the writers themselves ---- *)
Hypothesis H_plog_c : c05_plog_corrupted_ops = [0; 0; 0].
Hypothesis H_wlog_c : c05_wlog_corrupted_ops = [0; 0; 0].

Lemma found_some now (st : store) (it : item) old :
  get now st (it_pk it) (it_cc it) = Some old -> found now st it = true.
Proof. unfold found. intros ->. reflexivity. Qed.

Lemma run_log_ins now (st : store) (it : item) :
  run_log 1 now st it = (if found now st it then (st, RViolation) else (put st (it_pk it) (it_cc it) (it_val it), ROk))
  /\ run_log_calls 1 now st it = [CIns (it_pk it) (it_cc it) (it_val it) 0%Z (negb (found now st it))].
Proof.
  unfold run_log, run_log_calls. change (1 <? 1) with false. cbn iota. rewrite write_items_cons.
  cbn [write_calls]. unfold log_cond. change (1 =? 1) with true. cbn [andb].
  destruct (found now st it) eqn:F.
  - rewrite (ins_found _ _ _ F), H_ttl. split; reflexivity.
  - rewrite (ins_not_found _ _ _ F), H_ttl. split; reflexivity.
Qed.

Lemma run_log_put now (st : store) (it : item) :
  run_log 0 now st it = (put st (it_pk it) (it_cc it) (it_val it), ROk)
  /\ run_log_calls 0 now st it = [CPut (it_pk it) (it_cc it) (it_val it)].
Proof. split; reflexivity. Qed.

(* trust 0 and 1: an append at an occupied PLog / WLog offset is refused, nothing is written *)
Theorem log_append_refused_proved k trust now (st : store) (it : item) old :
  k = KPlog \/ k = KWlog -> trust < 2 ->
  get now st (it_pk it) (it_cc it) = Some old ->
  run_log (log_code k trust false) now st it = (st, RViolation) /\
  run_log_calls (log_code k trust false) now st it = [CIns (it_pk it) (it_cc it) (it_val it) 0%Z false].
Proof.
  intros K T G. assert (C : log_code k trust false = 1).
  { assert (trust = 0 \/ trust = 1) as [-> | ->] by lia; destruct K as [-> | ->]; unfold log_code;
      rewrite ?H_plog, ?H_wlog; reflexivity. }
  rewrite C. destruct (run_log_ins now st it) as [R Cs]. rewrite R, Cs, (found_some _ _ _ _ G). split; reflexivity.
Qed.

(* every level: an append at an empty offset is written and reads back *)
Theorem log_append_empty_proved k trust now (st : store) (it : item) :
  k = KPlog \/ k = KWlog -> trust <= 2 ->
  get now st (it_pk it) (it_cc it) = None ->
  run_log (log_code k trust false) now st it = (put st (it_pk it) (it_cc it) (it_val it), ROk).
Proof.
  intros K T G. assert (F : found now st it = false) by (unfold found; rewrite G; reflexivity).
  assert (C : log_code k trust false = 1 \/ log_code k trust false = 0).
  { assert (trust = 0 \/ trust = 1 \/ trust = 2) as [-> | [-> | ->]] by lia; destruct K as [-> | ->]; unfold log_code;
      rewrite ?H_plog, ?H_wlog; (left; reflexivity) || (right; reflexivity). }
  destruct C as [-> | ->].
  - rewrite (proj1 (run_log_ins now st it)), F. reflexivity.
  - apply run_log_put.
Qed.

(* level 2, sys.Corrupted events and the re-applier overwrite whatever the slot holds *)
Theorem log_overwrite_proved k trust corrupted now (st : store) (it : item) :
  trust <= 2 ->
  ((k = KPlog \/ k = KWlog) /\ (trust = 2 \/ corrupted = true)) \/ k = KReapplyWlog ->
  run_log (log_code k trust corrupted) now st it = (put st (it_pk it) (it_cc it) (it_val it), ROk).
Proof.
  intros T H. assert (C : log_code k trust corrupted = 0).
  { assert (trust = 0 \/ trust = 1 \/ trust = 2) as Tc by lia.
    destruct H as [[K [-> | ->]] | ->]; [destruct K as [-> | ->]; destruct corrupted| |exact H_rwlog];
      unfold log_code; rewrite ?H_plog, ?H_wlog, ?H_plog_c, ?H_wlog_c; try reflexivity;
      destruct K as [-> | ->]; destruct Tc as [-> | [-> | ->]]; reflexivity. }
  rewrite C. apply run_log_put.
Qed.

Lemma rec_code_apply0 : rec_code KApply 0 = 1.
Proof. unfold rec_code. rewrite H_rec. reflexivity. Qed.

Lemma rec_code_unguarded k trust :
  trust <= 2 -> (k = KApply /\ 1 <= trust) \/ k = KReapplyRecs -> rec_code k trust = 0.
Proof.
  intros T H. assert (trust = 0 \/ trust = 1 \/ trust = 2) as Tc by lia.
  destruct H as [[-> L] | ->]; unfold rec_code; rewrite ?H_rec, ?H_rec_re;
    destruct Tc as [-> | [-> | ->]]; try reflexivity; lia.
Qed.

(* level 0: creating a record whose id exists answers SequencesViolation ... *)
Theorem create_existing_refused_proved now (st : store) (items : list item) (it : item) old :
  loads_ok now st items = true ->
  In it items -> it_new it = true -> get now st (it_pk it) (it_cc it) = Some old ->
  snd (run_recs (rec_code KApply 0) now st items) = RViolation.
Proof.
  intros L Hin Hn G. unfold run_recs. rewrite L. cbn [negb]. rewrite rec_code_apply0.
  destruct items as [|h r]; [destruct Hin|]. change (1 <? 1) with false. cbn iota.
  apply (write_violation _ now (h :: r) st it Hin);
    [unfold rec_cond; rewrite (batch_new_of_new _ Hn); reflexivity | eapply found_some; eauto].
Qed.

(* ... and the stored row is intact bit for bit, whatever else the event writes, unless the same
   event also updates that very record *)
Theorem existing_entry_intact_proved now (st : store) (items : list item) pk cc :
  get now st pk cc <> None ->
  (forall it, In it items -> key it = (pk, cc) -> it_new it = true) ->
  raw_lookup (fst (run_recs (rec_code KApply 0) now st items)) pk cc = raw_lookup st pk cc.
Proof.
  intros G Hall. unfold run_recs. destruct (negb (loads_ok now st items)); [reflexivity|].
  rewrite rec_code_apply0. destruct items as [|h r]; [reflexivity|]. change (1 <? 1) with false. cbn iota.
  apply write_keeps_guarded; [exact G|]. intros it Hin Hk. unfold rec_cond. rewrite (batch_new_of_new _ (Hall it Hin Hk)). reflexivity.
Qed.

(* every level and re-apply: when no guarded row aims at an existing record (in particular: an
   event that only updates), the call succeeds and every record reads back as written *)
Theorem apply_succeeds_proved k trust now (st : store) (items : list item) :
  k = KApply \/ k = KReapplyRecs -> trust <= 2 ->
  loads_ok now st items = true -> NoDup (map key items) ->
  (forall it, In it items -> stale_new it = false) ->
  (forall it, In it items -> protected trust k (it_new it) = true -> found now st it = false) ->
  snd (run_recs (rec_code k trust) now st items) = ROk /\
  forall it, In it items -> get now (fst (run_recs (rec_code k trust) now st items)) (it_pk it) (it_cc it) = Some (it_val it).
Proof.
  intros K T L ND Hclean Hfree. unfold run_recs. rewrite L. cbn [negb].
  destruct items as [|h r]; [split; [reflexivity|intros it []]|].
  assert (Tb : (trust <=? 2) = true) by (apply N.leb_le; exact T).
  destruct (rec_code_table k trust Tb) as [NP Tab]; [destruct K as [-> | ->]; exact I|].
  rewrite NP. apply write_all_ok; [exact ND|].
  intros it Hin C. apply Hfree; [exact Hin|]. rewrite <- Tab. unfold rec_cond in C. rewrite (batch_new_is_new _ (Hclean it Hin)) in C. exact C.
Qed.

Corollary updates_always_succeed_proved k trust now (st : store) (items : list item) :
  k = KApply \/ k = KReapplyRecs -> trust <= 2 ->
  loads_ok now st items = true -> NoDup (map key items) ->
  (forall it, In it items -> stale_new it = false) ->
  (forall it, In it items -> it_new it = false) ->
  snd (run_recs (rec_code k trust) now st items) = ROk /\
  forall it, In it items -> get now (fst (run_recs (rec_code k trust) now st items)) (it_pk it) (it_cc it) = Some (it_val it).
Proof.
  intros K T L ND Hclean Hupd. apply apply_succeeds_proved; auto.
  intros it Hin P. rewrite (Hupd it Hin) in P. destruct K as [-> | ->]; cbn in P; [|discriminate].
  rewrite andb_false_r in P. discriminate.
Qed.

(* levels 1 and 2 and re-apply: the batch is one PutBatch - existing records are overwritten *)
Theorem apply_unguarded_overwrites_proved k trust now (st : store) (items : list item) :
  trust <= 2 -> (k = KApply /\ 1 <= trust) \/ k = KReapplyRecs ->
  loads_ok now st items = true ->
  run_recs (rec_code k trust) now st items = (put_batch st (rows items), ROk).
Proof.
  intros T H L. unfold run_recs. rewrite L. cbn [negb]. rewrite (rec_code_unguarded k trust T H).
  destruct items as [|h r]; [reflexivity|]. change (1 <? 0) with false. cbn iota.
  rewrite <- write_items_put_batch with (now := now). f_equal.
Qed.

(* records the event does not mention are never touched *)
Theorem apply_frame_proved code now (st : store) (items : list item) pk cc :
  (forall it, In it items -> key it <> (pk, cc)) ->
  raw_lookup (fst (run_recs code now st items)) pk cc = raw_lookup st pk cc.
Proof.
  intros Hall. unfold run_recs. destruct (negb (loads_ok now st items)); [reflexivity|].
  destruct items as [|h r]; [reflexivity|]. destruct (1 <? code); [reflexivity|].
  apply write_frame. exact Hall.
Qed.

(* a re-read update whose record is gone is answered before anything is written *)
Theorem apply_missing_update_proved code now (st : store) (items : list item) :
  loads_ok now st items = false -> run_recs code now st items = (st, RNotFound).
Proof. intros L. unfold run_recs. rewrite L. reflexivity. Qed.

(* with newUpdateRec resetting the flag the restriction to "clean" rows is void *)
Corollary updates_always_succeed_full_proved k trust now (st : store) (items : list item) :
  c05_update_inherits_isnew = false ->
  k = KApply \/ k = KReapplyRecs -> trust <= 2 ->
  loads_ok now st items = true -> NoDup (map key items) ->
  (forall it, In it items -> it_new it = false) ->
  snd (run_recs (rec_code k trust) now st items) = ROk /\
  forall it, In it items -> get now (fst (run_recs (rec_code k trust) now st items)) (it_pk it) (it_cc it) = Some (it_val it).
Proof.
  intros E K T L ND Hupd. apply updates_always_succeed_proved; try assumption; intros it _; apply stale_new_off; exact E.
Qed.

Corollary link_full_proved (t : gtrace V) :
  (c05_update_inherits_isnew = false /\ c05_refused_plog_marks_stored = false /\ c05_failed_plog_marks_stored = false
   /\ c05_reapply_wlog_raises_level = false)
  \/ gclean t = true ->
  gagrees stamp veqb t = true -> gsatisfies stamp veqb t = true.
Proof. intros [[E [E1 [E2 E3]]] | C]; apply link_proved; [apply gclean_off; assumption | exact C]. Qed.

Corollary link_but_failed_proved (t : gtrace V) :
  c05_update_inherits_isnew = false -> c05_refused_plog_marks_stored = false -> c05_reapply_wlog_raises_level = false ->
  c05_failed_plog_marks_stored = false \/ no_failed_reapply t = true ->
  gagrees stamp veqb t = true -> gsatisfies stamp veqb t = true.
Proof.
  intros E E1 E3 [E2 | NF]; apply link_proved; [apply gclean_off | apply gclean_but_failed]; assumption.
Qed.

(* GetEventReapplier refuses an event object that is not marked as stored: nothing is written *)
Lemma unstored_event_not_reappliable_proved trust now (st : store) (s : step) :
  (s_mode s =? 0) = false -> (s_mode s =? 3) = false -> window_mode (s_mode s) = false -> is_reapply (s_kind s) = true ->
  reapplier_accepts (s_mode s) = false ->
  run_step trust now st s = Some (st, RPanic, []).
Proof. intros M0 M3 W K A. unfold run_step. rewrite M0, W, M3, K, A. reflexivity. Qed.

(* the trust level a step runs at is the configured one, also while re-appliers are at work *)
Lemma eff_trust_id : c05_reapply_wlog_raises_level = false -> forall trust m, eff_trust trust m = trust.
Proof. intros E trust m. unfold eff_trust. rewrite E, andb_false_r. reflexivity. Qed.

Lemma refused_event_not_reappliable_proved :
  c05_refused_plog_marks_stored = false ->
  forall trust now (st : store) (s : step), s_mode s = 1 -> is_reapply (s_kind s) = true ->
  run_step trust now st s = Some (st, RPanic, []).
Proof.
  intros E trust now st s M K. apply unstored_event_not_reappliable_proved; rewrite ?M;
    [reflexivity | reflexivity | reflexivity | exact K | unfold reapplier_accepts; cbn; exact E].
Qed.

Lemma failed_event_not_reappliable_proved :
  c05_failed_plog_marks_stored = false ->
  forall trust now (st : store) (s : step), s_mode s = 2 -> is_reapply (s_kind s) = true ->
  run_step trust now st s = Some (st, RPanic, []).
Proof.
  intros E trust now st s M K. apply unstored_event_not_reappliable_proved; rewrite ?M;
    [reflexivity | reflexivity | reflexivity | exact K | unfold reapplier_accepts; cbn; exact E].
Qed.

End Engine.

(* While ICUD.Update inherits the isNew flag of the record object it is given, "updates of existing
   records succeed" is false at level 0 for an update built from such an object (finding F-A). *)
Lemma updates_succeed_full_refuted_proved :
  c05_update_inherits_isnew = true ->
  exists (now : Z) (st : store N) (items : list (item N)),
    loads_ok now st items = true /\ NoDup (map key items) /\
    (forall it, In it items -> it_new it = false /\ found now st it = true) /\
    snd (run_recs (rec_code KApply 0) now st items) = RViolation.
Proof.
  intros H. unfold c05_update_inherits_isnew in H.
  first
    [ discriminate H
    | exists 0%Z, (put [] [1] [2] 7), [mkItem [1] [2] 1 false true false 8];
      split; [reflexivity|]; split; [repeat constructor; intros []|];
      split; [intros it [<-|[]]; split; reflexivity | vm_compute; reflexivity] ].
Qed.

(* While PutPlog marks an event as stored although its storage write failed, such an event is accepted by
   GetEventReapplier and its ApplyRecords overwrites an existing record at level 0 (finding P-D). *)
Lemma failed_event_reappliable_refuted_proved :
  c05_failed_plog_marks_stored = true ->
  exists (st st' : store N) (s : step N) cs,
    s_mode s = 2 /\ s_kind s = KReapplyRecs /\
    run_step 0 0%Z st s = Some (st', ROk, cs) /\
    get 0%Z st [1] [2] = Some 7 /\ get 0%Z st' [1] [2] = Some 8.
Proof.
  intros H. unfold c05_failed_plog_marks_stored in H.
  first
    [ discriminate H
    | exists (put [] [1] [2] 7), (put (put [] [1] [2] 7) [1] [2] 8),
        (mkStep KReapplyRecs 2 false [mkSlot (mkItem [1] [2] 1 true false false 8) false (mkObs None None None) (mkObs None None None)] ROk []),
        [CBatch [([1], [2], 8)]];
      repeat split; vm_compute; reflexivity ].
Qed.

(* Had the re-applier written its WLog entry through PutWlog under a raised SHARED trust level (seed c05-8), a
   guarded append issued by another partition while that write is in flight would run at level 2 and replace
   an occupied PLog offset at level 0. *)
Lemma window_raises_level_refuted_proved :
  c05_reapply_wlog_raises_level = true ->
  exists (st st' : store N) (s : step N) cs,
    s_mode s = 4 /\ s_kind s = KPlog /\
    run_step 0 0%Z st s = Some (st', ROk, cs) /\
    get 0%Z st [1] [2] = Some 7 /\ get 0%Z st' [1] [2] = Some 8.
Proof.
  intros H. unfold c05_reapply_wlog_raises_level in H.
  first
    [ discriminate H
    | exists (put [] [1] [2] 7), (put (put [] [1] [2] 7) [1] [2] 8),
        (mkStep KPlog 4 false [mkSlot (mkItem [1] [2] 0 true false false 8) false (mkObs None None None) (mkObs None None None)] ROk []),
        [CPut [1] [2] 8];
      repeat split; vm_compute; reflexivity ].
Qed.
