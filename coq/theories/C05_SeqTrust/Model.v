(* C05 - log entries and newly created records are never silently overwritten.

   Executable model of the writers of pkg/istructsmem/impl.go over the reference storage
   (Storage/Spec.v):
     PutPlog / PutWlog        one row; Put or InsertIfNotExists chosen by the switch arms
     putRecordsBatch          PutBatch of all rows, or per record: InsertIfNotExists for new
                              records (stops at the first refusal), Put for updates
     apply2                   loads the stored record of every update of a re-read event first
                              (ErrIDNotFound before anything is written), then putRecordsBatch
     implIEventReapplier      PutWLog = storage.Put; ApplyRecords = apply2 with isReapply
   Which operation a trust level selects is NOT written here: it is the table the translator
   extracts from the switch arms (Gen/Params.v: c05_*_ops; 0 = Put/PutBatch, 1 = conditional
   insert answered with ErrSequencesViolation, 2 = no arm, the default panic).
   Values are abstract (event / record bytes are produced by the dynobuffers codec, C02/C03).
   Definitions only; proofs are in Proofs.v. *)
From Coq Require Import List NArith ZArith Bool Lia.
From V Require Import Lib.Lex Lib.SMap Lib.Check Storage.Spec Gen.Params.
Import ListNotations.
Local Open Scope N_scope.

Inductive res := ROk | RViolation | RNotFound | RPanic | ROther.
(* the five writers of the property + a set-up step of the harness (raw delete of a record row) *)
(* KForeign: ANOTHER writer on the shared storage (a second node with its own istoragecache, below the
   cache of the node under test) stored these rows *)
Inductive skind := KPlog | KWlog | KApply | KReapplyRecs | KReapplyWlog | KRawDel | KForeign.

Definition res_eqb (a b : res) : bool :=
  match a, b with
  | ROk, ROk | RViolation, RViolation | RNotFound, RNotFound | RPanic, RPanic | ROther, ROther => true
  | _, _ => false
  end.

(* ---- the decision tables taken from the Go source ---- *)
Definition code_at (tbl : list N) (trust : N) : N := nth (N.to_nat trust) tbl 2.

Definition log_code (k : skind) (trust : N) (corrupted : bool) : N :=
  match k with
  | KPlog => code_at (if corrupted then c05_plog_corrupted_ops else c05_plog_ops) trust
  | KWlog => code_at (if corrupted then c05_wlog_corrupted_ops else c05_wlog_ops) trust
  | KReapplyWlog => c05_reapply_wlog_op
  | _ => 2
  end.

Definition rec_code (k : skind) (trust : N) : N :=
  match k with
  | KApply => code_at c05_rec_ops trust
  | KReapplyRecs => code_at c05_rec_reapply_ops trust
  | _ => 2
  end.

Section Model.
Context {V : Type}.
Notation store := (store V).

(* one row to be written: its storage key, whether it is a new record (rec.isNew; logs: true),
   whether apply2 has to load the stored record first (update of a re-read event), the bytes *)
(* it_kind: what kind of record the row is - 0 log entry, 1 CDoc, 2 singleton CDoc, 3 WDoc,
   4 singleton WDoc, 5 CRecord, 6 WRecord (nested records under their parent document) *)
(* it_new: the row is a CUD create.  it_stale: the row is an update built by ICUD.Update from a record
   OBJECT whose isNew flag is set (the object handed out for a created row, e.g. by the Apply2 callback)
   instead of a record read from the storage. *)
Record item := mkItem { it_pk : bytes; it_cc : bytes; it_kind : N; it_new : bool; it_stale : bool; it_load : bool; it_val : V }.

(* apply2's `store` closure hands rec.isNew on to putRecordsBatch; the translator extracts for which
   record kinds (if any) it clears the flag first (Gen/Params.c05_store_put_kinds; now: none) *)
Definition store_as_update (it : item) : bool := existsb (N.eqb (it_kind it)) c05_store_put_kinds.
(* newUpdateRec copies the record object given to ICUD.Update, flag included (Gen/Params.c05_update_inherits_isnew):
   such an update row reaches putRecordsBatch as "new" *)
Definition stale_new (it : item) : bool := c05_update_inherits_isnew && it_stale it && negb (it_new it).
Definition batch_new (it : item) : bool := (it_new it || stale_new it) && negb (store_as_update it).

(* calls into IAppStorage as the recording wrapper sees them *)
Inductive call :=
| CPut (pk cc : bytes) (v : V)
| CIns (pk cc : bytes) (v : V) (ttl : Z) (ok : bool)
| CBatch (rows : list (bytes * bytes * V))
| CGet (pk cc : bytes) (found : bool)
| COther (code : N).

(* ---- the write engine: rows in order; `cond it` = this row goes through InsertIfNotExists ---- *)
Fixpoint write_items (cond : item -> bool) (now : Z) (st : store) (items : list item) : store * res :=
  match items with
  | [] => (st, ROk)
  | it :: r =>
      if cond it then
        match insert_if_not_exists now st (it_pk it) (it_cc it) (it_val it) c05_insert_ttl with
        | (st1, true) => write_items cond now st1 r
        | (_, false) => (st, RViolation)
        end
      else write_items cond now (put st (it_pk it) (it_cc it) (it_val it)) r
  end.

Fixpoint write_calls (cond : item -> bool) (now : Z) (st : store) (items : list item) : list call :=
  match items with
  | [] => []
  | it :: r =>
      if cond it then
        match insert_if_not_exists now st (it_pk it) (it_cc it) (it_val it) c05_insert_ttl with
        | (st1, true) => CIns (it_pk it) (it_cc it) (it_val it) c05_insert_ttl true :: write_calls cond now st1 r
        | (_, false) => [CIns (it_pk it) (it_cc it) (it_val it) c05_insert_ttl false]
        end
      else CPut (it_pk it) (it_cc it) (it_val it) :: write_calls cond now (put st (it_pk it) (it_cc it) (it_val it)) r
  end.

Definition log_cond (code : N) (_ : item) : bool := code =? 1.
Definition rec_cond (code : N) (it : item) : bool := (code =? 1) && batch_new it.

(* PutPlog / PutWlog / reapplier.PutWLog *)
Definition run_log (code : N) (now : Z) (st : store) (it : item) : store * res :=
  if 1 <? code then (st, RPanic) else write_items (log_cond code) now st [it].
Definition run_log_calls (code : N) (now : Z) (st : store) (it : item) : list call :=
  if 1 <? code then [] else write_calls (log_cond code) now st [it].

(* apply2: loads first *)
Definition found (now : Z) (st : store) (it : item) : bool :=
  match get now st (it_pk it) (it_cc it) with Some _ => true | None => false end.
(* only updates are loaded (creates of a re-read event are stored as they are) *)
(* applyRecs reads the stored record of every update (Gen/Params.c05_updates_always_load), or - older code - only
   of an update whose origin is empty (event read back from the log, it_load) *)
Definition needs_load (it : item) : bool := (c05_updates_always_load || it_load it) && negb (it_new it).
Definition loads_ok (now : Z) (st : store) (items : list item) : bool :=
  forallb (fun it => negb (needs_load it) || found now st it) items.
Fixpoint load_calls (now : Z) (st : store) (items : list item) : list call :=
  match items with
  | [] => []
  | it :: r =>
      if needs_load it then
        if found now st it then CGet (it_pk it) (it_cc it) true :: load_calls now st r
        else [CGet (it_pk it) (it_cc it) false]
      else load_calls now st r
  end.

Definition rows (items : list item) : list (bytes * bytes * V) :=
  map (fun it => (it_pk it, it_cc it, it_val it)) items.

(* code 0: one PutBatch = the rows put in order (Spec.put_batch, see Proofs.write_items_put_batch) *)
Definition run_recs (code : N) (now : Z) (st : store) (items : list item) : store * res :=
  if negb (loads_ok now st items) then (st, RNotFound) else
  match items with
  | [] => (st, ROk)
  | _ => if 1 <? code then (st, RPanic) else write_items (rec_cond code) now st items
  end.
Definition run_recs_calls (code : N) (now : Z) (st : store) (items : list item) : list call :=
  load_calls now st items ++
  (if negb (loads_ok now st items) then [] else
   match items with
   | [] => []
   | _ => if 1 <? code then [] else
          if code =? 1 then write_calls (rec_cond code) now st items else [CBatch (rows items)]
   end).

(* ---- observed traces ---- *)
Context (stamp : V -> N) (veqb : V -> V -> bool).

(* what is visible at a slot: raw Get through the storage stack istructsmem uses (top), raw Get on
   the backend under it (bottom), and the API read (ReadPLog / ReadWLog / Records.Get) reduced to
   the stamp the harness put into the event (RegisteredAt) or record (field) *)
Record obs := mkObs { o_top : option V; o_bot : option V; o_api : option N }.
(* sl_stale: another writer has touched this slot underneath the node's cache(s): what the node sees through
   istoragecache / its PLog cache is then legitimately out of date and only the raw bytes of the shared
   storage (o_bot) are compared and judged *)
Record slot := mkSlot { sl_it : item; sl_stale : bool; sl_before : obs; sl_after : obs }.
(* s_mode: 0 an ordinary step.
   1 / 2 (re-apply kinds): the event object handed to GetEventReapplier is NOT a stored event: its PutPlog was
         refused with SequencesViolation (1) or failed with a storage error (2).  The only guard of
         GetEventReapplier is the isStored mark; for which of these outcomes PutPlog sets it is extracted from
         the source (Gen/Params.c05_refused_plog_marks_stored, c05_failed_plog_marks_stored).
   3 (PutPlog): the harness makes the storage write fail before it has any effect.
   4: the step is issued (by another partition of the application) while a re-applier's WLog write is in flight;
   5: the step is issued after two re-appliers' WLog writes overlapped.
      If the re-applier writes through the regular PutWlog under a raised SHARED trust level
      (Gen/Params.c05_reapply_wlog_raises_level), such steps run at level 2; with the direct Put they do not. *)
Record step := mkStep { s_kind : skind; s_mode : N; s_corrupted : bool; s_slots : list slot; s_res : res; s_calls : list call }.
(* backend: 0 mem, 1 bbolt, 2 istoragecache over mem *)
Record gtrace := mkTrace { t_backend : N; t_trust : N; t_steps : list step }.

Definition items_of (s : step) : list item := map sl_it (s_slots s).

Definition run_step0 (trust : N) (now : Z) (st : store) (s : step) : option (store * res * list call) :=
  match s_kind s with
  | KPlog | KWlog | KReapplyWlog =>
      match items_of s with
      | [it] => let c := log_code (s_kind s) trust (s_corrupted s) in
                Some (run_log c now st it, run_log_calls c now st it)
      | _ => None
      end
  | KApply | KReapplyRecs =>
      let c := rec_code (s_kind s) trust in
      Some (run_recs c now st (items_of s), run_recs_calls c now st (items_of s))
  | KRawDel =>
      match items_of s with
      | [it] => Some (del_row st (it_pk it) (it_cc it), ROk, [])
      | _ => None
      end
  | KForeign => Some (put_batch st (rows (items_of s)), ROk, [])
  end.

Definition reapplier_accepts (mode : N) : bool :=
  if mode =? 0 then true else if mode =? 1 then c05_refused_plog_marks_stored
  else if mode =? 2 then c05_failed_plog_marks_stored else false.
Definition is_reapply (k : skind) : bool := match k with KReapplyRecs | KReapplyWlog => true | _ => false end.

Definition window_mode (m : N) : bool := (m =? 4) || (m =? 5).
Definition eff_trust (trust m : N) : N :=
  if window_mode m && c05_reapply_wlog_raises_level then 2 else trust.

Definition run_step (trust : N) (now : Z) (st : store) (s : step) : option (store * res * list call) :=
  if (s_mode s =? 0) || window_mode (s_mode s) then run_step0 (eff_trust trust (s_mode s)) now st s
  else if s_mode s =? 3 then match s_kind s with KPlog => Some (st, ROther, []) | _ => None end
  else if is_reapply (s_kind s) then
    (if reapplier_accepts (s_mode s) then run_step0 trust now st s else Some (st, RPanic, []))
  else None.

Definition obs_of (now : Z) (st : store) (it : item) : obs :=
  let g := get now st (it_pk it) (it_cc it) in mkObs g g (option_map stamp g).

Definition obs_eqb (a b : obs) : bool :=
  option_eqb veqb (o_top a) (o_top b) && option_eqb veqb (o_bot a) (o_bot b) && option_eqb N.eqb (o_api a) (o_api b).

Definition row_eqb (a b : bytes * bytes * V) : bool :=
  lex_eqb (fst (fst a)) (fst (fst b)) && lex_eqb (snd (fst a)) (snd (fst b)) && veqb (snd a) (snd b).

Definition call_eqb (a b : call) : bool :=
  match a, b with
  | CPut p c v, CPut p' c' v' => lex_eqb p p' && lex_eqb c c' && veqb v v'
  | CIns p c v t o, CIns p' c' v' t' o' => lex_eqb p p' && lex_eqb c c' && veqb v v' && Z.eqb t t' && Bool.eqb o o'
  | CBatch r, CBatch r' => list_eqb row_eqb r r'
  | CGet p c f, CGet p' c' f' => lex_eqb p p' && lex_eqb c c' && Bool.eqb f f'
  | COther x, COther y => x =? y
  | _, _ => false
  end.

Definition obs_ok (stale : bool) (a b : obs) : bool :=
  if stale then option_eqb veqb (o_bot a) (o_bot b) else obs_eqb a b.

(* the model replays the step on its store and every observable must coincide *)
Definition check_step (trust : N) (now : Z) (st : store) (s : step) : option store :=
  match run_step trust now st s with
  | None => None
  | Some (st', r, cs) =>
      if forallb (fun sl => obs_ok (sl_stale sl) (sl_before sl) (obs_of now st (sl_it sl))
                            && obs_ok (sl_stale sl) (sl_after sl) (obs_of now st' (sl_it sl))) (s_slots s)
         && res_eqb (s_res s) r && list_eqb call_eqb (s_calls s) cs
      then Some st' else None
  end.

Fixpoint check_steps (trust : N) (now : Z) (st : store) (steps : list step) : bool :=
  match steps with
  | [] => true
  | s :: r => match check_step trust now st s with Some st' => check_steps trust now st' r | None => false end
  end.

Definition gagrees (t : gtrace) : bool := check_steps (t_trust t) 0%Z [] (t_steps t).

(* ---- the property oracle: judged on the observations only ---- *)

(* the reading of the statement (isequencer/consts.go): logs are guarded at levels 0 and 1, new
   records at level 0; updates, re-apply and level 2 are not *)
Definition protected (trust : N) (k : skind) (is_new : bool) : bool :=
  match k with
  | KPlog | KWlog => trust <? 2
  | KApply => (trust =? 0) && is_new
  | _ => false
  end.

(* occupied: judged on the raw bytes of the shared storage *)
Definition occupied (o : obs) : bool := match o_bot o with Some _ => true | None => false end.
Definition written (it : item) : obs := mkObs (Some (it_val it)) (Some (it_val it)) (Some (stamp (it_val it))).

Definition key_eqb (a b : item) : bool := lex_eqb (it_pk a) (it_pk b) && lex_eqb (it_cc a) (it_cc b).
Fixpoint nodup_keys (items : list item) : bool :=
  match items with
  | [] => true
  | it :: r => negb (existsb (key_eqb it) r) && nodup_keys r
  end.
Definition key_count (it : item) (items : list item) : nat := length (filter (key_eqb it) items).

Definition refused (trust : N) (k : skind) (sl : slot) : bool :=
  protected trust k (it_new (sl_it sl)) && occupied (sl_before sl).

(* Domain: trust level 0..2, not a sys.Corrupted event (those are written with Put by design),
   every update targets an existing record. *)
Definition in_domain (trust : N) (s : step) : bool :=
  negb (s_corrupted s) && (trust <=? 2)
  && forallb (fun sl => it_new (sl_it sl) || occupied (sl_before sl)) (s_slots s).

(* - some guarded write hits an occupied slot: the call must answer SequencesViolation and every
     such slot (not also written by another row of the same batch) must read exactly as before;
   - otherwise (rows with pairwise different keys): the call must succeed and every slot must
     read back the bytes written. *)
Definition judge (trust : N) (k : skind) (slots : list slot) (r : res) : bool :=
  if existsb (refused trust k) slots then
    res_eqb r RViolation
    && forallb (fun sl => negb (refused trust k sl && Nat.eqb (key_count (sl_it sl) (map sl_it slots)) 1)
                          || obs_ok (sl_stale sl) (sl_after sl) (sl_before sl)) slots
  else if nodup_keys (map sl_it slots) then
    res_eqb r ROk && forallb (fun sl => obs_ok (sl_stale sl) (sl_after sl) (written (sl_it sl))) slots
  else true.

Definition satisfies_step0 (trust : N) (s : step) : bool :=
  match s_kind s with
  | KRawDel | KForeign => true
  | k => if in_domain trust s then judge trust k (s_slots s) (s_res s) else true
  end.

(* an event that is not in the PLog is not a recovery re-apply: whatever GetEventReapplier and the re-applier
   answer for it, the occupied slots its writes would be guarded at as ordinary writes must stay intact *)
Definition guarded_unstored (trust : N) (k : skind) (is_new : bool) : bool :=
  match k with
  | KReapplyWlog => trust <? 2
  | KReapplyRecs => (trust =? 0) && is_new
  | _ => false
  end.

Definition satisfies_step (trust : N) (s : step) : bool :=
  if (s_mode s =? 0) || window_mode (s_mode s) then satisfies_step0 trust s
  else if s_mode s =? 3 then true
  else forallb (fun sl => negb (guarded_unstored trust (s_kind s) (it_new (sl_it sl)) && occupied (sl_before sl))
                          || obs_ok (sl_stale sl) (sl_after sl) (sl_before sl)) (s_slots s).

Definition gsatisfies (t : gtrace) : bool := forallb (satisfies_step (t_trust t)) (t_steps t).

(* no update row of the trace inherits a set isNew flag (what the link theorem needs while
   c05_update_inherits_isnew holds; see Properties/C05.v) *)
Definition clean_step (s : step) : bool :=
  forallb (fun sl => negb (stale_new (sl_it sl))) (s_slots s)
  && ((s_mode s =? 0) || (s_mode s =? 3)
      || (if window_mode (s_mode s) then negb c05_reapply_wlog_raises_level else negb (reapplier_accepts (s_mode s)))).
Definition gclean (t : gtrace) : bool := forallb clean_step (t_steps t).
(* no step re-applies an event whose PutPlog failed with a storage error (finding P-D) *)
Definition no_failed_reapply (t : gtrace) : bool := forallb (fun s => negb (s_mode s =? 2)) (t_steps t).

End Model.

Arguments item : clear implicits.
Arguments call : clear implicits.
Arguments obs : clear implicits.
Arguments slot : clear implicits.
Arguments step : clear implicits.
Arguments gtrace : clear implicits.

(* ---- traces of the harness: a value is (interned byte string, stamp) ---- *)
Definition val := (N * N)%type.
Definition val_eqb (a b : val) : bool := (fst a =? fst b) && (snd a =? snd b).
Definition trace := gtrace val.
Definition agrees (t : trace) : bool := gagrees (@snd N N) val_eqb t.
Definition satisfies (t : trace) : bool := gsatisfies (@snd N N) val_eqb t.
Definition clean (t : trace) : bool := gclean t.
