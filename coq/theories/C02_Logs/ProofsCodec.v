(* C02 - proofs about the event envelope codec: every decoder only ever looks at a prefix of its
   input (extension stability), decoding an encoding gives back the event and consumes exactly the
   encoding, hence every proper prefix of an encoding is rejected. *)
From Coq Require Import List NArith ZArith Lia Bool.
From V Require Import Lib.Lex Lib.Check Gen.Params C02_Logs.Model C02_Logs.ProofsLog.
Import ListNotations.
Local Open Scope N_scope.

(* ---------- extension stability ---------- *)
(* p' on an extended input behaves like p on the input: same value, the extension is left over *)
Definition ext_rel {A} (p p' : parser A) : Prop :=
  forall b x r ext, p b = Some (x, r) -> p' (b ++ ext) = Some (x, r ++ ext).
Definition ext_stable {A} (p : parser A) : Prop := ext_rel p p.

Lemma ext_none {A} (p' : parser A) : ext_rel (fun _ => None) p'.
Proof. intros b x r ext H. discriminate. Qed.

Lemma ext_ret {A} (x : A) : ext_rel (fun b => Some (x, b)) (fun b => Some (x, b)).
Proof. intros b y r ext H. inversion H; subst. reflexivity. Qed.

Lemma ext_bind {A B} (p p' : parser A) (k k' : A -> parser B) :
  ext_rel p p' -> (forall a, ext_rel (k a) (k' a)) ->
  ext_rel (fun b => bind (p b) k) (fun b => bind (p' b) k').
Proof.
  intros Hp Hk b x r ext H. unfold bind in *.
  destruct (p b) as [[a b1]|] eqn:E; [|discriminate].
  rewrite (Hp _ _ _ ext E). apply Hk. exact H.
Qed.

Lemma ext_if {A} (c : bool) (p1 p1' p2 p2' : parser A) :
  ext_rel p1 p1' -> ext_rel p2 p2' -> ext_rel (fun b => if c then p1 b else p2 b) (fun b => if c then p1' b else p2' b).
Proof. intros H1 H2. destruct c; assumption. Qed.

Lemma take_ext w : ext_stable (take w).
Proof.
  induction w as [|w IH]; intros b x r ext H; cbn [take] in *.
  - inversion H; subst. reflexivity.
  - destruct b as [|y b']; [discriminate|]. cbn [app].
    destruct (take w b') as [[a r']|] eqn:E; [|discriminate].
    rewrite (IH _ _ _ ext E). inversion H; subst. reflexivity.
Qed.

Lemma take_n_ext n : ext_stable (take_n n).
Proof.
  intros b x r ext H. unfold take_n in *.
  destruct (N.ltb_spec (N.of_nat (length b)) n) as [L|L]; [discriminate|].
  rewrite app_length. destruct (N.ltb_spec (N.of_nat (length b + length ext)) n) as [L'|L']; [lia|].
  apply take_ext. exact H.
Qed.

Lemma rdn_ext w : ext_stable (rdn w).
Proof.
  intros b x r ext H. unfold rdn in *. destruct (take w b) as [[a r']|] eqn:E; [|discriminate].
  rewrite (take_ext w _ _ _ ext E). inversion H; subst. reflexivity.
Qed.

Lemma rd_bool_ext : ext_stable rd_bool.
Proof.
  intros b x r ext H. unfold rd_bool in *. destruct (rdn 1 b) as [[a r']|] eqn:E; [|discriminate].
  rewrite (rdn_ext 1 _ _ _ ext E). inversion H; subst. reflexivity.
Qed.

Lemma opt_rd_ext c w : ext_stable (opt_rd c w).
Proof. unfold opt_rd. destruct c; [apply rdn_ext|apply ext_ret]. Qed.

Lemma rd_str_ext : ext_stable rd_str.
Proof. unfold rd_str. apply ext_bind; [apply rdn_ext|intros n; apply take_n_ext]. Qed.

Lemma rep_ext {A} (p p' : parser A) n : ext_rel p p' -> ext_rel (rep p n) (rep p' n).
Proof.
  intros Hp. induction n as [|n IH]; intros b xs r ext H; cbn [rep] in *.
  - inversion H; subst. reflexivity.
  - destruct (p b) as [[x b1]|] eqn:E; [|discriminate]. rewrite (Hp _ _ _ ext E).
    destruct (rep p n b1) as [[ys b2]|] eqn:E2; [|discriminate]. rewrite (IH _ _ _ ext E2).
    inversion H; subst. reflexivity.
Qed.

Ltac ext_steps :=
  repeat first
    [ apply ext_none
    | apply ext_ret
    | apply rdn_ext | apply rd_bool_ext | apply opt_rd_ext | apply rd_str_ext | apply take_n_ext
    | apply ext_bind; [|intro]
    | match goal with |- ext_rel (fun b => if ?c then _ else _) _ => destruct c end ].

Lemma dec_row_ext s v : ext_stable (dec_row s v).
Proof. unfold ext_stable, dec_row. ext_steps. Qed.

Lemma dec_obj_ext s v : forall f f', (f <= f')%nat -> ext_rel (dec_obj f s v) (dec_obj f' s v).
Proof.
  induction f as [|f IH]; intros f' Hf.
  - intros b x r ext H. discriminate.
  - destruct f' as [|f']; [lia|]. cbn [dec_obj].
    apply ext_bind; [apply dec_row_ext|intros r].
    destruct (r_qid r =? 0); [apply ext_ret|].
    apply ext_bind; [apply rdn_ext|intros cnt].
    apply ext_bind; [apply rep_ext; apply IH; lia|intros ks]. apply ext_ret.
Qed.

Lemma dec_cud_ext s v : ext_stable (dec_cud s v).
Proof.
  unfold ext_stable, dec_cud.
  apply ext_bind; [apply dec_row_ext|intros r].
  destruct (v <? c02_codec_emptied_since); [apply ext_ret|].
  apply ext_bind; [apply rdn_ext|intros cnt].
  intros b x r' ext H.
  destruct (N.ltb_spec (nlen b) (2 * cnt)) as [L|L]; [discriminate|].
  unfold nlen in *. rewrite app_length.
  destruct (N.ltb_spec (N.of_nat (length b + length ext)) (2 * cnt)) as [L'|L']; [lia|].
  revert b x r' ext H L L'. intros b x r' ext H _ _. revert b x r' ext H.
  apply ext_bind; [|intros es; apply ext_ret].
  apply rep_ext. apply ext_bind; [apply rdn_ext|intros i]. destruct (s_emptied s (r_qid r) i); [apply ext_ret|apply ext_none].
Qed.

Lemma dec_error_ext s : ext_stable (dec_error s).
Proof. unfold ext_stable, dec_error. ext_steps. Qed.

Lemma dec_event_ext s f f' : (f <= f')%nat -> ext_rel (dec_event s f) (dec_event s f').
Proof.
  intros Hf. unfold dec_event.
  apply ext_bind; [apply rdn_ext|intros v].
  destruct (c02_codec_last <? v); [apply ext_none|].
  apply ext_bind; [apply rdn_ext|intros q].
  destruct (negb (s_qname s q)); [apply ext_none|].
  destruct (q =? 0); [apply ext_ret|].
  do 6 (apply ext_bind; [first [apply rdn_ext|apply rd_bool_ext]|intro]).
  do 2 (apply ext_bind; [apply opt_rd_ext|intro]).
  apply ext_bind; [apply rd_bool_ext|intros valid].
  apply ext_bind; [destruct valid; [apply ext_ret|apply dec_error_ext]|intros [[es en] bs]].
  destruct ((q =? c02_qid_corrupted) || negb valid); [apply ext_ret|].
  do 2 (apply ext_bind; [apply dec_obj_ext; exact Hf|intro]).
  apply ext_bind; [apply rdn_ext|intro].
  apply ext_bind; [apply rep_ext; apply dec_cud_ext|intro].
  apply ext_bind; [apply rdn_ext|intro].
  apply ext_bind; [apply rep_ext; apply dec_cud_ext|intro].
  apply ext_ret.
Qed.

(* ---------- decoding an encoding ---------- *)
Lemma take_app w : forall a r, length a = w -> take w (a ++ r) = Some (a, r).
Proof.
  induction w as [|w IH]; intros a r H.
  - destruct a; [reflexivity|discriminate].
  - destruct a as [|x a]; [discriminate|]. cbn [app take]. rewrite IH by (cbn in H; lia). reflexivity.
Qed.

Lemma take_n_app a r : take_n (nlen a) (a ++ r) = Some (a, r).
Proof.
  unfold take_n, nlen. rewrite app_length.
  destruct (N.ltb_spec (N.of_nat (length a + length r)) (N.of_nat (length a))) as [L|L]; [lia|].
  rewrite Nat2N.id. apply take_app. reflexivity.
Qed.

Lemma rdn_be w n r : n < 256 ^ N.of_nat w -> rdn w (be w n ++ r) = Some (n, r).
Proof.
  intros H. unfold rdn, be. rewrite take_app by apply be_bytes_length. rewrite be_val_be by assumption. reflexivity.
Qed.

Lemma rd_bool_cons x r : rd_bool (x :: r) = Some (negb (x =? 0), r).
Proof. reflexivity. Qed.

Lemma rd_bool_b2n x r : rd_bool (b2n x :: r) = Some (x, r).
Proof. rewrite rd_bool_cons. destruct x; reflexivity. Qed.

Lemma cut_str_len (s : bytes) : nlen (cut_str s) < 65536.
Proof.
  unfold cut_str. change c02_short_string_max with 65535.
  destruct (N.ltb_spec (nlen s) 65535) as [L|L]; [lia|].
  unfold nlen in *. rewrite firstn_length. lia.
Qed.

Lemma cut_str_short (s : bytes) : nlen s <= 65535 -> cut_str s = s.
Proof.
  intros H. unfold cut_str. change c02_short_string_max with 65535.
  destruct (N.ltb_spec (nlen s) 65535) as [L|L]; [reflexivity|]. apply firstn_all2. unfold nlen in *. lia.
Qed.

(* a string of any length reads back cut to 65535 bytes *)
Lemma rd_str_enc (s r : bytes) : rd_str (enc_str s ++ r) = Some (cut_str s, r).
Proof.
  unfold rd_str, enc_str. rewrite <- app_assoc.
  rewrite rdn_be by (pose proof (cut_str_len s); cbn; lia). cbn [bind]. apply take_n_app.
Qed.

Lemma rep_enc {A B} (p : parser B) (enc : A -> bytes) (g : A -> B) (xs : list A) r :
  Forall (fun x => forall r', p (enc x ++ r') = Some (g x, r')) xs ->
  rep p (length xs) (flat_map enc xs ++ r) = Some (map g xs, r).
Proof.
  induction 1 as [|x xs Hx Hxs IH]; cbn [length rep flat_map map app]; [reflexivity|].
  rewrite <- app_assoc. rewrite Hx. rewrite IH. reflexivity.
Qed.

Definition wf_row (s : schema) (r : row) : Prop :=
  r_qid r < 65536 /\ s_qname s (r_qid r) = true /\
  (if r_qid r =? 0 then r = null_row
   else r_id r < 2 ^ 64 /\ r_parent r < 2 ^ 64 /\ r_cont r < 65536 /\
        (r_cont r <> 0 -> s_cont s (r_cont r) = true) /\ nlen (r_data r) < 2 ^ 32).

Lemma carries_true : c02_mask_carries_actmod = true.
Proof. reflexivity. Qed.

Lemma has_mask r :
  has (mask_of r) c02_sfm_id = negb (r_id r =? 0) /\ has (mask_of r) c02_sfm_parent = negb (r_parent r =? 0) /\
  has (mask_of r) c02_sfm_container = negb (r_cont r =? 0) /\ has (mask_of r) c02_sfm_active = negb (r_active r) /\
  mask_of r < 65536 /\ has (mask_of r) c02_sfm_actmod = r_mod r.
Proof.
  unfold mask_of, mask_of_old, has.
  destruct (r_id r =? 0), (r_parent r =? 0), (r_cont r =? 0), (r_active r), (r_mod r); repeat split; reflexivity.
Qed.

(* the mask written before 35e511a40 never has the bit *)
Lemma has_mask_old r :
  has (mask_of_old r) c02_sfm_id = negb (r_id r =? 0) /\ has (mask_of_old r) c02_sfm_parent = negb (r_parent r =? 0) /\
  has (mask_of_old r) c02_sfm_container = negb (r_cont r =? 0) /\ has (mask_of_old r) c02_sfm_active = negb (r_active r) /\
  mask_of_old r < 65536 /\ has (mask_of_old r) c02_sfm_actmod = false.
Proof.
  unfold mask_of_old, has.
  destruct (r_id r =? 0), (r_parent r =? 0), (r_cont r =? 0), (r_active r); repeat split; reflexivity.
Qed.

Ltac rd_step := rewrite <- ?app_assoc; rewrite rdn_be by (cbn; lia); cbn [bind].

Lemma dec_row_enc_with (mask : row -> N) (md : row -> bool) s v r rest :
  (forall r, has (mask r) c02_sfm_id = negb (r_id r =? 0) /\ has (mask r) c02_sfm_parent = negb (r_parent r =? 0) /\
             has (mask r) c02_sfm_container = negb (r_cont r =? 0) /\ has (mask r) c02_sfm_active = negb (r_active r) /\
             mask r < 65536 /\ has (mask r) c02_sfm_actmod = md r) ->
  v <> 0 -> wf_row s r ->
  dec_row s v (enc_row_with mask r ++ rest) =
  Some (mkRow (r_qid r) (r_id r) (r_parent r) (r_cont r) (r_active r) (r_data r) (if r_qid r =? 0 then false else md r) [], rest).
Proof.
  intros HM Hv [Hq [Hk Hr]]. unfold dec_row, enc_row_with.
  destruct (HM r) as (M1 & M2 & M3 & M4 & M5 & M6).
  destruct r as [q id par cont act data mdf nl]. cbn [r_qid r_id r_parent r_cont r_active r_data r_mod r_nils] in *.
  rd_step. rewrite Hk. cbn [negb].
  destruct (N.eqb_spec q 0) as [E|E].
  - inversion Hr; subst. reflexivity.
  - destruct Hr as (Hid & Hpar & Hcont & Hc & Hlen).
    destruct (N.eqb_spec v 0) as [E0|_]; [contradiction|].
    rd_step. rewrite M1, M2, M3, M4, M6. change c02_mask_carries_actmod with true. cbn [andb]. unfold opt_rd.
    destruct (N.eqb_spec id 0) as [I|I]; cbn [negb app bind]; [subst id|rd_step];
    (destruct (N.eqb_spec par 0) as [P|P]; cbn [negb app bind]; [subst par|rd_step]);
    (destruct (N.eqb_spec cont 0) as [C|C]; cbn [negb app bind andb]; [subst cont|rd_step; rewrite (Hc C); cbn [negb andb]]);
    (destruct act; cbn [negb app bind]; [|rewrite rd_bool_cons; cbn [bind N.eqb negb]]);
    rd_step; rewrite take_n_app; reflexivity.
Qed.

Lemma dec_row_enc s v r rest : v <> 0 -> wf_row s r -> dec_row s v (enc_row r ++ rest) = Some (drop_nils_row r, rest).
Proof.
  intros Hv W. unfold enc_row. rewrite (dec_row_enc_with mask_of r_mod s v r rest has_mask Hv W).
  destruct W as [_ [_ Hr]]. destruct (N.eqb_spec (r_qid r) 0) as [E|E].
  - rewrite Hr. reflexivity.
  - destruct r; reflexivity.
Qed.

(* a row written with the old mask decodes with the mark cleared: old rows stay readable, and the
   old writer loses the mark *)
Lemma dec_row_enc_old s v r rest : v <> 0 -> wf_row s r ->
  dec_row s v (enc_row_with mask_of_old r ++ rest) = Some (clear_row (drop_nils_row r), rest).
Proof.
  intros Hv W. rewrite (dec_row_enc_with mask_of_old (fun _ => false) s v r rest has_mask_old Hv W).
  destruct (r_qid r =? 0); reflexivity.
Qed.

Inductive wf_obj (s : schema) : obj -> Prop :=
| wf_Obj r ks : wf_row s r -> (r_qid r = 0 -> ks = []) -> nlen ks < 65536 -> Forall (wf_obj s) ks -> wf_obj s (Obj r ks).

Fixpoint depth (o : obj) : nat :=
  match o with Obj _ ks => S (fold_right (fun k m => Nat.max (depth k) m) O ks) end.

Fixpoint obj_ind2 (P : obj -> Prop) (H : forall r ks, Forall P ks -> P (Obj r ks)) (o : obj) : P o :=
  match o with
  | Obj r ks => H r ks ((fix go (l : list obj) : Forall P l :=
                           match l with [] => Forall_nil P | x :: t => Forall_cons x (obj_ind2 P H x) (go t) end) ks)
  end.

Lemma depth_kid k ks : In k ks -> (depth k <= fold_right (fun k m => Nat.max (depth k) m) O ks)%nat.
Proof.
  induction ks as [|x t IH]; intros H; [contradiction|]. cbn [fold_right].
  destruct H as [->|H]; [lia|]. specialize (IH H). lia.
Qed.

Lemma dec_obj_enc s v : v <> 0 -> forall o, wf_obj s o -> forall f rest, (depth o <= f)%nat ->
  dec_obj f s v (enc_obj o ++ rest) = Some (drop_nils_obj o, rest).
Proof.
  intros Hv. induction o as [r ks IH] using obj_ind2. intros W f rest Hd.
  inversion W as [r' ks' Wr Wn Wl Wk]; subst r' ks'.
  destruct f as [|f]; [cbn in Hd; lia|]. cbn [dec_obj enc_obj drop_nils_obj]. rewrite <- app_assoc.
  rewrite dec_row_enc by assumption. cbn [bind].
  change (r_qid (drop_nils_row r)) with (r_qid r).
  destruct (N.eqb_spec (r_qid r) 0) as [E|E].
  - rewrite (Wn E). reflexivity.
  - rd_step. unfold nlen. rewrite Nat2N.id.
    rewrite (rep_enc (dec_obj f s v) enc_obj drop_nils_obj ks rest).
    + cbn [bind]. reflexivity.
    + rewrite Forall_forall in *. intros k Hk rest'. apply IH; [exact Hk|apply Wk; exact Hk|].
      cbn [depth] in Hd. pose proof (depth_kid k ks Hk). lia.
Qed.

(* the emptied-field marks of a CUD row are its c_emptied *)
Definition wf_cud (s : schema) (c : cud) : Prop :=
  wf_row s (c_row c) /\ r_nils (c_row c) = [] /\ nlen (c_emptied c) < 65536 /\
  Forall (fun i => i < 65536 /\ s_emptied s (r_qid (c_row c)) i = true) (c_emptied c).


Lemma flat_be2_len l : nlen (flat_map (be 2) l) = 2 * nlen l.
Proof. unfold nlen. induction l as [|x t IH]; cbn [flat_map length]; [reflexivity|]. rewrite app_length. unfold be at 1. rewrite be_bytes_length. lia. Qed.

Lemma dec_cud_enc s c rest : wf_cud s c -> dec_cud s c02_codec_last (enc_cud c ++ rest) = Some (c, rest).
Proof.
  intros (Wr & Wn & Wl & We). unfold dec_cud, enc_cud. rewrite <- app_assoc.
  rewrite dec_row_enc by (auto; discriminate). cbn [bind].
  assert (Ed : drop_nils_row (c_row c) = c_row c) by (destruct c as [[q i p0 ct a d m nl] es]; cbn in *; subst; reflexivity).
  rewrite Ed.
  change (c02_codec_last <? c02_codec_emptied_since) with false. cbv iota.
  rd_step.
  destruct (N.ltb_spec (nlen (flat_map (be 2) (c_emptied c) ++ rest)) (2 * nlen (c_emptied c))) as [L|L].
  - exfalso. unfold nlen in L. rewrite app_length in L. pose proof (flat_be2_len (c_emptied c)) as F. unfold nlen in F. lia.
  - unfold nlen at 1. rewrite Nat2N.id.
    rewrite (rep_enc _ (be 2) (fun x => x) (c_emptied c) rest).
    + cbn [bind]. rewrite map_id. destruct c; reflexivity.
    + rewrite Forall_forall in *. intros i Hi r'. destruct (We i Hi) as [Li Si].
      rewrite rdn_be by (cbn; lia). cbn [bind]. rewrite Si. reflexivity.
Qed.

Lemma wf_null_row s : s_qname s 0 = true -> wf_row s null_row.
Proof. intros H. repeat split; cbn; auto; lia. Qed.

(* events the builders can produce, in terms of a schema: ids known to the application and inside
   their Go integer types, at most 65535 children / CUD rows / emptied fields; nothing is asked of
   the argument objects and CUD rows of an event that is not valid, nor of the length of its error text *)
Definition wf_event (s : schema) (e : event) : Prop :=
  e_qid e < 65536 /\ e_qid e <> 0 /\ s_qname s (e_qid e) = true /\ s_qname s 0 = true /\
  e_part e < 65536 /\ e_poffs e < 2 ^ 64 /\ e_ws e < 2 ^ 64 /\ e_woffs e < 2 ^ 64 /\ e_reg e < 2 ^ 64 /\
  (if e_sync e then e_dev e < 65536 /\ e_syncat e < 2 ^ 64 else e_dev e = 0 /\ e_syncat e = 0) /\
  (if stored_valid e then
     e_valid e = true /\ e_errstr e = [] /\ e_errname e = [] /\ e_errbytes e = [] /\
     wf_obj s (e_arg e) /\ wf_obj s (e_unl e) /\
     nlen (e_creates e) < 65536 /\ Forall (wf_cud s) (e_creates e) /\
     nlen (e_updates e) < 65536 /\ Forall (wf_cud s) (e_updates e)
   else
     e_valid e = false /\ s_name s (cut_str (e_errname e)) = true /\ nlen (e_errbytes e) < 2 ^ 32).

Lemma dec_error_enc s (es en bs rest : bytes) :
  s_name s (cut_str en) = true -> nlen bs < 2 ^ 32 ->
  dec_error s (enc_str es ++ enc_str en ++ be 4 (nlen bs) ++ bs ++ rest) = Some ((cut_str es, cut_str en, bs), rest).
Proof.
  intros H3 H4. unfold dec_error.
  rewrite rd_str_enc. cbn [bind]. rewrite rd_str_enc. cbn [bind].
  rewrite H3. cbn [negb]. rd_step. rewrite take_n_app. reflexivity.
Qed.

Lemma dec_cuds_enc s (cs : list cud) rest : Forall (wf_cud s) cs ->
  rep (dec_cud s c02_codec_last) (length cs) (flat_map enc_cud cs ++ rest) = Some (cs, rest).
Proof.
  intros H. rewrite <- (map_id cs) at 3. apply rep_enc. rewrite Forall_forall in *. intros c Hc r'. apply dec_cud_enc. apply H. exact Hc.
Qed.

Theorem dec_event_enc s e rest f :
  wf_event s e -> (stored_valid e = true -> (depth (e_arg e) <= f)%nat /\ (depth (e_unl e) <= f)%nat) ->
  dec_event s f (enc_event e ++ rest) = Some (stored_form e, rest).
Proof.
  intros (Hq & Hq0 & Hk & Hk0 & Hp & Hpo & Hws & Hwo & Hreg & Hsync & Hbody) Hdep.
  unfold dec_event, enc_event, stored_form. change c02_mask_carries_actmod with true. cbv iota.
  destruct e as [q part poffs ws woffs reg sync dev syncat valid es en bs arg unl cs us].
  cbn [e_qid e_part e_poffs e_ws e_woffs e_reg e_sync e_dev e_syncat e_valid e_errstr e_errname e_errbytes e_arg e_unl e_creates e_updates] in *.
  cbn [app]. change (rdn 1 (c02_codec_last :: ?x)) with (Some (c02_codec_last, x)). cbn [bind].
  change (c02_codec_last <? c02_codec_last) with false. cbv iota.
  rd_step. rewrite Hk. cbn [negb].
  destruct (N.eqb_spec q 0) as [E0|_]; [contradiction|].
  do 5 rd_step. cbn [app]. rewrite rd_bool_b2n. cbn [bind]. unfold opt_rd.
  assert (Sync : forall (X : bytes) (K : N -> N -> bytes -> option (event * bytes)),
             (do (d, b) <- (if sync then rdn 2 ((if sync then be 2 dev ++ be 8 syncat else []) ++ X) else Some (0, (if sync then be 2 dev ++ be 8 syncat else []) ++ X));
              do (t, b) <- (if sync then rdn 8 b else Some (0, b)); K d t b) = K dev syncat X).
  { intros X K. destruct sync.
    - destruct Hsync as [Hd Ht]. do 2 rd_step. reflexivity.
    - destruct Hsync as [-> ->]. reflexivity. }
  rewrite <- ?app_assoc. rewrite Sync. clear Sync.
  cbn [app]. rewrite rd_bool_b2n. cbn [bind].
  unfold stored_valid in *. cbn [e_valid e_qid] in *.
  destruct (valid && negb (q =? c02_qid_corrupted)) eqn:SV.
  - destruct (Hdep eq_refl) as [Hd1 Hd2].
    apply andb_prop in SV. destruct SV as [Ev Ec]. subst valid. apply negb_true_iff in Ec.
    destruct Hbody as (_ & -> & -> & -> & Wa & Wu & Lc & Wc & Lu & Wu').
    cbn [bind]. rewrite Ec. cbn [negb orb].
    rewrite <- ?app_assoc.
    rewrite dec_obj_enc by (auto; discriminate). cbn [bind].
    rewrite dec_obj_enc by (auto; discriminate). cbn [bind].
    rd_step. unfold nlen at 1. rewrite Nat2N.id. rewrite dec_cuds_enc by assumption. cbn [bind].
    rd_step. unfold nlen at 1. rewrite Nat2N.id. rewrite dec_cuds_enc by assumption. cbn [bind].
    reflexivity.
  - destruct Hbody as (-> & Sn & Lbs).
    cbn [andb] in SV.
    assert (Lb : nlen (if r_qid (root unl) =? 0 then bs else []) < 2 ^ 32) by (destruct (r_qid (root unl) =? 0); [exact Lbs|reflexivity]).
    rewrite <- ?app_assoc. rewrite dec_error_enc by assumption. cbn [bind negb orb].
    rewrite orb_true_r. reflexivity.
Qed.

Lemma depth_le_enc s o : wf_obj s o -> (depth o <= length (enc_obj o))%nat.
Proof.
  induction o as [r ks IH] using obj_ind2. intros W. inversion W as [r' ks' Wr Wn Wl Wk]; subst r' ks'.
  cbn [depth enc_obj]. unfold enc_row, enc_row_with. rewrite !app_length. unfold be at 1. rewrite be_bytes_length.
  destruct (N.eqb_spec (r_qid r) 0) as [E|E].
  - rewrite (Wn E). cbn. lia.
  - rewrite !app_length. unfold be at 2. rewrite be_bytes_length.
    assert (G : (fold_right (fun k m => Nat.max (depth k) m) O ks <= length (flat_map enc_obj ks))%nat).
    { clear Wl Wn W. induction ks as [|k t IHt]; cbn [fold_right flat_map]; [lia|].
      rewrite app_length. inversion IH; subst. inversion Wk; subst. specialize (IHt H2 H4).
      specialize (H1 H3). lia. }
    lia.
Qed.

Lemma depth_bound s e : wf_event s e ->
  stored_valid e = true -> (depth (e_arg e) <= length (enc_event e))%nat /\ (depth (e_unl e) <= length (enc_event e))%nat.
Proof.
  intros W SV. destruct W as (_ & _ & _ & Hk0 & _ & _ & _ & _ & _ & _ & Hbody). unfold enc_event.
  rewrite SV in *. destruct Hbody as (_ & _ & _ & _ & Wa & Wu & _).
  pose proof (depth_le_enc s _ Wa). pose proof (depth_le_enc s _ Wu).
  rewrite !app_length. lia.
Qed.

(* decode (encode e) = the stored form of e, for every well-formed event *)
Theorem decode_encode_proved s e : wf_event s e -> decode s (enc_event e) = Some (stored_form e).
Proof.
  intros W. unfold decode.
  rewrite <- (app_nil_r (enc_event e)) at 2.
  rewrite (dec_event_enc s e [] _ W (depth_bound s e W)). reflexivity.
Qed.

(* every proper prefix of an encoding is rejected *)
Theorem prefix_rejected_proved s e p : wf_event s e -> proper_prefix p (enc_event e) -> decode s p = None.
Proof.
  intros W [ext [Hne E]]. unfold decode.
  destruct (dec_event s (length p) p) as [[e' r]|] eqn:D; [|reflexivity]. exfalso.
  assert (Hf : (length p <= length (enc_event e))%nat) by (rewrite E, app_length; lia).
  pose proof (dec_event_ext s _ _ Hf _ _ _ ext D) as D'. rewrite <- E in D'.
  pose proof (decode_encode_proved s e W) as R. unfold decode in R. rewrite D' in R.
  assert (D0 := D').
  pose proof (dec_event_enc s e [] _ W (depth_bound s e W)) as X. rewrite app_nil_r in X. rewrite X in D0.
  inversion D0 as [[He Hr]]. symmetry in Hr. apply app_eq_nil in Hr. destruct Hr as [_ Hx]. contradiction.
Qed.

(* an event that is not valid is just its error record, with texts that fit a short string *)
Definition bare_error (e : event) : Prop :=
  stored_valid e = false ->
  nlen (e_errstr e) <= 65535 /\ nlen (e_errname e) <= 65535 /\
  e_arg e = null_obj /\ e_unl e = null_obj /\ e_creates e = [] /\ e_updates e = [].

(* the builder put no argument field empty *)
Definition no_arg_nils (e : event) : Prop := drop_nils_obj (e_arg e) = e_arg e /\ drop_nils_obj (e_unl e) = e_unl e.

Lemma drop_arg_nils_id e : no_arg_nils e -> drop_arg_nils e = e.
Proof. intros [A U]. unfold drop_arg_nils, with_args. rewrite A, U. destruct e; reflexivity. Qed.

Theorem codec_roundtrip_partial_proved s e : wf_event s e -> bare_error e -> no_arg_nils e -> decode s (enc_event e) = Some e.
Proof.
  intros W B NN. rewrite (decode_encode_proved s e W). unfold stored_form. change c02_mask_carries_actmod with true. cbv iota.
  destruct (stored_valid e) eqn:SV; [rewrite (drop_arg_nils_id e NN); reflexivity|].
  destruct (B SV) as (L1 & L2 & Ea & Eu & Ec & Eup).
  rewrite (cut_str_short _ L1), (cut_str_short _ L2). rewrite Eu. cbn [root null_obj r_qid null_row N.eqb].
  destruct e; cbn in *; subst; reflexivity.
Qed.

Lemma wf_null_obj s : s_qname s 0 = true -> wf_obj s null_obj.
Proof.
  intros H. constructor; [apply wf_null_row; exact H|reflexivity|reflexivity|constructor].
Qed.

(* a valid event reads back exactly (the (de)activation marks of its rows included), up to the
   emptied-field marks of argument rows *)
Theorem valid_event_roundtrip_proved s e : wf_event s e -> stored_valid e = true -> decode s (enc_event e) = Some (drop_arg_nils e).
Proof.
  intros W SV. rewrite (decode_encode_proved s e W). unfold stored_form. rewrite SV. reflexivity.
Qed.

(* IsActivated / IsDeactivated of the CUD rows of the decoded event are those of the appended one *)
Theorem activation_flags_read_back_proved s e : wf_event s e -> stored_valid e = true ->
  exists d, decode s (enc_event e) = Some d /\
            map activated (e_updates d) = map activated (e_updates e) /\
            map deactivated (e_updates d) = map deactivated (e_updates e) /\
            map (fun c => r_mod (c_row c)) (e_creates d) = map (fun c => r_mod (c_row c)) (e_creates e).
Proof.
  intros W SV. exists (drop_arg_nils e). split; [apply valid_event_roundtrip_proved; assumption|]. repeat split.
Qed.

(* the writer before 35e511a40 (mask without the bit): the mark of a row is lost - an update that
   (de)activates a record decodes as a plain update; and rows it wrote still decode *)
Theorem activation_mark_lost_with_old_mask_proved :
  (forall s v r rest, v <> 0 -> wf_row s r -> dec_row s v (enc_row_with mask_of_old r ++ rest) = Some (clear_row (drop_nils_row r), rest))
  /\ exists r, wf_row sch_any r /\ activated (mkCud r []) || deactivated (mkCud r []) = true
               /\ activated (mkCud (clear_row r) []) || deactivated (mkCud (clear_row r) []) = false.
Proof.
  split; [exact dec_row_enc_old|].
  exists (mkRow 300 200001 0 0 false [1; 2] true []). split; [|split; reflexivity].
  unfold wf_row. cbn [r_qid r_id r_parent r_cont r_data N.eqb].
  split; [lia|]. split; [reflexivity|]. split; [lia|]. split; [lia|]. split; [lia|]. split; [intros _; reflexivity|reflexivity].
Qed.

(* an event that is not valid but still carries the builder's argument object: not stored (C02-F4) *)
Definition error_args_witness : event :=
  mkEvent 1 1 5 7 9 1000 false 0 0 false [120] [116; 46; 99] [] (Obj (mkRow 301 1 0 0 true [1; 2] false []) []) null_obj [] [].

(* an error text of 65536 bytes: cut to 65535 (C02-F6) *)
Definition long_error_witness : event :=
  mkEvent 1 1 5 7 9 1000 false 0 0 false (repeat 97 (N.to_nat 65536)) [116; 46; 99] [] null_obj null_obj [] [].

Lemma error_witness_wf es arg : wf_event sch_any (mkEvent 1 1 5 7 9 1000 false 0 0 false es [116; 46; 99] [] arg null_obj [] []).
Proof.
  unfold wf_event.
  cbn [e_qid e_part e_poffs e_ws e_woffs e_reg e_sync e_dev e_syncat e_valid e_errstr e_errname e_errbytes e_arg e_unl e_creates e_updates stored_valid andb].
  split; [lia|]. split; [lia|]. split; [reflexivity|]. split; [reflexivity|].
  do 5 (split; [lia|]). split; [split; reflexivity|].
  split; [reflexivity|]. split; reflexivity.
Qed.

Theorem error_args_refuted_proved :
  exists s e, wf_event s e /\ decode s (enc_event e) <> Some e.
Proof.
  exists sch_any, error_args_witness. split; [apply error_witness_wf|].
  unfold error_args_witness. rewrite (decode_encode_proved _ _ (error_witness_wf _ _)). vm_compute. congruence.
Qed.

Theorem long_error_refuted_proved :
  exists s e, wf_event s e /\ e_arg e = null_obj /\ e_creates e = [] /\ decode s (enc_event e) <> Some e.
Proof.
  exists sch_any, long_error_witness. split; [apply error_witness_wf|].
  split; [reflexivity|]. split; [reflexivity|].
  unfold long_error_witness. rewrite (decode_encode_proved _ _ (error_witness_wf _ _)).
  intros H. apply (f_equal (fun o => match o with Some x => nlen (e_errstr x) | None => 0 end)) in H.
  vm_compute in H. discriminate.
Qed.

(* ---------- the object PutPlog returns; re-encoding ---------- *)
Definition short_texts (e : event) : Prop := nlen (e_errstr e) <= 65535 /\ nlen (e_errname e) <= 65535.

Lemma stored_returned e : short_texts e -> stored_form e = returned_form_with true true e.
Proof.
  intros [L1 L2]. unfold stored_form, returned_form_with. change c02_mask_carries_actmod with true. cbv iota. cbn [andb].
  destruct (stored_valid e) eqn:SV; cbn [negb]; [reflexivity|].
  rewrite (cut_str_short _ L1), (cut_str_short _ L2). reflexivity.
Qed.

(* reading back gives the object PutPlog returned, whatever the builder left in an invalid event and
   whichever argument fields it put empty *)
Theorem returned_object_reads_back_proved clears drops s e :
  clears = true -> drops = true -> wf_event s e -> short_texts e ->
  decode s (enc_event e) = Some (returned_form_with clears drops e).
Proof.
  intros -> -> W T. rewrite (decode_encode_proved s e W). f_equal. apply stored_returned; assumption.
Qed.

(* the object PutPlog returns lists the same emptied fields as the stored form: none on argument rows *)
Theorem returned_lists_stored_fields_proved clears drops e :
  clears = true -> drops = true ->
  e_arg (returned_form_with clears drops e) = e_arg (stored_form e) /\ e_unl (returned_form_with clears drops e) = e_unl (stored_form e).
Proof.
  intros -> ->. unfold stored_form, returned_form_with. change c02_mask_carries_actmod with true. cbv iota. cbn [andb].
  destruct (stored_valid e); cbn [negb]; split; reflexivity.
Qed.

(* before 75b678c2b (drops = false) the returned object kept the marks the stored form does not have (C02-F8) *)
Theorem returned_keeps_arg_nils_refuted_proved :
  exists e, wf_event sch_any e /\ stored_valid e = true /\ e_arg (returned_form_with true false e) <> e_arg (stored_form e).
Proof.
  exists (mkEvent 300 1 5 7 9 1000 false 0 0 true [] [] [] (Obj (mkRow 301 1 0 0 true [1; 2] false [1; 2]) []) null_obj [] []).
  split; [|split; [reflexivity|vm_compute; congruence]].
  unfold wf_event.
  cbn [e_qid e_part e_poffs e_ws e_woffs e_reg e_sync e_dev e_syncat e_valid e_errstr e_errname e_errbytes e_arg e_unl e_creates e_updates].
  change (stored_valid _) with true. cbv iota.
  split; [lia|]. split; [lia|]. split; [reflexivity|]. split; [reflexivity|].
  do 5 (split; [lia|]). split; [split; reflexivity|].
  do 4 (split; [reflexivity|]).
  split; [|split; [apply wf_null_obj; reflexivity|]].
  - constructor; [|intros H; discriminate|reflexivity|constructor].
    unfold wf_row. cbn [r_qid r_id r_parent r_cont r_data N.eqb].
    split; [lia|]. split; [reflexivity|]. split; [lia|]. split; [lia|]. split; [lia|]. split; [intros _; reflexivity|reflexivity].
  - split; [reflexivity|]. split; [constructor|]. split; [reflexivity|constructor].
Qed.

(* with the original name kept, encoding an event again is encoding it *)
Theorem reencode_is_encode_proved orig e : orig = true -> reencode_with orig e = enc_event e.
Proof.
  intros ->. unfold reencode_with, reenc_name_with. destruct (stored_valid e); [reflexivity|]. destruct e; reflexivity.
Qed.

Lemma cut_str_idem s : cut_str (cut_str s) = cut_str s.
Proof. apply cut_str_short. pose proof (cut_str_len s). lia. Qed.

Lemma enc_drop_nils o : enc_obj (drop_nils_obj o) = enc_obj o.
Proof.
  induction o as [r ks IH] using obj_ind2. cbn [drop_nils_obj enc_obj].
  change (enc_row (drop_nils_row r)) with (enc_row r). change (r_qid (drop_nils_row r)) with (r_qid r).
  destruct (r_qid r =? 0); [reflexivity|]. unfold nlen. rewrite map_length. f_equal. f_equal.
  induction IH as [|k t Hk Ht IHt]; cbn [map flat_map]; [reflexivity|]. rewrite Hk, IHt. reflexivity.
Qed.

(* the stored form encodes to the same bytes *)
Lemma enc_stored_form e : enc_event (stored_form e) = enc_event e.
Proof.
  unfold stored_form. change c02_mask_carries_actmod with true. cbv iota. destruct (stored_valid e) eqn:SV.
  - unfold enc_event, drop_arg_nils, with_args, stored_valid in *.
    cbn [e_qid e_part e_poffs e_ws e_woffs e_reg e_sync e_dev e_syncat e_valid e_errstr e_errname e_errbytes e_arg e_unl e_creates e_updates].
    rewrite SV. rewrite !enc_drop_nils. reflexivity.
  - unfold enc_event, stored_valid in *. cbn [e_qid e_part e_poffs e_ws e_woffs e_reg e_sync e_dev e_syncat e_valid e_errstr e_errname e_errbytes e_arg e_unl e_creates e_updates].
    rewrite SV. unfold enc_str. rewrite !cut_str_idem. cbn [root null_obj r_qid null_row N.eqb]. reflexivity.
Qed.

(* ... hence a decoded event re-encodes to the bytes it was decoded from *)
Theorem reencode_decoded_proved orig s e :
  orig = true -> wf_event s e ->
  exists d, decode s (enc_event e) = Some d /\ reencode_with orig d = enc_event e.
Proof.
  intros O W. exists (stored_form e). split; [apply decode_encode_proved; exact W|].
  rewrite (reencode_is_encode_proved orig _ O). apply enc_stored_form.
Qed.

(* the variant that wrote the event's own name (before 796fe6f32): the original name is lost *)
Theorem reencode_own_name_refuted_proved :
  exists e, wf_event sch_any e /\ reencode_with false (stored_form e) <> enc_event (stored_form e).
Proof.
  exists (mkEvent 1 1 5 7 9 1000 false 0 0 false [120] [116; 46; 99] [] null_obj null_obj [] []).
  split; [apply error_witness_wf|]. vm_compute. congruence.
Qed.

(* an error event whose original name has a second dot: stored, but its row does not decode (C02-F7) *)
Theorem unparsable_name_unreadable_proved :
  exists e, e_valid e = false /\ decode sch_strict (enc_event e) = None
            /\ forall en, name_one_dot en = true ->
               decode sch_strict (enc_event (mkEvent (e_qid e) (e_part e) (e_poffs e) (e_ws e) (e_woffs e) (e_reg e) (e_sync e) (e_dev e)
                                                  (e_syncat e) (e_valid e) (e_errstr e) en (e_errbytes e) (e_arg e) (e_unl e) (e_creates e) (e_updates e))) <> None
               \/ 65535 < nlen en.
Proof.
  exists (mkEvent 1 1 5 7 9 1000 false 0 0 false [120] [116; 46; 97; 46; 98] [] null_obj null_obj [] []).
  split; [reflexivity|]. split; [vm_compute; reflexivity|].
  intros en H. destruct (N.leb_spec (nlen en) 65535) as [L|L]; [left|right; exact L].
  cbn [e_qid e_part e_poffs e_ws e_woffs e_reg e_sync e_dev e_syncat e_valid e_errstr e_errname e_errbytes e_arg e_unl e_creates e_updates].
  assert (W : wf_event sch_strict (mkEvent 1 1 5 7 9 1000 false 0 0 false [120] en [] null_obj null_obj [] [])).
  { unfold wf_event.
    cbn [e_qid e_part e_poffs e_ws e_woffs e_reg e_sync e_dev e_syncat e_valid e_errstr e_errname e_errbytes e_arg e_unl e_creates e_updates stored_valid andb].
    split; [lia|]. split; [lia|]. split; [reflexivity|]. split; [reflexivity|].
    do 5 (split; [lia|]). split; [split; reflexivity|].
    split; [reflexivity|]. split; [|reflexivity]. rewrite (cut_str_short _ L). exact H. }
  rewrite (decode_encode_proved _ _ W). discriminate.
Qed.

(* ---------- the original name as a (package, entity) pair ---------- *)
Lemma split_qname_text pkg ent : (forall x, In x pkg -> x <> 46) -> split_first_dot (qname_text pkg ent) = (pkg, ent).
Proof.
  unfold qname_text. induction pkg as [|x t IH]; intros H; cbn [app split_first_dot].
  - reflexivity.
  - destruct (N.eqb_spec x 46) as [E|E]; [exfalso; apply (H x); [left; reflexivity|exact E]|].
    rewrite IH; [reflexivity|]. intros y Hy. apply H. right. exact Hy.
Qed.

(* a dot inside the package part moves to the entity (C02-F7b) *)
Lemma split_qname_text_refuted : exists pkg ent, split_first_dot (qname_text pkg ent) <> (pkg, ent).
Proof. exists [97; 46; 98], [99]. vm_compute. congruence. Qed.
