(* C02 - proofs about the log part of the model: the range split of readLogParts, one
   sub-range read against the reference storage, the stop-at-first-empty-part loop. *)
From Coq Require Import List NArith ZArith Lia Bool.
From V Require Import Lib.Lex Lib.SMap Lib.Check Storage.Spec Storage.SpecLaws Gen.Params C02_Logs.Model.
Import ListNotations.
Local Open Scope N_scope.

(* ---------- constants (re-opened when the Go constants change) ---------- *)
Lemma prc_val : prc = 4096. Proof. reflexivity. Qed.
Lemma low_mask_val : c02_low_mask = 4095. Proof. reflexivity. Qed.
Lemma rte_val : c02_read_to_end = 9223372036854775807. Proof. reflexivity. Qed.
Lemma nb_be w n : nb w n = be_bytes w n. Proof. reflexivity. Qed.

Lemma hi_lo o : o = hi o * 4096 + lo o /\ lo o < 4096.
Proof.
  unfold hi, lo. rewrite prc_val. split.
  - rewrite N.mul_comm. apply N.div_mod. lia.
  - apply N.mod_lt. lia.
Qed.

Lemma hi_glue p l : l < 4096 -> hi (glue p l) = p /\ lo (glue p l) = l.
Proof.
  intros Hl. unfold hi, lo, glue. rewrite prc_val. split.
  - rewrite N.div_add_l by lia. rewrite N.div_small by lia. lia.
  - rewrite N.add_comm, N.mod_add by lia. apply N.mod_small. lia.
Qed.

Lemma hi_mono a b : a <= b -> hi a <= hi b.
Proof. intros H. unfold hi. rewrite prc_val. apply N.div_le_mono; lia. Qed.

Lemma hi_lt a b : hi a < hi b -> a < b.
Proof.
  intros H. destruct (hi_lo a) as [Ea La]. destruct (hi_lo b) as [Eb Lb]. lia.
Qed.

(* ---------- A1. the range split ---------- *)

(* last offset covered by the sub-ranges: the finish offset, or the end of its partition
   when the last-partition rule does not apply *)
Definition cover_end (g : bool) (start c : N) : N :=
  if exact_last g start c then fin_of start c else hi (fin_of start c) * 4096 + 4095.

Lemma split_cover g start c x :
  start <= fin_of start c ->
  (hi start <= hi x <= hi (fin_of start c) /\ sub_from start (hi x) <= lo x <= sub_to g start c (hi x))
  <-> start <= x <= cover_end g start c.
Proof.
  intros Hsf. unfold sub_from, sub_to, cover_end. set (f := fin_of start c) in *.
  destruct (hi_lo x) as [Ex Lx]. destruct (hi_lo start) as [Es Ls]. destruct (hi_lo f) as [Ef Lf].
  rewrite low_mask_val.
  pose proof (hi_mono _ _ Hsf) as Hm.
  destruct (N.eqb_spec (hi x) (hi start)) as [E1|E1]; destruct (N.eqb_spec (hi x) (hi f)) as [E2|E2];
    destruct (exact_last g start c); cbn [andb]; split; intros H; lia.
Qed.

Lemma nseq_In n : forall a p, In p (nseq n a) <-> a <= p < a + N.of_nat n.
Proof.
  induction n as [|n IH]; intros a p; cbn [nseq In].
  - lia.
  - rewrite IH. lia.
Qed.

Lemma parts_In g start c t :
  In t (parts g start c) <->
  exists p, hi start <= p <= hi (fin_of start c) /\ t = (p, sub_from start p, sub_to g start c p).
Proof.
  unfold parts. rewrite in_map_iff. split.
  - intros [p [E Hin]]. exists p. apply nseq_In in Hin. split; [lia|auto].
  - intros [p [H E]]. exists p. split; [auto|]. apply nseq_In. lia.
Qed.

(* the union of the closed sub-ranges is exactly [start, cover_end] *)
Lemma parts_cover g start c x :
  start <= fin_of start c ->
  (exists t, In t (parts g start c) /\ in_sub x t) <-> start <= x <= cover_end g start c.
Proof.
  intros Hsf. rewrite <- (split_cover g start c x Hsf). split.
  - intros [t [Hin Hsub]]. apply parts_In in Hin. destruct Hin as [p [Hp E]]. subst t.
    cbn in Hsub. destruct Hsub as [E L]. subst p. auto.
  - intros [Hp L]. exists (hi x, sub_from start (hi x), sub_to g start c (hi x)). split.
    + apply parts_In. exists (hi x). auto.
    + cbn. auto.
Qed.

Fixpoint asc (l : list N) : Prop :=
  match l with
  | [] => True
  | x :: r => (match r with [] => True | y :: _ => x < y end) /\ asc r
  end.

Lemma nseq_asc n : forall a, asc (nseq n a).
Proof.
  induction n as [|n IH]; intros a; cbn [nseq asc]; auto.
  split; [|apply IH]. destruct n; cbn; [auto|lia].
Qed.

(* the sub-ranges come in strictly ascending partition order: no offset is covered twice *)
Lemma parts_asc g start c : asc (map (fun t => fst (fst t)) (parts g start c)).
Proof.
  unfold parts. rewrite map_map. cbn. rewrite map_id. apply nseq_asc.
Qed.

Lemma fin_plain start c : is_rte c = false -> 1 <= c -> start + c <= 2 ^ 64 -> fin_of start c = start + c - 1.
Proof.
  intros R H1 H2. unfold fin_of. rewrite R. apply N.mod_small. unfold u64. lia.
Qed.

Lemma fin_rte start c : is_rte c = true -> fin_of start c = 9223372036854775807.
Proof. intros R. unfold fin_of. rewrite R. apply rte_val. Qed.

Lemma cover_exact g start c :
  is_rte c = false -> 1 <= c -> start + c <= 2 ^ 64 -> (g = true -> (start + c - 1) mod 4096 <> 0) ->
  cover_end g start c = start + c - 1.
Proof.
  intros R H1 H2 Hg. unfold cover_end, exact_last. rewrite R. cbn [negb andb].
  rewrite (fin_plain start c R H1 H2). destruct g; auto.
  rewrite prc_val. destruct (N.eqb_spec ((start + c - 1) mod 4096) 0) as [E|E]; [exfalso; apply Hg; auto|reflexivity].
Qed.

Lemma cover_rte g start c : is_rte c = true -> cover_end g start c = 9223372036854775807.
Proof.
  intros R. unfold cover_end, exact_last. rewrite R. cbn [negb andb]. rewrite (fin_rte start c R). reflexivity.
Qed.

(* what the guarded last-partition rule really covers when the finish offset is a multiple of 4096 *)
Lemma cover_overread start c :
  is_rte c = false -> 1 <= c -> start + c <= 2 ^ 64 -> (start + c - 1) mod 4096 = 0 ->
  cover_end true start c = start + c - 1 + 4095.
Proof.
  intros R H1 H2 Hm. unfold cover_end, exact_last. rewrite R. cbn [negb andb].
  rewrite (fin_plain start c R H1 H2). rewrite prc_val, Hm. cbn [N.eqb negb].
  destruct (hi_lo (start + c - 1)) as [E L]. unfold lo in E. rewrite prc_val, Hm in E. lia.
Qed.

(* ---------- big-endian values ---------- *)
Lemma be_val_from_be w : forall n acc, be_val_from acc (be_bytes w n) = acc * 256 ^ N.of_nat w + n mod 256 ^ N.of_nat w.
Proof.
  induction w as [|w IH]; intros n acc.
  - cbn. rewrite N.mod_1_r. lia.
  - cbn [be_bytes be_val_from]. rewrite IH.
    rewrite Nat2N.inj_succ, N.pow_succ_r'.
    assert (HP : 256 ^ N.of_nat w <> 0) by (apply N.pow_nonzero; lia).
    rewrite (N.mul_comm 256 (256 ^ N.of_nat w)).
    rewrite (N.mod_mul_r n (256 ^ N.of_nat w) 256) by (auto; lia).
    lia.
Qed.

Lemma be_val_be w n : n < 256 ^ N.of_nat w -> be_val (be_bytes w n) = n.
Proof. intros H. unfold be_val. rewrite be_val_from_be. rewrite N.mod_small by assumption. lia. Qed.

Lemma firstn_be w n : firstn w (be_bytes w n) = be_bytes w n.
Proof. rewrite <- (be_bytes_length w n) at 1. apply firstn_all. Qed.

Lemma cc_cmp a b : a < 65536 -> b < 65536 -> lex_cmp (log_cc a) (log_cc b) = N.compare a b.
Proof. intros Ha Hb. unfold log_cc. rewrite !nb_be. apply be_bytes_cmp; cbn; lia. Qed.

Lemma cc_le a b : a < 65536 -> b < 65536 -> (lex_le (log_cc a) (log_cc b) = true <-> a <= b).
Proof.
  intros Ha Hb. unfold lex_le. rewrite cc_cmp by assumption.
  destruct (N.compare_spec a b); split; intros; try lia; try reflexivity; discriminate.
Qed.

Lemma cc_lt a b : a < 65536 -> b < 65536 -> (lex_lt (log_cc a) (log_cc b) = true <-> a < b).
Proof.
  intros Ha Hb. unfold lex_lt. rewrite cc_cmp by assumption.
  destruct (N.compare_spec a b); split; intros; try lia; try reflexivity; discriminate.
Qed.

Lemma cc_val l : l < 65536 -> be_val (firstn 2 (log_cc l)) = l.
Proof. intros H. unfold log_cc. rewrite nb_be, firstn_be. apply be_val_be. cbn. lia. Qed.

(* ---------- A2. one sub-range read ---------- *)
Section LogProofs.
Context {V : Type}.
Notation lstore := (lstore V).

Lemma live_in_get (st : lstore) pk k v : live_in 0 st pk k v <-> get 0 st pk k = Some v.
Proof.
  unfold live_in, get, lookup. split.
  - intros [r [Hr [He Hv]]]. rewrite Hr, He. cbn. congruence.
  - destruct (raw_lookup st pk k) as [r|]; [|discriminate].
    destruct (expired 0 r) eqn:He; [discriminate|]. cbn. intros E. exists r. repeat split; congruence.
Qed.

Lemma read_part_In (st : lstore) wlog id p l1 l2 o v :
  parts_sorted st -> log_wf st -> l1 <= 4095 -> l2 <= 4095 ->
  (In (o, v) (read_part st wlog id p l1 l2) <-> hi o = p /\ l1 <= lo o <= l2 /\ log_get st wlog id o = Some v).
Proof.
  intros S W H1 H2. unfold read_part, log_get. rewrite in_map_iff. rewrite low_mask_val. split.
  - intros [[cc v'] [E Hin]]. cbn [fst snd] in E.
    assert (E1 := f_equal fst E). assert (E2 := f_equal snd E). cbn [fst snd] in E1, E2. subst o v'. clear E.
    apply (read_exact 0 st _ _ _ _ _ S) in Hin. destruct Hin as [Hl [Hlo Hhi]].
    pose proof Hl as Hl'. destruct Hl' as [r [Hr _]]. destruct (W _ _ _ Hr) as [l [Ll Ecc]]. rewrite low_mask_val in Ll.
    subst cc. rewrite cc_val in * by lia.
    destruct (hi_glue p l) as [Eh El]; [lia|]. rewrite Eh, El.
    apply cc_le in Hlo; try lia.
    split; [reflexivity|]. split.
    + split; [exact Hlo|]. destruct (N.leb_spec 4095 l2) as [G|G]; [lia|].
      destruct Hhi as [Hhi|Hhi]; [unfold log_cc in Hhi; rewrite nb_be in Hhi; cbn in Hhi; discriminate|].
      apply cc_lt in Hhi; lia.
    + apply live_in_get. exact Hl.
  - intros [Eh [[Hlo Hhi] Hg]]. destruct (hi_lo o) as [Eo Lo].
    exists (log_cc (lo o), v). cbn [fst snd]. rewrite cc_val by lia. split.
    + f_equal. unfold glue. rewrite prc_val. subst p. lia.
    + apply (read_exact 0 st _ _ _ _ _ S). subst p. split; [apply live_in_get; exact Hg|]. split.
      * apply cc_le; lia.
      * destruct (N.leb_spec 4095 l2) as [G|G]; [left; reflexivity|right]. apply cc_lt; lia.
Qed.

Lemma read_part_asc (st : lstore) wlog id p l1 l2 :
  parts_sorted st -> log_wf st -> asc (map fst (read_part st wlog id p l1 l2)).
Proof.
  intros S W. unfold read_part. rewrite map_map. cbn [fst].
  set (rows := read 0 st (log_pkey wlog id p) (log_cc l1) (if c02_low_mask <=? l2 then [] else log_cc (l2 + 1))).
  assert (A : ascending (map fst rows)) by (apply read_ascending; exact S).
  assert (K : forall cc v, In (cc, v) rows -> exists l, l <= 4095 /\ cc = log_cc l).
  { intros cc v Hin. apply (read_exact 0 st _ _ _ _ _ S) in Hin. destruct Hin as [[r [Hr _]] _].
    destruct (W _ _ _ Hr) as [l [Ll E]]. rewrite low_mask_val in Ll. eauto. }
  clearbody rows. induction rows as [|[cc v] rest IH]; cbn [map asc]; auto.
  cbn [map ascending fst] in A. destruct A as [A1 A2]. split.
  - destruct rest as [|[cc' v'] rest']; cbn [map]; auto. cbn [map fst] in A1.
    destruct (K cc v (or_introl eq_refl)) as [l [Ll E]].
    destruct (K cc' v' (or_intror (or_introl eq_refl))) as [l' [Ll' E']]. subst cc cc'.
    cbn [fst]. rewrite !cc_val by lia. apply cc_lt in A1; try lia. unfold glue. lia.
  - apply IH; auto. intros cc0 v0 Hin. apply (K cc0 v0). right. exact Hin.
Qed.

End LogProofs.

(* ---------- A3. the loop: all parts up to maxPart, stopping at the first empty one ---------- *)
Section Loop.
Context {V : Type} (rd : N -> list (N * V)) (key : N -> bytes) (univ : list bytes) (B : N).
Hypothesis key_inj : forall q q', q < B -> q' < B -> key q = key q' -> q = q'.
Hypothesis rd_key : forall q, rd q <> [] -> In (key q) univ.

Lemma read_from_weak maxp fuel : forall p x, In x (read_from fuel rd maxp p) -> exists q, p <= q <= maxp /\ In x (rd q).
Proof.
  induction fuel as [|f IH]; intros p x Hin; cbn [read_from] in Hin; [contradiction|].
  destruct (N.ltb_spec maxp p) as [L|L]; [contradiction|].
  destruct (rd p) as [|a rows] eqn:E; [contradiction|].
  apply in_app_or in Hin. destruct Hin as [Hin|Hin].
  - exists p. rewrite E. split; [lia|exact Hin].
  - destruct (IH _ _ Hin) as [q [Hq Hx]]. exists q. split; [lia|exact Hx].
Qed.

(* the fuel never runs out: every non-empty part is a distinct partition of the store *)
Lemma read_from_spec maxp (HB : maxp < B) : forall fuel p seen,
  NoDup seen -> incl seen univ -> (forall k, In k seen -> exists q, q < p /\ k = key q) ->
  (length univ < length seen + fuel)%nat ->
  forall x, In x (read_from fuel rd maxp p) <->
            exists q, p <= q <= maxp /\ In x (rd q) /\ forall q', p <= q' < q -> rd q' <> [].
Proof.
  induction fuel as [|f IH]; intros p seen ND Incl Seen Len x.
  - exfalso. pose proof (NoDup_incl_length ND Incl). lia.
  - cbn [read_from]. destruct (N.ltb_spec maxp p) as [L|L].
    + split; [contradiction|]. intros [q [Hq _]]. lia.
    + destruct (rd p) as [|a rows] eqn:E.
      * split; [contradiction|]. intros [q [Hq [Hx Hne]]].
        destruct (N.eq_dec q p) as [->|Np]; [rewrite E in Hx; contradiction|].
        exfalso. apply (Hne p); [lia|exact E].
      * assert (Hk : In (key p) univ) by (apply rd_key; rewrite E; discriminate).
        assert (Hns : ~ In (key p) seen).
        { intros Hin. destruct (Seen _ Hin) as [q [Hq Ek]]. apply key_inj in Ek; lia. }
        specialize (IH (p + 1) (key p :: seen)).
        rewrite in_app_iff. rewrite IH.
        -- split.
           ++ intros [Hx|[q [Hq [Hx Hne]]]].
              ** exists p. rewrite E. split; [lia|]. split; [exact Hx|]. intros q' Hq'. lia.
              ** exists q. split; [lia|]. split; [exact Hx|]. intros q' Hq'.
                 destruct (N.eq_dec q' p) as [->|Np]; [rewrite E; discriminate|]. apply Hne. lia.
           ++ intros [q [Hq [Hx Hne]]]. destruct (N.eq_dec q p) as [->|Np].
              ** left. rewrite <- E. exact Hx.
              ** right. exists q. split; [lia|]. split; [exact Hx|]. intros q' Hq'. apply Hne. lia.
        -- constructor; assumption.
        -- intros k [<-|Hin]; [exact Hk|apply Incl; exact Hin].
        -- intros k [<-|Hin]; [exists p; split; [lia|reflexivity]|].
           destruct (Seen _ Hin) as [q [Hq Ek]]. exists q. split; [lia|exact Ek].
        -- cbn [length]. lia.
Qed.

Lemma asc_app (l1 l2 : list N) : asc l1 -> asc l2 -> (forall a b, In a l1 -> In b l2 -> a < b) -> asc (l1 ++ l2).
Proof.
  induction l1 as [|x r IH]; intros A1 A2 H; cbn [app]; auto.
  cbn [asc] in A1. destruct A1 as [Ax Ar]. cbn [asc]. split.
  - destruct r as [|y r']; cbn [app].
    + destruct l2 as [|b l2']; auto. apply H; left; reflexivity.
    + exact Ax.
  - apply IH; auto. intros a b Ha Hb. apply H; [right; exact Ha|exact Hb].
Qed.

Lemma read_from_asc maxp :
  (forall q, asc (map fst (rd q))) -> (forall q o v, In (o, v) (rd q) -> hi o = q) ->
  forall fuel p, asc (map fst (read_from fuel rd maxp p)).
Proof.
  intros Hasc Hhi. induction fuel as [|f IH]; intros p; cbn [read_from]; [exact I|].
  destruct (maxp <? p); [exact I|].
  destruct (rd p) as [|a rows] eqn:E; [exact I|].
  rewrite map_app. apply asc_app.
  - rewrite <- E. apply Hasc.
  - apply IH.
  - intros o1 o2 H1 H2. apply in_map_iff in H1. destruct H1 as [[o1' v1] [E1 H1]]. cbn in E1. subst o1'.
    apply in_map_iff in H2. destruct H2 as [[o2' v2] [E2 H2]]. cbn in E2. subst o2'.
    rewrite <- E in H1. apply Hhi in H1.
    apply read_from_weak in H2. destruct H2 as [q [Hq H2]]. apply Hhi in H2.
    apply hi_lt. lia.
Qed.

End Loop.

(* ---------- A4. logs built by appends; the read theorems ---------- *)
Section Main.
Context {V : Type}.
Notation lstore := (lstore V).

Definition log_inv (st : lstore) : Prop := parts_sorted st /\ log_wf st.

Lemma log_wf_set (st : lstore) w id o r : log_wf st -> log_wf (set_row st (log_pkey w id (hi o)) (log_cc (lo o)) r).
Proof.
  intros W pk cc r' H.
  destruct (lex_eqb cc (log_cc (lo o))) eqn:E2.
  - apply lex_eqb_eq in E2. exists (lo o). split; [|exact E2].
    rewrite low_mask_val. destruct (hi_lo o). lia.
  - rewrite raw_set_other in H; [exact (W _ _ _ H)|].
    intros C. inversion C; subst. rewrite lex_eqb_refl in E2. discriminate.
Qed.

Lemma log_put_inv c (st : lstore) w id o v : log_inv st -> log_inv (fst (log_put c st w id o v)).
Proof.
  intros [S W]. unfold log_put. destruct c; cbn [fst].
  - split; [apply put_sorted; exact S|apply log_wf_set; exact W].
  - split; [apply ins_sorted; exact S|].
    unfold insert_if_not_exists. destruct (lookup 0 st _ _); cbn [fst]; [exact W|apply log_wf_set; exact W].
Qed.

Lemma run_puts_inv (ops : list (put_op V)) : log_inv (run_puts ops).
Proof.
  unfold run_puts.
  assert (G : forall st, log_inv st -> log_inv (fold_left (fun st op => match op with PutOp c w id o v => fst (log_put c st w id o v) end) ops st)).
  { induction ops as [|[c w id o v] ops IH]; intros st H; cbn [fold_left]; [exact H|]. apply IH. apply log_put_inv. exact H. }
  apply G. split; [apply parts_sorted_nil|]. intros pk cc r H. discriminate.
Qed.

Lemma sm_get_key_In {W : Type} k (v : W) (m : smap W) : sm_get k m = Some v -> In k (map fst m).
Proof.
  induction m as [|[k' v'] r IH]; cbn [sm_get map fst In]; [discriminate|].
  destruct (lex_cmp k k') eqn:E; intros H.
  - left. symmetry. apply lex_cmp_eq. exact E.
  - discriminate.
  - right. apply IH. exact H.
Qed.

Lemma read_part_key (st : lstore) w id p l1 l2 :
  parts_sorted st -> read_part st w id p l1 l2 <> [] -> In (log_pkey w id p) (map fst st).
Proof.
  intros S Hne. unfold read_part in Hne.
  destruct (read 0 st (log_pkey w id p) (log_cc l1) (if c02_low_mask <=? l2 then [] else log_cc (l2 + 1))) as [|[cc v] rows] eqn:E;
    [exfalso; apply Hne; reflexivity|].
  assert (Hin : In (cc, v) (read 0 st (log_pkey w id p) (log_cc l1) (if c02_low_mask <=? l2 then [] else log_cc (l2 + 1))))
    by (rewrite E; left; reflexivity).
  apply (read_exact 0 st _ _ _ _ _ S) in Hin. destruct Hin as [[r [Hr _]] _].
  unfold raw_lookup, part in Hr. destruct (sm_get (log_pkey w id p) st) as [pt|] eqn:G; [|discriminate].
  eapply sm_get_key_In. exact G.
Qed.

Lemma pkey_inj w id q q' : q < 2 ^ 64 -> q' < 2 ^ 64 -> log_pkey w id q = log_pkey w id q' -> q = q'.
Proof.
  intros Hq Hq' E. unfold log_pkey in E. rewrite !nb_be in E.
  destruct w; apply app_inv_head in E; apply app_inv_head in E; apply be_bytes_inj in E; auto.
Qed.

Lemma sub_bounds g start c q : sub_from start q <= 4095 /\ sub_to g start c q <= 4095.
Proof.
  unfold sub_from, sub_to. rewrite low_mask_val.
  destruct (hi_lo start). destruct (hi_lo (fin_of start c)).
  destruct (q =? hi start); destruct ((q =? hi (fin_of start c)) && exact_last g start c); lia.
Qed.

Lemma hi_cover g start c : hi (cover_end g start c) = hi (fin_of start c).
Proof.
  unfold cover_end. destruct (exact_last g start c); [reflexivity|].
  replace (hi (fin_of start c) * 4096 + 4095) with (glue (hi (fin_of start c)) 4095) by (unfold glue; rewrite prc_val; reflexivity).
  apply hi_glue. lia.
Qed.

(* what a range read delivers, with no side conditions on the log: the stored events between
   start and the end of the covered range, as long as no earlier part of the range was empty *)
Theorem read_many_delivers g (st : lstore) w id start c o v :
  log_inv st -> start <= fin_of start c -> fin_of start c < 2 ^ 64 ->
  (In (o, v) (read_many g (S (length st)) st w id start c) <->
   log_get st w id o = Some v /\ start <= o <= cover_end g start c /\
   forall q, hi start <= q < hi o -> read_part st w id q (sub_from start q) (sub_to g start c q) <> []).
Proof.
  intros [S W] Hsf Hf. unfold read_many.
  rewrite (read_from_spec _ (log_pkey w id) (map fst st) (2 ^ 64) (pkey_inj w id)
             (fun q H => read_part_key st w id q _ _ S H) (hi (fin_of start c))) with (seen := []).
  - split.
    + intros [q [Hq [Hin Hne]]]. destruct (sub_bounds g start c q) as [B1 B2].
      apply (read_part_In st w id q _ _ o v S W B1 B2) in Hin. destruct Hin as [Eh [Hl Hg]]. subst q.
      split; [exact Hg|]. split; [|exact Hne]. apply (split_cover g start c o Hsf). auto.
    + intros [Hg [Hr Hne]]. apply (split_cover g start c o Hsf) in Hr. destruct Hr as [Hq Hl].
      exists (hi o). split; [exact Hq|]. split; [|exact Hne].
      destruct (sub_bounds g start c (hi o)) as [B1 B2].
      apply (read_part_In st w id (hi o) _ _ o v S W B1 B2). auto.
  - destruct (hi_lo (fin_of start c)). lia.
  - constructor.
  - intros k H. contradiction.
  - intros k H. contradiction.
  - rewrite map_length. cbn [length]. lia.
Qed.

Lemma read_many_asc g (st : lstore) w id start c fuel : log_inv st -> asc (map fst (read_many g fuel st w id start c)).
Proof.
  intros [S W]. unfold read_many. apply read_from_asc.
  - intros q. apply read_part_asc; assumption.
  - intros q o v Hin. destruct (sub_bounds g start c q) as [B1 B2].
    apply (read_part_In st w id q _ _ o v S W B1 B2) in Hin. tauto.
Qed.

(* every partition between the start and a stored event of the range holds a stored event at or
   after the start (always true for a log without holes) *)
Definition no_gap (st : lstore) (w : bool) (id start last : N) : Prop :=
  forall o v, log_get st w id o = Some v -> start <= o <= last ->
  forall q, hi start <= q < hi o -> exists o' v', log_get st w id o' = Some v' /\ hi o' = q /\ start <= o'.

Lemma no_gap_parts g (st : lstore) w id start c o v :
  log_inv st -> no_gap st w id start (cover_end g start c) ->
  log_get st w id o = Some v -> start <= o <= cover_end g start c ->
  forall q, hi start <= q < hi o -> read_part st w id q (sub_from start q) (sub_to g start c q) <> [].
Proof.
  intros [S W] NG Hg Hr q Hq.
  destruct (NG o v Hg Hr q Hq) as [o' [v' [Hg' [Eh Hs]]]].
  assert (Hin : In (o', v') (read_part st w id q (sub_from start q) (sub_to g start c q))).
  { destruct (sub_bounds g start c q) as [B1 B2]. apply (read_part_In st w id q _ _ o' v' S W B1 B2).
    split; [exact Eh|]. split; [|exact Hg'].
    assert (Hlast : hi o <= hi (fin_of start c)) by (rewrite <- (hi_cover g start c); apply hi_mono; lia).
    unfold sub_from, sub_to. rewrite low_mask_val.
    destruct (hi_lo o') as [Eo' Lo']. destruct (hi_lo start) as [Es Ls].
    destruct (N.eqb_spec q (hi (fin_of start c))) as [E|E]; [lia|]. cbn [andb].
    destruct (N.eqb_spec q (hi start)) as [E2|E2]; lia. }
  intros C. rewrite C in Hin. contradiction.
Qed.

(* ---- the property: count >= 1 events from start ---- *)
Theorem read_log_exact_proved g (st : lstore) w id start (count : Z) :
  log_inv st -> (1 <= count)%Z -> is_rte (Z.to_N count) = false -> start + Z.to_N count <= 2 ^ 64 ->
  (g = true -> (start + Z.to_N count - 1) mod 4096 <> 0) ->
  no_gap st w id start (start + Z.to_N count - 1) ->
  (forall o v, In (o, v) (read_log g st w id start count) <-> log_get st w id o = Some v /\ start <= o < start + Z.to_N count)
  /\ asc (map fst (read_log g st w id start count)).
Proof.
  intros Inv H1 R H2 Hg NG. unfold read_log.
  destruct (Z.leb_spec count 0) as [L|L]; [lia|].
  set (c := Z.to_N count) in *. assert (Hc : 1 <= c) by (unfold c; lia).
  destruct (N.eqb_spec c 1) as [E1|E1].
  - split.
    + intros o v. rewrite E1. destruct (log_get st w id start) as [v0|] eqn:G; cbn [In]; split.
      * intros [E|[]]. inversion E; subst. split; [exact G|lia].
      * intros [Hg' Hr]. left. assert (o = start) by lia. subst o. congruence.
      * contradiction.
      * intros [Hg' Hr]. assert (o = start) by lia. subst o. congruence.
    + destruct (log_get st w id start); cbn; auto.
  - pose proof (cover_exact g start c R Hc H2 Hg) as Ec.
    pose proof (fin_plain start c R Hc H2) as Ef.
    split; [|apply read_many_asc; exact Inv].
    intros o v. rewrite (read_many_delivers g st w id start c o v Inv) by (rewrite Ef; lia).
    rewrite Ec. split.
    + intros [Hg' [Hr _]]. split; [exact Hg'|lia].
    + intros [Hg' Hr]. split; [exact Hg'|]. split; [lia|].
      apply (no_gap_parts g st w id start c o v Inv); [rewrite Ec; exact NG|exact Hg'|rewrite Ec; lia].
Qed.

(* ---- ReadToTheEnd: everything stored from start on (offsets below 2^63) ---- *)
Theorem read_log_rte_proved g (st : lstore) w id start :
  log_inv st -> start <= c02_read_to_end -> no_gap st w id start c02_read_to_end ->
  (forall o v, In (o, v) (read_log g st w id start (Z.of_N c02_read_to_end)) <->
               log_get st w id o = Some v /\ start <= o <= c02_read_to_end)
  /\ asc (map fst (read_log g st w id start (Z.of_N c02_read_to_end))).
Proof.
  intros Inv Hs NG. unfold read_log. rewrite N2Z.id.
  assert (R : is_rte c02_read_to_end = true) by reflexivity.
  change ((Z.of_N c02_read_to_end <=? 0)%Z) with false. change (c02_read_to_end =? 1) with false. cbv iota.
  pose proof (cover_rte g start _ R) as Ec. pose proof (fin_rte start _ R) as Ef. rewrite rte_val in *.
  split; [|apply read_many_asc; exact Inv].
  intros o v. rewrite (read_many_delivers g st w id start _ o v Inv) by (rewrite Ef; lia).
  rewrite Ec. split.
  - intros [Hg' [Hr _]]. auto.
  - intros [Hg' Hr]. split; [exact Hg'|]. split; [exact Hr|].
    apply (no_gap_parts g st w id start _ o v Inv); [rewrite Ec; exact NG|exact Hg'|rewrite Ec; exact Hr].
Qed.

Lemma read_log_nonpositive g (st : lstore) w id start count : (count <= 0)%Z -> read_log g st w id start count = [].
Proof. intros H. unfold read_log. destruct (Z.leb_spec count 0); [reflexivity|lia]. Qed.

End Main.

(* ---------- statements about the split alone ---------- *)
Theorem parts_exact_proved g start count x :
  1 <= count -> is_rte count = false -> start + count <= 2 ^ 64 -> (g = true -> (start + count - 1) mod 4096 <> 0) ->
  ((exists t, In t (parts g start count) /\ in_sub x t) <-> start <= x < start + count).
Proof.
  intros H1 R H2 Hg. rewrite parts_cover by (rewrite (fin_plain start count R H1 H2); lia).
  rewrite (cover_exact g start count R H1 H2 Hg). lia.
Qed.

Theorem parts_to_end_proved g start x :
  start <= c02_read_to_end ->
  ((exists t, In t (parts g start c02_read_to_end) /\ in_sub x t) <-> start <= x <= c02_read_to_end).
Proof.
  intros Hs. assert (R : is_rte c02_read_to_end = true) by reflexivity.
  rewrite parts_cover by (rewrite (fin_rte start _ R); rewrite rte_val in Hs; exact Hs).
  rewrite (cover_rte g start _ R). rewrite rte_val. reflexivity.
Qed.

(* ---------- appends: read-your-write and frame ---------- *)
Section Appends.
Context {V : Type}.
Notation lstore := (lstore V).

Lemma app_inj_len {A} (a a' b b' : list A) : length a = length a' -> a ++ b = a' ++ b' -> a = a' /\ b = b'.
Proof.
  revert a'. induction a as [|x a IH]; intros [|x' a'] L E; try discriminate; cbn [app] in *; auto.
  inversion E; subst. destruct (IH a' (eq_add_S _ _ L) H1) as [-> ->]. auto.
Qed.

Lemma log_key_inj (w : bool) id o (w' : bool) id' o' :
  id < (if w then 2 ^ 64 else 65536) -> id' < (if w' then 2 ^ 64 else 65536) -> hi o < 2 ^ 64 -> hi o' < 2 ^ 64 ->
  (log_pkey w id (hi o), log_cc (lo o)) = (log_pkey w' id' (hi o'), log_cc (lo o')) -> w = w' /\ id = id' /\ o = o'.
Proof.
  intros Hi Hi' Ho Ho' E. assert (E1 := f_equal fst E). assert (E2 := f_equal snd E). cbn [fst snd] in E1, E2. clear E.
  unfold log_cc in E2. rewrite !nb_be in E2.
  destruct (hi_lo o) as [Eo Lo]. destruct (hi_lo o') as [Eo' Lo'].
  apply be_bytes_inj in E2; try (cbn; lia).
  unfold log_pkey in E1. rewrite !nb_be in E1.
  destruct w, w'; try (cbn in E1; discriminate).
  - apply app_inv_head in E1.
    assert (L : length (be_bytes 8 id) = length (be_bytes 8 id')) by (rewrite !be_bytes_length; reflexivity).
    destruct (app_inj_len _ _ _ _ L E1) as [A B].
    apply be_bytes_inj in A; auto. apply be_bytes_inj in B; auto. repeat split; auto. lia.
  - apply app_inv_head in E1.
    assert (L : length (be_bytes 2 id) = length (be_bytes 2 id')) by (rewrite !be_bytes_length; reflexivity).
    destruct (app_inj_len _ _ _ _ L E1) as [A B].
    apply be_bytes_inj in A; auto. apply be_bytes_inj in B; auto. repeat split; auto. lia.
Qed.

(* a successful append is readable at its offset *)
Theorem log_get_put_same c (st st' : lstore) w id o v :
  log_put c st w id o v = (st', true) -> log_get st' w id o = Some v.
Proof.
  unfold log_put, log_get. destruct c.
  - intros E. inversion E; subst. apply get_put_same.
  - unfold insert_if_not_exists. destruct (lookup 0 st _ _) eqn:L; intros E; inversion E; subst.
    unfold get, lookup. rewrite raw_set_same. reflexivity.
Qed.

(* ... a refused one changes nothing ... *)
Theorem log_put_refused c (st st' : lstore) w id o v : log_put c st w id o v = (st', false) -> st' = st.
Proof.
  unfold log_put. destruct c; [intros E; inversion E|].
  unfold insert_if_not_exists. destruct (lookup 0 st _ _); intros E; inversion E; reflexivity.
Qed.

(* ... and no append touches another log entry *)
Theorem log_get_put_other c (st : lstore) (w : bool) id o v (w' : bool) id' o' :
  id < (if w then 2 ^ 64 else 65536) -> id' < (if w' then 2 ^ 64 else 65536) -> o < 2 ^ 64 -> o' < 2 ^ 64 ->
  (w', id', o') <> (w, id, o) ->
  log_get (fst (log_put c st w id o v)) w' id' o' = log_get st w' id' o'.
Proof.
  intros Hi Hi' Ho Ho' Hne.
  assert (Hh : hi o < 2 ^ 64) by (destruct (hi_lo o); lia).
  assert (Hh' : hi o' < 2 ^ 64) by (destruct (hi_lo o'); lia).
  assert (K : (log_pkey w' id' (hi o'), log_cc (lo o')) <> (log_pkey w id (hi o), log_cc (lo o))).
  { intros E. apply log_key_inj in E; auto. destruct E as (-> & -> & ->). apply Hne. reflexivity. }
  unfold log_put, log_get. destruct c; cbn [fst].
  - unfold put, get, lookup. rewrite raw_set_other by exact K. reflexivity.
  - unfold insert_if_not_exists. destruct (lookup 0 st _ _); cbn [fst]; [reflexivity|].
    unfold get, lookup. rewrite raw_set_other by exact K. reflexivity.
Qed.

End Appends.

(* ---------- the unguarded last-partition rule: no exclusion left ---------- *)
Theorem parts_exact_unguarded g start count x :
  g = false -> 1 <= count -> is_rte count = false -> start + count <= 2 ^ 64 ->
  ((exists t, In t (parts g start count) /\ in_sub x t) <-> start <= x < start + count).
Proof. intros G H1 R H2. apply parts_exact_proved; auto. intros E. congruence. Qed.

Theorem read_log_exact_unguarded {V : Type} g (st : lstore V) w id start (count : Z) :
  g = false -> log_inv st -> (1 <= count)%Z -> is_rte (Z.to_N count) = false -> start + Z.to_N count <= 2 ^ 64 ->
  no_gap st w id start (start + Z.to_N count - 1) ->
  (forall o v, In (o, v) (read_log g st w id start count) <-> log_get st w id o = Some v /\ start <= o < start + Z.to_N count)
  /\ asc (map fst (read_log g st w id start count)).
Proof. intros G Inv H1 R H2 NG. apply read_log_exact_proved; auto. intros E. congruence. Qed.
