(* C02 - model of the event logs of pkg/istructsmem over the reference storage:
   A. log keys, readLogParts (log_iterate.go), PutPlog/PutWlog/ReadPLog/ReadWLog (impl.go);
   B. the event envelope codec storeEvent/loadEvent (event-dynobuf.go, types-dynobuf.go,
      internal/utils/bytes.go); the dynobuffers payload of a row is an opaque byte string;
   C. trace checking (agrees / satisfies).
   Definitions only. *)
From Coq Require Import List NArith ZArith Lia Bool.
From V Require Import Lib.Lex Lib.SMap Lib.Check Storage.Spec Gen.Params.
Import ListNotations.
Local Open Scope N_scope.

(* ================= A. logs ================= *)

(* crackID: `id >> partitionBits, uint16(id) & lowMask`; glueLogOffset: `hi<<partitionBits | low`
   (the translator pins these forms; lowMask = 2^partitionBits - 1 is a side condition in Properties/C02.v) *)
Definition prc : N := 2 ^ c02_partition_bits.
Definition hi (o : N) : N := o / prc.
Definition lo (o : N) : N := o mod prc.
Definition glue (h l : N) : N := h * prc + l.

Definition u64 : N := 2 ^ 64.

Definition nb (w : nat) (n : N) : bytes :=
  match c02_key_endian with BE => be_bytes w n | LE => le_bytes w n end.

(* plogKey / wlogKey: view id, partition id (16 bit) or workspace id (64 bit), offset hi *)
Definition log_pkey (wlog : bool) (id h : N) : bytes :=
  if wlog then nb 2 c02_view_wlog ++ nb 8 id ++ nb 8 h
  else nb 2 c02_view_plog ++ nb 2 id ++ nb 8 h.
Definition log_cc (l : N) : bytes := nb 2 l.

Fixpoint be_val_from (acc : N) (b : bytes) : N :=
  match b with [] => acc | x :: r => be_val_from (acc * 256 + x) r end.
Definition be_val (b : bytes) : N := be_val_from 0 b.

(* readLogParts *)
Definition is_rte (count : N) : bool := count =? c02_read_to_end.
Definition fin_of (start count : N) : N :=
  if is_rte count then c02_read_to_end else (start + count - 1) mod u64.
Definition sub_from (start p : N) : N := if p =? hi start then lo start else 0.
(* g = the `finishOffset%partitionRecordCount != 0` conjunct of the last-partition rule *)
Definition exact_last (g : bool) (start count : N) : bool :=
  negb (is_rte count) && (if g then negb (fin_of start count mod prc =? 0) else true).
Definition sub_to (g : bool) (start count p : N) : N :=
  if (p =? hi (fin_of start count)) && exact_last g start count then lo (fin_of start count) else c02_low_mask.

Fixpoint nseq (n : nat) (a : N) : list N :=
  match n with O => [] | S k => a :: nseq k (a + 1) end.

(* the (part, ccolsFrom, ccolsTo) calls of readLogParts when no call stops the loop *)
Definition parts (g : bool) (start count : N) : list (N * N * N) :=
  let a := hi start in
  let b := hi (fin_of start count) in
  map (fun p => (p, sub_from start p, sub_to g start count p)) (nseq (N.to_nat (b + 1 - a)) a).

Definition in_sub (x : N) (t : N * N * N) : Prop :=
  let '(p, l1, l2) := t in hi x = p /\ l1 <= lo x <= l2.

Section Log.
Context {V : Type}.

Definition lstore := store V.

(* PutPlog / PutWlog at trust level 0: InsertIfNotExists; sys.Corrupted events overwrite *)
Definition log_put (corrupted : bool) (st : lstore) (wlog : bool) (id o : N) (v : V) : lstore * bool :=
  let pk := log_pkey wlog id (hi o) in
  let cc := log_cc (lo o) in
  if corrupted then (put st pk cc v, true) else insert_if_not_exists 0 st pk cc v 0.

Definition log_get (st : lstore) (wlog : bool) (id o : N) : option V :=
  get 0 st (log_pkey wlog id (hi o)) (log_cc (lo o)).

(* the readPart closure of ReadPLog/ReadWLog: half-open storage read, offsets glued back *)
Definition read_part (st : lstore) (wlog : bool) (id p l1 l2 : N) : list (N * V) :=
  map (fun kv => (glue p (be_val (firstn 2 (fst kv))), snd kv))
      (read 0 st (log_pkey wlog id p) (log_cc l1) (if c02_low_mask <=? l2 then [] else log_cc (l2 + 1))).

(* the loop of readLogParts: stops at maxPart or at the first part that delivered nothing *)
Fixpoint read_from (fuel : nat) (rd : N -> list (N * V)) (maxp p : N) : list (N * V) :=
  match fuel with
  | O => []
  | S f =>
      if maxp <? p then [] else
      match rd p with
      | [] => []
      | rows => rows ++ read_from f rd maxp (p + 1)
      end
  end.

Definition read_many (g : bool) (fuel : nat) (st : lstore) (wlog : bool) (id start c : N) : list (N * V) :=
  read_from fuel (fun p => read_part st wlog id p (sub_from start p) (sub_to g start c p))
            (hi (fin_of start c)) (hi start).

(* ReadPLog / ReadWLog; the PLog cache only holds events PutPlog stored, so it is not modelled *)
Definition read_log (g : bool) (st : lstore) (wlog : bool) (id start : N) (count : Z) : list (N * V) :=
  if (count <=? 0)%Z then [] else
  let c := Z.to_N count in
  if c =? 1 then match log_get st wlog id start with Some v => [(start, v)] | None => [] end
  else read_many g (S (length st)) st wlog id start c.

(* every row of the store is a log row: clustering columns = two bytes of an offset's low part *)
Definition log_wf (st : lstore) : Prop :=
  forall pk cc r, raw_lookup st pk cc = Some r -> exists l, l <= c02_low_mask /\ cc = log_cc l.

Inductive put_op := PutOp (corrupted wlog : bool) (id o : N) (v : V).
Definition run_puts (ops : list put_op) : lstore :=
  fold_left (fun st op => match op with PutOp c w id o v => fst (log_put c st w id o v) end) ops [].

End Log.
Arguments lstore : clear implicits.
Arguments put_op : clear implicits.

(* ================= B. envelope codec ================= *)

Definition parser (A : Type) := bytes -> option (A * bytes).

Definition bind {A B : Type} (p : option (A * bytes)) (k : A -> bytes -> option (B * bytes)) : option (B * bytes) :=
  match p with Some (a, b) => k a b | None => None end.
Notation "'do' ( x , b ) <- e ; k" := (bind e (fun x b => k)) (at level 200, x name, b name, right associativity).

(* checkBufLen + buf.Next(w) *)
Fixpoint take (w : nat) (b : bytes) : option (bytes * bytes) :=
  match w with
  | O => Some ([], b)
  | S k => match b with
           | [] => None
           | x :: r => match take k r with Some (a, r') => Some (x :: a, r') | None => None end
           end
  end.
(* a length taken from the input: compared with what is left before anything is cut *)
Definition take_n (n : N) (b : bytes) : option (bytes * bytes) :=
  if N.of_nat (length b) <? n then None else take (N.to_nat n) b.

Definition rdn (w : nat) : parser N := fun b =>
  match take w b with Some (x, r) => Some (be_val x, r) | None => None end.
Definition rd_bool : parser bool := fun b =>
  match rdn 1 b with Some (x, r) => Some (negb (x =? 0), r) | None => None end.
(* ReadShortString *)
Definition rd_str : parser bytes := fun b => do (n, b) <- rdn 2 b; take_n n b.

Fixpoint rep {A : Type} (p : parser A) (n : nat) (b : bytes) : option (list A * bytes) :=
  match n with
  | O => Some ([], b)
  | S k => match p b with
           | None => None
           | Some (x, b') => match rep p k b' with Some (xs, b'') => Some (x :: xs, b'') | None => None end
           end
  end.

(* r_mod: rowType.isActiveModified - sys.IsActive was assigned by the event the row belongs to
   (ICUDRow.IsActivated / IsDeactivated of an update row) *)
(* r_nils: user-field indexes of the string/bytes fields that were put empty (rowType.nils; listed by
   SpecifiedValues with an empty value).  Written for CUD rows only - there the list is c_emptied and
   r_nils stays []; the rows of argument objects are stored without it. *)
Record row := mkRow { r_qid : N; r_id : N; r_parent : N; r_cont : N; r_active : bool; r_data : bytes; r_mod : bool; r_nils : list N }.
Inductive obj := Obj (r : row) (kids : list obj).
Record cud := mkCud { c_row : row; c_emptied : list N }.
(* ICUDRow.IsActivated / IsDeactivated of an update row (both false on a new row) *)
Definition activated (c : cud) : bool := r_mod (c_row c) && r_active (c_row c).
Definition deactivated (c : cud) : bool := r_mod (c_row c) && negb (r_active (c_row c)).
Record event := mkEvent {
  e_qid : N; e_part : N; e_poffs : N; e_ws : N; e_woffs : N; e_reg : N;
  e_sync : bool; e_dev : N; e_syncat : N;
  e_valid : bool; e_errstr : bytes; e_errname : bytes; e_errbytes : bytes;
  e_arg : obj; e_unl : obj; e_creates : list cud; e_updates : list cud }.

Definition null_row : row := mkRow 0 0 0 0 true [] false [].
Definition null_obj : obj := Obj null_row [].
Definition root (o : obj) : row := match o with Obj r _ => r end.

(* what decoding needs to know about the application: known QName ids, known container ids,
   whether index i names a string/bytes user field of type q, whether a stored original name
   parses as a QName, and (codec 0 only) the system-field mask of a type's kind *)
Record schema := mkSchema {
  s_qname : N -> bool; s_cont : N -> bool; s_emptied : N -> N -> bool; s_name : bytes -> bool; s_mask : N -> N }.

Definition be := be_bytes.
Definition b2n (b : bool) : N := if b then 1 else 0.
Definition nlen {A} (l : list A) : N := N.of_nat (length l).

(* ---- store ---- *)
(* the mask as it was before 35e511a40: no bit for "sys.IsActive was assigned" *)
Definition mask_of_old (r : row) : N :=
  (if r_id r =? 0 then 0 else c02_sfm_id) + (if r_parent r =? 0 then 0 else c02_sfm_parent)
  + (if r_cont r =? 0 then 0 else c02_sfm_container) + (if r_active r then 0 else c02_sfm_active).
Definition mask_of (r : row) : N :=
  mask_of_old r + (if c02_mask_carries_actmod && r_mod r then c02_sfm_actmod else 0).

(* storeRow + storeRowSysFields *)
Definition enc_row_with (mask : row -> N) (r : row) : bytes :=
  be 2 (r_qid r) ++
  if r_qid r =? 0 then [] else
    be 2 (mask r)
    ++ (if r_id r =? 0 then [] else be 8 (r_id r))
    ++ (if r_parent r =? 0 then [] else be 8 (r_parent r))
    ++ (if r_cont r =? 0 then [] else be 2 (r_cont r))
    ++ (if r_active r then [] else [0])
    ++ be 4 (nlen (r_data r)) ++ r_data r.
Definition enc_row : row -> bytes := enc_row_with mask_of.

(* storeObject *)
Fixpoint enc_obj (o : obj) : bytes :=
  match o with
  | Obj r ks => enc_row r ++ if r_qid r =? 0 then [] else be 2 (nlen ks) ++ flat_map enc_obj ks
  end.

(* storeEventCUD *)
Definition enc_cud (c : cud) : bytes :=
  enc_row (c_row c) ++ be 2 (nlen (c_emptied c)) ++ flat_map (be 2) (c_emptied c).

(* WriteShortString: strings of maxLen bytes or more are cut to maxLen *)
Definition cut_str (s : bytes) : bytes :=
  if nlen s <? c02_short_string_max then s else firstn (N.to_nat c02_short_string_max) s.
Definition enc_str (s : bytes) : bytes := be 2 (nlen (cut_str s)) ++ cut_str s.

Definition stored_valid (e : event) : bool := e_valid e && negb (e_qid e =? c02_qid_corrupted).

(* storeToBytes + storeEvent *)
Definition enc_event (e : event) : bytes :=
  [c02_codec_last] ++ be 2 (e_qid e)
  ++ be 2 (e_part e) ++ be 8 (e_poffs e) ++ be 8 (e_ws e) ++ be 8 (e_woffs e) ++ be 8 (e_reg e)
  ++ [b2n (e_sync e)] ++ (if e_sync e then be 2 (e_dev e) ++ be 8 (e_syncat e) else [])
  ++ [b2n (stored_valid e)]
  ++ if stored_valid e then
       enc_obj (e_arg e) ++ enc_obj (e_unl e)
       ++ be 2 (nlen (e_creates e)) ++ flat_map enc_cud (e_creates e)
       ++ be 2 (nlen (e_updates e)) ++ flat_map enc_cud (e_updates e)
     else
       enc_str (e_errstr e) ++ enc_str (e_errname e)
       ++ (let bs := if r_qid (root (e_unl e)) =? 0 then e_errbytes e else [] in be 4 (nlen bs) ++ bs).

(* ---- load ---- *)
Definition has (mask bit : N) : bool := N.land mask bit =? bit.
Definition opt_rd (c : bool) (w : nat) : parser N := fun b => if c then rdn w b else Some (0, b).

(* loadRow + loadRowSysFields *)
Definition dec_row (s : schema) (v : N) : parser row := fun b =>
  do (q, b) <- rdn 2 b;
  if negb (s_qname s q) then None else
  if q =? 0 then Some (null_row, b) else
  do (m, b) <- (if v =? 0 then Some (s_mask s q, b) else rdn 2 b);
  do (id, b) <- opt_rd (has m c02_sfm_id) 8 b;
  do (par, b) <- opt_rd (has m c02_sfm_parent) 8 b;
  do (cont, b) <- opt_rd (has m c02_sfm_container) 2 b;
  if has m c02_sfm_container && negb (s_cont s cont) then None else
  do (act, b) <- (if has m c02_sfm_active then rd_bool b else Some (true, b));
  do (len, b) <- rdn 4 b;
  do (data, b) <- take_n len b;
  Some (mkRow q id par cont act data (c02_mask_carries_actmod && has m c02_sfm_actmod) [], b).

(* loadObject; fuel bounds the nesting depth *)
Fixpoint dec_obj (fuel : nat) (s : schema) (v : N) (b : bytes) : option (obj * bytes) :=
  match fuel with
  | O => None
  | S f =>
      do (r, b) <- dec_row s v b;
      if r_qid r =? 0 then Some (Obj r [], b) else
      do (cnt, b) <- rdn 2 b;
      do (ks, b) <- rep (dec_obj f s v) (N.to_nat cnt) b;
      Some (Obj r ks, b)
  end.

(* loadEventCUD *)
Definition dec_cud (s : schema) (v : N) : parser cud := fun b =>
  do (r, b) <- dec_row s v b;
  if v <? c02_codec_emptied_since then Some (mkCud r [], b) else
  do (cnt, b) <- rdn 2 b;
  if nlen b <? 2 * cnt then None else
  do (es, b) <- rep (fun b => do (i, b) <- rdn 2 b; if s_emptied s (r_qid r) i then Some (i, b) else None) (N.to_nat cnt) b;
  Some (mkCud r es, b).

Definition dec_error (s : schema) : parser (bytes * bytes * bytes) := fun b =>
  do (es, b) <- rd_str b;
  do (en, b) <- rd_str b;
  if negb (s_name s en) then None else
  do (len, b) <- rdn 4 b;
  do (bs, b) <- take_n len b;
  Some ((es, en, bs), b).

(* loadFromBytes + loadEvent *)
Definition dec_event (s : schema) (fuel : nat) : parser event := fun b =>
  do (v, b) <- rdn 1 b;
  if c02_codec_last <? v then None else
  do (q, b) <- rdn 2 b;
  if negb (s_qname s q) then None else
  if q =? 0 then Some (mkEvent 0 0 0 0 0 0 false 0 0 true [] [] [] null_obj null_obj [] [], b) else
  do (part, b) <- rdn 2 b;
  do (poffs, b) <- rdn 8 b;
  do (ws, b) <- rdn 8 b;
  do (woffs, b) <- rdn 8 b;
  do (reg, b) <- rdn 8 b;
  do (sync, b) <- rd_bool b;
  do (dev, b) <- opt_rd sync 2 b;
  do (syncat, b) <- opt_rd sync 8 b;
  do (valid, b) <- rd_bool b;
  do (err, b) <- (if valid then Some (([], [], []), b) else dec_error s b);
  let '(es, en, bs) := err in
  if (q =? c02_qid_corrupted) || negb valid then
    Some (mkEvent q part poffs ws woffs reg sync dev syncat valid es en bs null_obj null_obj [] [], b)
  else
  do (arg, b) <- dec_obj fuel s v b;
  do (unl, b) <- dec_obj fuel s v b;
  do (n, b) <- rdn 2 b;
  do (cs, b) <- rep (dec_cud s v) (N.to_nat n) b;
  do (m, b) <- rdn 2 b;
  do (us, b) <- rep (dec_cud s v) (N.to_nat m) b;
  Some (mkEvent q part poffs ws woffs reg sync dev syncat valid es en bs arg unl cs us, b).

(* bytes left over after the event are ignored, as in loadFromBytes *)
Definition decode (s : schema) (b : bytes) : option event :=
  match dec_event s (length b) b with Some (e, _) => Some e | None => None end.

Definition proper_prefix (p b : bytes) : Prop := exists ext, ext <> [] /\ b = p ++ ext.

(* what the log keeps of an event.  Valid event: everything (the rows' "sys.IsActive was assigned"
   marks too, when the mask carries them).  Event that is not valid (build error, sys.Corrupted):
   only the error record - message and original name cut to 65535 bytes, original bytes unless the
   command has an unlogged argument; the builder's argument objects and CUD rows are not stored. *)
Definition clear_row (r : row) : row := mkRow (r_qid r) (r_id r) (r_parent r) (r_cont r) (r_active r) (r_data r) false (r_nils r).
Fixpoint clear_obj (o : obj) : obj := match o with Obj r ks => Obj (clear_row r) (map clear_obj ks) end.
Definition clear_cud (c : cud) : cud := mkCud (clear_row (c_row c)) (c_emptied c).
Definition drop_nils_row (r : row) : row := mkRow (r_qid r) (r_id r) (r_parent r) (r_cont r) (r_active r) (r_data r) (r_mod r) [].
Fixpoint drop_nils_obj (o : obj) : obj := match o with Obj r ks => Obj (drop_nils_row r) (map drop_nils_obj ks) end.
Definition with_args (e : event) (a u : obj) : event :=
  mkEvent (e_qid e) (e_part e) (e_poffs e) (e_ws e) (e_woffs e) (e_reg e) (e_sync e) (e_dev e) (e_syncat e)
          (e_valid e) (e_errstr e) (e_errname e) (e_errbytes e) a u (e_creates e) (e_updates e).
Definition drop_arg_nils (e : event) : event := with_args e (drop_nils_obj (e_arg e)) (drop_nils_obj (e_unl e)).
Definition stored_form (e : event) : event :=
  if stored_valid e then
    drop_arg_nils
      (if c02_mask_carries_actmod then e else
       mkEvent (e_qid e) (e_part e) (e_poffs e) (e_ws e) (e_woffs e) (e_reg e) (e_sync e) (e_dev e) (e_syncat e)
               (e_valid e) (e_errstr e) (e_errname e) (e_errbytes e) (clear_obj (e_arg e)) (clear_obj (e_unl e))
               (map clear_cud (e_creates e)) (map clear_cud (e_updates e)))
  else
    mkEvent (e_qid e) (e_part e) (e_poffs e) (e_ws e) (e_woffs e) (e_reg e) (e_sync e) (e_dev e) (e_syncat e)
            (e_valid e) (cut_str (e_errstr e)) (cut_str (e_errname e))
            (if r_qid (root (e_unl e)) =? 0 then e_errbytes e else []) null_obj null_obj [] [].

(* the event object PutPlog returns and keeps in the PLog event cache, after encoding:
   clears = true (the code since c96e94a78): an event that is not valid is cut down to its error
   record - argument objects and CUD rows cleared, original bytes forgotten when there is an
   unlogged argument; drops = true (since 75b678c2b): the rows of the argument objects lose their
   emptied-field marks; with both false it is the builder's object unchanged *)
Definition returned_form_with (clears drops : bool) (e : event) : event :=
  if clears && negb (stored_valid e) then
    mkEvent (e_qid e) (e_part e) (e_poffs e) (e_ws e) (e_woffs e) (e_reg e) (e_sync e) (e_dev e) (e_syncat e)
            (e_valid e) (e_errstr e) (e_errname e)
            (if r_qid (root (e_unl e)) =? 0 then e_errbytes e else []) null_obj null_obj [] []
  else if drops then drop_arg_nils e else e.
Definition returned_form : event -> event := returned_form_with c02_putplog_clears_invalid c02_putplog_drops_arg_nils.

(* storeToBytes of an event that was decoded without keeping its bytes (range reads): for an event
   that is not valid storeEventBuildError writes, as the original name, the name kept in the error
   record (orig = true, the code since 796fe6f32) or the event's own name, which after decoding is
   sys.Error / sys.Corrupted (orig = false) *)
Definition reenc_name_with (orig : bool) (e : event) : bytes :=
  if orig then e_errname e
  else if e_qid e =? c02_qid_corrupted then c02_name_corrupted else c02_name_error.
Definition reencode_with (orig : bool) (e : event) : bytes :=
  enc_event (if stored_valid e then e else
    mkEvent (e_qid e) (e_part e) (e_poffs e) (e_ws e) (e_woffs e) (e_reg e) (e_sync e) (e_dev e) (e_syncat e)
            (e_valid e) (e_errstr e) (reenc_name_with orig e) (e_errbytes e) (e_arg e) (e_unl e) (e_creates e) (e_updates e)).
Definition reencode : event -> bytes := reencode_with c02_reencode_orig_name.

(* the original name of an error event is stored as the text pkg.entity; loadEventBuildError gets
   the QName back with ParseQName, or - when the text does not have exactly one dot (3ba98d88a) -
   by cutting it at the first dot *)
Definition qname_text (pkg ent : bytes) : bytes := pkg ++ 46 :: ent.
Fixpoint split_first_dot (t : bytes) : bytes * bytes :=
  match t with
  | [] => ([], [])
  | x :: r => if x =? 46 then ([], r) else let '(p, e) := split_first_dot r in (x :: p, e)
  end.

(* ================= C. trace checking ================= *)

(* appdef.ParseQName accepts a text with exactly one dot *)
Definition name_one_dot (en : bytes) : bool := (length (filter (N.eqb 46) en) =? 1)%nat.
(* loadEventBuildError fails on a name ParseQName rejects (c02_errname_parse_strict) or keeps it *)
Definition name_ok (strict : bool) (en : bytes) : bool := if strict then name_one_dot en else true.
Definition sch_strict : schema := mkSchema (fun _ => true) (fun _ => true) (fun _ _ => true) name_one_dot (fun _ => 0).
Definition sch_any : schema :=
  mkSchema (fun _ => true) (fun _ => true) (fun _ _ => true) (name_ok c02_errname_parse_strict) (fun _ => 0).
(* the application's table QName id -> system-field mask of the type's kind (codec 0 rows) *)
Fixpoint mask_lookup (t : list (N * N)) (q : N) : N :=
  match t with [] => 0 | (q', m) :: r => if q =? q' then m else mask_lookup r q end.
Definition sch_masks (t : list (N * N)) : schema :=
  mkSchema (fun _ => true) (fun _ => true) (fun _ _ => true) (name_ok c02_errname_parse_strict) (mask_lookup t).

(* emptied indexes are written in Go map order: compared as sets *)
Definition nset_eqb (a b : list N) : bool :=
  (length a =? length b)%nat && forallb (fun x => existsb (N.eqb x) b) a && forallb (fun x => existsb (N.eqb x) a) b.
Definition row_eqb (a b : row) : bool :=
  (r_qid a =? r_qid b) && (r_id a =? r_id b) && (r_parent a =? r_parent b) && (r_cont a =? r_cont b)
  && Bool.eqb (r_active a) (r_active b) && lex_eqb (r_data a) (r_data b) && Bool.eqb (r_mod a) (r_mod b) && nset_eqb (r_nils a) (r_nils b).
Fixpoint obj_eqb (a b : obj) : bool :=
  match a, b with
  | Obj r ks, Obj r' ks' =>
      row_eqb r r' &&
      (fix go (l l' : list obj) : bool :=
         match l, l' with
         | [], [] => true
         | x :: t, y :: t' => obj_eqb x y && go t t'
         | _, _ => false
         end) ks ks'
  end.
Definition cud_eqb (a b : cud) : bool :=
  row_eqb (c_row a) (c_row b) && nset_eqb (c_emptied a) (c_emptied b).
(* updates are kept in a Go map keyed by record id: compared as sets *)
Definition cudset_eqb (a b : list cud) : bool :=
  (length a =? length b)%nat && forallb (fun x => existsb (cud_eqb x) b) a && forallb (fun x => existsb (cud_eqb x) a) b.
Definition event_eqb (a b : event) : bool :=
  (e_qid a =? e_qid b) && (e_part a =? e_part b) && (e_poffs a =? e_poffs b) && (e_ws a =? e_ws b)
  && (e_woffs a =? e_woffs b) && (e_reg a =? e_reg b) && Bool.eqb (e_sync a) (e_sync b)
  && (e_dev a =? e_dev b) && (e_syncat a =? e_syncat b) && Bool.eqb (e_valid a) (e_valid b)
  && lex_eqb (e_errstr a) (e_errstr b) && lex_eqb (e_errname a) (e_errname b) && lex_eqb (e_errbytes a) (e_errbytes b)
  && obj_eqb (e_arg a) (e_arg b) && obj_eqb (e_unl a) (e_unl b)
  && list_eqb cud_eqb (e_creates a) (e_creates b) && cudset_eqb (e_updates a) (e_updates b).

(* what an accessor dump shows of a row: no payload; the "assigned" mark only on update rows
   (through IsActivated / IsDeactivated) *)
Definition strip_row (keep_mod : bool) (r : row) : row :=
  mkRow (r_qid r) (r_id r) (r_parent r) (r_cont r) (r_active r) [] (keep_mod && r_mod r) (r_nils r).
Fixpoint strip_obj (o : obj) : obj := match o with Obj r ks => Obj (strip_row false r) (map strip_obj ks) end.
Definition strip_cud (is_new : bool) (c : cud) : cud := mkCud (strip_row (negb is_new) (c_row c)) (c_emptied c).
Definition strip (e : event) : event :=
  mkEvent (e_qid e) (e_part e) (e_poffs e) (e_ws e) (e_woffs e) (e_reg e) (e_sync e) (e_dev e) (e_syncat e)
          (e_valid e) (e_errstr e) (e_errname e) (e_errbytes e) (strip_obj (e_arg e)) (strip_obj (e_unl e))
          (map (strip_cud true) (e_creates e)) (map (strip_cud false) (e_updates e)).

Fixpoint set_nth (i : nat) (x : N) (b : bytes) : bytes :=
  match b, i with
  | [], _ => []
  | _ :: r, O => x :: r
  | y :: r, S k => y :: set_nth k x r
  end.

Definition is_some {A} (o : option A) : bool := match o with Some _ => true | None => false end.

(* lengths n < length raw whose prefix the model's decoder accepts *)
Definition accepted_prefixes (raw : bytes) : list N :=
  filter (fun n => is_some (decode sch_any (firstn (N.to_nat n) raw))) (map N.of_nat (seq 0 (length raw))).

Inductive lop :=
(* dig: digest of the accessor dump of the event PutPlog returned; dstored: digest of the dump of
   its stored form (differs only for an invalid event that carries argument objects / CUD rows or
   an error text of 65535 bytes or more; 0 = the stored row does not decode); res: 0 stored,
   1 refused (sequence violation) *)
| LPut (wlog : bool) (id off : N) (corrupted : bool) (dig dstored : N) (res : N)
(* a new app-structs instance over the same storage: the PLog event cache starts empty *)
| LRestart
(* got: (offset, digest of the delivered event's accessor dump) in callback order; err: 0 = nil *)
| LRead (wlog : bool) (id off : N) (count : Z) (got : list (N * N)) (err : N).

Inductive trace :=
(* cache_on: PLog event cache in use (the scenarios stay below its capacity: no eviction) *)
| TLog (cache_on : bool) (ops : list lop)
(* one event: the row stored in the log, the accessor dumps (payloads empty) of the event PutPlog
   returned and of the event read back, their content digests, whether the callback got the
   requested offset, the prefix lengths the real decoder accepted, single-byte mutations
   (position, new byte, accepted by the real decoder); masks = kind masks of the schema's types;
   reraw / dreput: the WLog row written by PutWlog of the event read back with a range read (no
   kept bytes: re-encoded) into a second storage, and the digest of that row's read-back *)
| TCodec (masks : list (N * N)) (raw : bytes) (put_dump read_dump : event) (dput dread : N) (off_ok : bool)
         (accepted : list N) (muts : list (N * N * bool)) (reraw : bytes) (dreput : N).

Definition pair_eqb (a b : N * N) : bool := (fst a =? fst b) && (snd a =? snd b).

(* the PLog event cache: (partition, offset) -> digest of the event object PutPlog returned *)
Fixpoint pc_get (k : N * N) (pc : list (N * N * N)) : option N :=
  match pc with
  | [] => None
  | (k', d) :: r => if pair_eqb k k' then Some d else pc_get k r
  end.

Fixpoint until_undecodable (l : list (N * N)) : list (N * N) * bool :=
  match l with
  | [] => ([], false)
  | (o, d) :: r => if d =? 0 then ([], true) else let '(p, f) := until_undecodable r in ((o, d) :: p, f)
  end.

Fixpoint agrees_log (cache_on : bool) (pc : list (N * N * N)) (st : lstore N) (ops : list lop) : bool :=
  match ops with
  | [] => true
  | LPut wlog id off corrupted dig dst res :: rest =>
      let '(st', ok) := log_put corrupted st wlog id off dst in
      (res =? (if ok then 0 else 1))
      && agrees_log cache_on (if cache_on && negb wlog && ok then ((id, off), dig) :: pc else pc) st' rest
  | LRestart :: rest => agrees_log cache_on [] st rest
  | LRead wlog id off count got err :: rest =>
      let from_storage := read_log c02_last_part_guard st wlog id off count in
      (* ReadPLog(…, 1) looks into the PLog event cache first *)
      let model := if negb wlog && (count =? 1)%Z then
                     match pc_get (id, off) pc with Some d => [(off, d)] | None => from_storage end
                   else from_storage in
      (* dstored = 0 marks an entry whose stored row does not decode (original name of an error
         event that ParseQName rejects): the read delivers what precedes it and fails *)
      let '(deliv, failed) := until_undecodable model in
      (err =? (if failed then 1 else 0)) && list_eqb pair_eqb deliv got && agrees_log cache_on pc st rest
  end.

Definition agrees (t : trace) : bool :=
  match t with
  | TLog cache_on ops => agrees_log cache_on [] [] ops
  | TCodec masks raw pd rd _ _ off_ok accepted muts reraw _ =>
      match decode sch_any raw with
      | None => false
      | Some e =>
          (* the stored row decodes to what the code read back and re-encodes to itself; what was
             read back is the stored form of what was appended; the callback got the offset;
             re-encoding the decoded event gives the re-put row ... *)
          event_eqb (strip e) rd && lex_eqb (enc_event e) raw
          && event_eqb (stored_form pd) rd && off_ok
          && list_eqb N.eqb (accepted_prefixes raw) accepted
          && forallb (fun m => let '(pos, x, acc) := m in
                               if is_some (decode (sch_masks masks) (set_nth (N.to_nat pos) x raw)) then true else negb acc) muts
          (* ... up to the order of update rows and emptied-field indexes (Go map order) *)
          && (length (reencode e) =? length reraw)%nat
          && match decode sch_any (reencode e), decode sch_any reraw with
             | Some a, Some b => event_eqb a b
             | _, _ => false
             end
      end
  end.

(* ---- the property judged on observed outputs only ---- *)

(* what was appended so far, from the observed put results: per log a list sorted by offset *)
Fixpoint olog_ins (o d : N) (l : list (N * N)) : list (N * N) :=
  match l with
  | [] => [(o, d)]
  | (o', d') :: r => if o <? o' then (o, d) :: l else if o =? o' then (o, d) :: r else (o', d') :: olog_ins o d r
  end.

Definition okey_eqb (a b : bool * N) : bool := Bool.eqb (fst a) (fst b) && (snd a =? snd b).
Fixpoint olog_get (k : bool * N) (ls : list (bool * N * list (N * N))) : list (N * N) :=
  match ls with
  | [] => []
  | (k', l) :: r => if okey_eqb k k' then l else olog_get k r
  end.
Fixpoint olog_set (k : bool * N) (l : list (N * N)) (ls : list (bool * N * list (N * N))) : list (bool * N * list (N * N)) :=
  match ls with
  | [] => [(k, l)]
  | (k', l') :: r => if okey_eqb k k' then (k, l) :: r else (k', l') :: olog_set k l r
  end.

(* the stored events with offset in [off, off+count), ascending; ReadToTheEnd = [off, oo) *)
Definition expected (l : list (N * N)) (off : N) (count : Z) : list (N * N) :=
  if (count <=? 0)%Z then [] else
  let c := Z.to_N count in
  filter (fun od => (off <=? fst od) && (is_rte c || (fst od <? off + c))) l.

Fixpoint satisfies_log (ls : list (bool * N * list (N * N))) (ops : list lop) : bool :=
  match ops with
  | [] => true
  | LRestart :: rest => satisfies_log ls rest
  | LPut wlog id off _ dig _ res :: rest =>
      satisfies_log (if res =? 0 then olog_set (wlog, id) (olog_ins off dig (olog_get (wlog, id) ls)) ls else ls) rest
  | LRead wlog id off count got err :: rest =>
      (err =? 0) && list_eqb pair_eqb (expected (olog_get (wlog, id) ls) off count) got && satisfies_log ls rest
  end.

Definition satisfies (t : trace) : bool :=
  match t with
  | TLog _ ops => satisfies_log [] ops
  | TCodec _ _ pd rd dput dread off_ok accepted _ _ dreput =>
      (* read back = appended; appending what was read back and reading that gives the same again *)
      (dput =? dread) && event_eqb pd rd && off_ok && match accepted with [] => true | _ => false end
      && (dreput =? dread)
  end.
