(* C07 - proofs about the cache model: schedules (no stale read after a completed write). *)
From Coq Require Import List NArith ZArith Lia Bool Arith ZifyNat ZifyN ZifyBool.
From V Require Import Lib.Lex Lib.SMap Lib.Check Storage.Spec Gen.Params C06_Storage.Model C07_Cache.Model.
Import ListNotations.
Local Open Scope N_scope.

Lemma flag_fill_guarded : cache_positive_fill_guarded = true. Proof. reflexivity. Qed.
Lemma flag_batch_fill_guarded : cache_batch_fill_guarded = true. Proof. reflexivity. Qed.

(* ---------- list helpers ---------- *)

Lemma nth_error_set_nth_same {T} (l : list T) i x y : nth_error l i = Some y -> nth_error (set_nth l i x) i = Some x.
Proof.
  revert i; induction l as [|a l IH]; intros [|i] H; cbn in *; try discriminate; auto.
Qed.

Lemma nth_error_set_nth_other {T} (l : list T) i j x : i <> j -> nth_error (set_nth l i x) j = nth_error l j.
Proof.
  revert i j; induction l as [|a l IH]; intros [|i] [|j] H; cbn; auto; try congruence.
Qed.

Definition entry_of (starts : list (nat * N)) (i : nat) : option (nat * N) :=
  find (fun e => Nat.eqb (fst e) i) starts.

Lemma entry_cons_same starts i c : entry_of ((i, c) :: starts) i = Some (i, c).
Proof. unfold entry_of. cbn. rewrite Nat.eqb_refl. reflexivity. Qed.

Lemma entry_cons_other starts i j c : i <> j -> entry_of ((i, c) :: starts) j = entry_of starts j.
Proof. intros H. unfold entry_of. cbn. destruct (Nat.eqb_spec i j); [contradiction|reflexivity]. Qed.

Lemma entry_filter_same starts i : entry_of (filter (fun e => negb (Nat.eqb (fst e) i)) starts) i = None.
Proof.
  unfold entry_of. induction starts as [|[j c] r IH]; cbn; auto.
  destruct (Nat.eqb_spec j i); cbn; auto. destruct (Nat.eqb_spec j i); [contradiction|]. exact IH.
Qed.

Lemma entry_filter_other starts i j : i <> j ->
  entry_of (filter (fun e => negb (Nat.eqb (fst e) i)) starts) j = entry_of starts j.
Proof.
  intros H. unfold entry_of. induction starts as [|[k c] r IH]; cbn; auto.
  destruct (Nat.eqb_spec k i); cbn.
  - subst. destruct (Nat.eqb_spec i j); [contradiction|]. exact IH.
  - destruct (Nat.eqb_spec k j); auto.
Qed.

(* ---------- freshness of a returned content ---------- *)

Lemma flag_ttlget_guarded : cache_ttlget_negative_fill_guarded = true. Proof. reflexivity. Qed.

Lemma nth_error_Some_lt {T} (l : list T) n x : nth_error l n = Some x -> (n < length l)%nat.
Proof. intros H. apply nth_error_Some. congruence. Qed.

(* r is what version ver shows at time now: its content, or "not found" once it has expired *)
Definition shows (now : N) (ver : version) (r : option N) : Prop :=
  fst ver = r \/ (r = None /\ s_expired now (snd ver) = true).

Definition fresh (hist : list version) (now c : N) (e : option N) : Prop :=
  exists j ver, (N.to_nat c <= j)%nat /\ nth_error (rev hist) j = Some ver /\ shows now ver e.

Lemma on_eqb_eq a b : on_eqb a b = true <-> a = b.
Proof.
  unfold on_eqb, option_eqb. destruct a, b; split; intros H; try discriminate; try reflexivity.
  - apply N.eqb_eq in H. congruence.
  - inversion H. apply N.eqb_refl.
Qed.

Lemma shows_spec now ver r :
  (on_eqb (fst ver) r || (match r with None => s_expired now (snd ver) | Some _ => false end)) = true <-> shows now ver r.
Proof.
  unfold shows. rewrite orb_true_iff, on_eqb_eq. split; intros [H|H]; auto.
  - destruct r; [discriminate|]. right. auto.
  - destruct H as [-> H]. right. exact H.
Qed.

Lemma fresh_enough_spec hist now c e : fresh_enough hist now c e = true <-> fresh hist now c e.
Proof.
  unfold fresh_enough, fresh. rewrite existsb_exists. split.
  - intros [j [Hin H]]. apply andb_prop in H. destruct H as [H1 H2].
    destruct (nth_error (rev hist) j) as [x|] eqn:En; [|discriminate]. exists j, x. split; [lia|].
    split; [exact En|]. apply shows_spec. exact H2.
  - intros [j [ver [H1 [H2 H3]]]]. exists j. split.
    + apply in_seq. split; [lia|]. apply nth_error_Some_lt in H2. rewrite rev_length in H2. lia.
    + rewrite H2. apply andb_true_intro. split; [apply N.leb_le; lia|apply shows_spec; exact H3].
Qed.

Lemma nth_rev_cons {T} (x : T) hist j y : nth_error (rev hist) j = Some y -> nth_error (rev (x :: hist)) j = Some y.
Proof. intros H. cbn [rev]. rewrite nth_error_app1; auto. apply nth_error_Some_lt in H. exact H. Qed.

Lemma nth_rev_head {T} (x : T) hist : nth_error (rev (x :: hist)) (length hist) = Some x.
Proof.
  cbn [rev]. rewrite nth_error_app2 by (rewrite rev_length; lia). rewrite rev_length, Nat.sub_diag. reflexivity.
Qed.

Lemma fresh_cons x hist now c e : fresh hist now c e -> fresh (x :: hist) now c e.
Proof. intros [j [ver [H1 [H2 H3]]]]. exists j, ver. split; auto. split; auto. apply nth_rev_cons. exact H2. Qed.

Lemma fresh_le hist now c c' e : c' <= c -> fresh hist now c e -> fresh hist now c' e.
Proof. intros L [j [ver [H1 H2]]]. exists j, ver. split; [lia|exact H2]. Qed.

Lemma expired_mono now now' x : now <= now' -> s_expired now x = true -> s_expired now' x = true.
Proof. unfold s_expired. rewrite !andb_true_iff, !N.ltb_lt, !N.leb_le. lia. Qed.

Lemma shows_mono now now' ver e : now <= now' -> shows now ver e -> shows now' ver e.
Proof. intros L [H|[H1 H2]]; [left; exact H|right]. split; auto. eapply expired_mono; eauto. Qed.

Lemma fresh_mono hist now now' c e : now <= now' -> fresh hist now c e -> fresh hist now' c e.
Proof. intros L [j [ver [H1 [H2 H3]]]]. exists j, ver. split; auto. split; auto. eapply shows_mono; eauto. Qed.

Lemma shows_live now ver : shows now ver (live now ver).
Proof. unfold shows, live. destruct (s_expired now (snd ver)) eqn:E; auto. Qed.

Lemma fresh_head x hist now c e : (N.to_nat c <= length hist)%nat -> shows now x e -> fresh (x :: hist) now c e.
Proof. intros L H. exists (length hist), x. split; [lia|]. split; [apply nth_rev_head|exact H]. Qed.

(* ---------- the invariant ---------- *)

Lemma flag_delete_marker : cache_delete_leaves_marker = true. Proof. reflexivity. Qed.
Lemma flag_big_marked : cache_big_values_marked = true. Proof. reflexivity. Qed.

(* what a cache entry stands for: "not found" is what some version not older than the last completed write
   shows; a cached value is the content of such a version, and a cached expiry is not earlier than the row's *)
Definition entry_inv (hist : list version) (now completed : N) (e : sentry) : Prop :=
  match e with
  | ENeg => fresh hist now completed None
  | EVal v x => exists j ver, (N.to_nat completed <= j)%nat /\ nth_error (rev hist) j = Some ver /\
                              fst ver = Some v /\ (x = 0 \/ (0 < snd ver /\ snd ver <= x))
  | EBig => True
  end.

Lemma entry_inv_cons x hist now c e : entry_inv hist now c e -> entry_inv (x :: hist) now c e.
Proof.
  destruct e as [|v ex|]; cbn; auto.
  - apply fresh_cons.
  - intros [j [ver [H1 [H2 H3]]]]. exists j, ver. split; auto. split; auto. apply nth_rev_cons. exact H2.
Qed.

Lemma entry_inv_mono hist now now' c e : now <= now' -> entry_inv hist now c e -> entry_inv hist now' c e.
Proof. intros L. destruct e as [|v ex|]; cbn; auto. apply fresh_mono. exact L. Qed.

(* what a read of the entry returns is fresh *)
Lemma entry_get_fresh hist now c v x : entry_inv hist now c (EVal v x) -> fresh hist now c (Some v).
Proof. intros [j [ver [H1 [H2 [H3 _]]]]]. exists j, ver. split; auto. split; auto. left. exact H3. Qed.

Lemma entry_expired_fresh hist now c v x : entry_inv hist now c (EVal v x) -> s_expired now x = true ->
  fresh hist now c None.
Proof.
  intros [j [ver [H1 [H2 [H3 H4]]]]] E. exists j, ver. split; auto. split; auto. right. split; auto.
  unfold s_expired in *. rewrite andb_true_iff, N.ltb_lt, N.leb_le in *. lia.
Qed.

Definition reader_ok (s : sch) (starts : list (nat * N)) (i : nat) (r : rpc * list rop) : Prop :=
  match fst r with
  | RIdle => entry_of starts i = None
  | RMissed _ => exists c, entry_of starts i = Some (i, c) /\ c <= s_completed s
  | RGot _ e => exists c, entry_of starts i = Some (i, c) /\ fresh (s_hist s) (s_now s) c e
  end.

Record Inv (s : sch) (starts : list (nat * N)) : Prop := mkInv {
  I_hist : exists tl, s_hist s = s_store s :: tl /\ length tl = N.to_nat (s_started s);
  I_le : s_completed s <= s_started s;
  I_cache : forall e, s_cache s = Some e -> entry_inv (s_hist s) (s_now s) (s_completed s) e;
  I_nocache : s_cache s = None -> s_completed s = 0;
  I_wpc : forall w, s_wpc s = Some w ->
          fst (s_store s) = wcontent w /\
          (if wttl w then 0 < snd (s_store s) /\ snd (s_store s) <= s_now s + 1 else snd (s_store s) = 0);
  I_readers : forall i r, nth_error (s_readers s) i = Some r -> reader_ok s starts i r
}.

Lemma Inv_init init prog readers : Inv (sch_init init prog readers) [].
Proof.
  constructor; cbn; try lia; try discriminate; auto.
  - exists []. split; reflexivity.
  - intros i r H. rewrite nth_error_map in H. destruct (nth_error readers i); inversion H; subst. cbn. reflexivity.
Qed.

(* every schedule the model can run satisfies the oracle (the oracle's own bookkeeping of the versions, of
   the clock and of the remaining program coincides with the model's), if an expired entry leaves a marker
   [xm = true] - or, for the entry-dropping variant, as long as the clock does not advance *)
Theorem no_stale_gen_proved xm : forall ps s starts obs wmid,
  Inv s starts -> (xm = true \/ (s_now s = 0 /\ ~ In PC ps)) ->
  sch_run_gen true true xm s ps = Some obs -> no_stale (s_hist s) (s_now s) (s_wprog s) wmid starts ps obs = true.
Proof.
  induction ps as [|p ps IH]; intros s starts obs wmid HI HX Hrun; cbn in Hrun.
  - inversion Hrun; subst. reflexivity.
  - destruct (sch_step_gen true true xm s p) as [[s' o]|] eqn:Es; [|discriminate].
    destruct (sch_run_gen true true xm s' ps) as [obs'|] eqn:Er; [|discriminate]. cbn in Hrun. inversion Hrun; subst obs. clear Hrun.
    destruct HI as [H1 H2 H3 H4 H5b H6]. destruct H1 as (tl & Hh & Hlen).
    assert (HX' : forall s1, s_now s1 = s_now s -> p <> PC -> xm = true \/ (s_now s1 = 0 /\ ~ In PC ps)).
    { intros s1 En _. destruct HX as [HX|[HX1 HX2]]; [left; exact HX|right]. split; [congruence|]. intros Hi. apply HX2. right. exact Hi. }
    destruct p as [|i|]; cbn [sch_step_gen] in Es.
    + (* writer *)
      destruct (s_wpc s) as [w|] eqn:Ew.
      * (* cache step *)
        inversion Es; subst s' o. clear Es. cbn [no_stale].
        destruct (H5b w eq_refl) as [Hst Hex].
        match type of Er with sch_run_gen _ _ _ ?s' _ = _ => specialize (IH s' starts obs' false) end.
        cbn [s_hist s_wprog s_now] in IH. apply IH; [|apply HX'; [reflexivity|discriminate]|exact Er].
        constructor; cbn [s_hist s_store s_cache s_wpc s_wprog s_completed s_started s_readers s_now].
        -- exists tl. split; auto.
        -- lia.
        -- intros e E. unfold set_val in E.
           destruct (wcontent w) as [v|] eqn:Ec; [destruct (big_val v)|]; inversion E; subst e; cbn [entry_inv]; auto.
           ++ exists (length tl), (s_store s). split; [lia|]. split; [rewrite Hh; apply nth_rev_head|]. split; [exact Hst|].
              unfold wexp. destruct (wttl w); [right; lia|left; reflexivity].
           ++ rewrite Hh. apply fresh_head; [lia|]. left. exact Hst.
        -- unfold set_val. destruct (wcontent w) as [v|]; [destruct (big_val v)|]; discriminate.
        -- intros w' E; discriminate.
        -- intros j r Hr. specialize (H6 j r Hr). unfold reader_ok in *. cbn [s_completed s_hist s_now].
           destruct (fst r); auto. destruct H6 as [c [E L]]. exists c. split; auto. lia.
      * destruct (s_wprog s) as [|w rest] eqn:Ep; [discriminate|]. inversion Es; subst s' o. clear Es. cbn [no_stale].
        match type of Er with sch_run_gen _ _ _ ?s' _ = _ => specialize (IH s' starts obs' true) end.
        cbn [s_hist s_wprog s_now] in IH. apply IH; [|apply HX'; [reflexivity|discriminate]|exact Er].
        constructor; cbn [s_hist s_store s_cache s_wpc s_wprog s_completed s_started s_readers s_now].
        -- exists (s_hist s). split; auto. rewrite Hh. cbn [length]. lia.
        -- lia.
        -- intros e E. apply entry_inv_cons. apply H3. exact E.
        -- exact H4.
        -- intros w' E; inversion E; subst w'. cbn [fst snd]. split; [reflexivity|].
           unfold wexp. destruct (wttl w); lia.
        -- intros j r Hr. specialize (H6 j r Hr). unfold reader_ok in *. cbn [s_completed s_hist s_now].
           destruct (fst r); auto. destruct H6 as [c [E L]]. exists c. split; auto. apply fresh_cons. exact L.
    + (* reader i *)
      destruct (nth_error (s_readers s) i) as [[pc rest]|] eqn:En; [|discriminate].
      pose proof (H6 i _ En) as Hi. unfold reader_ok in Hi. cbn [fst] in Hi.
      assert (Hframe : forall starts' rs',
                 (forall j r, nth_error rs' j = Some r -> reader_ok s starts' j r) ->
                 Inv (set_readers s rs') starts').
      { intros starts' rs' Hr. constructor; cbn; auto. exists tl. split; auto. }
      destruct pc as [|o0|o0 e0].
      * destruct rest as [|ro rest]; [discriminate|].
        assert (Hidle : forall rest' j r, nth_error (set_nth (s_readers s) i (RIdle, rest')) j = Some r -> reader_ok s starts j r).
        { intros rest' j r Hr. destruct (Nat.eq_dec i j) as [<-|Nij].
          - rewrite (nth_error_set_nth_same _ _ _ _ En) in Hr. inversion Hr; subst. exact Hi.
          - rewrite nth_error_set_nth_other in Hr by assumption. exact (H6 j r Hr). }
        (* the two ways to answer from the cache, and the way to the storage *)
        assert (Hhit : forall r, fresh (s_hist s) (s_now s) (s_completed s) r ->
                  sch_run_gen true true xm (set_readers s (set_nth (s_readers s) i (RIdle, rest))) ps = Some obs' ->
                  no_stale (s_hist s) (s_now s) (s_wprog s) wmid starts (PR i :: ps) (SGetHit (s_completed s) r :: obs') = true).
        { intros r Hf Er'. cbn [no_stale]. rewrite (proj2 (fresh_enough_spec _ _ _ _) Hf). cbn [andb].
          match type of Er' with sch_run_gen _ _ _ ?s' _ = _ => specialize (IH s' starts obs' wmid) end. cbn in IH.
          apply IH; [|apply HX'; [reflexivity|discriminate]|exact Er']. apply Hframe. apply Hidle. }
        assert (Hmiss : sch_run_gen true true xm (set_readers s (set_nth (s_readers s) i (RMissed ro, rest))) ps = Some obs' ->
                  no_stale (s_hist s) (s_now s) (s_wprog s) wmid starts (PR i :: ps) (SGetStart (s_completed s) :: obs') = true).
        { intros Er'. cbn [no_stale].
          match type of Er' with sch_run_gen _ _ _ ?s' _ = _ => specialize (IH s' ((i, s_completed s) :: starts) obs' wmid) end. cbn in IH.
          apply IH; [|apply HX'; [reflexivity|discriminate]|exact Er'].
          apply Hframe. intros j r Hr. destruct (Nat.eq_dec i j) as [<-|Nij].
          - rewrite (nth_error_set_nth_same _ _ _ _ En) in Hr. inversion Hr; subst. unfold reader_ok. cbn [fst].
            exists (s_completed s). rewrite entry_cons_same. split; [reflexivity|lia].
          - rewrite nth_error_set_nth_other in Hr by assumption. specialize (H6 j r Hr).
            unfold reader_ok in *. rewrite entry_cons_other by assumption. exact H6. }
        destruct (s_cache s) as [[|v x|]|] eqn:Ec.
        -- inversion Es; subst s' o. apply Hhit; [|exact Er]. exact (H3 ENeg eq_refl).
        -- pose proof (H3 _ eq_refl) as Hev. destruct ro.
           ++ inversion Es; subst s' o. apply Hhit; [|exact Er]. eapply entry_get_fresh; exact Hev.
           ++ destruct (s_expired (s_now s) x) eqn:Ex.
              ** (* the expired entry *)
                 inversion Es; subst s' o. clear Es. cbn [no_stale].
                 pose proof (entry_expired_fresh _ _ _ _ _ Hev Ex) as Hf.
                 rewrite (proj2 (fresh_enough_spec _ _ _ _) Hf). cbn [andb].
                 destruct HX as [HXt|[Hn0 _]].
                 2:{ exfalso. unfold s_expired in Ex. rewrite Hn0 in Ex. rewrite andb_true_iff, N.ltb_lt, N.leb_le in Ex. lia. }
                 subst xm.
                 match type of Er with sch_run_gen _ _ _ ?s' _ = _ => specialize (IH s' starts obs' wmid) end. cbn in IH.
                 apply IH; [|left; reflexivity|exact Er].
                 constructor; cbn; auto.
                 --- exists tl. split; auto.
                 --- intros e E. inversion E; subst e. exact Hf.
                 --- discriminate.
                 --- apply Hidle.
              ** inversion Es; subst s' o. apply Hhit; [|exact Er]. eapply entry_get_fresh; exact Hev.
        -- inversion Es; subst s' o. apply Hmiss. exact Er.
        -- inversion Es; subst s' o. apply Hmiss. exact Er.
      * (* storage read *)
        inversion Es; subst s' o. clear Es. cbn [no_stale].
        match type of Er with sch_run_gen _ _ _ ?s' _ = _ => specialize (IH s' starts obs' wmid) end. cbn in IH.
        apply IH; [|apply HX'; [reflexivity|discriminate]|exact Er].
        apply Hframe. intros j r Hr. destruct (Nat.eq_dec i j) as [<-|Nij].
        -- rewrite (nth_error_set_nth_same _ _ _ _ En) in Hr. inversion Hr; subst. unfold reader_ok. cbn [fst].
           destruct Hi as [c [E L]]. exists c. split; auto. rewrite Hh. apply fresh_head; [lia|apply shows_live].
        -- rewrite nth_error_set_nth_other in Hr by assumption. exact (H6 j r Hr).
      * (* fill + return *)
        inversion Es; subst s' o. clear Es. cbn [no_stale].
        destruct Hi as [c [E L]]. fold (entry_of starts i). rewrite E.
        rewrite (proj2 (fresh_enough_spec _ _ _ _) L). cbn [andb].
        match type of Er with sch_run_gen _ _ _ ?s' _ = _ => specialize (IH s' (filter (fun e => negb (Nat.eqb (fst e) i)) starts) obs' wmid) end.
        cbn [s_hist s_wprog s_now set_cr] in IH. apply IH; [|apply HX'; [reflexivity|discriminate]|exact Er].
        assert (Hfill : forall c', reader_fill true o0 e0 (s_cache s) = Some c' ->
                          (s_cache s = Some c') \/
                          (s_cache s = None /\ (c' = ENeg /\ e0 = None \/ c' = EBig \/ exists v, c' = EVal v 0 /\ e0 = Some v))).
        { intros c' Hc. unfold reader_fill in Hc. rewrite flag_fill_guarded, flag_ttlget_guarded in Hc.
          unfold fill_if_absent, set_val in Hc.
          destruct o0, e0 as [v0|], (s_cache s); try destruct (big_val v0); inversion Hc; auto;
            right; (split; [reflexivity|]); eauto. }
        constructor; cbn [s_hist s_store s_cache s_wpc s_wprog s_completed s_started s_readers s_now set_cr].
        -- exists tl. split; auto.
        -- exact H2.
        -- intros e' Hc. destruct (Hfill e' Hc) as [Hc'|[Hc' Hk]]; [apply H3; exact Hc'|].
           rewrite (H4 Hc'). destruct Hk as [[-> ->]|[->|[v [-> ->]]]]; cbn [entry_inv]; auto.
           ++ eapply fresh_le; [|exact L]. lia.
           ++ destruct L as [j [ver [L1 [L2 [L3|[L3 _]]]]]]; [|discriminate].
              exists j, ver. split; [lia|]. split; auto.
        -- intros Hc. apply H4. unfold reader_fill in Hc. rewrite flag_fill_guarded, flag_ttlget_guarded in Hc.
           unfold fill_if_absent, set_val in Hc.
           destruct o0, e0 as [v0|], (s_cache s); try destruct (big_val v0); try discriminate; reflexivity.
        -- exact H5b.
        -- intros j r Hr. destruct (Nat.eq_dec i j) as [<-|Nij].
           ++ rewrite (nth_error_set_nth_same _ _ _ _ En) in Hr. inversion Hr; subst. unfold reader_ok. cbn [fst].
              apply entry_filter_same.
           ++ rewrite nth_error_set_nth_other in Hr by assumption. specialize (H6 j r Hr).
              unfold reader_ok in *. cbn [s_completed s_hist s_now]. rewrite entry_filter_other by assumption. exact H6.
    + (* clock *)
      inversion Es; subst s' o. clear Es. cbn [no_stale].
      assert (HXt : xm = true).
      { destruct HX as [HX|[_ HX]]; [exact HX|]. exfalso. apply HX. left. reflexivity. }
      match type of Er with sch_run_gen _ _ _ ?s' _ = _ => specialize (IH s' starts obs' wmid) end.
      cbn [s_hist s_wprog s_now] in IH. apply IH; [|left; exact HXt|exact Er].
      constructor; cbn [s_hist s_store s_cache s_wpc s_wprog s_completed s_started s_readers s_now].
      * exists tl. split; auto.
      * exact H2.
      * intros e E. eapply entry_inv_mono; [|apply H3; exact E]. lia.
      * exact H4.
      * intros w E. destruct (H5b w E) as [A B]. split; [exact A|]. destruct (wttl w); lia.
      * intros j r Hr. specialize (H6 j r Hr). unfold reader_ok in *. cbn [s_completed s_hist s_now].
        destruct (fst r); auto. destruct H6 as [c [E L]]. exists c. split; auto. eapply fresh_mono; [|exact L]. lia.
Qed.

(* the marker-leaving variant: every schedule, clock advances included *)
Theorem no_stale_marker_proved : forall ps s starts obs wmid,
  Inv s starts -> sch_run_gen true true true s ps = Some obs ->
  no_stale (s_hist s) (s_now s) (s_wprog s) wmid starts ps obs = true.
Proof. intros ps s starts obs wmid HI. apply no_stale_gen_proved; [exact HI|left; reflexivity]. Qed.

Lemma flag_expired_marker : cache_expired_leaves_marker = true. Proof. reflexivity. Qed.

(* the code as it is: the three flags read from the source say "marker", "marked", "marker" *)
Theorem no_stale_after_complete_proved : forall ps s starts obs wmid,
  Inv s starts -> sch_run s ps = Some obs -> no_stale (s_hist s) (s_now s) (s_wprog s) wmid starts ps obs = true.
Proof. unfold sch_run. rewrite flag_delete_marker, flag_big_marked, flag_expired_marker. exact no_stale_marker_proved. Qed.

(* whatever the expired-entry flag says (the entry-dropping shape of the code before 629c386d4 included):
   schedules during which the clock does not advance *)
Theorem no_stale_no_clock_proved : forall ps s starts obs wmid,
  Inv s starts -> s_now s = 0 -> ~ In PC ps -> sch_run s ps = Some obs ->
  no_stale (s_hist s) (s_now s) (s_wprog s) wmid starts ps obs = true.
Proof.
  unfold sch_run. rewrite flag_delete_marker, flag_big_marked. intros ps s starts obs wmid HI Hn Hc.
  apply no_stale_gen_proved; [exact HI|right; auto].
Qed.

(* ================= sequential transparency over the reference storage ================= *)
From V Require Import Storage.SpecLaws.
Local Open Scope Z_scope.

(* an entry that setCached lets through fits fastcache: maxCachedEntrySize + 4 <= chunkSize (and the
   two 16-bit length fields suffice) *)
Lemma flag_sizes : (cache_max_entry_size + 4 <=? fastcache_chunk_size) && (cache_max_entry_size <=? 65536) = true.
Proof. reflexivity. Qed.

Lemma fits_neg pk cc : key_fits pk cc = true -> fc_fits pk cc CNeg = true.
Proof.
  unfold key_fits, fc_fits, entry_len. intros H.
  apply andb_true_iff in H. destruct H as [H H3]. apply andb_true_iff in H. destruct H as [H1 H2].
  apply Z.ltb_lt in H1, H3.
  repeat (apply andb_true_intro; split); apply Z.ltb_lt; unfold blen in *; lia.
Qed.

Lemma fits_pos pk cc ex v : key_fits pk cc = true -> too_big pk cc v = false -> fc_fits pk cc (CPos ex v) = true.
Proof.
  unfold key_fits, fc_fits, too_big, entry_len. intros H T.
  pose proof flag_sizes as F. apply andb_true_iff in F. destruct F as [F1 F2]. apply Z.leb_le in F1, F2.
  apply andb_true_iff in H. destruct H as [H H3]. apply andb_true_iff in H. destruct H as [H1 H2].
  apply Z.ltb_lt in H1, H3. apply Z.leb_gt in T.
  repeat (apply andb_true_intro; split); apply Z.ltb_lt; unfold blen in *; lia.
Qed.

Lemma flag_key_guard : cache_key_guard = true. Proof. reflexivity. Qed.

(* the guard is exact: a key is cacheable iff the mark fits a fastcache chunk under it *)
Lemma cacheable_is_mark_fits_proved pk cc : cacheable_key pk cc = key_fits pk cc.
Proof.
  apply eq_true_iff_eq. unfold cacheable_key, key_fits, fc_fits, entry_len, blen.
  change fastcache_chunk_size with 65536. change cache_max_entry_size with 65532.
  rewrite !andb_true_iff, !Z.ltb_lt. lia.
Qed.

Lemma cacheable_fits pk cc : cacheable_key pk cc = true -> key_fits pk cc = true.
Proof. rewrite cacheable_is_mark_fits_proved. auto. Qed.

(* with the guard, a store of "known missing" is skipped for an uncacheable key and lands otherwise *)
Lemma set_neg_cases c pk cc :
  (cacheable_key pk cc = false /\ set_neg true c pk cc = c) \/
  (cacheable_key pk cc = true /\ set_neg true c pk cc = c_set c pk cc CNeg).
Proof.
  unfold set_neg, key_skipped. cbn [andb]. destruct (cacheable_key pk cc) eqn:Ck; cbn [negb].
  - right. split; auto. unfold fc_set. rewrite (fits_neg pk cc (cacheable_fits pk cc Ck)). reflexivity.
  - left. auto.
Qed.

(* with the mark and the guard, a store of a found row is skipped for an uncacheable key and otherwise
   leaves an entry that was written by this store *)
Lemma set_pos_cases c pk cc ex v :
  (cacheable_key pk cc = false /\ set_pos true true c pk cc ex v = c) \/
  (cacheable_key pk cc = true /\
   (set_pos true true c pk cc ex v = c_set c pk cc CBig \/ set_pos true true c pk cc ex v = c_set c pk cc (CPos ex v))).
Proof.
  unfold set_pos, key_skipped, fc_set. cbn [andb]. destruct (cacheable_key pk cc) eqn:Ck; cbn [negb]; [right|left; auto].
  split; auto. pose proof (cacheable_fits pk cc Ck) as H. destruct (too_big pk cc v) eqn:T.
  - left. unfold key_fits in H. rewrite H. reflexivity.
  - right. rewrite (fits_pos pk cc ex v H T). reflexivity.
Qed.

Section SeqProof.
(* the (pKey, cCols) pairs a history uses; on them the cache key must be injective (finding F7) *)
Variable K : bytes * bytes -> Prop.
Hypothesis K_inj : forall k1 k2, K k1 -> K k2 -> make_key (fst k1) (snd k1) = make_key (fst k2) (snd k2) -> k1 = k2.

Notation cstate := (cst (U:=sstate)).

Definition entry_ok (st : store bytes) (now : Z) (pk cc : bytes) (e : option centry) : Prop :=
  match e with
  | Some (CPos exp v) => raw_lookup st pk cc = Some (mkRow v exp)
  | Some CBig => True                         (* reads consult the storage *)
  | Some CNeg => lookup now st pk cc = None
  | None => cacheable_key pk cc = true -> lookup now st pk cc = None   (* every write of a cacheable key left an entry *)
  end.

Record CI (s : cstate) : Prop := mkCI {
  CI_now : c_now s = snd (c_under s);
  CI_entries : forall pk cc, K (pk, cc) -> entry_ok (fst (c_under s)) (snd (c_under s)) pk cc (c_get (c_cache s) pk cc);
  CI_unc : forall pk cc, K (pk, cc) -> cacheable_key pk cc = false -> c_get (c_cache s) pk cc = None;
  CI_sorted : parts_sorted (fst (c_under s));
  CI_csorted : sorted (c_cache s)
}.

Lemma CI_init : CI (mkC ([], 0) [] 0).
Proof. constructor; cbn; auto; try constructor; try apply parts_sorted_nil. Qed.

Lemma c_get_set_same c pk cc e : c_get (c_set c pk cc e) pk cc = Some e.
Proof. unfold c_get, c_set. apply sm_get_put_same. Qed.

Lemma c_get_set_other c pk cc e pk' cc' : K (pk, cc) -> K (pk', cc') -> (pk', cc') <> (pk, cc) ->
  c_get (c_set c pk cc e) pk' cc' = c_get c pk' cc'.
Proof.
  intros H H' N. unfold c_get, c_set. apply sm_get_put_other. intros E. apply N.
  apply (K_inj (pk', cc') (pk, cc)); auto.
Qed.

Lemma c_get_del_same c pk cc : sorted c -> c_get (c_del c pk cc) pk cc = None.
Proof. intros S. unfold c_get, c_del. apply sm_get_del_same. exact S. Qed.

Lemma c_get_del_other c pk cc pk' cc' : sorted c -> K (pk, cc) -> K (pk', cc') -> (pk', cc') <> (pk, cc) ->
  c_get (c_del c pk cc) pk' cc' = c_get c pk' cc'.
Proof.
  intros S H H' N. unfold c_get, c_del. apply sm_get_del_other; [|exact S]. intros E. apply N.
  apply (K_inj (pk', cc') (pk, cc)); auto.
Qed.

Lemma key_dec (pk cc pk' cc' : bytes) : {(pk', cc') = (pk, cc)} + {(pk', cc') <> (pk, cc)}.
Proof.
  destruct (lex_eqb pk' pk) eqn:E1; [destruct (lex_eqb cc' cc) eqn:E2|].
  - left. apply lex_eqb_eq in E1, E2. congruence.
  - right. apply lex_eqb_neq in E2. congruence.
  - right. apply lex_eqb_neq in E1. congruence.
Qed.

Lemma lookup_raw_congr (st st' : store bytes) now pk cc :
  raw_lookup st' pk cc = raw_lookup st pk cc -> lookup now st' pk cc = lookup now st pk cc.
Proof. intros H. unfold lookup. rewrite H. reflexivity. Qed.

Lemma entry_ok_congr st st' now pk cc e :
  raw_lookup st' pk cc = raw_lookup st pk cc -> entry_ok st now pk cc e -> entry_ok st' now pk cc e.
Proof.
  intros H. unfold entry_ok. rewrite (lookup_raw_congr st st' now pk cc H).
  destruct e as [[|ex v|]|]; auto. rewrite H. auto.
Qed.

(* the cache gets entry e under one cacheable key while the storage changes at most the row of that key *)
Lemma CI_set st st' now c pk cc e : CI (mkC (st, now) c now) -> K (pk, cc) -> cacheable_key pk cc = true ->
  entry_ok st' now pk cc (Some e) ->
  (forall pk' cc', (pk', cc') <> (pk, cc) -> raw_lookup st' pk' cc' = raw_lookup st pk' cc') ->
  parts_sorted st' ->
  CI (mkC (st', now) (c_set c pk cc e) now).
Proof.
  intros [Hn He Hu Hs Hc] HK Ck Hok Hfr Hs'. cbn [c_now c_under c_cache fst snd] in *. constructor; cbn [c_now c_under c_cache fst snd]; auto.
  - intros pk' cc' HK'. destruct (key_dec pk cc pk' cc') as [E|N].
    + inversion E; subst. rewrite c_get_set_same. exact Hok.
    + rewrite c_get_set_other by assumption. eapply entry_ok_congr; [|apply He; assumption].
      apply Hfr. assumption.
  - intros pk' cc' HK' Cu. destruct (key_dec pk cc pk' cc') as [E|N].
    + inversion E; subst. congruence.
    + rewrite c_get_set_other by assumption. apply Hu; assumption.
  - apply sm_put_sorted. exact Hc.
Qed.

(* the storage changes at most the row of an uncacheable key; the cache, which holds nothing under it, stays *)
Lemma CI_skip st st' now c pk cc : CI (mkC (st, now) c now) -> K (pk, cc) -> cacheable_key pk cc = false ->
  (forall pk' cc', (pk', cc') <> (pk, cc) -> raw_lookup st' pk' cc' = raw_lookup st pk' cc') ->
  parts_sorted st' ->
  CI (mkC (st', now) c now).
Proof.
  intros [Hn He Hu Hs Hc] HK Cu Hfr Hs'. cbn [c_now c_under c_cache fst snd] in *. constructor; cbn [c_now c_under c_cache fst snd]; auto.
  intros pk' cc' HK'. destruct (key_dec pk cc pk' cc') as [E|N].
  - inversion E; subst. rewrite (Hu pk cc HK Cu). cbn [entry_ok]. congruence.
  - eapply entry_ok_congr; [|apply He; assumption]. apply Hfr. assumption.
Qed.

(* write-through of one row, whatever its size, whatever the length of its key *)
Lemma CI_write st now c pk cc v ex : CI (mkC (st, now) c now) -> K (pk, cc) ->
  CI (mkC (set_row st pk cc (mkRow v ex), now) (set_pos true true c pk cc ex v) now).
Proof.
  intros HCI HK.
  assert (Hfr : forall pk' cc', (pk', cc') <> (pk, cc) ->
                raw_lookup (set_row st pk cc (mkRow v ex)) pk' cc' = raw_lookup st pk' cc').
  { intros pk' cc' N. apply raw_set_other. assumption. }
  assert (Hs' : parts_sorted (set_row st pk cc (mkRow v ex))).
  { apply set_row_sorted. exact (CI_sorted _ HCI). }
  destruct (set_pos_cases c pk cc ex v) as [[Cu E]|[Ck [E|E]]]; rewrite E.
  - apply (CI_skip st _ now c pk cc HCI HK Cu); auto.
  - apply (CI_set st _ now c pk cc _ HCI HK Ck); auto; cbn [entry_ok]; auto.
  - apply (CI_set st _ now c pk cc _ HCI HK Ck); auto; cbn [entry_ok]. apply raw_set_same.
Qed.

(* caching "known missing" for a key whose live view is empty *)
Lemma CI_negative st now c pk cc : CI (mkC (st, now) c now) -> K (pk, cc) -> lookup now st pk cc = None ->
  CI (mkC (st, now) (set_neg_if_absent true c pk cc) now).
Proof.
  intros HCI HK HL. unfold set_neg_if_absent. destruct (c_get c pk cc) eqn:Eg; [exact HCI|].
  destruct (set_neg_cases c pk cc) as [[Cu E]|[Ck E]]; rewrite E; [exact HCI|].
  apply (CI_set st st now c pk cc CNeg HCI HK Ck); auto. exact (CI_sorted _ HCI).
Qed.

(* a fill under a key that is not cacheable changes nothing *)
Lemma fills_skip c pk cc v : cacheable_key pk cc = false ->
  set_pos true true c pk cc 0 v = c /\ set_neg true c pk cc = c.
Proof. intros Cu. unfold set_pos, set_neg, key_skipped. rewrite Cu. cbn. auto. Qed.

Lemma lookup_mono (st : store bytes) now d pk cc : 0 <= d -> lookup now st pk cc = None -> lookup (now + d) st pk cc = None.
Proof.
  intros Hd. unfold lookup. destruct (raw_lookup st pk cc) as [r|]; auto.
  unfold expired. destruct (Z.ltb_spec 0 (rexp r)); cbn; [|discriminate].
  destruct (Z.leb_spec (rexp r) now); [|discriminate]. intros _.
  destruct (Z.leb_spec (rexp r) (now + d)); [reflexivity|lia].
Qed.

Definition op_keys (o : sop) : list (bytes * bytes) :=
  match o with
  | OPut pk cc _ | OGet pk cc | OIns pk cc _ _ | OCas pk cc _ _ _ | OCad pk cc _ | OTTLGet pk cc | OQueryTTL pk cc => [(pk, cc)]
  | OPutBatch items => map fst items
  | OGetBatch pk ccs => map (fun cc => (pk, cc)) ccs
  | _ => []
  end.

Definition op_domain (o : sop) : Prop :=
  Forall K (op_keys o) /\ match o with OAdvance d => 0 <= d | _ => True end.


(* ---- batches ---- *)

Lemma CI_put_batch items : forall st now c, CI (mkC (st, now) c now) -> Forall K (map fst items) ->
  CI (mkC (put_batch st items, now)
          (fold_left (fun c it => set_pos true true c (fst (fst it)) (snd (fst it)) 0 (snd it)) items c) now).
Proof.
  unfold put_batch. induction items as [|[[pk cc] v] items IH]; intros st now c HCI HK; cbn [fold_left fst snd map] in *; [exact HCI|].
  inversion HK as [|? ? Hk Hr]; subst. apply IH; [|exact Hr]. apply (CI_write st now c pk cc v 0 HCI Hk).
Qed.

(* filling after a storage GetBatch: a cacheable key without an entry has no live row, so the storage said
   "missing"; a key with an entry (the mark included) is left alone; so is a key that is not cacheable *)
Lemma CI_batch_fill st now pk ccs : forall c, CI (mkC (st, now) c now) -> Forall (fun cc => K (pk, cc)) ccs ->
  CI (mkC (st, now)
          (fold_left (fun c ccv => match snd ccv with
                                   | Some v => fill_positive_batch true true c pk (fst ccv) v
                                   | None => set_neg_if_absent true c pk (fst ccv)
                                   end) (combine ccs (get_batch now st pk ccs)) c) now).
Proof.
  induction ccs as [|cc ccs IH]; intros c HCI HK; cbn [get_batch map combine fold_left fst snd]; [exact HCI|].
  inversion HK as [|? ? Hk Hr]; subst. apply IH; [|exact Hr].
  pose proof (CI_entries _ HCI pk cc Hk) as He. cbn [c_under c_cache fst snd] in He.
  unfold fill_positive_batch. rewrite flag_batch_fill_guarded.
  destruct (c_get c pk cc) as [e|] eqn:Eg.
  - (* an entry is there: nothing changes *)
    destruct (get now st pk cc); unfold set_pos_if_absent, set_neg_if_absent; rewrite Eg; exact HCI.
  - cbn [entry_ok] in He. destruct (cacheable_key pk cc) eqn:Ck.
    + unfold get. rewrite (He eq_refl). cbn [option_map]. apply CI_negative; auto.
    + unfold set_pos_if_absent, set_neg_if_absent. rewrite Eg.
      destruct (get now st pk cc) as [v|]; [rewrite (proj1 (fills_skip c pk cc v Ck))|rewrite (proj2 (fills_skip c pk cc [] Ck))]; exact HCI.
Qed.

Lemma get_cached_agrees st now c pk cc : CI (mkC (st, now) c now) -> K (pk, cc) ->
  forall e, c_answer c pk cc = Some e ->
  (match raw_lookup st pk cc with Some r => negb (rexp r =? 0) | None => false end) = false ->
  (match e with CPos _ v => Some v | _ => None end) = get now st pk cc.
Proof.
  intros HCI Hk e Ea Hd. pose proof (CI_entries _ HCI pk cc Hk) as He. cbn [c_under c_cache fst snd] in He.
  unfold c_answer in Ea. destruct (c_get c pk cc) as [[|ex v|]|]; inversion Ea; subst e; cbn [entry_ok] in He.
  - unfold get. rewrite He. reflexivity.
  - rewrite He in Hd. cbn [rexp] in Hd. apply negb_false_iff, Z.eqb_eq in Hd. subst ex.
    unfold get, lookup. rewrite He. reflexivity.
Qed.

(* one step of the cache as the code has it now (big values marked, uncacheable keys skipped) *)
Theorem cache_step_gen_transparent xm s o : CI s -> op_domain o ->
  let r := cache_step_gen spec_step true true xm s o in
  CI (fst r) /\ c_under (fst r) = fst (spec_step (c_under s) o) /\
  (dont_care (c_under s) o = true \/ snd r = snd (spec_step (c_under s) o)).
Proof.
  intros HCI [HK Hdom]. destruct s as [[st now] c cnow].
  assert (Ecn : cnow = now) by (destruct HCI as [Hn _ _ _ _]; exact Hn). subst cnow.
  pose proof (CI_entries _ HCI) as He. cbn [c_under c_cache fst snd] in He.
  destruct o as [pk cc v|items|pk cc|pk ccs|pk a f|pk cc v ttl|pk cc old new ttl|pk cc e|pk cc|pk a f|pk cc|d];
    cbn [op_keys] in HK.
  - (* Put *) inversion HK as [|? ? HK1 _]; subst. cbn. split; [|split; [reflexivity|right; reflexivity]].
    apply CI_write; assumption.
  - (* PutBatch *) cbn [cache_step_gen c_under c_cache c_now spec_step fst snd dont_care].
    split; [|split; [reflexivity|right; reflexivity]]. apply CI_put_batch; assumption.
  - (* Get *) inversion HK as [|? ? HK1 _]; subst. specialize (He pk cc HK1).
    cbn [cache_step_gen c_under c_cache c_now spec_step fst snd dont_care]. unfold c_answer.
    destruct (c_get c pk cc) as [[|ex v|]|] eqn:Eg; cbn [entry_ok] in He.
    + cbn [fst snd]. split; [exact HCI|]. split; [reflexivity|right]. unfold get. rewrite He. reflexivity.
    + cbn [fst snd]. split; [exact HCI|]. split; [reflexivity|]. rewrite He.
      cbn [rexp]. destruct (Z.eqb_spec ex 0) as [E0|E0]; cbn [negb]; [right|left; reflexivity].
      subst. unfold get, lookup. rewrite He. reflexivity.
    + (* marked: the storage answers, the fills find an entry *)
      unfold fill_positive, set_pos_if_absent, set_neg_if_absent. rewrite flag_fill_guarded.
      destruct (get now st pk cc) as [v|]; rewrite Eg; cbn [fst snd];
        (split; [exact HCI|split; [reflexivity|right; reflexivity]]).
    + destruct (cacheable_key pk cc) eqn:Ck.
      * unfold get. rewrite (He eq_refl). cbn [option_map fst snd]. split; [|split; [reflexivity|right; reflexivity]].
        apply CI_negative; auto.
      * (* not cacheable: the storage answers, the fills are skipped *)
        unfold fill_positive, set_pos_if_absent, set_neg_if_absent. rewrite flag_fill_guarded.
        destruct (get now st pk cc) as [v|]; rewrite Eg;
          [rewrite (proj1 (fills_skip c pk cc v Ck))|rewrite (proj2 (fills_skip c pk cc [] Ck))]; cbn [fst snd];
          (split; [exact HCI|split; [reflexivity|right; reflexivity]]).
  - (* GetBatch *)
    assert (HKc : Forall (fun cc => K (pk, cc)) ccs).
    { rewrite Forall_forall in *. intros cc Hin. apply HK. apply in_map_iff. exists cc. auto. }
    cbn [cache_step_gen c_under c_cache c_now spec_step fst snd dont_care].
    destruct (forallb (fun cc => match c_answer c pk cc with Some _ => true | None => false end) ccs) eqn:Eall.
    + cbn [fst snd]. split; [exact HCI|]. split; [reflexivity|].
      destruct (existsb _ ccs) eqn:Ed; [left; reflexivity|right]. f_equal. unfold get_batch.
      apply map_ext_in. intros cc Hin.
      rewrite forallb_forall in Eall. specialize (Eall cc Hin).
      destruct (c_answer c pk cc) as [e|] eqn:Eg; [|discriminate].
      assert (Hd : (match raw_lookup st pk cc with Some r => negb (rexp r =? 0) | None => false end) = false).
      { destruct (match raw_lookup st pk cc with Some r => negb (rexp r =? 0) | None => false end) eqn:Ex; auto.
        exfalso. assert (T : existsb (fun cc => match raw_lookup st pk cc with Some r => negb (rexp r =? 0) | None => false end) ccs = true).
        { apply existsb_exists. exists cc. split; auto. }
        rewrite T in Ed. discriminate. }
      rewrite Forall_forall in HKc.
      rewrite <- (get_cached_agrees st now c pk cc HCI (HKc cc Hin) e Eg Hd). destruct e; reflexivity.
    + cbn [fst snd]. split; [|split; [reflexivity|right; reflexivity]]. apply CI_batch_fill; assumption.
  - (* Read *) cbn. split; [exact HCI|split; [reflexivity|right; reflexivity]].
  - (* Ins *) inversion HK as [|? ? HK1 _]; subst.
    cbn [cache_step_gen c_under c_cache c_now spec_step fst snd dont_care]. unfold insert_if_not_exists.
    destruct (lookup now st pk cc); cbn [fst snd]; (split; [|split; [reflexivity|right; reflexivity]]); auto.
    apply CI_write; assumption.
  - (* Cas *) inversion HK as [|? ? HK1 _]; subst.
    cbn [cache_step_gen c_under c_cache c_now spec_step fst snd dont_care]. unfold compare_and_swap.
    destruct (lookup now st pk cc) as [r|]; [destruct (lex_eqb (rval r) old)|]; cbn [fst snd];
      (split; [|split; [reflexivity|right; reflexivity]]); auto.
    apply CI_write; assumption.
  - (* Cad *) inversion HK as [|? ? HK1 _]; subst.
    cbn [cache_step_gen c_under c_cache c_now spec_step fst snd dont_care]. rewrite flag_delete_marker. unfold compare_and_delete.
    destruct (lookup now st pk cc) as [r|] eqn:El; [destruct (lex_eqb (rval r) e)|]; cbn [fst snd];
      (split; [|split; [reflexivity|right; reflexivity]]); auto.
    assert (Hfr : forall pk' cc', (pk', cc') <> (pk, cc) -> raw_lookup (del_row st pk cc) pk' cc' = raw_lookup st pk' cc').
    { intros pk' cc' N. apply raw_del_other; [exact (CI_sorted _ HCI)|exact N]. }
    assert (Hs' : parts_sorted (del_row st pk cc)) by (apply del_row_sorted; exact (CI_sorted _ HCI)).
    destruct (set_neg_cases c pk cc) as [[Cu E]|[Ck E]]; rewrite E.
    + apply (CI_skip st _ now c pk cc HCI HK1 Cu); auto.
    + apply (CI_set st _ now c pk cc CNeg HCI HK1 Ck); auto.
      cbn [entry_ok]. unfold lookup. rewrite raw_del_same by exact (CI_sorted _ HCI). reflexivity.
  - (* TTLGet *) inversion HK as [|? ? HK1 _]; subst. pose proof (He pk cc HK1) as Hk.
    cbn [cache_step_gen c_under c_cache c_now spec_step fst snd dont_care]. unfold c_answer.
    destruct (c_get c pk cc) as [[|ex v|]|] eqn:Eg; cbn [entry_ok] in Hk.
    + cbn [fst snd]. split; [exact HCI|]. split; [reflexivity|right]. unfold get. rewrite Hk. reflexivity.
    + unfold get, lookup. rewrite Hk. unfold expired, c_expired. cbn [rexp rval].
      destruct ((0 <? ex) && (ex <=? now)) eqn:Ex; cbn [fst snd option_map].
      * split; [|split; [reflexivity|right; reflexivity]].
        assert (Hgone : lookup now st pk cc = None).
        { unfold lookup. rewrite Hk. unfold expired. cbn. rewrite Ex. reflexivity. }
        destruct xm.
        { (* the absence is cached *)
          destruct (set_neg_cases c pk cc) as [[Cu E]|[Ck E]]; rewrite E; [exact HCI|].
          apply (CI_set st st now c pk cc CNeg HCI HK1 Ck); auto. exact (CI_sorted _ HCI). }
        destruct HCI as [Hn He' Hu Hs Hc]. cbn [c_now c_under c_cache fst snd] in *. constructor; cbn [c_now c_under c_cache fst snd]; auto.
        -- intros pk' cc' HK'. destruct (key_dec pk cc pk' cc') as [E|N].
           ++ inversion E; subst. rewrite c_get_del_same by assumption. cbn. intros _. unfold lookup. rewrite Hk.
              unfold expired. cbn. rewrite Ex. reflexivity.
           ++ rewrite c_get_del_other by assumption. apply He'. assumption.
        -- intros pk' cc' HK' Cu. destruct (key_dec pk cc pk' cc') as [E|N].
           ++ inversion E; subst. apply c_get_del_same. assumption.
           ++ rewrite c_get_del_other by assumption. apply Hu; assumption.
        -- apply sm_del_sorted. exact Hc.
      * split; [exact HCI|split; [reflexivity|right; reflexivity]].
    + (* marked: the storage answers; a "missing" answer finds the entry and leaves it *)
      unfold set_neg_if_absent.
      destruct (get now st pk cc) as [v|]; try rewrite Eg; cbn [fst snd];
        (split; [exact HCI|split; [reflexivity|right; reflexivity]]).
    + destruct (cacheable_key pk cc) eqn:Ck.
      * unfold get. rewrite (Hk eq_refl). cbn [option_map fst snd]. split; [|split; [reflexivity|right; reflexivity]].
        apply CI_negative; auto.
      * unfold set_neg_if_absent.
        destruct (get now st pk cc) as [v|]; try rewrite Eg; try rewrite (proj2 (fills_skip c pk cc [] Ck)); cbn [fst snd];
          (split; [exact HCI|split; [reflexivity|right; reflexivity]]).
  - (* TTLRead *) cbn. split; [exact HCI|split; [reflexivity|right; reflexivity]].
  - (* QueryTTL *) cbn. split; [exact HCI|split; [reflexivity|right; reflexivity]].
  - (* Advance *) cbn. split; [|split; [reflexivity|right; reflexivity]].
    destruct HCI as [Hn He' Hu Hs Hc]. cbn [c_now c_under c_cache fst snd] in *. constructor; cbn [c_now c_under c_cache fst snd]; auto.
    intros pk' cc' HK'. specialize (He' pk' cc' HK'). unfold entry_ok in *.
    destruct (c_get c pk' cc') as [[|ex v|]|]; auto; try (apply lookup_mono; auto). intros Ck. apply lookup_mono; auto.
Qed.

(* the code as it is: the flags read from the source say "marked" and "guarded" *)
Theorem cache_step_transparent s o : CI s -> op_domain o ->
  let r := cache_step spec_step s o in
  CI (fst r) /\ c_under (fst r) = fst (spec_step (c_under s) o) /\
  (dont_care (c_under s) o = true \/ snd r = snd (spec_step (c_under s) o)).
Proof. unfold cache_step. rewrite flag_big_marked, flag_key_guard. exact (cache_step_gen_transparent _ s o). Qed.

Fixpoint transparent_run (s : cstate) (ops : list sop) : Prop :=
  match ops with
  | [] => True
  | o :: r => (dont_care (c_under s) o = true \/ snd (cache_step spec_step s o) = snd (spec_step (c_under s) o))
              /\ transparent_run (fst (cache_step spec_step s o)) r
  end.

Theorem cache_transparent_proved ops : forall s, CI s -> Forall op_domain ops -> transparent_run s ops.
Proof.
  induction ops as [|o ops IH]; intros s HCI HF; cbn; auto.
  inversion HF as [|? ? Ho Hr]; subst.
  destruct (cache_step_transparent s o HCI Ho) as [H1 [H2 H3]].
  split; [exact H3|]. apply IH; auto.
Qed.

(* ================= failed writes and two handles ================= *)

Lemma pair_dec (x y : bytes * bytes) : {x = y} + {x <> y}.
Proof. destruct x as [a b], y as [c d]. apply key_dec. Qed.

Lemma incl_firstn {T} k (l : list T) : incl (firstn k l) l.
Proof.
  unfold incl. revert l; induction k as [|k IH]; intros [|x l] a Hin; cbn in *; try contradiction.
  destruct Hin as [E|Hin]; [left; exact E|right; apply IH; exact Hin].
Qed.

(* the cache after marking a list of keys *)
Lemma marks_get keys : forall c, Forall K keys -> sorted c ->
  sorted (fold_left (mark_unknown true) keys c) /\
  forall pk cc, K (pk, cc) ->
    (In (pk, cc) keys -> cacheable_key pk cc = true -> c_get (fold_left (mark_unknown true) keys c) pk cc = Some CBig) /\
    (~ In (pk, cc) keys \/ cacheable_key pk cc = false -> c_get (fold_left (mark_unknown true) keys c) pk cc = c_get c pk cc).
Proof.
  induction keys as [|[kp kc] r IH]; intros c HK Hs; cbn [fold_left].
  - split; [exact Hs|]. intros pk cc _. split; [intros []|reflexivity].
  - inversion HK as [|? ? Hk Hr]; subst.
    assert (Hc1 : (cacheable_key kp kc = true /\ mark_unknown true c (kp, kc) = c_set c kp kc CBig) \/
                  (cacheable_key kp kc = false /\ mark_unknown true c (kp, kc) = c)).
    { unfold mark_unknown, key_skipped. cbn [fst snd andb]. destruct (cacheable_key kp kc) eqn:Ck; cbn [negb]; [left|right; auto].
      split; auto. unfold fc_set. pose proof (cacheable_fits kp kc Ck) as F. unfold key_fits in F. rewrite F. reflexivity. }
    assert (Hs1 : sorted (mark_unknown true c (kp, kc))).
    { destruct Hc1 as [[_ E]|[_ E]]; rewrite E; [apply sm_put_sorted|]; exact Hs. }
    destruct (IH _ Hr Hs1) as [Hs' Hg]. split; [exact Hs'|].
    intros pk cc HKk. destruct (Hg pk cc HKk) as [Hg1 Hg2]. split.
    + intros Hin Ck. destruct (in_dec pair_dec (pk, cc) r) as [Hi|Hn]; [apply Hg1; assumption|].
      destruct Hin as [E|Hi]; [|contradiction]. inversion E; subst kp kc.
      rewrite Hg2 by (left; exact Hn). destruct Hc1 as [[_ E1]|[Cu _]]; [|congruence].
      rewrite E1. apply c_get_set_same.
    + intros Hcase. rewrite Hg2.
      * destruct Hc1 as [[Ck E1]|[_ E1]]; rewrite E1; [|reflexivity].
        apply c_get_set_other; auto. intros E. inversion E; subst pk cc.
        destruct Hcase as [Hn|Cu]; [apply Hn; left; reflexivity|congruence].
      * destruct Hcase as [Hn|Cu]; [left; intros Hi; apply Hn; right; exact Hi|right; exact Cu].
Qed.

(* the storage changed at most under the marked keys *)
Lemma CI_mark_all st st' now c keys : CI (mkC (st, now) c now) -> Forall K keys -> parts_sorted st' ->
  (forall pk' cc', ~ In (pk', cc') keys -> raw_lookup st' pk' cc' = raw_lookup st pk' cc') ->
  CI (mkC (st', now) (fold_left (mark_unknown true) keys c) now).
Proof.
  intros [Hn He Hu Hs Hc] HK Hs' Hfr. cbn [c_now c_under c_cache fst snd] in *.
  destruct (marks_get keys c HK Hc) as [Hcs Hg].
  constructor; cbn [c_now c_under c_cache fst snd]; auto.
  - intros pk cc HKk. destruct (Hg pk cc HKk) as [Hg1 Hg2].
    destruct (in_dec pair_dec (pk, cc) keys) as [Hi|Hn'].
    + destruct (cacheable_key pk cc) eqn:Ck.
      * rewrite (Hg1 Hi eq_refl). exact I.
      * rewrite (Hg2 (or_intror eq_refl)). rewrite (Hu pk cc HKk Ck). cbn [entry_ok]. congruence.
    + rewrite (Hg2 (or_introl Hn')). eapply entry_ok_congr; [|apply He; assumption]. apply Hfr. exact Hn'.
  - intros pk cc HKk Cu. destruct (Hg pk cc HKk) as [_ Hg2]. rewrite (Hg2 (or_intror Cu)). apply Hu; assumption.
Qed.

Lemma raw_put_batch_other items : forall (st : store bytes) pk cc, ~ In (pk, cc) (map fst items) ->
  raw_lookup (put_batch st items) pk cc = raw_lookup st pk cc.
Proof.
  unfold put_batch. induction items as [|[[p c] v] items IH]; intros st pk cc Hn; cbn [fold_left map fst snd] in *; [reflexivity|].
  rewrite IH by (intros Hi; apply Hn; right; exact Hi).
  unfold put. apply raw_set_other. intros E. apply Hn. left. symmetry. exact E.
Qed.

(* a write of the reference storage keeps the clock and the rows under all other keys *)
Lemma spec_write_frame st now o : is_write o = true -> parts_sorted st ->
  parts_sorted (fst (fst (spec_step (st, now) o))) /\ snd (fst (spec_step (st, now) o)) = now /\
  forall pk cc, ~ In (pk, cc) (write_keys o) -> raw_lookup (fst (fst (spec_step (st, now) o))) pk cc = raw_lookup st pk cc.
Proof.
  intros W S. destruct o as [pk0 cc0 v|items|pk0 cc0|pk0 ccs|pk0 a f|pk0 cc0 v ttl|pk0 cc0 old new ttl|pk0 cc0 e|pk0 cc0|pk0 a f|pk0 cc0|d];
    try discriminate; cbn [spec_step write_keys fst snd].
  - split; [apply put_sorted; exact S|split; [reflexivity|]]. intros pk cc Hn. unfold put. apply raw_set_other.
    intros E. apply Hn. left. symmetry. exact E.
  - split; [apply put_batch_sorted; exact S|split; [reflexivity|]]. intros pk cc Hn. apply raw_put_batch_other. exact Hn.
  - pose proof (ins_sorted now st pk0 cc0 v ttl S) as S'. unfold insert_if_not_exists in *.
    destruct (lookup now st pk0 cc0); cbn [fst snd] in *; (split; [exact S'|split; [reflexivity|]]); intros pk cc Hn; auto.
    apply raw_set_other. intros E. apply Hn. left. symmetry. exact E.
  - pose proof (cas_sorted lex_eqb now st pk0 cc0 old new ttl S) as S'. unfold compare_and_swap in *.
    destruct (lookup now st pk0 cc0) as [r|]; [destruct (lex_eqb (rval r) old)|]; cbn [fst snd] in *;
      (split; [exact S'|split; [reflexivity|]]); intros pk cc Hn; auto.
    apply raw_set_other. intros E. apply Hn. left. symmetry. exact E.
  - pose proof (cad_sorted lex_eqb now st pk0 cc0 e S) as S'. unfold compare_and_delete in *.
    destruct (lookup now st pk0 cc0) as [r|]; [destruct (lex_eqb (rval r) e)|]; cbn [fst snd] in *;
      (split; [exact S'|split; [reflexivity|]]); intros pk cc Hn; auto.
    apply raw_del_other; [exact S|]. intros E. apply Hn. left. symmetry. exact E.
Qed.

(* ... and so does a write that failed, whatever part of it was applied *)
Lemma failed_write_frame st now f o : faulty f o = true -> parts_sorted st ->
  parts_sorted (fst (failed_under spec_step (st, now) f o)) /\ snd (failed_under spec_step (st, now) f o) = now /\
  forall pk cc, ~ In (pk, cc) (write_keys o) -> raw_lookup (fst (failed_under spec_step (st, now) f o)) pk cc = raw_lookup st pk cc.
Proof.
  intros F S. destruct f as [| | |k|]; cbn [faulty] in F; try discriminate; cbn [failed_under fst snd].
  - auto.
  - apply spec_write_frame; assumption.
  - destruct o as [pk0 cc0 v|items|pk0 cc0|pk0 ccs|pk0 a f|pk0 cc0 v ttl|pk0 cc0 old new ttl|pk0 cc0 e|pk0 cc0|pk0 a f|pk0 cc0|d];
      cbn [fst snd]; auto.
    destruct (spec_write_frame st now (OPutBatch (firstn k items)) eq_refl S) as [H1 [H2 H3]].
    split; [exact H1|split; [exact H2|]]. intros pk cc Hn. apply H3. cbn [write_keys] in *.
    intros Hi. apply Hn. rewrite <- firstn_map in Hi. exact (incl_firstn k _ _ Hi).
Qed.

Lemma write_keys_op_keys o : is_write o = true -> write_keys o = op_keys o.
Proof. destruct o; try discriminate; reflexivity. Qed.

(* one step under a fault plan, failed writes marking their keys *)
Theorem cache_fstep_transparent xm s fo : CI s -> op_domain (snd fo) -> fst fo <> FRaw ->
  let r := cache_fstep spec_step true true xm true s fo in
  CI (fst r) /\ c_under (fst r) = fst (under_fstep spec_step (c_under s) fo) /\
  (dont_care (c_under s) (snd fo) = true \/ snd r = snd (under_fstep spec_step (c_under s) fo)).
Proof.
  intros HCI Hdom Hraw. destruct fo as [f o]. unfold cache_fstep, under_fstep. cbn [fst snd] in *.
  assert (Eb : bypasses f o = false) by (destruct f; try reflexivity; contradiction). rewrite Eb.
  destruct (faulty f o) eqn:F.
  - cbn [fst snd c_under]. split; [|split; [reflexivity|right; reflexivity]].
    destruct s as [[st now] c cnow].
    assert (Ecn : cnow = now) by (destruct HCI as [Hn _ _ _ _]; exact Hn). subst cnow.
    cbn [c_under c_cache c_now].
    destruct (failed_write_frame st now f o F (CI_sorted _ HCI)) as [S' [En Hfr]].
    assert (W : is_write o = true) by (destruct f; cbn in F; try discriminate; exact F).
    destruct (failed_under spec_step (st, now) f o) as [st' now'] eqn:Eu. cbn [fst snd] in *. subst now'.
    apply (CI_mark_all st st' now c (write_keys o) HCI); auto.
    rewrite (write_keys_op_keys o W). exact (proj1 Hdom).
  - exact (cache_step_gen_transparent xm s o HCI Hdom).
Qed.

(* with one caching storage per app the second handle is the first *)
Definition one_cache (s : xst (U:=sstate)) : cstate := mkC (x_under s) (x_c0 s) (x_now s).

Lemma xstep_one_cache bm kg xm em s x :
  one_cache (fst (xstep spec_step true bm kg xm em s x)) = fst (cache_fstep spec_step bm kg xm em (one_cache s) (xfop x)) /\
  snd (xstep spec_step true bm kg xm em s x) = snd (cache_fstep spec_step bm kg xm em (one_cache s) (xfop x)).
Proof.
  unfold xstep, one_cache, xfop. rewrite andb_false_r.
  destruct (cache_fstep spec_step bm kg xm em (mkC (x_under s) (x_c0 s) (x_now s)) (snd (fst x), snd x)) as [[u c n] out].
  cbn. auto.
Qed.

Fixpoint transparent_xrun (memo bm kg xm em : bool) (s : xst (U:=sstate)) (xs : list (bool * fault * sop)) : Prop :=
  match xs with
  | [] => True
  | x :: r => (dont_care (x_under s) (snd x) = true \/
               snd (xstep spec_step memo bm kg xm em s x) = snd (under_fstep spec_step (x_under s) (xfop x)))
              /\ transparent_xrun memo bm kg xm em (fst (xstep spec_step memo bm kg xm em s x)) r
  end.

Theorem cache_transparent_x_proved xm xs : forall s, CI (one_cache s) ->
  Forall (fun x => op_domain (snd x) /\ snd (fst x) <> FRaw) xs ->
  transparent_xrun true true true xm true s xs.
Proof.
  induction xs as [|x xs IH]; intros s HCI HF; cbn [transparent_xrun]; auto.
  inversion HF as [|? ? Ho Hr]; subst.
  destruct (xstep_one_cache true true xm true s x) as [E1 E2].
  destruct (cache_fstep_transparent xm (one_cache s) (xfop x) HCI (proj1 Ho) (proj2 Ho)) as [H1 [H2 H3]].
  split.
  - rewrite E2. exact H3.
  - apply IH; [|exact Hr]. rewrite E1. exact H1.
Qed.

(* the code as it is: the flags read from the source say "one cache per app" and "failed writes mark" *)
Lemma flag_one_per_app : cache_provider_one_per_app = true. Proof. reflexivity. Qed.
Lemma flag_lock_across : cache_provider_lock_across_create = true. Proof. reflexivity. Qed.
Lemma provider_memo_true conc : provider_memo conc = true.
Proof. unfold provider_memo. rewrite flag_one_per_app, flag_lock_across. reflexivity. Qed.
Lemma flag_write_error_marks : cache_write_error_marks = true. Proof. reflexivity. Qed.

Theorem cache_transparent_x_src_proved conc xs : forall s, CI (one_cache s) ->
  Forall (fun x => op_domain (snd x) /\ snd (fst x) <> FRaw) xs ->
  transparent_xrun (provider_memo conc) cache_big_values_marked cache_key_guard cache_expired_leaves_marker
                   cache_write_error_marks s xs.
Proof. rewrite provider_memo_true, flag_big_marked, flag_key_guard, flag_write_error_marks. exact (cache_transparent_x_proved _ xs). Qed.

End SeqProof.
