(* C07 - proofs about the cache model: schedules (no stale read after a completed write). *)
From Coq Require Import List NArith ZArith Lia Bool Arith ZifyNat ZifyN ZifyBool.
From V Require Import Lib.Lex Lib.SMap Lib.Check Storage.Spec Gen.Params C06_Storage.Model C07_Cache.Model.
Import ListNotations.
Local Open Scope N_scope.

Lemma flag_fill_guarded : cache_positive_fill_guarded = true. Proof. reflexivity. Qed.
Lemma flag_batch_fill_guarded : cache_batch_fill_guarded = true. Proof. reflexivity. Qed.

(* ---------- list helpers ---------- *)

Lemma nth_error_set_nth_same {T} (l : list T) i x y : nth_error l i = Some y -> nth_error (set_nth l i x) i = Some x.
Proof.
  revert i; induction l as [|a l IH]; intros [|i] H; cbn in *; try discriminate; auto.
Qed.

Lemma nth_error_set_nth_other {T} (l : list T) i j x : i <> j -> nth_error (set_nth l i x) j = nth_error l j.
Proof.
  revert i j; induction l as [|a l IH]; intros [|i] [|j] H; cbn; auto; try congruence.
Qed.

Definition entry_of (starts : list (nat * N)) (i : nat) : option (nat * N) :=
  find (fun e => Nat.eqb (fst e) i) starts.

Lemma entry_cons_same starts i c : entry_of ((i, c) :: starts) i = Some (i, c).
Proof. unfold entry_of. cbn. rewrite Nat.eqb_refl. reflexivity. Qed.

Lemma entry_cons_other starts i j c : i <> j -> entry_of ((i, c) :: starts) j = entry_of starts j.
Proof. intros H. unfold entry_of. cbn. destruct (Nat.eqb_spec i j); [contradiction|reflexivity]. Qed.

Lemma entry_filter_same starts i : entry_of (filter (fun e => negb (Nat.eqb (fst e) i)) starts) i = None.
Proof.
  unfold entry_of. induction starts as [|[j c] r IH]; cbn; auto.
  destruct (Nat.eqb_spec j i); cbn; auto. destruct (Nat.eqb_spec j i); [contradiction|]. exact IH.
Qed.

Lemma entry_filter_other starts i j : i <> j ->
  entry_of (filter (fun e => negb (Nat.eqb (fst e) i)) starts) j = entry_of starts j.
Proof.
  intros H. unfold entry_of. induction starts as [|[k c] r IH]; cbn; auto.
  destruct (Nat.eqb_spec k i); cbn.
  - subst. destruct (Nat.eqb_spec i j); [contradiction|]. exact IH.
  - destruct (Nat.eqb_spec k j); auto.
Qed.

(* ---------- the invariant ---------- *)

Definition reader_ok (s : sch) (starts : list (nat * N)) (i : nat) (r : rpc * nat) : Prop :=
  match fst r with
  | RIdle => entry_of starts i = None
  | RMissed => exists c, entry_of starts i = Some (i, c) /\ c <= s_completed s
  | RGot v => exists c, entry_of starts i = Some (i, c) /\ c <= v
  end.

Record Inv (s : sch) (starts : list (nat * N)) : Prop := mkInv {
  I_store : s_completed s <= s_store s;
  I_cache : forall n, s_cache s = Some n -> s_completed s <= n;
  I_nocache : s_cache s = None -> s_completed s = 0;
  I_next : s_store s < s_wnext s;
  I_readers : forall i r, nth_error (s_readers s) i = Some r -> reader_ok s starts i r
}.

Lemma Inv_init puts readers : Inv (sch_init puts readers) [].
Proof.
  constructor; cbn; try lia; try discriminate; auto.
  intros i r H. rewrite nth_error_map in H. destruct (nth_error readers i); inversion H; subst. cbn. reflexivity.
Qed.

(* the statement: every schedule the model can run satisfies the oracle *)
Theorem no_stale_after_complete_proved : forall ps s starts obs,
  Inv s starts -> sch_run s ps = Some obs -> no_stale starts ps obs = true.
Proof.
  induction ps as [|p ps IH]; intros s starts obs HI Hrun; cbn in Hrun.
  - inversion Hrun; subst. reflexivity.
  - destruct (sch_step s p) as [[s' o]|] eqn:Es; [|discriminate].
    destruct (sch_run s' ps) as [obs'|] eqn:Er; [|discriminate]. cbn in Hrun. inversion Hrun; subst obs. clear Hrun.
    destruct HI as [H1 H2 H3 H4 H5].
    destruct p as [|i]; cbn in Es.
    + (* writer *)
      destruct (s_wpc s) eqn:Ew.
      * inversion Es; subst s' o. cbn [no_stale]. eapply IH; [|exact Er].
        constructor; cbn; try lia.
        -- intros n E. inversion E; subst. lia.
        -- discriminate.
        -- intros j r Hr. specialize (H5 j r Hr). unfold reader_ok in *. cbn [fst s_completed].
           destruct (fst r); auto. destruct H5 as [c [E L]]. exists c. split; auto. lia.
      * destruct (s_wleft s) as [|k]; [discriminate|]. inversion Es; subst s' o. cbn [no_stale].
        eapply IH; [|exact Er]. constructor; cbn; try lia; auto.
    + (* reader i *)
      destruct (nth_error (s_readers s) i) as [[pc k]|] eqn:En; [|discriminate].
      pose proof (H5 i _ En) as Hi. unfold reader_ok in Hi. cbn [fst] in Hi.
      destruct pc as [| |v].
      * destruct k as [|k]; [discriminate|].
        destruct (s_cache s) as [cv|] eqn:Ec; inversion Es; subst s' o; cbn [no_stale].
        -- (* hit *) pose proof (H2 cv eq_refl) as Hcv.
           destruct (N.leb_spec (s_completed s) cv); [|lia]. cbn [andb].
           eapply IH; [|exact Er]. constructor; cbn; auto.
           intros j r Hr. destruct (Nat.eq_dec i j) as [<-|Nij].
           ++ rewrite (nth_error_set_nth_same _ _ _ _ En) in Hr. inversion Hr; subst. exact Hi.
           ++ rewrite nth_error_set_nth_other in Hr by assumption. exact (H5 j r Hr).
        -- (* miss: the Get starts *)
           eapply IH; [|exact Er]. constructor; cbn; auto.
           intros j r Hr. destruct (Nat.eq_dec i j) as [<-|Nij].
           ++ rewrite (nth_error_set_nth_same _ _ _ _ En) in Hr. inversion Hr; subst. unfold reader_ok. cbn [fst s_completed].
              exists (s_completed s). rewrite entry_cons_same. split; [reflexivity|lia].
           ++ rewrite nth_error_set_nth_other in Hr by assumption. specialize (H5 j r Hr).
              unfold reader_ok in *. cbn [fst s_completed]. rewrite entry_cons_other by assumption. exact H5.
      * (* storage read *)
        inversion Es; subst s' o; cbn [no_stale]. eapply IH; [|exact Er]. constructor; cbn; auto.
        intros j r Hr. destruct (Nat.eq_dec i j) as [<-|Nij].
        -- rewrite (nth_error_set_nth_same _ _ _ _ En) in Hr. inversion Hr; subst. unfold reader_ok. cbn [fst s_completed].
           destruct Hi as [c [E L]]. exists c. split; auto. lia.
        -- rewrite nth_error_set_nth_other in Hr by assumption. exact (H5 j r Hr).
      * (* fill + return *)
        try rewrite flag_fill_guarded in Es. inversion Es; subst s' o; cbn [no_stale].
        destruct Hi as [c [E L]]. fold (entry_of starts i). rewrite E.
        destruct (N.leb_spec c v); [|lia]. cbn [andb].
        eapply IH; [|exact Er]. constructor; cbn; auto.
        -- intros n. destruct (s_cache s) as [cv|] eqn:Ec; intros En'; inversion En'; subst.
           ++ apply H2. reflexivity.
           ++ rewrite (H3 eq_refl). lia.
        -- destruct (s_cache s); [discriminate|]. intros _. apply H3. reflexivity.
        -- intros j r Hr. destruct (Nat.eq_dec i j) as [<-|Nij].
           ++ rewrite (nth_error_set_nth_same _ _ _ _ En) in Hr. inversion Hr; subst. unfold reader_ok. cbn [fst s_completed].
              apply entry_filter_same.
           ++ rewrite nth_error_set_nth_other in Hr by assumption. specialize (H5 j r Hr).
              unfold reader_ok in *. cbn [fst s_completed]. rewrite entry_filter_other by assumption. exact H5.
Qed.

(* ================= sequential transparency over the reference storage ================= *)
From V Require Import Storage.SpecLaws.
Local Open Scope Z_scope.

Section SeqProof.
(* the (pKey, cCols) pairs a history uses; on them the cache key must be injective (finding F7) *)
Variable K : bytes * bytes -> Prop.
Hypothesis K_inj : forall k1 k2, K k1 -> K k2 -> make_key (fst k1) (snd k1) = make_key (fst k2) (snd k2) -> k1 = k2.

Notation cstate := (cst (U:=sstate)).

Definition entry_ok (st : store bytes) (now : Z) (pk cc : bytes) (e : option centry) : Prop :=
  match e with
  | Some (Some (exp, v)) => raw_lookup st pk cc = Some (mkRow v exp)
  | Some None => lookup now st pk cc = None
  | None => lookup now st pk cc = None
  end.

Record CI (s : cstate) : Prop := mkCI {
  CI_now : c_now s = snd (c_under s);
  CI_entries : forall pk cc, K (pk, cc) -> entry_ok (fst (c_under s)) (snd (c_under s)) pk cc (c_get (c_cache s) pk cc);
  CI_sorted : parts_sorted (fst (c_under s));
  CI_csorted : sorted (c_cache s)
}.

Lemma CI_init : CI (mkC ([], 0) [] 0).
Proof. constructor; cbn; auto; try constructor; try apply parts_sorted_nil. Qed.

Lemma c_get_set_same c pk cc e : c_get (c_set c pk cc e) pk cc = Some e.
Proof. unfold c_get, c_set. apply sm_get_put_same. Qed.

Lemma c_get_set_other c pk cc e pk' cc' : K (pk, cc) -> K (pk', cc') -> (pk', cc') <> (pk, cc) ->
  c_get (c_set c pk cc e) pk' cc' = c_get c pk' cc'.
Proof.
  intros H H' N. unfold c_get, c_set. apply sm_get_put_other. intros E. apply N.
  apply (K_inj (pk', cc') (pk, cc)); auto.
Qed.

Lemma c_get_del_same c pk cc : sorted c -> c_get (c_del c pk cc) pk cc = None.
Proof. intros S. unfold c_get, c_del. apply sm_get_del_same. exact S. Qed.

Lemma c_get_del_other c pk cc pk' cc' : sorted c -> K (pk, cc) -> K (pk', cc') -> (pk', cc') <> (pk, cc) ->
  c_get (c_del c pk cc) pk' cc' = c_get c pk' cc'.
Proof.
  intros S H H' N. unfold c_get, c_del. apply sm_get_del_other; [|exact S]. intros E. apply N.
  apply (K_inj (pk', cc') (pk, cc)); auto.
Qed.

Lemma key_dec (pk cc pk' cc' : bytes) : {(pk', cc') = (pk, cc)} + {(pk', cc') <> (pk, cc)}.
Proof.
  destruct (lex_eqb pk' pk) eqn:E1; [destruct (lex_eqb cc' cc) eqn:E2|].
  - left. apply lex_eqb_eq in E1, E2. congruence.
  - right. apply lex_eqb_neq in E2. congruence.
  - right. apply lex_eqb_neq in E1. congruence.
Qed.

Lemma lookup_raw_congr (st st' : store bytes) now pk cc :
  raw_lookup st' pk cc = raw_lookup st pk cc -> lookup now st' pk cc = lookup now st pk cc.
Proof. intros H. unfold lookup. rewrite H. reflexivity. Qed.

Lemma entry_ok_congr st st' now pk cc e :
  raw_lookup st' pk cc = raw_lookup st pk cc -> entry_ok st now pk cc e -> entry_ok st' now pk cc e.
Proof.
  intros H. unfold entry_ok. rewrite (lookup_raw_congr st st' now pk cc H).
  destruct e as [[[ex v]|]|]; auto. rewrite H. auto.
Qed.

(* write-through of one row *)
Lemma CI_write st now c pk cc v ex : CI (mkC (st, now) c now) -> K (pk, cc) ->
  CI (mkC (set_row st pk cc (mkRow v ex), now) (c_set c pk cc (Some (ex, v))) now).
Proof.
  intros [Hn He Hs Hc] HK. cbn [c_now c_under c_cache fst snd] in *. constructor; cbn [c_now c_under c_cache fst snd]; auto.
  - intros pk' cc' HK'. destruct (key_dec pk cc pk' cc') as [E|N].
    + inversion E; subst. rewrite c_get_set_same. cbn. apply raw_set_same.
    + rewrite c_get_set_other by assumption. eapply entry_ok_congr; [|apply He; assumption].
      apply raw_set_other. assumption.
  - apply set_row_sorted. exact Hs.
  - apply sm_put_sorted. exact Hc.
Qed.

(* caching "known missing" for a key whose live view is empty *)
Lemma CI_negative st now c pk cc : CI (mkC (st, now) c now) -> K (pk, cc) -> lookup now st pk cc = None ->
  CI (mkC (st, now) (c_set_if_absent c pk cc None) now).
Proof.
  intros HCI HK HL. unfold c_set_if_absent. destruct (c_get c pk cc) eqn:Eg; [exact HCI|].
  destruct HCI as [Hn He Hs Hc]. cbn [c_now c_under c_cache fst snd] in *. constructor; cbn [c_now c_under c_cache fst snd]; auto.
  - intros pk' cc' HK'. destruct (key_dec pk cc pk' cc') as [E|N].
    + inversion E; subst. rewrite c_get_set_same. cbn. exact HL.
    + rewrite c_get_set_other by assumption. apply He. assumption.
  - apply sm_put_sorted. exact Hc.
Qed.

Lemma lookup_mono (st : store bytes) now d pk cc : 0 <= d -> lookup now st pk cc = None -> lookup (now + d) st pk cc = None.
Proof.
  intros Hd. unfold lookup. destruct (raw_lookup st pk cc) as [r|]; auto.
  unfold expired. destruct (Z.ltb_spec 0 (rexp r)); cbn; [|discriminate].
  destruct (Z.leb_spec (rexp r) now); [|discriminate]. intros _.
  destruct (Z.leb_spec (rexp r) (now + d)); [reflexivity|lia].
Qed.

Definition op_keys (o : sop) : list (bytes * bytes) :=
  match o with
  | OPut pk cc _ | OGet pk cc | OIns pk cc _ _ | OCas pk cc _ _ _ | OCad pk cc _ | OTTLGet pk cc | OQueryTTL pk cc => [(pk, cc)]
  | OPutBatch items => map fst items
  | OGetBatch pk ccs => map (fun cc => (pk, cc)) ccs
  | _ => []
  end.

Definition op_domain (o : sop) : Prop :=
  Forall K (op_keys o) /\ match o with OAdvance d => 0 <= d | OPutBatch _ | OGetBatch _ _ => False | _ => True end.

Theorem cache_step_transparent s o : CI s -> op_domain o ->
  let r := cache_step spec_step s o in
  CI (fst r) /\ c_under (fst r) = fst (spec_step (c_under s) o) /\
  (dont_care (c_under s) o = true \/ snd r = snd (spec_step (c_under s) o)).
Proof.
  intros HCI [HK Hdom]. destruct s as [[st now] c cnow].
  assert (Ecn : cnow = now) by (destruct HCI as [Hn _ _ _]; exact Hn). subst cnow.
  pose proof (CI_entries _ HCI) as He. cbn [c_under c_cache fst snd] in He.
  destruct o as [pk cc v|items|pk cc|pk ccs|pk a f|pk cc v ttl|pk cc old new ttl|pk cc e|pk cc|pk a f|pk cc|d];
    cbn [op_keys] in HK; try contradiction.
  - (* Put *) inversion HK as [|? ? HK1 _]; subst. cbn. split; [|split; [reflexivity|right; reflexivity]].
    apply CI_write; assumption.
  - (* Get *) inversion HK as [|? ? HK1 _]; subst. specialize (He pk cc HK1).
    cbn [cache_step c_under c_cache c_now spec_step fst snd dont_care].
    destruct (c_get c pk cc) as [[[ex v]|]|] eqn:Eg; cbn [entry_ok] in He.
    + cbn [fst snd]. split; [exact HCI|]. split; [reflexivity|]. rewrite He.
      cbn [rexp]. destruct (Z.eqb_spec ex 0) as [E0|E0]; cbn [negb]; [right|left; reflexivity].
      subst. unfold get, lookup. rewrite He. reflexivity.
    + cbn [fst snd]. split; [exact HCI|]. split; [reflexivity|right]. unfold get. rewrite He. reflexivity.
    + unfold get. rewrite He. cbn [option_map fst snd]. split; [|split; [reflexivity|right; reflexivity]].
      apply CI_negative; assumption.
  - (* Read *) cbn. split; [exact HCI|split; [reflexivity|right; reflexivity]].
  - (* Ins *) inversion HK as [|? ? HK1 _]; subst.
    cbn [cache_step c_under c_cache c_now spec_step fst snd dont_care]. unfold insert_if_not_exists.
    destruct (lookup now st pk cc); cbn [fst snd]; (split; [|split; [reflexivity|right; reflexivity]]); auto.
    apply CI_write; assumption.
  - (* Cas *) inversion HK as [|? ? HK1 _]; subst.
    cbn [cache_step c_under c_cache c_now spec_step fst snd dont_care]. unfold compare_and_swap.
    destruct (lookup now st pk cc) as [r|]; [destruct (lex_eqb (rval r) old)|]; cbn [fst snd];
      (split; [|split; [reflexivity|right; reflexivity]]); auto.
    apply CI_write; assumption.
  - (* Cad *) inversion HK as [|? ? HK1 _]; subst.
    cbn [cache_step c_under c_cache c_now spec_step fst snd dont_care]. unfold compare_and_delete.
    destruct (lookup now st pk cc) as [r|] eqn:El; [destruct (lex_eqb (rval r) e)|]; cbn [fst snd];
      (split; [|split; [reflexivity|right; reflexivity]]); auto.
    destruct HCI as [Hn He' Hs Hc]. cbn [c_now c_under c_cache fst snd] in *. constructor; cbn [c_now c_under c_cache fst snd]; auto.
    + intros pk' cc' HK'. destruct (key_dec pk cc pk' cc') as [E|N].
      * inversion E; subst. rewrite c_get_del_same by assumption. cbn. unfold lookup.
        rewrite raw_del_same by assumption. reflexivity.
      * rewrite c_get_del_other by assumption. eapply entry_ok_congr; [|apply He'; assumption].
        apply raw_del_other; assumption.
    + apply del_row_sorted. exact Hs.
    + apply sm_del_sorted. exact Hc.
  - (* TTLGet *) inversion HK as [|? ? HK1 _]; subst. pose proof (He pk cc HK1) as Hk.
    cbn [cache_step c_under c_cache c_now spec_step fst snd dont_care].
    destruct (c_get c pk cc) as [[[ex v]|]|] eqn:Eg; cbn [entry_ok] in Hk.
    + unfold get, lookup. rewrite Hk. unfold expired, c_expired. cbn [rexp rval].
      destruct ((0 <? ex) && (ex <=? now)) eqn:Ex; cbn [fst snd option_map].
      * split; [|split; [reflexivity|right; reflexivity]].
        destruct HCI as [Hn He' Hs Hc]. cbn [c_now c_under c_cache fst snd] in *. constructor; cbn [c_now c_under c_cache fst snd]; auto.
        -- intros pk' cc' HK'. destruct (key_dec pk cc pk' cc') as [E|N].
           ++ inversion E; subst. rewrite c_get_del_same by assumption. cbn. unfold lookup. rewrite Hk.
              unfold expired. cbn. rewrite Ex. reflexivity.
           ++ rewrite c_get_del_other by assumption. apply He'. assumption.
        -- apply sm_del_sorted. exact Hc.
      * split; [exact HCI|split; [reflexivity|right; reflexivity]].
    + cbn [fst snd]. split; [exact HCI|]. split; [reflexivity|right]. unfold get. rewrite Hk. reflexivity.
    + unfold get. rewrite Hk. cbn [option_map fst snd]. split; [|split; [reflexivity|right; reflexivity]].
      apply CI_negative; assumption.
  - (* TTLRead *) cbn. split; [exact HCI|split; [reflexivity|right; reflexivity]].
  - (* QueryTTL *) cbn. split; [exact HCI|split; [reflexivity|right; reflexivity]].
  - (* Advance *) cbn. split; [|split; [reflexivity|right; reflexivity]].
    destruct HCI as [Hn He' Hs Hc]. cbn [c_now c_under c_cache fst snd] in *. constructor; cbn [c_now c_under c_cache fst snd]; auto.
    intros pk' cc' HK'. specialize (He' pk' cc' HK'). unfold entry_ok in *.
    destruct (c_get c pk' cc') as [[[ex v]|]|]; auto; apply lookup_mono; auto.
Qed.

Fixpoint transparent_run (s : cstate) (ops : list sop) : Prop :=
  match ops with
  | [] => True
  | o :: r => (dont_care (c_under s) o = true \/ snd (cache_step spec_step s o) = snd (spec_step (c_under s) o))
              /\ transparent_run (fst (cache_step spec_step s o)) r
  end.

Theorem cache_transparent_proved ops : forall s, CI s -> Forall op_domain ops -> transparent_run s ops.
Proof.
  induction ops as [|o ops IH]; intros s HCI HF; cbn; auto.
  inversion HF as [|? ? Ho Hr]; subst.
  destruct (cache_step_transparent s o HCI Ho) as [H1 [H2 H3]].
  split; [exact H3|]. apply IH; auto.
Qed.

End SeqProof.
