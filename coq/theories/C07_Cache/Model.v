(* C07 - model of pkg/istoragecache/impl.go.
   Part 1: sequential cache over an arbitrary underlying storage step function (entries carry their
           size: fastcache ignores an entry that does not fit a chunk, setCached marks such a row).
   Part 2: small-step schedule model (one writer, any number of readers, one key) at the
           granularity of calls into the underlying storage and cache fills.
   Definitions only. *)
From Coq Require Import List NArith ZArith Lia Bool.
From V Require Import Lib.Lex Lib.SMap Lib.Check Storage.Spec Gen.Params C06_Storage.Model.
Import ListNotations.
Local Open Scope Z_scope.

(* ================= Part 1: sequential ================= *)

(* makeKey: pKey ++ cCols (no separator: finding F7) *)
Definition make_key (pk cc : bytes) : bytes := pk ++ cc.

(* a cache entry: CNeg = "known missing" (empty bytes), CPos expireAt value = 8-byte expiry header ++ value,
   CBig = the one-byte mark `uncacheable`: the row exists in the storage but its entry does not fit the
   cache (repair of finding F26); a marked entry counts as cached for the fill guards and sends every
   read to the storage *)
Inductive centry := CNeg | CPos (exp : Z) (v : bytes) | CBig.
Definition cache := smap centry.

Definition c_get (c : cache) (pk cc : bytes) : option centry := sm_get (make_key pk cc) c.
Definition c_set (c : cache) (pk cc : bytes) (e : centry) : cache := sm_put (make_key pk cc) e c.
Definition c_del (c : cache) (pk cc : bytes) : cache := sm_del (make_key pk cc) c.

Definition blen (b : bytes) : Z := Z.of_nat (length b).

(* fastcache's Set (library code, modelled): a key or value of 64 KB or more cannot be encoded, and an
   entry with 4 + len key + len value >= chunkSize fits no chunk: the call returns without storing
   anything and without touching an older entry under the key *)
Definition entry_len (e : centry) : Z :=
  match e with CNeg => 0 | CBig => 1 | CPos _ v => 8 + blen v end.
Definition fc_fits (pk cc : bytes) (e : centry) : bool :=
  (blen pk + blen cc <? 65536) && (entry_len e <? 65536)
  && (4 + blen pk + blen cc + entry_len e <? fastcache_chunk_size).
Definition fc_set (c : cache) (pk cc : bytes) (e : centry) : cache :=
  if fc_fits pk cc e then c_set c pk cc e else c.

(* the mark itself fits (key shorter than chunkSize - 5 = 65531 bytes); then "known missing" fits too *)
Definition key_fits (pk cc : bytes) : bool := fc_fits pk cc CBig.

(* setCached: len(key) + len(entry) >= maxCachedEntrySize *)
Definition too_big (pk cc v : bytes) : bool := cache_max_entry_size <=? blen pk + blen cc + 8 + blen v.

(* cacheableKey: len(key) + len(uncacheable) < maxCachedEntrySize *)
Definition cacheable_key (pk cc : bytes) : bool := blen pk + blen cc + 1 <? cache_max_entry_size.

(* [kg] = true: under a key for which not even the mark fits nothing is stored at all, "known missing"
   included (setCached / setAbsent test cacheableKey first: the code since the repair of F26b); false: no
   such test (the code before) *)
Definition key_skipped (kg : bool) (pk cc : bytes) : bool := kg && negb (cacheable_key pk cc).

(* every store of a found row.  [bm] = true: through setCached, which stores the mark instead of an entry
   that is too big (the code since the repair of F26); false: the entry goes to fastcache as it is, which
   ignores it when it does not fit - the cache is left UNCHANGED (the code before) *)
Definition set_pos (bm kg : bool) (c : cache) (pk cc : bytes) (exp : Z) (v : bytes) : cache :=
  if key_skipped kg pk cc then c
  else if bm && too_big pk cc v then fc_set c pk cc CBig else fc_set c pk cc (CPos exp v).
(* every store of "known missing" (setAbsent) *)
Definition set_neg (kg : bool) (c : cache) (pk cc : bytes) : cache :=
  if key_skipped kg pk cc then c else fc_set c pk cc CNeg.

(* fills under `if !alreadyCached` (a mark is an entry) *)
Definition set_neg_if_absent (kg : bool) (c : cache) (pk cc : bytes) : cache :=
  match c_get c pk cc with Some _ => c | None => set_neg kg c pk cc end.
Definition set_pos_if_absent (bm kg : bool) (c : cache) (pk cc : bytes) (v : bytes) : cache :=
  match c_get c pk cc with Some _ => c | None => set_pos bm kg c pk cc 0 v end.

(* what a read finds in the cache: an answer, or nothing it can use (no entry, or the mark) *)
Definition c_answer (c : cache) (pk cc : bytes) : option centry :=
  match c_get c pk cc with
  | Some CBig | None => None
  | Some e => Some e
  end.

Section Seq.
Context {U : Type} (ustep : U -> sop -> U * sout).

Record cst := mkC { c_under : U; c_cache : cache; c_now : Z }.

Definition c_expired (now exp : Z) : bool := (0 <? exp) && (exp <=? now).

Definition fill_positive (bm kg : bool) (c : cache) (pk cc v : bytes) : cache :=
  if cache_positive_fill_guarded then set_pos_if_absent bm kg c pk cc v else set_pos bm kg c pk cc 0 v.

Definition fill_positive_batch (bm kg : bool) (c : cache) (pk cc v : bytes) : cache :=
  if cache_batch_fill_guarded then set_pos_if_absent bm kg c pk cc v else set_pos bm kg c pk cc 0 v.

(* [xm]: TTLGet finding an expired entry caches the absence (true, the code since the repair of C07-EXPDEL) or
   drops the entry (false, the code before) *)
Definition cache_step_gen (bm kg xm : bool) (s : cst) (o : sop) : cst * sout :=
  let u := c_under s in let c := c_cache s in let now := c_now s in
  match o with
  | OPut pk cc v =>
      let '(u', out) := ustep u o in
      (mkC u' (match out with RUnit => set_pos bm kg c pk cc 0 v | _ => c end) now, out)
  | OPutBatch items =>
      let '(u', out) := ustep u o in
      (mkC u' (match out with
               | RUnit => fold_left (fun c it => set_pos bm kg c (fst (fst it)) (snd (fst it)) 0 (snd it)) items c
               | _ => c end) now, out)
  | OGet pk cc =>
      match c_answer c pk cc with
      | Some CNeg => (s, RGet None)
      | Some (CPos _ v) => (s, RGet (Some v))
      | Some CBig | None =>
          let '(u', out) := ustep u o in
          match out with
          | RGet (Some v) => (mkC u' (fill_positive bm kg c pk cc v) now, out)
          | RGet None => (mkC u' (set_neg_if_absent kg c pk cc) now, out)
          | _ => (mkC u' c now, out)
          end
      end
  | OGetBatch pk ccs =>
      if forallb (fun cc => match c_answer c pk cc with Some _ => true | None => false end) ccs
      then (s, RBatch (map (fun cc => match c_answer c pk cc with Some (CPos _ v) => Some v | _ => None end) ccs))
      else
        let '(u', out) := ustep u o in
        match out with
        | RBatch vs =>
            (mkC u' (fold_left (fun c ccv => match snd ccv with
                                             | Some v => fill_positive_batch bm kg c pk (fst ccv) v
                                             | None => set_neg_if_absent kg c pk (fst ccv)
                                             end) (combine ccs vs) c) now, out)
        | _ => (mkC u' c now, out)
        end
  | OIns pk cc v ttl =>
      let '(u', out) := ustep u o in
      (mkC u' (match out with RBool true => set_pos bm kg c pk cc (exp_of now ttl) v | _ => c end) now, out)
  | OCas pk cc old new ttl =>
      let '(u', out) := ustep u o in
      (mkC u' (match out with RBool true => set_pos bm kg c pk cc (exp_of now ttl) new | _ => c end) now, out)
  | OCad pk cc e =>
      let '(u', out) := ustep u o in
      (mkC u' (match out with RBool true => if cache_delete_leaves_marker then set_neg kg c pk cc else c_del c pk cc | _ => c end) now, out)
  | OTTLGet pk cc =>
      match c_answer c pk cc with
      | Some CNeg => (s, RGet None)
      | Some (CPos exp v) =>
          if c_expired now exp then (mkC u (if xm then set_neg kg c pk cc else c_del c pk cc) now, RGet None)
          else (s, RGet (Some v))
      | Some CBig | None =>
          let '(u', out) := ustep u o in
          match out with
          | RGet None => (mkC u' (set_neg_if_absent kg c pk cc) now, out)
          | _ => (mkC u' c now, out)
          end
      end
  | ORead _ _ _ | OTTLRead _ _ _ | OQueryTTL _ _ =>
      let '(u', out) := ustep u o in (mkC u' c now, out)
  | OAdvance d =>
      let '(u', out) := ustep u o in (mkC u' c (now + d), out)
  end.

(* the code as it is: the flags read from the source *)
Definition cache_step := cache_step_gen cache_big_values_marked cache_key_guard cache_expired_leaves_marker.

Fixpoint run_cache_gen (bm kg xm : bool) (s : cst) (ops : list sop) : list sout :=
  match ops with
  | [] => []
  | o :: r => let '(s', out) := cache_step_gen bm kg xm s o in out :: run_cache_gen bm kg xm s' r
  end.

Definition run_cache := run_cache_gen cache_big_values_marked cache_key_guard cache_expired_leaves_marker.

End Seq.

Arguments mkC {U}.
Arguments c_under {U}.
Arguments c_cache {U}.
Arguments c_now {U}.

(* ---- trace checking, sequential ---- *)

Record strace := mkSTrace { st_backend : backend; st_ops : list sop; st_cached : list sout; st_plain : list sout }.

Definition agrees_seq (t : strace) : bool :=
  list_eqb sout_eqb
    (match st_backend t with
     | Mem => run_cache spec_step (mkC ([], 0) [] 0) (st_ops t)
     | Bbolt => run_cache bb_step (mkC bb_init [] 0) (st_ops t)
     end) (st_cached t)
  && list_eqb sout_eqb
    (match st_backend t with Mem => run_spec ([], 0) (st_ops t) | Bbolt => run_bb bb_init (st_ops t) end)
    (st_plain t).

(* the property: the cached instance returns what the uncached instance returned on the same
   history; outputs the storage interface leaves open (plain Get/GetBatch/Read touching a row
   written with a TTL, QueryTTL in the last second) are not compared *)
Fixpoint transparent_from (s : sstate) (ops : list sop) (a b : list sout) : bool :=
  match ops, a, b with
  | [], [], [] => true
  | o :: ro, x :: ra, y :: rb =>
      (dont_care s o || sout_eqb x y) && transparent_from (fst (spec_step s o)) ro ra rb
  | _, _, _ => false
  end.

Definition satisfies_seq (t : strace) : bool :=
  transparent_from ([], 0) (st_ops t) (st_cached t) (st_plain t).

(* ================= Part 1b: failed writes, more than one handle ================= *)

(* A write whose storage call returns an error may have been applied nevertheless: not at all
   (FErrBefore), completely (FErrAfter: a timeout after the effect), or - a batch - in its first k items
   (FPartial k: unlogged batches, chunked batch writes).
   FRaw is not a fault of the storage: the operation is applied to the storage directly, not through the cache -
   what an earlier run of the process did before this cache existed (a cache starts cold over whatever the
   storage holds). *)
Inductive fault := FNone | FErrBefore | FErrAfter | FPartial (k : nat) | FRaw.

Definition is_write (o : sop) : bool :=
  match o with OPut _ _ _ | OPutBatch _ | OIns _ _ _ _ | OCas _ _ _ _ _ | OCad _ _ _ => true | _ => false end.
Definition write_keys (o : sop) : list (bytes * bytes) :=
  match o with
  | OPut pk cc _ | OIns pk cc _ _ | OCas pk cc _ _ _ | OCad pk cc _ => [(pk, cc)]
  | OPutBatch items => map fst items
  | _ => []
  end.
(* faults are injected into writes only *)
Definition faulty (f : fault) (o : sop) : bool := match f with FNone | FRaw => false | _ => is_write o end.
(* the clock is shared: an advance is never "raw" *)
Definition bypasses (f : fault) (o : sop) : bool :=
  match f, o with FRaw, OAdvance _ => false | FRaw, _ => true | _, _ => false end.

Section SeqX.
Context {U : Type} (ustep : U -> sop -> U * sout).

(* what the storage holds after a write that reported an error *)
Definition failed_under (u : U) (f : fault) (o : sop) : U :=
  match f with
  | FNone | FErrBefore | FRaw => u
  | FErrAfter => fst (ustep u o)
  | FPartial k => match o with OPutBatch items => fst (ustep u (OPutBatch (firstn k items))) | _ => u end
  end.

(* the uncached storage under a fault plan *)
Definition under_fstep (u : U) (fo : fault * sop) : U * sout :=
  if faulty (fst fo) (snd fo) then (failed_under u (fst fo) (snd fo), RErr) else ustep u (snd fo).

Fixpoint under_frun (u : U) (fops : list (fault * sop)) : list sout :=
  match fops with
  | [] => []
  | fo :: r => let '(u', out) := under_fstep u fo in out :: under_frun u' r
  end.

(* markUnknown: what the storage holds under the key is not known; the row is marked like a row too big
   for the cache (reads go to the storage, fills find an entry) *)
Definition mark_unknown (kg : bool) (c : cache) (k : bytes * bytes) : cache :=
  if key_skipped kg (fst k) (snd k) then c else fc_set c (fst k) (snd k) CBig.

(* [em] = true: a write that failed marks its keys (the code since the repair of C07-WRITEERR); false: it
   leaves the cache as it was (the code before) *)
Definition cache_fstep (bm kg xm em : bool) (s : cst (U:=U)) (fo : fault * sop) : cst (U:=U) * sout :=
  if bypasses (fst fo) (snd fo)
  then let '(u', out) := ustep (c_under s) (snd fo) in (mkC u' (c_cache s) (c_now s), out)
  else if faulty (fst fo) (snd fo)
  then (mkC (failed_under (c_under s) (fst fo) (snd fo))
            (if em then fold_left (mark_unknown kg) (write_keys (snd fo)) (c_cache s) else c_cache s)
            (c_now s), RErr)
  else cache_step_gen ustep bm kg xm s (snd fo).

(* Two handles obtained from one caching provider for one app.  [memo] = true: the provider hands out one
   caching storage per app, both handles are the same cache (the code since the repair of C07-HANDLES);
   false: every AppStorage call builds a new cache over the same storage (the code before). *)
Record xst := mkX { x_under : U; x_c0 : cache; x_c1 : cache; x_now : Z }.

Definition xstep (memo bm kg xm em : bool) (s : xst) (x : bool * fault * sop) : xst * sout :=
  let second := fst (fst x) && negb memo in
  let c := if second then x_c1 s else x_c0 s in
  let '(s', out) := cache_fstep bm kg xm em (mkC (x_under s) c (x_now s)) (snd (fst x), snd x) in
  (if second then mkX (c_under s') (x_c0 s) (c_cache s') (c_now s')
   else mkX (c_under s') (c_cache s') (x_c1 s) (c_now s'), out).

Fixpoint xrun (memo bm kg xm em : bool) (s : xst) (xs : list (bool * fault * sop)) : list sout :=
  match xs with
  | [] => []
  | x :: r => let '(s', out) := xstep memo bm kg xm em s x in out :: xrun memo bm kg xm em s' r
  end.

End SeqX.

Arguments mkX {U}.
Arguments x_under {U}.
Arguments x_c0 {U}.
Arguments x_c1 {U}.
Arguments x_now {U}.

Definition xfop (x : bool * fault * sop) : fault * sop := (snd (fst x), snd x).

(* ---- trace checking: handles and fault plans ---- *)
(* do two handles taken from the provider share one cache?  The provider keeps a per-app map
   (cache_provider_one_per_app); two FIRST calls for an app that overlap [conc] both miss the map unless its mutex is
   held from the lookup to the store (cache_provider_lock_across_create) *)
Definition provider_memo (conc : bool) : bool :=
  cache_provider_one_per_app && (cache_provider_lock_across_create || negb conc).

(* xt_concurrent: the two handles were taken by two overlapping AppStorage calls (else one after the other) *)
Record xtrace := mkXTrace { xt_backend : backend; xt_concurrent : bool; xt_ops : list (bool * fault * sop);
                            xt_cached : list sout; xt_plain : list sout }.

Definition agrees_x (t : xtrace) : bool :=
  list_eqb sout_eqb
    (match xt_backend t with
     | Mem => xrun spec_step (provider_memo (xt_concurrent t)) cache_big_values_marked cache_key_guard cache_expired_leaves_marker
                   cache_write_error_marks
                   (mkX ([], 0) [] [] 0) (xt_ops t)
     | Bbolt => xrun bb_step (provider_memo (xt_concurrent t)) cache_big_values_marked cache_key_guard cache_expired_leaves_marker
                   cache_write_error_marks
                     (mkX bb_init [] [] 0) (xt_ops t)
     end) (xt_cached t)
  && list_eqb sout_eqb
    (match xt_backend t with
     | Mem => under_frun spec_step ([], 0) (map xfop (xt_ops t))
     | Bbolt => under_frun bb_step bb_init (map xfop (xt_ops t))
     end) (xt_plain t).

(* the property: whatever handle an operation goes through and whatever the storage did with the writes it
   failed, the cached outputs are the uncached ones (the reference state follows the same fault plan) *)
Fixpoint transparent_xfrom (s : sstate) (xs : list (bool * fault * sop)) (a b : list sout) : bool :=
  match xs, a, b with
  | [], [], [] => true
  | x :: rx, o1 :: ra, o2 :: rb =>
      (dont_care s (snd x) || sout_eqb o1 o2) && transparent_xfrom (fst (under_fstep spec_step s (xfop x))) rx ra rb
  | _, _, _ => false
  end.

Definition satisfies_x (t : xtrace) : bool :=
  transparent_xfrom ([], 0) (xt_ops t) (xt_cached t) (xt_plain t).

(* ================= Part 2: schedules ================= *)

(* One key.  The writer runs a program of writes that all succeed: the i-th write leaves content
   number i in the storage (content 0 is what was there before the run; None = no row).
   Readers run Get / TTLGet.  Values are numbers; a number >= 256 stands for a value too big for a
   cache entry (the harness uses one-byte values for v < 256 and 70000 bytes of the byte v - 256
   otherwise).  Time is a counter of clock advances (process PC); a write with a TTL (WInsT / WCasT:
   InsertIfNotExists / CompareAndSwap with ttlSeconds = 1, the clock advancing by whole seconds) leaves a
   row that expires at the next advance: expireAt = now + 1, 0 = never.
   Cache content for the key: None = not cached, Some ENeg = cached as "known missing",
   Some (EVal v expireAt) = value v cached, Some EBig = marked "row too big for the cache".  One step = one
   of the sections delimited by the calls into the underlying storage and by the cache mutex. *)
Inductive wop := WPut (v : N) | WIns (v : N) | WDel | WPutBig (v : N) | WInsT (v : N) | WCasT (v : N).
Inductive rop := OpGet | OpTTLGet.
Inductive rpc := RIdle | RMissed (o : rop) | RGot (o : rop) (e : option N).
Inductive sentry := ENeg | EVal (v : N) (exp : N) | EBig.

Definition big_val (v : N) : bool := (256 <=? v)%N.
Definition wcontent (w : wop) : option N :=
  match w with WPut v | WIns v | WInsT v | WCasT v => Some v | WDel => None | WPutBig v => Some (256 + v)%N end.
Definition wttl (w : wop) : bool := match w with WInsT _ | WCasT _ => true | _ => false end.
Definition wexp (now : N) (w : wop) : N := if wttl w then (now + 1)%N else 0%N.

(* a version of the row: its content and when it expires *)
Definition version := (option N * N)%type.
Definition s_expired (now exp : N) : bool := ((0 <? exp) && (exp <=? now))%N.
(* what a TTL-aware storage read (mem: Get and TTLGet alike) returns *)
Definition live (now : N) (e : version) : option N := if s_expired now (snd e) then None else fst e.

Record sch := mkSch {
  s_store : version;
  s_now : N;
  s_cache : option sentry;
  s_wpc : option wop;               (* the write whose storage step is done and whose cache step is not *)
  s_wprog : list wop;               (* writes not yet started *)
  s_completed : N;                  (* writes that have returned *)
  s_started : N;                    (* writes whose storage step is done *)
  s_hist : list version;            (* version after j storage steps, newest first (ghost) *)
  s_readers : list (rpc * list rop)
}.

Inductive pid := PW | PR (i : nat) | PC.

Inductive sobs :=
| SNone
| SWDone
| SClock
| SGetStart (c : N)
| SGetHit (c : N) (r : option N)
| SGetDone (r : option N).

Fixpoint set_nth {T} (l : list T) (i : nat) (x : T) : list T :=
  match l, i with
  | [], _ => []
  | _ :: r, O => x :: r
  | y :: r, S j => y :: set_nth r j x
  end.

Definition set_cr (s : sch) (c : option sentry) (rs : list (rpc * list rop)) : sch :=
  mkSch (s_store s) (s_now s) c (s_wpc s) (s_wprog s) (s_completed s) (s_started s) (s_hist s) rs.
Definition set_readers (s : sch) (rs : list (rpc * list rop)) : sch := set_cr s (s_cache s) rs.

Definition fill_if_absent (c : option sentry) (e : sentry) : option sentry :=
  match c with Some _ => c | None => Some e end.

(* the store of a found value v.  [bm]: is a value too big for an entry replaced by the mark (true, the
   code since the repair of finding F26) or ignored by fastcache, the entry staying as it was (false) *)
Definition set_val (bm : bool) (c : option sentry) (v exp : N) : option sentry :=
  if big_val v then (if bm then Some EBig else c) else Some (EVal v exp).

(* what the reader's last step does to the cache (a plain Get does not learn the expiry of the row) *)
Definition reader_fill (bm : bool) (o : rop) (got : option N) (c : option sentry) : option sentry :=
  match o, got with
  | OpGet, Some v => if cache_positive_fill_guarded then match c with Some _ => c | None => set_val bm c v 0 end
                     else set_val bm c v 0
  | OpGet, None => fill_if_absent c ENeg
  | OpTTLGet, Some _ => c                                   (* a found TTL row is not cached *)
  | OpTTLGet, None => if cache_ttlget_negative_fill_guarded then fill_if_absent c ENeg else Some ENeg
  end.

(* [mk]: does a successful CompareAndDelete leave a "not found" entry in the cache (true, the code
   since the repair of finding F8b) or drop the entry (false, the code before); [bm]: see set_val;
   [xm]: does a TTLGet that finds an expired entry leave a "not found" entry (true, the code since the repair
   of C07-EXPDEL) or drop the entry (false, the code before) *)
Definition sch_step_gen (mk bm xm : bool) (s : sch) (p : pid) : option (sch * sobs) :=
  match p with
  | PC => Some (mkSch (s_store s) (s_now s + 1)%N (s_cache s) (s_wpc s) (s_wprog s) (s_completed s) (s_started s)
                      (s_hist s) (s_readers s), SClock)
  | PW =>
      match s_wpc s with
      | Some w =>
          (* cache update + return; the entry's expiry is computed now, after the storage call *)
          let c' := match wcontent w with
                    | None => if mk then Some ENeg else None
                    | Some v => set_val bm (s_cache s) v (wexp (s_now s) w)
                    end in
          Some (mkSch (s_store s) (s_now s) c' None (s_wprog s) (s_started s) (s_started s) (s_hist s) (s_readers s), SWDone)
      | None =>
          match s_wprog s with
          | [] => None
          | w :: rest =>
              let ver := (wcontent w, wexp (s_now s) w) in
              Some (mkSch ver (s_now s) (s_cache s) (Some w) rest (s_completed s) (s_started s + 1)%N
                          (ver :: s_hist s) (s_readers s), SNone)
          end
      end
  | PR i =>
      match nth_error (s_readers s) i with
      | None => None
      | Some (RIdle, []) => None
      | Some (RIdle, o :: rest) =>
          let hit r := Some (set_readers s (set_nth (s_readers s) i (RIdle, rest)), SGetHit (s_completed s) r) in
          match s_cache s with
          | Some ENeg => hit None
          | Some (EVal v x) =>
              match o with
              | OpGet => hit (Some v)                       (* a plain Get does not look at the expiry *)
              | OpTTLGet =>
                  if s_expired (s_now s) x
                  then Some (set_cr s (if xm then Some ENeg else None) (set_nth (s_readers s) i (RIdle, rest)),
                             SGetHit (s_completed s) None)
                  else hit (Some v)
              end
          | Some EBig | None =>
              Some (set_readers s (set_nth (s_readers s) i (RMissed o, rest)), SGetStart (s_completed s))
          end
      | Some (RMissed o, rest) =>
          Some (set_readers s (set_nth (s_readers s) i (RGot o (live (s_now s) (s_store s)), rest)), SNone)
      | Some (RGot o e, rest) =>
          Some (set_cr s (reader_fill bm o e (s_cache s)) (set_nth (s_readers s) i (RIdle, rest)), SGetDone e)
      end
  end.

Definition sch_step := sch_step_gen cache_delete_leaves_marker cache_big_values_marked cache_expired_leaves_marker.

Definition sch_init (init : option N) (prog : list wop) (readers : list (list rop)) : sch :=
  mkSch (init, 0%N) 0 None None prog 0 0 [(init, 0%N)] (map (fun g => (RIdle, g)) readers).

Fixpoint sch_run_gen (mk bm xm : bool) (s : sch) (ps : list pid) : option (list sobs) :=
  match ps with
  | [] => Some []
  | p :: r => match sch_step_gen mk bm xm s p with
              | None => None
              | Some (s', o) => option_map (cons o) (sch_run_gen mk bm xm s' r)
              end
  end.

Definition sch_run := sch_run_gen cache_delete_leaves_marker cache_big_values_marked cache_expired_leaves_marker.

Record ctrace := mkCTrace { ct_init : option N; ct_prog : list wop; ct_readers : list (list rop);
                            ct_sched : list pid; ct_obs : list sobs }.

Definition on_eqb := option_eqb N.eqb.

Definition sobs_eqb (a b : sobs) : bool :=
  match a, b with
  | SNone, SNone | SWDone, SWDone | SClock, SClock => true
  | SGetStart c, SGetStart c' => (c =? c')%N
  | SGetHit c v, SGetHit c' v' => (c =? c')%N && on_eqb v v'
  | SGetDone v, SGetDone v' => on_eqb v v'
  | _, _ => false
  end.

Definition agrees_sched (t : ctrace) : bool :=
  match sch_run (sch_init (ct_init t) (ct_prog t) (ct_readers t)) (ct_sched t) with
  | Some obs => list_eqb sobs_eqb obs (ct_obs t)
  | None => false
  end.

(* ---- the property on the observed timeline alone ----
   hist = versions so far (newest first; its length - 1 = number of storage steps of the writer).
   A read that started when c writes had completed may return, of some version j >= c that exists when
   it returns, the content, or "not found" once that version has expired. *)
Definition fresh_enough (hist : list version) (now c : N) (r : option N) : bool :=
  existsb (fun j => (c <=? N.of_nat j)%N &&
                    match nth_error (rev hist) j with
                    | Some e => on_eqb (fst e) r || (match r with None => s_expired now (snd e) | Some _ => false end)
                    | None => false
                    end)
          (seq 0 (length hist)).

Fixpoint no_stale (hist : list version) (now : N) (prog : list wop) (wmid : bool) (starts : list (nat * N))
         (ps : list pid) (obs : list sobs) : bool :=
  match ps, obs with
  | [], [] => true
  | p :: rp, o :: ro =>
      match p, o with
      | PW, SNone =>
          (* the writer's storage step: the next version exists from now on *)
          match prog with
          | w :: rest => no_stale ((wcontent w, wexp now w) :: hist) now rest true starts rp ro
          | [] => false
          end
      | PW, SWDone => no_stale hist now prog false starts rp ro
      | PC, SClock => no_stale hist (now + 1)%N prog wmid starts rp ro
      | PR i, SGetStart c => no_stale hist now prog wmid ((i, c) :: starts) rp ro
      | PR i, SGetHit c r => fresh_enough hist now c r && no_stale hist now prog wmid starts rp ro
      | PR i, SGetDone r =>
          match find (fun e => Nat.eqb (fst e) i) starts with
          | Some (_, c) => fresh_enough hist now c r
                           && no_stale hist now prog wmid (filter (fun e => negb (Nat.eqb (fst e) i)) starts) rp ro
          | None => false
          end
      | PR i, SNone => no_stale hist now prog wmid starts rp ro
      | _, _ => false
      end
  | _, _ => false
  end.

Definition satisfies_sched (t : ctrace) : bool :=
  no_stale [(ct_init t, 0%N)] 0 (ct_prog t) false [] (ct_sched t) (ct_obs t).

(* ================= one trace type for the driver ================= *)
Inductive trace := TSeq (t : strace) | TSched (t : ctrace) | TSeqX (t : xtrace).
Definition agrees (t : trace) : bool :=
  match t with TSeq s => agrees_seq s | TSched c => agrees_sched c | TSeqX x => agrees_x x end.
Definition satisfies (t : trace) : bool :=
  match t with TSeq s => satisfies_seq s | TSched c => satisfies_sched c | TSeqX x => satisfies_x x end.
