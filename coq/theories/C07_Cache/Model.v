(* C07 - model of pkg/istoragecache/impl.go.
   Part 1: sequential cache over an arbitrary underlying storage step function.
   Part 2: small-step schedule model (one writer, any number of readers, one key) at the
           granularity of calls into the underlying storage and cache fills.
   Definitions only. *)
From Coq Require Import List NArith ZArith Lia Bool.
From V Require Import Lib.Lex Lib.SMap Lib.Check Storage.Spec Gen.Params C06_Storage.Model.
Import ListNotations.
Local Open Scope Z_scope.

(* ================= Part 1: sequential ================= *)

(* makeKey: pKey ++ cCols (no separator: finding F7) *)
Definition make_key (pk cc : bytes) : bytes := pk ++ cc.

(* a cache entry: None = "known missing" (empty bytes), Some (expireAt, value) *)
Definition centry := option (Z * bytes).
Definition cache := smap centry.

Definition c_get (c : cache) (pk cc : bytes) : option centry := sm_get (make_key pk cc) c.
Definition c_set (c : cache) (pk cc : bytes) (e : centry) : cache := sm_put (make_key pk cc) e c.
Definition c_del (c : cache) (pk cc : bytes) : cache := sm_del (make_key pk cc) c.
Definition c_set_if_absent (c : cache) (pk cc : bytes) (e : centry) : cache :=
  match c_get c pk cc with Some _ => c | None => c_set c pk cc e end.

Section Seq.
Context {U : Type} (ustep : U -> sop -> U * sout).

Record cst := mkC { c_under : U; c_cache : cache; c_now : Z }.

Definition c_expired (now exp : Z) : bool := (0 <? exp) && (exp <=? now).

Definition fill_positive (c : cache) (pk cc v : bytes) : cache :=
  if cache_positive_fill_guarded then c_set_if_absent c pk cc (Some (0, v)) else c_set c pk cc (Some (0, v)).

Definition fill_positive_batch (c : cache) (pk cc v : bytes) : cache :=
  if cache_batch_fill_guarded then c_set_if_absent c pk cc (Some (0, v)) else c_set c pk cc (Some (0, v)).

Definition cache_step (s : cst) (o : sop) : cst * sout :=
  let u := c_under s in let c := c_cache s in let now := c_now s in
  match o with
  | OPut pk cc v =>
      let '(u', out) := ustep u o in
      (mkC u' (match out with RUnit => c_set c pk cc (Some (0, v)) | _ => c end) now, out)
  | OPutBatch items =>
      let '(u', out) := ustep u o in
      (mkC u' (match out with
               | RUnit => fold_left (fun c it => c_set c (fst (fst it)) (snd (fst it)) (Some (0, snd it))) items c
               | _ => c end) now, out)
  | OGet pk cc =>
      match c_get c pk cc with
      | Some None => (s, RGet None)
      | Some (Some (_, v)) => (s, RGet (Some v))
      | None =>
          let '(u', out) := ustep u o in
          match out with
          | RGet (Some v) => (mkC u' (fill_positive c pk cc v) now, out)
          | RGet None => (mkC u' (c_set_if_absent c pk cc None) now, out)
          | _ => (mkC u' c now, out)
          end
      end
  | OGetBatch pk ccs =>
      if forallb (fun cc => match c_get c pk cc with Some _ => true | None => false end) ccs
      then (s, RBatch (map (fun cc => match c_get c pk cc with Some (Some (_, v)) => Some v | _ => None end) ccs))
      else
        let '(u', out) := ustep u o in
        match out with
        | RBatch vs =>
            (mkC u' (fold_left (fun c ccv => match snd ccv with
                                             | Some v => fill_positive_batch c pk (fst ccv) v
                                             | None => c_set_if_absent c pk (fst ccv) None
                                             end) (combine ccs vs) c) now, out)
        | _ => (mkC u' c now, out)
        end
  | OIns pk cc v ttl =>
      let '(u', out) := ustep u o in
      (mkC u' (match out with RBool true => c_set c pk cc (Some (exp_of now ttl, v)) | _ => c end) now, out)
  | OCas pk cc old new ttl =>
      let '(u', out) := ustep u o in
      (mkC u' (match out with RBool true => c_set c pk cc (Some (exp_of now ttl, new)) | _ => c end) now, out)
  | OCad pk cc e =>
      let '(u', out) := ustep u o in
      (mkC u' (match out with RBool true => if cache_delete_leaves_marker then c_set c pk cc None else c_del c pk cc | _ => c end) now, out)
  | OTTLGet pk cc =>
      match c_get c pk cc with
      | Some None => (s, RGet None)
      | Some (Some (exp, v)) =>
          if c_expired now exp then (mkC u (c_del c pk cc) now, RGet None) else (s, RGet (Some v))
      | None =>
          let '(u', out) := ustep u o in
          match out with
          | RGet None => (mkC u' (c_set_if_absent c pk cc None) now, out)
          | _ => (mkC u' c now, out)
          end
      end
  | ORead _ _ _ | OTTLRead _ _ _ | OQueryTTL _ _ =>
      let '(u', out) := ustep u o in (mkC u' c now, out)
  | OAdvance d =>
      let '(u', out) := ustep u o in (mkC u' c (now + d), out)
  end.

Fixpoint run_cache (s : cst) (ops : list sop) : list sout :=
  match ops with
  | [] => []
  | o :: r => let '(s', out) := cache_step s o in out :: run_cache s' r
  end.

End Seq.

Arguments mkC {U}.
Arguments c_under {U}.
Arguments c_cache {U}.
Arguments c_now {U}.

(* ---- trace checking, sequential ---- *)

Record strace := mkSTrace { st_backend : backend; st_ops : list sop; st_cached : list sout; st_plain : list sout }.

Definition agrees_seq (t : strace) : bool :=
  list_eqb sout_eqb
    (match st_backend t with
     | Mem => run_cache spec_step (mkC ([], 0) [] 0) (st_ops t)
     | Bbolt => run_cache bb_step (mkC bb_init [] 0) (st_ops t)
     end) (st_cached t)
  && list_eqb sout_eqb
    (match st_backend t with Mem => run_spec ([], 0) (st_ops t) | Bbolt => run_bb bb_init (st_ops t) end)
    (st_plain t).

(* the property: the cached instance returns what the uncached instance returned on the same
   history; outputs the storage interface leaves open (plain Get/GetBatch/Read touching a row
   written with a TTL, QueryTTL in the last second) are not compared *)
Fixpoint transparent_from (s : sstate) (ops : list sop) (a b : list sout) : bool :=
  match ops, a, b with
  | [], [], [] => true
  | o :: ro, x :: ra, y :: rb =>
      (dont_care s o || sout_eqb x y) && transparent_from (fst (spec_step s o)) ro ra rb
  | _, _, _ => false
  end.

Definition satisfies_seq (t : strace) : bool :=
  transparent_from ([], 0) (st_ops t) (st_cached t) (st_plain t).

(* ================= Part 2: schedules ================= *)

(* One key.  The writer runs a program of writes that all succeed: the i-th write leaves content
   number i in the storage (content 0 is what was there before the run; None = no row).
   Readers run Get / TTLGet.  Cache content for the key: None = not cached, Some None = cached as
   "known missing", Some (Some v) = value v cached.  One step = one of the sections delimited by
   the calls into the underlying storage and by the cache mutex. *)
Inductive wop := WPut (v : N) | WIns (v : N) | WDel.      (* Put / InsertIfNotExists / CompareAndDelete *)
Inductive rop := OpGet | OpTTLGet.
Inductive rpc := RIdle | RMissed (o : rop) | RGot (o : rop) (e : option N).

Definition wcontent (w : wop) : option N := match w with WPut v | WIns v => Some v | WDel => None end.

Record sch := mkSch {
  s_store : option N;
  s_cache : option (option N);
  s_wpc : option wop;               (* the write whose storage step is done and whose cache step is not *)
  s_wprog : list wop;               (* writes not yet started *)
  s_completed : N;                  (* writes that have returned *)
  s_started : N;                    (* writes whose storage step is done *)
  s_hist : list (option N);         (* content after j storage steps, newest first (ghost) *)
  s_readers : list (rpc * list rop)
}.

Inductive pid := PW | PR (i : nat).

Inductive sobs :=
| SNone
| SWDone
| SGetStart (c : N)
| SGetHit (c : N) (r : option N)
| SGetDone (r : option N).

Fixpoint set_nth {T} (l : list T) (i : nat) (x : T) : list T :=
  match l, i with
  | [], _ => []
  | _ :: r, O => x :: r
  | y :: r, S j => y :: set_nth r j x
  end.

Definition set_readers (s : sch) (rs : list (rpc * list rop)) : sch :=
  mkSch (s_store s) (s_cache s) (s_wpc s) (s_wprog s) (s_completed s) (s_started s) (s_hist s) rs.

Definition fill_if_absent (c : option (option N)) (e : option N) : option (option N) :=
  match c with Some _ => c | None => Some e end.

(* what the reader's last step does to the cache *)
Definition reader_fill (o : rop) (got : option N) (c : option (option N)) : option (option N) :=
  match o, got with
  | OpGet, Some v => if cache_positive_fill_guarded then fill_if_absent c (Some v) else Some (Some v)
  | OpGet, None => fill_if_absent c None
  | OpTTLGet, Some _ => c                                   (* a found TTL row is not cached *)
  | OpTTLGet, None => if cache_ttlget_negative_fill_guarded then fill_if_absent c None else Some None
  end.

(* [mk]: does a successful CompareAndDelete leave a "not found" entry in the cache (true, the code
   since the repair of finding F8b) or drop the entry (false, the code before) *)
Definition sch_step_gen (mk : bool) (s : sch) (p : pid) : option (sch * sobs) :=
  match p with
  | PW =>
      match s_wpc s with
      | Some w =>
          (* cache update + return *)
          let c' := match w with WDel => if mk then Some None else None | _ => Some (wcontent w) end in
          Some (mkSch (s_store s) c' None (s_wprog s) (s_started s) (s_started s) (s_hist s) (s_readers s), SWDone)
      | None =>
          match s_wprog s with
          | [] => None
          | w :: rest =>
              Some (mkSch (wcontent w) (s_cache s) (Some w) rest (s_completed s) (s_started s + 1)%N
                          (wcontent w :: s_hist s) (s_readers s), SNone)
          end
      end
  | PR i =>
      match nth_error (s_readers s) i with
      | None => None
      | Some (RIdle, []) => None
      | Some (RIdle, o :: rest) =>
          match s_cache s with
          | Some e => Some (set_readers s (set_nth (s_readers s) i (RIdle, rest)), SGetHit (s_completed s) e)
          | None => Some (set_readers s (set_nth (s_readers s) i (RMissed o, rest)), SGetStart (s_completed s))
          end
      | Some (RMissed o, rest) =>
          Some (set_readers s (set_nth (s_readers s) i (RGot o (s_store s), rest)), SNone)
      | Some (RGot o e, rest) =>
          Some (mkSch (s_store s) (reader_fill o e (s_cache s)) (s_wpc s) (s_wprog s) (s_completed s) (s_started s)
                      (s_hist s) (set_nth (s_readers s) i (RIdle, rest)), SGetDone e)
      end
  end.

Definition sch_step := sch_step_gen cache_delete_leaves_marker.

Definition sch_init (init : option N) (prog : list wop) (readers : list (list rop)) : sch :=
  mkSch init None None prog 0 0 [init] (map (fun g => (RIdle, g)) readers).

Fixpoint sch_run_gen (mk : bool) (s : sch) (ps : list pid) : option (list sobs) :=
  match ps with
  | [] => Some []
  | p :: r => match sch_step_gen mk s p with
              | None => None
              | Some (s', o) => option_map (cons o) (sch_run_gen mk s' r)
              end
  end.

Definition sch_run := sch_run_gen cache_delete_leaves_marker.

Record ctrace := mkCTrace { ct_init : option N; ct_prog : list wop; ct_readers : list (list rop);
                            ct_sched : list pid; ct_obs : list sobs }.

Definition on_eqb := option_eqb N.eqb.

Definition sobs_eqb (a b : sobs) : bool :=
  match a, b with
  | SNone, SNone | SWDone, SWDone => true
  | SGetStart c, SGetStart c' => (c =? c')%N
  | SGetHit c v, SGetHit c' v' => (c =? c')%N && on_eqb v v'
  | SGetDone v, SGetDone v' => on_eqb v v'
  | _, _ => false
  end.

Definition agrees_sched (t : ctrace) : bool :=
  match sch_run (sch_init (ct_init t) (ct_prog t) (ct_readers t)) (ct_sched t) with
  | Some obs => list_eqb sobs_eqb obs (ct_obs t)
  | None => false
  end.

(* ---- the property on the observed timeline alone ----
   hist = contents so far (newest first; its length - 1 = number of storage steps of the writer).
   A read that started when c writes had completed may return content j only for some j >= c
   that exists when it returns. *)
Definition content_at (hist : list (option N)) (j : N) : option (option N) :=
  nth_error (rev hist) (N.to_nat j).

Definition fresh_enough (hist : list (option N)) (c : N) (r : option N) : bool :=
  existsb (fun j => (c <=? N.of_nat j)%N && match nth_error (rev hist) j with Some e => on_eqb e r | None => false end)
          (seq 0 (length hist)).

Fixpoint no_stale (hist : list (option N)) (prog : list wop) (wmid : bool) (starts : list (nat * N))
         (ps : list pid) (obs : list sobs) : bool :=
  match ps, obs with
  | [], [] => true
  | p :: rp, o :: ro =>
      match p, o with
      | PW, SNone =>
          (* the writer's storage step: the next content exists from now on *)
          match prog with
          | w :: rest => no_stale (wcontent w :: hist) rest true starts rp ro
          | [] => false
          end
      | PW, SWDone => no_stale hist prog false starts rp ro
      | PR i, SGetStart c => no_stale hist prog wmid ((i, c) :: starts) rp ro
      | PR i, SGetHit c r => fresh_enough hist c r && no_stale hist prog wmid starts rp ro
      | PR i, SGetDone r =>
          match find (fun e => Nat.eqb (fst e) i) starts with
          | Some (_, c) => fresh_enough hist c r
                           && no_stale hist prog wmid (filter (fun e => negb (Nat.eqb (fst e) i)) starts) rp ro
          | None => false
          end
      | PR i, SNone => no_stale hist prog wmid starts rp ro
      | _, _ => false
      end
  | _, _ => false
  end.

Definition satisfies_sched (t : ctrace) : bool :=
  no_stale [ct_init t] (ct_prog t) false [] (ct_sched t) (ct_obs t).

(* ================= one trace type for the driver ================= *)
Inductive trace := TSeq (t : strace) | TSched (t : ctrace).
Definition agrees (t : trace) : bool := match t with TSeq s => agrees_seq s | TSched c => agrees_sched c end.
Definition satisfies (t : trace) : bool := match t with TSeq s => satisfies_seq s | TSched c => satisfies_sched c end.
