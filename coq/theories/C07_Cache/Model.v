(* C07 - model of pkg/istoragecache/impl.go.
   Part 1: sequential cache over an arbitrary underlying storage step function.
   Part 2: small-step schedule model (one writer, any number of readers, one key) at the
           granularity of calls into the underlying storage and cache fills.
   Definitions only. *)
From Coq Require Import List NArith ZArith Lia Bool.
From V Require Import Lib.Lex Lib.SMap Lib.Check Storage.Spec Gen.Params C06_Storage.Model.
Import ListNotations.
Local Open Scope Z_scope.

(* ================= Part 1: sequential ================= *)

(* makeKey: pKey ++ cCols (no separator: finding F7) *)
Definition make_key (pk cc : bytes) : bytes := pk ++ cc.

(* a cache entry: None = "known missing" (empty bytes), Some (expireAt, value) *)
Definition centry := option (Z * bytes).
Definition cache := smap centry.

Definition c_get (c : cache) (pk cc : bytes) : option centry := sm_get (make_key pk cc) c.
Definition c_set (c : cache) (pk cc : bytes) (e : centry) : cache := sm_put (make_key pk cc) e c.
Definition c_del (c : cache) (pk cc : bytes) : cache := sm_del (make_key pk cc) c.
Definition c_set_if_absent (c : cache) (pk cc : bytes) (e : centry) : cache :=
  match c_get c pk cc with Some _ => c | None => c_set c pk cc e end.

Section Seq.
Context {U : Type} (ustep : U -> sop -> U * sout).

Record cst := mkC { c_under : U; c_cache : cache; c_now : Z }.

Definition c_expired (now exp : Z) : bool := (0 <? exp) && (exp <=? now).

Definition fill_positive (c : cache) (pk cc v : bytes) : cache :=
  if cache_positive_fill_guarded then c_set_if_absent c pk cc (Some (0, v)) else c_set c pk cc (Some (0, v)).

Definition fill_positive_batch (c : cache) (pk cc v : bytes) : cache :=
  if cache_batch_fill_guarded then c_set_if_absent c pk cc (Some (0, v)) else c_set c pk cc (Some (0, v)).

Definition cache_step (s : cst) (o : sop) : cst * sout :=
  let u := c_under s in let c := c_cache s in let now := c_now s in
  match o with
  | OPut pk cc v =>
      let '(u', out) := ustep u o in
      (mkC u' (match out with RUnit => c_set c pk cc (Some (0, v)) | _ => c end) now, out)
  | OPutBatch items =>
      let '(u', out) := ustep u o in
      (mkC u' (match out with
               | RUnit => fold_left (fun c it => c_set c (fst (fst it)) (snd (fst it)) (Some (0, snd it))) items c
               | _ => c end) now, out)
  | OGet pk cc =>
      match c_get c pk cc with
      | Some None => (s, RGet None)
      | Some (Some (_, v)) => (s, RGet (Some v))
      | None =>
          let '(u', out) := ustep u o in
          match out with
          | RGet (Some v) => (mkC u' (fill_positive c pk cc v) now, out)
          | RGet None => (mkC u' (c_set_if_absent c pk cc None) now, out)
          | _ => (mkC u' c now, out)
          end
      end
  | OGetBatch pk ccs =>
      if forallb (fun cc => match c_get c pk cc with Some _ => true | None => false end) ccs
      then (s, RBatch (map (fun cc => match c_get c pk cc with Some (Some (_, v)) => Some v | _ => None end) ccs))
      else
        let '(u', out) := ustep u o in
        match out with
        | RBatch vs =>
            (mkC u' (fold_left (fun c ccv => match snd ccv with
                                             | Some v => fill_positive_batch c pk (fst ccv) v
                                             | None => c_set_if_absent c pk (fst ccv) None
                                             end) (combine ccs vs) c) now, out)
        | _ => (mkC u' c now, out)
        end
  | OIns pk cc v ttl =>
      let '(u', out) := ustep u o in
      (mkC u' (match out with RBool true => c_set c pk cc (Some (exp_of now ttl, v)) | _ => c end) now, out)
  | OCas pk cc old new ttl =>
      let '(u', out) := ustep u o in
      (mkC u' (match out with RBool true => c_set c pk cc (Some (exp_of now ttl, new)) | _ => c end) now, out)
  | OCad pk cc e =>
      let '(u', out) := ustep u o in
      (mkC u' (match out with RBool true => c_del c pk cc | _ => c end) now, out)
  | OTTLGet pk cc =>
      match c_get c pk cc with
      | Some None => (s, RGet None)
      | Some (Some (exp, v)) =>
          if c_expired now exp then (mkC u (c_del c pk cc) now, RGet None) else (s, RGet (Some v))
      | None =>
          let '(u', out) := ustep u o in
          match out with
          | RGet None => (mkC u' (c_set_if_absent c pk cc None) now, out)
          | _ => (mkC u' c now, out)
          end
      end
  | ORead _ _ _ | OTTLRead _ _ _ | OQueryTTL _ _ =>
      let '(u', out) := ustep u o in (mkC u' c now, out)
  | OAdvance d =>
      let '(u', out) := ustep u o in (mkC u' c (now + d), out)
  end.

Fixpoint run_cache (s : cst) (ops : list sop) : list sout :=
  match ops with
  | [] => []
  | o :: r => let '(s', out) := cache_step s o in out :: run_cache s' r
  end.

End Seq.

Arguments mkC {U}.
Arguments c_under {U}.
Arguments c_cache {U}.
Arguments c_now {U}.

(* ---- trace checking, sequential ---- *)

Record strace := mkSTrace { st_backend : backend; st_ops : list sop; st_cached : list sout; st_plain : list sout }.

Definition agrees_seq (t : strace) : bool :=
  list_eqb sout_eqb
    (match st_backend t with
     | Mem => run_cache spec_step (mkC ([], 0) [] 0) (st_ops t)
     | Bbolt => run_cache bb_step (mkC bb_init [] 0) (st_ops t)
     end) (st_cached t)
  && list_eqb sout_eqb
    (match st_backend t with Mem => run_spec ([], 0) (st_ops t) | Bbolt => run_bb bb_init (st_ops t) end)
    (st_plain t).

(* the property: the cached instance returns what the uncached instance returned on the same
   history; outputs the storage interface leaves open (plain Get/GetBatch/Read touching a row
   written with a TTL, QueryTTL in the last second) are not compared *)
Fixpoint transparent_from (s : sstate) (ops : list sop) (a b : list sout) : bool :=
  match ops, a, b with
  | [], [], [] => true
  | o :: ro, x :: ra, y :: rb =>
      (dont_care s o || sout_eqb x y) && transparent_from (fst (spec_step s o)) ro ra rb
  | _, _, _ => false
  end.

Definition satisfies_seq (t : strace) : bool :=
  transparent_from ([], 0) (st_ops t) (st_cached t) (st_plain t).

(* ================= Part 2: schedules ================= *)

(* One key. Values are version numbers: 0 is the value present before the run, the writer's i-th
   Put writes i. Cache content for the key: None = not cached, Some n = version n cached. *)
Inductive rpc := RIdle | RMissed | RGot (n : N).

Record sch := mkSch {
  s_store : N;            (* version in the underlying storage *)
  s_cache : option N;
  s_wpc : bool;           (* writer is between its storage write and its cache update *)
  s_wnext : N;            (* next version the writer will write *)
  s_wleft : nat;          (* Puts left *)
  s_completed : N;        (* version of the last Put that has returned *)
  s_readers : list (rpc * nat)   (* per reader: pc, Gets left *)
}.

Inductive pid := PW | PR (i : nat).

(* what a step lets the environment observe *)
Inductive sobs :=
| SNone                     (* parked at the next hook *)
| SPutDone                  (* the writer's Put returned *)
| SGetStart (c : N)         (* a Get starts: number of completed Puts at that instant *)
| SGetHit (c : N) (v : N)   (* a Get started and returned from the cache within one step *)
| SGetDone (v : N).         (* a Get returned *)

Fixpoint set_nth {T} (l : list T) (i : nat) (x : T) : list T :=
  match l, i with
  | [], _ => []
  | _ :: r, O => x :: r
  | y :: r, S j => y :: set_nth r j x
  end.

Definition sch_step (s : sch) (p : pid) : option (sch * sobs) :=
  match p with
  | PW =>
      if s_wpc s
      then (* cache.Set + return *)
        Some (mkSch (s_store s) (Some (s_store s)) false (s_wnext s) (s_wleft s) (s_store s) (s_readers s), SPutDone)
      else
        match s_wleft s with
        | O => None
        | S k => (* storage.Put *)
            Some (mkSch (s_wnext s) (s_cache s) true (s_wnext s + 1)%N k (s_completed s) (s_readers s), SNone)
        end
  | PR i =>
      match nth_error (s_readers s) i with
      | None => None
      | Some (RIdle, O) => None
      | Some (RIdle, S k) =>
          match s_cache s with
          | Some v => Some (mkSch (s_store s) (s_cache s) (s_wpc s) (s_wnext s) (s_wleft s) (s_completed s)
                                  (set_nth (s_readers s) i (RIdle, k)), SGetHit (s_completed s) v)
          | None => Some (mkSch (s_store s) (s_cache s) (s_wpc s) (s_wnext s) (s_wleft s) (s_completed s)
                                (set_nth (s_readers s) i (RMissed, k)), SGetStart (s_completed s))
          end
      | Some (RMissed, k) =>
          Some (mkSch (s_store s) (s_cache s) (s_wpc s) (s_wnext s) (s_wleft s) (s_completed s)
                      (set_nth (s_readers s) i (RGot (s_store s), k)), SNone)
      | Some (RGot v, k) =>
          let c' := if cache_positive_fill_guarded
                    then match s_cache s with Some _ => s_cache s | None => Some v end
                    else Some v in
          Some (mkSch (s_store s) c' (s_wpc s) (s_wnext s) (s_wleft s) (s_completed s)
                      (set_nth (s_readers s) i (RIdle, k)), SGetDone v)
      end
  end.

Definition sch_init (puts : nat) (readers : list nat) : sch :=
  mkSch 0 None false 1 puts 0 (map (fun g => (RIdle, g)) readers).

Fixpoint sch_run (s : sch) (ps : list pid) : option (list sobs) :=
  match ps with
  | [] => Some []
  | p :: r => match sch_step s p with
              | None => None
              | Some (s', o) => option_map (cons o) (sch_run s' r)
              end
  end.

Record ctrace := mkCTrace { ct_puts : nat; ct_readers : list nat; ct_sched : list pid; ct_obs : list sobs }.

Definition sobs_eqb (a b : sobs) : bool :=
  match a, b with
  | SNone, SNone | SPutDone, SPutDone => true
  | SGetStart c, SGetStart c' => (c =? c')%N
  | SGetHit c v, SGetHit c' v' => ((c =? c') && (v =? v'))%N
  | SGetDone v, SGetDone v' => (v =? v')%N
  | _, _ => false
  end.

Definition agrees_sched (t : ctrace) : bool :=
  match sch_run (sch_init (ct_puts t) (ct_readers t)) (ct_sched t) with
  | Some obs => list_eqb sobs_eqb obs (ct_obs t)
  | None => false
  end.

(* the property on the observed timeline alone: a Get that started when c Puts had completed
   returns a version >= c.  `starts` remembers, per reader, the c of its Get in flight. *)
Fixpoint no_stale (starts : list (nat * N)) (ps : list pid) (obs : list sobs) : bool :=
  match ps, obs with
  | [], [] => true
  | p :: rp, o :: ro =>
      match p, o with
      | PR i, SGetStart c => no_stale ((i, c) :: starts) rp ro
      | PR i, SGetHit c v => (c <=? v)%N && no_stale starts rp ro
      | PR i, SGetDone v =>
          match find (fun e => Nat.eqb (fst e) i) starts with
          | Some (_, c) => (c <=? v)%N && no_stale (filter (fun e => negb (Nat.eqb (fst e) i)) starts) rp ro
          | None => false
          end
      | _, _ => no_stale starts rp ro
      end
  | _, _ => false
  end.

Definition satisfies_sched (t : ctrace) : bool := no_stale [] (ct_sched t) (ct_obs t).

(* ================= one trace type for the driver ================= *)
Inductive trace := TSeq (t : strace) | TSched (t : ctrace).
Definition agrees (t : trace) : bool := match t with TSeq s => agrees_seq s | TSched c => agrees_sched c end.
Definition satisfies (t : trace) : bool := match t with TSeq s => satisfies_seq s | TSched c => satisfies_sched c end.
