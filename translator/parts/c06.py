"""C06: decisions of pkg/istorage/bbolt/impl.go that the bbolt model follows."""
import re


def collect(h):
    rel = "pkg/istorage/bbolt/impl.go"
    items = []

    body = h.func_body(rel, r"^func \(s \*appStorageType\) read\(", "bbolt read()")
    m = re.search(r"finishCCols\s*==\s*nil\s*\|\|\s*string\(k\)\s*(<=|<)\s*string\(finishCCols\)", body)
    if not m:
        m2 = re.search(r"finishCCols\s*==\s*nil\s*\|\|\s*bytes\.Compare\(k,\s*finishCCols\)\s*(<=|<)\s*0", body)
        if not m2:
            raise h.Missing(f"{rel}: cannot locate the upper-bound comparison of the range scan")
        m = m2
    items.append(("bbolt_finish_inclusive", "bool", "true" if m.group(1) == "<=" else "false", rel + " read(): loop condition"))

    body = h.func_body(rel, r"^func \(s \*appStorageType\) PutBatch\(", "bbolt PutBatch")
    if re.search(r"bucket\.Put\(\s*safeKey\(items\[i\]\.CCols\)", body):
        v = "true"
    elif re.search(r"bucket\.Put\(\s*items\[i\]\.CCols", body):
        v = "false"
    else:
        raise h.Missing(f"{rel}: cannot locate bucket.Put in PutBatch")
    items.append(("bbolt_putbatch_safekey", "bool", v, rel + " PutBatch"))

    body = h.func_body(rel, r"^func \(s \*appStorageType\) CompareAndDelete\(", "bbolt CompareAndDelete")
    if re.search(r"bucket\.Delete\(\s*safeKey\(cCols\)\s*\)", body):
        v = "true"
    elif re.search(r"bucket\.Delete\(\s*cCols\s*\)", body):
        v = "false"
    else:
        raise h.Missing(f"{rel}: cannot locate bucket.Delete in CompareAndDelete")
    items.append(("bbolt_cad_safekey", "bool", v, rel + " CompareAndDelete"))

    body = h.func_body(rel, r"^func \(s \*appStorageType\) GetBatch\(", "bbolt GetBatch")
    if re.search(r"items\[i\]\.Ok\s*=\s*len\(v\[utils\.Uint64Size:\]\)\s*>\s*0", body):
        v = "true"
    elif re.search(r"items\[i\]\.Ok\s*=\s*true", body):
        v = "false"
    else:
        raise h.Missing(f"{rel}: cannot locate the Ok assignment of GetBatch")
    items.append(("bbolt_getbatch_ok_nonempty", "bool", v, rel + " GetBatch"))

    body = h.func_body(rel, r"^func \(s \*appStorageType\) removeKey\(", "bbolt removeKey")
    v = "true" if re.search(r"ExpireAt|ReadWithExpiration|binary\.BigEndian\.Uint64\(v", body) else "false"
    items.append(("bbolt_cleaner_checks_expiry", "bool", v, rel + " removeKey"))

    # conditional operations: the check and the write in ONE transaction (finding F6: a read transaction
    # for the check followed by a separate write transaction lets two concurrent callers both win)
    single = True
    for fn in ("InsertIfNotExists", "CompareAndSwap", "CompareAndDelete"):
        body = h.func_body(rel, r"^func \(s \*appStorageType\) " + fn + r"\(", "bbolt " + fn)
        n_update = len(re.findall(r"s\.db\.Update\(", body))
        n_view = len(re.findall(r"s\.db\.View\(", body))
        helpers = [x for x in re.findall(r"s\.(\w+)\(", body) if x not in ("putValue", "currentValue")]
        if n_update != 1:
            raise h.Missing(f"{rel}: {fn} no longer has exactly one s.db.Update transaction; update C06_Storage/Conc.v")
        if n_view > 0 or any(hn in ("findValue",) for hn in helpers):
            single = False
    if single:
        body = h.func_body(rel, r"^func \(s \*appStorageType\) currentValue\(", "bbolt currentValue")
        if re.search(r"s\.db\.(View|Update)\(", body):
            single = False
    items.append(("bbolt_cond_ops_single_tx", "bool", "true" if single else "false", rel + " InsertIfNotExists/CompareAndSwap/CompareAndDelete"))

    rel = "pkg/istorage/bbolt/consts.go"
    m = h.find(rel, r"^\s*cleanupInterval\s*=\s*(.+)$", "cleanupInterval")
    expr = m.group(1).strip()
    units = {"time.Hour": 3600000, "time.Minute": 60000, "time.Second": 1000, "time.Millisecond": 1}
    mm = re.fullmatch(r"(?:(\d+)\s*\*\s*)?(time\.\w+)", expr)
    if not mm or mm.group(2) not in units:
        raise h.Missing(f"{rel}: cannot evaluate cleanupInterval = {expr}")
    items.append(("bbolt_cleanup_interval_ms", "Z", str(int(mm.group(1) or 1) * units[mm.group(2)]), rel))
    h.find(rel, r"nullKey\s*=\s*\[\]byte\{0\}", "nullKey = []byte{0}")
    return items
