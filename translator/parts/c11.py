"""C11: shape of the isequencer log batcher (one or two critical sections) and defaults."""
import re


def collect(h):
    rel = "pkg/isequencer/impl.go"
    body = h.func_body(rel, r"^func \(s \*sequencer\) batcher\(", "batcher")
    n = len(re.findall(r"s\.toBeFlushedMu\.Lock\(\)", body))
    if n not in (1, 2):
        raise h.Missing(f"{rel}: batcher has {n} write-lock sections; the model knows 1 or 2")
    if "s.toBeFlushedOffset" not in body or "maps.Copy(s.toBeFlushed" not in body:
        raise h.Missing(f"{rel}: batcher no longer publishes toBeFlushedOffset / toBeFlushed the way the model assumes")
    items = [("seq_batcher_two_step", "bool", "true" if n == 2 else "false", rel + " batcher: number of write-lock sections")]
    # Flush publishes inproc and the offset under one lock
    fl = h.func_body(rel, r"^func \(s \*sequencer\) Flush\(", "Flush")
    if len(re.findall(r"s\.toBeFlushedMu\.Lock\(\)", fl)) != 1:
        raise h.Missing(f"{rel}: Flush no longer has exactly one write-lock section")
    # Start refuses when len(toBeFlushed) > Max ; batcher waits while >= Max
    st = h.func_body(rel, r"^func \(s \*sequencer\) Start\(", "Start")
    if not re.search(r"len\(s\.toBeFlushed\)\s*>\s*s\.params\.MaxNumUnflushedValues", st):
        raise h.Missing(f"{rel}: Start's unflushed threshold test changed")
    if not re.search(r"s\.loadNumToBeFlushed\(\)\s*>=\s*s\.params\.MaxNumUnflushedValues", body):
        raise h.Missing(f"{rel}: batcher's overflow wait test changed")
    return items
