"""C11: shape of the isequencer log batcher (one or two critical sections) and defaults; the log scan of
appparts/internal/seqstorage (what goes into a batch, whether reserved-range ids are left out), the
record-id ranges and the ids of the two sequences."""
import re


def collect(h):
    rel = "pkg/isequencer/impl.go"
    body = h.func_body(rel, r"^func \(s \*sequencer\) batcher\(", "batcher")
    n = len(re.findall(r"s\.toBeFlushedMu\.Lock\(\)", body))
    if n not in (1, 2):
        raise h.Missing(f"{rel}: batcher has {n} write-lock sections; the model knows 1 or 2")
    if "s.toBeFlushedOffset" not in body or "maps.Copy(s.toBeFlushed" not in body:
        raise h.Missing(f"{rel}: batcher no longer publishes toBeFlushedOffset / toBeFlushed the way the model assumes")
    items = [("seq_batcher_two_step", "bool", "true" if n == 2 else "false", rel + " batcher: number of write-lock sections")]
    # Flush publishes inproc and the offset under one lock
    fl = h.func_body(rel, r"^func \(s \*sequencer\) Flush\(", "Flush")
    if len(re.findall(r"s\.toBeFlushedMu\.Lock\(\)", fl)) != 1:
        raise h.Missing(f"{rel}: Flush no longer has exactly one write-lock section")
    # Start refuses when len(toBeFlushed) > Max ; batcher waits while >= Max
    st = h.func_body(rel, r"^func \(s \*sequencer\) Start\(", "Start")
    if not re.search(r"len\(s\.toBeFlushed\)\s*>\s*s\.params\.MaxNumUnflushedValues", st):
        raise h.Missing(f"{rel}: Start's unflushed threshold test changed")
    if not re.search(r"s\.loadNumToBeFlushed\(\)\s*>=\s*s\.params\.MaxNumUnflushedValues", body):
        raise h.Missing(f"{rel}: batcher's overflow wait test changed")
    items += scan(h)
    return items


def scan(h):
    # ---- id ranges and sequence ids ----
    rel = "pkg/istructs/consts.go"

    def const(name):
        return h.find(rel, r"^const\s+" + name + r"\s*=\s*(.+?)\s*(?://.*)?$", name).group(1)

    def rid(name):
        m = re.fullmatch(r"RecordID\((\w+)\)", const(name))
        if not m:
            raise h.Missing(f"{rel}: {name} is not RecordID(<literal>)")
        return h.go_int(m.group(1))

    max_raw = rid("MaxRawRecordID")
    max_res = rid("MaxReservedRecordID")
    if const("MinReservedRecordID") != "MaxRawRecordID + 1":
        raise h.Missing(f"{rel}: MinReservedRecordID is no longer MaxRawRecordID + 1")
    if const("FirstUserRecordID") != "MaxReservedRecordID + 1":
        raise h.Missing(f"{rel}: FirstUserRecordID is no longer MaxReservedRecordID + 1")
    blk = h.find(rel, r"NullQNameID QNameID = 0 \+ iota\n((?:\s*\w+\n)+)", "well-known QNameIDs").group(1).split()
    if "QNameIDWLogOffsetSequence" not in blk or "QNameIDRecordIDSequence" not in blk:
        raise h.Missing(f"{rel}: the sequence QNameIDs are no longer in the iota block of well-known ids")
    out = [
        ("seq_min_reserved_id", "N", str(max_raw + 1), rel + " MinReservedRecordID (= FirstSingletonID)"),
        ("seq_max_reserved_id", "N", str(max_res), rel + " MaxReservedRecordID"),
        ("seq_first_user_id", "N", str(max_res + 1), rel + " FirstUserRecordID"),
        ("seq_wlog_offset_seq", "N", str(1 + blk.index("QNameIDWLogOffsetSequence")), rel + " QNameIDWLogOffsetSequence"),
        ("seq_record_id_seq", "N", str(1 + blk.index("QNameIDRecordIDSequence")), rel + " QNameIDRecordIDSequence"),
    ]
    # the sequences start where the model says: record ids at FirstUserRecordID, WLog offsets at FirstOffset
    rel = "pkg/istructsmem/appstruct-types.go"
    h.find(rel, r"AddSeqType\([^\n]*istructs\.QNameIDRecordIDSequence\)\s*,\s*isequencer\.Number\(istructs\.FirstUserRecordID\)\)", "initial record id")
    h.find(rel, r"AddSeqType\([^\n]*istructs\.QNameIDWLogOffsetSequence\)\s*,\s*isequencer\.Number\(istructs\.FirstOffset\)\)", "initial WLog offset")

    # ---- the scan: argument ODoc tree, new CUD rows, the WLog offset; all record ids go through addToBatch ----
    rel = "pkg/appparts/internal/seqstorage/impl.go"
    body = h.func_body(rel, r"^func \(ss \*implISeqStorage\) ActualizeSequencesFromPLog\(", "ActualizeSequencesFromPLog")
    for pat, what in [
        (r"if argType\.Kind\(\) == appdef\.TypeKind_ODoc \{\s*ss\.getNumbersFromObject\(event\.ArgumentObject\(\), event\.Workspace\(\), &batch\)", "ODoc argument branch"),
        (r"for cud := range event\.CUDs \{\s*if !cud\.IsNew\(\) \{\s*continue\s*\}", "new-rows-only loop"),
        (r"addToBatch\(event\.Workspace\(\), ss\.seqIDs\[seqQName\], cud\.ID\(\), &batch\)", "CUD id into the batch"),
        (r"SeqID: isequencer\.SeqID\(istructs\.QNameIDWLogOffsetSequence\)\},\s*Value: isequencer\.Number\(event\.WLogOffset\(\)\)", "WLog offset entry"),
        (r"return batcher\(ctx, batch, isequencer\.PLogOffset\(plogOffset\)\)", "batcher call"),
    ]:
        if not re.search(pat, body):
            raise h.Missing(f"{rel}: the scan no longer has its {what} in the shape the model mirrors")
    if "seqQName := istructs.QNameRecordIDSequence" not in body:
        raise h.Missing(f"{rel}: new CUD rows no longer go to the record-id sequence")
    obj = h.func_body(rel, r"^func \(ss \*implISeqStorage\) getNumbersFromObject\(", "getNumbersFromObject")
    if not re.search(r"addToBatch\(wsid, ss\.seqIDs\[istructs\.QNameRecordIDSequence\], root\.AsRecordID\(appdef\.SystemField_ID\), batch\)", obj) \
            or "ss.getNumbersFromObject(c, wsid, batch)" not in obj:
        raise h.Missing(f"{rel}: getNumbersFromObject no longer walks the argument tree the way the model mirrors")
    add = h.func_body(rel, r"^func addToBatch\(", "addToBatch")
    guard = re.search(r"if recID >= istructs\.MinReservedRecordID && recID <= istructs\.MaxReservedRecordID \{[^}]*\breturn\b", add)
    if guard:
        flt = True
    elif "Reserved" not in add and "Singleton" not in add and "FirstUserRecordID" not in add and "if " not in add:
        flt = False
    else:
        raise h.Missing(f"{rel}: addToBatch filters ids in a way the model does not know")
    out.append(("seq_scan_skips_reserved_ids", "bool", "true" if flt else "false",
                rel + " addToBatch: ids of the reserved range (singletons) are left out of the record-id sequence"))
    # the batcher keeps the maximum per key inside one event
    rel = "pkg/isequencer/impl.go"
    bat = h.func_body(rel, r"^func \(s \*sequencer\) batcher\(", "batcher")
    if not re.search(r"if current, exists := maxValues\[sv\.Key\]; !exists \|\| sv\.Value > current \{\s*maxValues\[sv\.Key\] = sv\.Value", bat):
        raise h.Missing(f"{rel}: batcher's per-event maximum changed shape")
    return out
