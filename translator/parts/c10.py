"""C10: ID ranges of the three persistent registries (qnames, containers, singletons) and the
shape of their load/collect code that the Coq model follows."""
import re

BASE = "pkg/istructsmem/internal/"


def _needs_version(h, rel, recv):
    """true: load() returns without reading rows when the version row is absent (code as pinned);
    false: the absent version is handled like ver01 (rows are read)."""
    body = h.func_body(rel, r"^func \(" + recv + r"\) load\(", rel + " load()")
    if re.search(r"case\s+vers\.UnknownVersion\s*:[^\n]*\n\s*return\s+nil", body):
        return "true"
    if re.search(r"case\s+vers\.UnknownVersion\s*,\s*ver01\s*:|case\s+ver01\s*,\s*vers\.UnknownVersion\s*:", body):
        return "false"
    raise h.Missing(f"{rel}: cannot classify how load() treats an absent version row")


def _cleared_by_store(h, rel, recv, var):
    """true: store() clears the pending-changes counter as its last statement (after both writes
    succeeded) and Prepare never clears it; false: Prepare clears it before calling store()."""
    prep = h.func_body(rel, r"^func \(" + recv + r"\) Prepare\(", rel + " Prepare()")
    store = h.func_body(rel, r"^func \(" + recv + r"\) store\(", rel + " store()")
    clr = var + r"\.changes\s*=\s*0"
    in_prep = re.search(clr, prep) is not None
    at_end = re.search(clr + r"\s*\n\s*return\s+nil\s*$", store.rstrip()) is not None
    n_store = len(re.findall(clr, store))
    if not re.search(r"if\s+" + var + r"\.changes\s*(>\s*0|==\s*0)", prep):
        raise h.Missing(f"{rel}: Prepare(): test of the changes counter not found")
    if at_end and n_store == 1 and not in_prep:
        return "true"
    if in_prep and n_store == 0:
        m = re.search(clr, prep)
        if re.search(r"\.store\(", prep[m.end():]) and not re.search(r"\.store\(", prep[:m.start()]):
            return "false"
    raise h.Missing(f"{rel}: cannot classify where the changes counter is cleared (Prepare / store)")


def _skips_deleted(h, rel, recv, null, syslast):
    """true: load01 returns on a row with the Null ID (deleted mark) before the reserved-range
    check; false: the two checks are merged so that a Null-ID row falls through into the maps."""
    body = h.func_body(rel, r"^func \(" + recv + r"\) load01\(", rel + " load01()")
    m_null = re.search(r"if\s+id\s*==\s*" + null + r"\s*\{\s*\n\s*return\s+nil", body)
    m_sys = re.search(r"if\s+id\s*<=\s*" + syslast + r"\s*\{", body)
    if m_null and m_sys and m_null.start() < m_sys.start():
        return "true"
    if not m_null and re.search(r"if\s+\(?id\s*<=\s*" + syslast + r"\)?\s*&&\s*\(?id\s*!=\s*" + null + r"\)?\s*\{", body):
        return "false"
    raise h.Missing(f"{rel}: load01(): cannot classify the checks on a loaded ID (deleted mark / reserved range)")


def _loop(h, rel, recv, fn, pat):
    body = h.func_body(rel, r"^func \(" + recv + r"\) " + fn + r"\(", rel + " " + fn)
    if not re.search(pat, body):
        raise h.Missing(f"{rel}: {fn}: allocation loop `for id := lastID + 1; id < Max; id++` not found")


def collect(h):
    items = []
    rel = "pkg/istructs/consts.go"
    sys_last = h.go_int(h.find(rel, r"^\s*QNameIDSysLast\s+QNameID\s*=\s*(\w+)", "QNameIDSysLast").group(1))
    max_raw = h.go_int(h.find(rel, r"^const\s+MaxRawRecordID\s*=\s*RecordID\((\w+)\)", "MaxRawRecordID").group(1))
    h.find(rel, r"^const\s+MinReservedRecordID\s*=\s*MaxRawRecordID\s*\+\s*1\s*$", "MinReservedRecordID = MaxRawRecordID + 1")
    h.find(rel, r"^const\s+FirstSingletonID\s*=\s*MinReservedRecordID\s*$", "FirstSingletonID = MinReservedRecordID")
    span = h.go_int(h.find(rel, r"^const\s+MaxSingletonID\s*=\s*FirstSingletonID\s*\+\s*(\w+)\s*$", "MaxSingletonID").group(1))
    items.append(("reg_qname_sys_last", "N", str(sys_last), rel))
    items.append(("reg_first_singleton", "N", str(max_raw + 1), rel))
    items.append(("reg_max_singleton", "N", str(max_raw + 1 + span), rel))

    rel = BASE + "qnames/consts.go"
    items.append(("reg_qname_max", "N", str(h.go_int(h.find(rel, r"^const\s+MaxAvailableQNameID\s*=\s*(\w+)", "MaxAvailableQNameID").group(1))), rel))
    rel = BASE + "containers/consts.go"
    items.append(("reg_cont_sys_last", "N", str(h.go_int(h.find(rel, r"^\s*ContainerNameIDSysLast\s+ContainerID\s*=\s*(\w+)", "ContainerNameIDSysLast").group(1))), rel))
    items.append(("reg_cont_max", "N", str(h.go_int(h.find(rel, r"^const\s+MaxAvailableContainerID\s*=\s*(\w+)", "MaxAvailableContainerID").group(1))), rel))

    rel = BASE + "qnames/impl.go"
    items.append(("reg_qname_needs_version", "bool", _needs_version(h, rel, r"names \*QNames"), rel + " load()"))
    items.append(("reg_qname_skips_deleted", "bool", _skips_deleted(h, rel, r"names \*QNames", r"istructs\.NullQNameID", r"istructs\.QNameIDSysLast"), rel + " load01()"))
    items.append(("reg_qname_changes_cleared_by_store", "bool", _cleared_by_store(h, rel, r"names \*QNames", "names"), rel + " Prepare()/store()"))
    _loop(h, rel, r"names \*QNames", "collect", r"for\s+id\s*:=\s*names\.lastID\s*\+\s*1\s*;\s*id\s*<\s*MaxAvailableQNameID\s*;\s*id\+\+")
    h.find(rel, r"lastID:\s*istructs\.QNameIDSysLast\s*,", "qnames: initial lastID = QNameIDSysLast")
    rel = BASE + "containers/impl.go"
    items.append(("reg_cont_needs_version", "bool", _needs_version(h, rel, r"cnt \*Containers"), rel + " load()"))
    items.append(("reg_cont_skips_deleted", "bool", _skips_deleted(h, rel, r"cnt \*Containers", r"NullContainerID", r"ContainerNameIDSysLast"), rel + " load01()"))
    items.append(("reg_cont_changes_cleared_by_store", "bool", _cleared_by_store(h, rel, r"cnt \*Containers", "cnt"), rel + " Prepare()/store()"))
    _loop(h, rel, r"cnt \*Containers", "collect", r"for\s+id\s*:=\s*cnt\.lastID\s*\+\s*1\s*;\s*id\s*<\s*MaxAvailableContainerID\s*;\s*id\+\+")
    h.find(rel, r"lastID:\s*ContainerNameIDSysLast\s*,", "containers: initial lastID = ContainerNameIDSysLast")
    rel = BASE + "singletons/impl.go"
    items.append(("reg_single_needs_version", "bool", _needs_version(h, rel, r"st \*Singletons"), rel + " load()"))
    items.append(("reg_single_changes_cleared_by_store", "bool", _cleared_by_store(h, rel, r"st \*Singletons", "st"), rel + " Prepare()/store()"))
    _loop(h, rel, r"st \*Singletons", "collectSingleton", r"for\s+id\s*:=\s*st\.lastID\s*\+\s*1\s*;\s*id\s*<\s*istructs\.MaxSingletonID\s*;\s*id\+\+")
    h.find(rel, r"lastID:\s*istructs\.FirstSingletonID\s*-\s*1\s*,", "singletons: initial lastID = FirstSingletonID - 1")
    # load01 keeps the maximum of the loaded IDs in lastID; collect skips IDs in use
    for rel, recv, var, fn in ((BASE + "qnames/impl.go", r"names \*QNames", "names", "collect"),
                               (BASE + "containers/impl.go", r"cnt \*Containers", "cnt", "collect"),
                               (BASE + "singletons/impl.go", r"st \*Singletons", "st", "collectSingleton")):
        body = h.func_body(rel, r"^func \(" + recv + r"\) load01\(", rel + " load01()")
        if not re.search(r"if\s+" + var + r"\.lastID\s*<\s*id\s*\{\s*\n\s*" + var + r"\.lastID\s*=\s*id\s*\n\s*\}", body) \
                or len(re.findall(var + r"\.lastID\s*=", body)) != 1:
            raise h.Missing(f"{rel}: load01(): expected `if lastID < id {{ lastID = id }}` as the only update of lastID")
        body = h.func_body(rel, r"^func \(" + recv + r"\) " + fn + r"\(", rel + " " + fn)
        if not re.search(r"if\s+_,\s*ok\s*:=\s*" + var + r"\.ids\[id\];\s*ok\s*\{\s*\n\s*continue", body):
            raise h.Missing(f"{rel}: {fn}: the allocation loop no longer skips IDs in use")

    # store(): all rows in ONE PutBatch; renameQName(): through store() (atomic) or two direct Puts
    for rel, recv in ((BASE + "qnames/impl.go", r"names \*QNames"), (BASE + "containers/impl.go", r"cnt \*Containers"),
                      (BASE + "singletons/impl.go", r"st \*Singletons")):
        body = h.func_body(rel, r"^func \(" + recv + r"\) store\(", rel + " store()")
        if len(re.findall(r"storage\.PutBatch\(", body)) != 1 or re.search(r"storage\.(Put|InsertIfNotExists|CompareAndSwap)\(", body) \
                or not re.search(r"if\s+err\s*:=\s*storage\.PutBatch\(batch\);\s*err\s*!=\s*nil\s*\{\s*\n\s*return\s+fmt\.Errorf\(", body):
            raise h.Missing(f"{rel}: store(): expected `if err := storage.PutBatch(batch); err != nil {{ return ... }}` "
                            "(all rows in ONE PutBatch whose error aborts the store) and no other row write")
    rel = BASE + "qnames/rename.go"
    body = h.func_body(rel, r"^func renameQName\(", rel + " renameQName()")
    direct = re.findall(r"storage\.(?:Put|PutBatch|InsertIfNotExists|CompareAndSwap)\(", body)
    if re.search(r"qnames\.store\(storage,\s*vers\)", body) and not direct:
        atomic = "true"
    elif (not re.search(r"\.store\(", body) and direct == ["storage.Put("]
          and re.search(r"errors\.Join\(\s*put\(newQName,\s*id\)\s*,\s*put\(oldQName,\s*istructs\.NullQNameID\)\s*\)", body)):
        atomic = "false"
    else:
        raise h.Missing(f"{rel}: cannot classify how renameQName writes its rows (store() / two Puts)")
    items.append(("reg_rename_atomic", "bool", atomic, rel + " renameQName()"))

    # qrename.Rename renames in the QNames view only (the Singletons view keeps the old name: finding C10-F2)
    rel = "pkg/istructsmem/qrename/provide.go"
    body = h.func_body(rel, r"^func Rename\(", rel + " Rename()")
    if not re.fullmatch(r"\s*return\s+qnames\.Rename\(storage,\s*oldQName,\s*newQName\)\s*", body):
        raise h.Missing(f"{rel}: Rename(): expected `return qnames.Rename(storage, oldQName, newQName)` only "
                        "(if Rename now also moves the singleton row, the C10 model must follow: findings/C10/C10-F2.md)")

    # vers.Versions: Put caches the value before writing it; Prepare re-reads without clearing the cache
    rel = BASE + "vers/impl.go"
    body = h.func_body(rel, r"^func \(vers \*Versions\) Put\(", rel + " Put()")
    if not re.search(r"vers\.vers\[key\]\s*=\s*value\s*\n\s*return\s+vers\.storage\.Put\(", body):
        raise h.Missing(f"{rel}: Put(): `vers.vers[key] = value` followed by `return vers.storage.Put(` not found")
    body = h.func_body(rel, r"^func \(vers \*Versions\) Prepare\(", rel + " Prepare()")
    if re.search(r"make\(|clear\(|delete\(", body) or not re.search(r"vers\.vers\[key\]\s*=\s*val", body):
        raise h.Missing(f"{rel}: Prepare(): expected a plain re-read of the version rows into the cache")
    return items
