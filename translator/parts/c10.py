"""C10: ID ranges of the three persistent registries (qnames, containers, singletons) and the
shape of their load/collect code that the Coq model follows."""
import re

BASE = "pkg/istructsmem/internal/"


def _needs_version(h, rel, recv):
    """true: load() returns without reading rows when the version row is absent (code as pinned);
    false: the absent version is handled like ver01 (rows are read)."""
    body = h.func_body(rel, r"^func \(" + recv + r"\) load\(", rel + " load()")
    if re.search(r"case\s+vers\.UnknownVersion\s*:[^\n]*\n\s*return\s+nil", body):
        return "true"
    if re.search(r"case\s+vers\.UnknownVersion\s*,\s*ver01\s*:|case\s+ver01\s*,\s*vers\.UnknownVersion\s*:", body):
        return "false"
    raise h.Missing(f"{rel}: cannot classify how load() treats an absent version row")


def _loop(h, rel, recv, fn, pat):
    body = h.func_body(rel, r"^func \(" + recv + r"\) " + fn + r"\(", rel + " " + fn)
    if not re.search(pat, body):
        raise h.Missing(f"{rel}: {fn}: allocation loop `for id := lastID + 1; id < Max; id++` not found")


def collect(h):
    items = []
    rel = "pkg/istructs/consts.go"
    sys_last = h.go_int(h.find(rel, r"^\s*QNameIDSysLast\s+QNameID\s*=\s*(\w+)", "QNameIDSysLast").group(1))
    max_raw = h.go_int(h.find(rel, r"^const\s+MaxRawRecordID\s*=\s*RecordID\((\w+)\)", "MaxRawRecordID").group(1))
    h.find(rel, r"^const\s+MinReservedRecordID\s*=\s*MaxRawRecordID\s*\+\s*1\s*$", "MinReservedRecordID = MaxRawRecordID + 1")
    h.find(rel, r"^const\s+FirstSingletonID\s*=\s*MinReservedRecordID\s*$", "FirstSingletonID = MinReservedRecordID")
    span = h.go_int(h.find(rel, r"^const\s+MaxSingletonID\s*=\s*FirstSingletonID\s*\+\s*(\w+)\s*$", "MaxSingletonID").group(1))
    items.append(("reg_qname_sys_last", "N", str(sys_last), rel))
    items.append(("reg_first_singleton", "N", str(max_raw + 1), rel))
    items.append(("reg_max_singleton", "N", str(max_raw + 1 + span), rel))

    rel = BASE + "qnames/consts.go"
    items.append(("reg_qname_max", "N", str(h.go_int(h.find(rel, r"^const\s+MaxAvailableQNameID\s*=\s*(\w+)", "MaxAvailableQNameID").group(1))), rel))
    rel = BASE + "containers/consts.go"
    items.append(("reg_cont_sys_last", "N", str(h.go_int(h.find(rel, r"^\s*ContainerNameIDSysLast\s+ContainerID\s*=\s*(\w+)", "ContainerNameIDSysLast").group(1))), rel))
    items.append(("reg_cont_max", "N", str(h.go_int(h.find(rel, r"^const\s+MaxAvailableContainerID\s*=\s*(\w+)", "MaxAvailableContainerID").group(1))), rel))

    rel = BASE + "qnames/impl.go"
    items.append(("reg_qname_needs_version", "bool", _needs_version(h, rel, r"names \*QNames"), rel + " load()"))
    _loop(h, rel, r"names \*QNames", "collect", r"for\s+id\s*:=\s*names\.lastID\s*\+\s*1\s*;\s*id\s*<\s*MaxAvailableQNameID\s*;\s*id\+\+")
    h.find(rel, r"lastID:\s*istructs\.QNameIDSysLast\s*,", "qnames: initial lastID = QNameIDSysLast")
    rel = BASE + "containers/impl.go"
    items.append(("reg_cont_needs_version", "bool", _needs_version(h, rel, r"cnt \*Containers"), rel + " load()"))
    _loop(h, rel, r"cnt \*Containers", "collect", r"for\s+id\s*:=\s*cnt\.lastID\s*\+\s*1\s*;\s*id\s*<\s*MaxAvailableContainerID\s*;\s*id\+\+")
    h.find(rel, r"lastID:\s*ContainerNameIDSysLast\s*,", "containers: initial lastID = ContainerNameIDSysLast")
    rel = BASE + "singletons/impl.go"
    items.append(("reg_single_needs_version", "bool", _needs_version(h, rel, r"st \*Singletons"), rel + " load()"))
    _loop(h, rel, r"st \*Singletons", "collectSingleton", r"for\s+id\s*:=\s*st\.lastID\s*\+\s*1\s*;\s*id\s*<\s*istructs\.MaxSingletonID\s*;\s*id\+\+")
    h.find(rel, r"lastID:\s*istructs\.FirstSingletonID\s*-\s*1\s*,", "singletons: initial lastID = FirstSingletonID - 1")
    return items
