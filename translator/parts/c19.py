"""C19: iratesce constants and the decision rule of the token bucket."""
import re


def collect(h):
    items = []
    rel = "pkg/iratesce/consts.go"
    h.find(rel, r"^\s*Inf\s*=\s*Limit\(math\.MaxFloat64\)", "Inf = Limit(math.MaxFloat64)")
    items.append(("rates_inf_is_max_float64", "bool", "true", rel))
    m = h.find(rel, r"^\s*InfDuration\s*=\s*time\.Duration\(\s*1\s*<<\s*(\d+)\s*-\s*(\d+)\s*\)", "InfDuration")
    items.append(("rates_inf_duration", "Z", str((1 << int(m.group(1))) - int(m.group(2))), rel))
    rel = "pkg/iratesce/rate.go"
    body = h.func_body(rel, r"^func \(lim \*Limiter\) allowN\(", "allowN")
    m = re.search(r"return\s+lim\.reserveN\(now,\s*n,\s*(\d+)\)\.ok", body)
    if not m:
        raise h.Missing(f"{rel}: allowN no longer is reserveN(now, n, <const>).ok")
    items.append(("rates_max_future_reserve", "Z", str(int(m.group(1))), rel + " allowN"))
    body = h.func_body(rel, r"^func \(lim \*Limiter\) reserveN\(", "reserveN")
    # admission rule and the two special rates
    if not re.search(r"ok\s*:=\s*n\s*<=\s*lim\.burst\s*&&\s*waitDuration\s*<=\s*maxFutureReserve", body):
        raise h.Missing(f"{rel}: reserveN admission rule `n <= burst && waitDuration <= maxFutureReserve` not found")
    if not re.search(r"case\s+Inf\s*:", body) or not re.search(r"case\s+0\s*:", body):
        raise h.Missing(f"{rel}: reserveN special cases Inf / 0 not found")
    items.append(("rates_admit_rule_is_burst_and_no_wait", "bool", "true", rel + " reserveN"))
    body = h.func_body(rel, r"^func \(lim \*Limiter\) advance\(", "advance")
    if not re.search(r"if\s+burst\s*:=\s*float64\(lim\.burst\);\s*tokens\s*>\s*burst\s*\{\s*tokens\s*=\s*burst", body):
        raise h.Missing(f"{rel}: advance no longer caps tokens at burst")
    items.append(("rates_tokens_capped_at_burst", "bool", "true", rel + " advance"))
    rel = "pkg/iratesce/impl.go"
    body = h.func_body(rel, r"^func \(bucket \*bucketType\) reset\(", "bucketType.reset")
    if not re.search(r"time\.Duration\(int64\(bucket\.state\.Period\)\s*/\s*int64\(bucket\.state\.MaxTokensPerPeriod\)\)", body):
        raise h.Missing(f"{rel}: refill interval is no longer Period / MaxTokensPerPeriod in whole nanoseconds")
    items.append(("rates_interval_is_period_div_count", "bool", "true", rel + " reset"))
    # shapes of the interval clamp: none (before 7348cd5bb) | 0 ns with Period >= 0 (7348cd5bb) | every d <= 0 (e448004d7)
    all_clamped = re.search(r"if\s+d\s*<=\s*0\s*\{[^}]*d\s*=\s*time\.Nanosecond[^}]*\}\s*interval\s*=\s*every\(d\)", body, re.S)
    zero_clamped = re.search(r"if\s+d\s*==\s*0\s*&&\s*bucket\.state\.Period\s*>=\s*0\s*\{[^}]*d\s*=\s*time\.Nanosecond[^}]*\}\s*interval\s*=\s*every\(d\)", body, re.S)
    direct = re.search(r"interval\s*=\s*every\(time\.Duration\(int64\(bucket\.state\.Period\)", body)
    if not all_clamped and not zero_clamped and not direct:
        raise h.Missing(f"{rel}: reset: none of the known forms of the refill interval found")
    items.append(("rates_sub_ns_interval_clamped", "bool", "true" if (all_clamped or zero_clamped) else "false", rel + " reset"))
    items.append(("rates_negative_interval_clamped", "bool", "true" if all_clamped else "false", rel + " reset"))
    # F24 repair (4e20ebf0e): the new limiter is primed with min(TakenTokens, MaxTokensPerPeriod)
    capped = re.search(r"allowN\(now,\s*int\(min\(bucket\.state\.TakenTokens,\s*bucket\.state\.MaxTokensPerPeriod\)\)\)", body)
    plain = re.search(r"allowN\(now,\s*int\(bucket\.state\.TakenTokens\)\)", body)
    if not capped and not plain:
        raise h.Missing(f"{rel}: reset: priming allowN(now, taken) not found in either form")
    items.append(("rates_taken_capped_at_count", "bool", "true" if capped else "false", rel + " reset"))
    # F18 repair (ca6594b47), part 1: the new limiter starts full
    full = re.search(r"bucket\.limiter\.tokens\s*=\s*float64\(bucket\.limiter\.burst\)\s*(//[^\n]*\n\s*)*bucket\.limiter\.allowN\(now,", body)
    if not full and re.search(r"limiter\.tokens\s*=", body):
        raise h.Missing(f"{rel}: reset: the limiter's tokens are initialised in an unknown way")
    items.append(("rates_new_bucket_full", "bool", "true" if full else "false", rel + " reset"))
    # RTRIP repair (d872ef03d): recalcBuketState rounds the taken tokens up and caps them at MaxUint32
    body = h.func_body(rel, r"^func \(bucket \*bucketType\) recalcBuketState\(", "recalcBuketState")
    ceil = re.search(r"value\s*:=\s*math\.Ceil\(float64\(bucket\.limiter\.burst\)\s*-\s*tokens\)", body) and \
        re.search(r"if\s+value\s*>\s*math\.MaxUint32\s*\{\s*value\s*=\s*math\.MaxUint32", body)
    trunc = re.search(r"value\s*:=\s*float64\(bucket\.limiter\.burst\)\s*-\s*tokens", body)
    if not ceil and not trunc:
        raise h.Missing(f"{rel}: recalcBuketState: neither the truncating nor the rounding-up form found")
    items.append(("rates_taken_rounded_up", "bool", "true" if ceil else "false", rel + " recalcBuketState"))
    # F18 repair (ca6594b47), part 2: durationFromTokens saturates at InfDuration
    rel = "pkg/iratesce/rate.go"
    body = h.func_body(rel, r"^func \(limit Limit\) durationFromTokens\(", "durationFromTokens")
    sat = re.search(r"nanos\s*:=\s*float64\(time\.Second\)\s*\*\s*seconds\s*if\s+nanos\s*>=\s*float64\(InfDuration\)\s*\{[^}]*return\s+InfDuration[^}]*\}\s*return\s+time\.Duration\(nanos\)", body, re.S)
    wrap = re.search(r"return\s+time\.Duration\(float64\(time\.Second\)\s*\*\s*seconds\)", body)
    if not sat and not wrap:
        raise h.Missing(f"{rel}: durationFromTokens: neither the saturating nor the plain conversion found")
    items.append(("rates_wait_saturates", "bool", "true" if sat else "false", rel + " durationFromTokens"))
    rel = "pkg/iratesce/impl.go"
    body = h.func_body(rel, r"^func \(b \*bucketsType\) TakeTokens\(", "TakeTokens")
    if not re.search(r"for\s+i\s*:=\s*range\s+keyIdx\s*\{", body) or not re.search(r"bucket\.limiter\.allowN\(t,\s*-n\)", body):
        raise h.Missing(f"{rel}: TakeTokens no longer gives the taken tokens back on refusal")
    items.append(("rates_give_back_on_refusal", "bool", "true", rel + " TakeTokens"))
    return items
