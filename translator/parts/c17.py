"""C17: three behaviours of pkg/parser that the faithful compiler model switches on (each was a defect:
F23 unique numbering, F24 nested tables and INHERITS, F25 view reference targets). The flags are read
off the source, so that a regression flips a flag and re-opens the side conditions of Properties/C17.v."""
import re


def collect(h):
    items = []
    rel = "pkg/parser/impl_build.go"
    # F23: are unnamed UNIQUE constraints numbered per type being built (counter in defBuildContext),
    # or per item list (closure at the head of addTableItems that writes names back into the AST)?
    body = h.func_body(rel, r"^func \(c \*buildContext\) addConstraintToDef\(", "addConstraintToDef")
    items_body = h.func_body(rel, r"^func \(c \*buildContext\) addTableItems\(", "addTableItems")
    per_type = bool(re.search(r"c\.defCtx\(\)\.(\w+)\+\+\s*\n\s*name\s*=\s*fmt\.Sprintf\(\"%02d\",\s*c\.defCtx\(\)\.\1\)", body))
    per_list = bool(re.search(r"item\.Constraint\.ConstraintName\s*=\s*Ident\(fmt\.Sprintf\(", items_body))
    if per_type == per_list:
        raise h.Missing(f"{rel}: cannot decide how unnamed UNIQUE constraints are numbered")
    items.append(("parser_uniques_numbered_per_type", "bool", "true" if per_type else "false",
                  rel + " addConstraintToDef / addTableItems"))
    # F24: is a nested table built with fillTable (inherited items first) and is its base table resolved?
    body = h.func_body(rel, r"^func \(c \*buildContext\) addNestedTableToDef\(", "addNestedTableToDef")
    fill = "c.fillTable(schema, nestedTable)" in body
    own = "c.addTableItems(schema, nestedTable.Items)" in body
    if fill == own:
        raise h.Missing(f"{rel}: cannot decide how addNestedTableToDef fills a nested table")
    rel2 = "pkg/parser/impl_analyse.go"
    body = h.func_body(rel2, r"^func analyseNestedTables\(", "analyseNestedTables")
    resolved = bool(re.search(r"nestedTable\.inherits\s*=\s*tableAddr\{", body))
    items.append(("parser_nested_tables_inherit", "bool", "true" if (fill and resolved) else "false",
                  rel + " addNestedTableToDef; " + rel2 + " analyseNestedTables"))
    # F25: does analyseViewRefFields record the resolved targets of a view reference field?
    body = h.func_body(rel2, r"^func analyseViewRefFields\(", "analyseViewRefFields")
    h.find(rel, r"AddRefField\(string\(f\.RefField\.Name\.Value\),\s*(f\.RefField\.NotNull,\s*)?f\.RefField\.refQNames\.\.\.\)", "views(): AddRefField with refQNames")
    recorded = bool(re.search(r"rf\.refQNames\s*=\s*append\(rf\.refQNames,", body))
    items.append(("parser_view_refs_recorded", "bool", "true" if recorded else "false", rel2 + " analyseViewRefFields"))
    return items
