"""C17: three behaviours of pkg/parser that the faithful compiler model switches on (each was a defect:
F23 unique numbering, F24 nested tables and INHERITS, F25 view reference targets). The flags are read
off the source, so that a regression flips a flag and re-opens the side conditions of Properties/C17.v."""
import re


def collect(h):
    items = []
    rel = "pkg/parser/impl_build.go"
    # F23: are unnamed UNIQUE constraints numbered per type being built (counter in defBuildContext),
    # or per item list (closure at the head of addTableItems that writes names back into the AST)?
    body = h.func_body(rel, r"^func \(c \*buildContext\) addConstraintToDef\(", "addConstraintToDef")
    items_body = h.func_body(rel, r"^func \(c \*buildContext\) addTableItems\(", "addTableItems")
    per_type = bool(re.search(r"c\.defCtx\(\)\.(\w+)\+\+\s*\n\s*name\s*=\s*fmt\.Sprintf\(\"%02d\",\s*c\.defCtx\(\)\.\1\)", body))
    per_list = bool(re.search(r"item\.Constraint\.ConstraintName\s*=\s*Ident\(fmt\.Sprintf\(", items_body))
    if per_type == per_list:
        raise h.Missing(f"{rel}: cannot decide how unnamed UNIQUE constraints are numbered")
    items.append(("parser_uniques_numbered_per_type", "bool", "true" if per_type else "false",
                  rel + " addConstraintToDef / addTableItems"))
    # F24: is a nested table built with fillTable (inherited items first) and is its base table resolved?
    body = h.func_body(rel, r"^func \(c \*buildContext\) addNestedTableToDef\(", "addNestedTableToDef")
    fill = "c.fillTable(schema, nestedTable)" in body
    own = "c.addTableItems(schema, nestedTable.Items)" in body
    if fill == own:
        raise h.Missing(f"{rel}: cannot decide how addNestedTableToDef fills a nested table")
    rel2 = "pkg/parser/impl_analyse.go"
    body = h.func_body(rel2, r"^func analyseNestedTables\(", "analyseNestedTables")
    resolved = bool(re.search(r"nestedTable\.inherits\s*=\s*tableAddr\{", body))
    items.append(("parser_nested_tables_inherit", "bool", "true" if (fill and resolved) else "false",
                  rel + " addNestedTableToDef; " + rel2 + " analyseNestedTables"))
    # F25: does analyseViewRefFields record the resolved targets of a view reference field?
    body = h.func_body(rel2, r"^func analyseViewRefFields\(", "analyseViewRefFields")
    h.find(rel, r"AddRefField\(string\(f\.RefField\.Name\.Value\),\s*(f\.RefField\.NotNull,\s*)?f\.RefField\.refQNames\.\.\.\)", "views(): AddRefField with refQNames")
    recorded = bool(re.search(r"rf\.refQNames\s*=\s*append\(rf\.refQNames,", body))
    items.append(("parser_view_refs_recorded", "bool", "true" if recorded else "false", rel2 + " analyseViewRefFields"))
    # F28: does grantsAndRevokes apply the statements of a workspace once, or again for every heir?
    body = h.func_body(rel, r"^func \(c \*buildContext\) grantsAndRevokes\(", "grantsAndRevokes")
    h.find(rel, r"handleWorkspace\(w\.Statements\)", "grantsAndRevokes: handleWorkspace(w.Statements)")
    again = bool(re.search(r"range\s+w\.inheritedWorkspaces\s*\{\s*handleWorkspace\(", body))
    items.append(("parser_inherited_grants_once", "bool", "false" if again else "true", rel + " grantsAndRevokes"))
    # F26: are the statements of the current workspace matched against the package of that workspace
    # (lookingUpInSchema = ws.pkg before ws.workspace.Iterate), or against the package of the name looked up?
    rel3 = "pkg/parser/utils.go"
    body = h.func_body(rel3, r"^func lookupInCtx\[", "lookupInCtx")
    h.find(rel3, r"named\.GetName\(\) == string\(fn\.Name\) && lookingUpInSchema == stmtSchema", "lookupInCtx: name and schema test")
    m = re.search(r"if ws\.workspace != nil \{(.*?)ws\.workspace\.Iterate\(lookupCallback\)", body, re.S)
    if not m:
        raise h.Missing(f"{rel3}: lookupInCtx: cannot locate the search of the current workspace")
    items.append(("parser_lookup_respects_package", "bool", "true" if re.search(r"lookingUpInSchema\s*=\s*ws\.pkg", m.group(1)) else "false", rel3 + " lookupInCtx"))
    # F27: are INHERITS lists resolved in the context of the package that wrote them? five sites:
    # lookupInCtx (inherited workspaces), analyzeWorkspace.checkChain, includeFromInheritedWorkspaces,
    # getTableInheritanceChain, getTableTypeKind
    sites = [
        bool(re.search(r"lookInInherted\(f,\s*c\.inPackage\(wSchema\)\)", body)) and bool(re.search(r"resolveInCtx\(dq,\s*c,", body)),
        bool(re.search(r"checkChain\(w,\s*c\.inPackage\(wpkg\)\)", h.func_body(rel2, r"^func analyzeWorkspace\(", "analyzeWorkspace"))),
        bool(re.search(r"addFromInheritedWs\(baseWs,\s*ictx\.inPackage\(basePkg\)\)", h.func_body(rel2, r"^func includeFromInheritedWorkspaces\(", "includeFromInheritedWorkspaces"))),
        bool(re.search(r"vf\(t,\s*c\.contextOf\(t,\s*pkg\)\)", h.func_body(rel2, r"^func getTableInheritanceChain\(", "getTableInheritanceChain"))),
        bool(re.search(r"getTableInheritanceChain\(table,\s*c\.contextOf\(table,\s*pkg\)\)", h.func_body(rel2, r"^func getTableTypeKind\(", "getTableTypeKind"))),
    ]
    if any(sites) and not all(sites):
        raise h.Missing(f"{rel2}/{rel3}: INHERITS lists are resolved in their own package at some sites only: {sites}")
    items.append(("parser_inherits_in_own_package", "bool", "true" if all(sites) else "false",
                  rel3 + " lookupInCtx; " + rel2 + " analyzeWorkspace, includeFromInheritedWorkspaces, getTableInheritanceChain, getTableTypeKind"))
    # F29: does the last analysis pass resolve the reference fields of a workspace descriptor?
    body = h.func_body(rel2, r"^func analyse\(", "analyse")
    h.find(rel2, r"case \*ViewStmt:\s*\n\s*analyseViewRefFields\(v\.Items, ictx\)", "analyse: pass 6")
    items.append(("parser_descriptor_refs_analysed", "bool",
                  "true" if re.search(r"case \*WsDescriptorStmt:\s*\n(\s*//[^\n]*\n)*\s*analyseRefFields\(v\.Items, ictx, appdef\.TypeKind_CDoc\)", body) else "false", rel2 + " analyse (pass 6)"))
    # d412e0d3e: does an operation granted without columns win over column lists of the same statement?
    body = h.func_body(rel2, r"^func analyseGrantOrRevoke\(", "analyseGrantOrRevoke")
    h.find(rel2, r"opColumns\[op\] = \[\]appdef\.FieldName\{\}", "analyseGrantOrRevoke: operation without columns")
    items.append(("parser_grant_whole_table_wins", "bool", "true" if re.search(r"wholeTable\[op\]\s*=\s*true", body) and re.search(r"if\s+!wholeTable\[op\]", body) else "false", rel2 + " analyseGrantOrRevoke"))
    # F30: are the nested tables of an inherited item list named in the package of the inherited table?
    body = h.func_body(rel, r"^func \(c \*buildContext\) fillTable\(", "fillTable")
    own = "c.fillTable(table.inherits.pkg, table.inherits.table)" in body
    heir = "c.fillTable(schema, table.inherits.table)" in body
    if own == heir:
        raise h.Missing(f"{rel}: fillTable: cannot decide in which package inherited nested tables are named")
    items.append(("parser_inherited_nested_in_own_package", "bool", "true" if own else "false", rel + " fillTable"))
    # F31: does checkChain forget an INHERITS reference on the way back up (path) or keep it (visited set)?
    body = h.func_body(rel2, r"^func analyzeWorkspace\(", "analyzeWorkspace")
    h.find(rel2, r"if slices\.Contains\(chain, qn\) \{\s*\n\s*return ErrCircularReferenceInInherits", "analyzeWorkspace.checkChain")
    items.append(("parser_diamond_below_heir_accepted", "bool", "true" if re.search(r"chain\s*=\s*chain\[:len\(chain\)-1\]", body) else "false", rel2 + " analyzeWorkspace.checkChain"))
    # F32: does the column check of GRANT ... ON TABLE walk the tables the table inherits?
    m = re.search(r"checkColumn := func\(column Ident\) error \{(.*?)\n\t\t\}\n", h.src(rel2), re.S)
    if not m:
        raise h.Missing(f"{rel2}: cannot locate checkColumn")
    items.append(("parser_grant_inherited_columns", "bool", "true" if re.search(r"t\s*=\s*t\.inherits\.table", m.group(1)) else "false", rel2 + " checkColumn (GRANT ... ON TABLE)"))
    # F33: which list becomes IWorkspace.Ancestors(): the workspaces INHERITS names, or all inherited ones?
    src = h.src(rel)
    direct = bool(re.search(r"range\s+wb\.w\.directAncestors\s*\{\s*\n\s*ancestors\s*=\s*append", src))
    allanc = bool(re.search(r"range\s+wb\.w\.inheritedWorkspaces\s*\{\s*\n\s*ancestors\s*=\s*append", src))
    if direct == allanc:
        raise h.Missing(f"{rel}: cannot decide which workspaces are passed to SetAncestors")
    items.append(("parser_ancestors_direct", "bool", "true" if direct else "false", rel + " workspaces(): SetAncestors"))
    return items
