"""C15: iblobstoragestg constants and byte orders."""


def collect(h):
    items = []
    rel = "pkg/iblobstoragestg/consts.go"
    items.append(("blob_chunk_size", "N", str(h.go_int(h.find(rel, r"^\s*chunkSize\s+uint64\s*=\s*([0-9_]+)", "chunkSize").group(1))), rel))
    items.append(("blob_bucket_size", "N", str(h.go_int(h.find(rel, r"^\s*bucketSize\s+uint64\s*=\s*([0-9_]+)", "bucketSize").group(1))), rel))
    rel = "pkg/iblobstoragestg/impl.go"
    items.append(("blob_chunk_endian", "endian", h.endianness(h.func_body(rel, r"^func mutateChunkNumber\(", "mutateChunkNumber"), "mutateChunkNumber", rel), rel))
    items.append(("blob_bucket_endian", "endian", h.endianness(h.func_body(rel, r"^func mutateBucketNumber\(", "mutateBucketNumber"), "mutateBucketNumber", rel), rel))
    # bucket switch rule: `bytesRead > chunkSize*bucketSize*bucketNumber`
    h.find(rel, r"if\s+bytesRead\s*>\s*chunkSize\s*\*\s*bucketSize\s*\*\s*bucketNumber\s*\{", "bucket switch rule")
    # ReadBLOB refuses a BLOB whose state is not Completed (a write still going on or one that died)
    body = h.func_body(rel, r"^func \(b \*bStorageType\) ReadBLOB\(", "ReadBLOB")
    import re as _re
    req = bool(_re.search(r"state\.Status\s*!=\s*iblobstorage\.BLOBStatus_Completed", body))
    items.append(("blob_read_requires_completed", "bool", "true" if req else "false", rel + " ReadBLOB"))
    return items
