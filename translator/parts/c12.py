"""C12: pkg/ielections constants and the order of the steps of a release."""
import re


def _order(h, rel, body, what):
    """True when cancel() precedes the storage CompareAndDelete in the given body"""
    cad = re.search(r"storage\.CompareAndDelete\(", body)
    can = re.search(r"\bli\.cancel\(\)", body)
    if not cad or not can:
        raise h.Missing(f"{rel}: cannot locate CompareAndDelete / li.cancel() in {what}")
    return can.start() < cad.start()


def collect(h):
    items = []
    rel = "pkg/ielections/consts.go"
    r = h.go_int(h.find(rel, r"^\s*renewalsPerLeadershipDur\s*=\s*([0-9_]+)", "renewalsPerLeadershipDur").group(1))
    items.append(("elect_renewals", "Z", f"({r})%Z", rel))
    rel = "pkg/ielections/impl.go"
    # tickerInterval := time.Duration(D) * time.Second / renewalsPerLeadershipDur
    h.find(rel, r"tickerInterval\s*:=\s*time\.Duration\(leadershipDurationSeconds\)\s*\*\s*time\.Second\s*/\s*renewalsPerLeadershipDur",
           "tickerInterval formula")
    # the retry deadline is one ticker interval
    h.find(rel, r"renewWithRetry\(li\.ctx,\s*key,\s*val,\s*leadershipDurationSeconds,\s*li,\s*tickerInterval\)", "retry deadline = tickerInterval")
    h.find(rel, r"deadline\s*:=\s*e\.clock\.NewTimerChan\(retryDuration\)", "deadline timer")
    m = h.find(rel, r"case\s*<-e\.clock\.NewTimerChan\(\s*(?:(\d+)\s*\*\s*)?time\.(Second|Millisecond)\s*\):", "retry period")
    unit = {"Second": 10 ** 9, "Millisecond": 10 ** 6}[m.group(2)]
    items.append(("elect_retry_ns", "Z", f"({int(m.group(1) or 1) * unit})%Z", rel))
    rl = _order(h, rel, h.func_body(rel, r"^func \(e \*elections\[K, V\]\) releaseLeadership\(", "releaseLeadership"), "releaseLeadership")
    cl = _order(h, rel, h.func_body(rel, r"^func \(e \*elections\[K, V\]\) cleanup\(", "cleanup"), "cleanup")
    items.append(("elect_release_cancel_first", "bool", "true" if rl else "false", rel))
    items.append(("elect_cleanup_cancel_first", "bool", "true" if cl else "false", rel))
    # does the renewal goroutine cancel its own context whenever it returns?
    mb = h.func_body(rel, r"^func \(e \*elections\[K, V\]\) maintainLeadership\(", "maintainLeadership")
    if not re.search(r"defer\s+li\.wg\.Done\(\)", mb):
        raise h.Missing(f"{rel}: cannot locate defer li.wg.Done() in maintainLeadership")
    coe = re.search(r"defer\s+li\.cancel\(\)", mb) is not None
    items.append(("elect_cancel_on_exit", "bool", "true" if coe else "false", rel))
    return items
