"""C20: in10nmem constants and the shape of the code the interleaving model relies on."""


def collect(h):
    items = []
    rel = "pkg/in10nmem/consts.go"
    items.append(("in10n_events_cap", "N", str(h.go_int(h.find(rel, r"^\s*eventsChannelSize\s*=\s*([0-9_]+)", "eventsChannelSize").group(1))), rel))
    rel = "pkg/in10nmem/impl.go"
    # wake-up token channel capacity (cchan): the model's boolean token
    items.append(("in10n_cchan_cap", "N", str(h.go_int(h.find(rel, r"cchan:\s*make\(chan struct\{\},\s*([0-9_]+)\)", "cchan capacity").group(1))), rel))
    # the notifier's send to a channel token must be non-blocking (select with default)
    body = h.func_body(rel, r"^func notifier\(", "notifier")
    import re
    if not re.search(r"select\s*\{\s*case ch\.cchan <- struct\{\}\{\}:\s*default:", body):
        raise h.Missing(f"{rel}: notifier no longer sends tokens with a non-blocking select/default")
    items.append(("in10n_token_send_nonblocking", "bool", "true", rel))
    rel = "pkg/in10nmem/provide.go"
    h.find(rel, r"events:\s*make\(chan event,\s*eventsChannelSize\)", "events channel made with eventsChannelSize")
    return items
