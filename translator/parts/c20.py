"""C20: in10nmem constants and the shape of the code the interleaving model relies on."""


import re


def collect(h):
    items = []
    rel = "pkg/in10nmem/consts.go"
    items.append(("in10n_events_cap", "N", str(h.go_int(h.find(rel, r"^\s*eventsChannelSize\s*=\s*([0-9_]+)", "eventsChannelSize").group(1))), rel))
    rel = "pkg/in10nmem/impl.go"
    # wake-up token channel capacity (cchan): the model's boolean token
    items.append(("in10n_cchan_cap", "N", str(h.go_int(h.find(rel, r"cchan:\s*make\(chan struct\{\},\s*([0-9_]+)\)", "cchan capacity").group(1))), rel))
    # the notifier's send to a channel token must be non-blocking (select with default)
    body = h.func_body(rel, r"^func notifier\(", "notifier")
    if not re.search(r"select\s*\{\s*case ch\.cchan <- struct\{\}\{\}:\s*default:", body):
        raise h.Missing(f"{rel}: notifier no longer sends tokens with a non-blocking select/default")
    items.append(("in10n_token_send_nonblocking", "bool", "true", rel))
    # where Subscribe / Unsubscribe write prj.toSubscribe: inside the broker critical section (the
    # closure `err = func() error { nb.Lock() ... }()`) or after it
    src = h.src(rel)

    def ftext(fn):
        # text of a method up to the next top-level func (brace matching is defeated by a `{` in a comment)
        m = re.search(r"^func \(nb \*n10nBroker\) %s\(" % fn, src, re.M)
        if not m:
            raise h.Missing(f"{rel}: cannot locate {fn}")
        n = re.search(r"^func ", src[m.end():], re.M)
        return src[m.end(): m.end() + n.start()] if n else src[m.end():]

    def early(fn, rhs):
        b = ftext(fn)
        m = re.search(r"prj\.toSubscribe\[channelID\]\s*=\s*%s\b" % rhs, b)
        c = b.find("}()")
        if not m or c < 0 or "nb.Lock()" not in b[:c]:
            raise h.Missing(f"{rel}: cannot locate the toSubscribe write / broker closure of {fn}")
        return m.start() < c
    es, eu = early("Subscribe", "channel"), early("Unsubscribe", "nil")
    if es != eu:
        raise h.Missing(f"{rel}: Subscribe and Unsubscribe write toSubscribe in different places (model has one flag)")
    items.append(("in10n_mark_under_broker_lock", "bool", "true" if es else "false", rel))
    # NewChannel: is ChannelsPerSubject applied to a subject without a metric record?
    nc = ftext("NewChannel")
    chk = r"if metric\.numChannelsPerSubject >= nb\.quotas\.ChannelsPerSubject \{"
    if re.search(r"if metric != nil \{\s*" + chk, nc):
        first = False
    elif re.search(r"if metric == nil \{[^}]*\}\s*" + chk, nc):
        first = True
    else:
        raise h.Missing(f"{rel}: cannot recognise the ChannelsPerSubject check of NewChannel")
    items.append(("in10n_first_channel_checked", "bool", "true" if first else "false", rel))
    # how the API calls queue their notifier event: an unconditional blocking send, or a
    # select with default (the event is dropped when the queue is full)
    def send_blocking(fn):
        t = ftext(fn)
        plain = re.search(r"^[ \t]*nb\.events\s*<-", t, re.M)
        sel = re.search(r"case\s+nb\.events\s*<-", t)
        if plain and not sel:
            return True
        if sel and not plain:
            # a select without default still blocks
            return not re.search(r"\bdefault\s*:", t[sel.end():])
        raise h.Missing(f"{rel}: cannot recognise how {fn} sends to nb.events")
    items.append(("in10n_update_enqueue_blocking", "bool", "true" if send_blocking("Update") else "false", rel))
    # the model has no drop semantics for Subscribe / Unsubscribe: their sends must stay blocking
    for fn in ("Subscribe", "Unsubscribe"):
        if not send_blocking(fn):
            raise h.Missing(f"{rel}: {fn} no longer queues its event with a blocking send (the model assumes it)")
    rel = "pkg/in10nmem/provide.go"
    h.find(rel, r"events:\s*make\(chan event,\s*eventsChannelSize\)", "events channel made with eventsChannelSize")
    return items
