"""C09: constants and code shapes of the async actualizer / pipeline / bundled state the model relies on."""
import re


def collect(h):
    items = []
    rel = "pkg/processors/actualizers/consts.go"
    m = h.find(rel, r"^const\s+plogReadBatchSize\s*=\s*([0-9_]+)", "plogReadBatchSize")
    items.append(("c09_plog_read_batch_size", "N", str(h.go_int(m.group(1))), rel))

    # asyncProjector.flush: nothing to do without a current offset; position intent first, then
    # ApplyIntents, then FlushBundles (position and effects leave in the same flush)
    rel = "pkg/processors/actualizers/async.go"
    body = h.func_body(rel, r"^func \(p \*asyncProjector\) flush\(\)", "asyncProjector.flush")
    i0 = body.find("p.pLogOffset == istructs.NullOffset")
    i1 = body.find("p.savePosition()")
    i2 = body.find("p.state.ApplyIntents()")
    i3 = body.find("p.state.FlushBundles()")
    if not (0 <= i0 < i1 < i2 < i3):
        raise h.Missing(f"{rel}: asyncProjector.flush no longer has the shape null-check / savePosition / ApplyIntents / FlushBundles")
    if not re.search(r"if p\.acceptedSinceSave \|\| timeToSavePosition \{", body):
        raise h.Missing(f"{rel}: asyncProjector.flush: condition of savePosition changed")
    # handleEvent: the reader's offset moves only after the workpiece was handed to the pipeline
    body = h.func_body(rel, r"^func \(a \*asyncActualizer\) handleEvent\(", "handleEvent")
    if not (0 <= body.find("a.pipeline.SendAsync(work)") < body.find("a.offset = pLogOffset")):
        raise h.Missing(f"{rel}: handleEvent no longer sends before advancing a.offset")
    # DoAsync: flush after an event when the bundle is full or the projector is non-buffered
    body = h.func_body(rel, r"^func \(p \*asyncProjector\) DoAsync\(", "DoAsync")
    if not re.search(r"if readyToFlushBundle \|\| p\.nonBuffered \{\s*if err := p\.flush\(\)", body):
        raise h.Missing(f"{rel}: DoAsync: flush condition changed")

    # isProjectorDefined: is an event whose workspace descriptor cannot be read (yet) an error
    # (MustExist) or passed over as "projector not defined there" (CanExist)?
    body = h.func_body(rel, r"^func \(p \*asyncProjector\) isProjectorDefined\(\)", "isProjectorDefined")
    if re.search(r"p\.state\.MustExist\(skbCDocWorkspaceDescriptor\)", body):
        must = True
    elif re.search(r"p\.state\.CanExist\(skbCDocWorkspaceDescriptor\)", body):
        must = False
    else:
        raise h.Missing(f"{rel}: isProjectorDefined: cannot recognise the lookup of the workspace descriptor")
    items.append(("c09_descriptor_must_exist", "bool", "true" if must else "false", rel))
    # DoAsync: is the event released at the end of DoAsync although its intents stay in the bundle
    # (finding C09-F2), or held until the flush that stores them?
    body = h.func_body(rel, r"^func \(p \*asyncProjector\) DoAsync\(", "DoAsync")
    fl = h.func_body(rel, r"^func \(p \*asyncProjector\) flush\(\)", "asyncProjector.flush")
    if re.search(r"^\s*defer work\.Release\(\)", body, re.M):
        early = True
    elif "p.heldEvents = append(p.heldEvents, work)" in body and "p.releaseHeldEvents()" in fl:
        early = False
    else:
        raise h.Missing(f"{rel}: DoAsync: cannot recognise when the event is released")
    items.append(("c09_event_released_before_flush", "bool", "true" if early else "false", rel))

    # pipeline: an operator that failed (or whose context is cancelled) releases workpieces
    # unprocessed and flushes neither by timer nor at disassembly
    rel = "pkg/pipeline/async.go"
    body = h.func_body(rel, r"^func puller_async\(", "puller_async")
    if not re.search(r"if !wo\.isActive\(\) \{\s*p_release\(workpiece\)\s*continue\s*\}", body):
        raise h.Missing(f"{rel}: puller_async no longer releases workpieces of an inactive operator unprocessed")
    if not re.search(r"p_flush\(wo, placeFlushDisassembling\)", body):
        raise h.Missing(f"{rel}: puller_async no longer flushes at disassembly")
    body = h.func_body(rel, r"^func p_flush\(", "p_flush")
    if not re.search(r"^\s*if !wo\.isActive\(\) \{\s*return\s*\}", body):
        raise h.Missing(f"{rel}: p_flush no longer skips an inactive operator")
    rel = "pkg/pipeline/async-pipeline-impl.go"
    m = h.find(rel, r"stdin:\s*make\(chan interface\{\},\s*([0-9_]+)\)", "capacity of the async pipeline's stdin")
    items.append(("c09_pipeline_stdin_cap", "N", str(h.go_int(m.group(1))), rel))
    rel = "pkg/pipeline/wired-operator.go"
    body = h.func_body(rel, r"^func \(wo \*WiredOperator\) isActive\(\)", "isActive")
    if "wo.ctx.Err() == nil && wo.err == nil" not in body:
        raise h.Missing(f"{rel}: isActive changed")

    # view storage: the NullWSID batch (it carries the resume position) is written after all
    # workspace batches
    rel = "pkg/sys/storages/impl_view_records_storage.go"
    body = h.func_body(rel, r"^func \(s \*viewRecordsStorage\) ApplyBatch\(", "viewRecordsStorage.ApplyBatch")
    loop = re.search(r"for wsid, batch := range batches \{(.*?)\n\t\}", body, re.S)
    last = bool(loop and re.search(r"if wsid == istructs\.NullWSID \{[^}]*nullWsidBatch = batch\s*continue\s*\}", loop.group(1))
                and re.search(r"PutBatch\(istructs\.NullWSID, nullWsidBatch\)", body[loop.end():]))
    items.append(("c09_null_wsid_last", "bool", "true" if last else "false", rel))

    # bundled state: are the storages flushed in Go map order (finding F21) or the view storage last?
    rel = "pkg/state/stateprovide/impl_bundled_host_state.go"
    body = h.func_body(rel, r"^func \(s \*bundledHostState\) FlushBundles\(\)", "FlushBundles")
    if not re.search(r"for sid, b := range s\.bundles \{", body) or "ApplyBatch(" not in body:
        raise h.Missing(f"{rel}: cannot recognise the storage loop of FlushBundles")
    loop = re.search(r"for sid, b := range s\.bundles \{(.*?)\n\t\}", body, re.S)
    view_last = bool(loop and re.search(r"if sid == sys\.Storage_View \{\s*continue\s*\}", loop.group(1))
                     and re.search(r"s\.withApplyBatch\[sys\.Storage_View\]\.ApplyBatch\(", body[loop.end():]))
    items.append(("c09_flush_view_last", "bool", "true" if view_last else "false", rel))
    return items
