"""C14: claim names written by IssueToken and read by ValidateToken/buildGenericPayload, whether the
type assertions on the claims are checked, and the presence of the checks the model relies on."""
import re


def _bytes(s):
    return "[" + "; ".join(f"{b}%N" for b in s.encode()) + "]"


def _body(h, rel, header_pat, what):
    """function body; the signature may itself contain `interface{}`, so start at the `{` that ends the header line"""
    src = h.src(rel)
    m = re.search(header_pat + r"[^\n]*\{\n", src, re.M)
    if not m:
        raise h.Missing(f"{rel}: cannot locate {what}")
    i = m.end() - 2
    depth = 0
    for j in range(i, len(src)):
        if src[j] == "{":
            depth += 1
        elif src[j] == "}":
            depth -= 1
            if depth == 0:
                return src[i + 1:j]
    raise h.Missing(f"{rel}: unbalanced braces in {what}")


def collect(h):
    items = []
    rel = "pkg/itokensjwt/impl.go"
    issue = _body(h, rel, r"^func \(j \*JWTSigner\) IssueToken\(", "IssueToken")
    lit = re.search(r"&jwt\.MapClaims\{(.*?)\n\s*\}", issue, re.S)
    if not lit:
        raise h.Missing(f"{rel}: cannot locate the MapClaims literal of IssueToken")
    roles = [("iat", r"now\.Unix\(\)"), ("exp", r"now\.Add\(duration\)\.Unix\(\)"), ("aud", r"audience\.String\(\)"),
             ("dur", r"duration"), ("app", r"&app"), ("issuedat", r"now")]
    entries = re.findall(r'"(\w+)"\s*:\s*([^,\n]+),', lit.group(1))
    if len(entries) != len(roles):
        raise h.Missing(f"{rel}: IssueToken writes {len(entries)} standard claims, the model knows {len(roles)}")
    for role, pat in roles:
        ks = [k for k, v in entries if re.fullmatch(pat, v.strip())]
        if len(ks) != 1:
            raise h.Missing(f"{rel}: cannot identify the claim IssueToken writes for {role}")
        items.append((f"jwt_k_{role}_issue", "list N", _bytes(ks[0]), rel + " IssueToken"))
    # the payload goes through a map: with json.Number its integers survive, with float64 only up to 2^53
    if re.search(r"json\.Unmarshal\(b, &m\)", issue):
        use_number = "false"
    elif re.search(r"coreutils\.JSONUnmarshal\(b, &m\)", issue) or re.search(r"\.UseNumber\(\)", issue):
        use_number = "true"
    else:
        raise h.Missing(f"{rel}: cannot tell how IssueToken decodes the marshalled payload into the claims map")
    items.append(("jwt_issue_uses_number", "bool", use_number, rel + " IssueToken: payload -> map with json.Number (true) or float64 (false)"))
    if not re.search(r"mergeClaimsMaps\(m,\s*\*claims\)", issue):
        raise h.Missing(f"{rel}: IssueToken no longer merges the payload under the standard claims")

    val = _body(h, rel, r"^func \(j \*JWTSigner\) ValidateToken\(", "ValidateToken")
    m = re.search(r'^\s*(\w+(?:\s*,\s*\w+)?)\s*:?=\s*jwtToken\.Claims\.\(jwt\.MapClaims\)\["(\w+)"\]\.\(string\)', val, re.M)
    if not m:
        raise h.Missing(f"{rel}: cannot locate the audience assertion of ValidateToken")
    items.append(("jwt_k_aud_validate", "list N", _bytes(m.group(2)), rel + " ValidateToken"))
    items.append(("jwt_aud_assert_checked", "bool", "true" if "," in m.group(1) else "false", rel + " ValidateToken: `v, ok := x.(string)` or bare `x.(string)`"))
    items.append(("jwt_keyfunc_requires_hmac", "bool",
                  "true" if re.search(r"_,\s*ok\s*:=\s*token\.Method\.\(\*jwt\.SigningMethodHMAC\)\s*\n\s*if !ok \{\s*\n\s*return nil,", val) else "false",
                  rel + " ValidateToken keyfunc"))
    items.append(("jwt_audience_compared", "bool",
                  "true" if re.search(r"if jwtToken\.Valid \{\s*\n\s*if strings\.Compare\(expectedAudience, audience\) != 0 \{\s*\n\s*return gp, fmt\.Errorf\(errorVerifyAudience", val) else "false",
                  rel + " ValidateToken"))
    items.append(("jwt_sig_canon_checked", "bool",
                  "true" if re.search(r"if base64\.RawURLEncoding\.EncodeToString\(jwtToken\.Signature\) != parts\[2\] \{\s*\n\s*return gp,", val) else "false",
                  rel + " ValidateToken: signature segment compared with its canonical encoding"))
    opts = re.search(r"jwt\.NewParser\((.*)\)\s*$", val, re.M)
    if not opts:
        raise h.Missing(f"{rel}: cannot locate jwt.NewParser in ValidateToken")
    names = sorted(re.findall(r"jwt\.(With\w+)\(", opts.group(1)))
    items.append(("jwt_parser_plain", "bool",
                  "true" if names == ["WithJSONNumber", "WithTimeFunc"] and "jwt.WithTimeFunc(j.iTime.Now)" in opts.group(1) else "false",
                  rel + " ValidateToken parser options: " + " ".join(names)))

    bgp = _body(h, rel, r"^func buildGenericPayload\(", "buildGenericPayload")
    m = re.search(r'^\s*(\w+(?:\s*,\s*\w+)?)\s*:?=\s*claims\.\(jwt\.MapClaims\)\["(\w+)"\]\.\(json\.Number\)(\.Int64\(\))?', bgp, re.M)
    if not m:
        raise h.Missing(f"{rel}: cannot locate the Duration assertion of buildGenericPayload")
    items.append(("jwt_k_dur_validate", "list N", _bytes(m.group(2)), rel + " buildGenericPayload"))
    items.append(("jwt_dur_assert_checked", "bool", "true" if (m.group(3) is None and "," in m.group(1)) else "false",
                  rel + " buildGenericPayload: checked or bare `.(json.Number)`"))
    found = {}
    for var, key in re.findall(r'(\w+),\s*e\s*:=\s*json\.Marshal\(claims\.\(jwt\.MapClaims\)\["(\w+)"\]\)', bgp):
        t = re.search(r"json\.Unmarshal\(" + var + r",\s*&(\w+)\)", bgp)
        if t:
            found[t.group(1)] = key
    for role, target in (("issuedat", "issuedAt"), ("app", "qname")):
        if target not in found:
            raise h.Missing(f"{rel}: cannot locate the claim buildGenericPayload decodes into {target}")
        items.append((f"jwt_k_{role}_validate", "list N", _bytes(found[target]), rel + " buildGenericPayload"))

    # NewJWTSigner: minimum secret length and the refusal of shorter secrets
    relc = "pkg/itokensjwt/consts.go"
    n = h.go_int(h.find(relc, r"^\s*SecretKeyLength\s*=\s*([0-9_]+)", "SecretKeyLength").group(1))
    ctor = _body(h, rel, r"^func NewJWTSigner\(", "NewJWTSigner")
    if not re.search(r"if len\(\w+\) < SecretKeyLength \{\s*\n\s*panic\(", ctor):
        raise h.Missing(f"{rel}: NewJWTSigner no longer refuses secrets shorter than SecretKeyLength by a panic")
    # does the signer keep the caller's slice (a later overwrite by the caller changes its secret) or a copy of it
    alias = re.search(r"var\s+(\w+)\s+\[\]byte\s*=\s*secretKey\b", ctor) or re.search(r"&JWTSigner\{\s*secretKey\s*,", ctor)
    items.append(("jwt_signer_copies_secret", "bool", "false" if alias else "true",
                  rel + " NewJWTSigner: keeps the caller's slice (false) or its own copy (true)"))
    items.append(("jwt_secret_min_len", "N", str(n), relc + " SecretKeyLength; " + rel + " NewJWTSigner refuses shorter secrets"))

    rel2 = "pkg/itokens-payloads/impl.go"
    body = _body(h, rel2, r"^func \(at \*implIAppTokens\) ValidateToken\(", "implIAppTokens.ValidateToken")
    items.append(("jwt_app_bound", "bool",
                  "true" if re.search(r"if err == nil && gp\.AppQName != at\.appQName \{\s*\n\s*err = ErrTokenIssuedForAnotherApp", body) else "false",
                  rel2 + " ValidateToken"))
    return items
