"""C13: ACL operation kinds (iota block) and the shape of the role-expansion loop of acl.IsOperationAllowed."""
import re


def collect(h):
    items = []
    rel = "pkg/appdef/interface_operations.go"
    m = h.find(rel, r"^const \(\s*\n\s*OperationKind_null\s+OperationKind\s*=\s*iota\b(.*?)^\)", "OperationKind iota block", re.M | re.S)
    names = ["OperationKind_null"] + re.findall(r"^\s*(OperationKind_\w+)\s*$", m.group(1), re.M)
    want = {"Insert": "acl_op_insert", "Update": "acl_op_update", "Activate": "acl_op_activate", "Deactivate": "acl_op_deactivate",
            "Select": "acl_op_select", "Execute": "acl_op_execute", "Inherits": "acl_op_inherits"}
    for go, coq in want.items():
        if "OperationKind_" + go not in names:
            raise h.Missing(f"{rel}: OperationKind_{go} not in the iota block")
        items.append((coq, "N", str(names.index("OperationKind_" + go)), rel))
    # role expansion in IsOperationAllowed: does the loop range over the very slice it appends to?
    rel = "pkg/appdef/acl/provide.go"
    body = h.func_body(rel, r"^func IsOperationAllowed\(", "IsOperationAllowed")
    m = re.search(r"for\s+_\s*,\s*(\w+)\s*:=\s*range\s+([^{]+?)\s*\{[^\n]*\n\s*role\s*:=\s*appdef\.Role\(ws\.Type,\s*\1\)", body)
    if not m or "RecursiveRoleAncestors(role, ws)" not in body:
        raise h.Missing(f"{rel}: cannot locate the role expansion loop of IsOperationAllowed")
    ranged = m.group(2).strip()
    tgt = re.search(r"(\w+)\.Add\(RecursiveRoleAncestors\(role, ws\)\.\.\.\)", body)
    if not tgt:
        raise h.Missing(f"{rel}: cannot locate the Add of the expanded roles")
    items.append(("acl_roles_loop_aliased", "bool", "true" if ranged == tgt.group(1) else "false",
                  rel + " IsOperationAllowed: `range " + ranged + "` while adding to `" + tgt.group(1) + "`"))
    # checkOperationOnTypeForRoles, Allow branch with a field list: are the rule's fields checked against the resource?
    rel = "pkg/appdef/acl/impl.go"
    body = h.func_body(rel, r"^func checkOperationOnTypeForRoles\(", "checkOperationOnTypeForRoles")
    m = re.search(r"case appdef\.PolicyKind_Allow:(.*?)case appdef\.PolicyKind_Deny:", body, re.S)
    if not m or not re.search(r"allowedFields\[f\]\s*=\s*true", m.group(1)):
        raise h.Missing(f"{rel}: cannot locate the Allow branch of checkOperationOnTypeForRoles")
    allow = m.group(1)
    chk = bool(re.search(r"if\s+resFields\.Field\(f\)\s*!=\s*nil\s*\{[^\n]*\s*allowedFields\[f\]\s*=\s*true", allow))
    from_map = bool(re.search(r"result\s*=\s*len\(allowedFields\)\s*>\s*0", allow))
    if chk != from_map or (not chk and not re.search(r"result\s*=\s*true", allow)):
        raise h.Missing(f"{rel}: the Allow branch of checkOperationOnTypeForRoles has a shape the model does not cover")
    items.append(("acl_grant_checks_field", "bool", "true" if chk else "false", rel + " checkOperationOnTypeForRoles, Allow branch"))
    # RecursiveRoleAncestors: per-workspace recursion (as found) or one closure with a visited set
    rel = "pkg/appdef/acl/provide.go"
    body = h.func_body(rel, r"^func RecursiveRoleAncestors\(", "RecursiveRoleAncestors")
    rec = "RecursiveRoleAncestors(r, ws)" in body and "RecursiveRoleAncestors(role, w)" in body
    clo = "RecursiveRoleAncestors(" not in body and re.search(r"if\s+roles\.Contains\(r\.QName\(\)\)\s*\{\s*return", body) is not None
    if rec == clo:
        raise h.Missing(f"{rel}: RecursiveRoleAncestors has a shape the model does not cover")
    items.append(("acl_rra_closure", "bool", "true" if clo else "false", rel + " RecursiveRoleAncestors"))
    # parser: are the GRANTs of a WORKSPACE / ALTER WORKSPACE block applied before all its REVOKEs, or in textual order?
    rel = "pkg/parser/impl_build.go"
    body = h.func_body(rel, r"^func \(c \*buildContext\) grantsAndRevokes\(", "grantsAndRevokes")
    m = re.search(r"handleWorkspace\s*:=\s*func\(stmts \[\]WorkspaceStatement\)\s*\{(.*?)\n\t\}\n", body, re.S)
    if not m:
        raise h.Missing(f"{rel}: cannot locate handleWorkspace in grantsAndRevokes")
    hw = m.group(1)
    two_pass = re.search(r"grants\(stmts\)\s*revokes\(stmts\)", hw) is not None
    one_pass = ("grants(stmts)" not in hw) and re.search(r"case s\.Grant != nil:.*case s\.Revoke != nil:", hw, re.S) is not None
    if two_pass == one_pass:
        raise h.Missing(f"{rel}: grantsAndRevokes has a shape the model does not cover")
    items.append(("parser_acl_grants_first", "bool", "true" if two_pass else "false", rel + " grantsAndRevokes/handleWorkspace"))
    # NewRuleAll: does it refuse a filter whose matches have different ACL operation sets (C13-F5)?
    rel = "pkg/appdef/internal/acl/rule.go"
    body = h.func_body(rel, r"^func NewRuleAll\(", "NewRuleAll")
    if "FirstFilterMatch(flt, ws.Types())" not in body or "ACLOperationsForType(t.Kind())" not in body:
        raise h.Missing(f"{rel}: NewRuleAll no longer takes the operations of the first matching type")
    uni = re.search(r"for\s+_,\s*(\w+)\s*:=\s*range appdef\.FilterMatches\(flt, ws\.Types\(\)\)\s*\{[^}]*ACLOperationsForType\(\1\.Kind\(\)\)[^}]*Len\(\)\s*!=\s*ops\.Len\(\)[^}]*ContainsAll\(ops\.AsArray\(\)\.\.\.\)[^}]*panic\(", body, re.S) is not None
    items.append(("acl_all_requires_uniform_ops", "bool", "true" if uni else "false", rel + " NewRuleAll"))
    # newFilter: does a rule keep its own copy of the caller's field slice (C13-F8)?
    rel = "pkg/appdef/internal/acl/rule.go"
    body = h.func_body(rel, r"^func newFilter\(", "newFilter")
    if re.search(r"&filter\{\s*flt\s*,\s*fields\s*\}", body):
        clones = False
    elif re.search(r"&filter\{\s*flt\s*,\s*(slices\.Clone\(fields\)|append\(\[\]appdef\.FieldName(\{\}|\(nil\)),\s*fields\.\.\.\))\s*\}", body):
        clones = True
    else:
        raise h.Missing(f"{rel}: newFilter has a shape the model does not cover")
    items.append(("acl_rule_clones_fields", "bool", "true" if clones else "false", rel + " newFilter"))
    # VSQL compiler: the operations GRANT ALL / REVOKE ALL ON TABLE stand for (C13-F9)
    rel = "pkg/parser/const.go"
    opnum = {n: i for i, n in enumerate(names)}

    def oplist(var, required):
        mm = re.search(r"^var " + var + r"\s*=\s*\[\]appdef\.OperationKind\{(.*?)\n\}", h.src(rel), re.M | re.S)
        if not mm:
            if required:
                raise h.Missing(f"{rel}: cannot locate {var}")
            return None
        oo = re.findall(r"appdef\.(OperationKind_\w+)", mm.group(1))
        if not oo or any(o not in opnum for o in oo):
            raise h.Missing(f"{rel}: {var}: unknown operation in {oo}")
        return "[" + "; ".join(str(opnum[o]) for o in oo) + "]"
    tbl = oplist("grantAllToTableOps", True)
    cols = oplist("grantAllColumnsToTableOps", False)
    bsrc = h.func_body("pkg/parser/impl_build.go", r"^func applyGrantOrRevokeRule\(", "applyGrantOrRevokeRule")
    if "write(grantAllToTableOps, flt, fields" not in bsrc or "g.Table.All.columns" not in bsrc:
        raise h.Missing("pkg/parser/impl_build.go: applyGrantOrRevokeRule no longer writes ALL through grantAllToTableOps")
    if cols is not None and not re.search(r"len\(g\.Table\.All\.columns\)\s*>\s*0\s*\{\s*write\(grantAllColumnsToTableOps", bsrc):
        raise h.Missing("pkg/parser/impl_build.go: grantAllColumnsToTableOps is not used for ALL(columns)")
    items.append(("parser_all_table_ops", "list N", "(%s)%%N" % tbl, rel + " grantAllToTableOps"))
    items.append(("parser_all_columns_table_ops", "list N", "(%s)%%N" % (cols or tbl), rel + " grantAllColumnsToTableOps (or grantAllToTableOps)"))
    # system fields recognised by IsSysField (the harness numbers them 0..4 in this order)
    rel = "pkg/appdef/utils_field.go"
    fb = h.func_body(rel, r"^func IsSysField\(", "IsSysField")
    sysf = re.findall(r"n == (SystemField_\w+)", fb)
    if sorted(sysf) != sorted(["SystemField_QName", "SystemField_ID", "SystemField_ParentID", "SystemField_Container", "SystemField_IsActive"]):
        raise h.Missing(f"{rel}: IsSysField no longer recognises exactly the five system fields ({sysf})")
    items.append(("acl_sys_field_count", "N", str(len(sysf)), rel + " IsSysField"))
    return items
