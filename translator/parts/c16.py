"""C16: the limits pkg/appdef's builder enforces on a definition (preconditions of Add... calls that the
VSQL parser does not check itself)."""
import re


def collect(h):
    items = []
    rel = "pkg/appdef/consts.go"
    for go, coq in (("MaxTypeFieldCount", "appdef_max_type_fields"), ("MaxTypeContainerCount", "appdef_max_type_containers"),
                    ("MaxTypeUniqueFieldsCount", "appdef_max_unique_fields"), ("MaxTypeUniqueCount", "appdef_max_type_uniques")):
        m = h.find(rel, r"^const\s+" + go + r"\s*=\s*([0-9_]+)\s*$", go)
        items.append((coq, "N", str(h.go_int(m.group(1))), rel))
    m = None
    for rel in ("pkg/appdef/consts.go", "pkg/appdef/utils_qname.go", "pkg/appdef/interface_qname.go"):
        try:
            m = h.find(rel, r"^\s*(?:const\s+)?MaxIdentLen\s*=\s*([0-9_]+)", "MaxIdentLen")
            break
        except h.Missing:
            continue
    if m is None:
        raise h.Missing("pkg/appdef: cannot locate MaxIdentLen")
    items.append(("appdef_max_ident_len", "N", str(h.go_int(m.group(1))), rel))
    # does buildAppDefs turn a panic of the definition builder into an error? (repair of C16-F1)
    rel = "pkg/parser/impl.go"
    body = h.func_body(rel, r"^func buildAppDefs\(", "buildAppDefs")
    h.find(rel, r"ctx\.build\(\)", "buildAppDefs -> ctx.build()")
    items.append(("parser_recovers_builder_panics", "bool", "true" if re.search(r"defer\s+func\(\)\s*\{\s*if\s+\w+\s*:=\s*recover\(\)", body) else "false", rel + " buildAppDefs"))
    # are the rules of one `... ON TABLE` statement written in operation order, or in Go map order? (repair of C16-F2)
    rel = "pkg/parser/impl_build.go"
    body = h.func_body(rel, r"^func applyGrantOrRevokeRule\(", "applyGrantOrRevokeRule")
    by_map = bool(re.search(r"for\s+op\s*,\s*columns\s*:=\s*range\s+g\.opColumns", body))
    ordered = bool(re.search(r"slices\.Sort\(\w+\)", body)) and not by_map
    if by_map == ordered:
        raise h.Missing(f"{rel}: cannot decide the order of the per-operation rules in applyGrantOrRevokeRule")
    items.append(("parser_grant_rules_sorted", "bool", "true" if ordered else "false", rel + " applyGrantOrRevokeRule"))
    # does the analyser itself refuse a view without partition key group / a GRANT ... ON ALL <class> that
    # matches nothing in its workspace, or is builder.Build() the first to object? (C16-F6, C16-F7)
    rel = "pkg/parser/impl_analyse.go"
    body = h.func_body(rel, r"^func analyzeView\(", "analyzeView")
    h.find(rel, r"ErrClusteringColumnsNotDefined", "analyzeView: clustering columns check")
    rel2 = "pkg/parser/impl_build.go"
    body2 = h.func_body(rel2, r"^func \(c \*buildContext\) views\(", "views")
    pk_pat = r"len\(view\.pkRef\.PartitionKeyFields\)\s*==\s*0"
    items.append(("parser_checks_view_partition_key", "bool",
                  "true" if (re.search(pk_pat, body) or re.search(pk_pat, body2)) else "false", rel + " analyzeView / " + rel2 + " views"))
    rel = "pkg/parser/impl_build.go"
    body = h.func_body(rel, r"^func \(c \*buildContext\) grantsAndRevokes\(", "grantsAndRevokes")
    items.append(("parser_checks_grant_matches", "bool", "true" if re.search(r"FirstFilterMatch\(", body) else "false", rel + " grantsAndRevokes"))
    # source anchors of four repairs outside the C17 fragment (the claims about them are observed only;
    # the flags make the check fail loudly - broken side condition - when a repair is reverted)
    rel = "pkg/parser/impl_analyse.go"
    body = h.func_body(rel, r"^func analyzeRole\(", "analyzeRole")
    guarded = re.search(r"stmtErr\([^\n]*\n\s*return\s*\n\s*\}\s*\n\s*r\.workspace\s*=\s*c\.mustCurrentWorkspace\(\)", body)
    items.append(("parser_role_outside_workspace_is_error", "bool", "true" if guarded else "false", rel + " analyzeRole (C16-F3)"))
    body = h.func_body(rel, r"^func analyzeView\(", "analyzeView")
    m = re.search(r"if\s+intentForView\s*==\s*nil\s*\{(.*?)\n\t\}", body, re.S)
    if not m:
        raise h.Missing(f"{rel}: analyzeView: cannot locate the `intentForView == nil` branch")
    items.append(("parser_view_intent_error_without_projector", "bool", "false" if re.search(r"projector\.", m.group(1)) else "true", rel + " analyzeView (C16-F4)"))
    rel = "pkg/parser/impl_build.go"
    body = h.func_body(rel, r"^func \(c \*buildContext\) addTableItems\(", "addTableItems")
    h.find(rel, r"c\.addTableItems\(schema,\s*item\.FieldSet\.typ\.Items\)", "addTableItems: field set recursion")
    items.append(("parser_field_set_cycles_checked", "bool",
                  "true" if re.search(r"if\s+slices\.Contains\(c\.(?:defCtx\(\)\.)?fieldSets,\s*item\.FieldSet\.typ\)\s*\{[^}]*stmtErr", body) else "false", rel + " addTableItems (C16-F5)"))
    # C16-F5b: is that guard kept per definition being built (or one stack for the whole build, shared with
    # tables built on demand in the middle of another definition - a false cycle)?
    items.append(("parser_field_set_guard_per_definition", "bool",
                  "true" if re.search(r"slices\.Contains\(c\.defCtx\(\)\.fieldSets,", body) else "false", rel + " addTableItems (C16-F5b)"))
    body = h.func_body(rel, r"^func \(c \*buildContext\) grantsAndRevokes\(", "grantsAndRevokes")
    by_map = bool(re.search(r"for\s+_\s*,\s*\w+\s*:=\s*range\s+c\.app\.Packages\s*\{", body))
    by_path = bool(re.search(r"slices\.Sort\(paths\)", body)) and len(re.findall(r"for\s+_\s*,\s*path\s*:=\s*range\s+paths\s*\{", body)) == 2
    if by_map == by_path:
        raise h.Missing(f"{rel}: cannot decide the package order in grantsAndRevokes")
    items.append(("parser_grants_in_package_path_order", "bool", "true" if by_path else "false", rel + " grantsAndRevokes (C16-F8)"))
    # C16-F9 / C16-F10 (open until repaired; no lemma yet rests on these two): the analyser's field lookup has
    # a cycle guard; the wrong-family container error carries the field position
    rel = "pkg/parser/impl_analyse.go"
    h.find(rel, r"^func lookupField\(items \[\]TableItemExpr", "lookupField")
    body = ""
    for fn in ("lookupField", "lookupFieldIn"):
        try:
            body += h.func_body(rel, r"^func " + fn + r"\(", fn)
        except h.Missing:
            pass
    if "item.FieldSet" not in body:
        raise h.Missing(f"{rel}: lookupField no longer follows field sets")
    items.append(("parser_field_lookup_cycles_checked", "bool", "true" if re.search(r"slices\.Contains\(fieldSets,\s*t\)", body) else "false", rel + " lookupField (C16-F9)"))
    rel = "pkg/parser/impl_build.go"
    body = h.func_body(rel, r"^func \(c \*buildContext\) addTableFieldToTable\(", "addTableFieldToTable")
    bare = bool(re.search(r"c\.errs\s*=\s*append\(c\.errs,\s*ErrNestedTableIncorrectKind\)", body))
    pos = bool(re.search(r"c\.stmtErr\(&field\.Pos,\s*ErrNestedTableIncorrectKind\)", body))
    if bare == pos:
        raise h.Missing(f"{rel}: addTableFieldToTable: cannot decide how ErrNestedTableIncorrectKind is reported")
    items.append(("parser_container_kind_error_positioned", "bool", "true" if pos else "false", rel + " addTableFieldToTable (C16-F10)"))
    # anchors of the repairs proposed for C16-F11, F12, F13, F16, F17 (false until committed; lemmas then)
    rel = "pkg/parser/impl_analyse.go"
    body = h.func_body(rel, r"^func getTableTypeKind\(", "getTableTypeKind")
    i_chain, i_self = body.find("getTableInheritanceChain("), body.find("check(tableNode{pkg: pkg, table: table})")
    if i_chain < 0 or i_self < 0:
        raise h.Missing(f"{rel}: getTableTypeKind: cannot locate the chain walk / the kind-by-name shortcut")
    items.append(("parser_system_tables_chain_checked", "bool", "true" if i_chain < i_self else "false", rel + " getTableTypeKind (C16-F11)"))
    body = h.func_body(rel, r"^func analyzeCommand\(", "analyzeCommand")
    items.append(("parser_command_parameter_kinds_checked", "bool", "true" if re.search(r"!allowed\(tbl\.tableTypeKind\)", body) else "false", rel + " analyzeCommand (C16-F12)"))
    body = h.func_body(rel, r"^func analyzeJob\(", "analyzeJob")
    std, sec = "cron.ParseStandard(" in body, "cron.SecondOptional" in body
    if std == sec:
        raise h.Missing(f"{rel}: analyzeJob: cannot decide which cron parser checks the schedule")
    items.append(("parser_job_schedule_standard", "bool", "true" if std else "false", rel + " analyzeJob (C16-F13)"))
    rel = "pkg/parser/utils.go"
    body = h.func_body(rel, r"^func buildQname\(", "buildQname")
    items.append(("parser_parameter_package_resolved", "bool", "true" if "findPackage(pkg, ctx)" in body else "false", rel + " buildQname (C16-F16)"))
    rel = "pkg/parser/impl.go"
    body = h.func_body(rel, r"^func parseImpl\(", "parseImpl")
    h.find(rel, r"parser\.ParseString\(fileName, content\)", "parseImpl: ParseString")
    items.append(("parser_nesting_depth_bounded", "bool", "true" if re.search(r"checkNesting\(basicLexer, fileName, content\)", body) else "false", rel + " parseImpl (C16-F17)"))
    # anchors of the repairs proposed for C16-F20..F24 (false until committed; lemmas then)
    rel = "pkg/parser/impl_analyse.go"
    body = h.func_body(rel, r"^func analyseGrantOrRevoke\(", "analyseGrantOrRevoke")
    items.append(("parser_grant_column_lookup_visits_once", "bool", "true" if re.search(r"searched\[f\.FieldSet\.typ\]\s*=\s*true", body) else "false", rel + " analyseGrantOrRevoke checkColumn (C16-F20)"))
    body = h.func_body(rel, r"^func lookupFieldIn\(", "lookupFieldIn")
    rel2 = "pkg/parser/impl_build.go"
    body2 = h.func_body(rel2, r"^func \(c \*buildContext\) addTableItems\(", "addTableItems")
    items.append(("parser_field_sets_expanded_once", "bool", "true" if ("searched[t]" in body and "emptyFieldSets[item.FieldSet.typ]" in body2) else "false", rel + " lookupFieldIn; " + rel2 + " addTableItems (C16-F21)"))
    body2 = h.func_body(rel2, r"^func \(c \*buildContext\) addNestedTableToDef\(", "addNestedTableToDef")
    items.append(("parser_nested_table_comments_applied", "bool", "true" if re.search(r"c\.addComments\(nestedTable,", body2) else "false", rel2 + " addNestedTableToDef (C16-F22)"))
    body2 = h.func_body(rel2, r"^func \(c \*buildContext\) addDataTypeField\(", "addDataTypeField")
    h.find(rel2, r"AddRefField\(fieldName, field\.NotNull, QNameWDocBLOB\)", "addDataTypeField: blob field")
    items.append(("parser_blob_table_checked", "bool", "true" if "checkReferenceToBLOB()" in body2 else "false", rel2 + " addDataTypeField (C16-F23)"))
    body = h.func_body(rel, r"^func analyseRevoke\(", "analyseRevoke")
    items.append(("parser_revoke_role_refused_by_analyser", "bool", "true" if "ErrRevokeRoleNotSupported" in body else "false", rel + " analyseRevoke (C16-F24)"))
    # the parser's identifier rule: a letter followed by at most 254 word characters
    rel = "pkg/parser/const.go"
    h.find(rel, r'identifierRegexp\s*=\s*`\(\[a-zA-Z\]\\w\{0,254\}\)\|\("\[a-zA-Z\]\\w\{0,254\}"\)`', "identifierRegexp")
    return items
