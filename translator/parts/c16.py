"""C16: the limits pkg/appdef's builder enforces on a definition (preconditions of Add... calls that the
VSQL parser does not check itself)."""


def collect(h):
    items = []
    rel = "pkg/appdef/consts.go"
    for go, coq in (("MaxTypeFieldCount", "appdef_max_type_fields"), ("MaxTypeContainerCount", "appdef_max_type_containers"),
                    ("MaxTypeUniqueFieldsCount", "appdef_max_unique_fields"), ("MaxTypeUniqueCount", "appdef_max_type_uniques")):
        m = h.find(rel, r"^const\s+" + go + r"\s*=\s*([0-9_]+)\s*$", go)
        items.append((coq, "N", str(h.go_int(m.group(1))), rel))
    m = None
    for rel in ("pkg/appdef/consts.go", "pkg/appdef/utils_qname.go", "pkg/appdef/interface_qname.go"):
        try:
            m = h.find(rel, r"^\s*(?:const\s+)?MaxIdentLen\s*=\s*([0-9_]+)", "MaxIdentLen")
            break
        except h.Missing:
            continue
    if m is None:
        raise h.Missing("pkg/appdef: cannot locate MaxIdentLen")
    items.append(("appdef_max_ident_len", "N", str(h.go_int(m.group(1))), rel))
    # the parser's identifier rule: a letter followed by at most 254 word characters
    rel = "pkg/parser/const.go"
    h.find(rel, r'identifierRegexp\s*=\s*`\(\[a-zA-Z\]\\w\{0,254\}\)\|\("\[a-zA-Z\]\\w\{0,254\}"\)`', "identifierRegexp")
    return items
