"""C18: appdefcompat constraint bit values (const.go iota block) and the node-name -> constraint
table `constrains` (impl.go), node names resolved through the NodeName* string constants."""
import re


def _bytes(s):
    return "[" + "; ".join(str(b) for b in s.encode("utf-8")) + "]"


def collect(h):
    items = []
    crel = "pkg/appdefcompat/const.go"
    blk = h.find(crel, r"const \(\s*\n(\s*ConstraintValueMatch\s+Constraint\s*=\s*1\s*<<\s*iota\s*\n.*?)\n\)", "Constraint const block", flags=re.S | re.M).group(1)
    consts = {}
    idx = 0
    for line in blk.splitlines():
        line = line.split("//")[0].strip()
        if not line:
            continue
        m = re.match(r"^(Constraint\w+)(?:\s+Constraint)?(?:\s*=\s*(.+))?$", line)
        if not m:
            raise h.Missing(f"{crel}: cannot parse constraint constant line {line!r}")
        name, rhs = m.group(1), m.group(2)
        if rhs is None or re.fullmatch(r"1\s*<<\s*iota", rhs.strip()):
            consts[name] = 1 << idx
        else:
            consts[name] = h.go_int(rhs)
        idx += 1
    want = [("ConstraintValueMatch", "compat_c_value_match"), ("ConstraintAppendOnly", "compat_c_append_only"),
            ("ConstraintInsertOnly", "compat_c_insert_only"), ("ConstraintOrderChangeOnly", "compat_c_order_change_only"),
            ("ConstraintAllAllowed", "compat_c_all_allowed"), ("ConstraintNonModifiable", "compat_c_non_modifiable")]
    for go, coq in want:
        if go not in consts:
            raise h.Missing(f"{crel}: constant {go} not found")
        if not 0 <= consts[go] <= 255:
            raise h.Missing(f"{crel}: {go}={consts[go]} does not fit the uint8 Constraint type")
        items.append((coq, "N", str(consts[go]), crel))
    names = {m.group(1): m.group(2) for m in re.finditer(r'^\s*(NodeName\w+)\s*=\s*"([^"\\]*)"\s*$', h.src(crel), re.M)}
    irel = "pkg/appdefcompat/impl.go"
    tbl = h.find(irel, r"^var constrains = \[\]NodeConstraint\{\s*\n(.*?)\n\}", "constrains table", flags=re.S | re.M).group(1)
    rows = []
    for line in tbl.splitlines():
        line = line.split("//")[0].strip()
        if not line:
            continue
        m = re.match(r"^\{\s*(NodeName\w+)\s*,\s*([\w\s|]+?)\s*\},?$", line)
        if not m:
            raise h.Missing(f"{irel}: cannot parse constrains row {line!r}")
        if m.group(1) not in names:
            raise h.Missing(f"{crel}: node name constant {m.group(1)} not found")
        val = 0
        for part in m.group(2).split("|"):
            part = part.strip()
            if part not in consts:
                raise h.Missing(f"{irel}: unknown constraint {part!r} in constrains table")
            val |= consts[part]
        rows.append(f"({_bytes(names[m.group(1)])}, {val})")
    if not rows:
        raise h.Missing(f"{irel}: empty constrains table")
    items.append(("compat_constrains", "list (list N * N)", "[" + "; ".join(rows) + "]%N", irel))
    # the comparer's shape the model transcribes: value match is unconditional, the table is searched by old node name,
    # findNodeByName keeps the last match
    body = h.func_body(irel, r"^func compareNodes\(", "compareNodes")
    if "cmp.Equal(oldNode.Value, newNode.Value)" not in body or "findConstraint(oldNode.Name, constrains)" not in body:
        raise h.Missing(f"{irel}: compareNodes no longer has the transcribed shape")
    return items
