"""C04: record-ID range layout (pkg/istructs/consts.go), the generator's start value and the shape of
the generator / regeneration code the model mirrors (anchors only: a change of shape is a hard error)."""
import re


def collect(h):
    rel = "pkg/istructs/consts.go"

    def const(name):
        return h.find(rel, r"^const\s+" + name + r"\s*=\s*(.+?)\s*(?://.*)?$", name).group(1)

    def rid(name):
        m = re.fullmatch(r"RecordID\((\w+)\)", const(name))
        if not m:
            raise h.Missing(f"{rel}: {name} is not RecordID(<literal>)")
        return h.go_int(m.group(1))

    min_raw = rid("MinRawRecordID")
    max_raw = rid("MaxRawRecordID")
    max_res = rid("MaxReservedRecordID")
    if const("MinReservedRecordID") != "MaxRawRecordID + 1":
        raise h.Missing(f"{rel}: MinReservedRecordID is no longer MaxRawRecordID + 1")
    if const("FirstUserRecordID") != "MaxReservedRecordID + 1":
        raise h.Missing(f"{rel}: FirstUserRecordID is no longer MaxReservedRecordID + 1")
    m = re.fullmatch(r"FirstSingletonID \+ (\w+)", const("MaxSingletonID"))
    if const("FirstSingletonID") != "MinReservedRecordID" or not m:
        raise h.Missing(f"{rel}: singleton ID range changed shape")
    items = [
        ("c04_min_raw_id", "N", str(min_raw), rel),
        ("c04_max_raw_id", "N", str(max_raw), rel),
        ("c04_max_reserved_id", "N", str(max_res), rel),
        ("c04_first_user_id", "N", str(max_res + 1), rel),
        ("c04_max_singleton_id", "N", str(max_raw + 1 + h.go_int(m.group(1))), rel),
    ]
    # upper bound validation puts on the explicit IDs an event may carry (none: every uint64 passes)
    mrec = re.search(r"^const\s+MaxRecordID\s*=\s*RecordID\((.+?)\)\s*(?://.*)?$", h.src(rel), re.M)
    val = h.src("pkg/istructsmem/validation.go")
    if mrec:
        expr = mrec.group(1).strip()
        known = {"math.MaxInt64": 2**63 - 1, "math.MaxUint64": 2**64 - 1, "math.MaxInt32": 2**31 - 1, "math.MaxUint32": 2**32 - 1}
        bound = known[expr] if expr in known else h.go_int(expr)
        if len(re.findall(r"else if id > istructs\.MaxRecordID", val)) != 2:
            raise h.Missing("pkg/istructsmem/validation.go: MaxRecordID exists but is not checked for argument rows and for creates")
    else:
        if "MaxRecordID" in val:
            raise h.Missing(f"{rel}: validation.go mentions MaxRecordID but the constant was not found")
        bound = 2**64 - 1
    items.append(("c04_max_record_id", "N", str(bound), rel))
    # IsRaw: closed interval [MinRaw, MaxRaw]
    h.find("pkg/istructs/utils.go", r"return \(id >= MinRawRecordID\) && \(id <= MaxRawRecordID\)", "RecordID.IsRaw")
    # generator: starts at FirstUserRecordID, NextID returns then increments, UpdateOnSync jumps past syncID when syncID >= next
    rel = "pkg/istructsmem/idgenerator.go"
    h.find(rel, r"nextRecordID:\s*istructs\.FirstUserRecordID", "generator start value")
    body = h.func_body(rel, r"^func \(g \*implIIDGenerator\) NextID\(", "NextID")
    if not re.search(r"storageID = g\.nextRecordID\s*\n\s*g\.nextRecordID\+\+", body):
        raise h.Missing(f"{rel}: NextID no longer returns nextRecordID and increments it")
    body = h.func_body(rel, r"^func \(g \*implIIDGenerator\) UpdateOnSync\(", "UpdateOnSync")
    strict = re.search(r"if syncID >= g\.nextRecordID(.*?)\{\s*g\.nextRecordID = syncID \+ 1", body, re.S)
    if not strict:
        raise h.Missing(f"{rel}: UpdateOnSync changed shape")
    # the largest syncID UpdateOnSync reacts to: no guard = MaxUint64 (then syncID+1 wraps), `syncID < math.MaxUint64`
    # = MaxUint64-1, an early return for `syncID > istructs.MaxRecordID` = MaxRecordID; anything else is a hard error
    extra = strict.group(1).strip()
    early = re.search(r"if syncID > istructs\.MaxRecordID \{[^}]*return[^}]*\}", body, re.S)
    if early and extra == "":
        limit = bound
    elif not early and extra == "":
        limit = 2**64 - 1
    elif not early and re.fullmatch(r"&& syncID < math\.MaxUint64", extra):
        limit = 2**64 - 2
    else:
        raise h.Missing(f"{rel}: cannot read the upper bound UpdateOnSync puts on syncID ({extra!r})")
    items.append(("c04_update_on_sync_limit", "N", str(limit), rel))
    rel = "pkg/istructsmem/event-types.go"
    body = h.func_body(rel, r"^func \(o \*objectType\) regenerateIDs\(", "objectType.regenerateIDs")
    # does the argument pass advance the generator past explicit (synced) IDs?
    items.append(("c04_arg_updates_on_sync", "bool", "true" if "UpdateOnSync" in body else "false", rel))
    body = h.func_body(rel, r"^func \(ev \*eventType\) regenerateIDs\(", "eventType.regenerateIDs")
    # is the argument's raw->storage plan handed to the CUD pass?  (as written: two independent plans)
    shared = not re.search(r"return ev\.cud\.regenerateIDs\(generator\)", body)
    # are all explicit (synced) IDs of the event fed to UpdateOnSync before the first pass issues a new ID?
    i_sync = body.find("UpdateOnSync(")
    i_arg = body.find("argObject.regenerateIDs(")
    if i_arg < 0:
        raise h.Missing(f"{rel}: eventType.regenerateIDs no longer calls argObject.regenerateIDs")
    items.append(("c04_sync_prepass", "bool", "true" if 0 <= i_sync < i_arg else "false", rel))
    items.append(("c04_plans_shared", "bool", "true" if shared else "false", rel))
    # validateObjectIDs: which fields of the argument rows are checked for unknown raw IDs - the reference fields only
    # (RefFields) or every RecordID field (RecordIDs)?
    rel = "pkg/istructsmem/validation.go"
    body = h.func_body(rel, r"^func validateObjectIDs\(", "validateObjectIDs")
    if re.search(r"range e\.RecordIDs\(false\)", body):
        plain_checked = "true"
    elif re.search(r"range e\.fields\.RefFields\(\)", body):
        plain_checked = "false"
    else:
        raise h.Missing(f"{rel}: cannot tell which argument fields validateObjectIDs checks")
    items.append(("c04_arg_plain_checked", "bool", plain_checked, rel))
    # sendResponse: replies of the APIv2 paths are re-encoded through a generic map; are numbers kept exact (UseNumber)
    # or do they go through float64?
    rel = "pkg/processors/command/impl.go"
    body = h.func_body(rel, r"^func sendResponse\(", "sendResponse")
    if "pascalCasedResMap" not in body:
        exact = "true"   # no re-encoding at all
    elif "UseNumber()" in body:
        exact = "true"
    elif re.search(r"json\.Unmarshal\(\[\]byte\(res\), &pascalCasedResMap\)", body):
        exact = "false"
    else:
        raise h.Missing(f"{rel}: cannot tell how sendResponse re-encodes the reply of the APIv2 paths")
    items.append(("c04_apiv2_reply_exact", "bool", exact, rel))
    # appRecordsType.validEvent: a singleton create is refused whenever a record sits at the singleton's ID
    rel = "pkg/istructsmem/impl.go"
    body = h.func_body(rel, r"^func \(recs \*appRecordsType\) validEvent\(", "appRecordsType.validEvent")
    if "ErrSingletonViolation(rec)" not in body:
        raise h.Missing(f"{rel}: validEvent no longer raises ErrSingletonViolation")
    plain = re.search(r"exists, err := load\(id, nil\)(.|\n)*?if exists \{\s*return ErrSingletonViolation\(rec\)", body)
    items.append(("c04_singleton_slot_guard", "bool", "true" if plain else "false", rel))
    return items
