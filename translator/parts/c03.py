"""C03: how istructsmem splits a record id into partition key / clustering columns, and the
re-apply write mode."""
import re


def collect(h):
    items = []
    rel = "pkg/istructsmem/consts.go"
    bits = h.go_int(h.find(rel, r"^\s*partitionBits\s*=\s*([0-9_]+)\s*$", "partitionBits").group(1))
    items.append(("rec_partition_bits", "N", str(bits), rel))
    # lowMask = uint16((1 << partitionBits) - 1)
    h.find(rel, r"^\s*lowMask\s*=\s*uint16\(\(1\s*<<\s*partitionBits\)\s*-\s*1\)\s*$", "lowMask = uint16((1 << partitionBits) - 1)")
    items.append(("rec_low_mask", "N", str(((1 << bits) - 1) & 0xFFFF), rel + " (evaluated)"))
    rel = "pkg/istructsmem/utils.go"
    body = h.func_body(rel, r"^func crackID\(", "crackID")
    if not re.search(r"return\s+id\s*>>\s*partitionBits\s*,\s*uint16\(id\)\s*&\s*lowMask", body):
        raise h.Missing(f"{rel}: crackID is not `id >> partitionBits, uint16(id) & lowMask`")
    body = h.func_body(rel, r"^func recordKey\(", "recordKey") + h.func_body(rel, r"^func uint16bytes\(", "uint16bytes")
    if not re.search(r"PutUint64\(pkey\[uint16len:\],\s*uint64\(ws\)\)", body) or \
       not re.search(r"PutUint64\(pkey\[uint16len\+uint64len:\],\s*hi\)", body) or \
       not re.search(r"return\s+pkey,\s*uint16bytes\(lo\)", body):
        raise h.Missing(f"{rel}: recordKey layout (ws, id hi | id lo) not recognised")
    items.append(("rec_key_endian", "endian", h.endianness(body, "recordKey", rel), rel))
    rel = "pkg/istructsmem/impl.go"
    body = h.func_body(rel, r"^func \(recs \*appRecordsType\) putRecordsBatch\(", "putRecordsBatch")
    m = re.search(r"case\s+isReapply\s*,[^:]*:\s*for[^}]*\}\s*return\s+recs\.app\.config\.storage\.PutBatch\(batch\)", body, re.S)
    items.append(("rec_reapply_overwrites", "bool", "true" if m else "false", rel + " putRecordsBatch"))
    # F-C03-1: applyRecs rebuilds every update over the stored row (not only when the in-memory origin is empty)
    rel2 = "pkg/istructsmem/event-types.go"
    ab = h.func_body(rel2, r"^func \(cud \*cudType\) applyRecs\(", "applyRecs")
    if not re.search(r"load\(&rec\.originRec\)[^}]*\}\s*if err := rec\.build\(\)", ab, re.S):
        raise h.Missing(f"{rel2}: applyRecs: load(&rec.originRec) followed by rec.build() not found")
    guarded = re.search(r"if\s+[^{]*\{[^{}]*(//[^\n]*\n[^{}]*)*load\(&rec\.originRec\)", ab, re.S) is not None
    items.append(("rec_apply_reloads_origin", "bool", "false" if guarded else "true", rel2 + " applyRecs"))
    # F-C03-2: an update that does not assign sys.IsActive takes the activity of the STORED record
    # (validEvent refreshes the changes row), not that of the object handed to ICUD.Update
    vb = h.func_body(rel, r"^func \(recs \*appRecordsType\) validEvent\(", "validEvent")
    if "ev.cud.updates" not in vb:
        raise h.Missing(f"{rel}: validEvent no longer walks ev.cud.updates")
    refresh = re.search(r"if\s+!rec\.changes\.isActiveModified[^{]*\{\s*rec\.changes\.setActive\(old\.IsActive\(\)\)", vb) is not None
    items.append(("rec_update_activity_from_store", "bool", "true" if refresh else "false", rel + " validEvent"))
    ub = h.func_body("pkg/istructsmem/event-types.go", r"^func \(upd \*updateRecType\) build\(", "updateRecType.build")
    if not re.search(r"if\s+upd\.changes\.IsActive\(\)\s*!=\s*upd\.originRec\.IsActive\(\)\s*\{\s*upd\.result\.setActive\(upd\.changes\.IsActive\(\)\)", ub):
        raise h.Missing("pkg/istructsmem/event-types.go: updateRecType.build: activity rule (value comparison) not recognised")
    body = h.func_body(rel, r"^func \(er \*implIEventReapplier\) ApplyRecords\(", "ApplyRecords")
    if not re.search(r"apply2\(er\.plogEvent,\s*nil,\s*true\)", body):
        raise h.Missing(f"{rel}: ApplyRecords does not call apply2(..., true)")
    return items
