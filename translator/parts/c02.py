"""C02: log key split, readLogParts decision points, storage view ids and the event codec constants."""
import re


def _iota_index(h, rel, block_pat, name, what):
    """position of `name` in the const block located by block_pat (one identifier per line)"""
    m = h.find(rel, block_pat, what, re.M | re.S)
    names = []
    for line in m.group(1).splitlines():
        line = line.split("//")[0].strip()
        if not line:
            continue
        names.append(re.match(r"(\w+)", line).group(1))
    if name not in names:
        raise h.Missing(f"{rel}: {name} not in {what}")
    return names.index(name)


def collect(h):
    items = []
    rel = "pkg/istructsmem/consts.go"
    bits = h.go_int(h.find(rel, r"^\s*partitionBits\s*=\s*([0-9_]+)\s*$", "partitionBits").group(1))
    items.append(("c02_partition_bits", "N", str(bits), rel))
    h.find(rel, r"^\s*lowMask\s*=\s*uint16\(\(1\s*<<\s*partitionBits\)\s*-\s*1\)\s*$", "lowMask = uint16((1 << partitionBits) - 1)")
    items.append(("c02_low_mask", "N", str(((1 << bits) - 1) & 0xFFFF), rel + " (evaluated)"))
    h.find(rel, r"^\s*partitionRecordCount\s*=\s*1\s*<<\s*partitionBits\s*$", "partitionRecordCount = 1 << partitionBits")
    # codec versions: iota block starting with codec_RawDynoBuffer
    blk = r"const \(\s*// byte codec versions\s*\n\s*codec_RawDynoBuffer = byte\(0x00\) \+ iota\n(.*?)\n\s*\)"
    m = h.find(rel, blk, "codec version block", re.S)
    names = ["codec_RawDynoBuffer"] + [re.match(r"\s*(\w+)", ln).group(1) for ln in m.group(1).splitlines()
                                       if re.match(r"\s*codec_\w+", ln) and "=" not in ln.split("//")[0]]
    last = h.find(rel, r"^\s*codec_LastVersion\s*=\s*(\w+)\s*$", "codec_LastVersion").group(1)
    if last not in names or "codec_RDB_2" not in names:
        raise h.Missing(f"{rel}: codec version names {names} / last {last} not recognised")
    items.append(("c02_codec_last", "N", str(names.index(last)), rel))
    items.append(("c02_codec_emptied_since", "N", str(names.index("codec_RDB_2")), rel + " (codec_RDB_2)"))
    for nm, go in (("c02_sfm_id", "sfm_ID"), ("c02_sfm_parent", "sfm_ParentID"), ("c02_sfm_container", "sfm_Container"), ("c02_sfm_active", "sfm_IsActive")):
        sh = h.go_int(h.find(rel, r"^\s*" + go + r"\s*=\s*uint16\(1\s*<<\s*([0-9]+)\)\s*$", go).group(1))
        items.append((nm, "N", str(1 << sh), rel))

    # the system-field mask carries "sys.IsActive was assigned" (no payload): constant, store and load anchors
    mconst = re.search(r"^\s*sfm_IsActiveModified\s*=\s*uint16\(1\s*<<\s*([0-9]+)\)\s*$", h.src(rel), re.M)
    td = "pkg/istructsmem/types-dynobuf.go"
    st = h.func_body(td, r"^func storeRowSysFields\(", "storeRowSysFields")
    ld = h.func_body(td, r"^func loadRowSysFields\(", "loadRowSysFields")
    st_ok = bool(re.search(r"if\s+row\.isActiveModified\s*\{\s*sysFieldMask\s*\|=\s*sfm_IsActiveModified\s*\}", st))
    ld_ok = bool(re.search(r"row\.isActiveModified\s*=\s*\(sysFieldMask\s*&\s*sfm_IsActiveModified\)\s*==\s*sfm_IsActiveModified", ld))
    any_use = "sfm_IsActiveModified" in st or "sfm_IsActiveModified" in ld or "isActiveModified" in st or "isActiveModified" in ld
    if mconst and st_ok and ld_ok:
        items.append(("c02_mask_carries_actmod", "bool", "true", td + " storeRowSysFields/loadRowSysFields"))
        items.append(("c02_sfm_actmod", "N", str(1 << h.go_int(mconst.group(1))), rel))
    elif not mconst and not any_use:
        items.append(("c02_mask_carries_actmod", "bool", "false", td + " storeRowSysFields/loadRowSysFields"))
        items.append(("c02_sfm_actmod", "N", "16", rel + " (bit not defined: unused)"))
    else:
        raise h.Missing(f"{td}: sfm_IsActiveModified: constant / store / load anchors do not agree (const={bool(mconst)} store={st_ok} load={ld_ok})")

    rel = "pkg/istructsmem/event-types.go"
    body = h.func_body(rel, r"^func \(ev \*eventType\) loadFromBytes\(", "loadFromBytes")
    m = re.search(r"case\s+([\w, ]+):\s*if err := loadEvent\(", body)
    if not m or sorted(x.strip() for x in m.group(1).split(",")) != sorted(names):
        raise h.Missing(f"{rel}: loadFromBytes does not accept exactly the codec versions {names}")
    body = h.func_body(rel, r"^func \(ev \*eventType\) storeToBytes\(", "storeToBytes")
    if not re.search(r"WriteByte\(buf,\s*codec_LastVersion\)", body):
        raise h.Missing(f"{rel}: storeToBytes does not write codec_LastVersion")

    rel = "pkg/istructsmem/event-dynobuf.go"
    body = h.func_body(rel, r"^func loadEventCUD\(", "loadEventCUD")
    if not re.search(r"if\s+codecVer\s*>=\s*codec_RDB_2\s*\{", body):
        raise h.Missing(f"{rel}: loadEventCUD: emptied fields are not read from codec_RDB_2 on")

    # the original event name written by storeEventBuildError: the event's own name (for a decoded error
    # event that is sys.Error / sys.Corrupted) or the name kept in the error record
    body = h.func_body(rel, r"^func storeEventBuildError\(", "storeEventBuildError")
    if re.search(r"WriteShortString\(buf,\s*ev\.name\.String\(\)\)", body):
        orig = "false"
    elif re.search(r"WriteShortString\(buf,\s*ev\.buildErr\.qName\.String\(\)\)", body):
        orig = "true"
    else:
        raise h.Missing(f"{rel}: storeEventBuildError: original event name expression not recognised")
    items.append(("c02_reencode_orig_name", "bool", orig, rel + " storeEventBuildError"))

    # loadEventBuildError: an original event name that ParseQName rejects makes the row undecodable (strict)
    # or is kept as it is split at the first dot (tolerant)
    body = h.func_body(rel, r"^func loadEventBuildError\(", "loadEventBuildError")
    m = re.search(r"if\s+ev\.buildErr\.qName,\s*err\s*=\s*appdef\.ParseQName\(qName\);\s*err\s*!=\s*nil\s*\{(.*?)\n\t\}", body, re.S)
    if not m:
        raise h.Missing(f"{rel}: loadEventBuildError: parsing of the original event name not recognised")
    if re.search(r"return\s+enrichError\(err", m.group(1)):
        strict = "true"
    elif re.search(r"strings\.Cut\(qName,\s*appdef\.QNameQualifierChar\)", m.group(1)) and "return" not in m.group(1):
        strict = "false"
    else:
        raise h.Missing(f"{rel}: loadEventBuildError: handling of an unparsable original event name not recognised")
    items.append(("c02_errname_parse_strict", "bool", strict, rel + " loadEventBuildError"))

    rel = "pkg/istructsmem/internal/utils/bytes.go"
    mx = h.go_int(h.find(rel, r"const\s+maxLen\s+uint16\s*=\s*(0x[0-9A-Fa-f]+|[0-9]+)", "WriteShortString maxLen").group(1))
    items.append(("c02_short_string_max", "N", str(mx), rel))

    rel = "pkg/istructs/consts.go"
    rte = h.find(rel, r"^const ReadToTheEnd\s*=\s*int\(\^uint\(0\)\s*>>\s*1\)\s*$", "ReadToTheEnd = int(^uint(0) >> 1)")
    assert rte
    items.append(("c02_read_to_end", "N", str((1 << 63) - 1), rel + " (64-bit int)"))
    blk = r"const \(\s*\n\s*NullQNameID QNameID = 0 \+ iota\n(.*?)\n\s*QNameIDSysLast"
    for nm, go in (("c02_qid_error", "QNameIDForError"), ("c02_qid_corrupted", "QNameIDForCorruptedData")):
        items.append((nm, "N", str(1 + _iota_index(h, rel, blk, go, "well-known QNameID block")), rel))

    sysp = h.find("pkg/appdef/consts.go", r'^\s*SysPackage\s*=\s*"(\w+)"\s*$', "SysPackage").group(1)
    for nm, go in (("c02_name_error", "QNameForError"), ("c02_name_corrupted", "QNameForCorruptedData")):
        ent = h.find(rel, r"^\s*" + go + r'\s*=\s*appdef\.NewQName\(appdef\.SysPackage,\s*"(\w+)"\)\s*$', go).group(1)
        txt = (sysp + "." + ent).encode()
        items.append((nm, "list N", "[" + "; ".join(f"{b}%N" for b in txt) + "]", rel + f" ({sysp}.{ent})"))

    rel = "pkg/istructsmem/internal/consts/qnames.go"
    blk = r"const \(\s*\n\s*SysView_Versions\s+uint16 = ([0-9]+) \+ iota[^\n]*\n(.*?)\n\s*\)"
    m = h.find(rel, blk, "system view block", re.S)
    base = int(m.group(1))
    names_v = ["SysView_Versions"] + [re.match(r"\s*(\w+)", ln).group(1) for ln in m.group(2).splitlines() if re.match(r"\s*SysView_\w+", ln)]
    for nm, go in (("c02_view_plog", "SysView_PLog"), ("c02_view_wlog", "SysView_WLog")):
        if go not in names_v:
            raise h.Missing(f"{rel}: {go} not found")
        items.append((nm, "N", str(base + names_v.index(go)), rel))

    rel = "pkg/istructsmem/utils.go"
    body = h.func_body(rel, r"^func crackID\(", "crackID")
    if not re.search(r"return\s+id\s*>>\s*partitionBits\s*,\s*uint16\(id\)\s*&\s*lowMask", body):
        raise h.Missing(f"{rel}: crackID is not `id >> partitionBits, uint16(id) & lowMask`")
    body = h.func_body(rel, r"^func glueLogOffset\(", "glueLogOffset")
    if not re.search(r"hi\s*<<\s*partitionBits\s*\|\s*uint64\(low\)", body):
        raise h.Missing(f"{rel}: glueLogOffset is not `hi<<partitionBits | uint64(low)`")
    pk = h.func_body(rel, r"^func plogKey\(", "plogKey")
    wk = h.func_body(rel, r"^func wlogKey\(", "wlogKey")
    u16 = h.func_body(rel, r"^func uint16bytes\(", "uint16bytes")
    if not (re.search(r"PutUint16\(pkey,\s*consts\.SysView_PLog\)", pk) and re.search(r"PutUint16\(pkey\[uint16len:\],\s*uint16\(partition\)\)", pk)
            and re.search(r"PutUint64\(pkey\[uint16len\+uint16len:\],\s*hi\)", pk) and re.search(r"return\s+pkey,\s*uint16bytes\(lo\)", pk)):
        raise h.Missing(f"{rel}: plogKey layout (view, partition, offset hi | offset lo) not recognised")
    if not (re.search(r"PutUint16\(pkey,\s*consts\.SysView_WLog\)", wk) and re.search(r"PutUint64\(pkey\[uint16len:\],\s*uint64\(ws\)\)", wk)
            and re.search(r"PutUint64\(pkey\[uint16len\+uint64len:\],\s*hi\)", wk) and re.search(r"return\s+pkey,\s*uint16bytes\(lo\)", wk)):
        raise h.Missing(f"{rel}: wlogKey layout (view, ws, offset hi | offset lo) not recognised")
    items.append(("c02_key_endian", "endian", h.endianness(pk + wk + u16, "plogKey/wlogKey/uint16bytes", rel), rel))

    rel = "pkg/istructsmem/log_iterate.go"
    body = h.func_body(rel, r"^func readLogParts\(", "readLogParts")
    if not re.search(r"finishOffset\s*=\s*startOffset\s*\+\s*istructs\.Offset\(toReadCount\)\s*-\s*1", body) or \
       not re.search(r"if\s+toReadCount\s*==\s*istructs\.ReadToTheEnd\s*\{\s*finishOffset\s*=\s*istructs\.Offset\(istructs\.ReadToTheEnd\)", body) or \
       not re.search(r"if\s+toReadCount\s*<=\s*0\s*\{\s*return nil", body) or \
       not re.search(r"for\s+part\s*:=\s*minPart;\s*part\s*<=\s*maxPart;\s*part\+\+", body) or \
       not re.search(r"if\s+!ok\s*\{\s*break", body):
        raise h.Missing(f"{rel}: readLogParts structure not recognised")
    m = re.search(r"ccolsTo\s*:=\s*lowMask\s*if\s+(.*?)\s*\{\s*_,\s*ccolsTo\s*=\s*crackLogOffset\(finishOffset\)", body, re.S)
    if not m:
        raise h.Missing(f"{rel}: readLogParts: last-partition upper bound rule not recognised")
    cond = re.sub(r"\s+", "", m.group(1))
    base_cond = "(part==maxPart)&&(toReadCount!=istructs.ReadToTheEnd)"
    if cond == base_cond + "&&(finishOffset%partitionRecordCount!=0)":
        guard = "true"
    elif cond == base_cond:
        guard = "false"
    else:
        raise h.Missing(f"{rel}: readLogParts: unexpected last-partition condition {cond}")
    items.append(("c02_last_part_guard", "bool", guard, rel + " readLogParts: `finishOffset%partitionRecordCount != 0` in the last-partition rule"))

    rel = "pkg/istructsmem/impl.go"
    for fn in ("ReadPLog", "ReadWLog"):
        body = h.func_body(rel, r"^func \(e \*appEventsType\) " + fn + r"\(", fn)
        if not re.search(r"cTo\s*:=\s*uint16bytes\(ofsLo2\s*\+\s*1\)", body) or not re.search(r"if\s+ofsLo2\s*>=\s*lowMask\s*\{\s*cTo\s*=\s*nil", body) or \
           not re.search(r"return\s+\(err\s*==\s*nil\)\s*&&\s*\(count\s*>\s*0\),\s*err", body) or not re.search(r"switch\s+toReadCount\s*\{\s*case\s+1:", body):
            raise h.Missing(f"{rel}: {fn}: half-open sub-range read / stop-at-empty-part / count==1 structure not recognised")
    body = h.func_body(rel, r"^func \(e \*appEventsType\) PutPlog\(", "PutPlog") + h.func_body(rel, r"^func \(e \*appEventsType\) PutWlog\(", "PutWlog")
    # PutPlog: after encoding, an event that is not valid drops its argument objects and CUD rows (and the
    # original bytes when there is an unlogged argument), so the returned / cached object shows its stored form
    pp = h.func_body(rel, r"^func \(e \*appEventsType\) PutPlog\(", "PutPlog")
    m = re.search(r"evData\s*:=\s*dbEvent\.storeToBytes\(\)\n.*?\n\tif\s+!dbEvent\.valid\(\)\s*\{(.*?)\n\t\}\n", pp, re.S)
    clears = bool(m) and all(re.search(pat, m.group(1)) for pat in (
        r"dbEvent\.argObject\.clear\(\)", r"dbEvent\.argUnlObj\.clear\(\)", r"dbEvent\.cud\s*=\s*makeCUD\(",
        r"if\s+dbEvent\.argUnlObj\.QName\(\)\s*!=\s*appdef\.NullQName\s*\{\s*dbEvent\.buildErr\.bytes\s*=\s*nil"))
    if not clears and re.search(r"argObject\.clear\(\)|makeCUD\(", pp):
        raise h.Missing(f"{rel}: PutPlog: clearing of an invalid event not recognised")
    items.append(("c02_putplog_clears_invalid", "bool", "true" if clears else "false", rel + " PutPlog"))
    # PutPlog: after encoding, the rows of the argument objects lose the marks of fields that were put empty
    # (rowType.nils), which storeObject does not write
    dn = re.search(r"(\w+)\s*:=\s*func\(o \*objectType\) error\s*\{\s*o\.nils\s*=\s*nil;?\s*return nil\s*\}", pp)
    n_calls = 0
    if dn:
        n_calls = len(re.findall(r"dbEvent\.arg(?:Object|UnlObj)\.forEach\(" + dn.group(1) + r"\)", pp))
    after_enc = bool(dn) and pp.index("storeToBytes()") < dn.start()
    if dn and n_calls == 2 and after_enc:
        drops = "true"
    elif not dn and ".nils" not in pp:
        drops = "false"
    else:
        raise h.Missing(f"{rel}: PutPlog: dropping of the emptied-field marks of argument rows not recognised")
    items.append(("c02_putplog_drops_arg_nils", "bool", drops, rel + " PutPlog"))
    n_put = len(re.findall(r"QNameForCorruptedData,\s*e\.app\.seqTrustLevel\s*==\s*isequencer\.SequencesTrustLevel_2:\s*err\s*=\s*e\.app\.config\.storage\.Put\(", body))
    n_ins = len(re.findall(r"SequencesTrustLevel_0,\s*e\.app\.seqTrustLevel\s*==\s*isequencer\.SequencesTrustLevel_1:\s*ok\s*:=\s*false\s*if\s+ok,\s*err\s*=\s*e\.app\.config\.storage\.InsertIfNotExists\(", body))
    if n_put != 2 or n_ins != 2:
        raise h.Missing(f"{rel}: PutPlog/PutWlog write-mode switch not recognised")
    return items
