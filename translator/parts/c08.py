"""C08: layout of view keys (header widths, byte order, width of every fixed-size kind) and the
shape of utils.IncBytes (length-preserving carry = finding F22, or the strip-trailing-0xff successor)."""
import re

# order of the model's `kind` constructors
KINDS = ["int8", "int16", "int32", "int64", "float32", "float64", "bool", "RecordID", "QName"]
# dynobuffers field type -> utils.Write* routine reached through SafeWriteBuf(dyB.Get(..))
WRITER = {"Byte": "WriteByte", "Int16": "WriteInt16", "Int32": "WriteInt32", "Int64": "WriteInt64",
          "Float32": "WriteFloat32", "Float64": "WriteFloat64", "Bool": "WriteBool"}


def _writer_width(h, rel, fn):
    body = h.func_body(rel, r"^func %s\(buf \*bytes\.Buffer, value \w+\) \{" % fn, fn)
    m = re.search(r"\[\]byte\{([^}]*)\}", body)
    if not m:
        raise h.Missing(f"{rel}: cannot locate the byte literal written by {fn}")
    return len([x for x in m.group(1).split(",") if x.strip() != ""])


def collect(h):
    items = []
    rel = "pkg/istructsmem/viewrecords-dynobuf.go"
    body = h.func_body(rel, r"^func \(key \*keyType\) storeViewPartKey\(", "storeViewPartKey")
    m = re.search(r"utils\.WriteUint(\d+)\(buf, key\.viewID\)\s*\n\s*utils\.WriteUint(\d+)\(buf, uint64\(ws\)\)\s*\n\s*for _, f := range key\.partRow\.fields\.Fields\(\) \{\s*\n\s*utils\.SafeWriteBuf\(buf, key\.partRow\.dyB\.Get\(f\.Name\(\)\)\)", body)
    if not m:
        raise h.Missing(f"{rel}: storeViewPartKey is not `view id | wsid | partition fields in declaration order`")
    items.append(("view_id_width", "nat", str(int(m.group(1)) // 8), rel))
    items.append(("view_ws_width", "nat", str(int(m.group(2)) // 8), rel))
    body = h.func_body(rel, r"^func \(key \*keyType\) storeViewClustKey\(", "storeViewClustKey")
    if not re.search(r"for _, f := range key\.ccolsRow\.fields\.Fields\(\) \{\s*\n\s*utils\.SafeWriteBuf\(buf, key\.ccolsRow\.dyB\.Get\(f\.Name\(\)\)\)", body):
        raise h.Missing(f"{rel}: storeViewClustKey is not the concatenation of the clustering fields in declaration order")

    rel = "pkg/istructsmem/internal/utils/bytes.go"
    orders = set()
    for fn in ("WriteUint16", "WriteUint64", "WriteFloat32", "WriteFloat64"):
        orders.add(h.endianness(h.func_body(rel, r"^func %s\(" % fn, fn), fn, rel))
    for fn, hi in (("BigEndianPutInt16", 8), ("BigEndianPutInt32", 24), ("BigEndianPutInt64", 56)):
        b = h.func_body(rel, r"^func %s\(" % fn, fn)
        if re.search(r"b\[0\] = byte\(v >> %d\)" % hi, b):
            orders.add("BE")
        elif re.search(r"b\[0\] = byte\(v\)", b):
            orders.add("LE")
        else:
            raise h.Missing(f"{rel}: cannot decide the byte order of {fn}")
    if len(orders) != 1:
        raise h.Missing(f"{rel}: key field writers do not share one byte order: {sorted(orders)}")
    items.append(("view_key_endian", "endian", orders.pop(), rel))

    # kind -> dynobuffers type -> Write* routine -> number of bytes
    safe = h.func_body(rel, r"^func SafeWriteBuf\(", "SafeWriteBuf")
    rel2 = "pkg/istructsmem/internal/dynobuf/consts.go"
    widths = []
    for k in KINDS:
        if k == "QName":
            m = h.find("pkg/istructsmem/types.go", r"b := make\(\[\]byte, (\d+)\)\s*\n\s*binary\.(\w+)\.PutUint16\(b, id\)", "PutQName id bytes")
            if m.group(2) != "BigEndian":
                raise h.Missing("pkg/istructsmem/types.go: QName id in key fields is not big-endian")
            widths.append(int(m.group(1)))
            continue
        ft = h.find(rel2, r"appdef\.DataKind_%s:\s*dynobuffers\.FieldType(\w+)," % k, f"dynobuffers type of {k}").group(1)
        if ft not in WRITER:
            raise h.Missing(f"{rel2}: unexpected dynobuffers type {ft} for {k}")
        fn = WRITER[ft]
        if not re.search(r"%s\(b, v\)" % fn, safe):
            raise h.Missing(f"{rel}: SafeWriteBuf does not use {fn}")
        widths.append(_writer_width(h, rel, fn))
    items.append(("view_kind_widths", "list nat", "[" + "; ".join(str(w) for w in widths) + "]", rel + ", " + rel2))

    # IncBytes: the pinned code copies cur and increments with carry (length kept: F22); the
    # proposed repair strips trailing 0xff bytes first
    inc = h.func_body(rel, r"^func IncBytes\(", "IncBytes")
    if re.search(r"next = make\(\[\]byte, len\(cur\)\)\s*\n\s*copy\(next, cur\)\s*\n\s*incByte\(len\(cur\) - 1\)", inc):
        keeps = "true"
    elif re.search(r"next = make\(\[\]byte, n\)\s*\n\s*copy\(next, cur\[:n\]\)\s*\n\s*next\[n-1\]\+\+", inc):
        keeps = "false"
    else:
        raise h.Missing(f"{rel}: IncBytes has neither of the two known shapes")
    items.append(("view_incbytes_keeps_length", "bool", keeps, rel + " IncBytes"))

    # Read scans [cKey, IncBytes(cKey)) of one partition
    h.find("pkg/istructsmem/viewrecords-types.go", r"storage\.Read\(ctx, pKey, cKey, utils\.IncBytes\(cKey\), readRecord\)", "view Read range")
    return items
