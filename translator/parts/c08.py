"""C08: layout of view keys (header widths, byte order, width of every fixed-size kind) and the
shape of utils.IncBytes (length-preserving carry = finding F22, or the strip-trailing-0xff successor)."""
import re

# order of the model's `kind` constructors
KINDS = ["int8", "int16", "int32", "int64", "float32", "float64", "bool", "RecordID", "QName"]
# dynobuffers field type -> utils.Write* routine reached through SafeWriteBuf(dyB.Get(..))
WRITER = {"Byte": "WriteByte", "Int16": "WriteInt16", "Int32": "WriteInt32", "Int64": "WriteInt64",
          "Float32": "WriteFloat32", "Float64": "WriteFloat64", "Bool": "WriteBool"}


def _writer_width(h, rel, fn):
    body = h.func_body(rel, r"^func %s\(buf \*bytes\.Buffer, value \w+\) \{" % fn, fn)
    m = re.search(r"\[\]byte\{([^}]*)\}", body)
    if not m:
        raise h.Missing(f"{rel}: cannot locate the byte literal written by {fn}")
    return len([x for x in m.group(1).split(",") if x.strip() != ""])


def collect(h):
    items = []
    rel = "pkg/istructsmem/viewrecords-dynobuf.go"
    body = h.func_body(rel, r"^func \(key \*keyType\) storeViewPartKey\(", "storeViewPartKey")
    m = re.search(r"utils\.WriteUint(\d+)\(buf, key\.viewID\)\s*\n\s*utils\.WriteUint(\d+)\(buf, uint64\(ws\)\)\s*\n\s*for _, f := range key\.partRow\.fields\.Fields\(\) \{\s*\n\s*utils\.SafeWriteBuf\(buf, key\.partRow\.dyB\.Get\(f\.Name\(\)\)\)", body)
    if not m:
        raise h.Missing(f"{rel}: storeViewPartKey is not `view id | wsid | partition fields in declaration order`")
    items.append(("view_id_width", "nat", str(int(m.group(1)) // 8), rel))
    items.append(("view_ws_width", "nat", str(int(m.group(2)) // 8), rel))
    body = h.func_body(rel, r"^func \(key \*keyType\) storeViewClustKey\(", "storeViewClustKey")
    if not re.search(r"for _, f := range key\.ccolsRow\.fields\.Fields\(\) \{\s*\n\s*utils\.SafeWriteBuf\(buf, key\.ccolsRow\.dyB\.Get\(f\.Name\(\)\)\)", body):
        raise h.Missing(f"{rel}: storeViewClustKey is not the concatenation of the clustering fields in declaration order")

    rel = "pkg/istructsmem/internal/utils/bytes.go"
    orders = set()
    for fn in ("WriteUint16", "WriteUint64", "WriteFloat32", "WriteFloat64"):
        orders.add(h.endianness(h.func_body(rel, r"^func %s\(" % fn, fn), fn, rel))
    for fn, hi in (("BigEndianPutInt16", 8), ("BigEndianPutInt32", 24), ("BigEndianPutInt64", 56)):
        b = h.func_body(rel, r"^func %s\(" % fn, fn)
        if re.search(r"b\[0\] = byte\(v >> %d\)" % hi, b):
            orders.add("BE")
        elif re.search(r"b\[0\] = byte\(v\)", b):
            orders.add("LE")
        else:
            raise h.Missing(f"{rel}: cannot decide the byte order of {fn}")
    if len(orders) != 1:
        raise h.Missing(f"{rel}: key field writers do not share one byte order: {sorted(orders)}")
    items.append(("view_key_endian", "endian", orders.pop(), rel))

    # kind -> dynobuffers type -> Write* routine -> number of bytes
    safe = h.func_body(rel, r"^func SafeWriteBuf\(", "SafeWriteBuf")
    rel2 = "pkg/istructsmem/internal/dynobuf/consts.go"
    widths = []
    for k in KINDS:
        if k == "QName":
            m = h.find("pkg/istructsmem/types.go", r"b := make\(\[\]byte, (\d+)\)\s*\n\s*binary\.(\w+)\.PutUint16\(b, id\)", "PutQName id bytes")
            if m.group(2) != "BigEndian":
                raise h.Missing("pkg/istructsmem/types.go: QName id in key fields is not big-endian")
            widths.append(int(m.group(1)))
            continue
        ft = h.find(rel2, r"appdef\.DataKind_%s:\s*dynobuffers\.FieldType(\w+)," % k, f"dynobuffers type of {k}").group(1)
        if ft not in WRITER:
            raise h.Missing(f"{rel2}: unexpected dynobuffers type {ft} for {k}")
        fn = WRITER[ft]
        if not re.search(r"%s\(b, v\)" % fn, safe):
            raise h.Missing(f"{rel}: SafeWriteBuf does not use {fn}")
        widths.append(_writer_width(h, rel, fn))
    items.append(("view_kind_widths", "list nat", "[" + "; ".join(str(w) for w in widths) + "]", rel + ", " + rel2))

    # upper bound of the range Read scans for a (partial) key: the code used utils.IncBytes
    # (copy + increment with carry, the length is kept: finding F22); the fix (5350d42ca) calls a
    # successor that strips trailing 0xff bytes first
    m = h.find("pkg/istructsmem/viewrecords-types.go",
               r"storage\.Read\(ctx, pKey, cKey, utils\.(\w+)\(cKey\), readRecord\)", "view Read range")
    fn = m.group(1)
    body = h.func_body(rel, r"^func %s\(" % fn, fn)
    if fn == "IncBytes" and re.search(r"next = make\(\[\]byte, len\(cur\)\)\s*\n\s*copy\(next, cur\)\s*\n\s*incByte\(len\(cur\) - 1\)", body) \
            and re.search(r"if FullBytes\(cur\) \{\s*\n\s*return nil", body):
        keeps = "true"
    elif re.search(r"n := len\((\w+)\)\s*\n\s*for n > 0 && \1\[n-1\] == math\.MaxUint8 \{\s*\n\s*n--\s*\n\s*\}\s*\n\s*if n == 0 \{\s*\n\s*return nil\s*\n\s*\}\s*\n"
                   r"\s*next = make\(\[\]byte, n\)\s*\n\s*copy\(next, \1\[:n\]\)\s*\n\s*next\[n-1\]\+\+\s*\n\s*return next", body):
        keeps = "false"
    else:
        raise h.Missing(f"{rel}: the upper bound utils.{fn} of the view Read range has neither of the two known shapes")
    items.append(("view_incbytes_keeps_length", "bool", keeps, rel + " " + fn + " (upper bound of the view Read range)"))
    # limits of a string/bytes field: the harness gives some trailing columns MaxLen 1024 and the largest allowed
    rel3 = "pkg/appdef/consts.go"
    def _u16(txt):
        txt = txt.strip()
        m = re.fullmatch(r"uint16\((.+)\)", txt)
        if m:
            txt = m.group(1).strip()
        return 65535 if txt == "math.MaxUint16" else h.go_int(txt)
    items.append(("view_max_field_len", "N", str(_u16(h.find(rel3, r"^const MaxFieldLength\s*=\s*(.+)$", "MaxFieldLength").group(1))), rel3))
    items.append(("view_default_field_len", "N", str(_u16(h.find(rel3, r"^const DefaultFieldMaxLength\s*=\s*(.+)$", "DefaultFieldMaxLength").group(1))), rel3))
    return items
