"""C05: the trust-level -> storage-operation decision tables of pkg/istructsmem/impl.go.

Extracted from the `switch { case ...: }` arms of PutPlog, PutWlog and putRecordsBatch as the code
has them now (Go semantics: the first arm with a true condition wins), plus the operation the
event re-applier uses for the workspace log and the numbering of the trust levels.

Operation codes: 0 = plain Put / PutBatch (overwrites), 1 = InsertIfNotExists whose refusal is
answered with ErrSequencesViolation (for records: per record, new records only, updates Put),
2 = no arm matches (the `default: panic`).
"""
import re


def _switch_arms(h, rel, body, what):
    """[(conditions text, arm body)] of the first expressionless `switch {` in body, in source order"""
    m = re.search(r"\bswitch\s*\{", body)
    if not m:
        raise h.Missing(f"{rel}: no `switch {{` in {what}")
    i = m.end() - 1
    depth, j = 0, i
    while j < len(body):
        if body[j] == "{":
            depth += 1
        elif body[j] == "}":
            depth -= 1
            if depth == 0:
                break
        j += 1
    if depth != 0:
        raise h.Missing(f"{rel}: unbalanced switch in {what}")
    sw = body[i + 1:j]
    # top-level `case ...:` / `default:` labels (depth 0 inside the switch)
    labels = []
    depth = 0
    for mm in re.finditer(r"[{}]|^\s*(case\b[^\n]*:|default\s*:)\s*$", sw, re.M):
        t = mm.group(0)
        if t == "{":
            depth += 1
        elif t == "}":
            depth -= 1
        elif depth == 0:
            labels.append((mm.start(), mm.end(), mm.group(1)))
    if not labels:
        raise h.Missing(f"{rel}: no case arms in the switch of {what}")
    arms = []
    for n, (s, e, lab) in enumerate(labels):
        end = labels[n + 1][0] if n + 1 < len(labels) else len(sw)
        arms.append((lab, sw[e:end]))
    return arms


# the two shapes in which a refused conditional insert becomes ErrSequencesViolation: an early return out of the
# function, or an assignment to err that leaves through the function's normal exit
_REFUSAL_RETURNS = r"if\s+!ok\s*\{\s*return\s+(nil,\s*)?ErrSequencesViolation\s*\}"
_REFUSAL_FALLS_THROUGH = r"err\s*==\s*nil\s*&&\s*!ok\s*\{\s*err\s*=\s*ErrSequencesViolation\s*\}|if\s+!ok\s*\{\s*err\s*=\s*ErrSequencesViolation\s*\}"


def _stored_marks(h, rel):
    """PutPlog sets dbEvent.isStored - the only thing GetEventReapplier looks at.  For which unsuccessful
    outcomes is it set?  (refused: the conditional insert answered "exists"; failed: the storage call returned
    an error).  The statement after the switch runs for a refusal only when the refusal does not return early,
    and for a storage error unless it sits inside `if err == nil {`."""
    body = h.func_body(rel, r"^func \(e \*appEventsType\) PutPlog\(", "PutPlog")
    if len(re.findall(r"\.isStored\s*=\s*true", body)) != 1 or len(re.findall(r"\.isStored\s*=", h.src(rel))) != 1:
        raise h.Missing(f"{rel}: PutPlog: isStored is not set exactly once")
    m = re.search(r"\bswitch\s*\{", body)
    i = m.end() - 1
    depth, j = 0, i
    while j < len(body):
        if body[j] == "{":
            depth += 1
        elif body[j] == "}":
            depth -= 1
            if depth == 0:
                break
        j += 1
    sw, tail = body[i:j + 1], body[j + 1:]
    if "isStored" in sw or "isStored" not in tail:
        raise h.Missing(f"{rel}: PutPlog: isStored is not set after the switch")
    guarded = re.search(r"if\s+err\s*==\s*nil\s*\{[^{}]*\.isStored\s*=\s*true", tail) is not None
    if not guarded and not re.search(r"^\s*dbEvent\.isStored\s*=\s*true\s*$", tail, re.M):
        raise h.Missing(f"{rel}: PutPlog: cannot interpret the condition under which isStored is set")
    early = re.search(_REFUSAL_RETURNS, sw) is not None
    through = re.search(_REFUSAL_FALLS_THROUGH, sw) is not None
    if early == through:
        raise h.Missing(f"{rel}: PutPlog: cannot tell whether a refusal returns early")
    refused = through and not guarded
    failed = not guarded
    return refused, failed


def _log_op(h, rel, arm_body, what):
    ins = "storage.InsertIfNotExists(" in arm_body
    put = re.search(r"storage\.Put\(", arm_body) is not None
    if ins and not put:
        if not (re.search(_REFUSAL_RETURNS, arm_body) or re.search(_REFUSAL_FALLS_THROUGH, arm_body)):
            raise h.Missing(f"{rel}: {what}: InsertIfNotExists arm does not answer a refusal with ErrSequencesViolation")
        return 1
    if put and not ins:
        return 0
    raise h.Missing(f"{rel}: {what}: cannot classify the storage operation of an arm")


def _rec_op(h, rel, arm_body, what):
    if "storage.PutBatch(" in arm_body and "InsertIfNotExists" not in arm_body:
        return 0
    if re.search(r"if\s+r\.isNew\s*\{[^{}]*storage\.InsertIfNotExists\(", arm_body) and \
            re.search(r"\}\s*else\s*\{[^{}]*storage\.Put\(", arm_body) and \
            re.search(r"if\s+!ok\s*\{\s*return\s+ErrSequencesViolation\s*\}", arm_body):
        return 1
    raise h.Missing(f"{rel}: {what}: cannot classify the storage operation of an arm")


def _check_conditions(h, rel, what, arms, flag_pat):
    """every condition of every arm is a trust-level test or the arm's one known flag (sys.Corrupted name /
    isReapply): the tables have no other input, so anything else (the event's offsets, its size, ...) means
    the model no longer describes the decision - a hard error"""
    level = r"(e|recs)\.app\.seqTrustLevel\s*==\s*isequencer\.SequencesTrustLevel_\d"
    for lab, _ in arms:
        if lab.startswith("default"):
            continue
        for cond in lab[len("case"):].rstrip().rstrip(":").split(","):
            c = cond.strip()
            if not (re.fullmatch(level, c) or re.fullmatch(flag_pat, c)):
                raise h.Missing(f"{rel}: {what}: switch arm depends on `{c}` - not a trust level or the known flag")


def _table(arms, classify, flag_pat, flag):
    """operation code per trust level 0..2 when the arm-selecting flag (corrupted / isReapply) has the given value"""
    out = []
    for level in range(3):
        code = 2
        for lab, body in arms:
            if lab.startswith("default"):
                continue
            levels = [int(x) for x in re.findall(r"SequencesTrustLevel_(\d)", lab)]
            if (flag and re.search(flag_pat, lab)) or level in levels:
                code = classify(body)
                break
        out.append(code)
    return "[" + "; ".join(f"{c}%N" for c in out) + "]"


# record kinds of the model (C05_SeqTrust/Model.v): 1 CDoc, 2 singleton CDoc, 3 WDoc, 4 singleton WDoc,
# 5 CRecord, 6 WRecord (0 = log row)
_KINDS_OF_TYPEKIND = {"CDoc": [1, 2], "WDoc": [3, 4], "CRecord": [5], "WRecord": [6]}
_SINGLETON_KINDS = [2, 4]


def _store_put_kinds(h, rel):
    """Which record kinds does apply2's `store` closure hand to putRecordsBatch as "not new" although the
    CUD says new?  The batch item must be built from rec.isNew; the only deviations this parser
    understands are `if <singleton test | rec.typ.Kind() == appdef.TypeKind_X> { v = false }` on a copy of
    rec.isNew.  Anything else that touches the flag is a hard error (correspondence broken)."""
    body = h.func_body(rel, r"^func \(recs \*appRecordsType\) apply2\(", "apply2")
    m = re.search(r"store\s*:=\s*func\(rec \*recordType\) error\s*\{", body)
    if not m:
        raise h.Missing(f"{rel}: apply2: `store` closure not found")
    i = m.end() - 1
    depth, j = 0, i
    while j < len(body):
        if body[j] == "{":
            depth += 1
        elif body[j] == "}":
            depth -= 1
            if depth == 0:
                break
        j += 1
    clo = body[i + 1:j]
    app = re.search(r"batch\s*=\s*append\(batch,\s*recordBatchItemType\{\s*rec\.ID\(\),\s*data,\s*([\w.]+)\s*\}\)", clo)
    if not app:
        raise h.Missing(f"{rel}: apply2.store: batch item is not recordBatchItemType{{rec.ID(), data, <flag>}}")
    flag = app.group(1)
    if flag == "rec.isNew":
        if len(re.findall(r"isNew", clo)) != 1:
            raise h.Missing(f"{rel}: apply2.store: isNew is mentioned outside the batch item")
        return []
    if not re.search(r"\b%s\s*:=\s*rec\.isNew\b" % re.escape(flag), clo):
        raise h.Missing(f"{rel}: apply2.store: batch flag `{flag}` is not a copy of rec.isNew")
    kinds = set()
    rest = clo
    for blk in re.finditer(r"if\s+([^{}]*?)\{([^{}]*)\}", clo):
        cond, inner = blk.group(1), blk.group(2)
        if not re.search(r"\b%s\s*=" % re.escape(flag), inner):
            continue
        if not re.fullmatch(r"\s*(//[^\n]*\n\s*)*%s\s*=\s*false\s*" % re.escape(flag), inner):
            raise h.Missing(f"{rel}: apply2.store: cannot interpret an assignment to `{flag}`")
        tk = re.findall(r"\.Kind\(\)\s*==\s*appdef\.TypeKind_(\w+)", cond)
        if "ISingleton" in cond and "Singleton()" in cond and "!" not in cond and not tk:
            kinds.update(_SINGLETON_KINDS)
        elif tk and "!" not in cond and "&&" not in cond and all(t in _KINDS_OF_TYPEKIND for t in tk):
            for t in tk:
                kinds.update(_KINDS_OF_TYPEKIND[t])
        else:
            raise h.Missing(f"{rel}: apply2.store: cannot interpret the condition `{cond.strip()}` under which `{flag}` is cleared")
        rest = rest.replace(blk.group(0), "")
    if len(re.findall(r"\b%s\s*=[^=]" % re.escape(flag), rest)) != 0 or not kinds:
        raise h.Missing(f"{rel}: apply2.store: cannot interpret how `{flag}` is computed")
    return sorted(kinds)


def collect(h):
    items = []
    rel = "pkg/isequencer/consts.go"
    blk = h.find(rel, r"const\s*\(\s*(?://[^\n]*\n\s*)*SequencesTrustLevel_0\s+SequencesTrustLevel\s*=\s*iota(.*?)\)", "trust level constants", flags=re.S)
    names = ["SequencesTrustLevel_0"] + re.findall(r"^\s*(SequencesTrustLevel_\d)\s*$", blk.group(1), re.M)
    items.append(("c05_trust_levels", "list N", "[" + "; ".join(n[-1] + "%N" for n in names) + "]", rel + " (iota order)"))

    rel = "pkg/istructsmem/impl.go"
    for fn, key, corr in (("PutPlog", "plog", r"dbEvent\.name\s*==\s*istructs\.QNameForCorruptedData"),
                          ("PutWlog", "wlog", r"ev\.QName\(\)\s*==\s*istructs\.QNameForCorruptedData")):
        body = h.func_body(rel, r"^func \(e \*appEventsType\) %s\(" % fn, fn)
        arms = _switch_arms(h, rel, body, fn)
        _check_conditions(h, rel, fn, arms, corr)
        cl = lambda b, fn=fn: _log_op(h, rel, b, fn)  # noqa: E731
        items.append((f"c05_{key}_ops", "list N", _table(arms, cl, corr, False), f"{rel} {fn}: switch arms, ordinary events"))
        if key == "wlog":
            wlog_table_codes = [int(x) for x in re.findall(r"(\d)%N", _table(arms, cl, corr, False))]
        items.append((f"c05_{key}_corrupted_ops", "list N", _table(arms, cl, corr, True), f"{rel} {fn}: switch arms, sys.Corrupted events"))
    body = h.func_body(rel, r"^func \(recs \*appRecordsType\) putRecordsBatch\(", "putRecordsBatch")
    arms = _switch_arms(h, rel, body, "putRecordsBatch")
    _check_conditions(h, rel, "putRecordsBatch", arms, r"\bisReapply\b")
    cl = lambda b: _rec_op(h, rel, b, "putRecordsBatch")  # noqa: E731
    items.append(("c05_rec_ops", "list N", _table(arms, cl, r"\bisReapply\b", False), f"{rel} putRecordsBatch: switch arms, Apply"))
    items.append(("c05_rec_reapply_ops", "list N", _table(arms, cl, r"\bisReapply\b", True), f"{rel} putRecordsBatch: switch arms, re-apply"))
    # apply2 hands its isReapply argument through; ApplyRecords passes true, Apply2 false
    h.find(rel, r"func \(er \*implIEventReapplier\) ApplyRecords\(\) error \{\s*return er\.app\.records\.apply2\(er\.plogEvent, nil, true\)", "ApplyRecords -> apply2(..., true)")
    h.find(rel, r"return recs\.apply2\(event, cb, false\)", "Apply2 -> apply2(..., false)")
    # the re-applier's WLog write: a direct storage.Put, or the regular PutWlog under a RAISED trust level.  The level
    # is a field of the app structs all partitions share, so the second shape opens a window in which every other
    # write of the application runs fully trusted (flag c05_reapply_wlog_raises_level)
    body = h.func_body(rel, r"^func \(er \*implIEventReapplier\) PutWLog\(", "implIEventReapplier.PutWLog")
    n_level_writes = len(re.findall(r"seqTrustLevel\s*=[^=]", h.src(rel)))
    if re.search(r"er\.app\.seqTrustLevel\s*=\s*isequencer\.SequencesTrustLevel_2", body) and re.search(r"er\.app\.events\.PutWlog\(er\.plogEvent\)", body) \
            and "storage." not in body:
        if n_level_writes != len(re.findall(r"seqTrustLevel\s*=[^=]", body)):
            raise h.Missing(f"{rel}: seqTrustLevel is assigned outside implIEventReapplier.PutWLog")
        raises, rw_op = True, wlog_table_codes[2]
    else:
        if n_level_writes != 0:
            raise h.Missing(f"{rel}: seqTrustLevel is assigned after construction")
        raises, rw_op = False, _log_op(h, rel, body, "implIEventReapplier.PutWLog")
    items.append(("c05_reapply_wlog_op", "N", str(rw_op), f"{rel} implIEventReapplier.PutWLog"))
    items.append(("c05_reapply_wlog_raises_level", "bool", "true" if raises else "false", f"{rel} implIEventReapplier.PutWLog: writes through PutWlog under a raised shared trust level"))
    # apply2 / applyRecs: is the stored record of an update read before the batch is written always, or only for
    # an event that was read back from the log (empty origin)?
    et = "pkg/istructsmem/event-types.go"
    ar = h.func_body(et, r"^func \(cud \*cudType\) applyRecs\(", "applyRecs")
    if not re.search(r"load\(&rec\.originRec\)", ar):
        raise h.Missing(f"{et}: applyRecs: the origin of an update is not loaded")
    only_empty = re.search(r"if\s+rec\.originRec\.empty\(\)\s*\{[^{}]*(\{[^{}]*\}[^{}]*)*load\(&rec\.originRec\)", ar) is not None
    items.append(("c05_updates_always_load", "bool", "false" if only_empty else "true", f"{et} applyRecs: the stored record of every update is read first"))
    # which unsuccessful PutPlog outcomes leave the event marked as stored (= acceptable to GetEventReapplier)
    refused, failed = _stored_marks(h, rel)
    h.find(rel, r"func \(app \*appStructsType\) GetEventReapplier\(plogEvent istructs\.IPLogEvent\) istructs\.IEventReapplier \{\s*if !plogEvent\.\(\*eventType\)\.isStored \{\s*panic\(",
           "GetEventReapplier panics unless isStored")
    items.append(("c05_refused_plog_marks_stored", "bool", "true" if refused else "false", f"{rel} PutPlog: isStored after a refused conditional insert"))
    items.append(("c05_failed_plog_marks_stored", "bool", "true" if failed else "false", f"{rel} PutPlog: isStored after a failed storage call"))
    # the insert-vs-put flag of every batch row: where it comes from
    items.append(("c05_store_put_kinds", "list N", "[" + "; ".join(f"{k}%N" for k in _store_put_kinds(h, rel)) + "]",
                  f"{rel} apply2: store closure (record kinds whose creates are handed on as not-new)"))
    h.find(rel, r"type recordBatchItemType struct \{\s*id\s+istructs\.RecordID\s*data\s+\[\]byte\s*isNew\s+bool\s*\}", "recordBatchItemType{id, data, isNew}")
    # rec.isNew is set unconditionally for every created row, built (ICUD.Create) or loaded (loadEventCUDs)
    h.find("pkg/istructsmem/event-types.go", r"func \(cud \*cudType\) Create\(qName appdef\.QName\) istructs\.IRowWriter \{\s*rec := newRecord\(cud\.appCfg\)\s*rec\.isNew = true\s*rec\.setQName\(qName\)",
           "cudType.Create sets rec.isNew = true unconditionally")
    h.find("pkg/istructsmem/event-dynobuf.go", r"for ; count > 0; count-- \{\s*rec := newRecord\(ev\.cud\.appCfg\)\s*rec\.isNew = true\s*if err := loadEventCUD\(rec,",
           "loadEventCUDs sets rec.isNew = true unconditionally for created rows")
    # ICUD.Update(record): newUpdateRec copies the given record object, including its isNew flag
    # (recordType.copyFrom), into the origin and from there into the result row that is stored.  A record
    # object handed out for a created row (Apply2 callback) has isNew == true, so its update is stored through
    # the insert path.  true = the flag is inherited (the code as found); false = newUpdateRec resets it.
    et = "pkg/istructsmem/event-types.go"
    nur = h.func_body(et, r"^func newUpdateRec\(", "newUpdateRec")
    if not re.search(r"upd\.originRec\.copyFrom\(rec\.\(\*recordType\)\)", nur) or not re.search(r"upd\.result\.copyFrom\(&upd\.originRec\)", nur):
        raise h.Missing(f"{et}: newUpdateRec: origin/result are not copies of the given record")
    copies = re.search(r"func \(rec \*recordType\) copyFrom\(src \*recordType\) \{[^}]*rec\.isNew = src\.isNew", h.src("pkg/istructsmem/tables-types.go")) is not None
    resets = len(re.findall(r"upd\.originRec\.isNew\s*=\s*false", nur))
    if resets > 1 or (resets == 1 and not re.search(r"copyFrom\(rec\.\(\*recordType\)\)\s*(//[^\n]*\n\s*)*upd\.originRec\.isNew\s*=\s*false", nur)):
        raise h.Missing(f"{et}: newUpdateRec: cannot interpret how isNew of the origin is set")
    items.append(("c05_update_inherits_isnew", "bool", "true" if (copies and resets == 0) else "false",
                  f"{et} newUpdateRec / tables-types.go copyFrom: the update row inherits isNew of the record object given to ICUD.Update"))
    n_assign = len(re.findall(r"\.isNew\s*=[^=]", h.src(et) + h.src("pkg/istructsmem/event-dynobuf.go") + h.src(rel)))
    if n_assign != 2 + resets:
        raise h.Missing("pkg/istructsmem: rec.isNew is assigned somewhere else than ICUD.Create, loadEventCUDs (and the reset in newUpdateRec)")
    # time-to-live handed to InsertIfNotExists by the three writers (0 = rows never expire)
    ttls = set(re.findall(r"storage\.InsertIfNotExists\(pKey, cCols, [\w.]+, (\d+)\)", h.src(rel)))
    if len(ttls) != 1:
        raise h.Missing(f"{rel}: InsertIfNotExists calls do not share one literal ttl: {sorted(ttls)}")
    items.append(("c05_insert_ttl", "Z", ttls.pop(), f"{rel} InsertIfNotExists ttl argument"))
    return items
