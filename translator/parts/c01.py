"""C01: shape of the command processor's write pipeline (pkg/processors/command) the model mirrors.
One value: does cmdProc.putPLog hand the error of PutPlog to the pipeline (`return err`) or swallow
it (`return nil`, finding F11, repaired in ee5a67b65); and: does the flush loop of the sync actualizer
(syncActualizerFactory, step "IntentsApplier") stop at the first failing ApplyIntents.  Everything else is
anchors only: a change of shape is a hard error."""
import re


def collect(h):
    rel = "pkg/processors/command/impl.go"
    body = h.func_body(rel, r"^func \(cmdProc \*cmdProc\) putPLog\(", "cmdProc.putPLog")
    if not re.search(r"cmd\.pLogEvent,\s*err\s*=\s*cmd\.appStructs\.Events\(\)\.PutPlog\(", body):
        raise h.Missing(f"{rel}: putPLog no longer assigns (cmd.pLogEvent, err) from Events().PutPlog")
    if not re.search(r"err\s*!=\s*nil\s*\{\s*cmd\.appPartitionRestartScheduled\s*=\s*true", body):
        raise h.Missing(f"{rel}: putPLog no longer schedules the partition restart on error")
    if not re.search(r"else\s*\{\s*cmd\.appPartition\.nextPLogOffset\+\+", body):
        raise h.Missing(f"{rel}: putPLog no longer bumps nextPLogOffset on success only")
    rets = re.findall(r"^\s*return\b\s*(.*?)\s*$", body, re.M)
    if not rets:
        raise h.Missing(f"{rel}: putPLog has no return statement")
    last = rets[-1]
    if last in ("err", ""):      # named result `err`: a bare return hands it on too
        returns_err = True
    elif last == "nil":
        returns_err = False
    else:
        raise h.Missing(f"{rel}: cannot decide what putPLog returns ({last!r})")
    # recovery: full scan, then the last event through the re-applier and the same store operator
    rec = h.func_body(rel, r"^func \(cmdProc \*cmdProc\) recovery\(", "cmdProc.recovery")
    for pat, what in [
        (r"ReadPLog\(ctx,\s*cmd\.cmdMes\.PartitionID\(\),\s*istructs\.FirstOffset,\s*istructs\.ReadToTheEnd", "full PLog scan"),
        (r"ws\.NextWLogOffset\s*=\s*event\.WLogOffset\(\)\s*\+\s*1", "NextWLogOffset rebuild"),
        (r"ap\.nextPLogOffset\s*=\s*plogOffset\s*\+\s*1", "nextPLogOffset rebuild"),
        (r"cmd\.reapplier\s*=\s*cmd\.appStructs\.GetEventReapplier\(cmd\.pLogEvent\)", "re-applier of the last event"),
        (r"cmdProc\.storeOp\.DoSync\(ctx,\s*cmd\)", "store operator in recovery"),
    ]:
        if not re.search(pat, rec):
            raise h.Missing(f"{rel}: recovery: cannot locate {what}")
    rel2 = "pkg/processors/command/provide.go"
    src = h.src(rel2)
    i1, i2, i3, i4 = (src.find(x) for x in ('"applyRecords"', '"syncProjectorsAndPutWLog"', 'WireFunc("putPLog"', 'WireFunc("store"'))
    if min(i1, i2, i3, i4) < 0 or not (i1 < i2 and i3 < i4):
        raise h.Missing(f"{rel2}: pipeline order putPLog -> store(applyRecords -> fork) changed")
    h.find(rel2, r"if cmd\.appPartitionRestartScheduled \{[^}]*delete\(cmdProc\.appsPartitions,", "partition drop after a failed write", flags=re.S)
    # sync actualizer: the projectors' intents are flushed one state after the other; does the loop
    # stop at the first failing ApplyIntents?
    rel3 = "pkg/processors/actualizers/impl.go"
    flush = h.func_body(rel3, r'pipeline\.WireFunc\("IntentsApplier",\s*func\([^)]*\)\s*\(err error\)\s*\{', "IntentsApplier step of syncActualizerFactory")
    m = re.search(r"for\s+_,\s*st\s*:=\s*range\s+ss\s*\{", flush)
    if not m:
        raise h.Missing(f"{rel3}: IntentsApplier no longer loops over the projector states ss")
    depth, j = 0, None
    for i in range(m.end() - 1, len(flush)):
        if flush[i] == "{":
            depth += 1
        elif flush[i] == "}":
            depth -= 1
            if depth == 0:
                j = i
                break
    if j is None:
        raise h.Missing(f"{rel3}: unbalanced braces in the IntentsApplier loop")
    loop = flush[m.end():j]
    if not re.search(r"st\.ApplyIntents\(\)", loop):
        raise h.Missing(f"{rel3}: the IntentsApplier loop no longer calls st.ApplyIntents()")
    if re.search(r"err\s*!=\s*nil\s*\{\s*return\s+err\s*\}", loop):
        stops = True
    elif not re.search(r"\b(return|break|goto|continue)\b", loop) and re.search(r"\berr\s*=\s*st\.ApplyIntents\(\)", loop):
        stops = False      # every state is flushed, err is overwritten: the last state's error is returned
    else:
        raise h.Missing(f"{rel3}: cannot decide whether the IntentsApplier loop stops at the first error")
    h.find(rel3, r"ss\s*=\s*append\(ss,\s*s\)", "one state per sync projector")
    # re-apply and AFTER DEACTIVATE projectors: ProjectorEvent asks ICUDRow.IsDeactivated(), which needs
    # rowType.isActiveModified; is that flag restored when an event is decoded from the PLog?
    import os
    h.find("pkg/processors/actualizers/types.go", r"if rec\.IsDeactivated\(\) \{\s*if prj\.Triggers\(appdef\.OperationKind_Deactivate, t\)", "ProjectorEvent: AFTER DEACTIVATE trigger")
    h.find("pkg/istructsmem/tables-types.go", r"func \(rec \*recordType\) IsDeactivated\(\) bool \{\s*return !rec\.isNew && rec\.isActiveModified && !rec\.isActive", "recordType.IsDeactivated")
    setters = []
    d = os.path.join(h.REPO, "pkg/istructsmem")
    for fn in sorted(os.listdir(d)):
        if not fn.endswith(".go") or fn.endswith("_test.go"):
            continue
        txt = h.src("pkg/istructsmem/" + fn)
        for m in re.finditer(r"\.isActiveModified\s*=(?!=)\s*([^\n]*)", txt):
            if m.group(1).strip() == "false":
                continue
            heads = re.findall(r"^func (?:\([^)]*\)\s*)?(\w+)\(", txt[:m.start()], re.M)
            setters.append((fn, heads[-1] if heads else "?"))
    if not setters:
        raise h.Missing("pkg/istructsmem: nothing sets isActiveModified any more")
    decoders = [x for x in setters if re.search(r"(?i)load|decode|frombytes|read", x[1])]
    others = [x for x in setters if x not in decoders and x[1] != "PutBool"]
    if others:
        raise h.Missing(f"pkg/istructsmem: isActiveModified is set in unexpected places {others}")
    restores = bool(decoders)
    if restores:
        # the decoder can only restore what the encoder wrote: the mask bit set from the flag
        enc = h.func_body("pkg/istructsmem/types-dynobuf.go", r"^func storeRowSysFields\(", "storeRowSysFields")
        if not re.search(r"if row\.isActiveModified \{\s*sysFieldMask \|= sfm_IsActiveModified", enc):
            raise h.Missing("pkg/istructsmem/types-dynobuf.go: the decoder restores isActiveModified but storeRowSysFields does not write sfm_IsActiveModified")
    return [("c01_decode_restores_active_modified", "bool", "true" if restores else "false", "pkg/istructsmem (setters of rowType.isActiveModified: %s)" % ", ".join(f"{a}:{b}" for a, b in setters)),
            ("c01_putplog_returns_err", "bool", "true" if returns_err else "false", rel + " cmdProc.putPLog"),
            ("c01_sync_flush_stops_at_error", "bool", "true" if stops else "false", rel3 + " syncActualizerFactory IntentsApplier")]
