"""C07: decisions of pkg/istoragecache/impl.go the cache model follows."""
import re


def collect(h):
    rel = "pkg/istoragecache/impl.go"
    items = []
    body = h.func_body(rel, r"^func makeKey\(", "makeKey")
    if not (re.search(r"append\(res,\s*pKey\.\.\.\)", body) and re.search(r"append\(res,\s*cCols\.\.\.\)", body)) \
            or len(re.findall(r"append\(", body)) != 2:
        raise h.Missing(f"{rel}: makeKey is no longer the plain concatenation pKey ++ cCols; update C07_Cache/Model.v make_key")

    body = h.func_body(rel, r"^func \(s \*cachedAppStorage\) Get\(", "cache Get")
    m = re.search(r"if ok \{(.*?)\} else \{", body, re.S)
    if not m:
        raise h.Missing(f"{rel}: cannot locate the positive fill branch of Get")
    items.append(("cache_positive_fill_guarded", "bool", "true" if "alreadyCached" in m.group(1) else "false", rel + " Get: positive fill"))

    body = h.func_body(rel, r"^func \(s \*cachedAppStorage\) TTLGet\(", "cache TTLGet")
    m = re.search(r"if err == nil && !ok \{(.*?)\n\t\}", body, re.S)
    if not m:
        raise h.Missing(f"{rel}: cannot locate the negative fill of TTLGet")
    blk = m.group(1)
    guarded = bool(re.search(r"alreadyCached\s*:=\s*s\.cache\.HasGet\(", blk) and re.search(r"if\s+!alreadyCached", blk))
    items.append(("cache_ttlget_negative_fill_guarded", "bool", "true" if guarded else "false", rel + " TTLGet: negative fill"))

    body = h.func_body(rel, r"^func \(s \*cachedAppStorage\) getBatchFromStorage\(", "cache getBatchFromStorage")
    # guarded when the already-cached test precedes (covers) the positive Set
    pos_set = body.find("d.ToBytes()")
    guard = body.find("alreadyCached")
    if pos_set < 0 or guard < 0:
        raise h.Missing(f"{rel}: cannot locate the fills of getBatchFromStorage")
    items.append(("cache_batch_fill_guarded", "bool", "true" if guard < pos_set else "false", rel + " getBatchFromStorage: positive fill"))
    body = h.func_body(rel, r"^func \(s \*cachedAppStorage\) CompareAndDelete\(", "cache CompareAndDelete")
    m = re.search(r"if ok \{(.*?)\n\t\}", body, re.S)
    if not m:
        raise h.Missing(f"{rel}: cannot locate the cache update of CompareAndDelete")
    blk = m.group(1)
    # "known missing" is stored directly, or (since the repair of F26b) through setAbsent
    marker = bool(re.search(r"s\.cache\.Set\(makeKey\(pKey,\s*cCols\),\s*nil\)", blk)
                  or re.search(r"s\.setAbsent\(makeKey\(pKey,\s*cCols\)\)", blk))
    drops = bool(re.search(r"s\.cache\.Del\(makeKey\(pKey,\s*cCols\)\)", blk))
    if marker == drops:
        raise h.Missing(f"{rel}: CompareAndDelete neither drops the cache entry nor caches the absence; update C07_Cache/Model.v")
    items.append(("cache_delete_leaves_marker", "bool", "true" if marker else "false", rel + " CompareAndDelete: cache update after a successful delete"))
    items += big_values(h, rel)
    items.append(expired_branch(h, rel))
    items += provider_handles(h, rel)
    items.append(write_errors(h, rel))
    return items


def provider_handles(h, rel):
    """does the caching provider hand out ONE caching storage per app: is there a per-app map that AppStorage looks
    up and stores into (else: a new cache on every call, the code before the repair of C07-HANDLES), and is its
    mutex held from the lookup to the store (else two overlapping first calls for an app both miss the map and
    build a cache each). Returns the two flags."""
    body = h.func_body(rel, r"^func \(asp \*implCachingAppStorageProvider\) AppStorage\(", "caching provider AppStorage")
    if "newCachingAppStorage(" not in body:
        raise h.Missing(f"{rel}: the caching provider no longer builds its storages in AppStorage; update C07_Cache/Model.v")
    if "storages" not in body:
        return [("cache_provider_one_per_app", "bool", "false", rel + " AppStorage: a new cache on every call"),
                ("cache_provider_lock_across_create", "bool", "false", rel + " AppStorage: no per-app map")]
    lookup = re.search(r"cached, ok :?= asp\.storages\[appQName\]", body)
    hit = re.search(r"if (?:cached, ok := asp\.storages\[appQName\]; )?ok \{\s*return cached, nil\s*\}", body)
    store = re.search(r"asp\.storages\[appQName\] = cached", body)
    create = body.find("newCachingAppStorage(")
    if not (lookup and hit and store) or not (lookup.start() < create < store.start()):
        raise h.Missing(f"{rel}: cannot tell whether AppStorage returns one caching storage per app; update C07_Cache/Model.v")
    # the mutex is held across lookup, creation and store iff it is taken once, before the lookup, released by a
    # defer, and never released explicitly
    locks = [m.start() for m in re.finditer(r"asp\.mu\.Lock\(\)", body)]
    deferred = [m.start() for m in re.finditer(r"defer asp\.mu\.Unlock\(\)", body)]
    unlocks = [m.start() for m in re.finditer(r"asp\.mu\.Unlock\(\)", body)]
    across = len(locks) == 1 and len(deferred) == 1 and len(unlocks) == 1 and locks[0] < deferred[0] < lookup.start()
    return [("cache_provider_one_per_app", "bool", "true", rel + " AppStorage: per-app map looked up and stored into"),
            ("cache_provider_lock_across_create", "bool", "true" if across else "false",
             rel + " AppStorage: the provider's mutex held from the map lookup to the store")]


def write_errors(h, rel):
    """does a write whose storage call returned an error mark its keys (the storage may have applied it) or
    leave the cache as it was (the code before the repair of C07-WRITEERR)"""
    s = h.src(rel)
    writers = {
        "Put": r"^func \(s \*cachedAppStorage\) Put\(",
        "PutBatch": r"^func \(s \*cachedAppStorage\) PutBatch\(",
        "InsertIfNotExists": r"^func \(s \*cachedAppStorage\) InsertIfNotExists\(",
        "CompareAndSwap": r"^func \(s \*cachedAppStorage\) CompareAndSwap\(",
        "CompareAndDelete": r"^func \(s \*cachedAppStorage\) CompareAndDelete\(",
    }
    shapes = {
        "Put": r"\} else \{\s*s\.markUnknown\(makeKey\(pKey, cCols\)\)\s*\}",
        "PutBatch": r"\} else \{\s*for _, i := range items \{\s*s\.markUnknown\(makeKey\(i\.PKey, i\.CCols\)\)\s*\}\s*\}",
        "InsertIfNotExists": r"if err != nil \{\s*s\.markUnknown\(makeKey\(pKey, cCols\)\)\s*return false, err\s*\}",
        "CompareAndSwap": r"if err != nil \{\s*s\.markUnknown\(makeKey\(pKey, cCols\)\)\s*return false, err\s*\}",
        "CompareAndDelete": r"if err != nil \{\s*s\.markUnknown\(makeKey\(pKey, cCols\)\)\s*return false, err\s*\}",
    }
    n = 0
    for name, pat in writers.items():
        body = h.func_body(rel, pat, "cache " + name)
        if re.search(shapes[name], body):
            n += 1
        elif "markUnknown" in body:
            raise h.Missing(f"{rel}: {name}: unrecognised use of markUnknown; update C07_Cache/Model.v")
    if n == 0 and "markUnknown" not in s:
        return ("cache_write_error_marks", "bool", "false", rel + " a failed write leaves the cache as it was")
    if n == len(writers):
        body = h.func_body(rel, r"^func \(s \*cachedAppStorage\) markUnknown\(", "markUnknown")
        if re.fullmatch(r"\s*s\.cacheMu\.Lock\(\)\s*if cacheableKey\(key\) \{\s*s\.cache\.Set\(key, uncacheable\)\s*\}\s*s\.cacheMu\.Unlock\(\)\s*", body):
            return ("cache_write_error_marks", "bool", "true", rel + " a failed write marks its keys (markUnknown in Put, PutBatch, InsertIfNotExists, CompareAndSwap, CompareAndDelete)")
    raise h.Missing(f"{rel}: failed writes are handled inconsistently ({n} of {len(writers)} writers mark their keys); update C07_Cache/Model.v")


def fastcache_chunk_size(h):
    """chunkSize of the fastcache version the repository builds with (its Set silently ignores an entry
    with 4+len(key)+len(value) >= chunkSize): read from the module cache, version from go.mod"""
    import os
    m = h.find("go.mod", r"^\s*github\.com/VictoriaMetrics/fastcache\s+(v[0-9][^\s]*)", "the fastcache requirement")
    ver = m.group(1)
    roots = []
    if os.environ.get("GOMODCACHE"):
        roots.append(os.environ["GOMODCACHE"])
    for gp in (os.environ.get("GOPATH") or os.path.expanduser("~/go")).split(os.pathsep):
        roots.append(os.path.join(gp, "pkg", "mod"))
    for root in roots:
        f = os.path.join(root, "github.com", "!victoria!metrics", "fastcache@" + ver, "fastcache.go")
        if os.path.exists(f):
            txt = h.src(f)  # absolute path: os.path.join keeps it
            c = re.search(r"^const chunkSize = ([0-9_*<\s]+)$", txt, re.M)
            if not c:
                raise h.Missing(f"{f}: cannot locate chunkSize")
            if not re.search(r"kvLen := uint64\(len\(kvLenBuf\) \+ len\(k\) \+ len\(v\)\)\s*\n\s*if kvLen >= chunkSize \{", txt) \
                    or "var kvLenBuf [4]byte" not in txt \
                    or not re.search(r"if len\(k\) >= \(1<<16\) \|\| len\(v\) >= \(1<<16\) \{", txt):
                raise h.Missing(f"{f}: bucket.Set no longer drops exactly the entries with 4+len(k)+len(v) >= chunkSize or a 64 KB key/value; update fc_fits in C07_Cache/Model.v")
            return go_product(c.group(1)), f"fastcache@{ver}/fastcache.go chunkSize"
    raise h.Missing(f"fastcache {ver}: source not found in the module cache ({roots})")


def go_product(txt):
    """value of a constant expression made of integer literals, * and <<"""
    txt = txt.strip().replace("_", "")
    if not re.fullmatch(r"[0-9x*<\s]+", txt):
        raise ValueError(txt)
    return int(eval(txt, {"__builtins__": {}}))


def big_values(h, rel):
    """F26: how an entry too large for fastcache is handled. New shape: every positive store goes through
    setCached (which stores the one-byte mark when len(key)+len(entry) >= maxCachedEntrySize) and the three
    read paths test isUncacheable. Old shape: positive stores call s.cache.Set directly, no mark anywhere."""
    s = h.src(rel)
    chunk, chunk_prov = fastcache_chunk_size(h)
    items = [("fastcache_chunk_size", "Z", str(chunk), chunk_prov)]
    writers = {
        "Put": r"^func \(s \*cachedAppStorage\) Put\(",
        "PutBatch": r"^func \(s \*cachedAppStorage\) PutBatch\(",
        "InsertIfNotExists": r"^func \(s \*cachedAppStorage\) InsertIfNotExists\(",
        "CompareAndSwap": r"^func \(s \*cachedAppStorage\) CompareAndSwap\(",
        "Get": r"^func \(s \*cachedAppStorage\) Get\(",
        "getBatchFromStorage": r"^func \(s \*cachedAppStorage\) getBatchFromStorage\(",
    }
    readers = {
        "Get": (r"^func \(s \*cachedAppStorage\) Get\(", r"if isCached && !isUncacheable\(cachedData\) \{", r"if isCached \{"),
        "TTLGet": (r"^func \(s \*cachedAppStorage\) TTLGet\(", r"if isCached && !isUncacheable\(cachedData\) \{", r"if isCached \{"),
        "getBatchFromCache": (r"^func \(s \*cachedAppStorage\) getBatchFromCache\(", r"if !isCached \|\| isUncacheable\(cachedData\) \{", r"if !isCached \{"),
    }
    # a positive store: the second argument is the encoded entry (x.ToBytes()), never nil
    new_w, old_w = 0, 0
    for name, pat in writers.items():
        body = h.func_body(rel, pat, "cache " + name)
        n_new = len(re.findall(r"s\.setCached\([^\n]*\.ToBytes\(\)\)", body))
        n_old = len(re.findall(r"s\.cache\.Set\([^\n]*\.ToBytes\(\)\)", body))
        if n_new + n_old != 1:
            raise h.Missing(f"{rel}: {name} has {n_new + n_old} positive cache stores, expected one; update C07_Cache/Model.v")
        new_w += n_new
        old_w += n_old
    new_r, old_r = 0, 0
    for name, (pat, new_shape, old_shape) in readers.items():
        body = h.func_body(rel, pat, "cache " + name)
        if re.search(new_shape, body):
            new_r += 1
        elif re.search(old_shape, body):
            old_r += 1
        else:
            raise h.Missing(f"{rel}: cannot recognise the cache-hit test of {name}; update C07_Cache/Model.v")
    has_helper = re.search(r"^func \(s \*cachedAppStorage\) setCached\(", s, re.M) is not None
    if new_w == len(writers) and new_r == len(readers) and has_helper:
        m = h.find(rel, r"^const maxCachedEntrySize = ([0-9_*<\s\-]+)$", "maxCachedEntrySize")
        expr = m.group(1).strip().replace("_", "")
        mm = re.fullmatch(r"([0-9x*<\s]+?)\s*-\s*([0-9]+)", expr)
        size = go_product(mm.group(1)) - int(mm.group(2)) if mm else go_product(expr)
        body = h.func_body(rel, r"^func \(s \*cachedAppStorage\) setCached\(", "setCached")
        if not re.search(r"if len\(key\)\+len\(entry\) >= maxCachedEntrySize \{\s*s\.cache\.Set\(key, uncacheable\)\s*return\s*\}\s*s\.cache\.Set\(key, entry\)", body):
            raise h.Missing(f"{rel}: setCached is no longer 'mark when len(key)+len(entry) >= maxCachedEntrySize, else store'; update set_pos in C07_Cache/Model.v")
        if not re.search(r"^var uncacheable = \[\]byte\{0\}\s*$", s, re.M) \
                or not re.search(r"^func isUncacheable\(entry \[\]byte\) bool \{ return len\(entry\) == 1 \}", s, re.M):
            raise h.Missing(f"{rel}: the mark is no longer the one-byte entry recognised by its length; update entry_len in C07_Cache/Model.v")
        items.append(("cache_big_values_marked", "bool", "true", rel + " setCached at every positive store, isUncacheable in Get/TTLGet/getBatchFromCache"))
        items.append(("cache_max_entry_size", "Z", str(size), rel + " maxCachedEntrySize"))
        items.append(key_guard(h, rel, s, body))
    elif old_w == len(writers) and old_r == len(readers):
        # the shape before the repair of F26: every entry goes to fastcache as it is; the limit the model
        # then never consults is set to the point where fastcache starts ignoring entries
        items.append(("cache_big_values_marked", "bool", "false", rel + " positive stores call s.cache.Set directly, reads do not know a mark"))
        items.append(("cache_max_entry_size", "Z", str(chunk - 4), "(not in the source: fastcache chunkSize - 4)"))
        if "setAbsent" in s or "cacheableKey" in s:
            raise h.Missing(f"{rel}: a key guard without the mark; update C07_Cache/Model.v")
        items.append(("cache_key_guard", "bool", "false", rel + " no setCached, no key guard"))
    else:
        raise h.Missing(f"{rel}: entries too large for fastcache are handled inconsistently "
                        f"(positive stores through setCached: {new_w}, direct: {old_w}; reads testing isUncacheable: {new_r}, not: {old_r}); update C07_Cache/Model.v")
    return items


def key_guard(h, rel, s, set_cached_body):
    """F26b: under a key for which not even the mark fits (len(key)+1 >= maxCachedEntrySize) nothing is cached.
    New shape: cacheableKey, tested first in setCached and in setAbsent, which every store of "known missing"
    goes through. Old shape: none of the three; "known missing" is stored by s.cache.Set(.., nil) directly."""
    sites = {
        "CompareAndDelete": r"^func \(s \*cachedAppStorage\) CompareAndDelete\(",
        "TTLGet": r"^func \(s \*cachedAppStorage\) TTLGet\(",
        "Get": r"^func \(s \*cachedAppStorage\) Get\(",
        "getBatchFromStorage": r"^func \(s \*cachedAppStorage\) getBatchFromStorage\(",
    }
    n_new, n_old = 0, 0
    for name, pat in sites.items():
        body = h.func_body(rel, pat, "cache " + name)
        if name == "TTLGet":  # the expired-entry branch is read by expired_branch()
            body = re.sub(r"if d\.IsExpired\(s\.iTime\.Now\(\)\) \{.*?\n\t\t\}", "", body, flags=re.S)
        a = len(re.findall(r"s\.setAbsent\(", body))
        b = len(re.findall(r"s\.cache\.Set\([^\n]*,\s*nil\)", body))
        if a + b != 1:
            raise h.Missing(f"{rel}: {name} has {a + b} stores of 'known missing', expected one; update C07_Cache/Model.v")
        n_new += a
        n_old += b
    has_pred = re.search(r"^func cacheableKey\(key \[\]byte\) bool \{ return len\(key\)\+len\(uncacheable\) < maxCachedEntrySize \}", s, re.M) is not None
    guard_first = re.match(r"\s*if !cacheableKey\(key\) \{\s*return\s*\}", set_cached_body) is not None
    has_absent = False
    if re.search(r"^func \(s \*cachedAppStorage\) setAbsent\(", s, re.M):
        ab = h.func_body(rel, r"^func \(s \*cachedAppStorage\) setAbsent\(", "setAbsent")
        has_absent = re.fullmatch(r"\s*if cacheableKey\(key\) \{\s*s\.cache\.Set\(key, nil\)\s*\}\s*", ab) is not None
    if n_new == len(sites) and has_pred and guard_first and has_absent:
        return ("cache_key_guard", "bool", "true", rel + " cacheableKey tested by setCached and setAbsent; setAbsent at every store of 'known missing'")
    if n_old == len(sites) and not has_pred and not guard_first and "cacheableKey" not in s and "setAbsent" not in s:
        return ("cache_key_guard", "bool", "false", rel + " 'known missing' stored directly, setCached without a key guard")
    raise h.Missing(f"{rel}: the key guard of the cache is applied inconsistently (setAbsent sites {n_new}, direct {n_old}, "
                    f"cacheableKey {has_pred}, first in setCached {guard_first}, setAbsent shape {has_absent}); update C07_Cache/Model.v")


def expired_branch(h, rel):
    """TTLGet finding an expired entry: does it cache the absence (setAbsent: the entry stays a guard for reads
    in flight) or drop the entry (s.cache.Del, the code before the repair of C07-EXPDEL)"""
    body = h.func_body(rel, r"^func \(s \*cachedAppStorage\) TTLGet\(", "cache TTLGet")
    m = re.search(r"if d\.IsExpired\(s\.iTime\.Now\(\)\) \{(.*?)\n\t\t\}", body, re.S)
    if not m:
        raise h.Missing(f"{rel}: cannot locate the expired-entry branch of TTLGet")
    blk = re.sub(r"//[^\n]*", "", m.group(1))
    if not re.search(r"return false, nil", blk):
        raise h.Missing(f"{rel}: the expired-entry branch of TTLGet no longer answers 'not found' at once; update C07_Cache/Model.v")
    marker = bool(re.search(r"s\.setAbsent\(key\)", blk))
    drops = bool(re.search(r"s\.cache\.Del\(key\)", blk))
    if marker == drops:
        raise h.Missing(f"{rel}: TTLGet's expired-entry branch neither drops the entry nor caches the absence; update C07_Cache/Model.v")
    return ("cache_expired_leaves_marker", "bool", "true" if marker else "false", rel + " TTLGet: cache update on an expired entry")
