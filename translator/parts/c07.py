"""C07: decisions of pkg/istoragecache/impl.go the cache model follows."""
import re


def collect(h):
    rel = "pkg/istoragecache/impl.go"
    items = []
    body = h.func_body(rel, r"^func makeKey\(", "makeKey")
    if not (re.search(r"append\(res,\s*pKey\.\.\.\)", body) and re.search(r"append\(res,\s*cCols\.\.\.\)", body)) \
            or len(re.findall(r"append\(", body)) != 2:
        raise h.Missing(f"{rel}: makeKey is no longer the plain concatenation pKey ++ cCols; update C07_Cache/Model.v make_key")

    body = h.func_body(rel, r"^func \(s \*cachedAppStorage\) Get\(", "cache Get")
    m = re.search(r"if ok \{(.*?)\} else \{", body, re.S)
    if not m:
        raise h.Missing(f"{rel}: cannot locate the positive fill branch of Get")
    items.append(("cache_positive_fill_guarded", "bool", "true" if "alreadyCached" in m.group(1) else "false", rel + " Get: positive fill"))

    body = h.func_body(rel, r"^func \(s \*cachedAppStorage\) TTLGet\(", "cache TTLGet")
    m = re.search(r"if err == nil && !ok \{(.*?)\n\t\}", body, re.S)
    if not m:
        raise h.Missing(f"{rel}: cannot locate the negative fill of TTLGet")
    blk = m.group(1)
    guarded = bool(re.search(r"alreadyCached\s*:=\s*s\.cache\.HasGet\(", blk) and re.search(r"if\s+!alreadyCached", blk))
    items.append(("cache_ttlget_negative_fill_guarded", "bool", "true" if guarded else "false", rel + " TTLGet: negative fill"))

    body = h.func_body(rel, r"^func \(s \*cachedAppStorage\) getBatchFromStorage\(", "cache getBatchFromStorage")
    # guarded when the already-cached test precedes (covers) the positive Set
    pos_set = body.find("d.ToBytes()")
    guard = body.find("alreadyCached")
    if pos_set < 0 or guard < 0:
        raise h.Missing(f"{rel}: cannot locate the fills of getBatchFromStorage")
    items.append(("cache_batch_fill_guarded", "bool", "true" if guard < pos_set else "false", rel + " getBatchFromStorage: positive fill"))
    body = h.func_body(rel, r"^func \(s \*cachedAppStorage\) CompareAndDelete\(", "cache CompareAndDelete")
    m = re.search(r"if ok \{(.*?)\n\t\}", body, re.S)
    if not m:
        raise h.Missing(f"{rel}: cannot locate the cache update of CompareAndDelete")
    blk = m.group(1)
    marker = bool(re.search(r"s\.cache\.Set\(makeKey\(pKey,\s*cCols\),\s*nil\)", blk))
    drops = bool(re.search(r"s\.cache\.Del\(makeKey\(pKey,\s*cCols\)\)", blk))
    if marker == drops:
        raise h.Missing(f"{rel}: CompareAndDelete neither drops the cache entry nor caches the absence; update C07_Cache/Model.v")
    items.append(("cache_delete_leaves_marker", "bool", "true" if marker else "false", rel + " CompareAndDelete: cache update after a successful delete"))
    return items
