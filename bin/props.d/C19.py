"""bin/check configuration of property C19 (see bin/props.py for the keys)."""

_PRIMS = ["float", "add", "sub", "mul", "div", "opp", "abs", "eqb", "ltb", "leb", "of_uint63", "normfr_mantissa", "frshiftexp",
          "PrimInt63.int", "PrimInt63.sub", "PrimInt63.lsr", "PrimInt63.lsl", "PrimInt63.lor", "PrimInt63.land", "PrimInt63.eqb",
          "PrimInt63.add", "PrimInt63.mul", "PrimInt63.ltb", "PrimInt63.leb", "PrimInt63.lxor", "PrimInt63.div", "PrimInt63.mod",
          "ldshiftexp", "classify", "compare", "sqrt", "next_up", "next_down"]
_PRIMS = sorted(set(_PRIMS + ["PrimFloat." + x for x in _PRIMS if "." not in x]))

PROP = {
    "model": "C19_Rates.Model",
    "design_ref": "DESIGN.md 7.19",
    "level_text": "Coq theorems over all histories (any mix of TakeTokens with 1..n keys incl. duplicates, GetBucketState, SetBucketState, ResetRateBuckets, SetDefaultBucketState on a non-decreasing clock), all configurations with refill interval P/N >= 1 ns and P <= 2^62 ns, and all resolutions of the one rounding freedom of the float code (a request exactly 1 ns of credit short may pass when the credit is fractional): admitted operations per bucket in any window <= N + T/(P/N) + 1; a fresh/reset/first-used bucket admits exactly N - taken at once and refuses the next; a limit of 0 admits nothing; credit regained while idle <= N tokens; an admitted multi-limit request charges each bucket n per occurrence, a refused one leaves every bucket observationally unchanged for ever and names one of its limits; untouched keys are untouched; every reachable state meets the hypotheses. _partial: float64 rounding is not covered by a theorem - it is bridged on every run by replaying the observed histories inside Coq on a bit-exact primitive-float replica of the limiter (agrees) and by counting the observables that no behaviour of the exact model explains (tr_xdiff; 0 for every period below 2^53 ns on everything explored, a handful of few-ns shifts without effect on the statement between 2^53 and 2^62 ns, finding F18 above)",
    "level_note": "trusted: Coq kernel/vm_compute incl. primitive float/int63 evaluation (assumed equal to amd64 IEEE-754 binary64, no FMA fusion; float->int64 overflow gives MinInt64 as on amd64), translator, harness and its Go port of the exact model (cross-checked inside Coq through tr_xdiff); the mutex of bucketsType is modelled as atomic calls (concurrent callers are exercised at one instant and linearised admitted-first); theorems need n >= 0 and a clock that never steps back",
    "properties_file": "theories/Properties/C19.v",
    "n": {"quick": 600, "thorough": 1500},
    "shards": {"quick": 1, "thorough": 8},
    "cases_per_file": 30,
    "rule": "history = 1-3 limits (N from {0,1,2,3,5,10,1000,2^32-1,...} x refill interval from 1 ns to days, remainders dropped by the integer division, P<N (unlimited), P=0, negative P and taken>N in a malformed stream, periods >= 2^53 up to MaxInt64 in a separate extreme stream) with 1-3 bucket keys each, then 14-40 (thorough: -70) requests on a deterministic clock: steps 0 (equal timestamps), 1 ns, I-1, I, I+1, k*I, P, P+1, random, years; TakeTokens with 1-3 keys (duplicates, keys of undefined limits, n in {1,2,3,N-1,N,N+1,N/2,0}, negative n and empty key list in the malformed stream), bursts through the capacity at one instant, multi-limit requests framed by GetBucketState of every key, SetBucketState/ResetRateBuckets/SetDefaultBucketState at arbitrary points, 2-8 goroutines calling TakeTokens at one instant; non-trivial = at least one admitted and one refused request with n > 0; distinct = the whole input history",
    "trusted_base": ["modelled not verified: Go float64 arithmetic and conversions on amd64 (replicated by Coq primitive floats), sync.Mutex (calls are atomic), time.Time.Sub saturation"],
    "assumptions": ["non-decreasing clock reading a date after year 293 (time.Time.Sub from the zero time saturates)", "amounts n >= 0; refill interval >= 1 ns; period <= 2^62 ns (beyond: finding F18)", "float rounding bridged by measurement, not by theorem"],
    "allowed_axioms": _PRIMS,
}
