"""bin/check configuration of property C15 (see bin/props.py for the keys)."""

PROP = {
    "model": "C15_Blob.Model",
    "design_ref": "DESIGN.md 7.15",
    "level_text": "(also: a successful write is within its quota whatever the chunking; a write that dies after any number of its storage calls is never readable) Coq theorems over all chunk lists, sizes, keys and stores: read(write(chunks)) returns exactly the chunks in order with the recorded size/descriptor (for the byte order of chunk numbers the code uses, taken from the source by the translator), refused/interrupted writes are never readable as complete, writes of one key leave every other key's rows untouched; the model is tied to iblobstoragestg by replaying observed scenarios (storage calls, results, read-back digests) inside Coq on every run; a third of the writes go through the write step of the BLOB processor (pkg/processors/blobber, export shim under build tag verif), readers may end with a private error, io.ErrUnexpectedEOF (a request body cut short) or a cancelled context, keys include cluster twins (workspace ids differing only in the cluster bits), and every write runs under a 60 s watchdog whose expiry is an outcome of that case",
    "level_note": "trusted: Coq kernel/vm_compute, translator, harness; modelled not verified: the IAppStorage backend (covered by C06), JSON encoding of the state row, io.Reader contract; the chunk payload is abstract (rows are never split or merged, checked by the correspondence)",
    "properties_file": "theories/Properties/C15.v",
    "n": {"quick": 90, "thorough": 400},
    "shards": {"quick": 1, "thorough": 8},
    "cases_per_file": 12,
    "rule": "scenario = 1-3 BLOB writes (persistent/temporary keys, sizes around chunk and bucket bounds, reader chunkings one-byte/small/irregular/full, quota size-1/size/size+1, reader error/cancel) + reads of every key, a never-written key and temporary keys around expiry, on mem and bbolt; non-trivial = some write has >1 chunk or a quota/interruption; distinct = backend + per-write (kind,size,chunking,#reads,quota,ending) + read times",
    "trusted_base": ["modelled not verified: istorage backend below IAppStorage (C06), encoding/json of BLOBState, io.Reader contract"],
    "assumptions": ["one writer per BLOB key at a time; chunk count and sizes < 2^64"],
}
