"""bin/check configuration of property C17 (see bin/props.py for the keys)."""

PROP = {
    "model": "C17_Compile.Model",
    "design_ref": "DESIGN.md 7.17",
    "level_text": "Coq theorems over all schemas of a structural VSQL AST (packages, files, workspaces with inheritance and USE, tables of every kind with inheritance chains, nested tables, all field types / NOT NULL / lengths / CHECK / references / UNIQUE, types, views with key split, commands, queries, projectors, roles, rates, limits, GRANT/REVOKE): the reference compiler yields exactly the items the declarative relation `Declares` names (sound, complete, one item per name, fields = system ++ inherited ++ declared in declaration order), and the faithful model of pkg/parser+appdef agrees with it wherever the two known defects (F23, F24) are excluded; the Go compiler is tied to the model by compiling generated programs with the real parser and builder and comparing a canonical dump of IAppDef inside Coq on every run (differential)",
    "level_note": "trusted: Coq kernel/vm_compute, the Go harness (generator, VSQL renderer whose output is re-rendered and compared inside Coq, IAppDef dump), bin/check; the theorems are about the reference compiler, the Go compiler is tied to it only on generated programs; not modelled: ALTER WORKSPACE, nested workspaces, tags, jobs, storages other than sys.View intents, field sets, record-typed fields, UNIQUEFIELD, comments, DECLARE variables; participle parsing is exercised, not modelled",
    "properties_file": "theories/Properties/C17.v",
    "n": {"quick": 72, "thorough": 160},
    "shards": {"quick": 1, "thorough": 16},
    "cases_per_file": 6,
    "rule": "case = one generated application (1-3 packages split over files; workspaces abstract/concrete with single and multiple INHERITS and USE; tables of every kind incl. singletons, abstract chains across workspaces and packages, nested tables to depth 3, every field type, lengths 1/255/256/65535, CHECK, refs, named/unnamed UNIQUE; types with containers; views with shuffled key columns; commands/queries with every parameter form; projectors; roles; rates; limits; every GRANT/REVOKE form) compiled twice by parser.ParseFile/BuildPackageSchema/BuildAppSchema/BuildAppDefs + builder.Build; every 4th case has one language rule broken (26 mutation kinds) and must be rejected; non-trivial = compiled and uses inheritance, nesting or several packages; distinct = statement-count profile",
    "trusted_base": ["modelled not verified: participle lexer/parser (driven, its acceptance is compared), appdef builder validation beyond the rules listed in Model.v `wf`"],
    "assumptions": ["identifiers are plain (no keywords, no quoting); INHERITS names are package-qualified and entity names distinct over the application (the name-resolution context defect noted in notes/C17.md is outside the domain); rate periods up to 100 units"],
}
