"""bin/check configuration of property C01 (see bin/props.py for the keys)."""

PROP = {
    "model": "C01_Command.Model",
    "design_ref": "DESIGN.md 7.1",
    "level_text": "Coq theorems about a fault-injecting transition system of the command processor's write pipeline "
                  "(recovery -> validation -> putPLog -> applyRecords -> fork(flush of the sync projectors one after the "
                  "other || PutWlog) -> reply -> drop partition state on failure), for every history of commands and "
                  "restarts, every trust level, every number and flush order of sync projectors and every "
                  "fault plan (any set of (target, k-th write, error-before / error-after / 'exists')), proved through one "
                  "inductive invariant: after one fault-free recovery PLog, WLogs, records and every sync projection describe "
                  "the same events (offsets 1..n and per-workspace 1..m without gaps, records = fold of the PLog, one row "
                  "per event in every projector's view); the PLog "
                  "holds exactly the commands whose PLog write took effect, once each, in order, with the rows, IDs and offset "
                  "of their replies (success => in all stores, 4xx or PLog write without effect => in none, later failure => "
                  "completed by recovery); log entries never change once written; a clean insert after any history succeeds; "
                  "a command is in the log exactly when its PLog write took effect; exactly one reply per command; one recorded "
                  "deviation with its refutation witness and the partial theorem beside it (C01-F2: a PLog write failing "
                  "after its effect is answered 5xx and applied); three shape flags read from the Go source, each with a "
                  "reflexivity side condition and a refutation witness for the flag-false variant (putPLog returns the "
                  "error: F11; the sync flush loop stops at the first error; decoded events keep IsDeactivated: C01-F3 - all repaired); "
                  "the theorems are stated for the code as it is through reflexivity side "
                  "conditions on two shape flags the translator reads from the Go source (putPLog returns the error - "
                  "F11, repaired; the sync actualizer's flush loop stops at the first error), each with a refutation "
                  "witness for the flag-false variant; the model is tied to the real command processor by replaying observed scenarios (replies, "
                  "issued storage calls, fired faults, read-back of all four stores) inside Coq on every run",
    "level_note": "trusted: Coq kernel/vm_compute, translator, harness (external replica of the command processor's test "
                  "setUp, kit.Wrap fault injection); modelled not verified: istructsmem's event and record encoding (an "
                  "event is (stamp, ws, WLog offset, CUD rows), a record is (V, sys.IsActive)), the pipeline framework, "
                  "the sync actualizer's pipeline (idempotent projectors writing one view row per event each), the bus; everything that "
                  "refuses a command before putPLog is one boolean",
    "properties_file": "theories/Properties/C01.v",
    "n": {"quick": 500, "thorough": 6000},
    "shards": {"quick": 1, "thorough": 12},
    "cases_per_file": 60,
    "rule": "scenario = history of 1-5 CUD commands (inserts, updates, deactivations; three workspaces of one partition; "
            "about a seventh refused: malformed JSON, no rows, wrong field type, sys.IsActive mixed with fields, unknown "
            "record, duplicate raw IDs), processor restarts (processor only / everything above the storage) at command "
            "boundaries, per command a fault plan over (PLog | records | view | WLog) x k-th write x (before | after | "
            "exists), three sync projectors with a view each (k-th view write = the flush of the k-th projector in "
            "the actualizer's map order) - or, in a sixth of the scenarios, the application variant with ONE sync projector "
            "subscribed AFTER DEACTIVATE only -, then one clean insert and the read-back of PLog, WLogs, records and every view; quick: no fault + every single fault on a fixed 3-command history at trust "
            "level 0 (each projector's view write in turn), the faults of its richest command at levels 1 and 2, 70 pairs "
            "(fault, then fault during the next command's recovery), 80 cases restart-at-a-boundary + fault in the "
            "recovery or after it, then random "
            "histories with 0-3 faults; thorough: "
            "per shard one of 4 fixed histories x trust level with every single and every double fault, then random; a "
            "scenario in which the processor died is emitted twice (second copy judged on everything but the missing "
            "reply); non-trivial = some fault fired; distinct = trust level + per step (workspace, op kinds, fired faults, "
            "reply class)",
    "trusted_base": ["modelled not verified: istructsmem event/record encoding, pipeline framework, sync actualizer, bus, "
                     "in-memory storage below kit.Wrap (C06)"],
    "assumptions": ["one command processor per partition (single writer)",
                    "sync projectors are functions of the event alone (blind, idempotent write of rows determined by the "
                    "event): the processor invokes the projectors of an event again on every re-apply (at-least-once), so a "
                    "read-modify-write projector would count a re-applied event twice - outside the model and the claim",
                    "storage reads do not fail (faults are injected at write calls only)",
                    "a command names a record at most once (the real code merges two updates of one record; not generated)",
                    "updates address user records (IDs >= FirstUserRecordID); fewer than 2^64 - 200001 inserts per workspace",
                    "the update rows of an event are an unordered map in the Go code: generated and compared in ascending ID order",
                    "which sync projector a k-th view write belongs to (Go map order) is not compared; the theorems hold for every order"],
}
