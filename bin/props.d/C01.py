"""bin/check configuration of property C01 (see bin/props.py for the keys)."""

PROP = {
    "model": "C01_Command.Model",
    "design_ref": "DESIGN.md 7.1",
    "level_text": "Coq theorems about a fault-injecting transition system of the command processor's write pipeline "
                  "(recovery -> validation -> putPLog -> applyRecords -> fork(sync projector || PutWlog) -> reply -> drop "
                  "partition state on failure), for every history of commands and restarts, every trust level and every "
                  "fault plan (any set of (target, k-th write, error-before / error-after / 'exists')), proved through one "
                  "inductive invariant: after one fault-free recovery PLog, WLogs, records and the sync projection describe "
                  "the same events (offsets 1..n and per-workspace 1..m without gaps, records = fold of the PLog); the PLog "
                  "holds exactly the commands whose PLog write took effect, once each, in order, with the rows, IDs and offset "
                  "of their replies (success => in all stores, 4xx or PLog write without effect => in none, later failure => "
                  "completed by recovery); log entries never change once written; a clean insert after any history succeeds; "
                  "exactly one reply per command when putPLog hands the error on, refuted by a witness for the code as it is "
                  "(finding F11: the flag is read from the Go source by the translator) and proved for histories without a "
                  "PLog fault; the model is tied to the real command processor by replaying observed scenarios (replies, "
                  "issued storage calls, fired faults, read-back of all four stores) inside Coq on every run",
    "level_note": "trusted: Coq kernel/vm_compute, translator, harness (external replica of the command processor's test "
                  "setUp, kit.Wrap fault injection); modelled not verified: istructsmem's event and record encoding (an "
                  "event is (stamp, ws, WLog offset, CUD rows), a record is (V, sys.IsActive)), the pipeline framework, "
                  "the sync actualizer (one idempotent projector writing one view row per event), the bus; everything that "
                  "refuses a command before putPLog is one boolean",
    "properties_file": "theories/Properties/C01.v",
    "n": {"quick": 450, "thorough": 6000},
    "shards": {"quick": 1, "thorough": 12},
    "cases_per_file": 60,
    "rule": "scenario = history of 1-5 CUD commands (inserts, updates, deactivations; three workspaces of one partition; "
            "about a seventh refused: malformed JSON, no rows, wrong field type, sys.IsActive mixed with fields, unknown "
            "record, duplicate raw IDs), processor restarts (processor only / everything above the storage) at command "
            "boundaries, per command a fault plan over (PLog | records | view | WLog) x k-th write x (before | after | "
            "exists), then one clean insert; quick: no fault + every single fault on a fixed 3-command history at trust "
            "level 0, the faults of its richest command at levels 1 and 2, 30 pairs (fault, then fault during the next "
            "command's recovery), 48 cases restart-at-a-boundary + fault in the recovery or after it, then random "
            "histories with 0-3 faults; thorough: "
            "per shard one of 4 fixed histories x trust level with every single and every double fault, then random; a "
            "scenario in which the processor died is emitted twice (second copy judged on everything but the missing "
            "reply); non-trivial = some fault fired; distinct = trust level + per step (workspace, op kinds, fired faults, "
            "reply class)",
    "trusted_base": ["modelled not verified: istructsmem event/record encoding, pipeline framework, sync actualizer, bus, "
                     "in-memory storage below kit.Wrap (C06)"],
    "assumptions": ["one command processor per partition (single writer)",
                    "storage reads do not fail (faults are injected at write calls only)",
                    "a command names a record at most once (the real code merges two updates of one record; not generated)",
                    "updates address user records (IDs >= FirstUserRecordID); fewer than 2^64 - 200001 inserts per workspace",
                    "the update rows of an event are an unordered map in the Go code: generated and compared in ascending ID order"],
}
