"""bin/check configuration of property C18 (see bin/props.py for the keys)."""

PROP = {
    "model": "C18_Compat.Model",
    "design_ref": "DESIGN.md 7.18",
    "level_text": "Coq theorems over all compatibility trees (sibling names distinct), all paths and positions, for the comparer of pkg/appdefcompat (compareNodes/matchNodes/checkConstraint/findConstraint transcribed, constraint bits and the node-name table taken from the Go source by the translator): self-comparison is silent; every combination of compatible changes (fields appended to tables/view values, types and workspace members inserted, at any depth) is silent; a removed child, a displaced child, a changed node value and a changed view-key field list are reported at the path of the changed element whatever else changed elsewhere; the full statement is refuted for Containers and QueryArgs/QueryResult on the current table (finding F15) with _partial theorems beside it; a link theorem (agrees -> covered -> satisfies) transfers the theorems to every observed trace the model reproduces; the model is tied to appdefcompat.CheckBackwardCompatibility by replaying generated schema x edit pairs (real IAppDefs built through appdef/builder) inside Coq on every run",
    "level_note": "trusted: Coq kernel/vm_compute, translator, harness; the compatibility tree is rebuilt from the IAppDef by the harness (appdefcompat.buildTree is unexported; a transcription with the same type switches and exported NodeName constants, validated by the correspondence on every case); modelled not verified: appdef/builder (schema -> IAppDef), go-cmp Equal on nil/string/bool/DataKind values; map-ordered nodes (Packages, Uniques) are compared in a fixed order (their constraints ignore order)",
    "properties_file": "theories/Properties/C18.v",
    "n": {"quick": 280, "thorough": 1500},
    "shards": {"quick": 1, "thorough": 8},
    "cases_per_file": 10,
    "case_imports": ["Open Scope string_scope."],
    "rule": "case = generated schema (1-2 workspaces; cdoc/wdoc/odoc/records/objects with 0-6 fields incl. fields named like tree nodes, containers, a unique; views with 1-3 partition-key and clustering columns; commands and queries with argument/unlogged/result types) built into a real IAppDef x one catalogue edit at one applicable position (quick: one edit per kind and part per schema, rotating; thorough: every position of every kind): self, append/insert/remove/swap/change-kind of a field in table fields, view value, partition key, clustering columns; add table/view/function/workspace (names sorting first/middle/last), use-workspace, remove type, add/remove/retarget container, change command param/unlogged/result, change query param/result; plus a malformed stream (unrelated schema pair, schema vs empty app, mixed multi-edits: correspondence only) and compatible multi-edits; corpus (F15 probes) first; non-trivial = any edit other than self; distinct = kind+part+position+claim+tree sizes+error count",
    "trusted_base": ["harness transcription of appdefcompat.buildTree (unexported) from the exported appdef accessors",
                     "modelled not verified: appdef/builder, go-cmp value equality"],
    "assumptions": ["sibling node names of a compatibility tree are pairwise different (checked on every observed tree)",
                    "claims about Containers and QueryArgs/QueryResult are outside the proved part (known finding F15)"],
}
