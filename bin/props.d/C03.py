"""bin/check configuration of property C03 (see bin/props.py for the keys)."""

PROP = {
    "model": "C03_Records.Model",
    "design_ref": "DESIGN.md 7.3",
    "level_text": "Coq theorems over all valid event histories (any length, any interleaving of create/update/deactivate/reactivate over any workspaces and field lists): every record read equals the per-field last-writer fold of the log, never-created records do not exist, re-applying the last event with origins reloaded leaves the whole store identical (also for histories with re-applies after any prefix), any Apply leaves unnamed records and unnamed fields untouched, record keys are injective for the partition split taken from the source; the model is tied to istructsmem by replaying observed histories (BuildRawEvent verdicts, Apply/ApplyRecords results, Get/GetBatch/GetSingleton read-backs) inside Coq on every run",
    "level_note": "trusted: Coq kernel/vm_compute, translator, harness; modelled not verified: dynobuffers row payload (a record is its per-field view), the IAppStorage backend below Put/Get (C06), ID generation (C04: created ids are new), PLog codec (C02); domain: the record handed to ICUD.Update is the stored one (as the command processor does) - the model refutes the statement without it (stale snapshot reverts later changes)",
    "properties_file": "theories/Properties/C03.v",
    "n": {"quick": 300, "thorough": 700},
    "shards": {"quick": 1, "thorough": 8},
    "cases_per_file": 15,
    "rule": "case = history of 1-60 sys.CUD events over CDoc + nested CRecord (2 levels) + WDoc + CDoc/WDoc singletons + reference fields in 2-3 workspaces sharing the same ids (id base around 4096-boundaries of the key split): document trees, updates of 1-3 records (set / zero / empty string / emptied, deactivate, reactivate, two Update calls merged), references to ids created in the same event; after any event optionally 1-2 re-applies of the last event (PLog-cached object or restart + read from storage); Get/GetBatch/GetSingleton of touched ids, of the same ids in other workspaces and of never-created ids after every event, full dump at the end; mem and bbolt; every third case mixes in the malformed stream (foreign-workspace record, system-field changes, duplicate singletons, stale snapshot origins); non-trivial = at least 2 applied events one of which updates; distinct = backend + per-event (workspace, #creates, #updates, verdict) + re-apply modes",
    "trusted_base": ["modelled not verified: dynobuffers payload encoding, istorage backend below IAppStorage (C06), ID generator (C04), PLog/record byte codecs (C02)"],
    "assumptions": ["the record passed to ICUD.Update is the currently stored one or has no user fields (command-processor contract); workspace ids and record ids < 2^64; created ids are new in their workspace (C04)"],
}
