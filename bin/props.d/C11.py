"""bin/check configuration of property C11."""

PROP = {
    "model": "C11_Sequencer.Model",
    "design_ref": "DESIGN.md 7.11",
    "properties_file": "theories/Properties/C11.v",
    "n": {"quick": 120, "thorough": 600},
    "shards": {"quick": 1, "thorough": 8},
    "cases_per_file": 20,
    "harness_timeout": 1500,
    "level_text": "Coq theorems over the interleaving model of the sequencer (caller, flusher, actualizer/batcher, storage failures, exact LRU eviction, crash at any step): every number issued exceeds everything recorded for its key in the log and in sequence storage, the persisted (numbers, offset) pair covers every log event below the offset at every storage write, offsets are consecutive; the real isequencer is driven step by step through verifhook points and a scripted storage and every observed action sequence is replayed on the model and judged by the oracle inside Coq",
    "level_note": "trusted: Coq kernel/vm_compute, translator (batcher shape), harness (role scheduler through verifhook callback; numbers and offset persist through the real appparts/internal/seqstorage + vvm/storage adapter over mem IAppStorage with failures injected at its Get/PutBatch/Put; the log scan is scripted); modelled not verified: Go scheduler below the hook granularity, hashicorp/golang-lru (exact LRU model), retry delays; the client protocol (the event carrying the issued numbers is appended at the offset returned by Start before Flush) is an assumption of the theorems and is what the harness does",
    "rule": "scenario = random walk (25-95 moves) over the applicable moves {Start ws, Next seq, append+Flush, Actualize (with or without the event appended), Next with the first storage read of the number failing (retried by the sequencer), release flusher (storage write outcome ok / error at the numbers PutBatch / error at the offset Put of the real seqstorage stack), release actualizer (read-offset and scan outcomes), crash+restart} with LRU capacity in {1,2,3,100}, unflushed limit in {1,2,3,500}, at most 0-2 injected storage failures; corpus schedules first; non-trivial = numbers were issued and a flush completed or a crash happened; distinct = configuration + exact move list",
    "trusted_base": ["modelled not verified: golang-lru, retrier timing, Go scheduler below hook granularity"],
    "assumptions": ["single caller thread (Start/Next/Flush/Actualize are not concurrent with each other)", "client protocol: the event with exactly the issued numbers is appended at the offset returned by Start before Flush"],
}
