"""bin/check configuration of property C07."""

PROP = {
    "model": "C07_Cache.Model",
    "case_imports": ["From V Require Import C06_Storage.Model."],
    "design_ref": "DESIGN.md 7.7",
    "properties_file": "theories/Properties/C07.v",
    "n": {"quick": 240, "thorough": 1200},
    "shards": {"quick": 1, "thorough": 8},
    "cases_per_file": 24,
    "level_text": "Coq theorems: (sequential) for every history the cache model over the reference storage returns the reference's outputs (write-through, negative caching, TTL expiry handling), given an injective cache key; (schedules) for every interleaving of one writer and any number of readers on one key, at the granularity storage-call / cache-fill, no Get / TTLGet that starts after a write of the writer's program (Put / InsertIfNotExists / CompareAndDelete, each succeeding) completed returns an older content, values and not-found answers alike. Tied to istoragecache by replaying sequential histories (cached and uncached instance side by side, mem and bbolt underneath) and hook-controlled schedules inside Coq on every run",
    "level_note": "trusted: Coq kernel/vm_compute, translator (fill guards, makeKey shape), harness + goroutine-id based step scheduler; modelled not verified: fastcache as a map without eviction (the harness sizes it so that nothing is evicted; eviction is not in the property's quantifier), Go memory model below the cache mutex; the schedule model has one writer per key (two writers racing on one key are not modelled)",
    "rule": "2/3 sequential histories (C06 generator over fixed-length partition keys so that pKey++cCols never collide) run on a cached and an uncached instance (mem, bbolt); 1/8 of the sequential histories use long clustering columns (600-byte values differing in the last byte or in length); TTL window probes (TTL write off the whole second, reads 1 ms before / at / after the expiry); 1/3 schedules: writer program of 1-3 Put / InsertIfNotExists / CompareAndDelete and 1-3 readers with 1-2 Get / TTLGet each on one key, the writer also stopped before its storage call, interleaving drawn from the PRNG at the granularity of the model's steps; corpus probes (key collision F7, stale fills F8 and F8b, expired row re-cached F23) first; non-trivial = history longer than 3 ops / schedule with a cache miss and a completed Put; distinct = exact op list / exact interleaving",
    "trusted_base": ["modelled not verified: fastcache (no eviction), Go scheduler (steps are forced through storage-call hooks)"],
    "assumptions": ["single writer per key; no cache eviction during a read's storage-call-to-fill window; distinct (pKey,cCols) pairs have distinct concatenations (else known finding F7)"],
}
