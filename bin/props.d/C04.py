"""bin/check configuration of property C04 (see bin/props.py for the keys)."""

PROP = {
    "model": "C04_RecordIDs.Model",
    "design_ref": "DESIGN.md 7.4",
    "level_text": "Coq theorems over all events, generator states and histories with restarts at any position (no uint64 "
                  "overflow: IDs + number of rows < 2^64, shown necessary by a witness): generated IDs are strictly increasing, "
                  "never null/raw/reserved and never equal to an ID already in the workspace's log, also after the generator is "
                  "rebuilt from the log (recovery dominates every logged ID); regeneration replaces every declared raw ID by one "
                  "storage ID everywhere in the event (argument, creates, updates) and reports exactly that mapping; a link "
                  "theorem shows that every bounded model trace passes the oracle `satisfies` evaluated on observed traces; the "
                  "model variants before the repairs of F12/F41/F42 are kept behind explicit flags with their refutations; the "
                  "model is tied to istructsmem + the command processor by replaying observed scenarios (responses, PLog "
                  "read-back, records) inside Coq on every run",
    "level_note": "trusted: Coq kernel/vm_compute, translator, harness; modelled not verified: dynobuffers row encoding, "
                  "PLog/records storage (C02/C03/C05), singleton registry (C10), JSON request decoding; the argument tree is "
                  "modelled flattened in pre-order; only the ID rules of event validation are modelled",
    "properties_file": "theories/Properties/C04.v",
    "n": {"quick": 700, "thorough": 2500},
    "shards": {"quick": 1, "thorough": 8},
    "cases_per_file": 40,
    "rule": "scenario = 0-6 events written at istructs level with one real generator per workspace (new and synced events, "
            "explicit IDs above/below next, at the generator's value on rows before/after raw rows, and MaxUint64, ODoc argument trees, CUD graphs with parent/child and reference fields, "
            "singletons, updates) then 0-12 commands through the real command processor with restarts, a third of them through an APIv2 path and a fifth as c.sys.Init (synced events built by the processor) (everything above "
            "the storage rebuilt, partition recovered from the PLog) between them, two workspaces, raw IDs from a small "
            "alphabet reused by every event; about a fifth of the events carry one ID-rule mutation (unknown raw "
            "reference/parent, duplicate ID, storage ID in a new event, null ID, singleton twice, argument reference to a "
            "CUD ID); non-trivial = an accepted event with >=2 new IDs and a raw reference, or IDs generated after a "
            "restart, or a synced event with explicit IDs; distinct = per-step (level, workspace, verdict, sync, row counts)",
    "trusted_base": ["modelled not verified: dynobuffers row encoding, PLog/records storage below IEvents/IRecords, "
                     "singleton registry, encoding/json of requests and responses"],
    "assumptions": ["events are well-formed apart from the ID rules (types, containers, required fields)",
                    "explicit IDs of synced events do not collide with IDs already stored and lie above the singleton band "
                    "(client's responsibility); collisions with IDs generated inside the same event are finding F43",
                    "a singleton is created at most once per workspace",
                    "no storage faults (C01)"],
}
