"""bin/check configuration of property C06."""

PROP = {
    "model": "C06_Storage.Model",
    "case_imports": ["From V Require Import C06_Storage.Model C06_Storage.Conc."],
    "trace_type": "ccase",
    "agrees": "agrees_c",
    "satisfies": "satisfies_c",
    "design_ref": "DESIGN.md 7.6",
    "properties_file": "theories/Properties/C06.v",
    "n": {"quick": 300, "thorough": 1500},
    "shards": {"quick": 1, "thorough": 8},
    "cases_per_file": 30,
    "level_text": "Coq theorems: laws of the reference storage (read-your-write, frame, exact sorted half-open range, batch = pointwise, empty value present, conditional ops decide on the current non-expired value and have exactly one winner among any number of concurrent callers in every interleaving (one-transaction model; flag read from the source), TTL visibility until the expiry of the most recent successful write) and refinement of the bbolt model (safeKey keys, ttl index, hourly cleaner, cursor scan) to the reference for all histories incl. clock advances and cleaner runs; mem and bbolt are tied to their models by replaying generated histories inside Coq on every run, and every observed output is also judged directly against the reference (a plain read touching a row written with a TTL is left open in its value, as the interface leaves it; but a GetBatch item and a Get of the same key with only read operations between them must carry the same found flag and value on every backend, TTL rows included - theorem batch_reads_agree_with_point_reads for the reference and the bbolt model at every state, and the link theorem covers the clause)",
    "level_note": "trusted: Coq kernel/vm_compute, translator (bbolt decision points), harness; modelled not verified: go.etcd.io/bbolt B-tree as a sorted map with cursor semantics, Go maps, the goroutine scheduling of the cleaner (the harness waits until it re-armed its timer); Cassandra/DynamoDB cannot run offline and are not claimed; concurrent callers of conditional ops are tested on the real backends (goroutines released together; exactly one must win per key) next to the theorem about the one-transaction model - the Go scheduler decides which interleavings that test sees",
    "rule": "history = 5-45 generated ops (up to about 80 with the follow-up reads and probes) (Put/PutBatch/Get/GetBatch/Read/InsertIfNotExists/CompareAndSwap/CompareAndDelete/TTLGet/TTLRead/QueryTTL/Advance) over colliding key alphabets (nil, empty, 00 00, 01, ff, ff ff, prefixes), values incl. empty, TTLs 0..3601 s, advances around 1 s, TTL and the 1 h cleaner period, plus a final full sweep; after 3 of 5 GetBatch a Get of each of its keys follows at once (1 in 6 with a TTLGet/QueryTTL between), after 1 of 3 Get a GetBatch containing its key; in 3 of 5 histories a batch/point probe: one or two rows written with a TTL of 1-3 s (insert, or put + compare-and-swap, or put + delete + insert) and sometimes a plain one, the clock moved to just before / onto / past the expiry short of the hourly cleaner, or across it, then GetBatch followed by Get of every key or Get followed by GetBatch, once or twice; alternating mem/bbolt; four concurrency cases per run (mem: 8 goroutines x 600 keys and 16 x 300; bbolt: 4 and 6 goroutines x 25 keys; goroutines released together, conditional insert then compare-and-swap); corpus probes first; non-trivial = some read-type op addresses a partition written earlier; distinct = backend + exact op list",
    "trusted_base": ["modelled not verified: bbolt B-tree/cursor, Go map, cleaner goroutine scheduling"],
    "assumptions": ["non-empty partition keys; histories are sequential (concurrent callers only in the conditional-operation cases); clock advances are whole milliseconds"],
}
