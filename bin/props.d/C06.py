"""bin/check configuration of property C06."""

PROP = {
    "model": "C06_Storage.Model",
    "design_ref": "DESIGN.md 7.6",
    "properties_file": "theories/Properties/C06.v",
    "n": {"quick": 300, "thorough": 1500},
    "shards": {"quick": 1, "thorough": 8},
    "cases_per_file": 30,
    "level_text": "Coq theorems: laws of the reference storage (read-your-write, frame, exact sorted half-open range, batch = pointwise, empty value present, conditional ops decide on the current non-expired value, TTL visibility until the expiry of the most recent successful write) and refinement of the bbolt model (safeKey keys, ttl index, hourly cleaner, cursor scan) to the reference for all histories incl. clock advances and cleaner runs; mem and bbolt are tied to their models by replaying generated histories inside Coq on every run, and every observed output is also judged directly against the reference",
    "level_note": "trusted: Coq kernel/vm_compute, translator (bbolt decision points), harness; modelled not verified: go.etcd.io/bbolt B-tree as a sorted map with cursor semantics, Go maps, the goroutine scheduling of the cleaner (the harness waits until it re-armed its timer); Cassandra/DynamoDB cannot run offline and are not claimed; concurrent callers of conditional ops are not exercised (bbolt's two-transaction check-then-act is recorded in DESIGN.md)",
    "rule": "history = 5-45 ops (Put/PutBatch/Get/GetBatch/Read/InsertIfNotExists/CompareAndSwap/CompareAndDelete/TTLGet/TTLRead/QueryTTL/Advance) over colliding key alphabets (nil, empty, 00 00, 01, ff, ff ff, prefixes), values incl. empty, TTLs 0..3601 s, advances around 1 s, TTL and the 1 h cleaner period, plus a final full sweep; alternating mem/bbolt; corpus probes first; non-trivial = some read-type op addresses a partition written earlier; distinct = backend + exact op list",
    "trusted_base": ["modelled not verified: bbolt B-tree/cursor, Go map, cleaner goroutine scheduling"],
    "assumptions": ["non-empty partition keys; sequential callers; clock advances are whole milliseconds"],
}
