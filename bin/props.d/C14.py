"""bin/check configuration of property C14 (see bin/props.py for the keys)."""

PROP = {
    "model": "C14_Tokens.Model",
    "design_ref": "DESIGN.md 7.14",
    "level_text": "Coq theorems over all token views (split / header / claims JSON / signature status), clocks, expected payload types and applications: a validation panics exactly when the claims lack a string aud or a numeric Duration and the assertion on it is unchecked (refuted for the code as it is: F13; proved total for checked assertions); acceptance implies an HMAC method, a MAC verifying under the validator's secret, audience = expected type, expiry and not-before satisfied, application = bound application, generic payload = the claims; an issued token is accepted iff same secret, same type, same application and clock before the expiry instant (lifetime end rounded down to the second), returning the issued payload; the trace oracle follows from the model wherever code and model agree. The model is tied to itokensjwt / itokens-payloads / iauthnzimpl by replaying issued, byte-mutated and forged tokens inside Coq on every run",
    "level_note": "partial: base64, encoding/json, HMAC-SHA2, RFC 3339 parsing, jwt/v5 segment handling and the decoding of claims into payload structs are library code; their results enter the model as fields of the token view computed by the harness with its own split/base64/json/hmac code. 'Exactly a token issued with the same secret' additionally rests on MAC unforgeability (assumption, not proved)",
    "properties_file": "theories/Properties/C14.v",
    "n": {"quick": 600, "thorough": 1500},
    "shards": {"quick": 1, "thorough": 8},
    "cases_per_file": 60,
    "rule": "case = one string validated by ITokens.ValidateToken, IAppTokens.ValidateToken and (principal payloads) IAuthenticator.Authenticate under recover; 30% tokens issued by the real IssueToken (4 payload types x variants, durations 1ns..1day/0/negative, sub-second issue instants) validated at clock positions around the expiry instant and lifetime end with matching / other secret, type, application; 30% byte-level mutations of issued tokens (truncate, bit flip, delete/insert/replace a character, segment swap, dropped signature/dot, extra segment, re-sign with either secret, alg none, other spellings of the signature segment); 30% JWTs built by the harness (21 headers, claims with each read claim missing / ill-typed / boundary valued, non-object claims, broken base64, signed with either secret / unsigned / garbage); 10% malformed strings. non-trivial = the string splits in three and its header decodes to an object (the claims logic is reached); distinct = tag set + view shape + types of the claims the validator reads",
    "trusted_base": ["modelled not verified: encoding/base64, encoding/json, crypto/hmac, time.Parse, golang-jwt/jwt/v5 segment decoding; the harness's own view computation (split, base64, json, hmac)",
                     "cryptographic assumption: HMAC-SHA2 unforgeability (strings built without the secret carry no verifying MAC)"],
    "assumptions": ["application names have the form owner/name (one '/')", "payload types have no field named nbf",
                    "numeric date claims within +-4e18 s; durations and clocks within int64 nanoseconds"],
}
