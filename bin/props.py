"""Per-property configuration of bin/check: one file per property under bin/props.d/<ID>.py,
each defining PROP = {...} with the keys

  model            Coq module (under namespace V) defining `trace`, `agrees`, `satisfies`
  properties_file  coq/theories/Properties/<ID>.v  (statements only, `exact` proofs, Print Assumptions)
  n                {"quick": cases, "thorough": cases per shard}
  shards           {"quick": 1, "thorough": k}
  cases_per_file   traces per generated coq/run/cases_*.v (keeps each coqc run short)
  rule             how cases are generated and what makes one non-trivial / distinct (goes to evidence)
  level_text / level_note / design_ref / technique   MANIFEST fields
  trusted_base, assumptions, allowed_axioms          evidence fields / accepted stdlib axioms
  scope, trace_type, agrees, satisfies, case_imports optional overrides for the generated case files
"""
import importlib.util
import os

PROPS = {}
_d = os.path.join(os.path.dirname(os.path.abspath(__file__)), "props.d")
for _f in sorted(os.listdir(_d)):
    if _f.endswith(".py"):
        _spec = importlib.util.spec_from_file_location("prop_" + _f[:-3], os.path.join(_d, _f))
        _m = importlib.util.module_from_spec(_spec)
        _spec.loader.exec_module(_m)
        PROPS[_f[:-3]] = _m.PROP
