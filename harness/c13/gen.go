package c13

import (
	"fmt"
	"sort"

	"verifharness/kit"
)

// ---- generator: structured, mostly valid schemas; a separate malformed stream of requests ----

type genType struct {
	TypeD
	ws string
}

type gen struct {
	r     *kit.Rng
	sc    *Scenario
	types []genType           // all types so far
	roles map[string]string   // role -> declaring ws
	tags  map[string]string   // tag -> declaring ws
	up    map[string][]string // ws -> itself and all (transitive) ancestors
	edges map[string][]string // union role inheritance graph: principal -> inherited
	heavy bool                // role-heavy schema: more roles, more inheritance, grants to inherited roles
	extra []QueryD            // requests aimed at the repeated rules
}

func shuffled(r *kit.Rng, xs []string) []string {
	ys := append([]string{}, xs...)
	for i := len(ys) - 1; i > 0; i-- {
		j := r.Intn(i + 1)
		ys[i], ys[j] = ys[j], ys[i]
	}
	return ys
}

func subset(r *kit.Rng, xs []string, min, max int) []string {
	if len(xs) == 0 {
		return nil
	}
	if max > len(xs) {
		max = len(xs)
	}
	if min > max {
		min = max
	}
	k := min + r.Intn(max-min+1)
	ys := shuffled(r, xs)[:k]
	return ys
}

func weighted(r *kit.Rng, names []string, w []int) string {
	t := 0
	for _, x := range w {
		t += x
	}
	k := r.Intn(t)
	for i, x := range w {
		if k < x {
			return names[i]
		}
		k -= x
	}
	return names[0]
}

var tableKinds = map[string]bool{"cdoc": true, "wdoc": true, "odoc": true, "crecord": true, "object": true}

func class(kind string) string {
	switch {
	case tableKinds[kind]:
		return "table"
	case kind == "view":
		return "view"
	}
	return "func"
}

func (g *gen) visible(ws string) map[string]bool {
	m := map[string]bool{}
	for _, w := range g.up[ws] {
		m[w] = true
	}
	return m
}

func (g *gen) visTypes(ws string) []genType {
	v := g.visible(ws)
	var r []genType
	for _, t := range g.types {
		if v[t.ws] {
			r = append(r, t)
		}
	}
	return r
}

func (g *gen) visRoles(ws string) []string {
	v := g.visible(ws)
	var r []string
	for x, w := range g.roles {
		if v[w] {
			r = append(r, x)
		}
	}
	sort.Strings(r)
	return r
}

func (g *gen) visTags(ws string) []string {
	v := g.visible(ws)
	var r []string
	for x, w := range g.tags {
		if v[w] {
			r = append(r, x)
		}
	}
	sort.Strings(r)
	return r
}

func (g *gen) reaches(from, to string) bool {
	seen := map[string]bool{}
	var dfs func(x string) bool
	dfs = func(x string) bool {
		if x == to {
			return true
		}
		if seen[x] {
			return false
		}
		seen[x] = true
		for _, y := range g.edges[x] {
			if dfs(y) {
				return true
			}
		}
		return false
	}
	return dfs(from)
}

func commonFields(tt []genType) []string {
	if len(tt) == 0 {
		return nil
	}
	cnt := map[string]int{}
	for _, t := range tt {
		for _, f := range t.Fields {
			cnt[f]++
		}
	}
	var r []string
	for f, c := range cnt {
		if c == len(tt) {
			r = append(r, f)
		}
	}
	sort.Strings(r)
	return r
}

var fieldPool = []string{"fa", "fb", "fc", "fd"}

func (g *gen) genRule(ws string, cyclic bool) (RuleD, bool) {
	r := g.r
	roles := g.visRoles(ws)
	if len(roles) == 0 {
		return RuleD{}, false
	}
	role := kit.Pick(r, roles)
	kind := weighted(r, []string{"inherits", "grant", "revoke", "grantall", "revokeall"}, []int{22, 38, 20, 12, 8})
	if g.heavy {
		kind = weighted(r, []string{"inherits", "grant", "revoke", "grantall", "revokeall"}, []int{45, 30, 13, 8, 4})
		if kind != "inherits" {
			// prefer roles that somebody inherits: their grants reach the heirs only through expansion
			var inherited []string
			for _, x := range roles {
				for _, ys := range g.edges {
					for _, y := range ys {
						if y == x {
							inherited = append(inherited, x)
						}
					}
				}
			}
			sort.Strings(inherited)
			if len(inherited) > 0 && r.Chance(2, 3) {
				role = kit.Pick(r, inherited)
			}
		}
	}
	if kind == "inherits" {
		if len(roles) < 2 {
			kind = "grant"
		} else {
			var cand []string
			for _, q := range roles {
				if q != role && (cyclic || !g.reaches(q, role)) {
					cand = append(cand, q)
				}
			}
			if len(cand) == 0 {
				kind = "grant"
			} else {
				inh := subset(r, cand, 1, 1+r.Intn(2))
				sort.Strings(inh)
				for _, q := range inh {
					g.edges[role] = append(g.edges[role], q)
				}
				return RuleD{Kind: "grant", Ops: []string{"inherits"}, Flt: FiltD{K: "qnames", Names: inh}, Role: role}, true
			}
		}
	}
	vt := g.visTypes(ws)
	if len(vt) == 0 {
		return RuleD{}, false
	}
	cl := class(kit.Pick(r, vt).Kind)
	var pool []genType
	for _, t := range vt {
		if class(t.Kind) == cl || (cl != "func" && class(t.Kind) != "func" && r.Chance(1, 4)) {
			pool = append(pool, t)
		}
	}
	chosen := pool
	if len(chosen) > 2 {
		k := 1 + r.Intn(2)
		idx := shuffled(r, func() []string {
			s := make([]string, len(pool))
			for i := range pool {
				s[i] = fmt.Sprint(i)
			}
			return s
		}())[:k]
		chosen = nil
		for _, s := range idx {
			var i int
			fmt.Sscan(s, &i)
			chosen = append(chosen, pool[i])
		}
	} else if len(chosen) == 2 && r.Bool() {
		chosen = chosen[:1]
	}
	names := func(tt []genType) []string {
		var s []string
		for _, t := range tt {
			s = append(s, t.Name)
		}
		sort.Strings(s)
		return s
	}
	kinds := func(tt []genType) []string {
		m := map[string]bool{}
		for _, t := range tt {
			m[t.Kind] = true
		}
		var s []string
		for k := range m {
			s = append(s, k)
		}
		sort.Strings(s)
		return s
	}
	var flt FiltD
	fk := weighted(r, []string{"qnames", "tags", "types", "wstypes", "all", "and", "or", "not"}, []int{40, 24, 9, 7, 6, 6, 4, 4})
	switch fk {
	case "tags":
		if tg := g.visTags(ws); len(tg) > 0 {
			flt = FiltD{K: "tags", Names: subset(r, tg, 1, 2)}
			// most of the time at least one tag that a chosen type carries, often together with another tag
			if ct := chosen[0].Tags; len(ct) > 0 && r.Chance(3, 4) {
				flt.Names = []string{kit.Pick(r, ct)}
				if r.Chance(2, 3) {
					if o := kit.Pick(r, tg); o != flt.Names[0] {
						flt.Names = append(flt.Names, o)
					}
				}
			}
			sort.Strings(flt.Names)
		} else {
			flt = FiltD{K: "qnames", Names: names(chosen)}
		}
	case "types":
		flt = FiltD{K: "types", Kinds: kinds(chosen)}
	case "wstypes":
		flt = FiltD{K: "wstypes", Ws: chosen[0].ws, Kinds: kinds(chosen)}
	case "all":
		if cl == "func" {
			flt = FiltD{K: "allfunctions"}
		} else {
			flt = FiltD{K: "wstypes", Ws: ws, Kinds: []string{"cdoc", "wdoc", "odoc", "crecord", "object"}}
		}
	case "and":
		flt = FiltD{K: "and", Sub: []FiltD{{K: "wstypes", Ws: chosen[0].ws, Kinds: kinds(chosen)}, {K: "not", Sub: []FiltD{{K: "qnames", Names: names(chosen[:1])}}}}}
		if tg := g.visTags(ws); len(tg) > 0 && r.Bool() {
			flt = FiltD{K: "and", Sub: []FiltD{{K: "types", Kinds: kinds(chosen)}, {K: "tags", Names: tg[:1]}}}
		}
	case "or":
		if len(chosen) > 1 {
			flt = FiltD{K: "or", Sub: []FiltD{{K: "qnames", Names: names(chosen[:1])}, {K: "qnames", Names: names(chosen[1:])}}}
		} else {
			flt = FiltD{K: "or", Sub: []FiltD{{K: "qnames", Names: names(chosen)}, {K: "types", Kinds: kinds(chosen)}}}
		}
	case "not":
		flt = FiltD{K: "and", Sub: []FiltD{{K: "types", Kinds: kinds(pool)}, {K: "not", Sub: []FiltD{{K: "qnames", Names: names(chosen[:1])}}}}}
	default:
		flt = FiltD{K: "qnames", Names: names(chosen)}
	}
	rd := RuleD{Kind: kind, Flt: flt, Role: role}
	if kind == "grantall" || kind == "revokeall" {
		return rd, true
	}
	hasView, hasTable := false, false
	for _, t := range chosen {
		hasView = hasView || t.Kind == "view"
		hasTable = hasTable || tableKinds[t.Kind]
	}
	switch {
	case cl == "func" && !hasView && !hasTable:
		rd.Ops = []string{"execute"}
	case hasView:
		rd.Ops = subset(r, []string{"insert", "update", "select"}, 1, 3)
	default:
		rd.Ops = subset(r, []string{"insert", "update", "select", "activate", "deactivate"}, 1, 3)
		if r.Chance(1, 3) {
			rd.Ops = []string{"select"}
		}
	}
	sort.Strings(rd.Ops)
	if cl != "func" && r.Chance(2, 5) {
		cf := commonFields(chosen)
		if r.Chance(1, 8) {
			cf = append(cf, "sys.ID")
		}
		if fk != "qnames" && r.Chance(1, 3) {
			cf = fieldPool // may be refused by the builder, or be foreign to a descendant's type
		}
		rd.Fields = subset(r, cf, 1, 2)
		sort.Strings(rd.Fields)
	}
	return rd, true
}

// genVsqlScenario: a scenario inside the VSQL subset (vsql.go): 1-2 workspaces of tables and roles; the
// WORKSPACE block lists its GRANTs before its REVOKEs (the compiler rejects the other order there),
// 1-3 ALTER WORKSPACE blocks hold GRANTs and REVOKEs in any order, with exact repeats.
func genVsqlScenario(r *kit.Rng) *Scenario {
	sc := &Scenario{Vsql: true}
	typeNames := shuffled(r, []string{"ta", "tb", "tc", "td", "te", "tf"})
	roleNames := shuffled(r, []string{"ra", "rb", "rc", "rd", "re"})
	ti, ri := 0, 0
	nws := 1 + r.Intn(2)
	type tinfo struct {
		name   string
		fields []string
	}
	perWs := map[string][]tinfo{}
	rolesOf := map[string][]string{}
	rule := func(ws string) RuleD {
		t := kit.Pick(r, perWs[ws])
		rd := RuleD{Kind: kit.Pick(r, []string{"grant", "grant", "revoke"}), Flt: FiltD{K: "qnames", Names: []string{t.name}}, Role: kit.Pick(r, rolesOf[ws])}
		// one operation per statement: the compiler writes a statement with several operations as one
		// rule per operation, which would not map one to one onto the declared list
		rd.Ops = subset(r, []string{"select", "insert", "update", "activate", "deactivate"}, 1, 1)
		if r.Chance(1, 3) {
			rd.Fields = subset(r, t.fields, 1, 2)
			sort.Strings(rd.Fields)
		}
		sort.Strings(rd.Ops)
		if r.Chance(1, 5) { // ALL / ALL(columns) ON TABLE
			rd.Kind += "all"
			rd.Ops = nil
		}
		return rd
	}
	for wi, wn := range shuffled(r, []string{"wa", "wb", "wc"})[:nws] {
		w := WsD{Name: wn}
		for k := 0; k < 1+r.Intn(2); k++ {
			t := TypeD{Name: typeNames[ti], Kind: kit.Pick(r, []string{"cdoc", "cdoc", "wdoc", "odoc"}), Fields: subset(r, fieldPool, 1, 3)}
			sort.Strings(t.Fields)
			ti++
			w.Types = append(w.Types, t)
			perWs[wn] = append(perWs[wn], tinfo{t.Name, t.Fields})
		}
		for k := 0; k < 2; k++ {
			w.Roles = append(w.Roles, roleNames[ri])
			rolesOf[wn] = append(rolesOf[wn], roleNames[ri])
			ri++
		}
		if r.Chance(1, 2) {
			w.Rules = append(w.Rules, RuleD{Kind: "grant", Ops: []string{"inherits"}, Flt: FiltD{K: "qnames", Names: []string{w.Roles[0]}}, Role: w.Roles[1]})
		}
		var gg, rr []RuleD
		for k := 0; k < r.Intn(5); k++ {
			if rd := rule(wn); rd.Kind == "grant" || rd.Kind == "grantall" {
				gg = append(gg, rd)
			} else {
				rr = append(rr, rd)
			}
		}
		w.Rules = append(append(w.Rules, gg...), rr...)
		sc.Wss = append(sc.Wss, w)
		_ = wi
	}
	for k := 0; k < 1+r.Intn(3); k++ {
		ws := kit.Pick(r, sc.Wss).Name
		a := AlterD{Ws: ws}
		for j := 0; j < 1+r.Intn(4); j++ {
			rd := rule(ws)
			a.Rules = append(a.Rules, rd)
			if r.Chance(1, 2) { // the opposite, then the same again
				o := rd
				o.Kind = map[string]string{"grant": "revoke", "revoke": "grant", "grantall": "revokeall", "revokeall": "grantall"}[rd.Kind]
				a.Rules = append(a.Rules, o, rd)
			}
		}
		sc.Alter = append(sc.Alter, a)
	}
	for _, w := range sc.Wss {
		for _, t := range perWs[w.Name] {
			for _, role := range rolesOf[w.Name] {
				for _, op := range subset(r, []string{"select", "insert", "update", "activate", "deactivate"}, 2, 4) {
					q := QueryD{Ws: w.Name, Op: op, Res: t.name, Roles: []string{role}}
					if (op == "select" || op == "insert" || op == "update") && r.Chance(1, 2) {
						q.Flds = subset(r, t.fields, 1, 2)
					}
					sc.Queries = append(sc.Queries, q)
				}
			}
		}
		sc.Pub = append(sc.Pub, PubD{Ws: w.Name, Role: rolesOf[w.Name][0]})
		for _, role := range rolesOf[w.Name] {
			sc.RRA = append(sc.RRA, RRAD{Ws: w.Name, Role: role})
		}
	}
	return sc
}

func genScenario(r *kit.Rng, tier string, idx int) *Scenario {
	if idx%9 == 4 {
		return genVsqlScenario(r)
	}
	g := &gen{r: r, sc: &Scenario{}, roles: map[string]string{}, tags: map[string]string{}, up: map[string][]string{}, edges: map[string][]string{}}
	cyclic := idx%17 == 11
	nws := 1 + []int{0, 0, 0, 1, 1, 1, 2, 2, 3, 3}[r.Intn(10)]
	wsNames := shuffled(r, []string{"wa", "wb", "wc", "wd", "we"})[:nws]
	typeNames := shuffled(r, []string{"ta", "tb", "tc", "td", "te", "tf", "tg", "th", "ti", "tj", "tk", "tl"})
	roleNames := shuffled(r, []string{"ra", "rb", "rc", "rd", "re", "rf", "rg"})
	nroles := 2 + r.Intn(5)
	g.heavy = idx%4 == 1
	if g.heavy {
		nroles = 5 + r.Intn(3)
	}
	nrules := 1 + r.Intn(12)
	if r.Chance(1, 6) {
		nrules += 6
	}
	if g.heavy {
		nrules += 8
	}
	ti, ri := 0, 0
	for wi, wn := range wsNames {
		w := WsD{Name: wn}
		if wi > 0 && r.Chance(4, 5) {
			w.Anc = subset(r, wsNames[:wi], 1, 2)
			sort.Strings(w.Anc)
		}
		up := map[string]bool{wn: true}
		for _, a := range w.Anc {
			for _, x := range g.up[a] {
				up[x] = true
			}
		}
		for x := range up {
			g.up[wn] = append(g.up[wn], x)
		}
		sort.Strings(g.up[wn])
		for k := 0; k < 2; k++ {
			if r.Chance(3, 4) {
				tg := fmt.Sprintf("g%s%d", wn, k)
				w.Tags = append(w.Tags, tg)
				g.tags[tg] = wn
			}
		}
		nt := 1 + r.Intn(3)
		for k := 0; k < nt && ti < len(typeNames); k++ {
			t := TypeD{Name: typeNames[ti], Kind: weighted(r, []string{"cdoc", "wdoc", "odoc", "crecord", "object", "view", "command", "query"}, []int{25, 15, 7, 7, 6, 16, 12, 12})}
			ti++
			if class(t.Kind) != "func" {
				t.Fields = subset(r, fieldPool, 1, 3)
				sort.Strings(t.Fields)
			}
			if len(w.Tags) > 0 && r.Chance(4, 5) {
				t.Tags = subset(r, w.Tags, 1, 2)
				sort.Strings(t.Tags)
			}
			w.Types = append(w.Types, t)
			g.types = append(g.types, genType{t, wn})
		}
		// most roles live in the first workspaces so that descendants see them
		nr := 0
		if wi == nws-1 {
			nr = nroles - ri
		} else if wi == 0 {
			nr = (nroles + 1) / 2
		} else if ri < nroles {
			nr = 1 + r.Intn(nroles-ri)
		}
		for k := 0; k < nr && ri < nroles; k++ {
			w.Roles = append(w.Roles, roleNames[ri])
			g.roles[roleNames[ri]] = wn
			ri++
		}
		nr = nrules / nws
		if wi == nws-1 {
			nr = nrules - (nrules/nws)*(nws-1)
		}
		for k := 0; k < nr; k++ {
			if rd, ok := g.genRule(wn, cyclic); ok {
				w.Rules = append(w.Rules, rd)
			}
		}
		g.sc.Wss = append(g.sc.Wss, w)
	}
	if cyclic {
		// close a role inheritance cycle inside the last workspace that sees two roles
		for wi := len(g.sc.Wss) - 1; wi >= 0; wi-- {
			w := &g.sc.Wss[wi]
			if rr := g.visRoles(w.Name); len(rr) >= 2 {
				rr = shuffled(r, rr)
				w.Rules = append(w.Rules,
					RuleD{Kind: "grant", Ops: []string{"inherits"}, Flt: FiltD{K: "qnames", Names: []string{rr[1]}}, Role: rr[0]},
					RuleD{Kind: "grant", Ops: []string{"inherits"}, Flt: FiltD{K: "qnames", Names: []string{rr[0]}}, Role: rr[1]})
				break
			}
		}
		g.sc.Isolated = true
		g.sc.Note = "role inheritance cycle: every request runs in a child process"
	}
	if !cyclic {
		g.addRepeats()
		g.addScribbles()
	}
	g.genRequests(tier, cyclic)
	g.sc.Queries = append(g.sc.Queries, g.extra...)
	return g.sc
}

// addRepeats: rule sequences in which a rule is repeated EXACTLY after an opposing or overlapping
// rule (GRANT, REVOKE, same GRANT / REVOKE, GRANT, same REVOKE; whole-operation and per field),
// inside one workspace, through a later AlterWorkspace, and with the same text in an ancestor and a
// descendant.  The ACL is an ordered list: the repeat must take effect again.
func (g *gen) addRepeats() {
	r := g.r
	flip := map[string]string{"grant": "revoke", "revoke": "grant", "grantall": "revokeall", "revokeall": "grantall"}
	n := []int{0, 1, 1, 2, 3}[r.Intn(5)]
	for k := 0; k < n; k++ {
		wi := r.Intn(len(g.sc.Wss))
		w := &g.sc.Wss[wi]
		var R RuleD
		var cands []RuleD
		for _, x := range w.Rules {
			if !(len(x.Ops) == 1 && x.Ops[0] == "inherits") {
				cands = append(cands, x)
			}
		}
		if len(cands) > 0 && r.Chance(1, 2) {
			R = kit.Pick(r, cands) // repeat a rule the workspace already declares
			R.Skipped = ""
		} else {
			// a fresh triple on one table or function the workspace sees
			vt, roles := g.visTypes(w.Name), g.visRoles(w.Name)
			if len(vt) == 0 || len(roles) == 0 {
				continue
			}
			t := vt[r.Intn(len(vt))]
			R = RuleD{Kind: kit.Pick(r, []string{"grant", "grant", "revoke"}), Flt: FiltD{K: "qnames", Names: []string{t.Name}}, Role: kit.Pick(r, roles)}
			switch {
			case class(t.Kind) == "func":
				R.Ops = []string{"execute"}
			case t.Kind == "view":
				R.Ops = subset(r, []string{"insert", "select", "update"}, 1, 2)
			default:
				R.Ops = subset(r, []string{"activate", "insert", "select", "update"}, 1, 2)
			}
			sort.Strings(R.Ops)
			if len(t.Fields) > 0 && r.Chance(1, 2) {
				R.Fields = subset(r, t.Fields, 1, 2)
				sort.Strings(R.Fields)
			}
			w.Rules = append(w.Rules, R)
		}
		// the rule in between: the exact opposite, or an overlapping one (fewer operations, one field, all fields)
		O := R
		O.Kind = flip[R.Kind]
		switch r.Intn(4) {
		case 0:
			if len(O.Ops) > 1 {
				O.Ops = O.Ops[:1]
			}
		case 1:
			if len(R.Fields) == 0 && R.Flt.K == "qnames" && (R.Kind == "grant" || R.Kind == "revoke") {
				for _, t := range g.types {
					if t.Name == R.Flt.Names[0] && len(t.Fields) > 0 {
						O.Fields = []string{t.Fields[r.Intn(len(t.Fields))]}
					}
				}
			} else {
				O.Fields = nil
			}
		}
		if O.Kind == "grantall" || O.Kind == "revokeall" {
			O.Ops, O.Fields = nil, nil
		}
		seq := []RuleD{O, R}
		if r.Chance(1, 4) {
			seq = []RuleD{O, R, O, R}
		}
		target := w.Name
		switch r.Intn(4) {
		case 0: // all in the workspace's own declaration
			w.Rules = append(w.Rules, seq...)
		case 1: // the opposing rule at declaration, the repeat added later
			w.Rules = append(w.Rules, seq[0])
			g.sc.Alter = append(g.sc.Alter, AlterD{Ws: w.Name, Rules: seq[1:]})
		case 2: // both added later
			g.sc.Alter = append(g.sc.Alter, AlterD{Ws: w.Name, Rules: seq})
		default: // the same text again in a descendant workspace
			var desc []int
			for di := range g.sc.Wss {
				if di != wi {
					for _, u := range g.up[g.sc.Wss[di].Name] {
						if u == w.Name {
							desc = append(desc, di)
						}
					}
				}
			}
			if len(desc) == 0 {
				w.Rules = append(w.Rules, seq...)
			} else {
				d := &g.sc.Wss[desc[r.Intn(len(desc))]]
				d.Rules = append(d.Rules, seq...)
				target = d.Name
			}
		}
		// ask about exactly what the repeated rule is about
		if R.Flt.K == "qnames" {
			for _, tn := range R.Flt.Names {
				oo := R.Ops
				if len(oo) == 0 {
					oo = []string{"select", "execute", "insert"}
				}
				for _, op := range oo {
					for _, ff := range [][]string{nil, R.Fields, O.Fields} {
						g.extra = append(g.extra, QueryD{Ws: target, Op: op, Res: tn, Flds: ff, Roles: []string{R.Role}})
					}
				}
			}
		}
	}
}

func (g *gen) genRequests(tier string, cyclic bool) {
	r := g.r
	sc := g.sc
	var allRoles []string
	for x := range g.roles {
		allRoles = append(allRoles, x)
	}
	sort.Strings(allRoles)
	nq := 36
	if tier == "thorough" {
		nq = 60
	}
	if cyclic {
		nq = 5
	}
	for k := 0; k < nq; k++ {
		ws := kit.Pick(r, sc.Wss).Name
		vt := g.visTypes(ws)
		q := QueryD{Ws: ws}
		malformed := r.Chance(1, 9)
		var t *genType
		if len(vt) > 0 && !(malformed && r.Chance(1, 3)) {
			t = &vt[r.Intn(len(vt))]
			q.Res = t.Name
		} else {
			switch r.Intn(3) {
			case 0:
				q.Res = "nosuch"
			case 1:
				q.Res = kit.Pick(r, g.types).Name // maybe not visible from ws
			default:
				q.Res = kit.Pick(r, allRoles)
			}
		}
		applicable := []string{"execute"}
		if t != nil && t.Kind == "view" {
			applicable = []string{"insert", "update", "select"}
		} else if t != nil && tableKinds[t.Kind] {
			applicable = []string{"insert", "update", "select", "select", "activate", "deactivate"}
		}
		if malformed && r.Chance(1, 2) {
			q.Op = kit.Pick(r, []string{"insert", "select", "activate", "execute", "inherits", "execwithparam", "null"})
		} else {
			q.Op = kit.Pick(r, applicable)
		}
		if t != nil && class(t.Kind) != "func" {
			all := append([]string{"sys.ID", "sys.QName", "sys.IsActive"}, t.Fields...)
			if t.Kind == "view" {
				all = append([]string{"pk", "cc", "sys.QName"}, t.Fields...)
			}
			switch q.Op {
			case "insert", "update", "select":
				if r.Chance(3, 5) {
					q.Flds = subset(r, all, 1, 3)
				}
				if malformed && r.Chance(1, 3) {
					q.Flds = append(q.Flds, "nofield")
				}
			case "activate", "deactivate":
				if r.Chance(1, 6) {
					q.Flds = subset(r, all, 1, 2)
				}
			}
		}
		// role subsets: sizes around the capacities of the sorted role slice (1,2,4: full; 3,5: spare room)
		size := []int{1, 1, 2, 2, 3, 3, 3, 4, 5, 5}[r.Intn(10)]
		if malformed && r.Chance(1, 4) {
			size = 0
		}
		pool := append([]string{}, allRoles...)
		if r.Chance(1, 12) {
			pool = append(pool, "sys.System")
		}
		if r.Chance(1, 8) {
			pool = append(pool, "zz.stranger")
		}
		q.Roles = subset(r, pool, size, size)
		if size >= 3 && r.Chance(1, 2) {
			// principals of inheritance rules first: their expansion is what the loop must not skip
			var inh, rest []string
			for _, x := range shuffled(r, pool) {
				if len(g.edges[x]) > 0 {
					inh = append(inh, x)
				} else {
					rest = append(rest, x)
				}
			}
			q.Roles = append(inh, rest...)
			if len(q.Roles) > size {
				q.Roles = q.Roles[:size]
			}
		}
		if len(q.Roles) > 0 && r.Chance(1, 15) {
			q.Roles = append(q.Roles, q.Roles[0]) // duplicate
		}
		if q.Roles == nil {
			q.Roles = []string{}
		}
		sc.Queries = append(sc.Queries, q)
		if len(q.Roles) >= 2 && len(vt) > 0 && r.Chance(1, 3) {
			// a request context: the same role slice (half of the time in ascending order, as a role set
			// usually is kept) serves several requests in a row, for other resources and operations
			ctx := append([]string{}, q.Roles...)
			if r.Bool() {
				sort.Strings(ctx)
			}
			for j := 0; j < 2+r.Intn(2); j++ {
				t2 := vt[r.Intn(len(vt))]
				p := QueryD{Ws: ws, Res: t2.Name, Roles: ctx, Op: "execute"}
				if t2.Kind == "view" {
					p.Op = kit.Pick(r, []string{"insert", "update", "select"})
				} else if tableKinds[t2.Kind] {
					p.Op = kit.Pick(r, []string{"insert", "update", "select", "activate", "deactivate"})
				}
				sc.Queries = append(sc.Queries, p)
			}
		}
		if len(q.Roles) >= 2 && r.Chance(1, 4) {
			p := q
			p.Roles = shuffled(r, q.Roles) // the same request with the roles in another order
			sc.Queries = append(sc.Queries, p)
		}
		if n0 := distinct(q.Roles); n0 > 0 && !isPow2(n0) && r.Chance(1, 4) {
			p := q
			p.Roles = append([]string{}, q.Roles...)
			for i := 0; !isPow2(n0 + i); i++ {
				p.Roles = append(p.Roles, fmt.Sprintf("zz.pad%d", i))
			}
			sc.Queries = append(sc.Queries, p)
		}
	}
	if cyclic {
		return
	}
	g.genExpansionProbes()
	for _, w := range sc.Wss {
		rr := g.visRoles(w.Name)
		for _, x := range rr {
			sc.RRA = append(sc.RRA, RRAD{Ws: w.Name, Role: x})
		}
		for _, x := range subset(r, append(rr, "zz.stranger"), 1, 2) {
			sc.Pub = append(sc.Pub, PubD{Ws: w.Name, Role: x})
		}
	}
}

// genExpansionProbes asks, with 3 or 5 roles (a sorted slice with spare capacity), for a resource
// whose rule reaches one of the supplied roles only through inheritance: the answer then depends
// on every supplied role really being expanded
func (g *gen) genExpansionProbes() {
	r := g.r
	for _, w := range g.sc.Wss {
		rr := g.visRoles(w.Name)
		var inh []string
		for _, x := range rr {
			if len(g.edges[x]) > 0 {
				inh = append(inh, x)
			}
		}
		if len(inh) == 0 || len(rr) < 3 {
			continue
		}
		vis := g.visible(w.Name)
		for try := 0; try < 3; try++ {
			d := kit.Pick(r, inh)
			e := kit.Pick(r, g.edges[d])
			// a rule for the inherited role, declared where this workspace sees it
			var rules []RuleD
			for _, x := range g.sc.Wss {
				if vis[x.Name] {
					for _, rl := range x.Rules {
						if rl.Role == e && !(len(rl.Ops) == 1 && rl.Ops[0] == "inherits") {
							rules = append(rules, rl)
						}
					}
				}
			}
			if len(rules) == 0 {
				continue
			}
			rl := kit.Pick(r, rules)
			vt := g.visTypes(w.Name)
			if len(vt) == 0 {
				continue
			}
			t := vt[r.Intn(len(vt))]
			if rl.Flt.K == "qnames" {
				for _, x := range vt {
					if x.Name == rl.Flt.Names[0] {
						t = x
					}
				}
			}
			op := "execute"
			if class(t.Kind) != "func" {
				op = "select"
				if len(rl.Ops) > 0 && rl.Ops[0] != "execute" {
					op = kit.Pick(r, rl.Ops)
				}
			}
			size := 3
			if len(rr) >= 5 && r.Chance(1, 3) {
				size = 5
			}
			// first the roles sorting before d whose own expansion inserts a name before d (that insertion
			// is what shifts d out of the loop's view), then anything else
			var shifting []string
			for _, x := range inh {
				if x < d {
					for _, y := range g.edges[x] {
						if y < d {
							shifting = append(shifting, x)
							break
						}
					}
				}
			}
			others := append(append(shuffled(r, shifting), shuffled(r, inh)...), shuffled(r, rr)...)
			roles := []string{d}
			for _, x := range others {
				dup := false
				for _, y := range roles {
					dup = dup || x == y
				}
				if !dup && len(roles) < size {
					roles = append(roles, x)
				}
			}
			g.sc.Queries = append(g.sc.Queries, QueryD{Ws: w.Name, Op: op, Res: t.Name, Roles: roles})
		}
	}
}

// addScribbles: for a few field-level rules on one named type the caller overwrites, after the
// declaration, the slice it passed with other fields of that type (a legal thing to do with one's own
// slice): the declared rule must stay what it was
func (g *gen) addScribbles() {
	r := g.r
	if !r.Chance(1, 3) {
		return
	}
	for wi := range g.sc.Wss {
		for ri := range g.sc.Wss[wi].Rules {
			rl := &g.sc.Wss[wi].Rules[ri]
			if len(rl.Fields) == 0 || rl.Flt.K != "qnames" || len(rl.Flt.Names) != 1 || !r.Chance(1, 2) {
				continue
			}
			for _, t := range g.types {
				if t.Name == rl.Flt.Names[0] && len(t.Fields) >= len(rl.Fields) {
					rl.Scribble = shuffled(r, t.Fields)[:len(rl.Fields)]
					for _, op := range rl.Ops {
						for _, f := range append(append([]string{}, rl.Fields...), rl.Scribble...) {
							g.extra = append(g.extra, QueryD{Ws: g.sc.Wss[wi].Name, Op: op, Res: t.Name, Flds: []string{f}, Roles: []string{rl.Role}})
						}
					}
				}
			}
		}
	}
}
