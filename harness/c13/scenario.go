// Package c13: harness of property C13 (ACL decisions equal the declared grant/revoke semantics).
//
// A scenario is a declarative description of an application schema (workspaces with ancestors,
// tags, types, roles, ordered ACL rules) plus requests.  It is built through appdef/builder, the
// real acl.IsOperationAllowed / RecursiveRoleAncestors / PublishedTypes are asked, and the built
// schema (read back from the real IAppDef, not from the description) together with the observed
// answers is printed as a Coq `trace`.
package c13

import (
	"errors"
	"fmt"
	"sort"
	"strings"

	"github.com/voedger/voedger/pkg/appdef"
	"github.com/voedger/voedger/pkg/appdef/acl"
	"github.com/voedger/voedger/pkg/appdef/builder"
	"github.com/voedger/voedger/pkg/appdef/filter"
	"verifharness/kit"
)

type FiltD struct {
	K     string   `json:"k"` // qnames tags types wstypes and or not true
	Names []string `json:"names,omitempty"`
	Kinds []string `json:"kinds,omitempty"`
	Ws    string   `json:"ws,omitempty"`
	Sub   []FiltD  `json:"sub,omitempty"`
}

type RuleD struct {
	Kind    string   `json:"kind"` // grant revoke grantall revokeall
	Ops     []string `json:"ops,omitempty"`
	Flt     FiltD    `json:"flt"`
	Fields  []string `json:"fields,omitempty"`
	Role    string   `json:"role"`
	Skipped string   `json:"skipped,omitempty"` // observed: the builder refused the rule
	// Scribble: after the rule is declared the caller overwrites ITS OWN field slice (the one it passed)
	// with these names (same length as Fields): a declared rule must not change
	Scribble []string `json:"scribble,omitempty"`
}

type TypeD struct {
	Name   string   `json:"name"`
	Kind   string   `json:"kind"` // cdoc wdoc odoc crecord object view command query
	Fields []string `json:"fields,omitempty"`
	Tags   []string `json:"tags,omitempty"`
}

type WsD struct {
	Name  string   `json:"name"`
	Anc   []string `json:"anc,omitempty"`
	Tags  []string `json:"tags,omitempty"`
	Types []TypeD  `json:"types,omitempty"`
	Roles []string `json:"roles,omitempty"`
	Rules []RuleD  `json:"rules,omitempty"`
}

type QueryD struct {
	Ws    string   `json:"ws"`
	Op    string   `json:"op"`
	Res   string   `json:"res"`
	Flds  []string `json:"flds,omitempty"`
	Roles []string `json:"roles"`
	Obs   string   `json:"obs,omitempty"`   // observed: allow deny err:<kind> crash
	Flags []string `json:"flags,omitempty"` // observed finding indicators
}

type RRAD struct {
	Ws    string   `json:"ws"`
	Role  string   `json:"role"`
	Obs   []string `json:"obs,omitempty"`
	Flags []string `json:"flags,omitempty"`
}

type PubEntry struct {
	Type string     `json:"type"`
	Ops  []PubOpObs `json:"ops"`
}
type PubOpObs struct {
	Op     string   `json:"op"`
	All    bool     `json:"all"`
	Fields []string `json:"fields,omitempty"`
}
type PubD struct {
	Ws    string     `json:"ws"`
	Role  string     `json:"role"`
	Obs   []PubEntry `json:"obs,omitempty"`
	Flags []string   `json:"flags,omitempty"`
}

// AlterD: rules added to an existing workspace after all workspaces were created (IAppDefBuilder.AlterWorkspace)
type AlterD struct {
	Ws    string  `json:"ws"`
	Rules []RuleD `json:"rules"`
}

type Scenario struct {
	Note    string   `json:"note,omitempty"`
	Wss     []WsD    `json:"wss"`
	Alter   []AlterD `json:"alter,omitempty"`
	// Vsql: the scenario is rendered as VSQL source and compiled by the real parser (vsql.go)
	Vsql bool `json:"vsql,omitempty"`
	Queries []QueryD `json:"queries"`
	RRA     []RRAD   `json:"rra,omitempty"`
	Pub     []PubD   `json:"pub,omitempty"`
	// Isolated: every request runs in a child process (role inheritance cycle: the real code may
	// overflow the stack, which cannot be recovered in-process)
	Isolated bool `json:"isolated,omitempty"`
}

const pkgName = "test"

func qn(s string) appdef.QName {
	if i := strings.IndexByte(s, '.'); i >= 0 {
		return appdef.NewQName(s[:i], s[i+1:])
	}
	return appdef.NewQName(pkgName, s)
}

var opByName = map[string]appdef.OperationKind{
	"insert": appdef.OperationKind_Insert, "update": appdef.OperationKind_Update, "activate": appdef.OperationKind_Activate,
	"deactivate": appdef.OperationKind_Deactivate, "select": appdef.OperationKind_Select, "execute": appdef.OperationKind_Execute,
	"execwithparam": appdef.OperationKind_ExecuteWithParam, "inherits": appdef.OperationKind_Inherits, "null": appdef.OperationKind_null,
}

var kindByName = map[string]appdef.TypeKind{
	"cdoc": appdef.TypeKind_CDoc, "wdoc": appdef.TypeKind_WDoc, "odoc": appdef.TypeKind_ODoc, "crecord": appdef.TypeKind_CRecord,
	"object": appdef.TypeKind_Object, "view": appdef.TypeKind_ViewRecord, "command": appdef.TypeKind_Command, "query": appdef.TypeKind_Query,
	"role": appdef.TypeKind_Role, "gdoc": appdef.TypeKind_GDoc, "wrecord": appdef.TypeKind_WRecord,
}

func opName(o appdef.OperationKind) string {
	for n, v := range opByName {
		if v == o {
			return n
		}
	}
	return fmt.Sprintf("op%d", o)
}

func ops(names []string) []appdef.OperationKind {
	r := make([]appdef.OperationKind, len(names))
	for i, n := range names {
		r[i] = opByName[n]
	}
	return r
}

func mkFilter(d FiltD) appdef.IFilter {
	names := func() []appdef.QName {
		r := make([]appdef.QName, len(d.Names))
		for i, n := range d.Names {
			r[i] = qn(n)
		}
		return r
	}
	kinds := func() []appdef.TypeKind {
		r := make([]appdef.TypeKind, len(d.Kinds))
		for i, n := range d.Kinds {
			r[i] = kindByName[n]
		}
		return r
	}
	subs := func() []appdef.IFilter {
		r := make([]appdef.IFilter, len(d.Sub))
		for i, s := range d.Sub {
			r[i] = mkFilter(s)
		}
		return r
	}
	switch d.K {
	case "qnames":
		return filter.QNames(names()...)
	case "tags":
		return filter.Tags(names()...)
	case "types":
		return filter.Types(kinds()...)
	case "wstypes":
		return filter.WSTypes(qn(d.Ws), kinds()...)
	case "alltables":
		return filter.AllTables()
	case "allfunctions":
		return filter.AllFunctions()
	case "and":
		return filter.And(subs()...)
	case "or":
		return filter.Or(subs()...)
	case "not":
		return filter.Not(mkFilter(d.Sub[0]))
	}
	return filter.True()
}

func protect(f func()) (msg string) {
	defer func() {
		if r := recover(); r != nil {
			msg = fmt.Sprint(r)
			if msg == "" {
				msg = "panic"
			}
		}
	}()
	f()
	return ""
}

// build constructs the application through the real builder.  Rules the builder refuses are
// marked Skipped (they are then not part of the schema).
func build(sc *Scenario) (appdef.IAppDef, error) {
	if sc.Vsql {
		return buildVsql(sc)
	}
	adb := builder.New()
	adb.AddPackage(pkgName, "test.com/test")
	for wi := range sc.Wss {
		w := &sc.Wss[wi]
		wsb := adb.AddWorkspace(qn(w.Name))
		if len(w.Anc) > 0 {
			aa := make([]appdef.QName, len(w.Anc))
			for i, a := range w.Anc {
				aa[i] = qn(a)
			}
			wsb.SetAncestors(aa[0], aa[1:]...)
		}
		for _, t := range w.Tags {
			wsb.AddTag(qn(t))
		}
		for _, t := range w.Types {
			tags := make([]appdef.QName, len(t.Tags))
			for i, g := range t.Tags {
				tags[i] = qn(g)
			}
			addFields := func(b appdef.IFieldsBuilder) {
				for _, f := range t.Fields {
					b.AddField(f, appdef.DataKind_int32, false)
				}
			}
			switch t.Kind {
			case "cdoc":
				b := wsb.AddCDoc(qn(t.Name))
				addFields(b)
				b.SetTag(tags...)
			case "wdoc":
				b := wsb.AddWDoc(qn(t.Name))
				addFields(b)
				b.SetTag(tags...)
			case "odoc":
				b := wsb.AddODoc(qn(t.Name))
				addFields(b)
				b.SetTag(tags...)
			case "crecord":
				b := wsb.AddCRecord(qn(t.Name))
				addFields(b)
				b.SetTag(tags...)
			case "object":
				b := wsb.AddObject(qn(t.Name))
				addFields(b)
				b.SetTag(tags...)
			case "view":
				b := wsb.AddView(qn(t.Name))
				b.Key().PartKey().AddField("pk", appdef.DataKind_int32)
				b.Key().ClustCols().AddField("cc", appdef.DataKind_int32)
				for _, f := range t.Fields {
					b.Value().AddField(f, appdef.DataKind_int32, false)
				}
				b.SetTag(tags...)
			case "command":
				wsb.AddCommand(qn(t.Name)).SetTag(tags...)
			case "query":
				wsb.AddQuery(qn(t.Name)).SetTag(tags...)
			default:
				return nil, fmt.Errorf("unknown type kind %q", t.Kind)
			}
		}
		for _, r := range w.Roles {
			wsb.AddRole(qn(r))
		}
		for ri := range w.Rules {
			applyRule(wsb, &w.Rules[ri])
		}
	}
	for ai := range sc.Alter {
		a := &sc.Alter[ai]
		wsb := adb.AlterWorkspace(qn(a.Ws))
		for ri := range a.Rules {
			applyRule(wsb, &a.Rules[ri])
		}
	}
	return adb.Build()
}

// applyRule passes one declared rule to the builder; a rule the builder refuses is marked Skipped
func applyRule(wsb appdef.IWorkspaceBuilder, r *RuleD) {
	r.Skipped = protect(func() {
		flt := mkFilter(r.Flt)
		// the builder accepts a rule whose filter matches nothing and fails only in Build: refuse it here
		n := 0
		for range appdef.FilterMatches(flt, wsb.Workspace().Types()) {
			n++
		}
		if n == 0 {
			panic("filter has no matches")
		}
		var ff []string
		if len(r.Fields) > 0 {
			ff = append([]string{}, r.Fields...) // the caller's slice
			defer func() {
				if len(r.Scribble) == len(ff) {
					copy(ff, r.Scribble)
				}
			}()
		}
		switch r.Kind {
		case "grant":
			wsb.Grant(ops(r.Ops), flt, ff, qn(r.Role))
		case "revoke":
			wsb.Revoke(ops(r.Ops), flt, ff, qn(r.Role))
		case "grantall":
			wsb.GrantAll(flt, qn(r.Role))
		case "revokeall":
			wsb.RevokeAll(flt, qn(r.Role))
		default:
			panic("unknown rule kind " + r.Kind)
		}
	})
}

// declared lists the rules the builder accepted, in the order they were passed to it
func declared(sc *Scenario) (ws []string, rules []*RuleD) {
	for wi := range sc.Wss {
		for ri := range sc.Wss[wi].Rules {
			if r := &sc.Wss[wi].Rules[ri]; r.Skipped == "" {
				ws, rules = append(ws, sc.Wss[wi].Name), append(rules, r)
			}
		}
	}
	for ai := range sc.Alter {
		for ri := range sc.Alter[ai].Rules {
			if r := &sc.Alter[ai].Rules[ri]; r.Skipped == "" {
				ws, rules = append(ws, sc.Alter[ai].Ws), append(rules, r)
			}
		}
	}
	return
}

// ---- numbering ----

type numbering struct {
	names  map[appdef.QName]uint64
	fields map[string]uint64
}

var sysFields = []string{appdef.SystemField_QName, appdef.SystemField_ID, appdef.SystemField_ParentID, appdef.SystemField_Container, appdef.SystemField_IsActive}

func number(app appdef.IAppDef, sc *Scenario) *numbering {
	nb := &numbering{names: map[appdef.QName]uint64{}, fields: map[string]uint64{}}
	var all appdef.QNames // sorted by appdef.CompareQName, no duplicates
	all.Add(appdef.QNameRoleSystem)
	fset := map[string]bool{}
	for _, t := range app.Types() {
		all.Add(t.QName())
		if wf, ok := t.(appdef.IWithFields); ok {
			for _, f := range wf.Fields() {
				fset[f.Name()] = true
			}
		}
	}
	for _, w := range app.Workspaces() {
		all.Add(w.QName())
		for _, r := range w.ACL() {
			for _, f := range r.Filter().Fields() {
				fset[f] = true
			}
			var walk func(f appdef.IFilter)
			walk = func(f appdef.IFilter) {
				all.Add(f.QNames()...)
				all.Add(f.Tags()...)
				if f.WS() != appdef.NullQName {
					all.Add(f.WS())
				}
				for _, c := range f.And() {
					walk(c)
				}
				for _, c := range f.Or() {
					walk(c)
				}
				if f.Not() != nil {
					walk(f.Not())
				}
			}
			walk(r.Filter())
		}
	}
	var walkD func(f FiltD)
	walkD = func(f FiltD) {
		for _, n := range f.Names {
			all.Add(qn(n))
		}
		if f.Ws != "" {
			all.Add(qn(f.Ws))
		}
		for _, c := range f.Sub {
			walkD(c)
		}
	}
	dws, drs := declared(sc)
	for i, r := range drs {
		all.Add(qn(dws[i]), qn(r.Role))
		walkD(r.Flt)
		for _, f := range r.Fields {
			fset[f] = true
		}
		for _, f := range r.Scribble {
			fset[f] = true
		}
	}
	for _, q := range sc.Queries {
		all.Add(qn(q.Ws), qn(q.Res))
		for _, r := range q.Roles {
			all.Add(qn(r))
		}
		for _, f := range q.Flds {
			fset[f] = true
		}
	}
	for _, a := range sc.RRA {
		all.Add(qn(a.Ws), qn(a.Role))
	}
	for _, p := range sc.Pub {
		all.Add(qn(p.Ws), qn(p.Role))
	}
	for i, n := range all {
		nb.names[n] = uint64(i + 1)
	}
	for i, f := range sysFields {
		nb.fields[f] = uint64(i)
		delete(fset, f)
	}
	rest := make([]string, 0, len(fset))
	for f := range fset {
		rest = append(rest, f)
	}
	sort.Strings(rest)
	for i, f := range rest {
		nb.fields[f] = uint64(len(sysFields) + i)
	}
	return nb
}

func (nb *numbering) n(q appdef.QName) string { return kit.N(nb.names[q]) }
func (nb *numbering) ns(qq []appdef.QName) string {
	r := make([]string, len(qq))
	for i, q := range qq {
		r[i] = nb.n(q)
	}
	return kit.List(r)
}
func (nb *numbering) fs(ff []string) string {
	r := make([]string, len(ff))
	for i, f := range ff {
		r[i] = kit.N(nb.fields[f])
	}
	return kit.List(r)
}

// ---- Coq printing of the schema as the real IAppDef presents it ----

func kindsTerm(kk []appdef.TypeKind) string {
	r := make([]string, len(kk))
	for i, k := range kk {
		r[i] = kit.N(uint64(k))
	}
	return kit.List(r)
}

func (nb *numbering) filt(f appdef.IFilter) string {
	fold := func(ctor string, cc []appdef.IFilter) string {
		s := nb.filt(cc[len(cc)-1])
		for i := len(cc) - 2; i >= 0; i-- {
			s = fmt.Sprintf("(%s %s %s)", ctor, nb.filt(cc[i]), s)
		}
		return s
	}
	switch f.Kind() {
	case appdef.FilterKind_QNames:
		return "(FQNames " + nb.ns(f.QNames()) + ")"
	case appdef.FilterKind_Tags:
		return "(FTags " + nb.ns(f.Tags()) + ")"
	case appdef.FilterKind_Types:
		if f.WS() != appdef.NullQName {
			return "(FWSTypes " + nb.n(f.WS()) + " " + kindsTerm(f.Types()) + ")"
		}
		return "(FTypes " + kindsTerm(f.Types()) + ")"
	case appdef.FilterKind_And:
		return fold("FAnd", f.And())
	case appdef.FilterKind_Or:
		return fold("FOr", f.Or())
	case appdef.FilterKind_Not:
		return "(FNot " + nb.filt(f.Not()) + ")"
	case appdef.FilterKind_True:
		return "FTrue"
	}
	panic(fmt.Sprintf("unsupported filter kind %v", f.Kind()))
}

func isPublished(k appdef.TypeKind) bool {
	return appdef.TypeKind_Structures.Contains(k) || k == appdef.TypeKind_ViewRecord || appdef.TypeKind_Functions.Contains(k)
}

func (nb *numbering) schema(app appdef.IAppDef) string {
	var types []string
	tt := append([]appdef.IType{}, app.Types()...)
	sort.SliceStable(tt, func(i, j int) bool { return appdef.CompareQName(tt[i].QName(), tt[j].QName()) < 0 })
	for _, t := range tt {
		if t.Workspace() == nil {
			continue
		}
		var tags []appdef.QName
		for _, g := range t.Tags() {
			tags = append(tags, g.QName())
		}
		flds := "None"
		if wf, ok := t.(appdef.IWithFields); ok {
			var ff []string
			for _, f := range wf.Fields() {
				ff = append(ff, f.Name())
			}
			if wf.FieldCount() != len(ff) {
				panic("FieldCount differs from len(Fields())")
			}
			flds = "(Some " + nb.fs(ff) + ")"
		}
		_, rec := t.(appdef.IRecord)
		_, fun := t.(appdef.IFunction)
		_, rol := t.(appdef.IRole)
		var aops []string
		for o := range appdef.ACLOperationsForType(t.Kind()).Values() {
			aops = append(aops, kit.N(uint64(o)))
		}
		types = append(types, fmt.Sprintf("(mkTyp %s %d %s %s %s %s %s %s %s %s)", nb.n(t.QName()), t.Kind(), nb.n(t.Workspace().QName()),
			nb.ns(tags), flds, kit.Bool(rec), kit.Bool(fun), kit.Bool(rol), kit.Bool(isPublished(t.Kind())), kit.List(aops)))
	}
	var wss []string
	for _, w := range app.Workspaces() {
		if len(w.UsedWorkspaces()) > 0 {
			panic("used workspaces are outside the modelled domain")
		}
		var anc []appdef.QName
		for _, a := range w.Ancestors() {
			anc = append(anc, a.QName())
		}
		// the rule lists of the schema stay empty: the model installs the DECLARED rules (declTerm);
		// what the built application reports as its ACL is printed separately (readBack)
		wss = append(wss, fmt.Sprintf("(mkWs %s %s [])", nb.n(w.QName()), nb.ns(anc)))
	}
	return fmt.Sprintf("(mkSchema %s %s)", kit.List(types), kit.List(wss))
}

func (nb *numbering) realRule(r appdef.IACLRule) string {
	var oo []string
	for _, o := range r.Ops() {
		oo = append(oo, kit.N(uint64(o)))
	}
	return fmt.Sprintf("(mkRule %s %s %s %s %s)", kit.List(oo), kit.Bool(r.Policy() == appdef.PolicyKind_Allow),
		nb.filt(r.Filter()), nb.fs(r.Filter().Fields()), nb.n(r.Principal().QName()))
}

// readBack prints IWorkspace.ACL() of every workspace and IAppDef.ACL() as the built application reports them
func (nb *numbering) readBack(app appdef.IAppDef) (perWs, appWide string) {
	var ww []string
	for _, w := range app.Workspaces() {
		var rules []string
		for _, r := range w.ACL() {
			rules = append(rules, nb.realRule(r))
		}
		ww = append(ww, fmt.Sprintf("(%s, %s)", nb.n(w.QName()), kit.List(rules)))
	}
	var all []string
	for _, r := range app.ACL() {
		all = append(all, nb.realRule(r))
	}
	return kit.List(ww), kit.List(all)
}

// filtD prints a DECLARED filter (from the scenario description, not from the built application)
func (nb *numbering) filtD(d FiltD) string {
	names := func() string {
		qq := make([]appdef.QName, len(d.Names))
		for i, n := range d.Names {
			qq[i] = qn(n)
		}
		return nb.ns(qq)
	}
	kinds := func() string {
		kk := make([]appdef.TypeKind, len(d.Kinds))
		for i, k := range d.Kinds {
			kk[i] = kindByName[k]
		}
		return kindsTerm(kk)
	}
	fold := func(ctor string) string {
		s := nb.filtD(d.Sub[len(d.Sub)-1])
		for i := len(d.Sub) - 2; i >= 0; i-- {
			s = fmt.Sprintf("(%s %s %s)", ctor, nb.filtD(d.Sub[i]), s)
		}
		return s
	}
	switch d.K {
	case "qnames":
		return "(FQNames " + names() + ")"
	case "tags":
		return "(FTags " + names() + ")"
	case "types":
		return "(FTypes " + kinds() + ")"
	case "wstypes":
		return "(FWSTypes " + nb.n(qn(d.Ws)) + " " + kinds() + ")"
	case "alltables":
		return "(FTypes " + kindsTerm(appdef.TypeKind_Structures.AsArray()) + ")"
	case "allfunctions":
		return "(FTypes " + kindsTerm(appdef.TypeKind_Functions.AsArray()) + ")"
	case "and":
		return fold("FAnd")
	case "or":
		return fold("FOr")
	case "not":
		return "(FNot " + nb.filtD(d.Sub[0]) + ")"
	}
	return "FTrue"
}

// declTerm prints the declared rules in declaration order: `list drule`.  Rules passed to the builder
// one by one get a block each; in a VSQL scenario a block is a WORKSPACE or ALTER WORKSPACE statement
// and the sys package's rules (compiled first) come first, as reported by the application.
func (nb *numbering) declTerm(sc *Scenario, app appdef.IAppDef) string {
	var out []string
	blk := 0
	if sc.Vsql {
		for _, r := range sysRules(app) {
			out = append(out, fmt.Sprintf("(mkD %s %d false [] false %s)", nb.n(r.Workspace().QName()), blk, nb.realRule(r)))
			blk++
		}
	}
	one := func(ws string, r *RuleD) {
		if r.Skipped != "" {
			return
		}
		var oo []string
		for _, o := range r.Ops {
			oo = append(oo, kit.N(uint64(opByName[o])))
		}
		all := r.Kind == "grantall" || r.Kind == "revokeall"
		if all {
			oo = nil
		}
		scr := "[]"
		if len(r.Scribble) == len(r.Fields) && len(r.Fields) > 0 && !sc.Vsql {
			scr = nb.fs(r.Scribble)
		}
		out = append(out, fmt.Sprintf("(mkD %s %d %s %s %s (mkRule %s %s %s %s %s))", nb.n(qn(ws)), blk, kit.Bool(all), scr, kit.Bool(sc.Vsql), kit.List(oo),
			kit.Bool(r.Kind == "grant" || r.Kind == "grantall"), nb.filtD(r.Flt), nb.fs(r.Fields), nb.n(qn(r.Role))))
		if !sc.Vsql {
			blk++
		}
	}
	for wi := range sc.Wss {
		for ri := range sc.Wss[wi].Rules {
			one(sc.Wss[wi].Name, &sc.Wss[wi].Rules[ri])
		}
		blk++
	}
	for ai := range sc.Alter {
		for ri := range sc.Alter[ai].Rules {
			one(sc.Alter[ai].Ws, &sc.Alter[ai].Rules[ri])
		}
		blk++
	}
	return kit.List(out)
}

// ---- asking the real code ----

func errKind(err error) string {
	switch {
	case errors.Is(err, appdef.ErrNotFoundError):
		return "notfound"
	case errors.Is(err, appdef.ErrIncompatibleError):
		return "incompatible"
	case errors.Is(err, appdef.ErrUnsupportedError):
		return "unsupported"
	case errors.Is(err, appdef.ErrMissedError):
		return "missed"
	}
	return "other"
}

var errCode = map[string]uint64{"notfound": 1, "incompatible": 2, "unsupported": 3, "missed": 4, "other": 0}

func ask(app appdef.IAppDef, q *QueryD) string {
	return askWith(app, q, callerRoles(q.Roles))
}

// callerRoles builds a caller's role slice the way request contexts do: by append, with spare capacity
func callerRoles(names []string) []appdef.QName {
	roles := make([]appdef.QName, 0, len(names)+2)
	for _, r := range names {
		roles = append(roles, qn(r))
	}
	return roles
}

// askWith asks with the caller's own role slice (kept and reused by the caller for further requests).
// The call must leave the caller's slices as they were: otherwise the outcome is "mutated".
func askWith(app appdef.IAppDef, q *QueryD, roles []appdef.QName) string {
	ws := app.Workspace(qn(q.Ws))
	flds := append(make([]string, 0, len(q.Flds)+2), q.Flds...)
	ok, err := acl.IsOperationAllowed(ws, opByName[q.Op], qn(q.Res), flds, roles)
	if len(roles) != len(q.Roles) || len(flds) != len(q.Flds) {
		return "mutated"
	}
	for i, r := range q.Roles {
		if roles[i] != qn(r) {
			return "mutated"
		}
	}
	for i, f := range q.Flds {
		if flds[i] != f {
			return "mutated"
		}
	}
	switch {
	case err != nil:
		return "err:" + errKind(err)
	case ok:
		return "allow"
	}
	return "deny"
}

func outcomeTerm(obs string) string {
	switch {
	case obs == "allow":
		return "OAllow"
	case obs == "deny":
		return "ODeny"
	case obs == "crash":
		return "OCrash"
	case obs == "mutated":
		return "OMutated"
	case strings.HasPrefix(obs, "err:"):
		return fmt.Sprintf("(OErr %d)", errCode[obs[4:]])
	}
	panic("unknown outcome " + obs)
}

func rraReal(app appdef.IAppDef, ws, role string) (appdef.QNames, bool) {
	w := app.Workspace(qn(ws))
	r := appdef.Role(w.Type, qn(role))
	if r == nil {
		return nil, false
	}
	return acl.RecursiveRoleAncestors(r, w), true
}

// rraClosed: the real RecursiveRoleAncestors result U of (role, ws) contains the real result of each of its members
func rraClosed(app appdef.IAppDef, ws, role string) bool {
	u, ok := rraReal(app, ws, role)
	if !ok {
		return true
	}
	for _, m := range u {
		um, ok := rraReal(app, ws, m.String())
		if ok && !u.ContainsAll(um...) {
			return false
		}
	}
	return true
}

// foreignFields: some rule visible from ws lists a field that a type it matches (visible from ws, or the given type) lacks
func foreignFields(app appdef.IAppDef, ws string, only appdef.IType) bool {
	w := app.Workspace(qn(ws))
	seen := map[appdef.QName]bool{}
	var visit func(x appdef.IWorkspace) bool
	check := func(r appdef.IACLRule, t appdef.IType) bool {
		wf, ok := t.(appdef.IWithFields)
		if !ok || !r.Filter().Match(t) {
			return false
		}
		for _, f := range r.Filter().Fields() {
			if wf.Field(f) == nil {
				return true
			}
		}
		return false
	}
	visit = func(x appdef.IWorkspace) bool {
		if seen[x.QName()] {
			return false
		}
		seen[x.QName()] = true
		for _, a := range x.Ancestors() {
			if visit(a) {
				return true
			}
		}
		for _, r := range x.ACL() {
			if !r.Filter().HasFields() {
				continue
			}
			if only != nil {
				if check(r, only) {
					return true
				}
				continue
			}
			for _, t := range w.Types() {
				if check(r, t) {
					return true
				}
			}
		}
		return false
	}
	return visit(w)
}

func isPow2(n int) bool { return n > 0 && n&(n-1) == 0 }

func distinct(ss []string) int {
	m := map[string]bool{}
	for _, s := range ss {
		m[s] = true
	}
	return len(m)
}
