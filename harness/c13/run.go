package c13

import (
	"encoding/json"
	"fmt"
	"os"
	"os/exec"
	"path/filepath"
	"runtime/debug"
	"sort"
	"strconv"
	"strings"

	"github.com/voedger/voedger/pkg/appdef"
	"github.com/voedger/voedger/pkg/appdef/acl"
	"verifharness/kit"
)

// finding indicators, computed from what the real code did (see notes/C13.md)
const (
	flagAlias   = "F1:answer-changes-when-roles-padded-to-pow2"
	flagRRA     = "F2:role-ancestors-not-closed"
	flagCrash   = "F3:stack-overflow-on-role-cycle"
	flagForeign = "F4:rule-field-foreign-to-matched-type"
	flagMixAll  = "F5:all-rule-over-types-with-different-operations"
	flagOrder   = "F6:acl-order-differs-from-source-text"
	flagShared  = "F8:rule-fields-changed-after-declaration"
)

// fieldsChanged: some rule of the built application reports a field list other than the one it was declared with
func fieldsChanged(sc *Scenario, app appdef.IAppDef) bool {
	if sc.Vsql {
		return false
	}
	_, drs := declared(sc)
	all := app.ACL()
	for i, r := range drs {
		if i < len(all) && len(r.Fields) > 0 && strings.Join(all[i].Filter().Fields(), ",") != strings.Join(r.Fields, ",") {
			return true
		}
	}
	return false
}

type mixedAllRule struct {
	ws  appdef.QName
	flt appdef.IFilter
}

// mixedAll: accepted GRANT ALL / REVOKE ALL rules whose filter matches, among the types their workspace
// sees, types with different sets of ACL operations
func mixedAll(sc *Scenario, app appdef.IAppDef) []mixedAllRule {
	var res []mixedAllRule
	dws, drs := declared(sc)
	for i, r := range drs {
		if r.Kind != "grantall" && r.Kind != "revokeall" {
			continue
		}
		flt := mkFilter(r.Flt)
		sets := map[string]bool{}
		for _, t := range appdef.FilterMatches(flt, app.Workspace(qn(dws[i])).Types()) {
			sets[appdef.ACLOperationsForType(t.Kind()).String()] = true
		}
		if len(sets) > 1 {
			res = append(res, mixedAllRule{qn(dws[i]), flt})
		}
	}
	return res
}

// child mode: one isolated request per process (a role inheritance cycle overflows the stack)
func init() {
	p := os.Getenv("C13_CHILD")
	if p == "" {
		return
	}
	debug.SetMaxStack(32 << 20)
	b, err := os.ReadFile(p)
	if err != nil {
		fmt.Println("CHILDERR:", err)
		os.Exit(3)
	}
	var sc Scenario
	if err := json.Unmarshal(b, &sc); err != nil {
		fmt.Println("CHILDERR:", err)
		os.Exit(3)
	}
	app, err := build(&sc)
	if err != nil {
		fmt.Println("CHILDERR:", err)
		os.Exit(3)
	}
	i, _ := strconv.Atoi(os.Getenv("C13_CHILD_Q"))
	fmt.Println("OBS:" + ask(app, &sc.Queries[i]))
	os.Exit(0)
}

func askIsolated(sc *Scenario, path string, i int) (string, error) {
	exe, err := os.Executable()
	if err != nil {
		return "", err
	}
	cmd := exec.Command(exe)
	cmd.Env = append(os.Environ(), "C13_CHILD="+path, "C13_CHILD_Q="+strconv.Itoa(i), "GOTRACEBACK=none")
	out, err := cmd.CombinedOutput()
	s := string(out)
	if j := strings.Index(s, "OBS:"); j >= 0 && err == nil {
		return strings.TrimSpace(strings.SplitN(s[j+4:], "\n", 2)[0]), nil
	}
	if strings.Contains(s, "stack overflow") || strings.Contains(s, "stack exceeds") {
		return "crash", nil
	}
	return "", fmt.Errorf("isolated request failed: %v: %.400s", err, s)
}

func addFlag(ff []string, f string) []string {
	for _, x := range ff {
		if x == f {
			return ff
		}
	}
	return append(ff, f)
}

// observe builds the schema, asks every request of the scenario and records answers and indicators
func observe(sc *Scenario) (appdef.IAppDef, error) {
	for wi := range sc.Wss {
		for ri := range sc.Wss[wi].Rules {
			sc.Wss[wi].Rules[ri].Skipped = ""
		}
	}
	for ai := range sc.Alter {
		for ri := range sc.Alter[ai].Rules {
			sc.Alter[ai].Rules[ri].Skipped = ""
		}
	}
	app, err := build(sc)
	if err != nil {
		return nil, err
	}
	if sc.Isolated {
		sc.RRA, sc.Pub = nil, nil
		path := filepath.Join(kit.ScratchDir(), fmt.Sprintf("c13_child_%d.json", os.Getpid()))
		b, _ := json.Marshal(sc)
		if err := os.WriteFile(path, b, 0o600); err != nil {
			return nil, err
		}
		defer os.Remove(path)
		for i := range sc.Queries {
			q := &sc.Queries[i]
			q.Flags = nil
			if q.Obs, err = askIsolated(sc, path, i); err != nil {
				return nil, err
			}
			if q.Obs == "crash" {
				q.Flags = addFlag(q.Flags, flagCrash)
			}
		}
		return app, nil
	}
	mixed := mixedAll(sc, app)
	orderLost := sc.Vsql && !textOrderKept(sc, app)
	changed := fieldsChanged(sc, app)
	// one role slice per request context: requests with the same role list (same order) are asked with
	// the very same slice, one after the other, as a processor does for a request and its CUDs
	contexts := map[string][]appdef.QName{}
	for i := range sc.Queries {
		q := &sc.Queries[i]
		q.Flags = nil
		key := strings.Join(q.Roles, ",")
		if _, ok := contexts[key]; !ok {
			contexts[key] = callerRoles(q.Roles)
		}
		q.Obs = askWith(app, q, contexts[key])
		if q.Obs != "allow" && q.Obs != "deny" {
			continue
		}
		if orderLost {
			q.Flags = addFlag(q.Flags, flagOrder)
		}
		if changed {
			q.Flags = addFlag(q.Flags, flagShared)
		}
		if w, t := app.Workspace(qn(q.Ws)), app.Workspace(qn(q.Ws)).Type(qn(q.Res)); t != appdef.NullType {
			for _, m := range mixed {
				if w.Inherits(m.ws) && m.flt.Match(t) {
					q.Flags = addFlag(q.Flags, flagMixAll)
				}
			}
		}
		if n0 := distinct(q.Roles); !isPow2(n0) {
			p := *q
			p.Roles = append([]string{}, q.Roles...)
			for k := 0; !isPow2(n0 + k); k++ {
				p.Roles = append(p.Roles, fmt.Sprintf("zz.pad%d", k))
			}
			if ask(app, &p) != q.Obs {
				q.Flags = addFlag(q.Flags, flagAlias)
			}
		}
		for _, r := range q.Roles {
			if !rraClosed(app, q.Ws, r) {
				q.Flags = addFlag(q.Flags, flagRRA)
			}
		}
		if t := app.Workspace(qn(q.Ws)).Type(qn(q.Res)); foreignFields(app, q.Ws, t) {
			q.Flags = addFlag(q.Flags, flagForeign)
		}
	}
	for i := range sc.RRA {
		a := &sc.RRA[i]
		a.Flags, a.Obs = nil, nil
		u, ok := rraReal(app, a.Ws, a.Role)
		if !ok {
			return nil, fmt.Errorf("rra request for %s which is not a role visible in %s", a.Role, a.Ws)
		}
		for _, x := range u {
			a.Obs = append(a.Obs, x.String())
		}
		if !rraClosed(app, a.Ws, a.Role) {
			a.Flags = addFlag(a.Flags, flagRRA)
		}
	}
	for i := range sc.Pub {
		p := &sc.Pub[i]
		p.Flags, p.Obs = nil, nil
		w := app.Workspace(qn(p.Ws))
		for t, opsIt := range acl.PublishedTypes(w, qn(p.Role)) {
			e := PubEntry{Type: t.QName().String()}
			for o, f := range opsIt {
				oo := PubOpObs{Op: opName(o), All: f == nil}
				if f != nil {
					oo.Fields = append([]string{}, (*f)...)
				}
				e.Ops = append(e.Ops, oo)
			}
			p.Obs = append(p.Obs, e)
		}
		if !rraClosed(app, p.Ws, p.Role) {
			p.Flags = addFlag(p.Flags, flagRRA)
		}
		if foreignFields(app, p.Ws, nil) {
			p.Flags = addFlag(p.Flags, flagForeign)
		}
		if orderLost {
			p.Flags = addFlag(p.Flags, flagOrder)
		}
		if changed {
			p.Flags = addFlag(p.Flags, flagShared)
		}
		for _, m := range mixed {
			if w.Inherits(m.ws) {
				p.Flags = addFlag(p.Flags, flagMixAll)
			}
		}
	}
	return app, nil
}

func flagKey(ff []string) string {
	s := append([]string{}, ff...)
	sort.Strings(s)
	return strings.Join(s, "+")
}

// emit prints one case per set of indicators: the requests without any indicator form the main
// case; requests showing an indicator go to a case of their own, so that a listed finding can
// never hide a different failure among the clean requests
func emit(sc *Scenario, app appdef.IAppDef, out *kit.Out) {
	groups := map[string]*Scenario{}
	var order []string
	get := func(ff []string) *Scenario {
		k := flagKey(ff)
		g, ok := groups[k]
		if !ok {
			g = &Scenario{Note: sc.Note, Wss: sc.Wss, Alter: sc.Alter, Vsql: sc.Vsql, Isolated: sc.Isolated}
			groups[k] = g
			order = append(order, k)
		}
		return g
	}
	get(nil)
	for _, q := range sc.Queries {
		g := get(q.Flags)
		g.Queries = append(g.Queries, q)
	}
	for _, a := range sc.RRA {
		g := get(a.Flags)
		g.RRA = append(g.RRA, a)
	}
	for _, p := range sc.Pub {
		g := get(p.Flags)
		g.Pub = append(g.Pub, p)
	}
	sort.Strings(order)
	nb := number(app, sc)
	schema := nb.schema(app)
	decl := nb.declTerm(sc, app)
	rbWs, rbApp := nb.readBack(app)
	for _, k := range order {
		g := groups[k]
		if len(g.Queries)+len(g.RRA)+len(g.Pub) == 0 {
			continue
		}
		var qs, as, ps []string
		outs := map[string]int{}
		for _, q := range g.Queries {
			rr := make([]appdef.QName, len(q.Roles))
			for i, r := range q.Roles {
				rr[i] = qn(r)
			}
			qs = append(qs, fmt.Sprintf("(mkQ %s %d %s %s %s %s)", nb.n(qn(q.Ws)), opByName[q.Op], nb.n(qn(q.Res)), nb.fs(q.Flds), nb.ns(rr), outcomeTerm(q.Obs)))
			outs[strings.SplitN(q.Obs, ":", 2)[0]]++
		}
		for _, a := range g.RRA {
			oo := make([]appdef.QName, len(a.Obs))
			for i, r := range a.Obs {
				oo[i] = qn(r)
			}
			as = append(as, fmt.Sprintf("(mkRRA %s %s %s)", nb.n(qn(a.Ws)), nb.n(qn(a.Role)), nb.ns(oo)))
		}
		for _, p := range g.Pub {
			var es []string
			for _, e := range p.Obs {
				var os_ []string
				for _, o := range e.Ops {
					f := "None"
					if !o.All {
						f = "(Some " + nb.fs(o.Fields) + ")"
					}
					os_ = append(os_, fmt.Sprintf("(%d, %s)", opByName[o.Op], f))
				}
				es = append(es, fmt.Sprintf("(%s, %s)", nb.n(qn(e.Type)), kit.List(os_)))
			}
			ps = append(ps, fmt.Sprintf("(mkPub %s %s %s)", nb.n(qn(p.Ws)), nb.n(qn(p.Role)), kit.List(es)))
		}
		coq := fmt.Sprintf("(mkTrace %s %s %s %s %s %s %s %s)", schema, decl, rbWs, rbApp, nb.n(appdef.QNameRoleSystem), kit.List(qs), kit.List(as), kit.List(ps))
		tags := []string{}
		if k != "" {
			tags = append(tags, strings.Split(k, "+")...)
		}
		st := stats(sc)
		tags = append(tags, fmt.Sprintf("ws:%d", len(sc.Wss)), fmt.Sprintf("rules:%s", bucket(st.rules)), fmt.Sprintf("inherits:%s", bucket(st.inherits)))
		if st.revokes > 0 {
			tags = append(tags, "has:revoke")
		}
		if st.fieldRules > 0 {
			tags = append(tags, "has:field-list")
		}
		if st.diamond {
			tags = append(tags, "has:multi-ancestor")
		}
		if sc.Isolated {
			tags = append(tags, "stream:role-cycle")
		}
		if st.alter > 0 {
			tags = append(tags, "has:alter-workspace")
		}
		if sc.Vsql {
			tags = append(tags, "stream:vsql")
		}
		if st.repeats > 0 {
			tags = append(tags, "has:exact-repeat-after-other-rule")
		}
		for _, o := range []string{"allow", "deny", "err", "crash", "mutated"} {
			if outs[o] > 0 {
				tags = append(tags, "out:"+o)
			}
		}
		sort.Strings(tags)
		nontrivial := (st.revokes > 0 || st.fieldRules > 0 || st.inherits > 0 || len(sc.Wss) > 1) && outs["allow"] > 0 && outs["deny"] > 0
		out.Emit(kit.Case{Coq: coq, Key: shapeKey(sc, st) + "|" + k, Nontrivial: nontrivial, Desc: g, Tags: tags})
	}
}

type scStats struct {
	rules, inherits, revokes, fieldRules, types, roles, alter, repeats int
	diamond                                            bool
	sig                                                string
}

func stats(sc *Scenario) scStats {
	var s scStats
	var sb strings.Builder
	for _, w := range sc.Wss {
		if len(w.Anc) > 1 {
			s.diamond = true
		}
		s.types += len(w.Types)
		s.roles += len(w.Roles)
		fmt.Fprintf(&sb, "w%d[", len(w.Anc))
		for _, t := range w.Types {
			sb.WriteString(t.Kind[:2])
		}
		sb.WriteString("|")
		for _, r := range w.Rules {
			if r.Skipped != "" {
				continue
			}
			s.rules++
			c := r.Kind[:1]
			if r.Kind == "revoke" || r.Kind == "revokeall" {
				s.revokes++
				c = strings.ToUpper(c)
			}
			if len(r.Ops) == 1 && r.Ops[0] == "inherits" {
				s.inherits++
				c = "i"
			}
			if len(r.Fields) > 0 {
				s.fieldRules++
				c += "f"
			}
			sb.WriteString(c + r.Flt.K[:1])
		}
		sb.WriteString("]")
	}
	for _, a := range sc.Alter {
		sb.WriteString("+alter[")
		for _, r := range a.Rules {
			if r.Skipped == "" {
				s.rules++
				s.alter++
				if r.Kind == "revoke" || r.Kind == "revokeall" {
					s.revokes++
				}
				sb.WriteString(r.Kind[:1] + r.Flt.K[:1])
			}
		}
		sb.WriteString("]")
	}
	s.repeats = countRepeats(sc)
	s.sig = sb.String()
	return s
}

func bucket(n int) string {
	switch {
	case n == 0:
		return "0"
	case n <= 2:
		return "1-2"
	case n <= 5:
		return "3-5"
	case n <= 9:
		return "6-9"
	}
	return "10+"
}

func shapeKey(sc *Scenario, st scStats) string { return st.sig }

func runScenario(sc *Scenario, out *kit.Out) error {
	app, err := observe(sc)
	if err != nil {
		return err
	}
	emit(sc, app, out)
	return nil
}

func loadScenario(path string) (*Scenario, error) {
	b, err := os.ReadFile(path)
	if err != nil {
		return nil, err
	}
	var wrapper struct {
		Case struct {
			Desc *Scenario `json:"desc"`
		} `json:"case"`
		Desc *Scenario `json:"desc"`
	}
	if err := json.Unmarshal(b, &wrapper); err == nil {
		if wrapper.Desc != nil && len(wrapper.Desc.Wss) > 0 {
			return wrapper.Desc, nil
		}
		if wrapper.Case.Desc != nil && len(wrapper.Case.Desc.Wss) > 0 {
			return wrapper.Case.Desc, nil
		}
	}
	var sc Scenario
	if err := json.Unmarshal(b, &sc); err != nil {
		return nil, err
	}
	if len(sc.Wss) == 0 {
		return nil, fmt.Errorf("%s: no scenario found", path)
	}
	return &sc, nil
}

// Replay re-executes exactly the scenario stored in a replay/corpus file
func Replay(path string, out *kit.Out) error {
	sc, err := loadScenario(path)
	if err != nil {
		return err
	}
	return runScenario(sc, out)
}

func Generate(seed uint64, n int, tier string, corpusDir string, out *kit.Out) error {
	if corpusDir != "" {
		entries, _ := os.ReadDir(corpusDir)
		var names []string
		for _, e := range entries {
			if strings.HasSuffix(e.Name(), ".json") {
				names = append(names, e.Name())
			}
		}
		sort.Strings(names)
		for _, nm := range names {
			sc, err := loadScenario(filepath.Join(corpusDir, nm))
			if err != nil {
				return fmt.Errorf("%s: %w", nm, err)
			}
			if err := runScenario(sc, out); err != nil {
				return fmt.Errorf("%s: %w", nm, err)
			}
		}
	}
	r := kit.NewRng(seed)
	for i := 0; i < n; i++ {
		cr := r.Fork()
		var sc *Scenario
		for attempt := 0; ; attempt++ {
			sc = genScenario(cr, tier, i)
			if _, err := build(sc); err == nil {
				break
			} else if attempt > 20 {
				return fmt.Errorf("generator cannot produce a buildable schema: %w", err)
			}
		}
		if !sc.Isolated && !sc.Vsql {
			if app, err := build(sc); err == nil {
				addRuleDirectedProbes(sc, app, cr)
				addSearchedProbes(sc, app)
			}
		}
		if err := runScenario(sc, out); err != nil {
			return err
		}
	}
	return nil
}

// addSearchedProbes: feedback-directed part of the generator.  Among all 3-subsets of the roles and
// all (workspace, resource, operation) it looks for requests whose real answer changes when the
// role list is padded to a full slice (the signature of a supplied role that was not expanded) and
// adds up to two of them, plus the same request for the single roles.
func addSearchedProbes(sc *Scenario, app appdef.IAppDef) {
	var roles []string
	for _, w := range sc.Wss {
		roles = append(roles, w.Roles...)
	}
	sort.Strings(roles)
	added := 0
	for _, w := range sc.Wss {
		for _, tw := range sc.Wss {
			for _, ty := range tw.Types {
				oo := []string{"execute"}
				if ty.Kind == "view" {
					oo = []string{"select", "insert"}
				} else if tableKinds[ty.Kind] {
					oo = []string{"select", "insert", "update", "activate"}
				}
				for _, op := range oo {
					for a := 0; a < len(roles); a++ {
						for b := a + 1; b < len(roles); b++ {
							for c := b + 1; c < len(roles); c++ {
								q := QueryD{Ws: w.Name, Op: op, Res: ty.Name, Roles: []string{roles[a], roles[b], roles[c]}}
								p := q
								p.Roles = append(append([]string{}, q.Roles...), "zz.pad0")
								if o := ask(app, &q); (o == "allow" || o == "deny") && o != ask(app, &p) {
									sc.Queries = append(sc.Queries, q, p)
									for _, x := range q.Roles {
										sc.Queries = append(sc.Queries, QueryD{Ws: w.Name, Op: op, Res: ty.Name, Roles: []string{x}})
									}
									if added++; added >= 2 {
										return
									}
								}
							}
						}
					}
				}
			}
		}
	}
}

// addRuleDirectedProbes: for rules of the built schema (taken from the real IAppDef) asks for a
// resource the rule's filter matches, with one of its operations, its principal (plus sometimes
// another role) and its field list or a neighbouring one, in the rule's workspace or a descendant:
// every kind of rule the generator produced is exercised by at least one request.
func addRuleDirectedProbes(sc *Scenario, app appdef.IAppDef, r *kit.Rng) {
	var allRoles []string
	for _, w := range sc.Wss {
		allRoles = append(allRoles, w.Roles...)
	}
	sort.Strings(allRoles)
	name := func(q appdef.QName) string {
		if q.Pkg() == pkgName {
			return q.Entity()
		}
		return q.String()
	}
	type probe struct {
		ws, res string
		rule    appdef.IACLRule
		t       appdef.IType
	}
	var probes []probe
	for _, wd := range sc.Wss {
		w := app.Workspace(qn(wd.Name))
		seen := map[appdef.QName]bool{}
		var visit func(x appdef.IWorkspace)
		visit = func(x appdef.IWorkspace) {
			if seen[x.QName()] {
				return
			}
			seen[x.QName()] = true
			for _, a := range x.Ancestors() {
				visit(a)
			}
			for _, rule := range x.ACL() {
				if rule.Op(appdef.OperationKind_Inherits) {
					continue
				}
				for _, t := range w.Types() {
					// the resources the filter matches, and (so that a filter matching too little is noticed
					// as well) the other resources the rule's operations apply to
					if t.QName().Pkg() == pkgName && (rule.Filter().Match(t) ||
						(r.Chance(1, 2) && appdef.ACLOperationsForType(t.Kind()).Contains(rule.Ops()[0]))) {
						probes = append(probes, probe{wd.Name, name(t.QName()), rule, t})
					}
				}
			}
		}
		visit(w)
	}
	for k := 0; k < 14 && len(probes) > 0; k++ {
		p := probes[r.Intn(len(probes))]
		q := QueryD{Ws: p.ws, Res: p.res, Op: opName(p.rule.Ops()[r.Intn(len(p.rule.Ops()))])}
		q.Roles = []string{name(p.rule.Principal().QName())}
		if r.Chance(1, 3) {
			q.Roles = append(q.Roles, kit.Pick(r, allRoles))
		}
		if wf, ok := p.t.(appdef.IWithFields); ok {
			switch r.Intn(4) {
			case 0:
			case 1:
				for _, f := range p.rule.Filter().Fields() {
					if wf.Field(f) != nil {
						q.Flds = append(q.Flds, f)
					}
				}
			default:
				ff := wf.Fields()
				q.Flds = []string{ff[r.Intn(len(ff))].Name()}
			}
		}
		sc.Queries = append(sc.Queries, q)
	}
}

// countRepeats: declared rules that repeat an earlier rule of the same workspace exactly, with another rule in between
func countRepeats(sc *Scenario) int {
	dws, drs := declared(sc)
	n := 0
	for i := range drs {
		a, _ := json.Marshal([]any{dws[i], drs[i].Kind, drs[i].Ops, drs[i].Flt, drs[i].Fields, drs[i].Role})
		last := -1
		for j := 0; j < i; j++ {
			if dws[j] != dws[i] {
				continue
			}
			b, _ := json.Marshal([]any{dws[j], drs[j].Kind, drs[j].Ops, drs[j].Flt, drs[j].Fields, drs[j].Role})
			if string(a) == string(b) {
				last = j
			}
		}
		if last >= 0 {
			for j := last + 1; j < i; j++ {
				if dws[j] == dws[i] {
					n++
					break
				}
			}
		}
	}
	return n
}
