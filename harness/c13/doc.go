// Package c13: harness of property C13 (registers itself with kit.Register in an init function).
package c13
