package c13

import (
	"fmt"
	"strings"

	"github.com/voedger/voedger/pkg/appdef"
	"github.com/voedger/voedger/pkg/appdef/builder"
	"github.com/voedger/voedger/pkg/parser"
	"github.com/voedger/voedger/pkg/sys"
)

// VSQL stream: the same kind of scenario written as VSQL source (WORKSPACE blocks, then ALTER
// WORKSPACE blocks for Scenario.Alter) and compiled by the real parser.  Restricted to what maps
// one to one onto declared rules: tables (CDoc/WDoc/ODoc) with int32 fields, roles, GRANT/REVOKE of
// one operation (optionally with a field list) on one table per statement (the compiler turns a
// statement with several operations into one rule per operation), role inheritance.
// The declared order is the textual order.

var vsqlTable = map[string]string{"cdoc": "sys.CDoc", "wdoc": "sys.WDoc", "odoc": "sys.ODoc"}

func renderRule(r RuleD) (string, error) {
	if len(r.Ops) == 1 && r.Ops[0] == "inherits" && r.Kind == "grant" && r.Flt.K == "qnames" && len(r.Flt.Names) == 1 {
		return fmt.Sprintf("GRANT %s TO %s;", r.Flt.Names[0], r.Role), nil
	}
	if (r.Kind == "grantall" || r.Kind == "revokeall") && r.Flt.K == "qnames" && len(r.Flt.Names) == 1 {
		all := "ALL"
		if len(r.Fields) > 0 {
			all += "(" + strings.Join(r.Fields, ", ") + ")"
		}
		if r.Kind == "grantall" {
			return fmt.Sprintf("GRANT %s ON TABLE %s TO %s;", all, r.Flt.Names[0], r.Role), nil
		}
		return fmt.Sprintf("REVOKE %s ON TABLE %s FROM %s;", all, r.Flt.Names[0], r.Role), nil
	}
	if (r.Kind != "grant" && r.Kind != "revoke") || r.Flt.K != "qnames" || len(r.Flt.Names) != 1 || len(r.Ops) != 1 {
		return "", fmt.Errorf("rule %+v cannot be written in the VSQL subset", r)
	}
	oo := make([]string, len(r.Ops))
	for i, o := range r.Ops {
		oo[i] = strings.ToUpper(o)
		if len(r.Fields) > 0 {
			oo[i] += "(" + strings.Join(r.Fields, ", ") + ")"
		}
	}
	if r.Kind == "grant" {
		return fmt.Sprintf("GRANT %s ON TABLE %s TO %s;", strings.Join(oo, ", "), r.Flt.Names[0], r.Role), nil
	}
	return fmt.Sprintf("REVOKE %s ON TABLE %s FROM %s;", strings.Join(oo, ", "), r.Flt.Names[0], r.Role), nil
}

func renderVsql(sc *Scenario) (string, error) {
	var sb strings.Builder
	sb.WriteString("APPLICATION test();\n")
	for _, w := range sc.Wss {
		if len(w.Anc) > 0 || len(w.Tags) > 0 {
			return "", fmt.Errorf("workspace %s: ancestors and tags are outside the VSQL subset", w.Name)
		}
		fmt.Fprintf(&sb, "ALTERABLE WORKSPACE %s (\n", w.Name)
		for _, r := range w.Roles {
			fmt.Fprintf(&sb, "\tROLE %s;\n", r)
		}
		for _, t := range w.Types {
			base, ok := vsqlTable[t.Kind]
			if !ok {
				return "", fmt.Errorf("type kind %s is outside the VSQL subset", t.Kind)
			}
			ff := make([]string, len(t.Fields))
			for i, f := range t.Fields {
				ff[i] = f + " int32"
			}
			fmt.Fprintf(&sb, "\tTABLE %s INHERITS %s ( %s );\n", t.Name, base, strings.Join(ff, ", "))
		}
		for _, r := range w.Rules {
			s, err := renderRule(r)
			if err != nil {
				return "", err
			}
			sb.WriteString("\t" + s + "\n")
		}
		sb.WriteString(");\n")
	}
	for _, a := range sc.Alter {
		fmt.Fprintf(&sb, "ALTER WORKSPACE %s (\n", a.Ws)
		for _, r := range a.Rules {
			s, err := renderRule(r)
			if err != nil {
				return "", err
			}
			sb.WriteString("\t" + s + "\n")
		}
		sb.WriteString(");\n")
	}
	return sb.String(), nil
}

func buildVsql(sc *Scenario) (app appdef.IAppDef, err error) {
	defer func() {
		if r := recover(); r != nil {
			err = fmt.Errorf("panic in the VSQL compiler: %v", r)
		}
	}()
	src, err := renderVsql(sc)
	if err != nil {
		return nil, err
	}
	sysSrc, err := sys.SysFS.ReadFile("sys.vsql")
	if err != nil {
		return nil, err
	}
	var asts []*parser.PackageSchemaAST
	for _, p := range []struct{ path, txt string }{{appdef.SysPackage, string(sysSrc)}, {"test.com/" + pkgName, src}} {
		f, e := parser.ParseFile("file.vsql", p.txt)
		if e != nil {
			return nil, fmt.Errorf("%w\n%s", e, src)
		}
		pa, e := parser.BuildPackageSchema(p.path, []*parser.FileSchemaAST{f})
		if e != nil {
			return nil, fmt.Errorf("%w\n%s", e, src)
		}
		asts = append(asts, pa)
	}
	as, e := parser.BuildAppSchema(asts)
	if e != nil {
		return nil, fmt.Errorf("%w\n%s", e, src)
	}
	b := builder.New()
	if e := parser.BuildAppDefs(as, b); e != nil {
		return nil, fmt.Errorf("%w\n%s", e, src)
	}
	return b.Build()
}

// sysRules: the rules of the sys package (compiled first, not part of the scenario) are taken as
// declared from what the application reports
func sysRules(app appdef.IAppDef) []appdef.IACLRule {
	var rr []appdef.IACLRule
	for _, r := range app.ACL() {
		if r.Workspace().QName().Pkg() == appdef.SysPackage {
			rr = append(rr, r)
		}
	}
	return rr
}

// textOrderKept: within every block the application-wide ACL lists the block's rules with the
// policies in the textual order (observed behaviour; false = finding C13-F6)
func textOrderKept(sc *Scenario, app appdef.IAppDef) bool {
	all := app.ACL()
	i := len(sysRules(app))
	check := func(rules []RuleD) bool {
		for _, r := range rules {
			if r.Skipped != "" {
				continue
			}
			if i >= len(all) {
				return false
			}
			if (all[i].Policy() == appdef.PolicyKind_Allow) != (r.Kind == "grant" || r.Kind == "grantall") {
				return false
			}
			i++
		}
		return true
	}
	for _, w := range sc.Wss {
		if !check(w.Rules) {
			return false
		}
	}
	for _, a := range sc.Alter {
		if !check(a.Rules) {
			return false
		}
	}
	return true
}
