// Package c20: hook-scheduled scenarios over the real in10nmem broker (property C20).
package c20

import (
	"context"
	"errors"
	"fmt"
	"os"
	"regexp"
	"sort"
	"strconv"
	"strings"
	"time"

	"verifharness/kit"

	"github.com/voedger/voedger/pkg/appdef"
	"github.com/voedger/voedger/pkg/goutils/verifhook"
	"github.com/voedger/voedger/pkg/in10n"
	"github.com/voedger/voedger/pkg/in10nmem"
	"github.com/voedger/voedger/pkg/istructs"
)

// mirror of eventsChannelSize, read from the source the harness was built against (the model takes
// the same constant from Params.v through the translator)
var eventsCap = readEventsCap()
const nProj = 4

// projection hbProj is the Heartbeat30 projection: Subscribe accepts any {app, sys.Heartbeat30, ws}
// key and maps it to in10n.Heartbeat30ProjectionKey; Update and the metrics take the zero key
const hbProj = 3
const nSubj = 2
const maxChans = 4

type scenario struct {
	Kind   string   `json:"kind"`   // valid | overlap | malformed | burst
	Quotas [4]int   `json:"quotas"` // Channels, ChannelsPerSubject, Subscriptions, SubscriptionsPerSubject
	Script []string `json:"script"` // phase A commands; drain, settle and teardown follow automatically
	// observed (filled by run)
	Events []string `json:"events,omitempty"`
}

func readEventsCap() int {
	repo := os.Getenv("VERIF_REPO")
	if repo == "" {
		repo = "/repo"
	}
	b, err := os.ReadFile(repo + "/pkg/in10nmem/consts.go")
	if err == nil {
		if m := regexp.MustCompile(`(?m)^\s*eventsChannelSize\s*=\s*([0-9]+)`).FindSubmatch(b); m != nil {
			if v, err := strconv.Atoi(string(m[1])); err == nil && v > 0 {
				return v
			}
		}
	}
	return 10
}

// markEarly: Subscribe/Unsubscribe write toSubscribe inside their broker critical section (the
// repaired code); detected from the source like the translator does, so that the mirror follows
// the shape of the code the harness was built against
var markEarly = readMarkEarly()

func readMarkEarly() bool {
	repo := os.Getenv("VERIF_REPO")
	if repo == "" {
		repo = "/repo"
	}
	b, err := os.ReadFile(repo + "/pkg/in10nmem/impl.go")
	if err != nil {
		return true
	}
	src := string(b)
	i := strings.Index(src, ") Subscribe(")
	if i < 0 {
		return true
	}
	body := src[i:]
	if j := strings.Index(body[1:], "\nfunc "); j >= 0 {
		body = body[:j+1]
	}
	m := strings.Index(body, "prj.toSubscribe[channelID] = channel")
	c := strings.Index(body, "}()")
	return m >= 0 && c >= 0 && m < c
}

// updBlocking: Update queues its event with an unconditional blocking send (false: a select with
// default); read from the source like the translator does
var updBlocking = readUpdBlocking()

func readUpdBlocking() bool {
	repo := os.Getenv("VERIF_REPO")
	if repo == "" {
		repo = "/repo"
	}
	b, err := os.ReadFile(repo + "/pkg/in10nmem/impl.go")
	if err != nil {
		return true
	}
	src := string(b)
	i := strings.Index(src, ") Update(")
	if i < 0 {
		return true
	}
	body := src[i:]
	if j := strings.Index(body[1:], "\nfunc "); j >= 0 {
		body = body[:j+1]
	}
	m := regexp.MustCompile(`case\s+nb\.events\s*<-`).FindStringIndex(body)
	return m == nil || !strings.Contains(body[m[1]:], "default:")
}

// how long a call released into a full queue is watched for a (faulty) return
const blockPatience = 15 * time.Millisecond

func projKey(p int) in10n.ProjectionKey {
	if p == hbProj {
		return in10n.Heartbeat30ProjectionKey
	}
	return in10n.ProjectionKey{App: istructs.AppQName_test1_app1, Projection: appdef.NewQName("verif", "prj"), WS: istructs.WSID(p + 1)}
}

// subKey: the key a client passes to Subscribe (for the heartbeat a non-zero key, per channel)
func subKey(c, p int) in10n.ProjectionKey {
	if p == hbProj {
		return in10n.ProjectionKey{App: istructs.AppQName_test1_app1, Projection: in10n.QNameHeartbeat30, WS: istructs.WSID(7 + c)}
	}
	return projKey(p)
}

// unsKey: the key passed to Unsubscribe. Unsubscribe does not map a heartbeat key to the zero key
// as Subscribe does (findings/C20/HB-UNSUB.md; outside the statement of C20), so the client of
// the scenarios unsubscribes with the zero key - unless the source normalises the key there too
func unsKey(c, p int) in10n.ProjectionKey {
	if p == hbProj && unsNormalises {
		return subKey(c, p)
	}
	return projKey(p)
}

var unsNormalises = readUnsNormalises()

func readUnsNormalises() bool {
	repo := os.Getenv("VERIF_REPO")
	if repo == "" {
		repo = "/repo"
	}
	b, err := os.ReadFile(repo + "/pkg/in10nmem/impl.go")
	if err != nil {
		return false
	}
	src := string(b)
	i := strings.Index(src, ") Unsubscribe(")
	if i < 0 {
		return false
	}
	body := src[i:]
	if j := strings.Index(body[1:], "\nfunc "); j >= 0 {
		body = body[:j+1]
	}
	return strings.Contains(body, "QNameHeartbeat30")
}

type gcall struct {
	id    int
	kind  string // upd sub uns cln
	c, p  int
	off   uint64
	pr    *proc
	stage string
	err   error
	pan   bool
	rem   []int // cleanup: cloned keys
	cur   int   // cleanup: key of the Unsubscribe in progress
}

type watcher struct {
	c      int
	pr     *proc
	cancel context.CancelFunc
	units  [][2]uint64
	pan    bool
	dead   bool
}

type drv struct {
	sc      *scenario
	nb      in10n.IN10nBroker
	bclean  func()
	s       *sched
	evs     []string
	aborted bool

	chanIDs   []in10n.ChannelID
	chanClean []func()
	chanSubj  []int
	calls     []*gcall
	wat       map[int]*watcher

	// mirror of the model state needed to know which step is enabled
	queue    []int
	tosub    map[int]map[int]bool
	subd     map[int]map[int]bool
	tok      map[int]bool
	subs     map[int]map[int]bool
	live     map[int]bool
	term     map[int]bool
	clnBegun map[int]bool
	blocked  *gcall // the Update that was released into the full queue and sits in its send
	nRunning bool // notifier is inside its select (not parked)
	nStage   string
	nGot     int

	// Go-side bookkeeping for tags
	last      map[int]uint64
	notified  map[[2]int]uint64
	overlap   map[[2]int]bool
	delivered int
	switches  int
	lastProc  string
	tags      map[string]bool
	stepsOf   map[string]int
}

func newDrv(sc *scenario) *drv {
	d := &drv{sc: sc, s: newSched(), wat: map[int]*watcher{}, tosub: map[int]map[int]bool{}, subd: map[int]map[int]bool{},
		tok: map[int]bool{}, subs: map[int]map[int]bool{}, live: map[int]bool{}, term: map[int]bool{}, clnBegun: map[int]bool{},
		last: map[int]uint64{}, notified: map[[2]int]uint64{}, overlap: map[[2]int]bool{}, tags: map[string]bool{}, stepsOf: map[string]int{}}
	for p := 0; p < nProj; p++ {
		d.tosub[p] = map[int]bool{}
		d.subd[p] = map[int]bool{}
	}
	verifhook.SetCallback(d.s.hook)
	clock := kit.NewClock()
	d.nb, d.bclean = in10nmem.NewN10nBroker(in10n.Quotas{Channels: sc.Quotas[0], ChannelsPerSubject: sc.Quotas[1],
		Subscriptions: sc.Quotas[2], SubscriptionsPerSubject: sc.Quotas[3]}, clock)
	d.nRunning = true
	d.nStage = "idle"
	return d
}

func (d *drv) emit(format string, a ...any) { d.evs = append(d.evs, fmt.Sprintf(format, a...)) }

func (d *drv) touched(name string) {
	if d.lastProc != "" && d.lastProc != name && d.stepsOf[name] > 0 {
		d.switches++
	}
	d.stepsOf[name]++
	d.lastProc = name
}

func (d *drv) stuck(who int, why string) {
	if d.aborted {
		return
	}
	d.emit("(AStuck %d, ONone)", who)
	d.tags["stuck:"+why] = true
	d.aborted = true
	patience = 300 * time.Millisecond
}

func resOf(err error) string {
	switch {
	case err == nil:
		return "ROk"
	case errors.Is(err, in10n.ErrChannelDoesNotExist):
		return "RNoChan"
	case errors.Is(err, in10n.ErrChannelTerminated):
		return "RTerm"
	case errors.Is(err, in10n.ErrQuotaExceeded_Subscriptions):
		return "RQSubs"
	case errors.Is(err, in10n.ErrQuotaExceeded_SubscriptionsPerSubject):
		return "RQSubsSubj"
	case errors.Is(err, in10n.ErrQuotaExceeded_Channels):
		return "RQChans"
	case errors.Is(err, in10n.ErrQuotaExceeded_ChannelsPerSubject):
		return "RQChansSubj"
	case errors.Is(err, in10nmem.ErrMetricDoesNotExists):
		return "RNoMetric"
	}
	return "RPanic"
}

func (d *drv) chanID(c int) in10n.ChannelID {
	if c < len(d.chanIDs) {
		return d.chanIDs[c]
	}
	return in10n.ChannelID("no-such-channel")
}

func (d *drv) room() bool { return len(d.queue) < eventsCap }

// ---- API calls ----

func (d *drv) newChan(subj int) {
	id, cl, err := d.nb.NewChannel(istructs.SubjectLogin("s"+strconv.Itoa(subj)), 24*time.Hour)
	d.emit("(ANewChan %d, ORes %s)", subj, resOf(err))
	if err == nil {
		c := len(d.chanIDs)
		d.chanIDs = append(d.chanIDs, id)
		d.chanClean = append(d.chanClean, cl)
		d.chanSubj = append(d.chanSubj, subj)
		d.live[c] = true
		d.subs[c] = map[int]bool{}
		if d.sc.Quotas[1] == 0 {
			d.tags["Q0:first-channel-of-subject-unchecked"] = true
		}
	}
}

func (d *drv) inflight() int {
	n := 0
	for _, g := range d.calls {
		if !g.pr.done {
			n++
		}
	}
	return n
}

func (d *drv) unmarked(kind string, c, p int) bool {
	for _, g := range d.calls {
		if g.pr.done {
			continue
		}
		if kind == "sub" && g.kind == "sub" && g.c == c && g.p == p && g.stage == "reg" {
			return true
		}
		if kind == "uns" && ((g.kind == "uns" && g.c == c && g.p == p && g.stage == "reg") || (g.kind == "cln" && g.c == c && g.stage == "ureg" && g.cur == p)) {
			return true
		}
	}
	return false
}

func (d *drv) start(kind string, c, p int, off uint64) {
	g := &gcall{id: len(d.calls), kind: kind, c: c, p: p, off: off}
	d.calls = append(d.calls, g)
	name := fmt.Sprintf("g%d", g.id)
	d.touched(name)
	g.pr = d.s.spawn(name, func() {
		defer func() {
			if r := recover(); r != nil {
				g.pan = true
			}
		}()
		switch kind {
		case "upd":
			d.nb.Update(projKey(p), istructs.Offset(off))
		case "sub":
			g.err = d.nb.Subscribe(d.chanID(c), subKey(c, p))
		case "uns":
			g.err = d.nb.Unsubscribe(d.chanID(c), unsKey(c, p))
		case "cln":
			d.chanClean[c]()
		}
	})
	pt, ok := g.pr.arrive(patience)
	if !ok {
		d.stuck(g.id, kind+"-start")
		return
	}
	switch kind {
	case "upd":
		if pt != "in10n.update.stored" {
			d.stuck(g.id, "upd-point")
			return
		}
		g.stage = "stored"
		d.last[p] = off
		d.emit("(AUpdStore %d %d, ONone)", p, off)
	case "sub":
		switch {
		case pt == "in10n.subscribe.registered":
			g.stage = "reg"
			if d.unmarked("uns", c, p) {
				d.overlap[[2]int{c, p}] = true
			}
			if !d.subs[c][p] {
				d.subs[c][p] = true
				d.notified[[2]int{c, p}] = 0
			}
			if markEarly {
				d.tosub[p][c] = true
			}
			d.emit("(ASubReg %d %d, ORes ROk)", c, p)
		case pt == "done" && g.err != nil:
			d.emit("(ASubReg %d %d, ORes %s)", c, p, resOf(g.err))
		default:
			d.stuck(g.id, "sub-point")
		}
	case "uns":
		switch {
		case pt == "in10n.unsubscribe.registered":
			g.stage = "reg"
			d.unsReg(c, p)
			if markEarly {
				d.tosub[p][c] = false
			}
			d.emit("(AUnsReg %d %d, ORes ROk)", c, p)
		case pt == "done" && g.err == nil && !g.pan:
			d.unsReg(c, p)
			d.emit("(AUnsReg %d %d, ORes ROkNoProj)", c, p)
		case pt == "done":
			d.emit("(AUnsReg %d %d, ORes %s)", c, p, resOf(g.err))
		default:
			d.stuck(g.id, "uns-point")
		}
	case "cln":
		switch {
		case pt == "in10n.cleanup.terminated":
			g.stage = "term"
			d.term[c] = true
			d.clnBegun[c] = true
			for q := range d.subs[c] {
				g.rem = append(g.rem, q)
			}
			sort.Ints(g.rem)
			d.emit("(AClnTerm %d, ORes ROk)", c)
		case pt == "done" && g.pan:
			d.emit("(AClnTerm %d, ORes RPanic)", c)
		default:
			d.stuck(g.id, "cln-point")
		}
	}
}

func (d *drv) unsReg(c, p int) {
	if d.unmarked("sub", c, p) {
		d.overlap[[2]int{c, p}] = true
	}
	if d.subs[c] != nil {
		delete(d.subs[c], p)
	}
}

// macroOK: a cleanup with two or more keys runs its Unsubscribe loop and the notifier's handling
// of those events without interleaving (the order of Go's map iteration is not observable)
func (d *drv) macroOK() bool { return len(d.queue) == 0 && d.nStage == "idle" }

func (d *drv) callEnabled(g *gcall) bool {
	if g.pr.done {
		return false
	}
	switch g.kind + "." + g.stage {
	case "upd.stored", "sub.marked", "uns.marked", "cln.umarked":
		return d.room()
	case "sub.reg", "uns.reg", "cln.ureg", "cln.unsubd":
		return true
	case "cln.term":
		return len(g.rem) < 2 || d.macroOK()
	}
	return false
}

// blockable: an Update that would have to wait in its enqueue: the queue is full and the mirror's
// queue length is exact (the notifier is parked at a point, not inside its select)
func (d *drv) blockable(g *gcall) bool {
	return !g.pr.done && g.kind == "upd" && g.stage == "stored" && !d.room() && !d.nRunning && d.blocked == nil
}

// blockCall releases such an Update and observes that it does not return (must-not-arrive)
func (d *drv) blockCall(g *gcall) {
	d.touched(g.pr.name)
	pt, ok := g.pr.step(blockPatience)
	switch {
	case !ok:
		g.stage = "blocked"
		d.blocked = g
		d.tags["update-blocked-on-full-queue"] = true
		d.emit("(ABlocked %d, ONone)", g.p)
	case pt == "done":
		// the call returned although the queue is full
		d.tags["update-returned-on-full-queue"] = true
		if updBlocking {
			d.queue = append(d.queue, g.p)
		}
		d.emit("(AUpdEnq %d, ONone)", g.p)
	default:
		d.stuck(g.id, "upd-block->"+pt)
	}
}

func (d *drv) expect(g *gcall, want string) bool {
	pt, ok := g.pr.step(patience)
	if !ok || pt != want {
		d.stuck(g.id, g.kind+"-"+g.stage+"->"+pt)
		return false
	}
	return true
}

func (d *drv) stepCall(g *gcall) {
	d.touched(g.pr.name)
	switch g.kind + "." + g.stage {
	case "upd.stored":
		if d.expect(g, "done") {
			d.queue = append(d.queue, g.p)
			d.emit("(AUpdEnq %d, ONone)", g.p)
		}
	case "sub.reg":
		if d.expect(g, "in10n.subscribe.marked") {
			g.stage = "marked"
			if !markEarly {
				d.tosub[g.p][g.c] = true
			}
			d.emit("(ASubMark %d %d, ONone)", g.c, g.p)
		}
	case "sub.marked":
		if d.expect(g, "done") {
			d.queue = append(d.queue, g.p)
			d.emit("(ASubEnq %d %d, ONone)", g.c, g.p)
		}
	case "uns.reg":
		if d.expect(g, "in10n.unsubscribe.marked") {
			g.stage = "marked"
			if !markEarly {
				d.tosub[g.p][g.c] = false
			}
			d.emit("(AUnsMark %d %d, ONone)", g.c, g.p)
		}
	case "uns.marked":
		if d.expect(g, "done") {
			d.queue = append(d.queue, g.p)
			d.emit("(AUnsEnq %d %d, ONone)", g.c, g.p)
		}
	case "cln.term":
		switch {
		case len(g.rem) == 0:
			if d.expect(g, "in10n.cleanup.unsubscribed") {
				g.stage = "unsubd"
			}
		case len(g.rem) == 1:
			if d.expect(g, "in10n.unsubscribe.registered") {
				g.cur = g.rem[0]
				g.rem = nil
				g.stage = "ureg"
				d.unsReg(g.c, g.cur)
				if markEarly {
					d.tosub[g.cur][g.c] = false
				}
				d.emit("(AClnReg %d %d, ONone)", g.c, g.cur)
			}
		default:
			d.macroCleanup(g)
		}
	case "cln.ureg":
		if d.expect(g, "in10n.unsubscribe.marked") {
			g.stage = "umarked"
			if !markEarly {
				d.tosub[g.cur][g.c] = false
			}
			d.emit("(AUnsMark %d %d, ONone)", g.c, g.cur)
		}
	case "cln.umarked":
		if d.expect(g, "in10n.cleanup.unsubscribed") {
			g.stage = "unsubd"
			d.queue = append(d.queue, g.cur)
			d.emit("(AUnsEnq %d %d, ONone)", g.c, g.cur)
		}
	case "cln.unsubd":
		if d.expect(g, "done") {
			d.live[g.c] = false
			d.emit("(AClnFin %d, ONone)", g.c)
		}
	}
}

func (d *drv) macroCleanup(g *gcall) {
	keys := g.rem
	for range keys {
		if !d.expect(g, "in10n.unsubscribe.registered") || !d.expect(g, "in10n.unsubscribe.marked") {
			return
		}
	}
	if !d.expect(g, "in10n.cleanup.unsubscribed") {
		return
	}
	g.stage = "unsubd"
	g.rem = nil
	for _, p := range keys {
		d.unsReg(g.c, p)
		d.tosub[p][g.c] = false
		d.queue = append(d.queue, p)
		d.emit("(AClnReg %d %d, ONone)", g.c, p)
		d.emit("(AUnsMark %d %d, ONone)", g.c, p)
		d.emit("(AUnsEnq %d %d, ONone)", g.c, p)
	}
	for !d.aborted && d.notifEnabled() {
		d.stepNotifier()
	}
}

// ---- notifier ----

func (d *drv) notifEnabled() bool {
	if d.nStage == "idle" {
		return len(d.queue) > 0
	}
	return true
}

func (d *drv) stepNotifier() {
	d.touched("n")
	n := d.s.notif
	var pt string
	var ok bool
	if d.nRunning {
		pt, ok = n.arrive(patience)
		d.nRunning = false
	} else {
		pt, ok = n.step(patience)
	}
	want := map[string]string{"idle": "in10n.notifier.dequeued", "got": "in10n.notifier.merged", "send": "in10n.notifier.sent"}[d.nStage]
	if !ok || pt != want {
		d.stuck(100, "notifier-"+d.nStage+"->"+pt)
		return
	}
	switch d.nStage {
	case "idle":
		d.nGot = d.queue[0]
		d.queue = d.queue[1:]
		d.nStage = "got"
		d.emit("(ANDeq, ONone)")
		if g := d.blocked; g != nil {
			// the dequeue made room: the blocked Update must complete now
			if pt, ok := g.pr.arrive(patience); !ok || pt != "done" {
				d.stuck(g.id, "blocked-update-not-released->"+pt)
				return
			}
			d.blocked = nil
			g.stage = ""
			d.queue = append(d.queue, g.p)
			d.emit("(AUpdEnq %d, ONone)", g.p)
		}
	case "got":
		p := d.nGot
		for c, v := range d.tosub[p] {
			if v {
				d.subd[p][c] = true
			} else {
				delete(d.subd[p], c)
			}
		}
		d.tosub[p] = map[int]bool{}
		d.emit("(ANMerge, ONone)")
		if len(d.subd[p]) == 0 {
			// the model goes straight back to idle; the real notifier still passes its "sent" point
			if pt, ok := n.step(patience); !ok || pt != "in10n.notifier.sent" {
				d.stuck(100, "notifier-nosend->"+pt)
				return
			}
			d.nStage = "idle"
		} else {
			d.nStage = "send"
		}
	case "send":
		var cs []int
		for c := range d.subd[d.nGot] {
			cs = append(cs, c)
		}
		sort.Ints(cs)
		for _, c := range cs {
			d.tok[c] = true
			d.emit("(ANSend %d, ONone)", c)
		}
		d.nStage = "idle"
	}
}

// ---- watchers ----

func (d *drv) watch(c int) {
	ctx, cancel := context.WithCancel(context.Background())
	w := &watcher{c: c, cancel: cancel}
	name := fmt.Sprintf("w%d", c)
	d.touched(name)
	w.pr = d.s.spawn(name, func() {
		defer func() {
			if r := recover(); r != nil {
				w.pan = true
			}
		}()
		d.nb.WatchChannel(ctx, d.chanID(c), func(pk in10n.ProjectionKey, o istructs.Offset) {
			p := uint64(pk.WS) - 1
			if pk.Projection == in10n.QNameHeartbeat30 {
				p = hbProj
			}
			w.units = append(w.units, [2]uint64{p, uint64(o)})
		})
	})
	pt, ok := w.pr.arrive(patience)
	switch {
	case ok && pt == "in10n.watch.wait":
		d.wat[c] = w
		d.emit("(AWStart %d, ORes ROk)", c)
	case ok && pt == "done" && w.pan:
		cancel()
		d.emit("(AWStart %d, ORes RPanic)", c)
	default:
		d.stuck(200+c, "watch-start->"+pt)
	}
}

func (d *drv) watchEnabled(w *watcher) bool {
	if w.dead {
		return false
	}
	if w.pr.at == "in10n.watch.wait" {
		return d.tok[w.c]
	}
	return true
}

func unitsCoq(u [][2]uint64) string {
	sort.Slice(u, func(i, j int) bool { return u[i][0] < u[j][0] })
	var items []string
	for _, x := range u {
		items = append(items, fmt.Sprintf("(%d,%d)", x[0], x[1]))
	}
	return kit.List(items)
}

func (d *drv) deliverEvent(w *watcher) {
	for _, x := range w.units {
		k := [2]int{w.c, int(x[0])}
		if d.subs[w.c][int(x[0])] {
			d.notified[k] = x[1]
		}
		d.delivered++
	}
	d.emit("(AWDeliver %d, OUnits %s)", w.c, unitsCoq(w.units))
	w.units = nil
}

func (d *drv) stepWatch(w *watcher) {
	d.touched(w.pr.name)
	from := w.pr.at
	want := map[string]string{"in10n.watch.wait": "in10n.watch.token", "in10n.watch.token": "in10n.watch.scanned", "in10n.watch.scanned": "in10n.watch.wait"}[from]
	pt, ok := w.pr.step(patience)
	if !ok || pt != want {
		d.stuck(200+w.c, "watch-"+from+"->"+pt)
		return
	}
	switch from {
	case "in10n.watch.wait":
		d.tok[w.c] = false
		d.emit("(AWTake %d, ONone)", w.c)
	case "in10n.watch.token":
		d.emit("(AWScan %d, ONone)", w.c)
	case "in10n.watch.scanned":
		d.deliverEvent(w)
	}
}

// stop cancels the watcher's context where the outcome is deterministic
func (d *drv) stop(w *watcher) {
	if w.dead {
		return
	}
	d.touched(w.pr.name)
	if w.pr.at == "in10n.watch.wait" && d.tok[w.c] {
		d.stepWatch(w) // take the token first: select with both cases ready is a coin flip
		if d.aborted {
			return
		}
	}
	from := w.pr.at
	w.cancel()
	var pt string
	var ok bool
	if from == "" {
		pt, ok = w.pr.arrive(patience) // released into the select by the quiescence probe
	} else {
		pt, ok = w.pr.step(patience)
	}
	if !ok || pt != "done" {
		d.stuck(200+w.c, "watch-stop->"+pt)
		return
	}
	if from == "in10n.watch.scanned" {
		d.deliverEvent(w)
	}
	w.dead = true
	d.emit("(AWStop %d, ONone)", w.c)
}

// ---- probes ----

func (d *drv) probe() (psubNonzero []int) {
	nch := d.nb.MetricNumChannels()
	nsub := d.nb.MetricNumSubscriptions()
	type sm struct{ s, nc, ns int }
	var sms []sm
	d.nb.MetricSubject(context.Background(), func(subject istructs.SubjectLogin, nc int, ns int) {
		i, _ := strconv.Atoi(strings.TrimPrefix(string(subject), "s"))
		sms = append(sms, sm{i, nc, ns})
	})
	sort.Slice(sms, func(i, j int) bool { return sms[i].s < sms[j].s })
	var a, b []string
	for _, x := range sms {
		a = append(a, fmt.Sprintf("(%d,(%d,%d))", x.s, x.nc, x.ns))
	}
	for p := 0; p < nProj; p++ {
		if n := d.nb.MetricNumProjectionSubscriptions(projKey(p)); n > 0 {
			b = append(b, fmt.Sprintf("(%d,%d)", p, n))
			psubNonzero = append(psubNonzero, p)
		}
	}
	d.emit("(AProbe, OMet %d %d %s %s)", nch, nsub, kit.List(a), kit.List(b))
	return
}

// ---- phases after the scripted part ----

func (d *drv) sortedWatchers() []*watcher {
	var cs []int
	for c := range d.wat {
		cs = append(cs, c)
	}
	sort.Ints(cs)
	var ws []*watcher
	for _, c := range cs {
		ws = append(ws, d.wat[c])
	}
	return ws
}

// drain: watchers stay parked; every call in flight must return with the notifier's help only
func (d *drv) drain() {
	d.emit("(AMark 0, ONone)")
	for !d.aborted {
		progressed := false
		for _, g := range d.calls {
			if d.callEnabled(g) {
				d.stepCall(g)
				progressed = true
				break
			}
		}
		if progressed {
			continue
		}
		if d.inflight() == 0 {
			break
		}
		if d.notifEnabled() {
			d.stepNotifier()
			continue
		}
		d.stuck(101, "calls-cannot-return")
	}
	if !d.aborted {
		d.emit("(AMark 1, ONone)")
	}
}

func (d *drv) settle() {
	for !d.aborted {
		switch {
		case d.notifEnabled():
			d.stepNotifier()
			continue
		}
		progressed := false
		for _, w := range d.sortedWatchers() {
			if d.watchEnabled(w) {
				d.stepWatch(w)
				progressed = true
				break
			}
		}
		if !progressed {
			break
		}
	}
}

// quiescent: the mirror says nothing can move; check it on the real goroutines (must-not-arrive)
func (d *drv) quiescent() {
	const short = 4 * time.Millisecond
	for _, w := range d.sortedWatchers() {
		if w.dead {
			continue
		}
		if pt, ok := w.pr.step(short); ok {
			// a token the model did not know about
			d.emit("(AWTake %d, ONone)", w.c)
			d.tags["unexpected-token:"+pt] = true
		}
	}
	if !d.nRunning {
		if pt, ok := d.s.notif.step(short); ok {
			d.emit("(ANDeq, ONone)")
			d.tags["unexpected-event:"+pt] = true
		} else {
			d.nRunning = true
		}
	}
	d.emit("(AMark 2, ONone)")
	for k := range d.overlap {
		c, p := k[0], k[1]
		w := d.wat[c]
		if d.subs[c][p] && d.live[c] && !d.term[c] && w != nil && !w.dead && d.notified[k] != d.last[p] {
			d.tags["F19:overlap-sub-unsub"] = true
		}
	}
	d.probe()
}

func (d *drv) teardown() {
	for _, w := range d.sortedWatchers() {
		if d.aborted {
			return
		}
		d.stop(w)
	}
	for c := range d.chanIDs {
		if d.aborted {
			return
		}
		if d.clnBegun[c] {
			continue
		}
		d.start("cln", c, 0, 0)
		g := d.calls[len(d.calls)-1]
		for !d.aborted && !g.pr.done {
			if d.callEnabled(g) {
				d.stepCall(g)
			} else if d.notifEnabled() {
				d.stepNotifier()
			} else {
				d.stuck(g.id, "teardown-cleanup")
			}
		}
	}
	for !d.aborted && d.notifEnabled() {
		d.stepNotifier()
	}
	if d.aborted {
		return
	}
	d.emit("(AMark 3, ONone)")
	nz := d.probe()
	for _, p := range nz {
		for k := range d.overlap {
			if k[1] == p {
				d.tags["F19:overlap-sub-unsub"] = true
			}
		}
	}
}

// finish lets everything run freely and stops the broker
func (d *drv) finish() {
	d.s.freeRun()
	for _, w := range d.wat {
		w.cancel()
	}
	done := make(chan struct{})
	go func() {
		defer close(done)
		for c := range d.chanIDs {
			if !d.clnBegun[c] {
				func() {
					defer func() { _ = recover() }()
					d.chanClean[c]()
				}()
			}
		}
		d.bclean()
	}()
	select {
	case <-done:
	case <-time.After(3 * time.Second):
		d.tags["teardown-timeout"] = true
	}
	verifhook.SetCallback(nil)
}
