package c20

import (
	"bytes"
	"runtime"
	"strconv"
	"strings"
	"sync"
	"sync/atomic"
	"time"
)

// Step scheduler over the verifhook points of pkg/in10nmem. Unlike kit.Sched it also manages a
// goroutine it did not start (the broker's notifier, recognised by its point names) and lets a
// process be released into a blocking wait ("running") and be picked up at its next point later.
type proc struct {
	name   string
	gate   chan struct{}
	parked chan string
	at     string // point where it is parked; "" = running (or blocked inside the real code)
	done   bool
}

type sched struct {
	mu    sync.Mutex
	procs map[int64]*proc
	all   []*proc
	notif *proc
	free  atomic.Bool
}

// patience for an expected arrival; after the first missed arrival of a run the later scenarios
// wait less, so that a broken build is reported in bounded time
var patience = 3 * time.Second

func goid() int64 {
	var buf [64]byte
	n := runtime.Stack(buf[:], false)
	f := bytes.Fields(buf[:n])
	id, _ := strconv.ParseInt(string(f[1]), 10, 64)
	return id
}

func newProc(name string) *proc {
	return &proc{name: name, gate: make(chan struct{}), parked: make(chan string, 1)}
}

func newSched() *sched {
	s := &sched{procs: map[int64]*proc{}, notif: newProc("notifier")}
	s.all = append(s.all, s.notif)
	return s
}

// hook is installed with verifhook.SetCallback
func (s *sched) hook(name string) {
	if s.free.Load() {
		return
	}
	var p *proc
	if strings.HasPrefix(name, "in10n.notifier.") {
		p = s.notif
	} else {
		s.mu.Lock()
		p = s.procs[goid()]
		s.mu.Unlock()
	}
	if p == nil {
		return // unmanaged goroutine (heartbeat): never parked
	}
	p.parked <- name
	<-p.gate
}

// spawn starts body in a managed goroutine; it runs until its first point
func (s *sched) spawn(name string, body func()) *proc {
	p := newProc(name)
	ready := make(chan struct{})
	s.mu.Lock()
	s.all = append(s.all, p)
	s.mu.Unlock()
	go func() {
		id := goid()
		s.mu.Lock()
		s.procs[id] = p
		s.mu.Unlock()
		close(ready)
		body()
		s.mu.Lock()
		delete(s.procs, id)
		s.mu.Unlock()
		p.parked <- "done"
	}()
	<-ready
	return p
}

// arrive waits until the running process parks (or finishes)
func (p *proc) arrive(d time.Duration) (string, bool) {
	select {
	case pt := <-p.parked:
		p.at = pt
		if pt == "done" {
			p.done = true
		}
		return pt, true
	case <-time.After(d):
		return "", false
	}
}

func (p *proc) release() {
	p.at = ""
	p.gate <- struct{}{}
}

func (p *proc) step(d time.Duration) (string, bool) {
	p.release()
	return p.arrive(d)
}

// freeRun turns every point into a no-op and lets every parked goroutine go (teardown)
func (s *sched) freeRun() {
	if s.free.Swap(true) {
		return
	}
	s.mu.Lock()
	defer s.mu.Unlock()
	for _, p := range s.all {
		close(p.gate)
	}
}
