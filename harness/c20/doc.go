// Package c20: harness of property C20 (registers itself with kit.Register in an init function).
package c20
