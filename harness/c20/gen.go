package c20

import (
	"encoding/json"
	"fmt"
	"os"
	"sort"
	"strings"

	"verifharness/kit"
)

// exec runs one scripted command; false = the command is not executable in the current state
func (d *drv) exec(cmd string) bool {
	f := strings.Fields(cmd)
	arg := func(i int) int {
		var v int
		if i < len(f) {
			fmt.Sscanf(f[i], "%d", &v)
		}
		return v
	}
	switch f[0] {
	case "new":
		d.newChan(arg(1))
	case "upd":
		d.start("upd", 0, arg(1), uint64(arg(2)))
	case "sub":
		d.start("sub", arg(1), arg(2), 0)
	case "uns":
		d.start("uns", arg(1), arg(2), 0)
	case "cln":
		if arg(1) >= len(d.chanIDs) {
			return false
		}
		d.start("cln", arg(1), 0, 0)
	case "watch":
		if w := d.wat[arg(1)]; w != nil && w.dead {
			return false // watching a channel again is outside the modelled domain
		}
		d.watch(arg(1))
	case "stop":
		w := d.wat[arg(1)]
		if w == nil || w.dead {
			return false
		}
		d.stop(w)
	case "block":
		var i int
		if len(f) < 2 || f[1][0] != 'g' {
			return false
		}
		fmt.Sscanf(f[1][1:], "%d", &i)
		if i >= len(d.calls) || !d.blockable(d.calls[i]) {
			return false
		}
		d.blockCall(d.calls[i])
	case "probe":
		d.probe()
	case "step":
		switch {
		case f[1] == "n":
			if !d.notifEnabled() {
				return false
			}
			d.stepNotifier()
		case f[1][0] == 'w':
			var c int
			fmt.Sscanf(f[1][1:], "%d", &c)
			w := d.wat[c]
			if w == nil || !d.watchEnabled(w) {
				return false
			}
			d.stepWatch(w)
		case f[1][0] == 'g':
			var i int
			fmt.Sscanf(f[1][1:], "%d", &i)
			if i >= len(d.calls) || !d.callEnabled(d.calls[i]) {
				return false
			}
			d.stepCall(d.calls[i])
		default:
			return false
		}
	default:
		return false
	}
	return true
}

type weighted struct {
	cmd string
	w   int
}

// propose lists the commands the generator may issue now, with weights
func (d *drv) propose(r *kit.Rng, kind string, nextOff map[int]uint64, step, budget int) []weighted {
	var ws []weighted
	add := func(w int, format string, a ...any) { ws = append(ws, weighted{fmt.Sprintf(format, a...), w}) }
	for _, g := range d.calls {
		if d.callEnabled(g) {
			add(6, "step g%d", g.id)
		}
		if d.blockable(g) {
			add(3, "block g%d", g.id)
		}
	}
	if d.notifEnabled() {
		add(7, "step n")
	}
	for _, w := range d.sortedWatchers() {
		if d.watchEnabled(w) {
			add(5, "step w%d", w.c)
		}
	}
	nch := len(d.chanIDs)
	if nch < maxChans {
		w := 2
		if nch == 0 {
			w = 40
		}
		add(w, "new %d", r.Intn(nSubj))
	}
	if kind == "malformed" && r.Chance(1, 6) {
		add(3, "sub %d %d", nch+r.Intn(2), r.Intn(nProj)) // no such channel
		add(2, "uns %d %d", nch, r.Intn(nProj))
		add(2, "watch %d", nch)
	}
	if d.inflight() < 4 && step < budget {
		p := r.Intn(nProj)
		off := nextOff[p] + uint64(kit.Pick(r, []int{0, 1, 1, 1, 2, 7}))
		if off == 0 {
			off = 1
		}
		if kind == "malformed" && r.Chance(1, 4) {
			off = uint64(kit.Pick(r, []int{0, 1, 2, int(nextOff[p]) / 2}))
		}
		add(8, "upd %d %d", p, off)
		for c := 0; c < nch; c++ {
			p := r.Intn(nProj)
			busySub, busyUns := false, false
			for _, g := range d.calls {
				if g.pr.done || g.c != c {
					continue
				}
				if g.kind == "sub" && g.p == p {
					busySub = true
				}
				if (g.kind == "uns" && g.p == p) || g.kind == "cln" {
					busyUns = true
				}
			}
			anySub := false
			for _, g := range d.calls {
				if !g.pr.done && g.c == c && g.kind == "sub" {
					anySub = true
				}
			}
			free := kind != "valid"
			if free || !busyUns {
				w := 5
				if kind == "overlap" && busyUns {
					w = 25
				}
				if d.live[c] || kind == "malformed" {
					add(w, "sub %d %d", c, p)
				}
			}
			if free || !busySub {
				w := 2
				if kind == "overlap" && busySub {
					w = 25
				}
				if d.live[c] || kind == "malformed" {
					add(w, "uns %d %d", c, p)
				}
			}
			if (free || !anySub) && (!d.clnBegun[c] || (kind == "malformed" && r.Chance(1, 8))) {
				add(1, "cln %d", c)
			}
			if d.wat[c] == nil && d.live[c] {
				add(4, "watch %d", c)
			} else if kind == "malformed" && d.wat[c] != nil && !d.wat[c].dead && r.Chance(1, 10) {
				add(1, "watch %d", c) // already being watched
			}
			if w := d.wat[c]; w != nil && !w.dead && r.Chance(1, 12) {
				add(1, "stop %d", c)
			}
		}
	}
	if r.Chance(1, 10) {
		add(2, "probe")
	}
	return ws
}

// recorder executes commands and appends the executed ones to the scenario's script
func (d *drv) recorder(sc *scenario) func(format string, a ...any) bool {
	return func(format string, a ...any) bool {
		cmd := fmt.Sprintf(format, a...)
		if d.aborted || !d.exec(cmd) {
			return false
		}
		sc.Script = append(sc.Script, cmd)
		return true
	}
}

// settleAll runs every call, the notifier and the watchers until nothing can move
func (d *drv) settleAll(do func(format string, a ...any) bool) {
	for moved := true; moved && !d.aborted; {
		moved = false
		for _, g := range d.calls {
			if d.callEnabled(g) {
				moved = do("step g%d", g.id) || moved
			}
		}
		for d.notifEnabled() && do("step n") {
			moved = true
		}
		for _, w := range d.sortedWatchers() {
			for d.watchEnabled(w) && do("step w%d", w.c) {
				moved = true
			}
		}
	}
}

// stale: an Update with a lower offset reaches the broker after a higher one was delivered
// (late or racing updaters), and the watcher is woken afterwards in several ways: within one
// subscription nothing lower may ever be reported
func (d *drv) stale(r *kit.Rng, sc *scenario) {
	do := d.recorder(sc)
	p := r.Intn(nProj)
	q := (p + 1 + r.Intn(nProj-1)) % nProj
	do("new 0")
	do("sub 0 %d", p)
	do("sub 0 %d", q)
	do("watch 0")
	d.settleAll(do)
	high := uint64(5 + r.Intn(6))
	do("upd %d %d", p, high)
	d.settleAll(do) // delivered = high
	low := uint64(kit.Pick(r, []int{0, 1, 2, int(high) / 2, int(high) - 1}))
	do("upd %d %d", p, low)
	if r.Bool() {
		d.settleAll(do) // woken by the stale update's own event
	}
	for i, n := 0, 1+r.Intn(3); i < n && !d.aborted; i++ {
		switch r.Intn(4) {
		case 0: // woken through another projection of the same channel
			do("upd %d %d", q, uint64(i+1))
			d.settleAll(do)
		case 1: // subscribe again (same subscription)
			do("sub 0 %d", p)
			d.settleAll(do)
		case 2: // an update between the stale and the delivered offset
			if low+1 < high {
				do("upd %d %d", p, low+1+uint64(r.Intn(int(high-low-1))))
				d.settleAll(do)
			}
		case 3: // a new subscription: it starts from 0 and is told the stored (lower) offset
			do("uns 0 %d", p)
			if r.Bool() {
				d.settleAll(do)
			}
			do("sub 0 %d", p)
			d.settleAll(do)
		}
	}
	if r.Bool() {
		do("upd %d %d", p, high+uint64(r.Intn(3))) // catching up again
	}
}

// burst: the notifier is held parked while more than eventsChannelSize events are produced, so
// that the last Update of the victim projection has to block in its enqueue with a full queue of
// events of other projections; the victim's subscriber shares no projection with them
func (d *drv) burst(r *kit.Rng, sc *scenario) {
	do := d.recorder(sc)
	last := func() int { return len(d.calls) - 1 }
	settleAll := func() { d.settleAll(do) }
	victim := r.Intn(nProj)
	others := []int{(victim + 1) % nProj, (victim + 2) % nProj}
	off := map[int]uint64{}
	upd := func(p int) bool {
		off[p] += uint64(1 + r.Intn(3))
		return do("upd %d %d", p, off[p])
	}
	do("new 0")
	do("new 1")
	do("sub 0 %d", victim)
	do("sub 1 %d", others[0])
	if r.Bool() {
		do("sub 1 %d", others[1])
	}
	do("watch 0")
	if r.Chance(2, 3) {
		do("watch 1")
	}
	settleAll() // the notifier has handled the subscriptions and is parked at a point now
	if r.Chance(2, 3) {
		upd(victim)
		settleAll()
	}
	// fill the queue with events of the other projections while the notifier is not stepped
	for d.room() && !d.aborted {
		switch {
		case r.Chance(1, 8):
			if do("sub 1 %d", others[r.Intn(2)]) {
				g := d.calls[last()]
				for !g.pr.done && d.callEnabled(g) && do("step g%d", g.id) {
				}
			}
		default:
			if upd(others[r.Intn(2)]) {
				do("step g%d", last())
			}
		}
		if r.Chance(1, 6) {
			for _, w := range d.sortedWatchers() {
				if d.watchEnabled(w) {
					do("step w%d", w.c)
				}
			}
		}
	}
	// sometimes an earlier update of the victim is stored but not queued (it stays in flight)
	if r.Chance(1, 5) {
		upd(victim)
	}
	// the last update of the victim: must block in its enqueue
	upd(victim)
	do("block g%d", last())
	if r.Chance(1, 2) {
		upd(others[r.Intn(2)]) // stored, cannot be queued either
	}
	// a random tail; whatever is left is finished by the drain phase
	for i, n := 0, r.Intn(8); i < n && !d.aborted; i++ {
		switch r.Intn(3) {
		case 0:
			if d.notifEnabled() {
				do("step n")
			}
		case 1:
			for _, g := range d.calls {
				if d.callEnabled(g) {
					do("step g%d", g.id)
					break
				}
			}
		case 2:
			for _, w := range d.sortedWatchers() {
				if d.watchEnabled(w) {
					do("step w%d", w.c)
					break
				}
			}
		}
	}
}

func genQuotas(r *kit.Rng, kind string) [4]int {
	switch r.Intn(6) {
	case 0:
		return [4]int{2, 1, 3, 2} // tight: refusals expected
	case 1:
		return [4]int{3, 2, 2, 2}
	case 2:
		if kind == "malformed" {
			return [4]int{kit.Pick(r, []int{0, 1, 3}), kit.Pick(r, []int{0, 1}), kit.Pick(r, []int{0, 1, 4}), kit.Pick(r, []int{0, 1, 4})}
		}
		return [4]int{1, 1, 1, 1}
	}
	return [4]int{4, 3, 9, 6}
}

// run executes a scenario: scripted phase (from the script, or generated when r != nil), then
// drain (watchers parked), settle, quiescence check, teardown
func run(sc *scenario, r *kit.Rng, budget int) (coq string, tags []string, d *drv) {
	d = newDrv(sc)
	defer d.finish()
	if r == nil {
		for _, cmd := range sc.Script {
			if d.aborted {
				break
			}
			if !d.exec(cmd) {
				d.tags["script-command-not-enabled"] = true
				d.stuck(300, "script:"+cmd)
			}
		}
	} else if sc.Kind == "burst" {
		d.burst(r, sc)
	} else if sc.Kind == "stale" {
		d.stale(r, sc)
	} else {
		nextOff := map[int]uint64{}
		total := budget + 40
		for step := 0; step < total && !d.aborted; step++ {
			ws := d.propose(r, sc.Kind, nextOff, step, budget)
			if len(ws) == 0 {
				break
			}
			sum := 0
			for _, w := range ws {
				sum += w.w
			}
			x := r.Intn(sum)
			var cmd string
			for _, w := range ws {
				if x < w.w {
					cmd = w.cmd
					break
				}
				x -= w.w
			}
			if !d.exec(cmd) {
				continue
			}
			sc.Script = append(sc.Script, cmd)
			if f := strings.Fields(cmd); f[0] == "upd" {
				var p int
				var o uint64
				fmt.Sscanf(f[1], "%d", &p)
				fmt.Sscanf(f[2], "%d", &o)
				if o > nextOff[p] {
					nextOff[p] = o
				}
			}
		}
	}
	if !d.aborted {
		d.drain()
	}
	if !d.aborted {
		d.settle()
	}
	if !d.aborted {
		d.quiescent()
	}
	if !d.aborted {
		d.teardown()
	}
	sc.Events = d.evs
	coq = fmt.Sprintf("(mkTrace (mkQ %d %d %d %d) %s)", sc.Quotas[0], sc.Quotas[1], sc.Quotas[2], sc.Quotas[3], kit.List(d.evs))
	tags = append(tags, "kind:"+sc.Kind)
	for t := range d.tags {
		tags = append(tags, t)
	}
	if len(d.overlap) > 0 {
		tags = append(tags, "overlapping-sub-unsub")
	}
	if d.delivered > 0 {
		tags = append(tags, "delivered")
	}
	sort.Strings(tags)
	return coq, tags, d
}

func emitCase(sc *scenario, coq string, tags []string, d *drv, out *kit.Out) {
	// non-trivial: something was delivered and goroutines really interleaved; distinct = exact event list
	out.Emit(kit.Case{Coq: coq, Key: strings.Join(sc.Events, ";"), Nontrivial: d.delivered > 0 && d.switches >= 3, Desc: sc, Tags: tags})
}

// hooksPresent: without the verifhook.Point lines in pkg/in10nmem (findings/C20/hooks.diff) no
// goroutine can be scheduled; say so instead of reporting every scenario as stuck
func hooksPresent() error {
	sc := &scenario{Kind: "valid", Quotas: [4]int{1, 1, 1, 1}}
	d := newDrv(sc)
	defer d.finish()
	d.start("upd", 0, 0, 1)
	if d.aborted {
		return fmt.Errorf("pkg/in10nmem has no verifhook points (expected in10n.update.stored etc.): apply findings/C20/hooks.diff to the repository")
	}
	return nil
}

func Generate(seed uint64, n int, tier string, corpusDir string, out *kit.Out) error {
	if err := hooksPresent(); err != nil {
		return err
	}
	r := kit.NewRng(seed)
	if corpusDir != "" {
		entries, _ := os.ReadDir(corpusDir)
		var names []string
		for _, e := range entries {
			if strings.HasSuffix(e.Name(), ".json") {
				names = append(names, e.Name())
			}
		}
		sort.Strings(names)
		for _, nm := range names {
			if err := Replay(corpusDir+"/"+nm, out); err != nil {
				return fmt.Errorf("%s: %w", nm, err)
			}
		}
	}
	for i := 0; i < n; i++ {
		cr := r.Fork()
		kind := "valid"
		switch i % 7 {
		case 3:
			kind = "overlap"
		case 5:
			kind = "malformed"
		case 6:
			// a few per quick run, one in seven in the thorough tier
			switch {
			case i%28 == 6 || (tier == "thorough" && i%14 == 6):
				kind = "burst"
			case i%28 == 13 || (tier == "thorough" && i%14 == 13):
				kind = "stale"
			}
		}
		sc := &scenario{Kind: kind, Quotas: genQuotas(cr, kind)}
		if kind == "burst" || kind == "stale" {
			sc.Quotas = [4]int{4, 3, 9, 6}
		}
		budget := 25 + cr.Intn(50)
		if tier == "thorough" {
			budget += cr.Intn(80)
		}
		coq, tags, d := run(sc, cr, budget)
		emitCase(sc, coq, tags, d, out)
	}
	return nil
}

func Replay(path string, out *kit.Out) error {
	if err := hooksPresent(); err != nil {
		return err
	}
	b, err := os.ReadFile(path)
	if err != nil {
		return err
	}
	var wrapper struct {
		Case struct {
			Desc *scenario `json:"desc"`
		} `json:"case"`
		Desc *scenario `json:"desc"`
	}
	var sc scenario
	if err := json.Unmarshal(b, &wrapper); err == nil && wrapper.Desc != nil {
		sc = *wrapper.Desc
	} else if err == nil && wrapper.Case.Desc != nil {
		sc = *wrapper.Case.Desc
	} else if err := json.Unmarshal(b, &sc); err != nil {
		return err
	}
	sc.Events = nil
	coq, tags, d := run(&sc, nil, 0)
	emitCase(&sc, coq, tags, d, out)
	return nil
}
