// hrun drives the real voedger components for one property and writes the observed traces.
//   hrun <ID> -seed S -n N -tier quick|thorough -out cases.jsonl [-corpus dir] [-replay file]
package hmain

import (
	"flag"
	"fmt"
	"os"

	"verifharness/kit"
)

func Main() {
	if len(os.Args) < 2 {
		fmt.Fprintln(os.Stderr, "usage: hrun <ID> [flags]")
		os.Exit(2)
	}
	id := os.Args[1]
	fs := flag.NewFlagSet("hrun", flag.ExitOnError)
	seed := fs.Uint64("seed", 1, "PRNG seed")
	n := fs.Int("n", 100, "number of generated cases")
	tier := fs.String("tier", "quick", "quick|thorough")
	outp := fs.String("out", "cases.jsonl", "output file")
	corpus := fs.String("corpus", "", "corpus directory (run first)")
	replay := fs.String("replay", "", "replay one stored case")
	shard := fs.Int("shard", 0, "shard index (thorough tier)")
	fs.Parse(os.Args[2:])
	out, err := kit.NewOut(*outp)
	if err != nil {
		fmt.Fprintln(os.Stderr, err)
		os.Exit(2)
	}
	r, ok := kit.Registry[id]
	switch {
	case !ok:
		err = fmt.Errorf("unknown property %s", id)
	case *replay != "":
		err = r.Replay(*replay, out)
	default:
		err = r.Generate(*seed, *n, *tier, *corpus, *shard, out)
	}
	if cerr := out.Close(); err == nil {
		err = cerr
	}
	if err != nil {
		fmt.Fprintln(os.Stderr, "hrun:", err)
		os.Exit(2)
	}
}
