package c02

import (
	"context"
	"fmt"
	"testing"

	"github.com/voedger/voedger/pkg/istructs"
)

func TestExplore(t *testing.T) {
	r, err := newRig("mem")
	if err != nil {
		t.Fatal(err)
	}
	defer r.close()
	bases := map[uint64]*baseDoc{}
	off := uint64(10)
	for _, sh := range append(append([]string{}, validShapes...), invalidShapes...) {
		for seed := uint64(0); seed < 3; seed++ {
			s := eventSpec{Shape: sh, Seed: seed*7 + 2, Part: 3, POff: off, WS: 77, WOff: off + 100}
			off++
			if sh == "cudupd" || sh == "cuddeact" {
				if err := r.ensureBase(s.WS, bases); err != nil {
					t.Fatal(err)
				}
			}
			raw, berr, err := r.build(s, bases)
			if err != nil {
				t.Fatal(sh, err)
			}
			pev, err := r.app.Events().PutPlog(raw, berr, r.gen)
			if err != nil {
				t.Fatal(sh, err)
			}
			d1, err := r.dump(pev)
			if err != nil {
				t.Fatal(sh, err)
			}
			if err := r.app.Events().PutWlog(pev); err != nil {
				t.Fatal(err)
			}
			rawb, ok, _ := r.rawEvent(false, 3, s.POff)
			fmt.Printf("== %s seed %d builderr=%v ok=%v len=%d\n%s\n%s\n%x\n", sh, s.Seed, berr != nil, ok, len(rawb), d1.Text, d1.Coq, rawb)
			if err := r.restart(); err != nil {
				t.Fatal(err)
			}
			var d2 eventDump
			err = r.app.Events().ReadPLog(context.Background(), 3, istructs.Offset(s.POff), 1, func(_ istructs.Offset, e istructs.IPLogEvent) error {
				d2, err = r.dump(e)
				return err
			})
			if err != nil {
				t.Fatal(err)
			}
			if d2.Text != d1.Text {
				fmt.Printf("!! READBACK DIFFERS\n%s\n", d2.Text)
			}
			if d2.Coq != d1.Coq {
				fmt.Printf("!! READBACK COQ DIFFERS\n%s\n", d2.Coq)
			}
			var d3 eventDump
			err = r.app.Events().ReadWLog(context.Background(), 77, istructs.Offset(s.WOff), 1, func(_ istructs.Offset, e istructs.IWLogEvent) error {
				d3, err = r.dump(e)
				return err
			})
			if err != nil {
				t.Fatal(err)
			}
			if d3.Text != d1.Text {
				fmt.Printf("!! WLOG READBACK DIFFERS\n%s\n", d3.Text)
			}
		}
	}
}
