// Package c02: harness of property C02 (registers itself with kit.Register in an init function).
package c02
