package c02

// gen.go: scenario generation (boundary-biased logs and reads, event shapes), corpus, replay.

import (
	"encoding/json"
	"fmt"
	"math"
	"os"
	"sort"
	"strings"

	"verifharness/kit"
)

const prc = 1 << partBits

var logShapes = []string{"none", "none", "none", "none", "order", "secret", "cudnew", "sync-order", "unknown", "none"}

// class f4: events that are not valid and still carry what the builder was given (C02-F4)
var f4Shapes = []string{"bad-order", "bad-secret", "bad-field", "none", "order", "unknown", "order-empties"}
var allShapes = append(append([]string{}, validShapes...), invalidShapes...)
var backends = []string{"mem", "cached-mem", "bbolt", "mem", "cached-bbolt", "mem"}

type logGen struct {
	stored map[uint64]bool // PLog offsets successfully stored (by construction)
}

// is the read in the domain of F10: some stored event of the covered range lies behind a part
// that holds nothing at or after the start
func f10Domain(stored []uint64, off uint64, count int64) bool {
	if count <= 1 {
		return false
	}
	var last uint64 = math.MaxInt64
	if count != math.MaxInt64 {
		fin := off + uint64(count) - 1
		last = fin | (prc - 1) // also what F9 would add
	}
	has := map[uint64]bool{}
	for _, o := range stored {
		if o >= off {
			has[o>>partBits] = true
		}
	}
	for _, o := range stored {
		if o < off || o > last {
			continue
		}
		for q := off >> partBits; q < o>>partBits; q++ {
			if !has[q] {
				return true
			}
		}
	}
	return false
}

func f9Domain(off uint64, count int64) bool {
	return count >= 2 && count != math.MaxInt64 && (off+uint64(count)-1)%prc == 0
}

func genLog(r *kit.Rng, class string, tier string) *logScenario {
	ls := &logScenario{Class: class, WLogToo: r.Chance(1, 2), Restart: r.Chance(2, 3)}
	part := kit.Pick(r, []uint16{1, 7, 65535})
	ws := kit.Pick(r, []uint64{1, 140737488486400, 1<<63 + 5})
	base := kit.Pick(r, []uint64{0, 0, 1, 3, 1 << 20, 1<<51 - 6}) * prc
	wbase := kit.Pick(r, []uint64{0, 2, 1 << 30}) * prc
	wshift := kit.Pick(r, []uint64{0, 1, prc - 1, 100})
	k := 2 + r.Intn(3)
	rel := map[uint64]bool{}
	for j := 0; j <= k; j++ {
		b := uint64(j) * prc
		for d := -3; d <= 3; d++ {
			o := int64(b) + int64(d)
			if o >= 0 && o < int64(k)*prc+3 && r.Chance(3, 4) {
				rel[uint64(o)] = true
			}
		}
	}
	for j := 0; j < k; j++ {
		// something inside every partition, so that only the hole class has empty ones
		rel[uint64(j)*prc+uint64(5+r.Intn(4000))] = true
		rel[uint64(j)*prc+uint64(5+r.Intn(4000))] = true
	}
	if class == "dense" {
		rel = map[uint64]bool{}
		lo, hi := uint64(prc-40-r.Intn(60)), uint64(2*prc+30+r.Intn(60))
		if tier != "thorough" {
			lo, hi = uint64(prc-300), uint64(prc+500)
		}
		for o := lo; o < hi; o++ {
			rel[o] = true
		}
		k = 3
	}
	if class == "f10" {
		switch r.Intn(3) {
		case 0: // a whole partition without events
			h := uint64(1 + r.Intn(k-1))
			for o := range rel {
				if o>>partBits == h {
					delete(rel, o)
				}
			}
		case 1: // nothing after a point in the first partition
			for o := range rel {
				if o>>partBits == 0 && o > 10 {
					delete(rel, o)
				}
			}
			rel[2] = true
		default: // two partitions in a row without events
			for o := range rel {
				if h := o >> partBits; h == 1 || (h == 2 && k > 2) {
					delete(rel, o)
				}
			}
		}
	}
	var offs, dups []uint64
	for o := range rel {
		offs = append(offs, o)
	}
	sort.Slice(offs, func(i, j int) bool { return offs[i] < offs[j] })
	if class != "dense" && r.Chance(1, 4) { // appended out of order
		for i := len(offs) - 1; i > 0; i-- {
			j := r.Intn(i + 1)
			offs[i], offs[j] = offs[j], offs[i]
		}
	}
	for _, o := range offs {
		shape := kit.Pick(r, logShapes)
		switch class {
		case "dense":
			shape = "none"
		case "f4":
			shape = kit.Pick(r, f4Shapes)
		}
		ls.Events = append(ls.Events, eventSpec{Shape: shape, Seed: r.U64() % 100000, Part: part, POff: base + o, WS: ws, WOff: wbase + o + wshift})
	}
	if class != "dense" {
		// a second append at a used offset (refused), and a sys.Corrupted event (overwrites / new)
		for i := 0; i < 2 && len(offs) > 0; i++ {
			if r.Chance(1, 2) {
				o := kit.Pick(r, offs)
				ls.Events = append(ls.Events, eventSpec{Shape: "none", Seed: r.U64() % 100000, Part: part, POff: base + o, WS: ws, WOff: wbase + o + wshift})
				dups = append(dups, o)
			}
		}
		if len(dups) > 0 && r.Chance(1, 2) {
			ls.Restart = false // the refused append must not have touched what the PLog event cache holds
		}
		if r.Chance(1, 3) {
			o := kit.Pick(r, offs)
			if r.Bool() {
				o = o + 1
				if class == "f10" && !rel[o] {
					o = o - 1
				}
			}
			rel[o] = true
			ls.Events = append(ls.Events, eventSpec{Shape: "corrupted", Seed: r.U64() % 100000, Part: part, POff: base + o, WS: ws, WOff: wbase + o + wshift})
		}
	}
	// reads
	var storedP, storedW []uint64
	for o := range rel {
		storedP = append(storedP, base+o)
		storedW = append(storedW, wbase+o+wshift)
	}
	sort.Slice(storedP, func(i, j int) bool { return storedP[i] < storedP[j] })
	sort.Slice(storedW, func(i, j int) bool { return storedW[i] < storedW[j] })
	mk := func(wlog bool) {
		id, b0, stored := uint64(part), base, storedP
		if wlog {
			id, b0, stored = ws, wbase, storedW
		}
		var points []uint64
		for j := 0; j <= k; j++ {
			for d := int64(-2); d <= 2; d++ {
				p := int64(b0) + int64(j)*prc + d
				if p >= 0 {
					points = append(points, uint64(p))
				}
			}
		}
		for i := 0; i < 3; i++ {
			points = append(points, kit.Pick(r, stored), kit.Pick(r, stored)+1)
		}
		tries := 0
		want := 7
		for n := 0; n < want && tries < 400; tries++ {
			start := kit.Pick(r, points)
			var count int64
			switch r.Intn(12) {
			case 0:
				count = 1
			case 1:
				count = math.MaxInt64
			case 2:
				count = kit.Pick(r, []int64{0, -1, 2, 3, prc, prc + 1, 2 * prc})
			default:
				end := kit.Pick(r, points)
				if end < start {
					start, end = end, start
				}
				count = int64(end-start) + 1
			}
			f9, f10 := f9Domain(start, count), f10Domain(stored, start, count)
			switch class {
			case "f9":
				if !f9 || f10 {
					continue
				}
			case "f10":
				if !f10 {
					continue
				}
			default:
				if f9 || f10 {
					continue
				}
			}
			ls.Reads = append(ls.Reads, &readSpec{WLog: wlog, ID: id, Off: start, Count: count})
			n++
		}
	}
	mk(false)
	if ls.WLogToo {
		mk(true)
	}
	// single-event reads of the offsets a refused re-append aimed at
	for _, o := range dups {
		ls.Reads = append(ls.Reads, &readSpec{WLog: false, ID: uint64(part), Off: base + o, Count: 1})
		if ls.WLogToo {
			ls.Reads = append(ls.Reads, &readSpec{WLog: true, ID: ws, Off: wbase + o + wshift, Count: 1})
		}
	}
	// single-event reads in the middle of the appends: offsets appended so far (still there after
	// the later appends?) and one appended later (nothing yet; on cached backends its absence is cached)
	if class != "dense" && len(ls.Events) >= 4 && r.Chance(2, 3) {
		ls.MidAt = len(ls.Events) / 2
		for i := 0; i < 3; i++ {
			e := ls.Events[r.Intn(ls.MidAt)]
			ls.MidReads = append(ls.MidReads, &readSpec{WLog: false, ID: uint64(e.Part), Off: e.POff, Count: 1})
			if ls.WLogToo && i == 0 {
				ls.MidReads = append(ls.MidReads, &readSpec{WLog: true, ID: e.WS, Off: e.WOff, Count: 1})
			}
		}
		later := ls.Events[ls.MidAt+r.Intn(len(ls.Events)-ls.MidAt)]
		ls.MidReads = append(ls.MidReads, &readSpec{WLog: false, ID: uint64(later.Part), Off: later.POff, Count: 1})
		if ls.WLogToo {
			ls.MidReads = append(ls.MidReads, &readSpec{WLog: true, ID: later.WS, Off: later.WOff, Count: 1})
		}
	}
	return ls
}

func genCodec(r *kit.Rng) *codecScenario {
	s := eventSpec{Shape: kit.Pick(r, allShapes), Seed: r.U64() % 100000,
		Part: kit.Pick(r, []uint16{0, 1, 255, 256, 65535}),
		POff: kit.Pick(r, []uint64{1, prc - 1, prc, 1 << 40, 1<<63 - 1, 1<<64 - 1}),
		WS:   kit.Pick(r, []uint64{1, 256, 140737488486400, 1<<64 - 1}),
		WOff: kit.Pick(r, []uint64{1, prc - 1, prc, 1 << 33}),
	}
	cs := &codecScenario{Event: s}
	cs.Muts = append(cs.Muts, [2]int{0, kit.Pick(r, []int{0, 1, 3, 255})}, [2]int{0, kit.Pick(r, []int{1, 0})})
	for i := 0; i < 4; i++ {
		cs.Muts = append(cs.Muts, [2]int{r.Intn(700), r.Intn(256)})
	}
	cs.Muts = append(cs.Muts, [2]int{-1 - r.Intn(6), r.Intn(256)})
	return cs
}

func loadScenario(b []byte) (*scenario, error) {
	var wrapper struct {
		Case struct {
			Desc *scenario `json:"desc"`
		} `json:"case"`
		Desc *scenario `json:"desc"`
	}
	if err := json.Unmarshal(b, &wrapper); err == nil {
		if wrapper.Desc != nil && (wrapper.Desc.Log != nil || wrapper.Desc.Codec != nil) {
			return wrapper.Desc, nil
		}
		if wrapper.Case.Desc != nil && (wrapper.Case.Desc.Log != nil || wrapper.Case.Desc.Codec != nil) {
			return wrapper.Case.Desc, nil
		}
	}
	var sc scenario
	if err := json.Unmarshal(b, &sc); err != nil {
		return nil, err
	}
	if sc.Log == nil && sc.Codec == nil {
		return nil, fmt.Errorf("no scenario in file")
	}
	return &sc, nil
}

func emit(sc *scenario, out *kit.Out) error {
	coq, tags, err := run(sc)
	if err != nil {
		return fmt.Errorf("%s: %w", shapeKey(sc), err)
	}
	out.Emit(kit.Case{Coq: coq, Key: shapeKey(sc), Nontrivial: nontrivial(sc), Desc: sc, Tags: tags})
	return nil
}

// Generate runs the corpus (shard 0), then n generated scenarios
func Generate(seed uint64, n int, tier string, corpusDir string, shard int, out *kit.Out) error {
	r := kit.NewRng(seed)
	if corpusDir != "" {
		entries, _ := os.ReadDir(corpusDir)
		var names []string
		for _, e := range entries {
			if strings.HasSuffix(e.Name(), ".json") {
				names = append(names, e.Name())
			}
		}
		sort.Strings(names)
		for _, nm := range names {
			b, err := os.ReadFile(corpusDir + "/" + nm)
			if err != nil {
				return err
			}
			sc, err := loadScenario(b)
			if err != nil {
				return fmt.Errorf("%s: %w", nm, err)
			}
			if err := emit(sc, out); err != nil {
				return fmt.Errorf("%s: %w", nm, err)
			}
		}
	}
	for i := 0; i < n; i++ {
		cr := r.Fork()
		sc := &scenario{Backend: backends[i%len(backends)], PLogCacheOff: (i/6)%2 == 1}
		switch m := i % 10; {
		case i == 3:
			sc.Backend = "mem"
			sc.Log = genLog(cr, "dense", tier)
		case m == 5:
			sc.Log = genLog(cr, "f9", tier)
		case m == 6:
			sc.Log = genLog(cr, "f10", tier)
		case m == 4 && (i/10)%2 == 0:
			sc.Log = genLog(cr, "f4", tier)
		case m >= 7:
			sc.Codec = genCodec(cr)
		default:
			sc.Log = genLog(cr, "clean", tier)
		}
		if err := emit(sc, out); err != nil {
			return err
		}
	}
	return nil
}

// Replay runs exactly the scenario stored in a replay/corpus file
func Replay(path string, out *kit.Out) error {
	b, err := os.ReadFile(path)
	if err != nil {
		return err
	}
	sc, err := loadScenario(b)
	if err != nil {
		return err
	}
	return emit(sc, out)
}

// non-trivial: a log scenario with a multi-event read that crosses or touches a partition boundary,
// or any codec scenario
func nontrivial(sc *scenario) bool {
	if sc.Codec != nil {
		return true
	}
	for _, rd := range sc.Log.Reads {
		if rd.Count >= 2 {
			if rd.Count == math.MaxInt64 {
				return true
			}
			fin := rd.Off + uint64(rd.Count) - 1
			if fin>>partBits != rd.Off>>partBits || fin%prc == prc-1 || rd.Off%prc == 0 {
				return true
			}
		}
	}
	return false
}

func shapeKey(sc *scenario) string {
	var sb strings.Builder
	sb.WriteString(sc.Backend)
	if sc.PLogCacheOff {
		sb.WriteString("-nocache")
	}
	if sc.Codec != nil {
		fmt.Fprintf(&sb, "|codec:%s:%d:%d:%d", sc.Codec.Event.Shape, sc.Codec.Event.Seed, sc.Codec.Event.Part, sc.Codec.Event.POff)
		return sb.String()
	}
	fmt.Fprintf(&sb, "|log:%s:%d:%v:%v", sc.Log.Class, len(sc.Log.Events), sc.Log.WLogToo, sc.Log.Restart)
	for _, e := range sc.Log.Events {
		if e.Shape != "none" {
			fmt.Fprintf(&sb, "|%s@%d", e.Shape, e.POff)
		}
	}
	for _, rd := range sc.Log.MidReads {
		fmt.Fprintf(&sb, "|M%v:%d", rd.WLog, rd.Off)
	}
	for _, rd := range sc.Log.Reads {
		fmt.Fprintf(&sb, "|R%v:%d:%d", rd.WLog, rd.Off, rd.Count)
	}
	return sb.String()
}
