// Package c02: event logs return exactly what was appended (property C02).
// rig.go: the application schema and the real istructsmem instance over a storage the harness owns.
package c02

import (
	"context"
	"encoding/binary"
	"fmt"
	"sort"

	"verifharness/kit"

	"github.com/voedger/voedger/pkg/appdef"
	"github.com/voedger/voedger/pkg/appdef/builder"
	"github.com/voedger/voedger/pkg/isequencer"
	"github.com/voedger/voedger/pkg/istorage"
	"github.com/voedger/voedger/pkg/istructs"
	"github.com/voedger/voedger/pkg/istructsmem"
	payloads "github.com/voedger/voedger/pkg/itokens-payloads"
	"github.com/voedger/voedger/pkg/itokensjwt"
)

func qn(name string) appdef.QName { return appdef.NewQName("test", name) }

var (
	qnOrder   = qn("Order")  // ODoc: items -> Item -> subs -> Sub
	qnItem    = qn("Item")   // ORecord
	qnSub     = qn("Sub")    // ORecord
	qnParams  = qn("Params") // Object: parts -> Part
	qnPart    = qn("Part")   // Object
	qnSecret  = qn("Secret") // Object (unlogged)
	qnDoc     = qn("Doc")    // CDoc: recs -> Rec
	qnRec     = qn("Rec")    // CRecord
	qnWDoc    = qn("WDoc")
	cmdOrder  = qn("CmdOrder")
	cmdSecret = qn("CmdSecret")
	cmdNone   = qn("CmdNone")
	qnUnknown = qn("Unknown")
	appName   = istructs.AppQName_test1_app1
)

// system view ids and key layout of pkg/istructsmem (consts.SysView_*, utils.go plogKey/wlogKey);
// the Coq model takes the same numbers from the source through the translator, so a change there
// shows up as a disagreement on the raw rows read below.
const (
	sysViewContainers = 18
	sysViewPLog       = 20
	sysViewWLog       = 21
	partBits          = 12
)

func buildAppDef() appdef.IAppDefBuilder {
	adb := builder.New()
	adb.AddPackage("test", "verif.test/test")
	ws := adb.AddWorkspace(qn("workspace"))
	ws.AddCDoc(qn("WSDesc"))
	ws.SetDescriptor(qn("WSDesc"))

	sub := ws.AddORecord(qnSub)
	sub.AddField("tag", appdef.DataKind_string, false)
	sub.AddField("w", appdef.DataKind_int64, false)
	item := ws.AddORecord(qnItem)
	item.AddField("qty", appdef.DataKind_int32, true)
	item.AddField("name", appdef.DataKind_string, false)
	item.AddRefField("ref", false)
	item.AddContainer("subs", qnSub, 0, appdef.Occurs_Unbounded)
	order := ws.AddODoc(qnOrder)
	order.AddField("n", appdef.DataKind_int32, true)
	order.AddField("note", appdef.DataKind_string, false)
	order.AddField("blob", appdef.DataKind_bytes, false)
	order.AddField("f", appdef.DataKind_float64, false)
	order.AddField("b", appdef.DataKind_bool, false)
	order.AddContainer("items", qnItem, 0, appdef.Occurs_Unbounded)
	order.AddContainer("extra", qnItem, 0, appdef.Occurs_Unbounded)

	part := ws.AddObject(qnPart)
	part.AddField("k", appdef.DataKind_string, false)
	part.AddField("v", appdef.DataKind_int64, false)
	params := ws.AddObject(qnParams)
	params.AddField("title", appdef.DataKind_string, false)
	params.AddField("x", appdef.DataKind_int32, false)
	params.AddContainer("parts", qnPart, 0, appdef.Occurs_Unbounded)
	secret := ws.AddObject(qnSecret)
	secret.AddField("password", appdef.DataKind_string, false)
	secret.AddField("pin", appdef.DataKind_int32, false)

	rec := ws.AddCRecord(qnRec)
	rec.AddField("s", appdef.DataKind_string, false)
	rec.AddField("w", appdef.DataKind_int64, false)
	rec.AddField("raw", appdef.DataKind_bytes, false)
	doc := ws.AddCDoc(qnDoc)
	doc.AddField("n", appdef.DataKind_int32, false)
	doc.AddField("name", appdef.DataKind_string, false)
	doc.AddField("raw", appdef.DataKind_bytes, false)
	doc.AddField("memo", appdef.DataKind_string, false)
	doc.AddRefField("ref", false)
	doc.AddContainer("recs", qnRec, 0, appdef.Occurs_Unbounded)
	wdoc := ws.AddWDoc(qnWDoc)
	wdoc.AddField("cnt", appdef.DataKind_int64, false)
	wdoc.AddField("txt", appdef.DataKind_string, false)

	ws.AddCommand(cmdOrder).SetParam(qnOrder)
	cs := ws.AddCommand(cmdSecret)
	cs.SetUnloggedParam(qnSecret)
	cs.SetParam(qnParams)
	ws.AddCommand(cmdNone)
	ws.AddCommand(istructs.QNameCommandCUD)
	return adb
}

// fixedProvider hands the harness-owned storage to istructsmem
type fixedProvider struct{ st istorage.IAppStorage }

func (p *fixedProvider) Prepare(any) error   { return nil }
func (p *fixedProvider) Run(context.Context) {}
func (p *fixedProvider) Stop()               {}
func (p *fixedProvider) AppStorage(appdef.AppQName) (istorage.IAppStorage, error) {
	return p.st, nil
}

// rig: one storage (mem | bbolt, optionally behind the real istoragecache) and the app structs
// currently "running" on it
type rig struct {
	backend string
	raw     istorage.IAppStorage // below the cache: what is really stored
	st      istorage.IAppStorage // what istructsmem talks to
	app     istructs.IAppStructs
	cleanup func()
	gen     istructs.IIDGenerator
	contID  map[string]uint16
	// PLog event cache switched off (Params.PLogEventCacheSize = 0): every read decodes stored bytes
	// and a released event is really freed (its pooled encode buffer is reused by the next encode)
	cacheOff bool
}

// backend: mem | bbolt | cached-mem | cached-bbolt
func newRig(backend string, cacheOff bool) (*rig, error) {
	clock := kit.NewClock()
	base := backend
	cached := false
	if len(backend) > 7 && backend[:7] == "cached-" {
		base, cached = backend[7:], true
	}
	inner, cleanup, err := kit.NewBackend(base, clock)
	if err != nil {
		return nil, err
	}
	r := &rig{backend: backend, raw: inner, st: inner, cleanup: cleanup, gen: istructsmem.NewIDGenerator(), cacheOff: cacheOff}
	if cached {
		c, err := kit.NewCached(inner, clock, 64<<20)
		if err != nil {
			cleanup()
			return nil, err
		}
		r.st = c
	}
	if err := r.restart(); err != nil {
		cleanup()
		return nil, err
	}
	return r, nil
}

// restart: a new app-structs provider (fresh configuration, empty PLog cache) over the same storage
func (r *rig) restart() error {
	cfgs := make(istructsmem.AppConfigsType, 1)
	cfg := cfgs.AddBuiltInAppConfig(appName, buildAppDef())
	cfg.SetNumAppWorkspaces(istructs.DefaultNumAppWorkspaces)
	if r.cacheOff {
		cfg.Params.PLogEventCacheSize = 0
	}
	for _, c := range []appdef.QName{cmdOrder, cmdSecret, cmdNone, istructs.QNameCommandCUD} {
		cfg.Resources.Add(istructsmem.NewCommandFunction(c, istructsmem.NullCommandExec))
	}
	p := istructsmem.Provide(cfgs, payloads.ProvideIAppTokensFactory(itokensjwt.TestTokensJWT()), &fixedProvider{st: r.st}, isequencer.SequencesTrustLevel_0, nil)
	app, err := p.BuiltIn(appName)
	if err != nil {
		return err
	}
	r.app = app
	r.contID = nil
	return nil
}

func (r *rig) close() { r.cleanup() }

// container name -> id, read from the containers system view the application wrote
// (pkg/istructsmem/internal/containers: pkey = view id ‖ version, ccols = name, value = id)
func (r *rig) containerID(name string) (uint16, error) {
	if name == "" {
		return 0, nil
	}
	if r.contID == nil {
		r.contID = map[string]uint16{}
		for ver := uint16(0); ver < 4; ver++ {
			pk := make([]byte, 4)
			binary.BigEndian.PutUint16(pk, sysViewContainers)
			binary.BigEndian.PutUint16(pk[2:], ver)
			_ = r.raw.Read(context.Background(), pk, nil, nil, func(cc, v []byte) error {
				if len(v) == 2 {
					r.contID[string(cc)] = binary.BigEndian.Uint16(v)
				}
				return nil
			})
		}
	}
	id, ok := r.contID[name]
	if !ok {
		return 0, fmt.Errorf("container %q has no id in the containers view", name)
	}
	return id, nil
}

// logKey mirrors plogKey / wlogKey
func logKey(wlog bool, id uint64, off uint64) (pk, cc []byte) {
	hi, lo := off>>partBits, uint16(off)&(1<<partBits-1)
	if wlog {
		pk = make([]byte, 18)
		binary.BigEndian.PutUint16(pk, sysViewWLog)
		binary.BigEndian.PutUint64(pk[2:], id)
		binary.BigEndian.PutUint64(pk[10:], hi)
	} else {
		pk = make([]byte, 12)
		binary.BigEndian.PutUint16(pk, sysViewPLog)
		binary.BigEndian.PutUint16(pk[2:], uint16(id))
		binary.BigEndian.PutUint64(pk[4:], hi)
	}
	cc = make([]byte, 2)
	binary.BigEndian.PutUint16(cc, lo)
	return pk, cc
}

// rawEvent reads the stored bytes of a log entry from below istructsmem (and below the cache)
func (r *rig) rawEvent(wlog bool, id, off uint64) ([]byte, bool, error) {
	pk, cc := logKey(wlog, id, off)
	var data []byte
	ok, err := r.raw.Get(pk, cc, &data)
	return data, ok, err
}

// kindMasks: QName id -> system-field mask of the type's kind (typeKindSysFieldsMask: what a
// codec-0 row has instead of a stored mask), for every type of the application with a non-zero mask
func (r *rig) kindMasks() (string, error) {
	var items []string
	for _, t := range r.app.AppDef().Types() {
		m := 0
		for bit, f := range []string{appdef.SystemField_ID, appdef.SystemField_ParentID, appdef.SystemField_Container, appdef.SystemField_IsActive} {
			if ok, _ := t.Kind().HasSystemField(f); ok {
				m |= 1 << bit
			}
		}
		if m == 0 {
			continue
		}
		id, err := r.app.QNameID(t.QName())
		if err != nil {
			continue // not a type with a QName id (no rows of it can be stored)
		}
		items = append(items, fmt.Sprintf("(%d, %d)", id, m))
	}
	sort.Strings(items)
	return kit.List(items), nil
}
