package c02

// c02.go: running a scenario against the real istructsmem and printing the observed trace.

import (
	"context"
	"errors"
	"fmt"
	"math"
	"regexp"
	"sort"
	"strings"

	"verifharness/kit"

	"github.com/voedger/voedger/pkg/istructs"
	"github.com/voedger/voedger/pkg/istructsmem"
)

type readSpec struct {
	WLog  bool   `json:"wlog"`
	ID    uint64 `json:"id"`
	Off   uint64 `json:"off"`
	Count int64  `json:"count"` // math.MaxInt64 = ReadToTheEnd
	// observed
	Got   [][2]uint64 `json:"got,omitempty"`
	Err   string      `json:"err,omitempty"`
	Class string      `json:"class,omitempty"`
}

type putObs struct {
	PLog string `json:"plog"`
	WLog string `json:"wlog,omitempty"`
	Dig  uint64 `json:"digest,omitempty"`
}

type logScenario struct {
	Class   string      `json:"class"` // clean | f9 | f10 | dense
	Events  []eventSpec `json:"events"`
	WLogToo bool        `json:"wlog_too"`
	Restart bool        `json:"restart_before_reads"`
	Reads   []*readSpec `json:"reads"`
	// reads done before event number MidAt is appended (0 = before the first append)
	MidAt    int         `json:"mid_at,omitempty"`
	MidReads []*readSpec `json:"mid_reads,omitempty"`
	Puts     []putObs    `json:"puts_observed,omitempty"`
}

type codecScenario struct {
	Event eventSpec `json:"event"`
	Muts  [][2]int  `json:"mutations"` // (position, new byte); position < 0 counts from the end
	// observed
	RawHex     string   `json:"raw,omitempty"`
	PutText    string   `json:"put_dump,omitempty"`
	ReadText   string   `json:"read_dump,omitempty"`
	WLogText   string   `json:"wlog_read_dump,omitempty"`
	ReputText  string   `json:"reappended_read_dump,omitempty"`
	Accepted   []int    `json:"accepted_prefixes"`
	Tested     int      `json:"prefixes_tested,omitempty"`
	MutResults []string `json:"mutation_results,omitempty"`
}

type scenario struct {
	Backend string `json:"backend"`
	// PLog event cache off; in every scenario each appended event and each event delivered to a read
	// callback is Release()d as soon as its accessor dump has been taken
	PLogCacheOff bool           `json:"plog_cache_off,omitempty"`
	Log          *logScenario   `json:"log,omitempty"`
	Codec        *codecScenario `json:"codec,omitempty"`
}

const scratchPart = 64000

// finding tags by deviation class (a tag is set only when every deviating read of a case deviates that way)
var causeTags = map[string]string{
	"F9": "F9:last-part-overread", "F10": "F10:stops-at-empty-part",
	"F4": "C02-F4:invalid-event-arguments-not-stored", "F6": "C02-F6:error-text-cut",
	"F7": "C02-F7:error-event-with-unparsable-name-unreadable", "F7b": "C02-F7b:original-name-split-differently",
	"F8": "C02-F8:argument-emptied-marks-not-stored",
}

var origRe = regexp.MustCompile(` orig=\S+`)

func putCode(err error) (uint64, string) {
	switch {
	case err == nil:
		return 0, "ok"
	case errors.Is(err, istructsmem.ErrSequencesViolation):
		return 1, "sequence-violation"
	}
	return 9, err.Error()
}

// what the property says a read returns, from the successful appends
func expected(log map[uint64]uint64, off uint64, count int64) [][2]uint64 {
	var out [][2]uint64
	if count <= 0 {
		return out
	}
	for o, d := range log {
		if o < off {
			continue
		}
		if count != math.MaxInt64 && o-off >= uint64(count) {
			continue
		}
		out = append(out, [2]uint64{o, d})
	}
	sort.Slice(out, func(i, j int) bool { return out[i][0] < out[j][0] })
	return out
}

func hasFrom(log map[uint64]uint64, part uint64, from uint64) bool {
	for o := range log {
		if o>>partBits == part && o >= from {
			return true
		}
	}
	return false
}

// the stored-form digest of an appended event where it differs from the digest of the appended object
type altDig struct {
	stored uint64
	cause  string
}

// classify an observed read against the expectation: "" (as the property says), "F9", "F10", "F4", "F6",
// "F4+F6" or "other"
func classify(log map[uint64]uint64, alt map[uint64]altDig, rd *readSpec) string {
	exp := expected(log, rd.Off, rd.Count)
	got := rd.Got
	same := len(exp) == len(got)
	if same {
		for i := range exp {
			if exp[i] != got[i] {
				same = false
			}
		}
	}
	if same && rd.Err == "" {
		return ""
	}
	if rd.Err == "" && len(exp) == len(got) {
		// the right offsets, and every deviating event was delivered in its stored form: one cause only
		cause := ""
		for i := range exp {
			if exp[i] == got[i] {
				continue
			}
			a, ok := alt[exp[i][0]]
			if !ok || got[i][0] != exp[i][0] || got[i][1] != a.stored || (cause != "" && cause != a.cause) {
				return "other"
			}
			cause = a.cause
		}
		return cause
	}
	if rd.Err != "" {
		// F7: everything before an entry whose stored row does not decode was delivered, then the read failed
		if len(got) < len(exp) {
			for i := range got {
				if got[i] != exp[i] {
					return "other"
				}
			}
			if a, ok := alt[exp[len(got)][0]]; ok && a.cause == "F7" {
				return "F7"
			}
		}
		return "other"
	}
	if rd.Count <= 1 {
		return "other"
	}
	// F10: got is a strict prefix of the expectation and a part before the first missing event
	// holds nothing at or after the start
	if len(got) < len(exp) {
		for i := range got {
			if got[i] != exp[i] {
				return "other"
			}
		}
		miss := exp[len(got)][0]
		for q := rd.Off >> partBits; q < miss>>partBits; q++ {
			if !hasFrom(log, q, rd.Off) {
				return "F10"
			}
		}
		return "other"
	}
	// F9: the expectation is a strict prefix of got, the finish offset is a multiple of 4096 and
	// the surplus lies in the finish offset's partition
	if rd.Count != math.MaxInt64 && len(got) > len(exp) {
		fin := rd.Off + uint64(rd.Count) - 1
		if fin%(1<<partBits) != 0 {
			return "other"
		}
		for i := range exp {
			if got[i] != exp[i] {
				return "other"
			}
		}
		for _, g := range got[len(exp):] {
			if d, ok := log[g[0]]; !ok || d != g[1] || g[0] <= fin || g[0]>>partBits != fin>>partBits {
				return "other"
			}
		}
		return "F9"
	}
	return "other"
}

func pairList(ps [][2]uint64) string {
	items := make([]string, len(ps))
	for i, p := range ps {
		items[i] = fmt.Sprintf("(%d, %d)", p[0], p[1])
	}
	return kit.List(items)
}

func countZ(c int64) string {
	if c < 0 {
		return fmt.Sprintf("(%d)%%Z", c)
	}
	return fmt.Sprintf("%d%%Z", c)
}

func runLog(sc *scenario) (string, []string, error) {
	ls := sc.Log
	r, err := newRig(sc.Backend, sc.PLogCacheOff)
	if err != nil {
		return "", nil, err
	}
	defer r.close()
	tags := map[string]bool{"log": true, sc.Backend: true, "class:" + ls.Class: true}
	if sc.PLogCacheOff {
		tags["plog-cache-off"] = true
	}
	var terms []string
	type lk struct {
		wlog bool
		id   uint64
	}
	logs := map[lk]map[uint64]uint64{}
	alts := map[lk]map[uint64]altDig{}
	store := func(k lk, off uint64, d eventDump) {
		if logs[k] == nil {
			logs[k] = map[uint64]uint64{}
			alts[k] = map[uint64]altDig{}
		}
		logs[k][off] = d.Digest
		delete(alts[k], off)
		if d.StoredDigest != d.Digest {
			alts[k][off] = altDig{d.StoredDigest, d.Cause}
		}
	}
	ls.Puts = nil
	probes := uint64(0)
	classes := map[string]bool{}
	doRead := func(rd *readSpec) error {
		rd.Got, rd.Err = nil, ""
		var rerr error
		collect := func(o istructs.Offset, e istructs.IDbEvent, release func()) error {
			d, err := r.dump(e)
			release() // nothing of the event is used after this point
			if err != nil {
				return err
			}
			rd.Got = append(rd.Got, [2]uint64{uint64(o), d.Digest})
			return nil
		}
		cnt := int(rd.Count)
		if rd.WLog {
			rerr = r.app.Events().ReadWLog(context.Background(), istructs.WSID(rd.ID), istructs.Offset(rd.Off), cnt,
				func(o istructs.Offset, e istructs.IWLogEvent) error { return collect(o, e, e.Release) })
		} else {
			rerr = r.app.Events().ReadPLog(context.Background(), istructs.PartitionID(rd.ID), istructs.Offset(rd.Off), cnt,
				func(o istructs.Offset, e istructs.IPLogEvent) error { return collect(o, e, e.Release) })
		}
		ecode := 0
		if rerr != nil {
			rd.Err = rerr.Error()
			ecode = 1
		}
		terms = append(terms, fmt.Sprintf("LRead %s %d %d %s %s %d", kit.Bool(rd.WLog), rd.ID, rd.Off, countZ(rd.Count), pairList(rd.Got), ecode))
		rd.Class = classify(logs[lk{rd.WLog, rd.ID}], alts[lk{rd.WLog, rd.ID}], rd)
		switch {
		case rd.Count == 1:
			tags["count:1"] = true
		case rd.Count == math.MaxInt64:
			tags["count:to-the-end"] = true
		case rd.Count <= 0:
			tags["count:<=0"] = true
		default:
			fin := rd.Off + uint64(rd.Count) - 1
			switch fin % (1 << partBits) {
			case 1<<partBits - 1:
				tags["finish:last-of-partition"] = true
			case 0:
				tags["finish:first-of-partition"] = true
			}
			if fin>>partBits > rd.Off>>partBits {
				tags["spans-partitions"] = true
			}
		}
		if rd.Off%(1<<partBits) == 0 {
			tags["start:first-of-partition"] = true
		}
		if rd.WLog {
			tags["read:wlog"] = true
		} else {
			tags["read:plog"] = true
		}
		if rd.Class != "" {
			classes[rd.Class] = true
		}
		return nil
	}
	for i, s := range ls.Events {
		if i == ls.MidAt && len(ls.MidReads) > 0 {
			tags["mid-reads"] = true
			for _, rd := range ls.MidReads {
				if err := doRead(rd); err != nil {
					return "", nil, err
				}
			}
		}
		raw, buildErr, err := r.build(s, nil)
		if err != nil {
			return "", nil, err
		}
		pev, perr := r.app.Events().PutPlog(raw, buildErr, r.gen)
		code, txt := putCode(perr)
		obs := putObs{PLog: txt}
		var d eventDump
		if perr == nil {
			if d, err = r.dump(pev); err != nil {
				return "", nil, err
			}
			obs.Dig = d.Digest
			if d.NameUnparsable {
				// does the stored row decode? ask the real decoder with a copy at a scratch offset;
				// stored digest 0 = "reading this entry from the storage fails"
				rawRow, ok, err := r.rawEvent(false, uint64(s.Part), s.POff)
				if err != nil || !ok {
					return "", nil, fmt.Errorf("stored PLog row not found (%v)", err)
				}
				probes++
				if r.decodeStored(probes, append([]byte{}, rawRow...)) == "error" {
					d.StoredDigest, d.Cause = 0, "F7"
				}
			}
			store(lk{false, uint64(s.Part)}, s.POff, d)
			if d.Cause != "" {
				tags["put-stored-form-differs:"+d.Cause] = true
			}
		}
		terms = append(terms, fmt.Sprintf("LPut false %d %d %s %d %d %d", s.Part, s.POff, kit.Bool(s.corrupted()), d.Digest, d.StoredDigest, code))
		tags["put:"+s.Shape] = true
		if code == 1 {
			tags["put-refused"] = true
		}
		if perr == nil && ls.WLogToo {
			werr := r.app.Events().PutWlog(pev)
			wcode, wtxt := putCode(werr)
			obs.WLog = wtxt
			if werr == nil {
				store(lk{true, s.WS}, s.WOff, d)
			}
			terms = append(terms, fmt.Sprintf("LPut true %d %d %s %d %d %d", s.WS, s.WOff, kit.Bool(s.corrupted()), d.Digest, d.StoredDigest, wcode))
		}
		if perr == nil {
			pev.Release()
		}
		ls.Puts = append(ls.Puts, obs)
	}
	if ls.Restart {
		if err := r.restart(); err != nil {
			return "", nil, err
		}
		terms = append(terms, "LRestart")
		tags["restart"] = true
	}
	for _, rd := range ls.Reads {
		if err := doRead(rd); err != nil {
			return "", nil, err
		}
	}
	// a finding tag only when every deviating read of the case deviates in that one way
	if len(classes) == 1 {
		for cls := range classes {
			var ts []string
			for _, c := range strings.Split(cls, "+") {
				if t, ok := causeTags[c]; ok {
					ts = append(ts, t)
				} else {
					ts = []string{"read-mismatch"}
					break
				}
			}
			for _, t := range ts {
				tags[t] = true
			}
		}
	} else if len(classes) > 1 {
		tags["read-mismatch"] = true
	}
	return fmt.Sprintf("TLog %s %s", kit.Bool(!sc.PLogCacheOff), kit.List(terms)), sortedTags(tags), nil
}

func sortedTags(m map[string]bool) []string {
	var out []string
	for t := range m {
		out = append(out, t)
	}
	sort.Strings(out)
	return out
}

// decodeStored writes data as a PLog row at a scratch offset and reads it back with ReadPLog(…, 1):
// "error", "accepted" (callback called, no error), "silent" (no error, no callback) or "panic"
func (r *rig) decodeStored(off uint64, data []byte) (res string) {
	pk, cc := logKey(false, scratchPart, off)
	if err := r.st.Put(pk, cc, data); err != nil {
		return "put-failed: " + err.Error()
	}
	defer func() {
		if p := recover(); p != nil {
			res = "panic"
		}
	}()
	called := false
	err := r.app.Events().ReadPLog(context.Background(), scratchPart, istructs.Offset(off), 1, func(_ istructs.Offset, e istructs.IPLogEvent) error {
		called = true
		e.Release()
		return nil
	})
	switch {
	case err != nil:
		return "error"
	case called:
		return "accepted"
	}
	return "silent"
}

func runCodec(sc *scenario) (string, []string, error) {
	cs := sc.Codec
	s := cs.Event
	r, err := newRig(sc.Backend, sc.PLogCacheOff)
	if err != nil {
		return "", nil, err
	}
	defer r.close()
	tags := map[string]bool{"codec": true, sc.Backend: true, "shape:" + s.Shape: true}
	if sc.PLogCacheOff {
		tags["plog-cache-off"] = true
	}
	bases := map[uint64]*baseDoc{}
	if s.Shape == "cudupd" || s.Shape == "cuddeact" {
		if err := r.ensureBase(s.WS, bases); err != nil {
			return "", nil, err
		}
	}
	raw, buildErr, err := r.build(s, bases)
	if err != nil {
		return "", nil, err
	}
	pev, err := r.app.Events().PutPlog(raw, buildErr, r.gen)
	if err != nil {
		return "", nil, fmt.Errorf("PutPlog: %w", err)
	}
	dput, err := r.dump(pev)
	if err != nil {
		return "", nil, err
	}
	if err := r.app.Events().PutWlog(pev); err != nil {
		return "", nil, fmt.Errorf("PutWlog: %w", err)
	}
	stored, ok, err := r.rawEvent(false, uint64(s.Part), s.POff)
	if err != nil || !ok {
		return "", nil, fmt.Errorf("stored PLog row not found (%v)", err)
	}
	wstored, ok, err := r.rawEvent(true, s.WS, s.WOff)
	if err != nil || !ok {
		return "", nil, fmt.Errorf("stored WLog row not found (%v)", err)
	}
	if string(stored) != string(pev.Bytes()) || string(wstored) != string(stored) {
		tags["stored-bytes-differ"] = true
	}
	stored, wstored = append([]byte{}, stored...), append([]byte{}, wstored...)
	pev.Release()
	if err := r.restart(); err != nil {
		return "", nil, err
	}
	var dread, dwlog eventDump
	offOK := false
	err = r.app.Events().ReadPLog(context.Background(), istructs.PartitionID(s.Part), istructs.Offset(s.POff), 1, func(o istructs.Offset, e istructs.IPLogEvent) error {
		offOK = uint64(o) == s.POff
		var err error
		dread, err = r.dump(e)
		e.Release()
		return err
	})
	if err != nil {
		return "", nil, fmt.Errorf("ReadPLog of the stored event: %w", err)
	}
	err = r.app.Events().ReadWLog(context.Background(), istructs.WSID(s.WS), istructs.Offset(s.WOff), 1, func(o istructs.Offset, e istructs.IWLogEvent) error {
		offOK = offOK && uint64(o) == s.WOff
		var err error
		dwlog, err = r.dump(e)
		e.Release()
		return err
	})
	if err != nil {
		return "", nil, fmt.Errorf("ReadWLog of the stored event: %w", err)
	}
	cs.RawHex, cs.PutText, cs.ReadText = kit.Hex(stored), dput.Text, dread.Text
	readDigest := dread.Digest
	if dwlog.Digest != dread.Digest || string(wstored) != string(stored) {
		cs.WLogText = dwlog.Text
		readDigest = dwlog.Digest ^ 1 // the two logs disagree: never equal to the put digest
		tags["wlog-differs"] = true
	}
	if dput.Digest != dread.Digest && dput.DigestNoFlags == dread.DigestNoFlags && dwlog.Digest == dread.Digest && dput.Coq != dread.Coq {
		tags["C02-F3:cud-activation-flags-lost"] = true
	}
	if dput.Digest != dread.Digest && dput.StoredDigest == dread.Digest && dwlog.Digest == dread.Digest && dput.Cause != "" {
		for _, c := range strings.Split(dput.Cause, "+") {
			if t, ok := causeTags[c]; ok {
				tags[t] = true
			}
		}
	}
	// append what a range read delivered (such an event keeps no bytes: PutWlog encodes it again) to the
	// WLog of a second, empty storage and read that back
	r2, err := newRig("mem", false)
	if err != nil {
		return "", nil, err
	}
	defer r2.close()
	reput := false
	err = r.app.Events().ReadWLog(context.Background(), istructs.WSID(s.WS), istructs.Offset(s.WOff), 2, func(o istructs.Offset, e istructs.IWLogEvent) error {
		defer e.Release()
		if uint64(o) != s.WOff {
			return nil
		}
		pe, ok := e.(istructs.IPLogEvent)
		if !ok {
			return fmt.Errorf("event %T read from the WLog cannot be appended again", e)
		}
		reput = true
		return r2.app.Events().PutWlog(pe)
	})
	if err != nil || !reput {
		return "", nil, fmt.Errorf("re-append of the event read back: delivered=%v err=%v", reput, err)
	}
	reraw, ok, err := r2.rawEvent(true, s.WS, s.WOff)
	if err != nil || !ok {
		return "", nil, fmt.Errorf("re-appended WLog row not found (%v)", err)
	}
	reraw = append([]byte{}, reraw...)
	var dre eventDump
	err = r2.app.Events().ReadWLog(context.Background(), istructs.WSID(s.WS), istructs.Offset(s.WOff), 1, func(_ istructs.Offset, e istructs.IWLogEvent) error {
		var err error
		dre, err = r2.dump(e)
		e.Release()
		return err
	})
	if err != nil {
		return "", nil, fmt.Errorf("ReadWLog of the re-appended event: %w", err)
	}
	if dre.Digest != dread.Digest {
		cs.ReputText = dre.Text
		if origRe.ReplaceAllString(dre.Text, "") == origRe.ReplaceAllString(dread.Text, "") {
			tags["C02-F5:reencoded-error-event-loses-original-name"] = true
		} else {
			tags["reput-differs"] = true
		}
	}
	// every proper prefix (bbolt: a sample, each write is a transaction)
	cs.Accepted, cs.Tested = []int{}, 0
	step := 1
	if strings.Contains(sc.Backend, "bbolt") {
		step = 9
	}
	for n := 0; n < len(stored); n++ {
		if step > 1 && n%step != 0 && n > 12 && n < len(stored)-12 {
			continue
		}
		cs.Tested++
		if res := r.decodeStored(uint64(n), stored[:n]); res != "error" {
			cs.Accepted = append(cs.Accepted, n)
			tags["prefix-"+res] = true
		}
	}
	// single-byte mutations
	cs.MutResults = nil
	var muts []string
	for i, m := range cs.Muts {
		pos := m[0]
		if pos < 0 {
			pos = len(stored) + pos
		}
		pos %= len(stored)
		if pos < 0 {
			pos = 0
		}
		mut := append([]byte{}, stored...)
		mut[pos] = byte(m[1])
		res := r.decodeStored(uint64(100000+i), mut)
		cs.MutResults = append(cs.MutResults, fmt.Sprintf("%d:=%d %s", pos, byte(m[1]), res))
		muts = append(muts, fmt.Sprintf("(%d, %d, %s)", pos, byte(m[1]), kit.Bool(res == "accepted" || res == "silent")))
		tags["mut-"+res] = true
	}
	var acc []string
	for _, n := range cs.Accepted {
		acc = append(acc, fmt.Sprint(n))
	}
	masks, err := r.kindMasks()
	if err != nil {
		return "", nil, err
	}
	coq := fmt.Sprintf("TCodec %s %s %s %s %d %d %s %s %s %s %d", masks, kit.Bytes(stored), dput.Coq, dread.Coq, dput.Digest, readDigest, kit.Bool(offOK), kit.List(acc), kit.List(muts),
		kit.Bytes(reraw), dre.Digest)
	if len(stored) > 255 {
		tags["raw>255"] = true
	}
	return coq, sortedTags(tags), nil
}

func run(sc *scenario) (string, []string, error) {
	switch {
	case sc.Log != nil:
		return runLog(sc)
	case sc.Codec != nil:
		return runCodec(sc)
	}
	return "", nil, fmt.Errorf("empty scenario")
}
