package c02

// events.go: event shapes (everything derived from shape + seed, so a spec replays exactly),
// building them through the real builders, and the canonical accessor dump of an event.

import (
	"fmt"
	"hash/fnv"
	"regexp"
	"sort"
	"strings"

	"verifharness/kit"

	"github.com/voedger/voedger/pkg/appdef"
	"github.com/voedger/voedger/pkg/istructs"
)

type eventSpec struct {
	Shape string `json:"shape"`
	Seed  uint64 `json:"seed"`
	Part  uint16 `json:"part"`
	POff  uint64 `json:"poff"`
	WS    uint64 `json:"ws"`
	WOff  uint64 `json:"woff"`
}

// shapes: valid ones first; "bad-*", "unknown", "nullname" are stored as sys.Error; "corrupted" as sys.Corrupted
var validShapes = []string{"none", "order", "order-empties", "odocname", "secret", "cudnew", "cudupd", "cuddeact", "sync-order", "sync-cud"}
var invalidShapes = []string{"bad-order", "bad-field", "bad-secret", "unknown", "nullname", "corrupted"}

// probe shapes (corpus only): "corrupted-big" = sys.Corrupted with 70000 original bytes (a row too large
// for the storage cache), "unknown-long" = an unknown command name of 70000 bytes (build error text and original name above 65535 bytes), "unknown-dotted" = an unknown command name with a dot inside its entity part (its text does not parse back as a QName)
func (s eventSpec) corrupted() bool { return s.Shape == "corrupted" || s.Shape == "corrupted-big" }

func strOf(seed uint64, salt int) string {
	switch (seed + uint64(salt)) % 6 {
	case 0:
		return ""
	case 1:
		return "x"
	case 2:
		return strings.Repeat("ab", 110+int(seed%7))
	case 3:
		return "пример-ünï"
	case 4:
		return fmt.Sprintf("v%d", seed)
	}
	return "*"
}

func bytesOf(seed uint64, salt int) []byte {
	n := int((seed + uint64(salt)*3) % 5)
	if n == 4 {
		n = 70
	}
	b := make([]byte, n)
	for i := range b {
		b[i] = byte(seed*31 + uint64(i)*7 + uint64(salt))
	}
	return b
}

func regTime(seed uint64) istructs.UnixMilli {
	t := int64(seed*7919%(1<<41)) + 1
	if seed%11 == 0 {
		t = -t
	}
	return istructs.UnixMilli(t)
}

func eventBytes(seed uint64) []byte {
	n := int(seed % 40)
	b := make([]byte, n)
	for i := range b {
		b[i] = byte(seed + uint64(i)*13)
	}
	return b
}

// putStr / putBytes: an empty value leaves an "emptied" mark on the builder's row which argument objects do
// not store (C02-F8): only the shape "order-empties" puts empty values into an argument
func putStr(o istructs.IRowWriter, name, s string, empties bool) {
	if s != "" || empties {
		o.PutString(name, s)
	}
}

func putBytes(o istructs.IRowWriter, name string, b []byte, empties bool) {
	if len(b) > 0 || empties {
		o.PutBytes(name, b)
	}
}

func fillOrder(o istructs.IObjectBuilder, seed uint64, base istructs.RecordID, omitN, empties bool) {
	o.PutRecordID(appdef.SystemField_ID, base)
	if !omitN {
		o.PutInt32("n", int32(seed%100000))
	}
	putStr(o, "note", strOf(seed, 0), empties && seed%2 == 0)
	putBytes(o, "blob", bytesOf(seed, 0), empties && seed%3 == 0)
	if seed%4 == 1 {
		o.PutFloat64("f", float64(seed)/8)
		o.PutBool("b", true)
	}
	id := base + 1
	items := int(seed % 4)
	for i := 0; i < items; i++ {
		cont := "items"
		if (seed>>3+uint64(i))%3 == 0 {
			cont = "extra"
		}
		it := o.ChildBuilder(cont)
		it.PutRecordID(appdef.SystemField_ID, id)
		itemID := id
		id++
		it.PutInt32("qty", int32(i)+int32(seed%9))
		if i%2 == 0 {
			putStr(it, "name", strOf(seed, i+1), empties)
			it.PutRecordID("ref", base)
		}
		subs := int((seed/4 + uint64(i)) % 3)
		for j := 0; j < subs; j++ {
			sb := it.ChildBuilder("subs")
			sb.PutRecordID(appdef.SystemField_ID, id)
			id++
			putStr(sb, "tag", strOf(seed, i+j+2), empties)
			if j == 1 {
				sb.PutInt64("w", int64(itemID)*1000003)
			}
		}
	}
}

func fillParams(o istructs.IObjectBuilder, seed uint64, bad bool) {
	putStr(o, "title", strOf(seed, 1), false)
	o.PutInt32("x", int32(seed%77))
	if bad {
		o.PutInt32("nosuchfield", 1)
	}
	for i := 0; i < int(seed%3); i++ {
		p := o.ChildBuilder("parts")
		putStr(p, "k", strOf(seed, i), false)
		p.PutInt64("v", int64(seed)<<uint(i))
	}
}

// baseDoc: storage ids of a document and its child record created (and applied to the records
// storage) for the update shapes; one per workspace
type baseDoc struct{ doc, rec istructs.RecordID }

// build creates the raw event of the spec through the real builders
func (r *rig) build(s eventSpec, bases map[uint64]*baseDoc) (istructs.IRawEvent, error, error) {
	seed := s.Seed
	name := map[string]appdef.QName{
		"none": cmdNone, "order": cmdOrder, "order-empties": cmdOrder, "odocname": qnOrder, "secret": cmdSecret, "cudnew": istructs.QNameCommandCUD,
		"cudupd": istructs.QNameCommandCUD, "cuddeact": istructs.QNameCommandCUD, "sync-order": cmdOrder, "sync-cud": istructs.QNameCommandCUD,
		"bad-order": cmdOrder, "bad-field": cmdNone, "bad-secret": cmdSecret, "unknown": qnUnknown, "nullname": appdef.NullQName,
		"corrupted": istructs.QNameForCorruptedData, "corrupted-big": istructs.QNameForCorruptedData, "unknown-long": appdef.NewQName("test", strings.Repeat("x", 70000)), "unknown-dotted": appdef.NewQName("test", "a.b"), "unknown-dotted-pkg": appdef.NewQName("a.b", "c"),
	}[s.Shape]
	evBytes := eventBytes(seed)
	if s.Shape == "corrupted-big" {
		evBytes = make([]byte, 70000)
		for i := range evBytes {
			evBytes[i] = byte(seed + uint64(i)*31 + uint64(i/251))
		}
	}
	gp := istructs.GenericRawEventBuilderParams{
		EventBytes: evBytes, HandlingPartition: istructs.PartitionID(s.Part), PLogOffset: istructs.Offset(s.POff),
		Workspace: istructs.WSID(s.WS), WLogOffset: istructs.Offset(s.WOff), QName: name, RegisteredAt: regTime(seed),
	}
	var bld istructs.IRawEventBuilder
	sync := strings.HasPrefix(s.Shape, "sync-")
	if sync {
		bld = r.app.Events().GetSyncRawEventBuilder(istructs.SyncRawEventBuilderParams{GenericRawEventBuilderParams: gp,
			Device: istructs.ConnectedDeviceID(seed%65536 | 1), SyncedAt: regTime(seed + 5)})
	} else {
		bld = r.app.Events().GetNewRawEventBuilder(istructs.NewRawEventBuilderParams{GenericRawEventBuilderParams: gp})
	}
	switch s.Shape {
	case "none", "unknown", "nullname", "corrupted", "corrupted-big", "unknown-long", "unknown-dotted", "unknown-dotted-pkg":
	case "order", "odocname", "order-empties":
		fillOrder(bld.ArgumentObjectBuilder(), seed, 1, false, s.Shape == "order-empties")
		if seed%5 == 2 { // an order that also creates a document
			d := bld.CUDBuilder().Create(qnWDoc)
			d.PutRecordID(appdef.SystemField_ID, 60)
			d.PutInt64("cnt", int64(seed))
		}
	case "sync-order":
		fillOrder(bld.ArgumentObjectBuilder(), seed, istructs.RecordID(1<<40+seed*64), false, false)
	case "bad-order":
		fillOrder(bld.ArgumentObjectBuilder(), seed, 1, true, false)
	case "bad-field":
		bld.CUDBuilder().Create(qnDoc).PutInt32("nosuchfield", 1)
	case "secret", "bad-secret":
		fillParams(bld.ArgumentObjectBuilder(), seed, s.Shape == "bad-secret")
		u := bld.ArgumentUnloggedObjectBuilder()
		u.PutString("password", "pw"+strOf(seed, 2))
		u.PutInt32("pin", int32(seed%10000))
	case "cudnew", "sync-cud":
		base := istructs.RecordID(1)
		if sync {
			base = istructs.RecordID(1<<41 + seed*64)
		}
		cud := bld.CUDBuilder()
		d := cud.Create(qnDoc)
		d.PutRecordID(appdef.SystemField_ID, base)
		d.PutInt32("n", int32(seed%1000))
		d.PutString("name", strOf(seed, 3))
		d.PutBytes("raw", bytesOf(seed, 1))
		if seed%2 == 0 {
			d.PutString("memo", "")
		}
		for i := 0; i < int(seed%3); i++ {
			c := cud.Create(qnRec)
			c.PutRecordID(appdef.SystemField_ID, base+1+istructs.RecordID(i))
			c.PutRecordID(appdef.SystemField_ParentID, base)
			c.PutString(appdef.SystemField_Container, "recs")
			c.PutString("s", strOf(seed, 4+i))
			c.PutInt64("w", int64(seed)*int64(i+1))
			if i == 1 {
				c.PutBool(appdef.SystemField_IsActive, false)
			}
		}
		if seed%3 == 1 {
			d.PutRecordID("ref", base+1)
		}
		if seed%4 == 3 {
			w := cud.Create(qnWDoc)
			w.PutRecordID(appdef.SystemField_ID, base+10)
			w.PutString("txt", strOf(seed, 5))
		}
	case "cudupd", "cuddeact":
		b := bases[s.WS]
		if b == nil {
			return nil, nil, fmt.Errorf("no base document in workspace %d", s.WS)
		}
		doc, err := r.app.Records().Get(istructs.WSID(s.WS), true, b.doc)
		if err != nil {
			return nil, nil, err
		}
		rec, err := r.app.Records().Get(istructs.WSID(s.WS), true, b.rec)
		if err != nil {
			return nil, nil, err
		}
		cud := bld.CUDBuilder()
		if s.Shape == "cuddeact" {
			cud.Update(rec).PutBool(appdef.SystemField_IsActive, seed%2 == 0)
			if seed%3 == 0 {
				cud.Update(doc).PutInt32("n", int32(seed%999))
			}
		} else {
			w := cud.Update(doc)
			switch seed % 4 {
			case 0:
				w.PutString("name", "")
			case 1:
				w.PutString("name", "")
				w.PutBytes("raw", nil)
				w.PutString("memo", "")
			case 2:
				w.PutString("name", strOf(seed, 1)+"!")
				w.PutBytes("raw", []byte{})
			case 3:
				w.PutInt32("n", int32(seed%999))
			}
			if seed%5 < 3 {
				w2 := cud.Update(rec)
				w2.PutString("s", strOf(seed, 2))
				w2.PutInt64("w", int64(seed))
			}
			if seed%7 == 0 {
				c := cud.Create(qnRec)
				c.PutRecordID(appdef.SystemField_ID, 1)
				c.PutRecordID(appdef.SystemField_ParentID, b.doc)
				c.PutString(appdef.SystemField_Container, "recs")
			}
		}
	default:
		return nil, nil, fmt.Errorf("unknown shape %q", s.Shape)
	}
	raw, buildErr := bld.BuildRawEvent()
	return raw, buildErr, nil
}

// ensureBase creates (PutPlog + Apply, in a partition no scenario reads) the document the update
// shapes of a workspace refer to
func (r *rig) ensureBase(ws uint64, bases map[uint64]*baseDoc) error {
	if bases[ws] != nil {
		return nil
	}
	nb := uint64(len(bases))
	bld := r.app.Events().GetNewRawEventBuilder(istructs.NewRawEventBuilderParams{GenericRawEventBuilderParams: istructs.GenericRawEventBuilderParams{
		HandlingPartition: 65000, PLogOffset: istructs.Offset(1 + nb), Workspace: istructs.WSID(ws), WLogOffset: istructs.Offset(1<<50 + nb),
		QName: istructs.QNameCommandCUD, RegisteredAt: 1}})
	cud := bld.CUDBuilder()
	d := cud.Create(qnDoc)
	d.PutRecordID(appdef.SystemField_ID, 1)
	d.PutInt32("n", 1)
	d.PutString("name", "base")
	d.PutBytes("raw", []byte{1, 2, 3})
	d.PutString("memo", "m")
	c := cud.Create(qnRec)
	c.PutRecordID(appdef.SystemField_ID, 2)
	c.PutRecordID(appdef.SystemField_ParentID, 1)
	c.PutString(appdef.SystemField_Container, "recs")
	c.PutString("s", "child")
	raw, err := bld.BuildRawEvent()
	if err != nil {
		return fmt.Errorf("base document: %w", err)
	}
	ids := map[istructs.RecordID]istructs.RecordID{}
	pev, err := r.app.Events().PutPlog(raw, nil, &recGen{inner: r.gen, got: ids})
	if err != nil {
		return err
	}
	if err := r.app.Records().Apply(pev); err != nil {
		return err
	}
	bases[ws] = &baseDoc{doc: ids[1], rec: ids[2]}
	return nil
}

type recGen struct {
	inner istructs.IIDGenerator
	got   map[istructs.RecordID]istructs.RecordID
}

func (g *recGen) NextID(raw istructs.RecordID) (istructs.RecordID, error) {
	id, err := g.inner.NextID(raw)
	if err == nil {
		g.got[raw] = id
	}
	return id, err
}
func (g *recGen) UpdateOnSync(id istructs.RecordID) { g.inner.UpdateOnSync(id) }

// ---------------------------------------------------------------- dump

// dump: canonical text of everything the event accessors show (the observable content of the
// property) and the Coq term of the model's envelope (payloads left empty: opaque).
// For an event that is not valid only the error record is part of the log entry (name sys.Error,
// error text, original name and bytes); original bytes are deliberately not logged when the
// command has an unlogged argument, so they are left out of the text in that case.
type dumper struct {
	r   *rig
	err error
}

func (d *dumper) fail(err error) {
	if d.err == nil && err != nil {
		d.err = err
	}
}

func (d *dumper) qid(q appdef.QName) uint64 {
	if q == appdef.NullQName {
		return 0
	}
	id, err := d.r.app.QNameID(q)
	d.fail(err)
	return uint64(id)
}

type rowDump struct {
	text    string
	coq     string // mkRow qid id parent cont active [] <mark>: the mark ("sys.IsActive was assigned") is filled in by rowCoq
	qname   appdef.QName
	emptied []uint64
}

func fmtVal(v any) string {
	switch x := v.(type) {
	case []byte:
		return fmt.Sprintf("h'%x'", x)
	case string:
		return fmt.Sprintf("%q", x)
	case float64:
		return fmt.Sprintf("%g", x)
	case float32:
		return fmt.Sprintf("%g", x)
	}
	return fmt.Sprintf("%v", v)
}

// keepEmpty: CUD rows store which string/bytes fields were emptied; argument objects do not (an
// empty value of an argument field reads the same as an absent one), so they are left out there
func (d *dumper) row(rr istructs.IRowReader, q appdef.QName, keepEmpty bool) rowDump {
	rd := rowDump{qname: q}
	if q == appdef.NullQName {
		rd.text = "null"
		rd.coq = "(mkRow 0 0 0 0 true [] MARK NILS)"
		return rd
	}
	var id, parent uint64
	cont := ""
	active := true
	var fields []string
	var userFields []appdef.IField
	if wf, ok := d.r.app.AppDef().Type(q).(appdef.IWithFields); ok {
		userFields = wf.UserFields()
	}
	rr.SpecifiedValues(func(f appdef.IField, v any) bool {
		switch f.Name() {
		case appdef.SystemField_QName:
		case appdef.SystemField_ID:
			id = uint64(v.(istructs.RecordID))
		case appdef.SystemField_ParentID:
			parent = uint64(v.(istructs.RecordID))
		case appdef.SystemField_Container:
			cont = v.(string)
		case appdef.SystemField_IsActive:
			active = v.(bool)
		default:
			empty := false
			switch x := v.(type) {
			case string:
				empty = x == ""
			case []byte:
				empty = len(x) == 0
			}
			if !empty || keepEmpty {
				fields = append(fields, f.Name()+"="+fmtVal(v))
			}
			if empty && keepEmpty {
				for i, uf := range userFields {
					if uf.Name() == f.Name() {
						rd.emptied = append(rd.emptied, uint64(i))
					}
				}
			}
		}
		return true
	})
	sort.Strings(fields)
	sort.Slice(rd.emptied, func(i, j int) bool { return rd.emptied[i] < rd.emptied[j] })
	cid, err := d.r.containerID(cont)
	d.fail(err)
	rd.text = fmt.Sprintf("%v#%d^%d@%s/%v{%s}", q, id, parent, cont, active, strings.Join(fields, ";"))
	rd.coq = fmt.Sprintf("(mkRow %d %d %d %d %s [] MARK NILS)", d.qid(q), id, parent, cid, kit.Bool(active))
	return rd
}

// rowCoq fills in the activation mark and the emptied-field marks: CUD rows carry the latter in mkCud (nils = false)
func rowCoq(rd rowDump, mark, nils bool) string {
	nl := "[]"
	if nils {
		nl = nlist(rd.emptied)
	}
	return strings.Replace(strings.Replace(rd.coq, "MARK", kit.Bool(mark), 1), "NILS", nl, 1)
}

// keepEmpty: list string/bytes fields that were put empty (SpecifiedValues shows them on the builder's
// object; argument objects are stored without such marks)
func (d *dumper) object(o istructs.IObject, keepEmpty bool) (text, coq string) {
	rd := d.row(o, o.QName(), keepEmpty)
	var texts, coqs []string
	if o.QName() != appdef.NullQName {
		for c := range o.Children() {
			t, c := d.object(c, keepEmpty)
			texts = append(texts, t)
			coqs = append(coqs, c)
		}
	}
	return rd.text + "[" + strings.Join(texts, ",") + "]", fmt.Sprintf("(Obj %s %s)", rowCoq(rd, false, true), kit.List(coqs))
}

type eventDump struct {
	// Text: everything the accessors show; StoredText: the same for the stored form of the event
	// (an event that is not valid keeps only its error record, with the message cut to 65535 bytes)
	Text, StoredText string
	Coq              string
	Digest           uint64
	StoredDigest     uint64
	// digest of Text without the ICUDRow.IsActivated/IsDeactivated flags (to recognise C02-F3)
	DigestNoFlags uint64
	// why Digest != StoredDigest: "", "F4" (argument objects / CUD rows of an invalid event), "F6"
	// (error text of 65535 bytes or more), "F4+F6"
	Cause string
	// the original name of an invalid event does not parse back as a QName (Cause "F7"): whether its
	// stored row decodes is found out by asking the real decoder (runLog)
	NameUnparsable bool
}

var flagsRe = regexp.MustCompile(` act=(true|false) deact=(true|false)`)

func digest(s string) uint64 {
	h := fnv.New64a()
	h.Write([]byte(s))
	return h.Sum64() >> 1
}

func nlist(xs []uint64) string {
	items := make([]string, len(xs))
	for i, x := range xs {
		items[i] = fmt.Sprint(x)
	}
	return kit.List(items)
}

const shortStringMax = 0xFFFF

func (r *rig) dump(ev istructs.IDbEvent) (res eventDump, err error) {
	defer func() {
		if p := recover(); p != nil {
			err = fmt.Errorf("panic while reading the event through its accessors: %v", p)
		}
	}()
	d := &dumper{r: r}
	raw, isRaw := ev.(istructs.IRawEvent)
	if !isRaw {
		return eventDump{}, fmt.Errorf("event %T does not expose its log position", ev)
	}
	e := ev.Error()
	valid := e.ValidEvent()
	head := fmt.Sprintf("name=%v part=%d poff=%d ws=%d woff=%d reg=%d sync=%v", ev.QName(), raw.HandlingPartition(), raw.PLogOffset(),
		raw.Workspace(), raw.WLogOffset(), ev.RegisteredAt(), ev.Synced())
	if ev.Synced() {
		head += fmt.Sprintf(" dev=%d syncat=%d", ev.DeviceID(), ev.SyncedAt())
	}
	head += fmt.Sprintf(" valid=%v", valid)
	storedQName := ev.QName()
	unl := raw.ArgumentUnloggedObject()
	hasUnl := unl != nil && unl.QName() != appdef.NullQName
	const nullT, nullC = "null[]", "(Obj (mkRow 0 0 0 0 true [] false []) [])"
	unlT, unlC := nullT, nullC
	var creates, updates []string
	var cudTexts []string
	errStr, errName := "", ""
	var errBytes []byte
	errT, errStoredT := "", ""
	cutName, origStoredT := "", ""
	undecodable, nameResplit := false, false
	if !valid {
		errStr, errName = e.ErrStr(), e.QNameFromParams().String()
		if !hasUnl { // original bytes are deliberately not logged when the command has an unlogged argument
			errBytes = e.OriginalEventBytes()
		}
		cut := errStr
		cutName = errName
		if len(cut) >= shortStringMax {
			cut = cut[:shortStringMax]
		}
		if len(cutName) >= shortStringMax {
			cutName = cutName[:shortStringMax]
		}
		// the original name is stored as text and split again at the (first) dot when read
		sp, se, _ := strings.Cut(cutName, appdef.QNameQualifierChar)
		origT := fmt.Sprintf("%q|%q", e.QNameFromParams().Pkg(), e.QNameFromParams().Entity())
		origStoredT = fmt.Sprintf("%q|%q", sp, se)
		nameResplit = origT != origStoredT && len(errName) < shortStringMax
		errT = fmt.Sprintf(" err=%q orig=%s bytes=%x", errStr, origT, errBytes)
		errStoredT = fmt.Sprintf(" err=%q orig=%s bytes=%x", cut, origStoredT, errBytes)
	}
	argT, argC := d.object(ev.ArgumentObject(), true)
	argStoredT, _ := d.object(ev.ArgumentObject(), false)
	unlStoredT := nullT
	if hasUnl {
		unlT, unlC = d.object(unl, true)
		unlStoredT, _ = d.object(unl, false)
	}
	type upd struct {
		id        uint64
		text, coq string
	}
	var ups []upd
	ev.CUDs(func(c istructs.ICUDRow) bool {
		rd := d.row(c, c.QName(), true)
		// the mark is observable on update rows only (IsActivated / IsDeactivated are false on new rows)
		coq := fmt.Sprintf("(mkCud %s %s)", rowCoq(rd, !c.IsNew() && (c.IsActivated() || c.IsDeactivated()), false), nlist(rd.emptied))
		if c.IsNew() {
			creates = append(creates, coq)
			cudTexts = append(cudTexts, "new:"+rd.text)
		} else {
			ups = append(ups, upd{uint64(c.ID()), fmt.Sprintf("upd:%s act=%v deact=%v", rd.text, c.IsActivated(), c.IsDeactivated()), coq})
		}
		return true
	})
	sort.Slice(ups, func(i, j int) bool { return ups[i].id < ups[j].id })
	for _, u := range ups {
		updates = append(updates, u.coq)
		cudTexts = append(cudTexts, u.text)
	}
	if d.err != nil {
		return eventDump{}, d.err
	}
	body := fmt.Sprintf(" arg=%s unl=%s cuds=%s", argT, unlT, strings.Join(cudTexts, ","))
	text := head + errT + body
	stored := head + errT + fmt.Sprintf(" arg=%s unl=%s cuds=%s", argStoredT, unlStoredT, strings.Join(cudTexts, ","))
	cause := ""
	if valid && stored != text {
		cause = "F8" // emptied-field marks of argument objects are not stored
	}
	if !valid {
		stored = head + errStoredT + fmt.Sprintf(" arg=%s unl=%s cuds=", nullT, nullT)
		var cs []string
		if argT != nullT || unlT != nullT || len(cudTexts) > 0 {
			cs = append(cs, "F4")
		}
		if len(errStr) >= shortStringMax || len(errName) >= shortStringMax {
			cs = append(cs, "F6")
		}
		if nameResplit {
			cs = append(cs, "F7b")
		}
		cause = strings.Join(cs, "+")
		// appdef.ParseQName wants exactly one dot: whether the stored row decodes is asked from the real decoder
		undecodable = strings.Count(cutName, ".") != 1
	}
	syncPart := "0 0"
	if ev.Synced() {
		syncPart = fmt.Sprintf("%d %d", ev.DeviceID(), uint64(ev.SyncedAt()))
	}
	coq := fmt.Sprintf("(mkEvent %d %d %d %d %d %d %s %s %s %s %s %s %s %s %s %s)",
		d.qid(storedQName), raw.HandlingPartition(), raw.PLogOffset(), raw.Workspace(), raw.WLogOffset(), uint64(ev.RegisteredAt()),
		kit.Bool(ev.Synced()), syncPart, kit.Bool(valid), kit.Bytes([]byte(errStr)), kit.Bytes([]byte(errName)), kit.Bytes(errBytes),
		argC, unlC, kit.List(creates), kit.List(updates))
	if d.err != nil {
		return eventDump{}, d.err
	}
	res = eventDump{Text: text, StoredText: stored, Coq: coq, Digest: digest(text), StoredDigest: digest(stored),
		DigestNoFlags: digest(flagsRe.ReplaceAllString(text, "")), Cause: cause}
	res.NameUnparsable = undecodable
	return res, nil
}
