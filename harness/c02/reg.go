package c02

import "verifharness/kit"

func init() {
	kit.Register("C02", kit.Runner{
		Generate: func(seed uint64, n int, tier, corpus string, shard int, out *kit.Out) error {
			return Generate(seed, n, tier, corpus, shard, out)
		},
		Replay: Replay,
	})
}
