// Package all links every property's harness package into hrun (each registers itself in init).
package all

import (
	_ "verifharness/c15"
)
