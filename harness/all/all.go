// Package all links every property's harness package into hrun (each registers itself in init).
package all

import (
	_ "verifharness/c01"
	_ "verifharness/c02"
	_ "verifharness/c03"
	_ "verifharness/c04"
	_ "verifharness/c05"
	_ "verifharness/c06"
	_ "verifharness/c07"
	_ "verifharness/c08"
	_ "verifharness/c09"
	_ "verifharness/c10"
	_ "verifharness/c11"
	_ "verifharness/c12"
	_ "verifharness/c13"
	_ "verifharness/c14"
	_ "verifharness/c15"
	_ "verifharness/c17"
	_ "verifharness/c18"
	_ "verifharness/c19"
	_ "verifharness/c20"
)
