package main

import (
	"encoding/json"
	"fmt"
	"os"

	"verifharness/c17"
)

func main() {
	for _, f := range os.Args[1:] {
		b, _ := os.ReadFile(f)
		var c struct {
			Schema c17.Schema `json:"schema"`
		}
		if err := json.Unmarshal(b, &c); err != nil {
			panic(err)
		}
		fmt.Printf("%s\t%s\n", f, c17.CoqSchema(c.Schema))
		for _, p := range c17.Render(c.Schema) {
			for _, s := range p.Files {
				fmt.Fprintf(os.Stderr, "-- %s\n%s", p.Path, s)
			}
		}
	}
}
