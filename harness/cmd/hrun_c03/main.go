// hrun with only property C03 linked in (bin/check builds this one, so a broken sibling
// package cannot disturb the check).
package main

import (
	_ "verifharness/c03"
	"verifharness/hmain"
)

func main() { hmain.Main() }
