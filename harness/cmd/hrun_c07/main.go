// hrun with only property C07 linked in (bin/check builds this one, so a broken sibling
// package cannot disturb the check).
package main

import (
	_ "verifharness/c07"
	"verifharness/hmain"
)

func main() { hmain.Main() }
