// hrun with every property linked in:  hrun <ID> -seed S -n N -tier quick|thorough -out cases.jsonl [-corpus dir] [-replay file]
package main

import (
	_ "verifharness/all"
	"verifharness/hmain"
)

func main() { hmain.Main() }
