// hrun with only property C13 linked in (bin/check builds this one, so a broken sibling
// package cannot disturb the check).
package main

import (
	_ "verifharness/c13"
	"verifharness/hmain"
)

func main() { hmain.Main() }
