package main

import (
	"fmt"
	"strings"

	"github.com/voedger/voedger/pkg/appdef"
	"github.com/voedger/voedger/pkg/appdef/builder"
	"github.com/voedger/voedger/pkg/parser"
	"verifharness/c17"
)

type pk struct{ path, src string }

func compile(sys string, pkgs []pk) (appdef.IAppDef, string) {
	var asts []*parser.PackageSchemaAST
	for _, p := range append([]pk{{appdef.SysPackage, sys}}, pkgs...) {
		f, err := parser.ParseFile("a.vsql", p.src)
		if err != nil {
			return nil, "parse: " + err.Error()
		}
		ps, err := parser.BuildPackageSchema(p.path, []*parser.FileSchemaAST{f})
		if err != nil {
			return nil, "pkg: " + err.Error()
		}
		asts = append(asts, ps)
	}
	app, err := parser.BuildAppSchema(asts)
	if err != nil {
		return nil, "analyse: " + err.Error()
	}
	b := builder.New()
	if err := parser.BuildAppDefs(app, b); err != nil {
		return nil, "build: " + err.Error()
	}
	d, err := b.Build()
	if err != nil {
		return nil, "validate: " + err.Error()
	}
	return d, "ok"
}

func main() {
	sys := c17.SysVSQL()
	// 11/12: comment of a nested table built on demand or in place
	seen := map[string]int{}
	for i := 0; i < 40; i++ {
		d, r := compile(sys, []pk{{"github.com/company/app", "IMPORT SCHEMA 'github.com/company/pkg2';\nAPPLICATION app ( USE pkg2; );\nWORKSPACE w INHERITS pkg2.base ( TABLE A INHERITS sys.CDoc ( r ref(pkg2.N) ) );\n"},
			{"github.com/company/pkg2", "ABSTRACT WORKSPACE base ( TABLE B INHERITS sys.CDoc ( items TABLE N (x int32) WITH Comment='nested comment' ) );\n"}})
		if d == nil {
			seen[r]++
			continue
		}
		seen[fmt.Sprint(d.Type(appdef.NewQName("pkg2", "N")).Comment())]++
	}
	fmt.Println("11/12 comment of pkg2.N over 40 runs:", seen)
	// tags
	d, r := compile(sys, []pk{{"github.com/company/app", "APPLICATION app();\nWORKSPACE w ( TAG A; TAG B; TABLE t INHERITS sys.CDoc (x int32) WITH Tags=(A), Tags=(B); TABLE u INHERITS sys.CDoc (x int32) WITH Tags=(A, B); );\n"}})
	fmt.Println("tags:", r)
	if d != nil {
		for _, n := range []string{"t", "u"} {
			var tags []string
			for _, tg := range d.Type(appdef.NewQName("app", n)).Tags() {
				tags = append(tags, tg.QName().String())
			}
			fmt.Println("   ", n, tags)
		}
	}
	// UNIQUEFIELD in base and heir
	d, r = compile(sys, []pk{{"github.com/company/app", "APPLICATION app();\nWORKSPACE w ( ABSTRACT TABLE b INHERITS sys.CDoc (x int32, UNIQUEFIELD x); TABLE t INHERITS b (y int32, UNIQUEFIELD y); );\n"}})
	fmt.Println("uniquefield:", strings.SplitN(r, "\n", 2)[0])
	if d != nil {
		if u := d.Type(appdef.NewQName("app", "t")).(appdef.IWithUniques).UniqueField(); u != nil {
			fmt.Println("    t.UniqueField =", u.Name())
		}
	}
	// 13: sys without TABLE BLOB, a blob field
	sys2 := strings.Replace(sys, "TABLE BLOB INHERITS WDoc (status int32 NOT NULL);", "", 1)
	_, r = compile(sys2, []pk{{"github.com/company/app", "APPLICATION app();\nWORKSPACE w ( TABLE t INHERITS sys.CDoc (b blob); );\n"}})
	fmt.Println("13 blob without sys.BLOB:", sys2 != sys, strings.SplitN(r, "\n", 2)[0])
	// tag of ALTER WORKSPACE used from another workspace
	_, r = compile(sys, []pk{{"github.com/company/app", "APPLICATION app();\nALTERABLE WORKSPACE W1 ();\nALTER WORKSPACE W1 ( TAG tg; );\nWORKSPACE W2 ( TABLE t INHERITS sys.CDoc (x int32) WITH Tags=(tg); );\n"}})
	fmt.Println("alter tag leak:", r)
}
