package main

import (
	"fmt"
	"strings"

	"github.com/voedger/voedger/pkg/appdef"
	"github.com/voedger/voedger/pkg/appdef/builder"
	"github.com/voedger/voedger/pkg/parser"
	"verifharness/c17"
)

type pk struct{ path, src string }

func compile(sys string, pkgs []pk) (appdef.IAppDef, string) {
	var asts []*parser.PackageSchemaAST
	for _, p := range append([]pk{{appdef.SysPackage, sys}}, pkgs...) {
		f, err := parser.ParseFile("a.vsql", p.src)
		if err != nil {
			return nil, "parse: " + err.Error()
		}
		ps, err := parser.BuildPackageSchema(p.path, []*parser.FileSchemaAST{f})
		if err != nil {
			return nil, "pkg: " + err.Error()
		}
		asts = append(asts, ps)
	}
	app, err := parser.BuildAppSchema(asts)
	if err != nil {
		return nil, "analyse: " + err.Error()
	}
	b := builder.New()
	if err := parser.BuildAppDefs(app, b); err != nil {
		return nil, "build: " + err.Error()
	}
	d, err := b.Build()
	if err != nil {
		return nil, "validate: " + err.Error()
	}
	return d, "ok"
}

func main() {
	sys := c17.SysVSQL()
	for name, src := range map[string]string{
		"grant sys.ParentID on CDoc": "APPLICATION app();\nWORKSPACE w ( ROLE r; TABLE t INHERITS sys.CDoc (a int32); GRANT SELECT(sys.ParentID) ON TABLE t TO r; );\n",
		"revoke role from role":      "APPLICATION app();\nWORKSPACE w ( ROLE r; ROLE pr; GRANT pr TO r; REVOKE pr FROM r; );\n",
		"field and container share a name": "APPLICATION app();\nWORKSPACE w ( TABLE Item INHERITS sys.CRecord (x int32); TABLE Doc INHERITS sys.CDoc (items int32, items Item NOT NULL); );\n",
		"field and nested table share a name": "APPLICATION app();\nWORKSPACE w ( TABLE Doc INHERITS sys.CDoc (items int32, items TABLE n (x int32)); );\n",
		"table named like the descriptor": "APPLICATION app();\nWORKSPACE W ( TABLE WDescriptor INHERITS sys.CDoc (x int32); );\n",
		"rate of ALTER used elsewhere": "APPLICATION app();\nALTERABLE WORKSPACE W1 ();\nALTER WORKSPACE W1 ( RATE rt 1 PER HOUR; ROLE ro; );\nWORKSPACE W2 ( TABLE t INHERITS sys.CDoc (x int32); LIMIT l ON TABLE t WITH RATE rt; GRANT SELECT ON TABLE t TO ro; );\n",
	} {
		d, r := compile(sys, []pk{{"github.com/company/app", src}})
		fmt.Printf("%-38s %s\n", name, strings.ReplaceAll(r, "\n", " / "))
		if d != nil && strings.Contains(name, "share") {
			t := d.Type(appdef.NewQName("app", "Doc"))
			for _, f := range t.(appdef.IWithFields).UserFields() {
				fmt.Println("      field", f.Name())
			}
			for _, c := range t.(appdef.IWithContainers).Containers() {
				fmt.Println("      container", c.Name(), c.QName(), c.MinOccurs(), c.MaxOccurs())
			}
		}
	}
}
