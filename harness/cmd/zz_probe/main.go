package main

import (
	"fmt"
	"os"
	"runtime/debug"
	"sort"
	"strings"

	"github.com/voedger/voedger/pkg/appdef"
	"github.com/voedger/voedger/pkg/appdef/builder"
	"github.com/voedger/voedger/pkg/parser"
	"verifharness/c17"
)

type pk struct{ path, src string }

func compile(name string, pkgs []pk) {
	fmt.Println("=====", name)
	defer func() {
		if r := recover(); r != nil {
			fmt.Println("PANIC:", r, string(debug.Stack())[:1500])
		}
	}()
	var asts []*parser.PackageSchemaAST
	all := append([]pk{{appdef.SysPackage, c17.SysVSQL()}}, pkgs...)
	for _, p := range all {
		f, err := parser.ParseFile("a.vsql", p.src)
		if err != nil {
			fmt.Println("parse:", err)
			return
		}
		ps, err := parser.BuildPackageSchema(p.path, []*parser.FileSchemaAST{f})
		if err != nil {
			fmt.Println("pkg:", err)
			return
		}
		asts = append(asts, ps)
	}
	app, err := parser.BuildAppSchema(asts)
	if err != nil {
		fmt.Println("analyse:", err)
		return
	}
	b := builder.New()
	if err := parser.BuildAppDefs(app, b); err != nil {
		fmt.Println("build:", err)
		return
	}
	d, err := b.Build()
	if err != nil {
		fmt.Println("validate:", err)
		return
	}
	var lines []string
	for _, t := range d.Types() {
		if t.QName().Pkg() == appdef.SysPackage {
			continue
		}
		s := fmt.Sprintf("%v %v", t.Kind().TrimString(), t.QName())
		if w := t.Workspace(); w != nil {
			s += fmt.Sprintf(" ws=%v", w.QName())
		}
		if wf, ok := t.(appdef.IWithFields); ok {
			var fs []string
			for _, f := range wf.UserFields() {
				x := f.Name()
				if rf, ok := f.(appdef.IRefField); ok {
					x += fmt.Sprintf(":ref%v", rf.Refs())
				}
				fs = append(fs, x)
			}
			s += " fields=" + strings.Join(fs, ",")
		}
		if w, ok := t.(appdef.IWorkspace); ok {
			s += fmt.Sprintf(" anc=%v desc=%v", w.Ancestors(), w.Descriptor())
			for _, r := range w.ACL() {
				s += fmt.Sprintf("\n      acl: %v", r)
			}
		}
		lines = append(lines, s)
	}
	sort.Strings(lines)
	fmt.Println(strings.Join(lines, "\n"))
	fmt.Println("app.ACL:")
	for _, r := range d.ACL() {
		fmt.Printf("   %v @%v\n", r, r.Workspace().QName())
	}
}

func main() {
	_ = os.Args
	compile("desc ref abstract", []pk{{"github.com/verif/main", `APPLICATION main();
WORKSPACE W ( DESCRIPTOR ( x ref(A) ); ABSTRACT TABLE A INHERITS sys.CDoc (a int32); );
`}})
	compile("desc ref wdoc", []pk{{"github.com/verif/main", `APPLICATION main();
WORKSPACE W ( DESCRIPTOR ( x ref(Wd) ); TABLE Wd INHERITS sys.WDoc (a int32); );
`}})
}
