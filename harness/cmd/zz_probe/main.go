package main

import (
	"fmt"
	"sort"
	"strings"

	"github.com/voedger/voedger/pkg/appdef"
	"github.com/voedger/voedger/pkg/appdef/builder"
	"github.com/voedger/voedger/pkg/parser"
	"verifharness/c17"
)

type pk struct{ path, src string }

func compile(name string, pkgs []pk) {
	fmt.Println("=====", name)
	defer func() {
		if r := recover(); r != nil {
			fmt.Println("PANIC:", r)
		}
	}()
	var asts []*parser.PackageSchemaAST
	all := append([]pk{{appdef.SysPackage, c17.SysVSQL()}}, pkgs...)
	for _, p := range all {
		f, err := parser.ParseFile("a.vsql", p.src)
		if err != nil {
			fmt.Println("parse:", err)
			return
		}
		ps, err := parser.BuildPackageSchema(p.path, []*parser.FileSchemaAST{f})
		if err != nil {
			fmt.Println("pkg:", err)
			return
		}
		asts = append(asts, ps)
	}
	app, err := parser.BuildAppSchema(asts)
	if err != nil {
		fmt.Println("analyse:", err)
		return
	}
	b := builder.New()
	if err := parser.BuildAppDefs(app, b); err != nil {
		fmt.Println("build:", err)
		return
	}
	d, err := b.Build()
	if err != nil {
		fmt.Println("validate:", err)
		return
	}
	var lines []string
	for _, t := range d.Types() {
		if t.QName().Pkg() == appdef.SysPackage {
			continue
		}
		s := fmt.Sprintf("%v %v", t.Kind().TrimString(), t.QName())
		if w := t.Workspace(); w != nil {
			s += fmt.Sprintf(" ws=%v", w.QName())
		}
		if wf, ok := t.(appdef.IWithFields); ok {
			var fs []string
			for _, f := range wf.UserFields() {
				fs = append(fs, f.Name())
			}
			s += " fields=" + strings.Join(fs, ",")
		}
		if wc, ok := t.(appdef.IWithContainers); ok {
			for _, c := range wc.Containers() {
				s += fmt.Sprintf(" cont %s:%v", c.Name(), c.QName())
			}
		}
		if w, ok := t.(appdef.IWorkspace); ok {
			s += fmt.Sprintf(" anc=%v", w.Ancestors())
			for _, r := range w.ACL() {
				s += fmt.Sprintf("\n      acl: %v", r)
			}
		}
		lines = append(lines, s)
	}
	sort.Strings(lines)
	fmt.Println(strings.Join(lines, "\n"))
}

func main() {
	compile("A nested table in an item list inherited from another package", []pk{{"github.com/verif/main", `IMPORT SCHEMA 'github.com/verif/pkg1';
APPLICATION main( USE pkg1; );
WORKSPACE W INHERITS pkg1.Base ( TABLE T INHERITS pkg1.A (c int32); );
`}, {"github.com/verif/pkg1", `ABSTRACT WORKSPACE Base ( ABSTRACT TABLE A INHERITS sys.CDoc (a int32, items TABLE N (x int32)); TABLE U INHERITS A (u int32); );
`}})
	compile("A' same package", []pk{{"github.com/verif/main", `APPLICATION main();
ABSTRACT WORKSPACE Base ( ABSTRACT TABLE A INHERITS sys.CDoc (a int32, items TABLE N (x int32)); );
WORKSPACE W INHERITS Base ( TABLE T INHERITS A (c int32); TABLE T2 INHERITS A (d int32); );
`}})
	compile("B diamond alone", []pk{{"github.com/verif/main", `APPLICATION main();
ABSTRACT WORKSPACE Z ();
ABSTRACT WORKSPACE A INHERITS Z ();
ABSTRACT WORKSPACE B INHERITS A ();
ABSTRACT WORKSPACE C INHERITS B, A ();
`}})
	compile("B diamond under an heir", []pk{{"github.com/verif/main", `APPLICATION main();
ABSTRACT WORKSPACE Z ( ROLE r; );
ABSTRACT WORKSPACE A INHERITS Z ();
ABSTRACT WORKSPACE B INHERITS A ();
ABSTRACT WORKSPACE C INHERITS B, A ();
WORKSPACE W INHERITS C ();
`}})
	compile("B' classic diamond under an heir", []pk{{"github.com/verif/main", `APPLICATION main();
ABSTRACT WORKSPACE Z ( ROLE r; );
ABSTRACT WORKSPACE A INHERITS Z ();
ABSTRACT WORKSPACE B INHERITS Z ();
ABSTRACT WORKSPACE C INHERITS A, B ();
WORKSPACE W INHERITS C ();
`}})
	compile("C grant on an inherited column", []pk{{"github.com/verif/main", `APPLICATION main();
WORKSPACE W ( ROLE r; ABSTRACT TABLE A INHERITS sys.CDoc (a int32); TABLE T INHERITS A (c int32);
  GRANT SELECT(a, c) ON TABLE T TO r; );
`}})
	compile("C' grant on own column and sys column", []pk{{"github.com/verif/main", `APPLICATION main();
WORKSPACE W ( ROLE r; ABSTRACT TABLE A INHERITS sys.CDoc (a int32); TABLE T INHERITS A (c int32);
  GRANT SELECT(c, sys.ID) ON TABLE T TO r; );
`}})
}
