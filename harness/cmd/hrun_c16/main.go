// hrun with only property C16 linked in (bin/check builds this one, so a broken sibling
// package cannot disturb the check).
package main

import (
	_ "verifharness/c16"
	"verifharness/hmain"
)

func main() { hmain.Main() }
