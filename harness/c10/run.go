package c10

import (
	"bytes"
	"encoding/binary"
	"encoding/json"
	"fmt"
	"regexp"
	"sort"
	"strings"

	"verifharness/kit"

	"github.com/voedger/voedger/pkg/appdef"
	"github.com/voedger/voedger/pkg/istorage"
	"github.com/voedger/voedger/pkg/istructs"
)

type seedRow struct {
	Reg  int    `json:"reg"` // 0 qnames, 1 containers, 2 singletons
	Name string `json:"name"`
	ID   uint64 `json:"id"`
}

type faultSpec struct {
	// "batch" (the rows PutBatch of registry Reg) | "ver" (the version-row Put of registry Reg);
	// for a rename also "write" (its K-th storage write call fails, whatever it is) and
	// "stop" (the process stops after its K-th write call: every later write fails; K = 0: before any);
	// for a start / retry also "nthbatch" (the K-th PutBatch it issues fails, whichever registry)
	Point string `json:"point"`
	Reg   int    `json:"reg"`
	K     int    `json:"k,omitempty"`
}

type stepSpec struct {
	// start (new process) | retry (same process asks again) | rename |
	// redeploy (IAppStructsProvider.New with another definition on the running process's provider)
	Kind   string     `json:"kind"`
	Schema *schema    `json:"schema,omitempty"`
	Fault  *faultSpec `json:"fault,omitempty"`
	Old    string     `json:"old,omitempty"`
	New    string     `json:"new,omitempty"`
	Puts   []string   `json:"puts,omitempty"` // documents written (PutJSON) after a successful start
	Obs    *stepObs   `json:"observed,omitempty"`
}

type lookup struct {
	Name string `json:"name"`
	Ok   bool   `json:"ok"`
	ID   uint64 `json:"id"`
}

type recObs struct {
	Op   string `json:"op"`
	Key  uint64 `json:"key"`
	Name string `json:"name,omitempty"`
	Res  string `json:"res"`
}

type stepObs struct {
	Code  int      `json:"code"`
	Calls []string `json:"storage_calls,omitempty"`
	Err   string   `json:"err,omitempty"`
	Dump  dump     `json:"rows_after"`
	QIDs  []lookup `json:"qname_ids,omitempty"`
	SIDs  []lookup `json:"singleton_ids,omitempty"`
	Recs  []recObs `json:"records,omitempty"`
}

type scenario struct {
	Backend  string      `json:"backend"`
	Seed     []seedRow   `json:"seed,omitempty"`
	SeedVers [3]int      `json:"seed_vers"`
	Steps    []*stepSpec `json:"steps"`
}

var regPK = [3][]byte{pkQNames, pkContainers, pkSingletons}

// Names enter the Coq trace as one-element byte strings [rank], rank = position of the name in
// the bytewise-sorted list of all names of the scenario.  The model uses names only through
// equality and lexicographic order (sorted rows, load order), both preserved by the ranking;
// it keeps the case terms small (Coq's number notation costs ~0.5 ms per multi-digit literal).
// The scenario in Desc carries the names in clear.
type nameTab struct {
	idx   map[string]int
	names []string
}

var tab *nameTab

var nameTok = regexp.MustCompile("@(\\d+)@")

func nm(s string) string {
	if s == "" {
		return "[]" // the empty name is the empty byte string (it sorts before every rank)
	}
	i, ok := tab.idx[s]
	if !ok {
		i = len(tab.names)
		tab.idx[s] = i
		tab.names = append(tab.names, s)
	}
	return fmt.Sprintf("@%d@", i)
}

func (t *nameTab) wrap(term string) string {
	sorted := append([]string{}, t.names...)
	sort.Strings(sorted)
	rank := map[string]int{}
	for i, n := range sorted {
		rank[n] = i
	}
	return "(" + nameTok.ReplaceAllStringFunc(term, func(m string) string {
		var i int
		fmt.Sscanf(m, "@%d@", &i)
		return fmt.Sprintf("[%d]", rank[t.names[i]])
	}) + ")"
}

func num(x uint64) string { return fmt.Sprint(x) }

func optNum(ok bool, x uint64) string {
	if ok {
		return "(Some " + num(x) + ")"
	}
	return "None"
}

func coqRows(rs []row) string {
	items := make([]string, len(rs))
	for i, r := range rs {
		items[i] = fmt.Sprintf("(%s, %s)", nm(r.Name), num(r.ID))
	}
	return kit.List(items)
}

func (d dump) coq() string {
	return fmt.Sprintf("(mkDump %s %s %s %d %d %d)", coqRows(d.Q), coqRows(d.C), coqRows(d.S), d.Vers[0], d.Vers[1], d.Vers[2])
}

func coqNames(ns []string) string {
	items := make([]string, len(ns))
	for i, n := range ns {
		items[i] = nm(n)
	}
	return kit.List(items)
}

func coqLookups(ls []lookup) string {
	items := make([]string, len(ls))
	for i, l := range ls {
		items[i] = fmt.Sprintf("(%s, %s)", nm(l.Name), optNum(l.Ok, l.ID))
	}
	return kit.List(items)
}

func (f *faultSpec) coq() string {
	if f == nil {
		return "NoFault"
	}
	switch f.Point {
	case "batch":
		return fmt.Sprintf("(FailBatch %d)", f.Reg)
	case "write":
		return fmt.Sprintf("(FailWrite %d)", f.K)
	case "stop":
		return fmt.Sprintf("(StopAfter %d)", f.K)
	case "nthbatch":
		return fmt.Sprintf("(FailNthBatch %d)", f.K)
	}
	return fmt.Sprintf("(FailVer %d)", f.Reg)
}

func addUniq(l []string, seen map[string]bool, xs ...string) []string {
	for _, x := range xs {
		if !seen[x] {
			seen[x] = true
			l = append(l, x)
		}
	}
	return l
}

// guard runs f and returns the panic text if the code under test panicked
func guard(f func()) (p string) {
	defer func() {
		if r := recover(); r != nil {
			p = fmt.Sprint(r)
			if p == "" {
				p = "panic"
			}
		}
	}()
	f()
	return ""
}

func rowID(rows []row, name string) uint64 {
	for _, r := range rows {
		if r.Name == name {
			return r.ID
		}
	}
	return 0
}

// putRecord writes a t.rec record into container cont (under an arbitrary parent)
func putRecord(as istructs.IAppStructs, key uint64, cont string) (err error) {
	defer func() {
		if r := recover(); r != nil {
			err = fmt.Errorf("panic: %v", r)
		}
	}()
	return as.Records().PutJSON(1, map[appdef.FieldName]any{
		appdef.SystemField_ID: json.Number(fmt.Sprint(key)), appdef.SystemField_QName: pkgName + ".rec",
		appdef.SystemField_ParentID: json.Number("300000"), appdef.SystemField_Container: cont})
}

// dupIDs: two stored rows with the same live ID
func dupIDs(rows []row) bool {
	seen := map[uint64]bool{}
	for _, r := range rows {
		if r.ID == 0 {
			continue
		}
		if seen[r.ID] {
			return true
		}
		seen[r.ID] = true
	}
	return false
}

// collision: two names of `live` with the same observed ID
func collision(ls []lookup, live []string) bool {
	in := map[string]bool{}
	for _, n := range live {
		in[n] = true
	}
	seen := map[uint64]string{}
	for _, l := range ls {
		if !l.Ok || !in[l.Name] {
			continue
		}
		if o, dup := seen[l.ID]; dup && o != l.Name {
			return true
		}
		seen[l.ID] = l.Name
	}
	return false
}

// run executes the scenario on the real registries and returns the Coq trace term
func run(sc *scenario) (coq string, tags []string, err error) {
	inner, cleanup, err := kit.NewBackend(sc.Backend, kit.NewClock())
	if err != nil {
		return "", nil, err
	}
	defer cleanup()
	tagset := map[string]bool{sc.Backend: true}
	tab = &nameTab{idx: map[string]int{}}

	// seeded rows are written directly, as an earlier run of the application would have left them
	for _, s := range sc.Seed {
		v := be16(s.ID)
		if s.Reg == 2 {
			v = be64(s.ID)
		}
		if err = inner.Put(regPK[s.Reg], []byte(s.Name), v); err != nil {
			return "", nil, err
		}
		tagset["seeded"] = true
	}
	for r, v := range sc.SeedVers {
		if v != 0 {
			if err = inner.Put(pkVersions, be16(uint64(r+1)), be16(uint64(v))); err != nil {
				return "", nil, err
			}
		}
	}
	init, err := readDump(inner)
	if err != nil {
		return "", nil, err
	}
	// a registry whose rows exist while its version row does not: the state an interrupted
	// first store leaves behind
	interrupted := [3]bool{}
	markInterrupted := func(d dump, how string) {
		for r, rows := range [3][]row{d.Q, d.C, d.S} {
			if len(rows) > 0 && d.Vers[r] == 0 && !interrupted[r] {
				interrupted[r] = true
				tagset["rows-without-version:"+how] = true
			}
		}
	}
	markInterrupted(init, "seeded")

	var active *faultSpec
	fired := false
	inRename := false
	nWrites := 0 // storage write calls issued by the current rename
	recording := false
	nBatches := 0
	var calls []string
	wrap := &kit.Wrap{Inner: inner}
	wrap.Before = func(c *kit.Call) kit.Verdict {
		isWrite := false
		switch c.Op {
		case "Put", "PutBatch", "InsertIfNotExists", "CompareAndSwap", "CompareAndDelete":
			isWrite = true
		}
		if inRename && isWrite {
			nWrites++
		}
		if recording && isWrite {
			// the storage calls of a start / retry / rename, as attempted, for `agrees`
			reg := func(pk []byte) int {
				for r, k := range regPK {
					if bytes.Equal(pk, k) {
						return r
					}
				}
				return 9
			}
			switch {
			case c.Op == "PutBatch":
				calls = append(calls, fmt.Sprintf("CBatch %d %d", reg(c.PKey), len(c.Items)))
				nBatches++
			case c.Op == "Put" && bytes.Equal(c.PKey, pkVersions) && len(c.CCols) == 2:
				calls = append(calls, fmt.Sprintf("CVer %d", int(binary.BigEndian.Uint16(c.CCols))-1))
			case c.Op == "Put":
				calls = append(calls, fmt.Sprintf("CPut %d", reg(c.PKey)))
			default:
				calls = append(calls, "CPut 9")
			}
		}
		if active == nil {
			return kit.Verdict{}
		}
		switch {
		case recording && !inRename && active.Point == "nthbatch" && c.Op == "PutBatch" && nBatches == active.K:
			fired = true
			return kit.Verdict{FailBefore: errInjected}
		case inRename && isWrite && active.Point == "write" && nWrites == active.K:
			fired = true
			return kit.Verdict{FailBefore: errInjected}
		case inRename && isWrite && active.Point == "stop" && nWrites > active.K:
			fired = true
			return kit.Verdict{FailBefore: errInjected}
		case active.Point == "batch" && c.Op == "PutBatch" && bytes.Equal(c.PKey, regPK[active.Reg]):
			fired = true
			return kit.Verdict{FailBefore: errInjected}
		case active.Point == "ver" && c.Op == "Put" && bytes.Equal(c.PKey, pkVersions) && bytes.Equal(c.CCols, be16(uint64(active.Reg+1))):
			fired = true
			return kit.Verdict{FailBefore: errInjected}
		}
		return kit.Verdict{}
	}
	var st istorage.IAppStorage = wrap

	// probe names: everything the scenario ever mentions plus one name never used
	seen := map[string]bool{}
	var probes []string
	for _, s := range sc.Steps {
		if s.Kind == "rename" {
			probes = addUniq(probes, seen, s.Old, s.New)
		} else if s.Schema != nil {
			for _, d := range s.Schema.Docs {
				probes = addUniq(probes, seen, pkgName+"."+d.Name)
			}
		}
	}
	for _, s := range sc.Seed {
		if s.Reg != 1 {
			probes = addUniq(probes, seen, s.Name)
		}
	}
	probes = addUniq(probes, seen, pkgName+".never")

	var terms []string
	var keys, ckeys []uint64
	sidOf := map[string]uint64{}     // singleton IDs observed for live singletons
	expectSid := map[string]uint64{} // new name of a completed rename -> singleton ID the old name had
	var proc *process
	nextKey := uint64(300001)
	abandoned := false // the code under test panicked: the instance is given up after this step
	for _, s := range sc.Steps {
		if abandoned {
			break
		}
		obs := &stepObs{}
		s.Obs = obs
		active, fired = s.Fault, false
		switch s.Kind {
		case "rename":
			before, e0 := readDump(inner)
			if e0 != nil {
				return "", nil, e0
			}
			inRename, nWrites = true, 0
			var e error
			recording, nBatches, calls = true, 0, nil
			if p := guard(func() { e = rename(st, s.Old, s.New) }); p != "" {
				e = fmt.Errorf("%w: %s", errPanic, p)
				tagset["panic-in-code-under-test"] = true
				abandoned = true
			}
			inRename, active, recording = false, nil, false
			obs.Code = errClass(e)
			if e != nil {
				obs.Err = e.Error()
			}
			if obs.Dump, err = readDump(inner); err != nil {
				return "", nil, err
			}
			terms = append(terms, fmt.Sprintf("TRename %s %s %s %s %d %s", nm(s.Old), nm(s.New), s.Fault.coq(), kit.List(calls), obs.Code, obs.Dump.coq()))
			obs.Calls = append([]string{}, calls...)
			tagset[fmt.Sprintf("rename:code%d", obs.Code)] = true
			tagset[fmt.Sprintf("rename:writes%d", nWrites)] = true
			if oldID := rowID(before.Q, s.Old); oldID != 0 && rowID(obs.Dump.Q, s.New) == oldID && rowID(obs.Dump.Q, s.Old) == 0 {
				// the rename took effect: the new name now carries the IDs of the old one
				// (also through a chain of renames while the type is not a singleton in between)
				if sid, ok := sidOf[s.Old]; ok {
					expectSid[s.New] = sid
					delete(sidOf, s.Old)
					delete(expectSid, s.Old)
				} else if sid, ok := expectSid[s.Old]; ok {
					expectSid[s.New] = sid
					delete(expectSid, s.Old)
				}
			}
			if s.Fault != nil {
				tagset[fmt.Sprintf("rename-fault:%s%d", s.Fault.Point, s.Fault.K+s.Fault.Reg)] = true
				if fired {
					tagset["rename-fault-fired"] = true
				}
			}
		default:
			retry := s.Kind == "retry"
			if retry && (proc == nil || proc.fixed != nil) {
				return "", nil, fmt.Errorf("retry without a process (or after a redeployment)")
			}
			var e error
			if s.Kind == "redeploy" {
				// to the model a redeployment is a start with fresh registry objects (AStart)
				if proc == nil {
					return "", nil, fmt.Errorf("redeploy without a running provider")
				}
				proc, e = redeploy(proc, *s.Schema)
			} else if retry {
				// the definition may only change while the configuration is not prepared yet
				if s.Schema != nil && !proc.ready {
					e = proc.grow(*s.Schema)
				}
			} else {
				proc, e = newProcess(st, *s.Schema)
			}
			if e != nil {
				return "", nil, e
			}
			def, e := proc.def()
			if e != nil {
				return "", nil, fmt.Errorf("schema does not build: %w", e)
			}
			qn, cn, sn := enumerate(def)
			var docs []string
			for d := range proc.docs {
				docs = append(docs, pkgName+"."+d)
			}
			sort.Strings(docs)
			var as istructs.IAppStructs
			recording, nBatches, calls = true, 0, nil
			if p := guard(func() { as, e = proc.get() }); p != "" {
				e = fmt.Errorf("%w: %s", errPanic, p)
				tagset["panic-in-code-under-test"] = true
				abandoned = true
			}
			proc.ready = e == nil
			active, recording = nil, false
			startCalls := append([]string{}, calls...)
			obs.Calls = startCalls
			obs.Code = errClass(e)
			if e != nil {
				obs.Err = e.Error()
			}
			if obs.Dump, err = readDump(inner); err != nil {
				return "", nil, err
			}
			tagset[fmt.Sprintf("%s:code%d", s.Kind, obs.Code)] = true
			if s.Fault != nil {
				tagset[fmt.Sprintf("fault:%s%d", s.Fault.Point, s.Fault.Reg+s.Fault.K)] = true
				if fired {
					tagset["fault-fired"] = true
				}
			}
			if obs.Code == 1 {
				markInterrupted(obs.Dump, "interrupted-store")
			}
			var recTerms []string
			if e == nil {
				// observing the running application calls into the code under test: a panic there is
				// an outcome of the step (never accepted by `agrees` / `satisfies`), not the end of the run
				if p := guard(func() {
					ps := addUniq(append([]string{}, probes...), copySeen(seen), qn...)
					for _, n := range ps {
						id, e1 := as.QNameID(appdef.MustParseQName(n))
						obs.QIDs = append(obs.QIDs, lookup{n, e1 == nil, uint64(id)})
						sid, e2 := as.Records().GetSingletonID(appdef.MustParseQName(n))
						obs.SIDs = append(obs.SIDs, lookup{n, e2 == nil, uint64(sid)})
					}
					for _, n := range s.Puts {
						if !proc.docs[strings.TrimPrefix(n, pkgName+".")] {
							continue
						}
						key := nextKey
						nextKey++
						e3 := as.Records().PutJSON(1, map[appdef.FieldName]any{
							appdef.SystemField_ID: json.Number(fmt.Sprint(key)), appdef.SystemField_QName: n})
						res := "ok"
						if e3 != nil {
							res = "err: " + e3.Error()
						} else {
							keys = append(keys, key)
						}
						obs.Recs = append(obs.Recs, recObs{"put", key, n, res})
						recTerms = append(recTerms, fmt.Sprintf("RPut %s %s %s", num(key), nm(n), kit.Bool(e3 == nil)))
					}
					for _, key := range append(append([]uint64{}, keys...), 299999) {
						rec, e4 := as.Records().Get(1, true, istructs.RecordID(key))
						var res, term string
						switch {
						case e4 != nil:
							res, term = "err: "+e4.Error(), "DErr"
						case rec.QName() == appdef.NullQName:
							res, term = "absent", "DAbsent"
						default:
							res, term = rec.QName().String(), fmt.Sprintf("(DName %s)", nm(rec.QName().String()))
						}
						obs.Recs = append(obs.Recs, recObs{"get", key, "", res})
						recTerms = append(recTerms, fmt.Sprintf("RGet %s %s", num(key), term))
					}
					// one record per container of the running schema: the row stores the container ID, the
					// read maps it back to a name (round trip name -> ID -> name of the containers registry)
					if proc.hasRec {
						seenC := map[string]bool{}
						for _, c := range cn {
							if seenC[c] || len(seenC) >= 6 { // big schemas: a few containers are enough
								continue
							}
							seenC[c] = true
							key := nextKey
							nextKey++
							e5 := putRecord(as, key, c)
							res := "ok"
							if e5 != nil {
								res = "err: " + e5.Error()
							} else {
								ckeys = append(ckeys, key)
							}
							obs.Recs = append(obs.Recs, recObs{"putc", key, c, res})
							recTerms = append(recTerms, fmt.Sprintf("RPutC %s %s %s %s", num(key), nm(pkgName+".rec"), nm(c), kit.Bool(e5 == nil)))
						}
					}
					for _, key := range append(append([]uint64{}, ckeys...), 299998) {
						rec, e6 := as.Records().Get(1, true, istructs.RecordID(key))
						var res, term string
						switch {
						case e6 != nil:
							res, term = "err: "+e6.Error(), "DErr"
						case rec.QName() == appdef.NullQName:
							res, term = "absent", "DAbsent"
						default:
							res, term = "container "+rec.Container(), fmt.Sprintf("(DName %s)", nm(rec.Container()))
						}
						obs.Recs = append(obs.Recs, recObs{"getc", key, "", res})
						recTerms = append(recTerms, fmt.Sprintf("RGetC %s %s", num(key), term))
					}
					// finding C10-F2: a renamed singleton type is handed a new singleton ID
					inSn := map[string]bool{}
					for _, n := range sn {
						inSn[n] = true
					}
					for _, l := range obs.SIDs {
						if !l.Ok || !inSn[l.Name] {
							continue
						}
						if want, ok := expectSid[l.Name]; ok {
							if want != l.ID {
								tagset["C10-F2:renamed-singleton-got-new-id"] = true
							}
							delete(expectSid, l.Name)
						}
						sidOf[l.Name] = l.ID
					}
					// observed collisions among the names of the running schema
					contLookups := make([]lookup, len(obs.Dump.C))
					for i, r := range obs.Dump.C {
						contLookups[i] = lookup{r.Name, true, r.ID}
					}
					if collision(obs.QIDs, qn) || collision(contLookups, cn) || collision(obs.SIDs, sn) {
						tagset["collision-observed"] = true
					}
				}); p != "" {
					obs.Recs = append(obs.Recs, recObs{"panic", 0, "", p})
					recTerms = append(recTerms, "RPanic")
					tagset["panic-in-code-under-test"] = true
					abandoned = true
				}
			}
			// the stored state F20 leads to: a registry that once had rows without a version row
			// now holds two names with one (non-tombstone) ID
			for r, rows := range [3][]row{obs.Dump.Q, obs.Dump.C, obs.Dump.S} {
				if interrupted[r] && dupIDs(rows) {
					tagset["F20:duplicate-ids-after-rows-without-version"] = true
				}
			}
			terms = append(terms, fmt.Sprintf("TStart %s %s %s %s %s %s %s %d %s %s %s %s",
				kit.Bool(retry), coqNames(qn), coqNames(cn), coqNames(sn), coqNames(docs), s.Fault.coq(), kit.List(startCalls), obs.Code, obs.Dump.coq(),
				coqLookups(obs.QIDs), coqLookups(obs.SIDs), kit.List(recTerms)))
		}
	}
	for t := range tagset {
		tags = append(tags, t)
	}
	sort.Strings(tags)
	return tab.wrap(fmt.Sprintf("mkTrace %s %s", init.coq(), kit.List(terms))), tags, nil
}

func copySeen(m map[string]bool) map[string]bool {
	c := make(map[string]bool, len(m))
	for k, v := range m {
		c[k] = v
	}
	return c
}

func shapeKey(sc *scenario) string {
	var sb strings.Builder
	fmt.Fprintf(&sb, "%s|seed%d%v", sc.Backend, len(sc.Seed), sc.SeedVers)
	for _, s := range sc.Steps {
		if s.Kind == "rename" {
			fmt.Fprintf(&sb, "|R:%s>%s", s.Old, s.New)
		} else if s.Kind == "retry" && s.Schema == nil {
			sb.WriteString("|T")
		} else {
			sb.WriteString("|" + s.Kind[:2])
			for _, d := range s.Schema.Docs {
				fmt.Fprintf(&sb, ":%s", d.Name)
				if d.Singleton {
					sb.WriteString("*")
				}
				sb.WriteString(strings.Join(d.Containers, ","))
			}
		}
		if s.Fault != nil {
			fmt.Fprintf(&sb, "!%s%d.%d", s.Fault.Point, s.Fault.Reg, s.Fault.K)
		}
	}
	return sb.String()
}

// non-trivial: at least two starts / in-process retries and (a name dropped and/or re-added
// between versions, a rename, a retry, an injected failure, or seeded rows)
func nontrivial(sc *scenario) bool {
	starts := 0
	var prev map[string]bool
	changed := false
	for _, s := range sc.Steps {
		if s.Kind == "rename" || s.Kind == "retry" || s.Fault != nil {
			changed = true
		}
		if s.Kind == "retry" {
			starts++
		}
		if s.Kind == "start" || s.Kind == "redeploy" {
			starts++
			cur := map[string]bool{}
			for _, d := range s.Schema.Docs {
				cur[d.Name] = true
			}
			if prev != nil {
				for n := range prev {
					if !cur[n] {
						changed = true
					}
				}
				for n := range cur {
					if !prev[n] {
						changed = true
					}
				}
			}
			prev = cur
		}
	}
	return starts >= 2 && (changed || len(sc.Seed) > 0)
}
