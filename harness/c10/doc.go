// Package c10: harness of property C10 (registers itself with kit.Register in an init function).
package c10
