package c10

import (
	"encoding/json"
	"fmt"
	"os"
	"sort"
	"strings"

	"verifharness/kit"
)

// small colliding alphabets: names that sort before/after each other and around the built-in
// "t.rec"/"t.ws" (enumeration order is by name, so the choice of names varies the order in
// which IDs are handed out)
var docUniverse = []string{"aa", "ab", "b", "mm", "sa", "zz", "a1", "x"}
var contUniverse = []string{"c1", "c2", "cx", "k"}

// sizes of the three registries' ID ranges (only used to place seeded rows next to the limits;
// the model takes the real constants from Gen/Params.v)
const (
	qMax     = 0xFFFF
	cMax     = 0xFFFF
	sMax     = 65536 + 0x1ff
	sysTypes = 17 // types every definition has (sys.*)
)

func cloneSchema(s schema) schema {
	var c schema
	for _, d := range s.Docs {
		c.Docs = append(c.Docs, docSpec{d.Name, d.Singleton, append([]string{}, d.Containers...)})
	}
	return c
}

func (s schema) has(n string) int {
	for i, d := range s.Docs {
		if d.Name == n {
			return i
		}
	}
	return -1
}

func genDoc(r *kit.Rng, name string) docSpec {
	d := docSpec{Name: name, Singleton: r.Chance(2, 5)}
	for i, n := 0, r.Intn(3); i < n; i++ {
		c := kit.Pick(r, contUniverse)
		dup := false
		for _, x := range d.Containers {
			dup = dup || x == c
		}
		if !dup {
			d.Containers = append(d.Containers, c)
		}
	}
	return d
}

func genSchema(r *kit.Rng) schema {
	var s schema
	for i, n := 0, 1+r.Intn(4); i < n; i++ {
		name := kit.Pick(r, docUniverse)
		if s.has(name) < 0 {
			s.Docs = append(s.Docs, genDoc(r, name))
		}
	}
	return s
}

// next schema version: add / drop / re-add documents, flip singletons, add / drop containers
func evolve(r *kit.Rng, s schema, dropped *[]string) schema {
	n := cloneSchema(s)
	for i, k := 0, 1+r.Intn(3); i < k; i++ {
		switch r.Intn(6) {
		case 0, 1: // add (often a re-add of something dropped earlier)
			name := kit.Pick(r, docUniverse)
			if len(*dropped) > 0 && r.Chance(2, 3) {
				name = kit.Pick(r, *dropped)
			}
			if n.has(name) < 0 {
				n.Docs = append(n.Docs, genDoc(r, name))
			}
		case 2, 3: // drop
			if len(n.Docs) > 1 {
				i := r.Intn(len(n.Docs))
				*dropped = append(*dropped, n.Docs[i].Name)
				n.Docs = append(n.Docs[:i], n.Docs[i+1:]...)
			}
		case 4:
			if len(n.Docs) > 0 {
				i := r.Intn(len(n.Docs))
				n.Docs[i].Singleton = !n.Docs[i].Singleton
			}
		case 5:
			if len(n.Docs) > 0 {
				i := r.Intn(len(n.Docs))
				name := n.Docs[i].Name
				n.Docs[i] = genDoc(r, name)
			}
		}
	}
	return n
}

// growBefore adds a document whose name sorts before an existing one (so that, enumerated
// earlier, it would take that one's ID if the stored IDs were lost), possibly also one after
func growBefore(r *kit.Rng, s schema) schema {
	n := cloneSchema(s)
	max := ""
	for _, d := range n.Docs {
		if d.Name > max {
			max = d.Name
		}
	}
	var before []string
	for _, u := range docUniverse {
		if u < max && n.has(u) < 0 {
			before = append(before, u)
		}
	}
	if len(before) > 0 {
		n.Docs = append(n.Docs, genDoc(r, kit.Pick(r, before)))
	} else {
		n.Docs = append(n.Docs, genDoc(r, "a0"))
	}
	if r.Chance(1, 3) {
		u := kit.Pick(r, docUniverse)
		if n.has(u) < 0 {
			n.Docs = append(n.Docs, genDoc(r, u))
		}
	}
	return n
}

// the in-process retries that follow a start carrying an injected failure: the same process asks
// for the application again (same definition, or a grown one), possibly failing once more
func retriesAfter(r *kit.Rng, cur *schema) []*stepSpec {
	var out []*stepSpec
	for i, n := 0, 1+r.Intn(2); i < n; i++ {
		st := &stepSpec{Kind: "retry"}
		if r.Chance(1, 4) {
			*cur = growBefore(r, *cur)
			st.Schema = ptr(cloneSchema(*cur))
		}
		if i < n-1 || r.Chance(1, 5) {
			st.Fault = genFault(r)
		}
		out = append(out, st)
	}
	out[len(out)-1].Puts = pickPuts(r, *cur)
	return out
}

func pickPuts(r *kit.Rng, s schema) []string {
	var p []string
	for _, d := range s.Docs {
		if r.Chance(1, 2) {
			p = append(p, pkgName+"."+d.Name)
		}
	}
	return p
}

// a failure inside a rename, at the granularity of the storage calls it issues: the rows batch,
// the version row, the k-th write call whatever it is, or the process stopping after k writes
func genRenameFault(r *kit.Rng) *faultSpec {
	switch r.Intn(8) {
	case 0:
		return &faultSpec{Point: "batch", Reg: 0}
	case 1:
		return &faultSpec{Point: "ver", Reg: 0}
	case 2, 3, 4:
		return &faultSpec{Point: "write", K: 1 + r.Intn(3)}
	default:
		return &faultSpec{Point: "stop", K: r.Intn(3)}
	}
}

func genFault(r *kit.Rng) *faultSpec {
	return &faultSpec{Point: kit.Pick(r, []string{"ver", "ver", "batch"}), Reg: r.Intn(3)}
}

// names a schema version makes the registries collect (counts only; used for limit placement)
func need(s schema) (q, c, sg int) {
	q = sysTypes + 1 + len(s.Docs) // + t.ws
	cs := map[string]bool{}
	for _, d := range s.Docs {
		for _, x := range d.Containers {
			cs[x] = true
		}
		if d.Singleton {
			sg++
		}
	}
	if len(cs) > 0 {
		q++ // t.rec
	}
	return q, len(cs), sg
}

// genScenario: kind selects the stream
//
//	history   - version history with drops / re-adds / renames, no failures
//	interrupt - an injected failure at the first store (rows batch or version row), then retries
//	            (new processes) with the same or a different schema, then more versions
//	retry     - failed starts retried inside the same process (same registry objects), then a
//	            new process whose schema grew by a name enumerated before the old ones
//	rename    - renames failing at each of their storage calls / stopped between them, followed
//	            by new processes whose schema has the old name, the new name or both
//	big       - see genBig
//	limit     - seeded rows next to an ID limit
//	malformed - stored rows / versions the code must refuse, renames that must be refused
func genScenario(r *kit.Rng, backend, kind string) *scenario {
	sc := &scenario{Backend: backend}
	var dropped []string
	cur := genSchema(r)
	nVersions := 3 + r.Intn(3)
	switch kind {
	case "limit":
		q, c, sg := need(cur)
		delta := uint64(r.Intn(3)) // 0,1: fits (exactly / with one to spare); 2: one too many
		reg := r.Intn(3)
		if reg == 1 && c == 0 {
			cur.Docs[0].Containers = []string{"c1", "k"}
			q, c, sg = need(cur)
		}
		if reg == 2 && sg == 0 {
			cur.Docs[0].Singleton = true
			q, c, sg = need(cur)
		}
		switch reg {
		case 0:
			sc.Seed = []seedRow{{0, "t.hi", qMax - 1 - uint64(q) - 1 + delta}, {0, "t.lo", 300}}
		case 1:
			sc.Seed = []seedRow{{1, "hi", cMax - 1 - uint64(c) - 1 + delta}}
		case 2:
			sc.Seed = []seedRow{{2, "t.hi", sMax - 1 - uint64(sg) - 1 + delta}}
		}
		sc.SeedVers[reg] = 1
		nVersions = 2 + r.Intn(2)
	case "malformed":
		switch r.Intn(4) {
		case 0: // ID inside the reserved range
			reg := r.Intn(2)
			sc.Seed = []seedRow{{reg, kit.Pick(r, []string{"t.bad", "t.aa"}), uint64(1 + r.Intn(60))}}
			if reg == 1 {
				sc.Seed[0].Name = "bad"
				cur.Docs[0].Containers = []string{"c1"}
			}
			sc.SeedVers[reg] = 1
		case 1: // unknown view version
			reg := r.Intn(3)
			sc.SeedVers[reg] = 2 + r.Intn(2)
			if reg == 1 {
				cur.Docs[0].Containers = []string{"c1"}
			}
		case 2: // tombstones left by earlier renames; the tombstoned name comes back
			sc.Seed = []seedRow{{0, "t.aa", 0}, {0, "t.old", 0}, {0, "t.mm", 700}}
			sc.SeedVers[0] = 1
		case 3: // nothing seeded: refused renames only (below)
		}
	}
	// deleted marks (name -> Null ID) in the containers view, as a removed container leaves them;
	// the schemas below bring those names back
	if (kind == "history" || kind == "rename" || kind == "retry") && r.Chance(1, 3) {
		del := []string{kit.Pick(r, contUniverse)}
		if x := kit.Pick(r, contUniverse); x != del[0] && r.Bool() {
			del = append(del, x)
		}
		for _, c := range del {
			sc.Seed = append(sc.Seed, seedRow{1, c, 0})
		}
		if r.Bool() {
			for _, c := range contUniverse {
				if c != del[0] && (len(del) < 2 || c != del[1]) {
					sc.Seed = append(sc.Seed, seedRow{1, c, uint64(64 + r.Intn(5))})
					break
				}
			}
		}
		sc.SeedVers[1] = 1
		if r.Chance(2, 3) {
			cur.Docs[0].Containers = append([]string{}, del...)
		}
	}
	first := true
	for v := 0; v < nVersions; v++ {
		st := &stepSpec{Kind: "start", Schema: ptr(cloneSchema(cur)), Puts: pickPuts(r, cur)}
		switch kind {
		case "interrupt":
			if first {
				st.Fault = genFault(r)
				sc.Steps = append(sc.Steps, st)
				// the retry: same schema, or a different one (names of the interrupted store missing)
				if r.Chance(1, 2) {
					cur = evolve(r, cur, &dropped)
				}
				if r.Chance(1, 4) { // a second failure before the store goes through
					sc.Steps = append(sc.Steps, &stepSpec{Kind: "start", Schema: ptr(cloneSchema(cur)), Fault: genFault(r)})
					if r.Chance(1, 2) {
						sc.Steps = append(sc.Steps, retriesAfter(r, &cur)...)
					}
				}
				st = &stepSpec{Kind: "start", Schema: ptr(cloneSchema(cur)), Puts: pickPuts(r, cur)}
			} else if r.Chance(1, 4) {
				st.Fault = genFault(r) // later failures: harmless once the version row exists
			}
		case "rename":
			// renames with failures at each of their storage calls; often on a registry whose
			// version row is still absent (first store interrupted at the version row and retried
			// in the process), where the rename has to write the version row too
			if first && r.Chance(1, 2) {
				st.Fault = &faultSpec{Point: "ver", Reg: 0}
			}
		case "retry":
			// a failed start retried inside the process, then a new process whose schema has
			// grown by a name enumerated before the old ones
			if first || r.Chance(1, 3) {
				st.Fault = genFault(r)
				if first && r.Chance(2, 3) {
					st.Fault.Point = "batch"
				}
			}
		case "history", "limit", "malformed":
			if !first && r.Chance(1, 10) {
				st.Fault = genFault(r)
			}
		}
		if !first && st.Fault == nil && (kind == "history" || kind == "rename") && r.Chance(1, 4) {
			st.Kind = "redeploy" // the new version is deployed through the provider that is already running
		}
		first = false
		sc.Steps = append(sc.Steps, st)
		if st.Fault != nil && (kind == "retry" || kind == "rename" || r.Chance(1, 3)) {
			sc.Steps = append(sc.Steps, retriesAfter(r, &cur)...)
			if kind == "retry" {
				cur = growBefore(r, cur)
			}
		}
		// a rename between versions
		renameChance := 3
		if kind == "malformed" || kind == "rename" {
			renameChance = 7
		}
		if r.Chance(renameChance, 10) && len(cur.Docs) > 0 {
			i := r.Intn(len(cur.Docs))
			old := cur.Docs[i].Name
			nw := kit.Pick(r, []string{"r1", "r2", "ab", "zy"})
			rs := &stepSpec{Kind: "rename", Old: pkgName + "." + old, New: pkgName + "." + nw}
			switch {
			case kind == "malformed" && r.Chance(1, 3):
				rs.New = rs.Old // equal names
			case kind == "malformed" && r.Chance(1, 3):
				rs.Old = pkgName + ".ghost" // unknown old name
			case kind == "malformed" && r.Chance(1, 2) && len(cur.Docs) > 1:
				rs.New = pkgName + "." + cur.Docs[(i+1)%len(cur.Docs)].Name // new name exists
			case r.Chance(1, 3) || (kind == "rename" && r.Chance(1, 2)):
				rs.Fault = genRenameFault(r)
			}
			sc.Steps = append(sc.Steps, rs)
			if rs.Fault != nil && rs.Old == pkgName+"."+old && rs.New != rs.Old && cur.has(nw) < 0 {
				// a rename that may have failed half-way: the next process runs a schema with both
				// names, or with one of them (the operator cannot know which state the storage is in)
				cur = cloneSchema(cur)
				switch r.Intn(4) {
				case 0, 1:
					cur.Docs = append(cur.Docs, genDoc(r, nw))
				case 2:
					cur.Docs[i].Name = nw
				}
				continue
			}
			if rs.Old == pkgName+"."+old && rs.New != rs.Old && r.Chance(3, 4) && cur.has(nw) < 0 {
				// the usual flow: the next schema carries the new name instead of the old one
				cur = cloneSchema(cur)
				cur.Docs[i].Name = nw
				if r.Chance(1, 3) { // ... and sometimes the old name comes back as a new type
					cur.Docs = append(cur.Docs, genDoc(r, old))
				}
			}
		}
		cur = evolve(r, cur, &dropped)
	}
	return sc
}

// genBig: schemas whose registries hold more rows than any plausible batch portion (130..300
// containers, or > 128 type names, or > 128 singletons); the first start fails at its k-th
// PutBatch (k runs over the calls a start issues and beyond), is retried in the process or by a
// new process, and is followed by a new process whose schema grew by names enumerated before the
// old ones: rows that did not reach the storage would get other IDs there
func genBig(r *kit.Rng, backend string, idx int) *scenario {
	sc := &scenario{Backend: backend}
	var cur schema
	variant := idx % 3
	switch variant {
	case 0: // many containers on a few documents
		n := 130 + r.Intn(171)
		docs := []docSpec{{Name: "mm"}, {Name: "sa", Singleton: true}, {Name: "zz"}}
		for i := 0; i < n; i++ {
			d := &docs[i%len(docs)]
			d.Containers = append(d.Containers, fmt.Sprintf("c%03d", i))
		}
		cur.Docs = docs
	case 1: // many type names
		for i, n := 0, 130+r.Intn(40); i < n; i++ {
			cur.Docs = append(cur.Docs, docSpec{Name: fmt.Sprintf("d%03d", i), Singleton: i%7 == 0})
		}
	default: // many singletons
		for i, n := 0, 130+r.Intn(40); i < n; i++ {
			cur.Docs = append(cur.Docs, docSpec{Name: fmt.Sprintf("s%03d", i), Singleton: true})
		}
	}
	k := 1 + (idx/3)%5
	first := &stepSpec{Kind: "start", Schema: ptr(cloneSchema(cur)), Fault: &faultSpec{Point: "nthbatch", K: k}}
	sc.Steps = append(sc.Steps, first)
	if r.Bool() {
		sc.Steps = append(sc.Steps, &stepSpec{Kind: "retry", Puts: []string{pkgName + "." + cur.Docs[0].Name}})
	} else {
		sc.Steps = append(sc.Steps, &stepSpec{Kind: "start", Schema: ptr(cloneSchema(cur)), Puts: []string{pkgName + "." + cur.Docs[0].Name}})
	}
	// the grown schema: new names that sort before the old ones in every registry
	grown := cloneSchema(cur)
	grown.Docs[0].Containers = append([]string{"a00", "a01"}, grown.Docs[0].Containers...)
	grown.Docs = append(grown.Docs, docSpec{Name: "a0", Singleton: true, Containers: []string{"a02"}}, docSpec{Name: "a1"})
	second := &stepSpec{Kind: "start", Schema: ptr(grown), Puts: []string{pkgName + ".a0"}}
	if r.Chance(1, 3) {
		second.Fault = &faultSpec{Point: "nthbatch", K: 1 + r.Intn(3)}
		sc.Steps = append(sc.Steps, second, &stepSpec{Kind: "retry"})
	} else {
		sc.Steps = append(sc.Steps, second)
	}
	sc.Steps = append(sc.Steps, &stepSpec{Kind: "start", Schema: ptr(cloneSchema(grown))})
	return sc
}

func ptr[T any](x T) *T { return &x }

func kindOf(i int) string {
	switch i % 10 {
	case 0:
		return "history"
	case 1:
		return "big"
	case 2, 3:
		return "interrupt"
	case 4, 5:
		return "retry"
	case 6, 7:
		return "rename"
	case 8:
		return "limit"
	}
	return "malformed"
}

func emit(sc *scenario, kind string, out *kit.Out) error {
	coq, tags, err := run(sc)
	if err != nil {
		return err
	}
	if kind != "" {
		tags = append(tags, "stream:"+kind)
		sort.Strings(tags)
	}
	out.Emit(kit.Case{Coq: coq, Key: shapeKey(sc), Nontrivial: nontrivial(sc), Desc: sc, Tags: tags})
	return nil
}

func clearObs(sc *scenario) {
	for _, s := range sc.Steps {
		s.Obs = nil
	}
}

// Generate runs the corpus first, then n generated scenarios.
func Generate(seed uint64, n int, tier string, corpusDir string, out *kit.Out) error {
	if corpusDir != "" {
		entries, _ := os.ReadDir(corpusDir)
		var names []string
		for _, e := range entries {
			if strings.HasSuffix(e.Name(), ".json") {
				names = append(names, e.Name())
			}
		}
		sort.Strings(names)
		for _, nm := range names {
			b, err := os.ReadFile(corpusDir + "/" + nm)
			if err != nil {
				return err
			}
			var sc scenario
			if err := json.Unmarshal(b, &sc); err != nil {
				return fmt.Errorf("%s: %w", nm, err)
			}
			clearObs(&sc)
			if err := emit(&sc, "corpus", out); err != nil {
				return fmt.Errorf("%s: %w", nm, err)
			}
		}
	}
	r := kit.NewRng(seed)
	for i := 0; i < n; i++ {
		cr := r.Fork()
		backend := "mem"
		if i%3 == 2 {
			backend = "bbolt"
		}
		kind := kindOf(i)
		sc := (*scenario)(nil)
		if kind == "big" {
			sc = genBig(cr, backend, i/10)
		} else {
			sc = genScenario(cr, backend, kind)
		}
		if err := emit(sc, kind, out); err != nil {
			return err
		}
	}
	return nil
}

// Replay runs exactly the scenario stored in a replay / corpus file
func Replay(path string, out *kit.Out) error {
	b, err := os.ReadFile(path)
	if err != nil {
		return err
	}
	var wrapper struct {
		Case struct {
			Desc *scenario `json:"desc"`
		} `json:"case"`
		Desc *scenario `json:"desc"`
	}
	var sc *scenario
	if err := json.Unmarshal(b, &wrapper); err == nil && wrapper.Desc != nil && len(wrapper.Desc.Steps) > 0 {
		sc = wrapper.Desc
	} else if err == nil && wrapper.Case.Desc != nil && len(wrapper.Case.Desc.Steps) > 0 {
		sc = wrapper.Case.Desc
	} else {
		sc = &scenario{}
		if err := json.Unmarshal(b, sc); err != nil {
			return err
		}
	}
	clearObs(sc)
	return emit(sc, "", out)
}
