// Package c10: persistent name->ID registries (qnames, containers, singletons) driven through
// istructsmem.Provide restarted on one shared storage (property C10).
package c10

import (
	"context"
	"encoding/binary"
	"errors"
	"fmt"
	"sort"
	"strings"

	"github.com/voedger/voedger/pkg/appdef"
	"github.com/voedger/voedger/pkg/appdef/builder"
	"github.com/voedger/voedger/pkg/goutils/testingu"
	"github.com/voedger/voedger/pkg/isequencer"
	"github.com/voedger/voedger/pkg/istorage"
	"github.com/voedger/voedger/pkg/istructs"
	"github.com/voedger/voedger/pkg/istructsmem"
	"github.com/voedger/voedger/pkg/istructsmem/qrename"
	payloads "github.com/voedger/voedger/pkg/itokens-payloads"
	"github.com/voedger/voedger/pkg/itokensjwt"
)

var appName = istructs.AppQName_test1_app1 // a name the built-in application table knows

const pkgName = "t"

// the three registry views and the versions view (pkg/istructsmem/internal/consts, vers):
// the numbers are cross-checked against Gen/Params.v by the model (`agrees` compares raw rows
// read under these partition keys, so a changed constant shows up as a disagreement)
var (
	pkVersions   = []byte{0, 16}
	pkQNames     = []byte{0, 17, 0, 1}
	pkContainers = []byte{0, 18, 0, 1}
	pkSingletons = []byte{0, 22, 0, 1}
)

var errInjected = errors.New("injected storage failure")
var errPanic = errors.New("panic in the code under test")

// oneStorage hands the same IAppStorage to every provider instance ("restart on the same storage")
type oneStorage struct{ st istorage.IAppStorage }

func (p oneStorage) AppStorage(appdef.AppQName) (istorage.IAppStorage, error) { return p.st, nil }
func (p oneStorage) Prepare(any) error                                        { return nil }
func (p oneStorage) Run(context.Context)                                      {}
func (p oneStorage) Stop()                                                    {}

// docSpec: one CDoc of the schema version
type docSpec struct {
	Name       string   `json:"name"`
	Singleton  bool     `json:"singleton,omitempty"`
	Containers []string `json:"containers,omitempty"` // container names; each refers to the CRecord t.rec
}

type schema struct {
	Docs []docSpec `json:"docs"`
}

func qn(n string) appdef.QName { return appdef.NewQName(pkgName, n) }

// build makes the application definition of one schema version with the public builder
func (s schema) build() (appdef.IAppDef, error) {
	adb := builder.New()
	adb.AddPackage(pkgName, "test.com/t")
	ws := adb.AddWorkspace(qn("ws"))
	needRec := false
	for _, d := range s.Docs {
		if len(d.Containers) > 0 {
			needRec = true
		}
	}
	if needRec {
		ws.AddCRecord(qn("rec"))
	}
	for _, d := range s.Docs {
		doc := ws.AddCDoc(qn(d.Name))
		if d.Singleton {
			doc.SetSingleton()
		}
		for _, c := range d.Containers {
			doc.AddContainer(c, qn("rec"), 0, 1)
		}
	}
	return adb.Build()
}

// enumeration of names exactly as the three Prepare functions walk the definition (public API)
func enumerate(def appdef.IAppDef) (qnames, conts, singles []string) {
	for _, t := range def.Types() {
		qnames = append(qnames, t.QName().String())
		if uu, ok := t.(appdef.IWithUniques); ok {
			for _, u := range uu.Uniques() {
				qnames = append(qnames, u.Name().String())
			}
		}
		if cont, ok := t.(appdef.IWithContainers); ok {
			for _, c := range cont.Containers() {
				conts = append(conts, c.Name())
			}
		}
	}
	for s := range appdef.Singletons(def.Types()) {
		if s.Singleton() {
			singles = append(singles, s.QName().String())
		}
	}
	return
}

type row struct {
	Name string `json:"name"`
	ID   uint64 `json:"id"`
}

func readRows(st istorage.IAppStorage, pk []byte, wide bool) ([]row, error) {
	var rows []row
	err := st.Read(context.Background(), pk, nil, nil, func(cc, v []byte) error {
		var id uint64
		switch {
		case wide && len(v) == 8:
			id = binary.BigEndian.Uint64(v)
		case !wide && len(v) == 2:
			id = uint64(binary.BigEndian.Uint16(v))
		default:
			return fmt.Errorf("unexpected value length %d under %x/%x", len(v), pk, cc)
		}
		rows = append(rows, row{string(cc), id})
		return nil
	})
	sort.SliceStable(rows, func(i, j int) bool { return rows[i].Name < rows[j].Name })
	return rows, err
}

// persisted state of the four views
type dump struct {
	Q    []row  `json:"q"`
	C    []row  `json:"c"`
	S    []row  `json:"s"`
	Vers [3]int `json:"vers"` // version rows of qnames, containers, singletons (0 = absent)
}

func readDump(st istorage.IAppStorage) (d dump, err error) {
	if d.Q, err = readRows(st, pkQNames, false); err != nil {
		return
	}
	if d.C, err = readRows(st, pkContainers, false); err != nil {
		return
	}
	if d.S, err = readRows(st, pkSingletons, true); err != nil {
		return
	}
	err = st.Read(context.Background(), pkVersions, nil, nil, func(cc, v []byte) error {
		if len(cc) == 2 && len(v) == 2 {
			k := binary.BigEndian.Uint16(cc)
			if k >= 1 && k <= 3 {
				d.Vers[k-1] = int(binary.BigEndian.Uint16(v))
			}
		}
		return nil
	})
	return
}

func be16(x uint64) []byte { b := make([]byte, 2); binary.BigEndian.PutUint16(b, uint16(x)); return b }
func be64(x uint64) []byte { b := make([]byte, 8); binary.BigEndian.PutUint64(b, x); return b }

// error classes of a start / rename, decided on the message text (the error values live in
// internal packages): 0 ok, 1 injected storage failure, 2 ID limit, 3 bad stored row (ID in the
// system range), 4 unknown view version, 5 rename refused, 9 anything else, 99 the code under test panicked
func errClass(err error) int {
	if err == nil {
		return 0
	}
	s := err.Error()
	switch {
	case errors.Is(err, errPanic):
		return 99
	case errors.Is(err, errInjected):
		return 1
	case strings.Contains(s, "has been exceeded"):
		return 2
	case strings.Contains(s, "unexpected ID"):
		return 3
	case strings.Contains(s, "unknown or invalid version"):
		return 4
	case strings.Contains(s, "can not rename QName"):
		return 5
	}
	return 9
}

// process = one OS process running the application: one provider with one built-in application
// configuration (its registry objects and version cache live as long as the process), whose
// definition builder may grow between attempts.  IAppStructsProvider.BuiltIn prepares the
// configuration on the first call and again on every call until it is prepared.
type process struct {
	prov   istructs.IAppStructsProvider
	adb    appdef.IAppDefBuilder
	ws     appdef.IWorkspaceBuilder
	docs   map[string]bool
	hasRec bool
	ready  bool           // the configuration is prepared (the application runs)
	fixed  appdef.IAppDef // set for a redeployment through IAppStructsProvider.New
}

func (p *process) addDoc(d docSpec) {
	if p.docs[d.Name] {
		return
	}
	if len(d.Containers) > 0 && !p.hasRec {
		p.ws.AddCRecord(qn("rec"))
		p.hasRec = true
	}
	doc := p.ws.AddCDoc(qn(d.Name))
	if d.Singleton {
		doc.SetSingleton()
	}
	for _, c := range d.Containers {
		doc.AddContainer(c, qn("rec"), 0, 1)
	}
	p.docs[d.Name] = true
}

func newProcess(st istorage.IAppStorage, s schema) (p *process, err error) {
	defer func() {
		if r := recover(); r != nil {
			err = fmt.Errorf("schema does not build: %v", r)
		}
	}()
	p = &process{adb: builder.New(), docs: map[string]bool{}}
	p.adb.AddPackage(pkgName, "test.com/t")
	p.ws = p.adb.AddWorkspace(qn("ws"))
	for _, d := range s.Docs {
		if len(d.Containers) > 0 && !p.hasRec { // the record type first, as schema.build does
			p.ws.AddCRecord(qn("rec"))
			p.hasRec = true
		}
	}
	for _, d := range s.Docs {
		p.addDoc(d)
	}
	cfgs := istructsmem.AppConfigsType{}
	cfg := cfgs.AddBuiltInAppConfig(appName, p.adb)
	cfg.SetNumAppWorkspaces(1)
	p.prov = istructsmem.Provide(cfgs,
		payloads.ProvideIAppTokensFactory(itokensjwt.ProvideITokens(itokensjwt.SecretKeyExample, testingu.MockTime)),
		oneStorage{st}, isequencer.SequencesTrustLevel_0, nil)
	return p, nil
}

// grow adds the documents of s the builder does not have yet (an in-process retry may come with
// a changed definition: the configuration rebuilds it from the builder on every attempt)
func (p *process) grow(s schema) (err error) {
	defer func() {
		if r := recover(); r != nil {
			err = fmt.Errorf("schema does not build: %v", r)
		}
	}()
	for _, d := range s.Docs {
		p.addDoc(d)
	}
	return nil
}

func (p *process) def() (appdef.IAppDef, error) {
	if p.fixed != nil {
		return p.fixed, nil
	}
	return p.adb.Build()
}

// get = the application start of this process, or its in-process retry; for a redeployment
// IAppStructsProvider.New with the new definition on the provider that is already running
func (p *process) get() (istructs.IAppStructs, error) {
	if p.fixed != nil {
		return p.prov.New(appName, p.fixed, 1, 1)
	}
	return p.prov.BuiltIn(appName)
}

// redeploy: the application is deployed again, with another definition, through the provider of
// the running process (IAppStructsProvider.New): a new configuration with new registry objects
func redeploy(prev *process, s schema) (*process, error) {
	def, err := s.build()
	if err != nil {
		return nil, err
	}
	p := &process{prov: prev.prov, docs: map[string]bool{}, fixed: def}
	for _, d := range s.Docs {
		p.docs[d.Name] = true
		p.hasRec = p.hasRec || len(d.Containers) > 0
	}
	return p, nil
}

func rename(st istorage.IAppStorage, oldN, newN string) error {
	return qrename.Rename(st, appdef.MustParseQName(oldN), appdef.MustParseQName(newN))
}
