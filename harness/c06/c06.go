package c06

import (
	"bytes"
	"context"
	"strconv"
	"sync"
	"sync/atomic"
	"encoding/hex"
	"encoding/json"
	"fmt"
	"os"
	"sort"
	"strings"
	"time"

	"verifharness/kit"

	"github.com/voedger/voedger/pkg/istorage"
)

// Op is one storage operation of a history (byte strings in hex; Nil distinguishes nil from empty)
type Op struct {
	Op     string     `json:"op"`
	PK     string     `json:"pk,omitempty"`
	CC     string     `json:"cc,omitempty"`
	CCNil  bool       `json:"cc_nil,omitempty"`
	V      string     `json:"v,omitempty"`
	Old    string     `json:"old,omitempty"`
	TTL    int        `json:"ttl,omitempty"`
	Start  string     `json:"start,omitempty"`
	Finish string     `json:"finish,omitempty"`
	Items  [][3]string `json:"items,omitempty"` // pk, cc, v
	CCs    []string   `json:"ccs,omitempty"`
	Ms     int64      `json:"ms,omitempty"`
	Out    string     `json:"out,omitempty"` // observed, as a Coq term
	// used by C07 only: the handle the op goes through (0 | 1) and the fault injected into a write
	// ("before" | "after" | "partial:K": error with nothing / everything / the first K batch items applied)
	H     int    `json:"h,omitempty"`
	Fault string `json:"fault,omitempty"`
	// GetBatch only: the caller passes again the items slice of its latest earlier GetBatch with the same
	// partition key and clustering columns, Ok and *Data left as that call set them (callers re-use item slices;
	// a storage must set Ok and Data of every item on every call). Honoured by Session.Exec; ignored when there
	// is no such earlier call
	Reuse bool `json:"reuse,omitempty"`
	// used by C07 only: the op is applied to the storage directly, not through the cache (what an earlier run of
	// the process did: the cache starts cold over whatever the storage holds)
	Raw bool `json:"raw,omitempty"`
}

type History struct {
	Backend string `json:"backend"`
	Ops     []*Op  `json:"ops"`
	// used by C07 only: the two handles of the history are taken by two overlapping AppStorage calls
	ConcurrentHandles bool `json:"concurrent_handles,omitempty"`
}

// unhex decodes a byte string of a history: hex digits, or "<hex>*<n>" = the hex unit repeated n times
// (how a 70000-byte value is written in a corpus or replay file)
func unhex(s string) []byte {
	if i := strings.IndexByte(s, '*'); i >= 0 {
		unit, err := hex.DecodeString(s[:i])
		n, err2 := strconv.Atoi(s[i+1:])
		if err != nil || err2 != nil || n < 0 {
			panic(fmt.Sprintf("bad byte string %q", s))
		}
		return bytes.Repeat(unit, n)
	}
	b, err := hex.DecodeString(s)
	if err != nil {
		panic(err)
	}
	if b == nil {
		b = []byte{}
	}
	return b
}

// Unhex decodes a byte string of a history (for the properties that reuse the generator)
func Unhex(s string) []byte { return unhex(s) }

func cc(o *Op) []byte {
	if o.CCNil {
		return nil
	}
	return unhex(o.CC)
}

func optBytes(ok bool, b []byte) string {
	if !ok {
		return "None"
	}
	return "(Some " + kit.Val(b) + ")"
}

// Coq prints the op as a Coq `sop` term
func (o *Op) Coq() string { return o.coq() }

func (o *Op) coq() string {
	b := func(s string) string { return kit.Val(unhex(s)) }
	switch o.Op {
	case "Put":
		return fmt.Sprintf("OPut %s %s %s", b(o.PK), b(o.CC), b(o.V))
	case "PutBatch":
		items := make([]string, len(o.Items))
		for i, it := range o.Items {
			items[i] = fmt.Sprintf("(%s, %s, %s)", b(it[0]), b(it[1]), b(it[2]))
		}
		return "OPutBatch " + kit.List(items)
	case "Get":
		return fmt.Sprintf("OGet %s %s", b(o.PK), b(o.CC))
	case "GetBatch":
		ccs := make([]string, len(o.CCs))
		for i, c := range o.CCs {
			ccs[i] = b(c)
		}
		return fmt.Sprintf("OGetBatch %s %s", b(o.PK), kit.List(ccs))
	case "Read":
		return fmt.Sprintf("ORead %s %s %s", b(o.PK), b(o.Start), b(o.Finish))
	case "Ins":
		return fmt.Sprintf("OIns %s %s %s %d", b(o.PK), b(o.CC), b(o.V), o.TTL)
	case "Cas":
		return fmt.Sprintf("OCas %s %s %s %s %d", b(o.PK), b(o.CC), b(o.Old), b(o.V), o.TTL)
	case "Cad":
		return fmt.Sprintf("OCad %s %s %s", b(o.PK), b(o.CC), b(o.Old))
	case "TTLGet":
		return fmt.Sprintf("OTTLGet %s %s", b(o.PK), b(o.CC))
	case "TTLRead":
		return fmt.Sprintf("OTTLRead %s %s %s", b(o.PK), b(o.Start), b(o.Finish))
	case "QueryTTL":
		return fmt.Sprintf("OQueryTTL %s %s", b(o.PK), b(o.CC))
	case "Advance":
		return fmt.Sprintf("OAdvance %d", o.Ms)
	}
	panic("bad op " + o.Op)
}

// Session is the caller's side of one run of a history against one storage instance: it keeps the GetBatch
// item slices so that a later GetBatch marked Reuse can pass the same slice again
type Session struct {
	batches map[string][]istorage.GetBatchItem
}

func NewSession() *Session { return &Session{batches: map[string][]istorage.GetBatchItem{}} }

// Exec runs one op on the storage and returns the canonical observed output (a Coq `sout` term)
func Exec(st istorage.IAppStorage, clock *kit.Clock, o *Op) string {
	return NewSession().Exec(st, clock, o)
}

// Exec runs one op of the session's history on the storage (see the package-level Exec)
func (ss *Session) Exec(st istorage.IAppStorage, clock *kit.Clock, o *Op) string {
	ctx := context.Background()
	rows := func(read func(context.Context, []byte, []byte, []byte, istorage.ReadCallback) error) string {
		var items []string
		err := read(ctx, unhex(o.PK), unhex(o.Start), unhex(o.Finish), func(c, v []byte) error {
			items = append(items, fmt.Sprintf("(%s, %s)", kit.Val(c), kit.Val(v)))
			return nil
		})
		if err != nil {
			return "RErr"
		}
		return "RRows " + kit.List(items)
	}
	// the caller owns the byte slices it passes and may reuse them after the call (the event codec
	// passes pooled buffers): every slice handed to a write is scribbled over afterwards, so a
	// backend or cache that keeps a reference instead of a copy shows in the next read
	scribble := func(bs ...[]byte) {
		for _, b := range bs {
			for i := range b {
				b[i] ^= 0xA5
			}
		}
	}
	switch o.Op {
	case "Put":
		pk, c, v := unhex(o.PK), cc(o), unhex(o.V)
		err := st.Put(pk, c, v)
		scribble(pk, c, v)
		if err != nil {
			return "RErr"
		}
		return "RUnit"
	case "PutBatch":
		items := make([]istorage.BatchItem, len(o.Items))
		for i, it := range o.Items {
			items[i] = istorage.BatchItem{PKey: unhex(it[0]), CCols: unhex(it[1]), Value: unhex(it[2])}
		}
		err := st.PutBatch(items)
		for _, it := range items {
			scribble(it.PKey, it.CCols, it.Value)
		}
		if err != nil {
			return "RErr"
		}
		return "RUnit"
	case "Get":
		data := []byte("garbage")
		ok, err := st.Get(unhex(o.PK), cc(o), &data)
		if err != nil {
			return "RErr"
		}
		return "RGet " + optBytes(ok, data)
	case "GetBatch":
		key := o.PK + "|" + strings.Join(o.CCs, ",")
		items := ss.batches[key]
		if !o.Reuse || items == nil {
			items = make([]istorage.GetBatchItem, len(o.CCs))
			bufs := make([][]byte, len(o.CCs))
			for i, c := range o.CCs {
				bufs[i] = []byte("junk")
				items[i] = istorage.GetBatchItem{CCols: unhex(c), Data: &bufs[i]}
			}
		}
		ss.batches[key] = items
		if err := st.GetBatch(unhex(o.PK), items); err != nil {
			return "RErr"
		}
		outs := make([]string, len(items))
		for i, it := range items {
			outs[i] = optBytes(it.Ok, *it.Data)
		}
		return "RBatch " + kit.List(outs)
	case "Read":
		return rows(st.Read)
	case "TTLRead":
		return rows(st.TTLRead)
	case "Ins":
		pk, c, v := unhex(o.PK), cc(o), unhex(o.V)
		ok, err := st.InsertIfNotExists(pk, c, v, o.TTL)
		scribble(pk, c, v)
		if err != nil {
			return "RErr"
		}
		return "RBool " + kit.Bool(ok)
	case "Cas":
		pk, c, old, v := unhex(o.PK), cc(o), unhex(o.Old), unhex(o.V)
		ok, err := st.CompareAndSwap(pk, c, old, v, o.TTL)
		scribble(pk, c, old, v)
		if err != nil {
			return "RErr"
		}
		return "RBool " + kit.Bool(ok)
	case "Cad":
		ok, err := st.CompareAndDelete(unhex(o.PK), cc(o), unhex(o.Old))
		if err != nil {
			return "RErr"
		}
		return "RBool " + kit.Bool(ok)
	case "TTLGet":
		data := []byte("garbage")
		ok, err := st.TTLGet(unhex(o.PK), cc(o), &data)
		if err != nil {
			return "RErr"
		}
		return "RGet " + optBytes(ok, data)
	case "QueryTTL":
		ttl, ok, err := st.QueryTTL(unhex(o.PK), cc(o))
		if err != nil {
			return "RErr"
		}
		if !ok {
			return "RTTL None"
		}
		return fmt.Sprintf("RTTL (Some %d%%Z)", ttl)
	case "Advance":
		if !clock.AdvanceSettle(time.Duration(o.Ms) * time.Millisecond) {
			return "RErr"
		}
		return "RUnit"
	}
	panic("bad op " + o.Op)
}

func run(h *History) (kit.Case, error) {
	clock := kit.NewClock()
	st, cleanup, err := kit.NewBackend(h.Backend, clock)
	if err != nil {
		return kit.Case{}, err
	}
	defer cleanup()
	ops := make([]string, len(h.Ops))
	outs := make([]string, len(h.Ops))
	tags := map[string]bool{h.Backend: true}
	ss := NewSession()
	for i, o := range h.Ops {
		o.Out = ss.Exec(st, clock, o)
		ops[i] = o.coq()
		outs[i] = o.Out
		tags["op:"+o.Op] = true
		if o.Out == "RErr" {
			tags["out:err"] = true
		}
	}
	for _, t := range append(probeTags(h), pairTags(h)...) {
		tags[t] = true
	}
	var tl []string
	for t := range tags {
		tl = append(tl, t)
	}
	sort.Strings(tl)
	be := "Mem"
	if h.Backend == "bbolt" {
		be = "Bbolt"
	}
	var sb strings.Builder
	sb.WriteString(h.Backend)
	for _, o := range h.Ops {
		sb.WriteString("|" + o.coq())
	}
	return kit.Case{
		Coq:        fmt.Sprintf("CHist (mkTrace %s %s %s)", be, kit.List(ops), kit.List(outs)),
		Key:        sb.String(),
		Nontrivial: nontrivial(h),
		Desc:       h,
		Tags:       tl,
	}, nil
}

// probeTags: a history that uses the reserved bolt key {0x00} as clustering columns or as a
// range bound on bbolt is the F2 probe (documented collision of the on-disk key format)
func probeTags(h *History) []string {
	if h.Backend != "bbolt" {
		return nil
	}
	uses := false
	for _, o := range h.Ops {
		for _, s := range append([]string{o.CC, o.Start, o.Finish}, o.CCs...) {
			if s == "00" {
				uses = true
			}
		}
		for _, it := range o.Items {
			if it[1] == "00" {
				uses = true
			}
		}
	}
	if uses {
		return []string{"F2:cc-equals-reserved-null-key"}
	}
	return nil
}

// non-trivial: at least one write and one read-type op addressing a key written before
func nontrivial(h *History) bool {
	written := map[string]bool{}
	for _, o := range h.Ops {
		switch o.Op {
		case "Put", "Ins", "Cas":
			written[o.PK] = true
		case "PutBatch":
			for _, it := range o.Items {
				written[it[0]] = true
			}
		case "Get", "GetBatch", "Read", "TTLGet", "TTLRead", "QueryTTL", "Cad":
			if written[o.PK] {
				return true
			}
		}
	}
	return false
}

// LoadHistory reads a history from a corpus or replay file
func LoadHistory(path string) (*History, error) { return loadHistory(path) }

func loadHistory(path string) (*History, error) {
	b, err := os.ReadFile(path)
	if err != nil {
		return nil, err
	}
	var w struct {
		Case *struct {
			Desc *History `json:"desc"`
		} `json:"case"`
		First *struct {
			Desc *History `json:"desc"`
		} `json:"first_disagreeing_case"`
	}
	if err := json.Unmarshal(b, &w); err == nil {
		if w.Case != nil && w.Case.Desc != nil {
			return w.Case.Desc, nil
		}
		if w.First != nil && w.First.Desc != nil {
			return w.First.Desc, nil
		}
	}
	var h History
	if err := json.Unmarshal(b, &h); err != nil {
		return nil, err
	}
	return &h, nil
}

// runConc: n goroutines are released together, each doing one InsertIfNotExists (or, on a present
// row, one CompareAndSwap from the same old value) on the same key of a real backend; per key the
// number of callers that got ok=true is recorded. Conditional operations act atomically: exactly
// one wins. (A test of the real backends next to the theorem about the one-transaction model; a
// backend that checks and writes in two transactions loses it within a few keys.)
func runConc(backend string, n, keys int, seed uint64) (kit.Case, error) {
	clock := kit.NewClock()
	st, cleanup, err := kit.NewBackend(backend, clock)
	if err != nil {
		return kit.Case{}, err
	}
	defer cleanup()
	winners := make([]string, 0, 2*keys)
	for k := 0; k < keys; k++ {
		pk, cc := []byte("conc"), []byte(fmt.Sprintf("k%d-%d", seed, k))
		for round := 0; round < 2; round++ { // 0: conditional insert on the absent row; 1: compare-and-swap on the present one
			var cur []byte
			if round == 1 {
				if ok, err := st.Get(pk, cc, &cur); err != nil || !ok {
					return kit.Case{}, fmt.Errorf("row written by the winner is not there (%v, %v)", ok, err)
				}
			}
			var won atomic.Int32
			var failed atomic.Int32
			var wg sync.WaitGroup
			start := make(chan struct{})
			for g := 0; g < n; g++ {
				wg.Add(1)
				go func(g int) {
					defer wg.Done()
					<-start
					var ok bool
					var err error
					if round == 0 {
						ok, err = st.InsertIfNotExists(pk, cc, []byte{1, byte(g)}, 0)
					} else {
						ok, err = st.CompareAndSwap(pk, cc, cur, []byte{2, byte(g)}, 0)
					}
					if err != nil {
						failed.Add(1)
					} else if ok {
						won.Add(1)
					}
				}(g)
			}
			close(start)
			wg.Wait()
			if failed.Load() > 0 {
				return kit.Case{}, fmt.Errorf("conditional operation returned an error under concurrency")
			}
			winners = append(winners, fmt.Sprint(won.Load()))
		}
	}
	be := "Mem"
	if backend == "bbolt" {
		be = "Bbolt"
	}
	return kit.Case{
		Coq:        fmt.Sprintf("CConc %s %d %s", be, n, kit.List(winners)),
		Key:        fmt.Sprintf("conc|%s|%d|%d|%d", backend, n, keys, seed),
		Nontrivial: true,
		Desc:       map[string]any{"kind": "concurrent-conditional-ops", "backend": backend, "goroutines": n, "keys": keys, "winners_per_key_and_round": winners},
		Tags:       []string{backend, "conc"},
	}, nil
}
