package c06

import (
	"os"
	"sort"
	"strings"

	"verifharness/kit"
)

// colliding alphabets (hex). "00" (the reserved bolt key) is deliberately absent from the main
// stream; it is exercised by the corpus probes of finding F2 only.
var pks = []string{"61", "6162", "62", "00", "ff", "6100"}
var ccs = []string{"", "", "0000", "01", "ff", "ffff", "61", "6162", "62", "0001", "0100"}
var bounds = []string{"", "0000", "01", "ff", "ffff", "61", "6162", "62", "0001", "63", "00ff"}
var vals = []string{"", "00", "7631", "7632", "76317632", "ff"}
var ttls = []int{0, 0, 1, 2, 3, 3600, 3601}
var advances = []int64{1, 999, 1000, 1001, 1999, 2000, 3000, 3599999, 3600000, 3600001, 3601000, 7200000}

// Alphabets lets other properties (C07) reuse the history generator over their own key sets
type Alphabets struct{ PKs, CCs, Bounds []string }

var Default = Alphabets{PKs: pks, CCs: ccs, Bounds: bounds}

func genOp(r *kit.Rng, pk string, al Alphabets) *Op {
	pks, ccs, bounds := al.PKs, al.CCs, al.Bounds
	_ = pks
	c := kit.Pick(r, ccs)
	o := &Op{PK: pk, CC: c}
	if c == "" && r.Bool() {
		o.CCNil = true
	}
	switch r.Intn(22) {
	case 0, 1, 2:
		o.Op, o.V = "Put", kit.Pick(r, vals)
	case 3:
		o.Op = "PutBatch"
		n := 1 + r.Intn(3)
		for i := 0; i < n; i++ {
			p := pk
			if r.Chance(1, 4) {
				p = kit.Pick(r, pks)
			}
			o.Items = append(o.Items, [3]string{p, kit.Pick(r, ccs), kit.Pick(r, vals)})
		}
		o.PK, o.CC = "", ""
		o.PK = pk
	case 4, 5:
		o.Op = "Get"
	case 6:
		o.Op = "GetBatch"
		n := 1 + r.Intn(4)
		for i := 0; i < n; i++ {
			o.CCs = append(o.CCs, kit.Pick(r, ccs))
		}
		o.CC = ""
	case 7, 8:
		o.Op, o.Start, o.Finish, o.CC = "Read", kit.Pick(r, bounds), kit.Pick(r, bounds), ""
	case 9, 10:
		o.Op, o.V, o.TTL = "Ins", kit.Pick(r, vals), kit.Pick(r, ttls)
	case 11, 12:
		o.Op, o.Old, o.V, o.TTL = "Cas", kit.Pick(r, vals), kit.Pick(r, vals), kit.Pick(r, ttls)
	case 13, 14:
		o.Op, o.Old = "Cad", kit.Pick(r, vals)
	case 15, 16:
		o.Op = "TTLGet"
	case 17:
		o.Op, o.Start, o.Finish, o.CC = "TTLRead", kit.Pick(r, bounds), kit.Pick(r, bounds), ""
	case 18:
		o.Op = "QueryTTL"
	default:
		o.Op, o.Ms, o.PK, o.CC = "Advance", kit.Pick(r, advances), "", ""
	}
	return o
}

func genHistory(r *kit.Rng, backend string) *History { return GenHistory(r, backend, Default) }

// GenHistory generates one history over the given alphabets
func GenHistory(r *kit.Rng, backend string, al Alphabets) *History {
	pks := al.PKs
	h := &History{Backend: backend}
	n := 5 + r.Intn(40)
	// most ops hit one or two partitions so that they interact
	hot := []string{kit.Pick(r, pks), kit.Pick(r, pks)}
	for i := 0; i < n; i++ {
		pk := kit.Pick(r, hot)
		if r.Chance(1, 8) {
			pk = kit.Pick(r, pks)
		}
		h.Ops = append(h.Ops, genOp(r, pk, al))
	}
	// TTL window probe: a TTL write at a clock value off the whole second, then point reads one
	// millisecond before the expiry, at it and after it (the row must be visible up to, not including,
	// write time + ttl seconds, whatever the sub-second part of the write time was)
	if r.Chance(2, 5) {
		pk, cc := kit.Pick(r, hot), kit.Pick(r, al.CCs)
		ttl := 1 + r.Intn(3)
		frac := kit.Pick(r, []int64{1, 250, 500, 999})
		probe := []*Op{{Op: "Advance", Ms: frac}}
		if r.Bool() {
			probe = append(probe, &Op{Op: "Ins", PK: pk, CC: cc, V: "7631", TTL: ttl})
		} else {
			probe = append(probe, &Op{Op: "Put", PK: pk, CC: cc, V: "7630"}, &Op{Op: "Cas", PK: pk, CC: cc, Old: "7630", V: "7631", TTL: ttl})
		}
		probe = append(probe, &Op{Op: "Advance", Ms: int64(ttl)*1000 - frac}, &Op{Op: "TTLGet", PK: pk, CC: cc},
			&Op{Op: "Advance", Ms: frac - 1}, &Op{Op: "TTLGet", PK: pk, CC: cc}, &Op{Op: "QueryTTL", PK: pk, CC: cc}, &Op{Op: "TTLRead", PK: pk},
			&Op{Op: "Advance", Ms: 1}, &Op{Op: "TTLGet", PK: pk, CC: cc}, &Op{Op: "Get", PK: pk, CC: cc})
		at := r.Intn(len(h.Ops) + 1)
		h.Ops = append(h.Ops[:at:at], append(probe, h.Ops[at:]...)...)
	}
	// final sweep: everything observable
	for _, pk := range hot {
		h.Ops = append(h.Ops, &Op{Op: "TTLRead", PK: pk}, &Op{Op: "Read", PK: pk})
	}
	return h
}

func Generate(seed uint64, n int, tier, corpusDir string, shard int, out *kit.Out) error {
	r := kit.NewRng(seed)
	var hs []*History
	if corpusDir != "" {
		entries, _ := os.ReadDir(corpusDir)
		var names []string
		for _, e := range entries {
			if strings.HasSuffix(e.Name(), ".json") {
				names = append(names, e.Name())
			}
		}
		sort.Strings(names)
		for _, nm := range names {
			h, err := loadHistory(corpusDir + "/" + nm)
			if err != nil {
				return err
			}
			hs = append(hs, h)
		}
	}
	for i := 0; i < n; i++ {
		backend := "mem"
		if i%2 == 1 {
			backend = "bbolt"
		}
		hs = append(hs, genHistory(r.Fork(), backend))
	}
	// concurrent conditional operations on both real backends (see runConc)
	// (mem's window between check and write would be a few instructions wide: many callers, many keys)
	for _, cc := range []struct {
		be      string
		n, keys int
	}{{"mem", 8, 600}, {"mem", 16, 300}, {"bbolt", 4, 25}, {"bbolt", 6, 25}} {
		keys := cc.keys
		if tier == "thorough" {
			keys *= 6
		}
		c, err := runConc(cc.be, cc.n, keys, seed+uint64(shard))
		if err != nil {
			return err
		}
		out.Emit(c)
	}
	for _, h := range hs {
		for _, o := range h.Ops {
			o.Out = ""
		}
		c, err := run(h)
		if err != nil {
			return err
		}
		out.Emit(c)
	}
	return nil
}

func Replay(path string, out *kit.Out) error {
	h, err := loadHistory(path)
	if err != nil {
		return err
	}
	for _, o := range h.Ops {
		o.Out = ""
	}
	c, err := run(h)
	if err != nil {
		return err
	}
	out.Emit(c)
	return nil
}

func init() {
	kit.Register("C06", kit.Runner{Generate: Generate, Replay: Replay})
}
