package c06

import (
	"os"
	"sort"
	"strings"

	"verifharness/kit"
)

// colliding alphabets (hex). "00" (the reserved bolt key) is deliberately absent from the main
// stream; it is exercised by the corpus probes of finding F2 only.
var pks = []string{"61", "6162", "62", "00", "ff", "6100"}
var ccs = []string{"", "", "0000", "01", "ff", "ffff", "61", "6162", "62", "0001", "0100"}
var bounds = []string{"", "0000", "01", "ff", "ffff", "61", "6162", "62", "0001", "63", "00ff"}
var vals = []string{"", "00", "7631", "7632", "76317632", "ff"}
var ttls = []int{0, 0, 1, 2, 3, 3600, 3601}
var advances = []int64{1, 999, 1000, 1001, 1999, 2000, 3000, 3599999, 3600000, 3600001, 3601000, 7200000}

// Alphabets lets other properties (C07) reuse the history generator over their own key sets
type Alphabets struct{ PKs, CCs, Bounds []string }

var Default = Alphabets{PKs: pks, CCs: ccs, Bounds: bounds}

func genOp(r *kit.Rng, pk string, al Alphabets) *Op {
	pks, ccs, bounds := al.PKs, al.CCs, al.Bounds
	_ = pks
	c := kit.Pick(r, ccs)
	o := &Op{PK: pk, CC: c}
	if c == "" && r.Bool() {
		o.CCNil = true
	}
	switch r.Intn(22) {
	case 0, 1, 2:
		o.Op, o.V = "Put", kit.Pick(r, vals)
	case 3:
		o.Op = "PutBatch"
		n := 1 + r.Intn(3)
		for i := 0; i < n; i++ {
			p := pk
			if r.Chance(1, 4) {
				p = kit.Pick(r, pks)
			}
			o.Items = append(o.Items, [3]string{p, kit.Pick(r, ccs), kit.Pick(r, vals)})
		}
		o.PK, o.CC = "", ""
		o.PK = pk
	case 4, 5:
		o.Op = "Get"
	case 6:
		o.Op = "GetBatch"
		n := 1 + r.Intn(4)
		for i := 0; i < n; i++ {
			o.CCs = append(o.CCs, kit.Pick(r, ccs))
		}
		o.CC = ""
	case 7, 8:
		o.Op, o.Start, o.Finish, o.CC = "Read", kit.Pick(r, bounds), kit.Pick(r, bounds), ""
	case 9, 10:
		o.Op, o.V, o.TTL = "Ins", kit.Pick(r, vals), kit.Pick(r, ttls)
	case 11, 12:
		o.Op, o.Old, o.V, o.TTL = "Cas", kit.Pick(r, vals), kit.Pick(r, vals), kit.Pick(r, ttls)
	case 13, 14:
		o.Op, o.Old = "Cad", kit.Pick(r, vals)
	case 15, 16:
		o.Op = "TTLGet"
	case 17:
		o.Op, o.Start, o.Finish, o.CC = "TTLRead", kit.Pick(r, bounds), kit.Pick(r, bounds), ""
	case 18:
		o.Op = "QueryTTL"
	default:
		o.Op, o.Ms, o.PK, o.CC = "Advance", kit.Pick(r, advances), "", ""
	}
	return o
}

// pointReads: a Get for every key of the batch (sometimes with another read in between)
func pointReads(r *kit.Rng, batch *Op) []*Op {
	var ops []*Op
	for _, c := range batch.CCs {
		if r.Chance(1, 6) {
			ops = append(ops, &Op{Op: kit.Pick(r, []string{"TTLGet", "QueryTTL"}), PK: batch.PK, CC: c})
		}
		ops = append(ops, &Op{Op: "Get", PK: batch.PK, CC: c, CCNil: c == "" && r.Bool()})
	}
	return ops
}

// batchOver: a GetBatch over the given keys mixed with up to two others
func batchOver(r *kit.Rng, pk string, keys []string, al Alphabets) *Op {
	o := &Op{Op: "GetBatch", PK: pk}
	o.CCs = append(o.CCs, keys...)
	for i, n := 0, r.Intn(3); i < n; i++ {
		o.CCs = append(o.CCs, kit.Pick(r, al.CCs))
	}
	for i := len(o.CCs) - 1; i > 0; i-- {
		j := r.Intn(i + 1)
		o.CCs[i], o.CCs[j] = o.CCs[j], o.CCs[i]
	}
	return o
}

func batchPointProbe(r *kit.Rng, pk string, al Alphabets) []*Op {
	var probe []*Op
	var keys []string
	maxTTL := 0
	for i, n := 0, 1+r.Intn(2); i < n; i++ {
		c := kit.Pick(r, al.CCs)
		ttl := 1 + r.Intn(3)
		if ttl > maxTTL {
			maxTTL = ttl
		}
		keys = append(keys, c)
		switch r.Intn(3) {
		case 0: // on a row of the history the insert may be refused: then the probe reads whatever is there
			probe = append(probe, &Op{Op: "Ins", PK: pk, CC: c, V: "7631", TTL: ttl})
		case 1:
			probe = append(probe, &Op{Op: "Put", PK: pk, CC: c, V: "7630"}, &Op{Op: "Cas", PK: pk, CC: c, Old: "7630", V: kit.Pick(r, []string{"7631", ""}), TTL: ttl})
		default: // certainly absent before: removed, then inserted
			probe = append(probe, &Op{Op: "Put", PK: pk, CC: c, V: "7630"}, &Op{Op: "Cad", PK: pk, CC: c, Old: "7630"},
				&Op{Op: "Ins", PK: pk, CC: c, V: kit.Pick(r, []string{"7632", ""}), TTL: ttl})
		}
	}
	if r.Chance(1, 3) {
		c := kit.Pick(r, al.CCs)
		keys = append(keys, c)
		probe = append(probe, &Op{Op: "Put", PK: pk, CC: c, V: kit.Pick(r, vals)})
	}
	exp := int64(maxTTL) * 1000
	var adv int64
	switch r.Intn(8) {
	case 0:
		adv = exp - 1
	case 1:
		adv = 0 // no advance at all
	case 2, 3:
		adv = exp
	case 4, 5:
		adv = exp + kit.Pick(r, []int64{1, 1000, 60000, 3500000})
	case 6:
		adv = 3599999 // one millisecond before the first cleaner run of a fresh history
	default:
		adv = 3600000 + kit.Pick(r, []int64{0, 1, 5000}) // the cleaner has run
	}
	if adv > 0 {
		probe = append(probe, &Op{Op: "Advance", Ms: adv})
	}
	for round, rounds := 0, 1+r.Intn(2); round < rounds; round++ {
		if r.Chance(2, 3) {
			b := batchOver(r, pk, keys, al)
			probe = append(probe, b)
			probe = append(probe, pointReads(r, b)...)
		} else {
			for _, c := range keys {
				probe = append(probe, &Op{Op: "Get", PK: pk, CC: c})
			}
			if r.Chance(1, 3) {
				probe = append(probe, &Op{Op: kit.Pick(r, []string{"Read", "TTLRead"}), PK: pk})
			}
			probe = append(probe, batchOver(r, pk, keys, al))
		}
		if round+1 < rounds { // a second look later: further past the expiry, or across the cleaner
			probe = append(probe, &Op{Op: "Advance", Ms: kit.Pick(r, []int64{1, 1000, 3000, 3600000})})
		}
	}
	return probe
}

// pairTags: how often the clause "batch reads agree with point reads" has something to compare: a
// GetBatch item and a Get of one key with only reads between them ("pair"), and what kind of row the
// key held by the reference clock (written with a TTL and still live / expired but not yet seen by a
// cleaner run / plain / absent). Computed from the executed history (o.Out is set).
func pairTags(h *History) []string {
	type key struct{ pk, cc string }
	exp := map[key]int64{} // 0 = plain row, >0 = expiry (ms); absent = no row
	var now, lastClean int64
	nextClean := int64(3600000)
	gets, batch := map[key]bool{}, map[key]bool{}
	tags := map[string]bool{}
	pair := func(k key) {
		tags["pair"] = true
		e, ok := exp[k]
		switch {
		case !ok:
			tags["pair:absent"] = true
		case e == 0:
			tags["pair:plain"] = true
		case now < e:
			tags["pair:ttl-live"] = true
		case lastClean < e:
			tags["pair:ttl-expired-uncleaned"] = true
		default:
			tags["pair:ttl-expired"] = true
		}
	}
	for _, o := range h.Ops {
		k := key{o.PK, o.CC}
		switch o.Op {
		case "Get":
			if batch[k] {
				pair(k)
			}
			gets[k] = true
			continue
		case "GetBatch":
			for _, c := range o.CCs {
				if gets[key{o.PK, c}] {
					pair(key{o.PK, c})
				}
				batch[key{o.PK, c}] = true
			}
			continue
		case "Read", "TTLGet", "TTLRead", "QueryTTL":
			continue
		}
		gets, batch = map[key]bool{}, map[key]bool{}
		switch o.Op {
		case "Put":
			exp[k] = 0
		case "PutBatch":
			if o.Out == "RUnit" {
				for _, it := range o.Items {
					exp[key{it[0], it[1]}] = 0
				}
			}
		case "Ins", "Cas":
			if o.Out == "RBool true" {
				exp[k] = 0
				if o.TTL > 0 {
					exp[k] = now + int64(o.TTL)*1000
				}
			}
		case "Cad":
			if o.Out == "RBool true" {
				delete(exp, k)
			}
		case "Advance":
			now += o.Ms
			if nextClean <= now { // bbolt's hourly cleaner, as modelled (mem has none)
				lastClean, nextClean = now, now+3600000
			}
		}
	}
	var tl []string
	for t := range tags {
		tl = append(tl, t)
	}
	return tl
}

func genHistory(r *kit.Rng, backend string) *History { return GenHistory(r, backend, Default) }

// GenHistory generates one history over the given alphabets
func GenHistory(r *kit.Rng, backend string, al Alphabets) *History {
	pks := al.PKs
	h := &History{Backend: backend}
	n := 5 + r.Intn(40)
	// most ops hit one or two partitions so that they interact
	hot := []string{kit.Pick(r, pks), kit.Pick(r, pks)}
	for i := 0; i < n; i++ {
		pk := kit.Pick(r, hot)
		if r.Chance(1, 8) {
			pk = kit.Pick(r, pks)
		}
		o := genOp(r, pk, al)
		h.Ops = append(h.Ops, o)
		// batch reads agree with point reads: the same keys through the other call before anything
		// can change (only reads in between), whatever kind of row the history has left there
		switch {
		case o.Op == "GetBatch" && r.Chance(3, 5):
			h.Ops = append(h.Ops, pointReads(r, o)...)
		case o.Op == "Get" && r.Chance(1, 3):
			h.Ops = append(h.Ops, batchOver(r, o.PK, []string{o.CC}, al))
		}
	}
	// TTL window probe: a TTL write at a clock value off the whole second, then point reads one
	// millisecond before the expiry, at it and after it (the row must be visible up to, not including,
	// write time + ttl seconds, whatever the sub-second part of the write time was)
	if r.Chance(2, 5) {
		pk, cc := kit.Pick(r, hot), kit.Pick(r, al.CCs)
		ttl := 1 + r.Intn(3)
		frac := kit.Pick(r, []int64{1, 250, 500, 999})
		probe := []*Op{{Op: "Advance", Ms: frac}}
		if r.Bool() {
			probe = append(probe, &Op{Op: "Ins", PK: pk, CC: cc, V: "7631", TTL: ttl})
		} else {
			probe = append(probe, &Op{Op: "Put", PK: pk, CC: cc, V: "7630"}, &Op{Op: "Cas", PK: pk, CC: cc, Old: "7630", V: "7631", TTL: ttl})
		}
		probe = append(probe, &Op{Op: "Advance", Ms: int64(ttl)*1000 - frac}, &Op{Op: "TTLGet", PK: pk, CC: cc},
			&Op{Op: "Advance", Ms: frac - 1}, &Op{Op: "TTLGet", PK: pk, CC: cc}, &Op{Op: "QueryTTL", PK: pk, CC: cc}, &Op{Op: "TTLRead", PK: pk},
			&Op{Op: "Advance", Ms: 1}, &Op{Op: "TTLGet", PK: pk, CC: cc}, &Op{Op: "Get", PK: pk, CC: cc})
		at := r.Intn(len(h.Ops) + 1)
		h.Ops = append(h.Ops[:at:at], append(probe, h.Ops[at:]...)...)
	}
	// batch / point probe on rows written with a TTL: one or two such rows (and sometimes a plain
	// one), the clock moved to before, onto or past the expiry - mostly short of the hourly cleaner,
	// where mem already hides the row from plain reads and bbolt still shows it - then the rows read
	// through GetBatch and through Get with nothing but reads in between, in either order
	if r.Chance(3, 5) {
		probe := batchPointProbe(r, kit.Pick(r, hot), al)
		at := r.Intn(len(h.Ops) + 1)
		h.Ops = append(h.Ops[:at:at], append(probe, h.Ops[at:]...)...)
	}
	// final sweep: everything observable
	for _, pk := range hot {
		h.Ops = append(h.Ops, &Op{Op: "TTLRead", PK: pk}, &Op{Op: "Read", PK: pk})
	}
	return h
}

func Generate(seed uint64, n int, tier, corpusDir string, shard int, out *kit.Out) error {
	r := kit.NewRng(seed)
	var hs []*History
	if corpusDir != "" {
		entries, _ := os.ReadDir(corpusDir)
		var names []string
		for _, e := range entries {
			if strings.HasSuffix(e.Name(), ".json") {
				names = append(names, e.Name())
			}
		}
		sort.Strings(names)
		for _, nm := range names {
			h, err := loadHistory(corpusDir + "/" + nm)
			if err != nil {
				return err
			}
			hs = append(hs, h)
		}
	}
	for i := 0; i < n; i++ {
		backend := "mem"
		if i%2 == 1 {
			backend = "bbolt"
		}
		hs = append(hs, genHistory(r.Fork(), backend))
	}
	// concurrent conditional operations on both real backends (see runConc)
	// (mem's window between check and write would be a few instructions wide: many callers, many keys)
	for _, cc := range []struct {
		be      string
		n, keys int
	}{{"mem", 8, 600}, {"mem", 16, 300}, {"bbolt", 4, 25}, {"bbolt", 6, 25}} {
		keys := cc.keys
		if tier == "thorough" {
			keys *= 6
		}
		c, err := runConc(cc.be, cc.n, keys, seed+uint64(shard))
		if err != nil {
			return err
		}
		out.Emit(c)
	}
	for _, h := range hs {
		for _, o := range h.Ops {
			o.Out = ""
		}
		c, err := run(h)
		if err != nil {
			return err
		}
		out.Emit(c)
	}
	return nil
}

func Replay(path string, out *kit.Out) error {
	h, err := loadHistory(path)
	if err != nil {
		return err
	}
	for _, o := range h.Ops {
		o.Out = ""
	}
	c, err := run(h)
	if err != nil {
		return err
	}
	out.Emit(c)
	return nil
}

func init() {
	kit.Register("C06", kit.Runner{Generate: Generate, Replay: Replay})
}
