// Package c06: harness of property C06 (registers itself with kit.Register in an init function).
package c06
